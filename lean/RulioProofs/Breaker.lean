import RulioModel.Breaker
import RulioModel.BreakerGhost

/-! # Helper lemmas for C20: the `counts` array of the real breaker refines the ghost model `G` -/

open Gen.C20

theorem getD_range_map (n : Nat) (f : Nat → Nat) (i : Nat) (h : i < n) :
    ((List.range n).map f).getD i 0 = f i := by
  simp [List.getD, h]

theorem range_map_congr (n : Nat) (f g : Nat → Nat) (h : ∀ i, i < n → f i = g i) :
    (List.range n).map f = (List.range n).map g := by
  apply List.map_congr_left
  intro i hi
  exact h i (List.mem_range.mp hi)

/-- the net effect of the copy and the zeroing loop of `slide`: shift right by `k`, zero-fill -/
def shiftL (k : Nat) (cs : List Nat) : List Nat :=
  (List.range cs.length).map fun i => if i < k then 0 else cs.getD (i - k) 0

theorem goCopySelf_length (cs : List Nat) (d s : Nat) : (goCopySelf cs d s).length = cs.length := by
  simp [goCopySelf]

/-- **tie to the generated offsets**: with the extracted `copyDst`, `copySrc`, `zeroLo`, `zeroCond` the two
statements of `slide` are a right shift by `k` -/
theorem slide_counts_eq (cs : List Nat) (k : Nat) :
    goZeroWhile (goCopySelf cs (copyDst k) (copySrc k)) (zeroLo k) (fun i => zeroCond i k) = shiftL k cs := by
  unfold goZeroWhile shiftL
  rw [goCopySelf_length]
  apply range_map_congr
  intro i hi
  simp only [zeroLo, zeroCond, copyDst, copySrc, Nat.zero_le, true_and, decide_eq_true_eq]
  by_cases hk : i < k
  · simp [hk]
  · simp only [hk, if_false]
    unfold goCopySelf
    rw [getD_range_map _ _ _ hi]
    have h1 : k ≤ i := Nat.le_of_not_lt hk
    have h2 : i - k < cs.length := by omega
    simp [h1, h2]

/-- per-bucket counts of the ghost admissions -/
def countsOf (all : List (Nat × Nat)) (n : Nat) : List Nat :=
  (List.range n).map fun i => all.countP (fun p => p.2 == i)

theorem countsOf_length (all : List (Nat × Nat)) (n : Nat) : (countsOf all n).length = n := by
  simp [countsOf]

theorem shiftL_countsOf (all : List (Nat × Nat)) (n k : Nat) :
    shiftL k (countsOf all n) = countsOf (all.map (fun p => (p.1, p.2 + k))) n := by
  unfold shiftL
  rw [countsOf_length]
  unfold countsOf
  apply range_map_congr
  intro i hi
  rw [List.countP_map]
  by_cases hk : i < k
  · simp only [hk, if_true]
    symm
    rw [List.countP_eq_zero]
    intro p _
    simp only [Function.comp_apply, beq_iff_eq]
    omega
  · simp only [hk, if_false]
    rw [getD_range_map _ _ _ (by omega)]
    apply List.countP_congr
    intro p _
    simp only [Function.comp_apply, beq_iff_eq]
    omega

theorem countP_lt_succ (all : List (Nat × Nat)) (n : Nat) :
    all.countP (fun p => decide (p.2 < n)) + all.countP (fun p => p.2 == n) =
      all.countP (fun p => decide (p.2 < n + 1)) := by
  induction all with
  | nil => simp
  | cons p all ih =>
    simp only [List.countP_cons]
    by_cases h1 : p.2 < n
    · have h2 : ¬ p.2 = n := by omega
      have h3 : p.2 < n + 1 := by omega
      simp [h1, h2, h3]; omega
    · by_cases h2 : p.2 = n
      · simp [h2]; omega
      · have h3 : ¬ p.2 < n + 1 := by omega
        simp [h1, h2, h3]; omega

theorem countsOf_sum (all : List (Nat × Nat)) (n : Nat) :
    (countsOf all n).sum = all.countP (fun p => decide (p.2 < n)) := by
  induction n with
  | zero => simp [countsOf]
  | succ n ih =>
    have : countsOf all (n + 1) = countsOf all n ++ [all.countP (fun p => p.2 == n)] := by
      simp [countsOf, List.range_succ]
    rw [this, List.sum_append, ih]
    simp only [List.sum_cons, List.sum_nil, Nat.add_zero]
    exact countP_lt_succ all n

theorem goIncrAt_countsOf (all : List (Nat × Nat)) (n now : Nat) :
    goIncrAt (countsOf all n) 0 = countsOf ((now, 0) :: all) n := by
  unfold goIncrAt
  rw [countsOf_length]
  unfold countsOf
  apply range_map_congr
  intro i hi
  rw [getD_range_map _ _ _ hi]
  simp only [List.countP_cons]
  by_cases h : i = 0
  · simp [h]
  · have : ¬ (0 : Nat) = i := by omega
    simp [h, this]

/-! ## the simulation relation -/

/-- bucket `i` of the real `counts` = number of ghost admissions that have been shifted `i` ticks -/
structure Refines (b : OB) (g : G) : Prop where
  counts : b.counts = countsOf g.all g.ticks
  res : b.res = g.res
  limit : b.limit = g.limit
  updated : b.updated = g.updated
  tpos : 0 < g.ticks

theorem OB.slide_res (b : OB) (now : Nat) : (b.slide now).res = b.res := rfl
theorem OB.slide_limit (b : OB) (now : Nat) : (b.slide now).limit = b.limit := rfl
theorem OB.slide_counts (b : OB) (now : Nat) : (b.slide now).counts = shiftL (b.shiftBy now) b.counts := by
  simp only [OB.slide]
  exact slide_counts_eq _ _

/-- **tie to the generated clamp**: `if len(b.counts) < ticks { ticks = len(b.counts) … }` is `min` -/
theorem clampTicks_eq_min (len r : Nat) : clampTicks len r = min r len := by
  unfold clampTicks
  by_cases h1 : len < r
  · simp [h1]; omega
  · simp [h1]; omega

/-- **tie to the generated assignments of `b.updated` in `slide`**: `now` when more than `len(b.counts)` ticks have
passed (everything has aged out), else `updated + ticks·resolution` — never `now` otherwise -/
theorem slideUpdated_eq (updated now len raw res : Nat) :
    slideUpdated updated now len raw res = if len < raw then now else updated + raw * res := by
  unfold slideUpdated
  by_cases h : len < raw <;> simp [h]

/-- **tie to the generated assignment of `b.updated` in `Do`**: an admission sets `updated := now` -/
theorem admitUpdated_eq (updated now : Nat) : admitUpdated updated now = now := rfl

theorem OB.slide_updated (b : OB) (now : Nat) :
    (b.slide now).updated = if b.counts.length < b.rawAt now then now else b.updated + b.rawAt now * b.res := by
  simp only [OB.slide]
  exact slideUpdated_eq _ _ _ _ _

theorem rawAt_eq (b : OB) (g : G) (h : Refines b g) (now : Nat) : b.rawAt now = (now - g.updated) / g.res := by
  unfold OB.rawAt
  rw [h.res, h.updated]
  rfl

theorem shiftBy_eq (b : OB) (g : G) (h : Refines b g) (now : Nat) :
    b.shiftBy now = min ((now - g.updated) / g.res) g.ticks := by
  unfold OB.shiftBy
  rw [rawAt_eq b g h, h.counts, countsOf_length, clampTicks_eq_min]

theorem slide_refines (b : OB) (g : G) (h : Refines b g) (now : Nat) : Refines (b.slide now) (g.slide now) := by
  refine ⟨?_, ?_, ?_, ?_, h.tpos⟩
  · rw [OB.slide_counts, shiftBy_eq b g h, h.counts, shiftL_countsOf]
    rfl
  · rw [OB.slide_res, h.res]; rfl
  · rw [OB.slide_limit, h.limit]; rfl
  · rw [OB.slide_updated, rawAt_eq b g h, h.counts, countsOf_length, h.res, h.updated]
    rfl

theorem total_refines (b : OB) (g : G) (h : Refines b g) : b.total = g.total := by
  unfold OB.total G.total
  rw [h.counts, countsOf_sum, List.countP_eq_length_filter]

/-- one call: the real breaker and the ghost take the same decision and stay related -/
theorem call_refines (b : OB) (g : G) (h : Refines b g) (now : Nat) :
    Refines (b.call now).1 (g.call now) ∧
    (b.call now).2 = decide ((g.slide now).total < (g.slide now).limit) := by
  have hs := slide_refines b g h now
  have ht := total_refines _ _ hs
  have hdec : admitTest (b.slide now).total (b.slide now).limit =
      decide ((g.slide now).total < (g.slide now).limit) := by
    simp [admitTest, ht, hs.limit]
  unfold OB.call G.call
  simp only [hdec]
  by_cases hc : (g.slide now).total < (g.slide now).limit
  · simp only [hc, decide_true, if_true, and_true]
    refine ⟨?_, hs.res, hs.limit, admitUpdated_eq (b.slide now).updated now, hs.tpos⟩
    show goIncrAt (b.slide now).counts incrIndex = countsOf ((now, 0) :: (g.slide now).all) (g.slide now).ticks
    rw [hs.counts]
    exact goIncrAt_countsOf _ _ _
  · simp only [hc, decide_false, if_false, and_true]
    exact hs

/-- one arrival (call or poll) -/
theorem stepEv_refines (b : OB) (g : G) (h : Refines b g) (e : BEv) :
    Refines (b.stepEv e).1 (g.step e) ∧
    (b.stepEv e).2 = (match e with
      | .call t => decide ((g.slide t).total < (g.slide t).limit)
      | .status _ => false) := by
  cases e with
  | call t => exact call_refines b g h t
  | status t => exact ⟨slide_refines b g h t, rfl⟩

theorem gcall_adm (g : G) (now : Nat) :
    (g.call now).adm = if (g.slide now).total < (g.slide now).limit then now :: g.adm else g.adm := by
  unfold G.call
  simp only []
  split
  · show now :: (g.slide now).adm = now :: g.adm
    rw [G.slide_adm]
  · exact G.slide_adm g now

/-- the admitted times of the real model are the admission list of the ghost -/
theorem admitted_refines (b : OB) (g : G) (h : Refines b g) (es : List BEv) :
    OB.admittedEv.go b es g.adm = (g.run es).adm := by
  induction es generalizing b g with
  | nil => rfl
  | cons e es ih =>
    have hc := stepEv_refines b g h e
    simp only [OB.admittedEv.go, G.run]
    rw [← ih _ _ hc.1, hc.2]
    cases e with
    | call t =>
      simp only [G.step, gcall_adm, BEv.time]
      by_cases hlt : (g.slide t).total < (g.slide t).limit <;> simp [hlt]
    | status t =>
      simp only [G.step, G.slide_adm]
      rfl

theorem after_refines (b : OB) (g : G) (h : Refines b g) (es : List BEv) : Refines (b.afterEv es) (g.run es) := by
  induction es generalizing b g with
  | nil => exact h
  | cons e es ih => exact ih _ _ (stepEv_refines b g h e).1

/-- the ghost that corresponds to a breaker whose counts are all zero -/
def ghost0 (b : OB) : G := { limit := b.limit, res := b.res, ticks := b.ticks, all := [], updated := b.updated }

theorem refines_zero (b : OB) (hz : b.counts = List.replicate b.ticks 0) (ht : 0 < b.ticks) : Refines b (ghost0 b) := by
  refine ⟨?_, rfl, rfl, rfl, ht⟩
  rw [hz]
  simp only [ghost0, countsOf, List.countP_nil]
  apply List.ext_getElem <;> simp

theorem binv_ghost0 (b : OB) (hr : 0 < b.res) : BInv (ghost0 b) := by
  refine ⟨hr, ?_, ?_, ?_⟩
  · intro p hp; simp [ghost0] at hp
  · simp [ghost0, G.adm]
  · intro newer t older he
    simp [ghost0, G.adm] at he

theorem linv_ghost0 (b : OB) : LInv (ghost0 b) := by
  constructor
  · simp [ghost0]
  · intro j p hp; simp [ghost0] at hp

theorem admittedEv_ghost (b : OB) (hz : b.counts = List.replicate b.ticks 0) (ht : 0 < b.ticks) (es : List BEv) :
    b.admittedEv es = ((ghost0 b).run es).adm := by
  have h := admitted_refines b (ghost0 b) (refines_zero b hz ht) es
  have : (ghost0 b).adm = [] := rfl
  rw [this] at h
  exact h

/-- window bound for the real `counts` model started from all-zero counts, for calls and polls -/
theorem window_counts (b : OB) (hz : b.counts = List.replicate b.ticks 0) (ht : 0 < b.ticks) (hr : 0 < b.res)
    (es : List BEv) (hmono : (b.updated :: es.map BEv.time).Pairwise (· ≤ ·)) (a : Nat) :
    ((b.admittedEv es).filter (fun t => a ≤ t ∧ t < a + b.ticks * b.res)).length ≤ b.limit := by
  rw [admittedEv_ghost b hz ht]
  exact breaker_window (ghost0 b) es (binv_ghost0 b hr) hmono a

theorem map_call_time (ts : List Nat) : (ts.map BEv.call).map BEv.time = ts := by
  induction ts with
  | nil => rfl
  | cons t ts ih => simp [BEv.time, ih]

/-! ## bookkeeping -/

theorem shiftL_length (k : Nat) (cs : List Nat) : (shiftL k cs).length = cs.length := by simp [shiftL]

theorem goIncrAt_length (cs : List Nat) (i : Nat) : (goIncrAt cs i).length = cs.length := by simp [goIncrAt]

theorem call_counts_length (b : OB) (now : Nat) : (b.call now).1.counts.length = b.counts.length := by
  unfold OB.call
  simp only []
  split
  · simp [goIncrAt_length, OB.slide_counts, shiftL_length]
  · simp [OB.slide_counts, shiftL_length]

theorem call_res (b : OB) (now : Nat) : (b.call now).1.res = b.res := by
  unfold OB.call
  simp only []
  split <;> rfl

theorem call_limit (b : OB) (now : Nat) : (b.call now).1.limit = b.limit := by
  unfold OB.call
  simp only []
  split <;> rfl

theorem call_ticks (b : OB) (now : Nat) : (b.call now).1.ticks = b.ticks := by
  unfold OB.call
  simp only []
  split <;> rfl

theorem stepEv_fields (b : OB) (e : BEv) :
    (b.stepEv e).1.counts.length = b.counts.length ∧ (b.stepEv e).1.res = b.res ∧ (b.stepEv e).1.limit = b.limit ∧
      (b.stepEv e).1.ticks = b.ticks := by
  cases e with
  | call t => exact ⟨call_counts_length b t, call_res b t, call_limit b t, call_ticks b t⟩
  | status t => exact ⟨by simp [OB.stepEv, OB.status, OB.slide_counts, shiftL_length], rfl, rfl, rfl⟩

theorem afterEv_fields (b : OB) (es : List BEv) :
    (b.afterEv es).counts.length = b.counts.length ∧ (b.afterEv es).res = b.res ∧ (b.afterEv es).limit = b.limit ∧
      (b.afterEv es).ticks = b.ticks := by
  induction es generalizing b with
  | nil => exact ⟨rfl, rfl, rfl, rfl⟩
  | cons e es ih =>
    obtain ⟨e1, e2, e3, e4⟩ := stepEv_fields b e
    have := ih (b.stepEv e).1
    simp only [OB.afterEv]
    exact ⟨this.1.trans e1, this.2.1.trans e2, this.2.2.1.trans e3, this.2.2.2.trans e4⟩

/-! ## concurrent callers: every schedule is a sequential run of `call` at the lock-acquisition clock readings -/

/-- **tie to the generated lock structure** of `Do`: one critical section holds clock reading, slide, sum, test and
increment; running `f` is outside -/
theorem do_segments_shape : doSegments = [[.readClock, .slide, .sum, .test, .incr], [.runF]] := rfl

theorem seg_call (clk : Nat) (b : OB) (l : DoLocal) (log : List (Nat × Bool)) :
    ∃ l', runSeg clk [DoStep.readClock, .slide, .sum, .test, .incr] (b, l, log) =
      ((b.call clk).1, l', (clk, (b.call clk).2) :: log) := by
  refine ⟨{ now := clk, total := (b.slide clk).total, closed := admitTest (b.slide clk).total b.limit }, ?_⟩
  rfl

theorem seg_runF (clk : Nat) (st : OB × DoLocal × List (Nat × Bool)) : runSeg clk [DoStep.runF] st = st := by
  simp [runSeg, List.foldl, doStep]

def ThreadsOK (s : DoSys) : Prop := ∀ th ∈ s.threads, th.todo = [] ∨ th.todo = [[DoStep.runF]]

theorem threadsOK_set (s : DoSys) (h : ThreadsOK s) (tid : Nat) (th : DoThread) (b : OB) (log : List (Nat × Bool))
    (hth : th.todo = [] ∨ th.todo = [[DoStep.runF]]) :
    ThreadsOK { b := b, threads := s.threads.set tid th, log := log } := by
  intro x hx
  rcases List.mem_or_eq_of_mem_set hx with hx | hx
  · exact h x hx
  · rw [hx]; exact hth

theorem step_cases (s : DoSys) (h : ThreadsOK s) (tid clk : Nat) :
    ThreadsOK (s.step tid clk) ∧
    (((s.step tid clk).b = s.b ∧ (s.step tid clk).log = s.log) ∨
     ((s.step tid clk).b = (s.b.call clk).1 ∧ (s.step tid clk).log = (clk, (s.b.call clk).2) :: s.log)) := by
  unfold DoSys.step
  cases hg : s.threads[tid]? with
  | none => exact ⟨h, Or.inl ⟨rfl, rfl⟩⟩
  | some th =>
    have hmem : th ∈ s.threads := List.mem_of_getElem? hg
    simp only []
    rcases h th hmem with h0 | h1
    · cases hm : th.more with
      | zero =>
        have hn : th.next = th := by simp [DoThread.next, h0, hm]
        simp only [hn, h0]
        exact ⟨h, by simp⟩
      | succ n =>
        have hn : th.next = { th with todo := doSegments, more := n } := by simp [DoThread.next, h0, hm]
        simp only [hn, do_segments_shape]
        obtain ⟨l', hl'⟩ := seg_call clk s.b th.regs s.log
        simp only [hl']
        exact ⟨threadsOK_set s h tid _ _ _ (Or.inr rfl), by simp⟩
    · have hn : th.next = th := by simp [DoThread.next, h1]
      simp only [hn, h1, seg_runF]
      exact ⟨threadsOK_set s h tid _ _ _ (Or.inl rfl), by simp⟩

theorem exec_sequential (s : DoSys) (h : ThreadsOK s) (sch : List (Nat × Nat)) :
    ∃ ts, ts.Sublist (sch.map (·.2)) ∧ (s.exec sch).b = s.b.after ts ∧
      (s.exec sch).admitted = OB.admittedEv.go s.b (ts.map .call) s.admitted := by
  induction sch generalizing s with
  | nil => exact ⟨[], List.Sublist.refl _, rfl, rfl⟩
  | cons e sch ih =>
    obtain ⟨tid, clk⟩ := e
    obtain ⟨hok, hcase⟩ := step_cases s h tid clk
    obtain ⟨ts, hsub, hb, hadm⟩ := ih (s.step tid clk) hok
    simp only [DoSys.exec, List.map_cons]
    rcases hcase with ⟨e1, e2⟩ | ⟨e1, e2⟩
    · refine ⟨ts, List.Sublist.cons _ hsub, ?_, ?_⟩
      · rw [hb, e1]
      · rw [hadm, e1]; unfold DoSys.admitted; rw [e2]
    · refine ⟨clk :: ts, List.Sublist.cons_cons _ hsub, ?_, ?_⟩
      · rw [hb, e1]; rfl
      · rw [hadm, e1]
        unfold DoSys.admitted
        rw [e2]
        simp only [List.map_cons, OB.admittedEv.go, OB.stepEv, BEv.time, List.filter_cons]
        by_cases hcl : (s.b.call clk).2 = true <;> simp [hcl]

theorem start_ok (b : OB) (calls : List Nat) : ThreadsOK (DoSys.start b calls) := by
  intro th hth
  simp only [DoSys.start, List.mem_map] at hth
  obtain ⟨n, _, rfl⟩ := hth
  exact Or.inl rfl

/-! ## recovery -/

/-- the hypotheses every recovery statement shares: a breaker with all-zero counts, a non-decreasing sequence of calls
and polls `pre`, then a call at `now`; gives the ghost state before that call with its invariants -/
theorem ghost_before_call (b : OB) (hz : b.counts = List.replicate b.ticks 0) (ht : 0 < b.ticks) (hr : 0 < b.res)
    (pre : List BEv) (now : Nat) (hmono : (b.updated :: (pre.map BEv.time ++ [now])).Pairwise (· ≤ ·)) :
    Refines (b.afterEv pre) ((ghost0 b).run pre) ∧ LInv ((ghost0 b).run pre) ∧ ((ghost0 b).run pre).updated ≤ now ∧
      ((ghost0 b).run pre).res = b.res ∧ ((ghost0 b).run pre).ticks = b.ticks ∧ ((ghost0 b).run pre).limit = b.limit := by
  have hR := after_refines b _ (refines_zero b hz ht) pre
  have hm1 : ((ghost0 b).updated :: pre.map BEv.time).Pairwise (· ≤ ·) :=
    hmono.sublist (List.Sublist.cons_cons b.updated (List.sublist_append_left _ [now]))
  have hL := run_linv (ghost0 b) pre b.updated (binv_ghost0 b hr) (linv_ghost0 b) (Nat.le_refl _) hm1
  have hI := run_inv (ghost0 b) pre b.updated (binv_ghost0 b hr) (Nat.le_refl _) hm1
  obtain ⟨e1, e2, e3⟩ := G.run_fields (ghost0 b) pre
  refine ⟨hR, hL, ?_, e1, e2, e3⟩
  refine Nat.le_trans hI.2 ?_
  have hall : ∀ x ∈ b.updated :: pre.map BEv.time, x ≤ now := by
    intro x hx
    have hp := List.pairwise_append.mp (by simpa using hmono : ((b.updated :: pre.map BEv.time) ++ [now]).Pairwise (· ≤ ·))
    exact hp.2.2 x hx now (List.mem_singleton.mpr rfl)
  exact hall _ (List.getLast_mem _)

/-- **idle recovery**: whatever calls and polls came before, a call is admitted when every earlier admission is at
least one window old -/
theorem recovers_counts (b : OB) (hz : b.counts = List.replicate b.ticks 0) (ht : 0 < b.ticks) (hr : 0 < b.res)
    (hl : 0 < b.limit) (pre : List BEv) (now : Nat)
    (hmono : (b.updated :: (pre.map BEv.time ++ [now])).Pairwise (· ≤ ·))
    (hidle : ∀ t ∈ b.admittedEv pre, t + b.ticks * b.res ≤ now) :
    ((b.afterEv pre).call now).2 = true := by
  obtain ⟨hR, hL, hu, e1, e2, e3⟩ := ghost_before_call b hz ht hr pre now hmono
  rw [(call_refines _ _ hR now).2]
  simp only [decide_eq_true_eq]
  have h0 := ghost_idle_total _ now hL (by rw [e1]; exact hr) hu (by
    intro t htm
    rw [← admittedEv_ghost b hz ht] at htm
    have := hidle t htm
    simpa [G.W, e1, e2] using this)
  rw [h0]
  show 0 < ((ghost0 b).run pre).limit
  rw [e3]; exact hl

/-- **graded recovery**: a call is admitted when fewer than `limit` earlier admissions are younger than their graded
window (`W + j·(res-1)` for the `j`-th newest) -/
theorem recovers_graded_counts (b : OB) (hz : b.counts = List.replicate b.ticks 0) (ht : 0 < b.ticks) (hr : 0 < b.res)
    (pre : List BEv) (now : Nat)
    (hmono : (b.updated :: (pre.map BEv.time ++ [now])).Pairwise (· ≤ ·))
    (hfew : gradedCount (b.ticks * b.res) (b.res - 1) now 0 (b.admittedEv pre) < b.limit) :
    ((b.afterEv pre).call now).2 = true := by
  obtain ⟨hR, hL, hu, e1, e2, e3⟩ := ghost_before_call b hz ht hr pre now hmono
  rw [(call_refines _ _ hR now).2]
  simp only [decide_eq_true_eq]
  have hg := ghost_graded_total _ now hL (by rw [e1]; exact hr) hu
  rw [admittedEv_ghost b hz ht] at hfew
  have hW : ((ghost0 b).run pre).W = b.ticks * b.res := by simp [G.W, e1, e2]
  rw [hW, e1] at hg
  show (((ghost0 b).run pre).slide now).total < ((ghost0 b).run pre).limit
  rw [e3]
  exact Nat.lt_of_le_of_lt hg hfew

theorem pollEvery_length (t0 δ n : Nat) : (pollEvery t0 δ n).length = n := by
  induction n generalizing t0 with
  | zero => rfl
  | succ n ih => simp [pollEvery, ih]

theorem pollEvery_mono (t0 δ n : Nat) : (t0 :: pollEvery t0 δ n).Pairwise (· ≤ ·) := by
  induction n generalizing t0 with
  | zero => simp [pollEvery]
  | succ n ih =>
    have := ih (t0 + δ)
    simp only [pollEvery, List.pairwise_cons] at this ⊢
    refine ⟨?_, this⟩
    intro a ha
    rcases List.mem_cons.mp ha with rfl | ha
    · omega
    · have := this.1 a ha; omega

theorem init_fields (limit interval : Nat) :
    (OB.init limit interval).counts = List.replicate (OB.init limit interval).ticks 0 ∧
    (OB.init limit interval).counts.length = breakerTicks ∧ (OB.init limit interval).ticks = breakerTicks ∧
    (OB.init limit interval).res = interval / breakerTicks ∧ (OB.init limit interval).limit = limit ∧
    (OB.init limit interval).updated = 0 := by
  simp [OB.init, OB.res, resolution, initTicks]

/-- what `NewOutboundBreaker` accepts: `limit ≥ 1` and `interval ≥ breakerTicks` nanoseconds -/
theorem initE_some (limit interval : Int) (b : OB) (h : OB.initE limit interval = some b) :
    1 ≤ limit ∧ (breakerTicks : Int) ≤ interval ∧ b = OB.init limit.toNat interval.toNat := by
  unfold OB.initE at h
  split at h
  · exact absurd h (by simp)
  · rename_i hrej
    simp only [initRejects, Bool.or_eq_true, decide_eq_true_eq, not_or, Int.not_lt] at hrej
    exact ⟨hrej.1, hrej.2, (Option.some.inj h).symm⟩

theorem init_res_pos (limit interval : Int) (b : OB) (h : OB.initE limit interval = some b) :
    0 < b.res ∧ 0 < b.ticks ∧ 0 < b.limit ∧ b.counts = List.replicate b.ticks 0 ∧ b.counts.length = breakerTicks := by
  obtain ⟨h1, h2, rfl⟩ := initE_some limit interval b h
  obtain ⟨hz, hlen, hticks, hres, hlim, _⟩ := init_fields limit.toNat interval.toNat
  refine ⟨?_, by rw [hticks]; decide, by rw [hlim]; omega, hz, hlen⟩
  rw [hres]
  apply Nat.div_pos _ (by decide)
  have : (breakerTicks : Int) ≤ (interval.toNat : Int) := by rw [Int.toNat_of_nonneg (by simp [breakerTicks] at h2 ⊢; omega)]; exact h2
  exact Int.ofNat_le.mp this

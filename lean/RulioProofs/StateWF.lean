import RulioProofs.StateAdd
import RulioProofs.StateCascade
import Std.Data.String.ToNat

set_option linter.unusedSimpArgs false
set_option linter.unusedVariables false

/-! # `add`/`rem` preserve the invariants; reachable states -/

/-! ## ids -/

theorem isVar_bang (s : String) : isVar ("!" ++ s) = false := by
  simp only [isVar]
  rw [String.startsWith_string_eq_false_iff]
  intro h
  simp [String.toList_append] at h

theorem isVar_fresh (n : Nat) : isVar ("fresh#" ++ toString n) = false := by
  simp only [isVar]
  rw [String.startsWith_string_eq_false_iff]
  intro h
  simp [String.toList_append] at h

theorem isVar_genPropId (id prop : String) : isVar (genPropId id prop) = false := by
  simp only [genPropId, String.append_assoc]; exact isVar_bang _

theorem genPropId_ne_fresh (id prop : String) (n : Nat) : genPropId id prop ≠ "fresh#" ++ toString n := by
  intro h
  have := congrArg String.toList h
  simp [genPropId, String.toList_append] at this

theorem fresh_inj {n m : Nat} (h : "fresh#" ++ toString n = "fresh#" ++ toString m) : n = m := by
  have := (String.append_right_inj _).1 h
  exact Nat.repr_inj.1 this

/-- what `GenId` returns -/
theorem genId_ok {x : Obj} {given fresh id : String} (h : genId x given fresh = .ok id) :
    (∃ pid prop v, parseProp x = .ok (some (pid, prop, v)) ∧ id = genPropId pid prop) ∨
    (parseProp x = .ok none ∧ id = (if given == "" then fresh else given) ∧ isVar id = false) := by
  simp only [genId, bind, Except.bind] at h
  split at h
  · cases h
  · rename_i v hv
    split at h
    · rename_i pid prop v'
      injection h with h
      exact Or.inl ⟨pid, prop, v', hv, h.symm⟩
    · generalize (if (given == "") = true then fresh else given) = cand at h ⊢
      by_cases hv2 : isVar cand = true
      · simp [hv2] at h
      · simp only [hv2, Bool.false_eq_true, ↓reduceIte, pure, Except.pure] at h
        injection h with h
        subst h
        exact Or.inr ⟨hv, rfl, by simpa using hv2⟩

theorem genId_isVar {x : Obj} {given fresh id : String} (h : genId x given fresh = .ok id) : isVar id = false := by
  rcases genId_ok h with ⟨pid, prop, _, _, rfl⟩ | ⟨_, _, h3⟩
  · exact isVar_genPropId _ _
  · exact h3

theorem prepareFact_genId {given fresh : String} {x : Obj} {now : Int} {id : String} {m x' : Obj}
    (h : prepareFact given fresh x now = .ok (id, m, x')) : genId x given fresh = .ok id := by
  simp only [prepareFact, bind, Except.bind] at h
  split at h
  · cases h
  · rename_i id' hid
    split at h
    · cases h
    · split at h
      · cases h
      · simp only [pure, Except.pure] at h
        injection h with h; injection h with h1 h2
        rw [hid, h1]

/-! ## shape of `add`, both kinds -/

structure Added (s s1 : St) (given : String) (x : Obj) (now : Int) (id : String) (fact : Obj) : Prop where
  prep : ∃ m x', prepareFact given s.freshId x now = .ok (id, m, x') ∧
    (fact = m ∨ ∃ rule, extractRule m false = .ok (rule, fact))
  facts : s1.facts = amSet s.facts id fact
  ti : s.kind = .indexed → s1.ti = (extractTerms fact).foldl (fun ti t => TI.add ti t id) s.ti
  store : s1.store = amSet s.store id (.obj fact)
  kind : s1.kind = s.kind
  fresh : s1.fresh = if given == "" && id == s.freshId then s.fresh + 1 else s.fresh

theorem add_shape (s : St) (given : String) (x : Obj) (now : Int) :
    (∃ e, (s.add given x now).2 = .error e ∧ AddFailed s (s.add given x now).1) ∨
    (∃ id fact, (s.add given x now).2 = .ok id ∧ Added s (s.add given x now).1 given x now id fact) := by
  simp only [St.add]
  cases hk : s.kind with
  | indexed =>
    simp only [St.iAdd]
    rcases iadd_shape s given x now with ⟨e, he, hf⟩ | ⟨id, fact, x', hok, ha⟩
    · rcases hia : s.iadd given x now with ⟨s1, r⟩
      rw [hia] at he hf
      simp only at he; subst he
      exact Or.inl ⟨e, rfl, hf⟩
    · rcases hia : s.iadd given x now with ⟨s1, r⟩
      rw [hia] at hok ha
      simp only at hok; subst hok
      simp only
      obtain ⟨fact0, rule, hp, hex⟩ := ha.prep
      have hget : amGet s1.facts id = some fact := by rw [ha.facts, amGet_amSet_st]; simp
      have hst : s1.store = s.store := ha.store
      have hki : s1.kind = s.kind := ha.kind
      refine Or.inr ⟨id, fact, rfl, ⟨⟨fact0, x', hp, Or.inr ⟨rule, hex⟩⟩, ha.facts, fun _ => ha.ti, ?_, ?_, ha.fresh⟩⟩
      · simp only [hget, Option.getD_some, hst]
      · simp only [hki, hk]
  | linear =>
    simp only [St.lAdd]
    cases hp : prepareFact given s.freshId x now with
    | error e => exact Or.inl ⟨e, rfl, ⟨rfl, rfl, rfl, rfl, Nat.le_refl _⟩⟩
    | ok r =>
      obtain ⟨id, m, x'⟩ := r
      simp only
      have hb := s.bump_same given id
      refine Or.inr ⟨id, m, rfl, ⟨⟨m, x', hp, Or.inl rfl⟩, ?_, ?_, ?_, ?_, ?_⟩⟩
      · show amSet (s.bump given id).facts id m = _; rw [hb.1]
      · intro h; rw [hk] at h; cases h
      · show amSet (s.bump given id).store id (.obj m) = _; rw [hb.2.1]
      · show (s.bump given id).kind = _; rw [hb.2.2.2, hk]
      · show (s.bump given id).fresh = _; exact St.bump_fresh _ _ _

/-! ## invariants under `add` -/

theorem IdsOK.add {s : St} (h : IdsOK s) (given : String) (x : Obj) (now : Int) : IdsOK (s.add given x now).1 := by
  rcases add_shape s given x now with ⟨_, _, hf⟩ | ⟨id, fact, _, ha⟩
  · intro e he; rw [hf.facts] at he; exact h e he
  · intro e he
    rw [ha.facts] at he
    rcases mem_amSet he with he | he
    · subst he
      obtain ⟨m, x', hp, _⟩ := ha.prep
      exact genId_isVar (prepareFact_genId hp)
    · exact h e he.1


theorem WF.addFailed {s s1 : St} (h : WF s) (hf : AddFailed s s1) : WF s1 := by
  refine ⟨?_, ?_, ?_, ?_⟩
  · simp only [KeysNodup, hf.facts]; exact h.keys
  · intro e he; rw [hf.facts] at he; exact h.ids e he
  · intro hk
    rw [hf.kind] at hk
    intro id fact hm
    rw [hf.facts] at hm
    rw [hf.ti]
    exact h.tiok hk id fact hm
  · intro hk
    rw [hf.kind] at hk
    simp only [TINodup, hf.ti]
    exact h.tinodup hk

theorem WF.added {s s1 : St} {given : String} {x : Obj} {now : Int} {id : String} {fact : Obj}
    (h : WF s) (ha : Added s s1 given x now id fact) : WF s1 := by
  refine ⟨?_, ?_, ?_, ?_⟩
  · simp only [KeysNodup, ha.facts]; exact amSet_nodup _ _ _ h.keys
  · intro e he
    rw [ha.facts] at he
    rcases mem_amSet he with he | he
    · subst he
      obtain ⟨m, x', hp, _⟩ := ha.prep
      exact genId_isVar (prepareFact_genId hp)
    · exact h.ids e he.1
  · intro hk
    rw [ha.kind] at hk
    intro id' fact' hm t ht
    rw [ha.facts] at hm
    rw [ha.ti hk]
    rcases mem_amSet hm with hm | hm
    · injection hm with h1 h2; subst h1; subst h2
      exact TI.has_foldl_add_self ht
    · exact TI.has_foldl_add_of_has (h.tiok hk id' fact' hm.1 t ht)
  · intro hk
    rw [ha.kind] at hk
    simp only [TINodup, ha.ti hk]
    exact TI.nodup_foldl_add (h.tinodup hk)

theorem WF.add {s : St} (h : WF s) (given : String) (x : Obj) (now : Int) : WF (s.add given x now).1 := by
  rcases add_shape s given x now with ⟨_, _, hf⟩ | ⟨_, _, _, ha⟩
  · exact h.addFailed hf
  · exact h.added ha

theorem WF.le {s s' : St} (h : WF s) (hle : StLe s s') : WF s' :=
  ⟨hle.keys h.keys, hle.idsOK h.ids, fun hk => hle.tiok (h.tiok (hle.kind ▸ hk)), fun hk => hle.tinodup (h.tinodup (hle.kind ▸ hk))⟩

theorem remOK_le (s : St) (id : String) (now : Int) : StLe s (s.remOK id now).1 := by
  simp only [St.remOK]
  cases s.kind with
  | indexed => exact (iframe now _).1 s id
  | linear => exact (lframe now _).1 s id

theorem rem_le (s : St) (id : String) (now : Int) : StLe s (s.rem id now).1 := by
  simp only [St.rem]
  cases s.kind with
  | indexed => exact (iframe now _).1 s id
  | linear => exact (lframe now _).1 s id

/-- caller-supplied ids never have the shape of a generated id -/
def StOp.userIds : StOp → Prop
  | .add id _ _ => ∀ n : Nat, id ≠ "fresh#" ++ toString n
  | .rem _ _ => True

theorem FreshOK.add {s : St} (h : FreshOK s) (given : String) (x : Obj) (now : Int)
    (hu : ∀ n : Nat, given ≠ "fresh#" ++ toString n) : FreshOK (s.add given x now).1 := by
  rcases add_shape s given x now with ⟨_, _, hf⟩ | ⟨id, fact, _, ha⟩
  · intro e he n hn
    rw [hf.facts] at he
    exact h e he n (Nat.le_trans hf.fresh hn)
  · intro e he n hn
    rw [ha.facts] at he
    rw [ha.fresh] at hn
    rcases mem_amSet he with he | he
    · subst he
      obtain ⟨m, x', hp, _⟩ := ha.prep
      rcases genId_ok (prepareFact_genId hp) with ⟨pid, prop, _, _, rfl⟩ | ⟨_, hid, _⟩
      · exact genPropId_ne_fresh _ _ _
      · simp only
        by_cases hg : given = ""
        · subst hg
          simp only [beq_self_eq_true, ↓reduceIte] at hid
          subst hid
          simp only [beq_self_eq_true, Bool.and_self, ↓reduceIte] at hn
          intro heq
          have := fresh_inj heq
          omega
        · simp only [beq_iff_eq, hg, ↓reduceIte] at hid
          subst hid; exact hu n
    · apply h e he.1 n
      split at hn <;> omega

/-! ## reachable states -/

theorem St.step_wf {s : St} (h : WF s) (op : StOp) : WF (s.step op) := by
  cases op with
  | add id x now => exact h.add id x now
  | rem id now => exact h.le (remOK_le s id now)

theorem wf_empty (k : Kind) : WF { kind := k } :=
  ⟨by simp [KeysNodup], by intro e he; simp at he, fun _ => by intro id fact hm; simp at hm, fun _ => by intro e he; simp at he⟩

theorem run_wf {s : St} (h : WF s) (ops : List StOp) : WF (s.run ops) := by
  induction ops generalizing s with
  | nil => exact h
  | cons op r ih => exact ih (St.step_wf h op)

theorem run_idsOK {s : St} (h : IdsOK s) (ops : List StOp) : IdsOK (s.run ops) := by
  induction ops generalizing s with
  | nil => exact h
  | cons op r ih =>
    apply ih
    cases op with
    | add id x now => exact IdsOK.add h id x now
    | rem id now => exact (remOK_le s id now).idsOK h

theorem run_freshOK {s : St} (h : FreshOK s) (ops : List StOp) (hu : ∀ op, op ∈ ops → op.userIds) : FreshOK (s.run ops) := by
  induction ops generalizing s with
  | nil => exact h
  | cons op r ih =>
    apply ih _ (fun o ho => hu o (List.mem_cons_of_mem _ ho))
    have hop := hu op (by simp)
    cases op with
    | add id x now => exact FreshOK.add h id x now hop
    | rem id now => exact (remOK_le s id now).freshOK h

theorem St.step_kind (s : St) (op : StOp) : (s.step op).kind = s.kind := by
  cases op with
  | add id x now =>
    simp only [St.step]
    rcases add_shape s id x now with ⟨_, _, hf⟩ | ⟨_, _, _, ha⟩
    · exact hf.kind
    · exact ha.kind
  | rem id now => exact (remOK_le s id now).kind

theorem run_kind (s : St) (ops : List StOp) : (s.run ops).kind = s.kind := by
  induction ops generalizing s with
  | nil => rfl
  | cons op r ih =>
    show ((s.step op).run r).kind = s.kind
    rw [ih, St.step_kind]

import RulioModel.RuleCache

namespace RuleCache

theorem mem_setNth {α} {l : List α} {n : Nat} {x y : α} (h : y ∈ setNth l n x) : y = x ∨ y ∈ l := by
  induction l generalizing n with
  | nil => simp [setNth] at h
  | cons a r ih =>
    cases n with
    | zero =>
      simp only [setNth, List.mem_cons] at h
      rcases h with h | h
      · exact .inl h
      · exact .inr (List.mem_cons_of_mem _ h)
    | succ n =>
      simp only [setNth, List.mem_cons] at h
      rcases h with h | h
      · exact .inr (by rw [h]; exact List.mem_cons_self)
      · rcases ih h with h | h
        · exact .inl h
        · exact .inr (List.mem_cons_of_mem _ h)

/-- replacing position `t` (which held `old`) keeps every other element that was there, unless it was `old` at `t` -/
theorem mem_setNth_other {α} {l : List α} {t : Nat} {old x y : α} (ht : l[t]? = some old) (hy : y ∈ l) (hne : y ≠ old) :
    y ∈ setNth l t x := by
  induction l generalizing t with
  | nil => cases hy
  | cons a r ih =>
    cases t with
    | zero =>
      simp only [List.getElem?_cons_zero, Option.some.injEq] at ht
      subst ht
      simp only [setNth, List.mem_cons]
      rcases List.mem_cons.mp hy with h | h
      · exact absurd h hne
      · exact .inr h
    | succ t =>
      simp only [List.getElem?_cons_succ] at ht
      simp only [setNth, List.mem_cons]
      rcases List.mem_cons.mp hy with h | h
      · exact .inl h
      · exact .inr (ih ht h)

theorem self_mem_setNth {α} {l : List α} {t : Nat} {old x : α} (ht : l[t]? = some old) : x ∈ setNth l t x := by
  induction l generalizing t with
  | nil => simp at ht
  | cons a r ih =>
    cases t with
    | zero => simp [setNth]
    | succ t =>
      simp only [List.getElem?_cons_succ] at ht
      simp only [setNth, List.mem_cons]
      exact .inr (ih ht)

/-- the invariant: what a reader holds, and what the cache holds, is the state's version — unless a writer is between its
update and its second invalidation, or (for a reader) the generation has moved on since the reader read it -/
structure Inv (s : St) : Prop where
  r1 : ∀ g, PC.r1 g ∈ s.pcs → g ≤ s.gen
  r2 : ∀ g r, PC.r2 g r ∈ s.pcs → g ≤ s.gen ∧ (r = s.mem ∨ g < s.gen ∨ midWrite s)
  cache : ∀ c, s.cache = some c → c = s.mem ∨ midWrite s

theorem inv_step {s : St} (h : Inv s) (t : Nat) : Inv (step s t) := by
  unfold step
  cases ht : s.pcs[t]? with
  | none => simpa using h
  | some pc =>
    simp only
    cases pc with
    | w0 v =>
      refine ⟨?_, ?_, ?_⟩
      · intro g hg
        rcases mem_setNth hg with e | e
        · cases e
        · exact Nat.le_succ_of_le (h.r1 g e)
      · intro g r hg
        rcases mem_setNth hg with e | e
        · cases e
        · obtain ⟨h1, h2⟩ := h.r2 g r e
          refine ⟨Nat.le_succ_of_le h1, ?_⟩
          exact .inr (.inl (Nat.lt_succ_of_le h1))
      · intro c hc; cases hc
    | w1 v =>
      have hw : midWrite { s with mem := v, pcs := setNth s.pcs t PC.w2 } := self_mem_setNth ht
      refine ⟨?_, ?_, ?_⟩
      · intro g hg
        rcases mem_setNth hg with e | e
        · cases e
        · exact h.r1 g e
      · intro g r hg
        rcases mem_setNth hg with e | e
        · cases e
        · exact ⟨(h.r2 g r e).1, .inr (.inr hw)⟩
      · intro c _; exact .inr hw
    | w2 =>
      refine ⟨?_, ?_, ?_⟩
      · intro g hg
        rcases mem_setNth hg with e | e
        · cases e
        · exact Nat.le_succ_of_le (h.r1 g e)
      · intro g r hg
        rcases mem_setNth hg with e | e
        · cases e
        · obtain ⟨h1, _⟩ := h.r2 g r e
          exact ⟨Nat.le_succ_of_le h1, .inr (.inl (Nat.lt_succ_of_le h1))⟩
      · intro c hc; cases hc
    | r0 =>
      have keep : midWrite s → midWrite { s with pcs := setNth s.pcs t (PC.r1 s.gen) } :=
        fun hm => mem_setNth_other ht hm (by intro e; cases e)
      refine ⟨?_, ?_, ?_⟩
      · intro g hg
        rcases mem_setNth hg with e | e
        · cases e; exact Nat.le_refl _
        · exact h.r1 g e
      · intro g r hg
        rcases mem_setNth hg with e | e
        · cases e
        · obtain ⟨h1, h2⟩ := h.r2 g r e
          exact ⟨h1, h2.imp id (fun x => x.imp id keep)⟩
      · intro c hc; exact (h.cache c hc).imp id keep
    | r1 g0 =>
      have keep : midWrite s → midWrite { s with pcs := setNth s.pcs t (PC.r2 g0 s.mem) } :=
        fun hm => mem_setNth_other ht hm (by intro e; cases e)
      have hg0 : g0 ≤ s.gen := h.r1 g0 (List.mem_of_getElem? ht)
      refine ⟨?_, ?_, ?_⟩
      · intro g hg
        rcases mem_setNth hg with e | e
        · cases e
        · exact h.r1 g e
      · intro g r hg
        rcases mem_setNth hg with e | e
        · cases e; exact ⟨hg0, .inl rfl⟩
        · obtain ⟨h1, h2⟩ := h.r2 g r e
          exact ⟨h1, h2.imp id (fun x => x.imp id keep)⟩
      · intro c hc; exact (h.cache c hc).imp id keep
    | r2 g0 r0 =>
      have hmem : PC.r2 g0 r0 ∈ s.pcs := List.mem_of_getElem? ht
      obtain ⟨hg0, hr0⟩ := h.r2 g0 r0 hmem
      cases hc : s.cache with
      | some c =>
        simp only
        have keep : midWrite s → midWrite { s with pcs := setNth s.pcs t (PC.done (some c)) } :=
          fun hm => mem_setNth_other ht hm (by intro e; cases e)
        refine ⟨?_, ?_, ?_⟩
        · intro g hg
          rcases mem_setNth hg with e | e
          · cases e
          · exact h.r1 g e
        · intro g r hg
          rcases mem_setNth hg with e | e
          · cases e
          · obtain ⟨h1, h2⟩ := h.r2 g r e
            exact ⟨h1, h2.imp id (fun x => x.imp id keep)⟩
        · intro c' hc'
          simp only [Option.some.injEq] at hc'
          subst hc'
          exact (h.cache c hc).imp id keep
      | none =>
        simp only
        by_cases hgen : s.gen = g0
        · rw [if_pos hgen]
          have keep : midWrite s → midWrite { s with cache := some r0, pcs := setNth s.pcs t (PC.done (some r0)) } :=
            fun hm => mem_setNth_other ht hm (by intro e; cases e)
          refine ⟨?_, ?_, ?_⟩
          · intro g hg
            rcases mem_setNth hg with e | e
            · cases e
            · exact h.r1 g e
          · intro g r hg
            rcases mem_setNth hg with e | e
            · cases e
            · obtain ⟨h1, h2⟩ := h.r2 g r e
              exact ⟨h1, h2.imp id (fun x => x.imp id keep)⟩
          · intro c' hc'
            simp only [Option.some.injEq] at hc'
            subst hc'
            rcases hr0 with e | e | e
            · exact .inl e
            · exact absurd e (by rw [hgen]; exact Nat.lt_irrefl _)
            · exact .inr (keep e)
        · rw [if_neg hgen]
          have keep : midWrite s → midWrite { s with pcs := setNth s.pcs t (PC.done (some r0)) } :=
            fun hm => mem_setNth_other ht hm (by intro e; cases e)
          refine ⟨?_, ?_, ?_⟩
          · intro g hg
            rcases mem_setNth hg with e | e
            · cases e
            · exact h.r1 g e
          · intro g r hg
            rcases mem_setNth hg with e | e
            · cases e
            · obtain ⟨h1, h2⟩ := h.r2 g r e
              exact ⟨h1, h2.imp id (fun x => x.imp id keep)⟩
          · intro c' hc'
            simp at hc'
    | done u => simpa [ht] using h

theorem inv_run {s : St} (h : Inv s) (σ : List Nat) : Inv (run s σ) := by
  induction σ generalizing s with
  | nil => exact h
  | cons t σ ih => exact ih (inv_step h t)

theorem inv_init (mem gen : Nat) (pcs : List PC) (hf : Fresh pcs) : Inv { mem := mem, cache := none, gen := gen, pcs := pcs } where
  r1 := by
    intro g hg
    rcases hf _ hg with ⟨v, e⟩ | e <;> cases e
  r2 := by
    intro g r hg
    rcases hf _ hg with ⟨v, e⟩ | e <;> cases e
  cache := by intro c hc; cases hc

end RuleCache

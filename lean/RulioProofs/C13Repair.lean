import RulioProofs.C13

/-! # C13 — the repaired paths: what the State does with the documents that used to reach the two panic sites -/

namespace C13

/-! ## `Obj` bookkeeping -/

theorem get?_set_eq (o : Obj) (k : String) (v : J) : Obj.get? (Obj.set o k v) k = some v := by
  unfold Obj.get? Obj.set
  split
  · rename_i hany
    induction o with
    | nil => simp at hany
    | cons p r ih =>
      rcases p with ⟨a, b⟩
      by_cases hak : (a == k) = true
      · have : a = k := by simpa using hak
        subst this
        simp [lookupKey]
      · have hany' : r.any (fun p => p.1 == k) = true := by simpa [hak] using hany
        have hka : (k == a) = false := by
          cases h : (k == a) with
          | false => rfl
          | true => exact absurd (by simpa using (beq_iff_eq.1 h).symm) hak
        have hak' : (a == k) = false := by simpa using hak
        simp only [List.map, hak', lookupKey, Bool.false_eq_true, if_false, hka]
        exact ih hany'
  · induction o with
    | nil => simp [lookupKey]
    | cons p r ih =>
      rename_i hany
      rcases p with ⟨a, b⟩
      have hak : (a == k) = false := by
        cases h : (a == k) with
        | false => rfl
        | true => exact absurd (by simp [h]) hany
      have hka : (k == a) = false := by
        cases h : (k == a) with
        | false => rfl
        | true => rw [beq_iff_eq.1 h] at hak; simp at hak
      have hany' : ¬ r.any (fun p => p.1 == k) = true := by
        intro h; exact hany (by simp [h])
      simp only [List.cons_append, lookupKey, hka]
      exact ih hany'

theorem has_set_ne (o : Obj) (k k' : String) (v : J) (h : (k == k') = false) : Obj.has (Obj.set o k' v) k = Obj.has o k := by
  have := get?_set_ne o k k' v h
  unfold Obj.get? at this
  unfold Obj.has
  rw [this]

/-! ## the repaired `GetRulePatterns` -/

theorem getRulePatternR_set_expires (r : Obj) (v : J) : getRulePatternR (Obj.set r "expires" v) = getRulePatternR r := by
  unfold getRulePatternR
  rw [get?_set_ne r "when" "expires" v (by decide)]

/-- the documents of the two old panic sites have no pattern -/
theorem badWhen_noPattern (r : Obj) (h : badWhen r = true) : noPattern r = true := by
  unfold badWhen at h
  unfold noPattern getRulePatternR
  split at h
  · simp at h
  · rename_i w hw
    rw [hw]
    split at h <;> simp_all
  · rename_i hw1 hw2
    split
    · rename_i w hw
      rw [hw2] at hw
      injection hw with hw
      exact absurd hw (hw1 w)
    · rfl

/-- where the unrepaired `GetRulePatterns` (shared sequential model) did not panic, the repaired one answers the same -/
theorem getRulePatternR_conservative (r : Obj) (p : Option Obj) (h : getRulePattern r = .ok p) : getRulePatternR r = p := by
  unfold getRulePattern at h
  unfold getRulePatternR
  repeat' split at h
  all_goals simp_all

/-- ... and where it panicked the repaired one reports "no patterns" -/
theorem getRulePatternR_of_panic (r : Obj) (e : LErr) (h : getRulePattern r = .error e) : getRulePatternR r = none ∧ badWhen r = true := by
  unfold getRulePattern at h
  unfold getRulePatternR badWhen
  repeat' split at h
  all_goals simp_all

/-- `unindexRule` is a no-op on a rule without pattern -/
theorem unindexRuleR_noPattern (s : St) (id : String) (r : Obj) (h : noPattern r = true) : unindexRuleR s id r = .ok s := by
  unfold noPattern at h
  unfold unindexRuleR
  cases hg : getRulePatternR r with
  | none => rfl
  | some p => rw [hg] at h; simp at h

/-- `indexRule` answers such a rule with its syntax error and touches nothing -/
theorem indexRuleR_noPattern (s : St) (id : String) (r : Obj) (h : noPattern r = true) : indexRuleR s id r = (s, some "syntax") := by
  unfold noPattern at h
  unfold indexRuleR
  cases hg : getRulePatternR r with
  | none => rfl
  | some p => rw [hg] at h; simp at h

/-! ## everything but the rule index -/

/-- equal up to the rule (pattern) index -/
def SameMem (s s1 : St) : Prop :=
  s1.facts = s.facts ∧ s1.store = s.store ∧ s1.ti = s.ti ∧ s1.kind = s.kind

theorem SameMem.refl (s : St) : SameMem s s := ⟨rfl, rfl, rfl, rfl⟩
theorem SameMem.trans {a b c : St} (h1 : SameMem a b) (h2 : SameMem b c) : SameMem a c :=
  ⟨h2.1.trans h1.1, h2.2.1.trans h1.2.1, h2.2.2.1.trans h1.2.2.1, h2.2.2.2.trans h1.2.2.2⟩

theorem unindexRuleR_same {s s1 : St} {id : String} {r : Obj} (h : unindexRuleR s id r = .ok s1) : SameMem s s1 := by
  unfold unindexRuleR at h
  split at h
  · injection h with h; subst h; exact SameMem.refl _
  · split at h
    · cases h
    · injection h with h; subst h; exact ⟨rfl, rfl, rfl, rfl⟩

theorem indexRuleR_same (s : St) (id : String) (r : Obj) : SameMem s (indexRuleR s id r).1 := by
  unfold indexRuleR
  split
  · exact SameMem.refl _
  · exact ⟨rfl, rfl, rfl, rfl⟩

theorem unindexPreviousR_same {s s1 : St} {id : String} {o : Option Obj} (h : unindexPreviousR s id = .ok (s1, o)) : SameMem s s1 := by
  unfold unindexPreviousR at h
  split at h
  · injection h with h; injection h with h1 h2; subst h1; exact SameMem.refl _
  · split at h
    · rename_i old _ _
      cases hu : unindexRuleR s id old with
      | error e => rw [hu] at h; simp [Except.map] at h
      | ok s2 =>
        rw [hu] at h
        simp only [Except.map, Except.ok.injEq, Prod.mk.injEq] at h
        rw [← h.1]; exact unindexRuleR_same hu
    · injection h with h; injection h with h1 h2; subst h1; exact SameMem.refl _

/-! ## `PrepareFact` / `ExtractRule` keep the rule body up to its `expires` -/

/-- `r'` is `r` with `expires` set at most twice (`setExpires` and `ExtractRule` both mirror the fact's expiry into the rule) -/
inductive UpToExpires (r : Obj) : Obj → Prop where
  | same : UpToExpires r r
  | set {r' : Obj} (v : J) : UpToExpires r r' → UpToExpires r (Obj.set r' "expires" v)

theorem UpToExpires.noPattern {r r' : Obj} (h : UpToExpires r r') : noPattern r' = noPattern r := by
  induction h with
  | same => rfl
  | set v _ ih => unfold C13.noPattern at ih ⊢; rw [getRulePatternR_set_expires, ih]

theorem UpToExpires.schedule {r r' : Obj} (h : UpToExpires r r') : Obj.has r' "schedule" = Obj.has r "schedule" := by
  induction h with
  | same => rfl
  | set v _ ih => rw [has_set_ne _ _ _ _ (by decide), ih]

theorem ttlPhase_rule (fact : Obj) (now : Int) (v : Obj × Int)
    (h : (match fact.get? "ttl" with
      | none => Except.ok (fact, (0 : Int))
      | some ttl =>
        match ttl with
        | J.num n => Except.ok ((fact.erase "ttl").set "expires" (J.num (now + n)), now + n)
        | J.str s =>
          match parseDurationSecs s with
          | some n => Except.ok ((fact.erase "ttl").set "expires" (J.num (now + n)), now + n)
          | none => Except.error "badTTL"
        | _ => Except.error "badTTL" : Except LErr (Obj × Int)) = Except.ok v) :
    v.1.get? "rule" = fact.get? "rule" := by
  repeat' split at h
  all_goals (try (simp at h))
  all_goals (subst h; simp only [])
  · rw [get?_set_ne _ _ _ _ (by decide), get?_erase_ne _ _ _ (by decide)]
  · rw [get?_set_ne _ _ _ _ (by decide), get?_erase_ne _ _ _ (by decide)]

theorem expPhase_rule (o : Obj) (exp : J) (v : Obj × Int)
    (h : (match exp with
      | J.num n => Except.ok (o, n)
      | J.str s =>
        match parseRFC3339 s with
        | some t => Except.ok (o.set "expires" (J.num t), t)
        | none => Except.error "badExpires"
      | _ => Except.error "badExpires" : Except LErr (Obj × Int)) = Except.ok v) :
    v.1.get? "rule" = o.get? "rule" := by
  repeat' split at h
  all_goals (try (simp at h))
  all_goals (subst h; simp only [])
  · rw [get?_set_ne _ _ _ _ (by decide)]

theorem setExpires_rule (fact : Obj) (now : Int) (f' : Obj) (e : Bool) (x : Int) (r : Obj)
    (h : setExpires fact now = .ok (f', e, x)) (hr : fact.get? "rule" = some (.obj r)) :
    ∃ r', f'.get? "rule" = some (.obj r') ∧ UpToExpires r r' := by
  unfold setExpires at h
  simp only [bind, Except.bind, pure, Except.pure] at h
  repeat' split at h
  all_goals (try (simp at h))
  · rename_i v h1 _ _
    refine ⟨r, ?_, .same⟩
    rw [← h.1, ttlPhase_rule fact now v h1]; exact hr
  · rename_i v1 h1 _ _ _ _ v2 h2 _ hnone
    rw [expPhase_rule _ _ v2 h2, ttlPhase_rule fact now v1 h1, hr] at hnone
    cases hnone
  · rename_i v1 h1 _ _ _ _ v2 h2 _ r0 hsome
    rw [expPhase_rule _ _ v2 h2, ttlPhase_rule fact now v1 h1, hr] at hsome
    injection hsome with hsome; injection hsome with hsome
    subst hsome
    refine ⟨Obj.set r "expires" (J.num v2.snd), ?_, .set _ .same⟩
    rw [← h.1, get?_set_eq]

theorem prepareFact_rule (given fresh : String) (x : Obj) (now : Int) (id : String) (m x' r : Obj)
    (h : prepareFact given fresh x now = .ok (id, m, x')) (hr : x.get? "rule" = some (.obj r)) :
    ∃ r', m.get? "rule" = some (.obj r') ∧ UpToExpires r r' := by
  unfold prepareFact at h
  simp only [bind, Except.bind, pure, Except.pure] at h
  split at h
  · cases h
  · split at h
    · cases h
    · rename_i v hs
      rcases v with ⟨m0, e0, x0⟩
      simp only at h
      split at h
      · cases h
      · simp only [Except.ok.injEq, Prod.mk.injEq] at h
        rw [← h.2.1]
        exact setExpires_rule x now m0 e0 x0 r hs hr

theorem extractRule_rule (fact : Obj) (req : Bool) (r : Obj) (hr : fact.get? "rule" = some (.obj r)) :
    ∃ r' fact', extractRule fact req = .ok (some r', fact') ∧ UpToExpires r r' := by
  unfold extractRule
  rw [hr]
  simp only
  split
  · exact ⟨_, _, rfl, .set _ .same⟩
  · exact ⟨_, _, rfl, .same⟩

theorem UpToExpires.trans {a b c : Obj} (h1 : UpToExpires a b) (h2 : UpToExpires b c) : UpToExpires a c := by
  induction h2 with
  | same => exact h1
  | set v _ ih => exact .set v ih

/-! ## `IndexedState.Add` of a rule body that cannot be indexed -/

/-- the new rule has no pattern and no schedule: rejected with the syntax error; the rule it would have replaced is back
in the index; facts, storage and term index are as before -/
theorem indexNewR_rejects (s : St) (id : String) (r : Obj) (replaced : Option Obj)
    (hs : Obj.has r "schedule" = false) (hp : noPattern r = true) :
    (indexNewR s id (some r) replaced).2 = some "syntax" ∧ SameMem s (indexNewR s id (some r) replaced).1 := by
  unfold indexNewR
  simp only [hs, Bool.false_eq_true, if_false, indexRuleR_noPattern s id r hp]
  cases replaced with
  | none => exact ⟨rfl, SameMem.refl _⟩
  | some old =>
    simp only
    split
    · exact ⟨rfl, SameMem.refl _⟩
    · exact ⟨rfl, indexRuleR_same _ _ _⟩

/-- `IndexedState.add` of a fact whose rule body has no `schedule` and no pattern (in particular: a `when` or `when.pattern`
that is not a map, the input of the former panic): an error, and facts, storage and term index are untouched -/
theorem iaddR_rejects (s : St) (given : String) (x : Obj) (now : Int) (r : Obj)
    (hx : x.get? "rule" = some (.obj r)) (hs : Obj.has r "schedule" = false) (hp : noPattern r = true) :
    (∃ e, (iaddR s given x now).2 = .error e) ∧ (iaddR s given x now).1.facts = s.facts ∧
    (iaddR s given x now).1.store = s.store ∧ (iaddR s given x now).1.ti = s.ti := by
  unfold iaddR
  cases hpf : prepareFact given s.freshId x now with
  | error e => exact ⟨⟨e, rfl⟩, rfl, rfl, rfl⟩
  | ok v =>
    rcases v with ⟨id, m, x'⟩
    simp only
    obtain ⟨r1, hr1, hu1⟩ := prepareFact_rule given s.freshId x now id m x' r hpf hx
    obtain ⟨r2, m2, he, hu2⟩ := extractRule_rule m false r1 hr1
    have hu := hu1.trans hu2
    rw [he]
    simp only
    generalize hs0 : (if (given == "" && id == s.freshId) = true then { s with fresh := s.fresh + 1 } else s) = s0
    have hs0m : SameMem s s0 := by
      rw [← hs0]; split
      · exact ⟨rfl, rfl, rfl, rfl⟩
      · exact SameMem.refl _
    cases hup : unindexPreviousR s0 id with
    | error e => exact ⟨⟨e, rfl⟩, hs0m.1, hs0m.2.1, hs0m.2.2.1⟩
    | ok v =>
      rcases v with ⟨s1, replaced⟩
      simp only
      have h1 := hs0m.trans (unindexPreviousR_same hup)
      have hrej := indexNewR_rejects s1 id r2 replaced (by rw [hu.schedule, hs]) (by rw [hu.noPattern, hp])
      rcases hin : indexNewR s1 id (some r2) replaced with ⟨s2, err⟩
      rw [hin] at hrej
      simp only at hrej
      rw [hrej.1]
      simp only
      have h2 := h1.trans hrej.2
      exact ⟨⟨_, rfl⟩, h2.1, h2.2.1, h2.2.2.1⟩

theorem iAddR_rejects (s : St) (given : String) (x : Obj) (now : Int) (r : Obj)
    (hx : x.get? "rule" = some (.obj r)) (hs : Obj.has r "schedule" = false) (hp : noPattern r = true) :
    (∃ e, (iAddR s given x now).2 = .error e) ∧ (iAddR s given x now).1.facts = s.facts ∧
    (iAddR s given x now).1.store = s.store ∧ (iAddR s given x now).1.ti = s.ti := by
  have h := iaddR_rejects s given x now r hx hs hp
  unfold iAddR
  rcases hi : iaddR s given x now with ⟨s1, res⟩
  rw [hi] at h
  obtain ⟨⟨e, he⟩, h2⟩ := h
  simp only at he
  subst he
  exact ⟨⟨e, rfl⟩, h2⟩

/-- the State call of `AddFact` / `AddRule` on an indexed location that serves and whose `Add` body does not panic, with
such a document: it answers with an error, the location still serves, facts, storage and term index are untouched —
with or without the cron hooks of a System -/
theorem kAdd_rejects (k : KLoc) (id : String) (x : Obj) (now : Int) (r : Obj)
    (hk : k.loc.st.kind = .indexed) (hfree : Serving k) (hff : k.fault .add k.loc.st = none)
    (hx : x.get? "rule" = some (.obj r)) (hs : Obj.has r "schedule" = false) (hp : noPattern r = true) :
    (∃ e, (kAdd id x now k).2 = .err e) ∧ Serving (kAdd id x now k).1 ∧
    (kAdd id x now k).1.loc.st.facts = k.loc.st.facts ∧ (kAdd id x now k).1.loc.st.store = k.loc.st.store ∧
    (kAdd id x now k).1.loc.st.ti = k.loc.st.ti := by
  have hrej := iAddR_rejects k.loc.st id x now r hx hs hp
  have hcall : (∃ e, (kCall .add (fun s => addK s id x now) k).2 = .err e) ∧ Serving (kCall .add (fun s => addK s id x now) k).1 ∧
      (kCall .add (fun s => addK s id x now) k).1.loc.st.facts = k.loc.st.facts ∧
      (kCall .add (fun s => addK s id x now) k).1.loc.st.store = k.loc.st.store ∧
      (kCall .add (fun s => addK s id x now) k).1.loc.st.ti = k.loc.st.ti := by
    unfold kCall
    rw [blocked_free k _ hfree, hff]
    simp only [Bool.false_eq_true, if_false, addK, hk]
    obtain ⟨⟨e, he⟩, h1, h2, h3⟩ := hrej
    rcases hi : iAddR k.loc.st id x now with ⟨s1, res⟩
    rw [hi] at he h1 h2 h3
    simp only at he h1 h2 h3
    subst he
    exact ⟨⟨e, rfl⟩, hfree, h1, h2, h3⟩
  unfold kAdd
  cases hh : k.hooks with
  | false => simpa using hcall
  | true =>
    simp only [Bool.not_true, Bool.false_eq_true, if_false]
    obtain ⟨⟨e, he⟩, h2⟩ := hcall
    rcases hc : kCall .add (fun s => addK s id x now) k with ⟨k1, res⟩
    rw [hc] at he h2
    simp only at he
    subst he
    exact ⟨⟨e, rfl⟩, h2⟩

/-! ## `IndexedState.rem` (explicit, or the purge of an expired fact) of such a rule -/

/-- the rule part of `rem` has nothing to do and cannot fail when the stored rule body has no pattern
(`{"schedule":…,"when":5}`, `{"when":null,"schedule":…}` …) or is not a map at all -/
theorem unindexOfR_noop (s : St) (id : String) (fact : Obj)
    (h : ∀ r, fact.get? "rule" = some (.obj r) → noPattern r = true) : unindexOfR s id fact = .ok s := by
  unfold unindexOfR
  cases hr : fact.get? "rule" with
  | none => simp [extractRule, hr]
  | some v =>
    cases v with
    | obj r =>
      obtain ⟨r', fact', he, hu⟩ := extractRule_rule fact false r hr
      rw [he]
      simp only
      exact unindexRuleR_noPattern s id r' (by rw [hu.noPattern]; exact h r hr)
    | _ => simp [extractRule, hr]

/-- so removing it proceeds to the deletion and the cascade, like for any other fact -/
theorem iremR_noPattern (f : Nat) (s : St) (id : String) (now : Int) (fact : Obj) (hg : amGet s.facts id = some fact)
    (h : ∀ r, fact.get? "rule" = some (.obj r) → noPattern r = true) :
    iremR (f + 1) s id now =
      ((idepsR f (idelR s id fact) id now).1, (idepsR f (idelR s id fact) id now).2.map (fun _ => true)) := by
  rw [iremR]
  simp only [hg, unindexOfR_noop s id fact h]
  rcases idepsR f (idelR s id fact) id now with ⟨s3, r | r⟩ <;> rfl

/-! ## `LinearState.doFindRules` and a `rule` value that is not a map -/

def ruleNotMap (fact : Obj) : Bool :=
  match fact.get? "rule" with
  | some (.obj _) => false
  | some _ => true
  | none => false

/-- the scan steps over a live fact whose `rule` is not a map: no error, no candidate -/
theorem lfindLoopR_skip (ev : Obj) (now : Int) (f : Nat) (s : St) (id : String) (rest : List String) (acc : List (String × Obj))
    (fact : Obj) (hg : amGet s.facts id = some fact) (hr : ruleNotMap fact = true) (hl : checkExpiration fact now = .ok false) :
    lfindLoopR ev now (f + 1) s (id :: rest) acc = lfindLoopR ev now f s rest acc := by
  rw [lfindLoopR]
  simp only [hg]
  unfold ruleNotMap at hr
  cases hv : fact.get? "rule" with
  | none => rw [hv] at hr
  | some v =>
    rw [hv] at hr
    simp only [hl]
    cases v with
    | obj r => simp at hr
    | _ => rfl

theorem amGet_of_mem_nodup {α} (l : List (String × α)) (i : String) (a : α) (hn : (l.map (·.1)).Nodup) (hm : (i, a) ∈ l) :
    amGet l i = some a := by
  induction l with
  | nil => cases hm
  | cons q l ih =>
    rcases q with ⟨k, b⟩
    simp only [List.map_cons, List.nodup_cons] at hn
    simp only [List.mem_cons] at hm
    rcases hm with hm | hm
    · injection hm with h1 h2; subst h1; subst h2; simp [amGet]
    · have hne : (i == k) = false := by
        cases hb : (i == k) with
        | false => rfl
        | true =>
          exfalso
          have : i = k := by simpa using hb
          subst this
          exact hn.1 (List.mem_map.2 ⟨(i, a), hm, rfl⟩)
      simp only [amGet, hne]
      exact ih hn.2 hm

/-- a store that holds nothing but such facts: every event at any time finds no rule, without error -/
theorem lFindRulesR_all_bad (s : St) (ev : Obj) (now : Int)
    (h : ∀ p ∈ s.facts, ruleNotMap p.2 = true ∧ checkExpiration p.2 now = .ok false)
    (hn : (s.facts.map (·.1)).Nodup) : lFindRulesR s ev now = (s, .ok []) := by
  unfold lFindRulesR
  have key : ∀ (ids : List String) (f : Nat), ids.length < f + 1 → (∀ i ∈ ids, ∃ fact, amGet s.facts i = some fact ∧ (i, fact) ∈ s.facts) →
      lfindLoopR ev now (f + 1) s ids [] = (s, .ok []) := by
    intro ids
    induction ids with
    | nil => intro f _ _; rfl
    | cons i rest ih =>
      intro f hlen hall
      obtain ⟨fact, hg, hm⟩ := hall i (by simp)
      rw [lfindLoopR_skip ev now f s i rest [] fact hg (h _ hm).1 (h _ hm).2]
      cases f with
      | zero => simp at hlen
      | succ f => exact ih f (by simp at hlen ⊢; omega) (fun j hj => hall j (by simp [hj]))
  apply key
  · simp
  · intro i hi
    rw [List.mem_map] at hi
    obtain ⟨⟨i', fact⟩, hm, rfl⟩ := hi
    exact ⟨fact, amGet_of_mem_nodup _ _ _ hn hm, hm⟩

/-- every stored fact carries a `rule` value that is not a map and no `expires`; ids are distinct -/
def onlyBadRules (s : St) : Bool :=
  s.facts.all (fun p => ruleNotMap p.2 && (p.2.get? "expires").isNone) && decide ((s.facts.map (·.1)).Nodup)

theorem lFindRulesR_onlyBad (s : St) (h : onlyBadRules s = true) (ev : Obj) (now : Int) : lFindRulesR s ev now = (s, .ok []) := by
  unfold onlyBadRules at h
  simp only [Bool.and_eq_true, List.all_eq_true, decide_eq_true_eq] at h
  refine lFindRulesR_all_bad s ev now (fun p hp => ⟨(h.1 p hp).1, ?_⟩) h.2
  have := (h.1 p hp).2
  unfold checkExpiration
  cases hx : p.2.get? "expires" with
  | none => rfl
  | some v => rw [hx] at this; simp at this

end C13

import RulioModel.Loc

/-! # Error-class induction: no function of the State / Location model answers the literal error `"diverge"`.

`"diverge"` is produced only by `doAncestors` (and its inner `loop`) on fuel exhaustion. Everything below is a
structural walk through the model definitions: each leaf is an error literal different from `"diverge"`, a mapped
index/matcher error (`perr`, `merr`), or an error propagated from a callee. (C09) -/

set_option linter.unusedVariables false
set_option linter.unusedSimpArgs false

/-- the result is not the error `"diverge"` -/
def ND {α} (r : Except LErr α) : Prop := ∀ e, r = .error e → e ≠ "diverge"

theorem ND.ok {α} (a : α) : ND (.ok a : Except LErr α) := fun _ h => by cases h
theorem ND.lit {α} {e : LErr} (h : e ≠ "diverge") : ND (.error e : Except LErr α) := fun _ h' => by cases h'; exact h
theorem ND.ne {α} {r : Except LErr α} (h : ND r) : r ≠ .error "diverge" := fun h' => h _ h' rfl
theorem ND.of_ne {α} {r : Except LErr α} (h : r ≠ .error "diverge") : ND r := fun e h' hd => h (hd ▸ h')
theorem ND.err {α β} {r : Except LErr α} {e : LErr} (h : ND r) (he : r = .error e) : ND (.error e : Except LErr β) :=
  ND.lit (h e he)

theorem perr_nd (e : PErr) : perr e ≠ "diverge" := by cases e <;> decide
theorem merr_nd (e : MErr) : merr e ≠ "diverge" := by cases e <;> decide

theorem matchesJ_nd (p d : J) : ND (matchesJ p d) := by
  unfold matchesJ
  split
  · exact ND.ok _
  · exact ND.lit (merr_nd _)

theorem checkExpiration_nd (f : Obj) (now : Int) : ND (checkExpiration f now) := by
  unfold checkExpiration
  split <;> first | exact ND.ok _ | exact ND.lit (by decide)

theorem getRulePattern_nd (r : Obj) : ND (getRulePattern r) := by
  unfold getRulePattern
  repeat' split
  all_goals first | exact ND.ok _ | exact ND.lit (by decide)

theorem extractRule_nd (f : Obj) (b : Bool) : ND (extractRule f b) := by
  unfold extractRule
  repeat' split
  all_goals first | exact ND.ok _ | exact ND.lit (by decide)

theorem unindexRule_nd (s : St) (id : String) (r : Obj) : ND (s.unindexRule id r) := by
  unfold St.unindexRule
  cases hp : getRulePattern r with
  | error e => exact ND.lit (getRulePattern_nd r e hp)
  | ok po =>
    cases po with
    | none => exact ND.ok _
    | some pat =>
      simp only [bind, Except.bind, pure, Except.pure]
      split
      · exact ND.lit (perr_nd _)
      · exact ND.ok _

theorem r1_nd (s : St) (id : String) (rule : Option Obj) :
    ND (match rule with | some r => s.unindexRule id r | none => Except.ok s) := by
  cases rule with
  | none => exact ND.ok _
  | some r => exact unindexRule_nd _ _ _

theorem tiSearch_nd (ti : TI) (ts : List String) : ND (TI.search ti ts) := by
  unfold TI.search
  split
  · exact ND.lit (by decide)
  · exact ND.ok _

theorem cands_nd (s : St) (p : Obj) :
    ND (if (extractTerms p).isEmpty = true then Except.ok (List.map (fun x => x.fst) s.facts)
      else s.ti.search (extractTerms p)) := by
  split
  · exact ND.ok _
  · exact tiSearch_nd _ _

/-- leaf/propagation closer for the mutual groups -/
macro "nd_leaf" : tactic => `(tactic|
  first
    | exact ND.ok _
    | exact ND.lit (by decide)
    | exact ND.lit (perr_nd _)
    | exact ND.lit (merr_nd _)
    | assumption)

theorem irem_group_nd (fuel : Nat) :
    (∀ s id now, ND (St.irem fuel s id now).2) ∧
    (∀ s id now, ND (St.ideps fuel s id now).2) ∧
    (∀ s ids now, ND (St.iremAll fuel s ids now).2) ∧
    (∀ s p now, ND (St.isearch fuel s p now).2) ∧
    (∀ s p ids now acc, ND (St.isearchLoop fuel s p ids now acc).2) := by
  induction fuel with
  | zero =>
    refine ⟨?_, ?_, ?_, ?_, ?_⟩ <;> intros <;> simp only [St.irem, St.ideps, St.iremAll, St.isearch, St.isearchLoop] <;>
      exact ND.lit (by decide)
  | succ fuel ih =>
    obtain ⟨ihrem, ihdeps, ihall, ihsearch, ihloop⟩ := ih
    refine ⟨?_, ?_, ?_, ?_, ?_⟩
    · intro s id now
      simp only [St.irem]
      repeat' split
      all_goals first
        | nd_leaf
        | (rename_i h; exact (ihdeps _ _ _).err (congrArg Prod.snd h))
        | (rename_i h; exact (r1_nd _ _ _).err h)
        | skip
    · intro s id now
      simp only [St.ideps]
      repeat' split
      all_goals first
        | nd_leaf
        | exact ihall _ _ _
        | (rename_i h; exact (ihsearch _ _ _).err (congrArg Prod.snd h))
        | skip
    · intro s ids now
      simp only [St.iremAll]
      repeat' split
      all_goals first
        | nd_leaf
        | exact ihall _ _ _
        | (rename_i h; exact (ihrem _ _ _).err (congrArg Prod.snd h))
        | skip
    · intro s p now
      simp only [St.isearch]
      repeat' split
      all_goals first
        | nd_leaf
        | exact ihloop _ _ _ _ _
        | (rename_i h; exact (cands_nd _ _).err h)
        | skip
    · intro s p ids now acc
      simp only [St.isearchLoop]
      repeat' split
      all_goals first
        | nd_leaf
        | exact ihloop _ _ _ _ _
        | (rename_i h; exact (matchesJ_nd _ _).err h)
        | skip

theorem irem_nd (fuel : Nat) (s : St) (id : String) (now : Int) : ND (St.irem fuel s id now).2 :=
  (irem_group_nd fuel).1 s id now
theorem isearch_nd (fuel : Nat) (s : St) (p : Obj) (now : Int) : ND (St.isearch fuel s p now).2 :=
  (irem_group_nd fuel).2.2.2.1 s p now

theorem lrem_group_nd (fuel : Nat) :
    (∀ s id now, ND (St.lrem fuel s id now).2) ∧
    (∀ s ids now, ND (St.lremAll fuel s ids now).2) ∧
    (∀ s p now, ND (St.lsearch fuel s p now).2) ∧
    (∀ s p ids now acc, ND (St.lsearchLoop fuel s p ids now acc).2) := by
  induction fuel with
  | zero =>
    refine ⟨?_, ?_, ?_, ?_⟩ <;> intros <;> simp only [St.lrem, St.lremAll, St.lsearch, St.lsearchLoop] <;>
      exact ND.lit (by decide)
  | succ fuel ih =>
    obtain ⟨ihrem, ihall, ihsearch, ihloop⟩ := ih
    refine ⟨?_, ?_, ?_, ?_⟩
    · intro s id now
      simp only [St.lrem]
      repeat' split
      all_goals first
        | nd_leaf
        | (rename_i h; exact (ihsearch _ _ _).err (congrArg Prod.snd h))
        | (rename_i h; exact (ihall _ _ _).err (congrArg Prod.snd h))
        | skip
    · intro s ids now
      simp only [St.lremAll]
      repeat' split
      all_goals first
        | nd_leaf
        | exact ihall _ _ _
        | (rename_i h; exact (ihrem _ _ _).err (congrArg Prod.snd h))
        | skip
    · intro s p now
      simp only [St.lsearch]
      exact ihloop _ _ _ _ _
    · intro s p ids now acc
      simp only [St.lsearchLoop]
      repeat' split
      all_goals first
        | nd_leaf
        | exact ihloop _ _ _ _ _
        | (rename_i h; exact (matchesJ_nd _ _).err h)
        | (rename_i h; exact (checkExpiration_nd _ _).err h)
        | (rename_i h; exact (ihrem _ _ _).err (congrArg Prod.snd h))
        | skip

theorem lrem_nd (fuel : Nat) (s : St) (id : String) (now : Int) : ND (St.lrem fuel s id now).2 :=
  (lrem_group_nd fuel).1 s id now
theorem lsearch_nd (fuel : Nat) (s : St) (p : Obj) (now : Int) : ND (St.lsearch fuel s p now).2 :=
  (lrem_group_nd fuel).2.2.1 s p now

theorem iGet_nd (s : St) (id : String) (now : Int) : ND (s.iGet id now).2 := by
  unfold St.iGet
  repeat' split
  all_goals first
    | nd_leaf
    | (rename_i h; exact (checkExpiration_nd _ _).err h)
    | (rename_i h; exact (irem_nd _ _ _ _).err (congrArg Prod.snd h))

theorem lGet_nd (s : St) (id : String) (now : Int) : ND (s.lGet id now).2 := by
  unfold St.lGet
  repeat' split
  all_goals first
    | nd_leaf
    | (rename_i h; exact (checkExpiration_nd _ _).err h)
    | (rename_i h; exact (lrem_nd _ _ _ _).err (congrArg Prod.snd h))

theorem iFindRules_go_nd (now : Int) (fuel : Nat) : ∀ (s : St) (ids : List String) (acc : List (String × Obj)),
    ND (St.iFindRules.go now fuel s ids acc).2 := by
  induction fuel with
  | zero => intros; simp only [St.iFindRules.go]; exact ND.lit (by decide)
  | succ fuel ih =>
    intro s ids acc
    simp only [St.iFindRules.go]
    repeat' split
    all_goals first
      | nd_leaf
      | exact ih _ _ _
      | (rename_i h; exact (extractRule_nd _ _).err h)
      | skip

theorem iFindRules_nd (s : St) (ev : Obj) (now : Int) : ND (s.iFindRules ev now).2 := by
  unfold St.iFindRules
  split
  · exact ND.lit (perr_nd _)
  · exact iFindRules_go_nd _ _ _ _ _

theorem lFindRules_go_nd (event : Obj) (now : Int) (fuel : Nat) : ∀ (s : St) (ids : List String) (acc : List (String × Obj)),
    ND (St.lFindRules.go event now fuel s ids acc).2 := by
  induction fuel with
  | zero => intros; simp only [St.lFindRules.go]; exact ND.lit (by decide)
  | succ fuel ih =>
    intro s ids acc
    simp only [St.lFindRules.go]
    repeat' split
    all_goals first
      | nd_leaf
      | exact ih _ _ _
      | (rename_i h; exact (matchesJ_nd _ _).err h)
      | (rename_i h; exact (checkExpiration_nd _ _).err h)
      | (rename_i h; exact (lrem_nd _ _ _ _).err (congrArg Prod.snd h))
      | skip

theorem lFindRules_nd (s : St) (ev : Obj) (now : Int) : ND (s.lFindRules ev now).2 := by
  unfold St.lFindRules
  exact lFindRules_go_nd _ _ _ _ _ _

theorem St.get_nd (s : St) (id : String) (now : Int) : ND (s.get id now).2 := by
  unfold St.get; split; exact iGet_nd _ _ _; exact lGet_nd _ _ _
theorem St.search_nd (s : St) (p : Obj) (now : Int) : ND (s.search p now).2 := by
  unfold St.search; split; exact isearch_nd _ _ _ _; exact lsearch_nd _ _ _ _
theorem St.findRules_nd (s : St) (ev : Obj) (now : Int) : ND (s.findRules ev now).2 := by
  unfold St.findRules; split; exact iFindRules_nd _ _ _; exact lFindRules_nd _ _ _
theorem St.rem_nd (s : St) (id : String) (now : Int) : ND (s.rem id now).2 := by
  unfold St.rem; split; exact irem_nd _ _ _ _; exact lrem_nd _ _ _ _

/-! ## writes -/

theorem parseProp_nd (f : Obj) : ND (parseProp f) := by
  unfold parseProp
  repeat' split
  all_goals nd_leaf

theorem genId_nd (f : Obj) (g fr : String) : ND (genId f g fr) := by
  unfold genId
  simp only [bind, Except.bind, pure, Except.pure]
  repeat' split
  all_goals first
    | nd_leaf
    | (rename_i h; exact (parseProp_nd _).err h)

/-- an error that came out of a nest of matches whose leaves are literals -/
macro "nd_inv" : tactic => `(tactic|
  (rename_i h_; revert h_; repeat' split
   all_goals (intro h_; first | (cases h_; done) | (cases h_; exact ND.lit (by decide)))))

theorem setExpires_nd (f : Obj) (now : Int) : ND (setExpires f now) := by
  unfold setExpires
  simp only [bind, Except.bind, pure, Except.pure]
  repeat' split
  all_goals first
    | nd_leaf
    | nd_inv

theorem prepareFact_nd (g fr : String) (x : Obj) (now : Int) : ND (prepareFact g fr x now) := by
  unfold prepareFact
  simp only [bind, Except.bind, pure, Except.pure]
  repeat' split
  all_goals first
    | nd_leaf
    | (rename_i h; exact (genId_nd _ _ _).err h)
    | (rename_i h; exact (setExpires_nd _ _).err h)
    | skip

/-- the same for optional errors -/
def NDo (o : Option LErr) : Prop := ∀ e, o = some e → e ≠ "diverge"

theorem indexRule_nd (s : St) (id : String) (r : Obj) : NDo (s.indexRule id r).2 := by
  unfold St.indexRule
  cases hp : getRulePattern r with
  | error e => intro e' h; cases h; exact getRulePattern_nd r e hp
  | ok po =>
    cases po with
    | none => intro e' h; cases h; decide
    | some pat =>
      simp only []
      intro e' h
      cases hq : (piAdd s.ri pat id).2 with
      | none => rw [hq] at h; cases h
      | some pe => rw [hq] at h; cases h; exact perr_nd _

theorem unindexPrevious_nd (s : St) (id : String) : ND (s.unindexPrevious id) := by
  unfold St.unindexPrevious
  repeat' split
  all_goals first
    | nd_leaf
    | skip
  rename_i old _ _
  intro e h
  cases hu : s.unindexRule id old with
  | error e' => rw [hu] at h; cases h; exact unindexRule_nd _ _ _ _ hu
  | ok s' => rw [hu] at h; cases h

theorem iadd_rule_nd (s : St) (id : String) (rule replaced : Option Obj) :
    NDo (match rule with
      | some r =>
        if r.has "schedule" = true then (s, (none : Option LErr))
        else
          match s.indexRule id r with
          | (s1, none) => (s1, none)
          | (s1, some e) =>
            match replaced with
            | some old => if old.has "schedule" = true then (s1, some e) else ((s1.indexRule id old).fst, some e)
            | none => (s1, some e)
      | none => (s, none)).snd := by
  intro e h
  cases rule with
  | none => cases h
  | some r =>
    dsimp only at h
    split at h
    · cases h
    · have hi := indexRule_nd s id r
      cases hq : s.indexRule id r with
      | mk s1 o =>
        rw [hq] at h hi
        cases o with
        | none => cases h
        | some e' =>
          have he' := hi e' rfl
          dsimp only at h
          repeat' split at h
          all_goals (cases h; exact he')

theorem iadd_nd (s : St) (g : String) (x : Obj) (now : Int) : ND (s.iadd g x now).2 := by
  unfold St.iadd
  split
  · rename_i h; exact (prepareFact_nd _ _ _ _).err h
  · dsimp only
    split
    · rename_i h; exact (extractRule_nd _ _).err h
    · split
      · rename_i h; exact (unindexPrevious_nd _ _).err h
      · split
        · rename_i h; exact ND.lit (iadd_rule_nd _ _ _ _ _ h)
        · exact ND.ok _

theorem iAdd_nd (s : St) (g : String) (x : Obj) (now : Int) : ND (s.iAdd g x now).2 := by
  unfold St.iAdd
  split
  · rename_i h; exact (iadd_nd _ _ _ _).err (congrArg Prod.snd h)
  · exact ND.ok _

theorem lAdd_nd (s : St) (g : String) (x : Obj) (now : Int) : ND (s.lAdd g x now).2 := by
  unfold St.lAdd
  split
  · rename_i h; exact (prepareFact_nd _ _ _ _).err h
  · exact ND.ok _

theorem St.add_nd (s : St) (g : String) (x : Obj) (now : Int) : ND (s.add g x now).2 := by
  unfold St.add; split; exact iAdd_nd _ _ _ _; exact lAdd_nd _ _ _ _

theorem iLoad_go_nd (now : Int) : ∀ (docs : List (String × J)) (s : St), ND (St.iLoad.go now s docs) := by
  intro docs
  induction docs with
  | nil => intro s; simp only [St.iLoad.go]; exact ND.ok _
  | cons d rest ih =>
    intro s
    obtain ⟨id, doc⟩ := d
    simp only [St.iLoad.go]
    repeat' split
    all_goals first
      | nd_leaf
      | exact ih _
      | (rename_i h; exact (iadd_nd _ _ _ _).err (congrArg Prod.snd h))

theorem lLoad_go_nd : ∀ (docs : List (String × J)) (acc : List (String × Obj)), ND (St.lLoad.go docs acc) := by
  intro docs
  induction docs with
  | nil => intro acc; simp only [St.lLoad.go]; exact ND.ok _
  | cons d rest ih =>
    intro acc
    obtain ⟨id, doc⟩ := d
    cases doc <;> simp only [St.lLoad.go] <;> first | exact ih _ | exact ND.lit (by decide)

theorem St.reload_nd (s : St) (now : Int) : ND (s.reload now) := by
  unfold St.reload
  split
  · intro e h
    cases hl : St.iLoad s.store now with
    | error e' => rw [hl] at h; cases h; exact iLoad_go_nd _ _ _ _ hl
    | ok t => rw [hl] at h; cases h
  · intro e h
    unfold St.lLoad at h
    split at h
    · cases h
    · rename_i e' hg
      cases h
      exact lLoad_go_nd _ _ _ hg

/-! ## the location layer -/

/-- a single-location computation never answers `"diverge"` -/
def LM.NoDiv {α} (m : LM α) : Prop := ∀ l, ND (m l).2

namespace LM
theorem NoDiv.pure {α} (a : α) : (LM.pure a).NoDiv := fun l => ND.ok a
theorem NoDiv.pure' {α} (a : α) : (Pure.pure a : LM α).NoDiv := fun l => ND.ok a
theorem NoDiv.fail {α} {e : LErr} (h : e ≠ "diverge") : (LM.fail e : LM α).NoDiv := fun l => ND.lit h
theorem NoDiv.get : LM.get.NoDiv := fun l => ND.ok l
theorem NoDiv.liftSt {α} {f : St → St × Except LErr α} (h : ∀ s, ND (f s).2) : (LM.liftSt f).NoDiv := fun l => h l.st
theorem NoDiv.attempt {α} (m : LM α) : (LM.attempt m).NoDiv := fun l => ND.ok _

/-- bind, where the continuation may use a property of the values `m` can return -/
theorem NoDiv.bindP {α β} {m : LM α} {f : α → LM β} (P : α → Prop) (hm : m.NoDiv)
    (hP : ∀ l a, (m l).2 = .ok a → P a) (hf : ∀ a, P a → (f a).NoDiv) : (LM.bind m f).NoDiv := by
  intro l
  unfold LM.bind
  have h1 := hm l
  have h2 := hP l
  cases hml : m l with
  | mk l1 r =>
    rw [hml] at h1 h2
    cases r with
    | error e => exact ND.lit (h1 e rfl)
    | ok a => simpa using hf a (h2 a rfl) l1

theorem NoDiv.bind {α β} {m : LM α} {f : α → LM β} (hm : m.NoDiv) (hf : ∀ a, (f a).NoDiv) : (LM.bind m f).NoDiv :=
  NoDiv.bindP (fun _ => True) hm (fun _ _ _ => trivial) (fun a _ => hf a)
theorem NoDiv.bind' {α β} {m : LM α} {f : α → LM β} (hm : m.NoDiv) (hf : ∀ a, (f a).NoDiv) : (m >>= f).NoDiv :=
  NoDiv.bind hm hf
theorem attempt_val {α} (m : LM α) (hm : m.NoDiv) : ∀ l r, (LM.attempt m l).2 = .ok r → ND r := by
  intro l r h
  unfold LM.attempt at h
  cases h
  exact hm l
end LM

open LM in
theorem stGet_nd (id : String) (now : Int) : (stGet id now).NoDiv := NoDiv.liftSt (fun s => St.get_nd s id now)
open LM in
theorem stAdd_nd (id : String) (x : Obj) (now : Int) : (stAdd id x now).NoDiv := NoDiv.liftSt (fun s => St.add_nd s id x now)
open LM in
theorem stRem_nd (id : String) (now : Int) : (stRem id now).NoDiv := NoDiv.liftSt (fun s => St.rem_nd s id now)
open LM in
theorem stSearch_nd (p : Obj) (now : Int) : (stSearch p now).NoDiv := NoDiv.liftSt (fun s => St.search_nd s p now)
open LM in
theorem stFindRules_nd (p : Obj) (now : Int) : (stFindRules p now).NoDiv := NoDiv.liftSt (fun s => St.findRules_nd s p now)

/-- structural tactic: walk through binds / matches / ifs -/
macro "no_div" : tactic => `(tactic|
  repeat (with_reducible first
    | exact LM.NoDiv.pure' _
    | exact LM.NoDiv.pure _
    | exact LM.NoDiv.fail (by decide)
    | exact LM.NoDiv.get
    | exact LM.NoDiv.attempt _
    | exact stGet_nd _ _
    | exact stAdd_nd _ _ _
    | exact stRem_nd _ _
    | exact stSearch_nd _ _
    | exact stFindRules_nd _ _
    | assumption
    | apply LM.NoDiv.bind'
    | apply LM.NoDiv.bind
    | intro _
    | split))

theorem getProp_nd (id prop : String) (d : J) (now : Int) : (getProp id prop d now).NoDiv := by
  unfold getProp
  refine LM.NoDiv.bindP (fun r => ND r) (LM.NoDiv.attempt _) (LM.attempt_val _ (stGet_nd _ _)) ?_
  intro r hr
  split
  · no_div
  · exact LM.NoDiv.fail (hr _ rfl)
  · no_div

theorem getPropStringD_nd (prop : String) (now : Int) : (getPropStringD prop now).NoDiv := by
  unfold getPropStringD
  no_div

theorem setProp_nd (id prop : String) (v : J) (now : Int) : (setProp id prop v now).NoDiv := by
  unfold setProp; no_div

theorem remProp_nd (id prop : String) (now : Int) : (remProp id prop now).NoDiv := by
  unfold remProp; no_div

theorem runGuard_nd (c : Ctx) (now : Int) (g : Guard) : (runGuard c now g).NoDiv := by
  have h1 := fun p => getPropStringD_nd p now
  cases g <;> simp only [runGuard, enabled, checkRead, checkWrite, atCapacity]
  · have := h1 "enabled"; no_div
  · have := h1 "readKey"; no_div
  · have := h1 "writeKey"; no_div
  · no_div

theorem runGuards_nd (c : Ctx) (now : Int) (gs : List Guard) : (runGuards c now gs).NoDiv := by
  induction gs with
  | nil => unfold runGuards; no_div
  | cons g gs ih =>
    unfold runGuards
    have := runGuard_nd c now g
    no_div

theorem mapM_parents_nd (xs : List J) :
    ND (xs.mapM (fun x => match x with | .str s => (Except.ok s : Except LErr String) | _ => .error "badParents")) := by
  induction xs with
  | nil => exact ND.ok _
  | cons x xs ih =>
    rw [List.mapM_cons]
    simp only [bind, Except.bind, pure, Except.pure]
    repeat' split
    all_goals first
      | nd_leaf
      | (rename_i h; exact ih.err h)
      | nd_inv

theorem parentsOfJ_nd (v : J) : ND (parentsOfJ v) := by
  unfold parentsOfJ
  split
  · exact mapM_parents_nd _
  · exact ND.lit (by decide)

theorem locGetParentsRaw_nd (now : Int) : (locGetParentsRaw now).NoDiv := by
  unfold locGetParentsRaw
  have := getProp_nd "" "parents" (.arr []) now
  apply LM.NoDiv.bind' this
  intro a
  split
  split
  · no_div
  · split
    · no_div
    · rename_i h; exact LM.NoDiv.fail (parentsOfJ_nd _ _ h)

theorem ruleFromMap_nd (r : Obj) : ND (ruleFromMap r) := by
  unfold ruleFromMap
  simp only [bind, Except.bind, pure, Except.pure]
  repeat' split
  all_goals first
    | nd_leaf
    | nd_inv

theorem locSearchRules_go_nd : ∀ (cands : List (String × Obj)), ND (locSearchRules.go cands) := by
  intro cands
  induction cands with
  | nil => simp only [locSearchRules.go]; exact ND.ok _
  | cons x rest ih =>
    obtain ⟨id, body⟩ := x
    simp only [locSearchRules.go, bind, Except.bind, pure, Except.pure]
    repeat' split
    all_goals first
      | nd_leaf
      | (rename_i h; exact (ruleFromMap_nd _).err h)
      | (rename_i h; exact ih.err h)

theorem locSearchFacts_nd (c : Ctx) (p : Obj) (now : Int) : (locSearchFacts c p now).NoDiv := by
  unfold locSearchFacts
  have := runGuards_nd c now (guardsOf "searchFacts")
  no_div

theorem locSearchRules_nd (c : Ctx) (ev : Obj) (now : Int) : (locSearchRules c ev now).NoDiv := by
  unfold locSearchRules
  have := runGuards_nd c now (guardsOf "searchRules")
  apply LM.NoDiv.bind' this
  intro _
  apply LM.NoDiv.bind' (stFindRules_nd _ _)
  intro cands
  split
  · no_div
  · rename_i h; exact LM.NoDiv.fail (locSearchRules_go_nd _ _ h)

theorem locGetParents_nd (c : Ctx) (now : Int) : (locGetParents c now).NoDiv := by
  unfold locGetParents
  have := runGuards_nd c now (guardsOf "GetParents")
  have := locGetParentsRaw_nd now
  no_div

theorem locSetParents_nd (c : Ctx) (ps : List String) (now : Int) : (locSetParents c ps now).NoDiv := by
  unfold locSetParents
  have := runGuards_nd c now (guardsOf "SetParents")
  have := setProp_nd "" "parents" (.arr (ps.map .str)) now
  no_div

theorem locAddFact_nd (c : Ctx) (id : String) (f : Obj) (now : Int) : (locAddFact c id f now).NoDiv := by
  unfold locAddFact
  have := runGuards_nd c now (guardsOf "AddFact")
  no_div

theorem locRemFact_nd (c : Ctx) (id : String) (now : Int) : (locRemFact c id now).NoDiv := by
  unfold locRemFact
  have := runGuards_nd c now (guardsOf "RemFact")
  no_div

theorem locGetFact_nd (c : Ctx) (id : String) (now : Int) : (locGetFact c id now).NoDiv := by
  unfold locGetFact
  have := runGuards_nd c now (guardsOf "GetFact")
  no_div

theorem locAddRule_nd (c : Ctx) (id : String) (r : Obj) (now : Int) : (locAddRule c id r now).NoDiv := by
  unfold locAddRule
  have := runGuards_nd c now (guardsOf "AddRule")
  apply LM.NoDiv.bind' this
  intro _
  split
  · rename_i h; exact LM.NoDiv.fail (ruleFromMap_nd _ _ h)
  · split
    · rename_i h; exact LM.NoDiv.fail (setExpires_nd _ _ _ h)
    · no_div

theorem locRemRule_nd (c : Ctx) (id : String) (now : Int) : (locRemRule c id now).NoDiv := by
  unfold locRemRule
  have := runGuards_nd c now (guardsOf "RemRule")
  have := getProp_nd id "disabled" (.bool false) now
  have := remProp_nd id "disabled" now
  no_div

theorem locEnableRule_nd (c : Ctx) (id : String) (b : Bool) (now : Int) : (locEnableRule c id b now).NoDiv := by
  unfold locEnableRule
  have := runGuards_nd c now (guardsOf "EnableRule")
  have := setProp_nd id "disabled" (.bool true) now
  have := remProp_nd id "disabled" now
  no_div

theorem locRuleEnabled_nd (c : Ctx) (id : String) (now : Int) : (locRuleEnabled c id now).NoDiv := by
  unfold locRuleEnabled
  have := runGuards_nd c now (guardsOf "RuleEnabled")
  have := getProp_nd id "disabled" (.bool false) now
  no_div

theorem locGetRule_nd (c : Ctx) (id : String) (now : Int) : (locGetRule c id now).NoDiv := by
  unfold locGetRule
  have := runGuards_nd c now (guardsOf "GetRule")
  apply LM.NoDiv.bind' this
  intro _
  apply LM.NoDiv.bind' (stGet_nd _ _)
  intro f
  split
  · no_div
  · no_div
  · rename_i h; exact LM.NoDiv.fail (extractRule_nd _ _ _ h)

theorem locClear_nd (c : Ctx) (now : Int) : (locClear c now).NoDiv := by
  unfold locClear
  have := runGuards_nd c now (guardsOf "Clear")
  have h : LM.NoDiv (fun l : Loc => (({ l with st := l.st.clear } : Loc), (Except.ok () : Except LErr Unit))) :=
    fun l => ND.ok _
  exact LM.NoDiv.bind this (fun _ => h)

theorem locStateSize_nd (c : Ctx) (now : Int) : (locStateSize c now).NoDiv := by
  unfold locStateSize
  have := runGuards_nd c now (guardsOf "StateSize")
  no_div

/-! ## systems -/

theorem Sys.at_nd {α} (sys : Sys) (n : String) {m : LM α} (hm : m.NoDiv) : ND (sys.at n m).2 := by
  unfold Sys.at
  split
  · exact ND.lit (by decide)
  · exact hm _

import RulioProofs.MatchUnfold

/-! # Groundness pass (C05): with ground data and ground incoming bindings the matcher never reports
`nonGround` (the guard under which the real recursion is bounded), every returned binding is ground, and
inside the `patOK` fragment it reports no error at all -/

open List

/-- result predicate: `Q` on success, `E` on the error -/
def GoodE {α : Type} (E : MErr → Prop) (Q : α → Prop) : Except MErr α → Prop
  | .ok v => Q v
  | .error e => E e

theorem GoodE.mono {α : Type} {E E' : MErr → Prop} {Q Q' : α → Prop} {x : Except MErr α}
    (h : GoodE E Q x) (hE : ∀ e, E e → E' e) (hQ : ∀ v, Q v → Q' v) : GoodE E' Q' x := by
  cases x with
  | ok v => exact hQ v h
  | error e => exact hE e h

theorem GoodE.bind {α β : Type} {E : MErr → Prop} {Q : α → Prop} {R : β → Prop} {x : Except MErr α}
    {f : α → Except MErr β} (h : GoodE E Q x) (hf : ∀ a, Q a → GoodE E R (f a)) : GoodE E R (x >>= f) := by
  cases x with
  | ok v => exact hf v h
  | error e => exact h

theorem GoodE.mapM {α β : Type} {E : MErr → Prop} {Q : β → Prop} {f : α → Except MErr β} :
    ∀ {l : List α}, (∀ a ∈ l, GoodE E Q (f a)) → GoodE E (fun rs => ∀ r ∈ rs, Q r) (l.mapM f)
  | [], _ => by simp [pure, Except.pure, GoodE]
  | a :: l, h => by
      rw [List.mapM_cons]
      refine GoodE.bind (h a List.mem_cons_self) (fun r hr => ?_)
      refine GoodE.bind (GoodE.mapM (l := l) (fun a ha => h a (List.mem_cons_of_mem _ ha))) (fun rs hrs => ?_)
      intro r' hr'
      rcases List.mem_cons.1 hr' with rfl | hr'
      · exact hr
      · exact hrs r' hr'

/-- all values of the bindings are ground -/
def GBs (b : Bs) : Prop := ∀ kv ∈ b, kv.2.ground = true

theorem Bs.get?_mem : ∀ {bs : Bs} {k : String} {v : J}, bs.get? k = some v → (k, v) ∈ bs
  | [], _, _, h => by simp [Bs.get?] at h
  | (k', w) :: r, k, v, h => by
      simp only [Bs.get?] at h
      by_cases hk : (k == k') = true
      · simp only [hk, if_true, Option.some.injEq] at h
        have : k = k' := by simpa using hk
        subst this; subst h; exact List.mem_cons_self
      · simp only [hk, Bool.false_eq_true, if_false] at h
        exact List.mem_cons_of_mem _ (Bs.get?_mem h)

theorem Bs.mem_get? : ∀ {bs : Bs} {k : String} {v : J}, (k, v) ∈ bs → bs.get? k ≠ none
  | [], _, _, h => by cases h
  | (k', w) :: r, k, v, h => by
      simp only [Bs.get?]
      by_cases hk : (k == k') = true
      · simp [hk]
      · simp only [hk, Bool.false_eq_true, if_false]
        rcases List.mem_cons.1 h with h | h
        · cases h; simp at hk
        · exact Bs.mem_get? h

theorem GBs.set {b : Bs} (hb : GBs b) (s : String) {f : J} (hf : f.ground = true) : GBs (b.set s f) := by
  intro kv hkv
  unfold Bs.set at hkv
  rcases List.mem_cons.1 hkv with rfl | hkv
  · exact hf
  · exact hb kv (List.mem_filter.1 hkv).1

theorem groundL_iff : ∀ {xs : List J}, groundL xs = true ↔ ∀ x ∈ xs, x.ground = true
  | [] => by simp [groundL]
  | x :: xs => by simp [groundL, groundL_iff (xs := xs)]
theorem groundO_mem : ∀ {kvs : List (String × J)}, groundO kvs = true →
    ∀ kv ∈ kvs, isVar kv.1 = false ∧ kv.2.ground = true
  | [], _, _, h => by cases h
  | (k, v) :: r, hg, kv, h => by
      simp only [groundO, Bool.and_eq_true, Bool.not_eq_true'] at hg
      rcases List.mem_cons.1 h with rfl | h
      · exact hg.1
      · exact groundO_mem hg.2 kv h
theorem lookupKey_mem : ∀ {fm : List (String × J)} {k : String} {v : J}, lookupKey k fm = some v → (k, v) ∈ fm
  | [], _, _, h => by simp [lookupKey] at h
  | (k', w) :: r, k, v, h => by
      simp only [lookupKey] at h
      by_cases hk : (k == k') = true
      · simp only [hk, if_true, Option.some.injEq] at h
        have : k = k' := by simpa using hk
        subst this; subst h; exact List.mem_cons_self
      · simp only [hk, Bool.false_eq_true, if_false] at h
        exact List.mem_cons_of_mem _ (lookupKey_mem h)

/-- the string case never fails on ground bindings and keeps them ground -/
theorem matchStr_good {E : MErr → Prop} (s : String) {f : J} {bs : Bs} (hf : f.ground = true) (hb : GBs bs) :
    GoodE E (fun out => ∀ σ ∈ out, GBs σ) (matchStr s f bs) := by
  unfold matchStr
  by_cases hv : isVar s = true
  · simp only [hv, Bool.not_true, Bool.false_eq_true, if_false]
    by_cases hq : (s == "?") = true
    · simp only [hq, if_true, GoodE]
      intro σ hσ; rw [List.mem_singleton.1 hσ]; exact hb
    · simp only [hq, Bool.false_eq_true, if_false]
      cases hg : bs.get? s with
      | none =>
        simp only [GoodE]
        intro σ hσ; rw [List.mem_singleton.1 hσ]; exact hb.set s hf
      | some b =>
        have hbg : b.ground = true := hb _ (Bs.get?_mem hg)
        simp only [hbg, if_true, GoodE]
        intro σ hσ; rw [(List.mem_replicate.1 hσ).2]; exact hb
  · have hv' : isVar s = false := by simpa using hv
    simp only [hv', Bool.not_false, if_true]
    cases f with
    | str t =>
      simp only
      by_cases hst : (s == t) = true
      · simp only [hst, if_true, GoodE]
        intro σ hσ; rw [List.mem_singleton.1 hσ]; exact hb
      · simp only [hst, Bool.false_eq_true, if_false, GoodE]
        intro σ hσ; cases hσ
    | _ => simp only [GoodE]; intro σ hσ; cases hσ

theorem getVariable_error : ∀ (xs : List J) (w : Option String) (e : MErr),
    getVariable xs w = .error e →
      e ≠ .nonGround ∧ (if w.isSome then 1 else 2) ≤ (xs.filter isVarElem).length
  | [], w, e, h => by simp [getVariable] at h
  | x :: r, w, e, h => by
      by_cases hx : isVarElem x = true
      · cases x <;> simp [isVarElem] at hx
        rename_i s
        rw [List.filter_cons_of_pos (by simp [isVarElem, hx])]
        simp only [getVariable, hx, if_true] at h
        cases w with
        | none =>
          simp only at h
          have := getVariable_error r (some s) e h
          simp only [Option.isSome_some, if_true, Option.isSome_none, Bool.false_eq_true, if_false,
            List.length_cons] at this ⊢
          exact ⟨this.1, by omega⟩
        | some w =>
          simp only at h
          simp only [Option.isSome_some, if_true, List.length_cons]
          split at h <;> (cases h; exact ⟨by decide, by omega⟩)
      · have hx' : isVarElem x = false := by simpa using hx
        rw [List.filter_cons_of_neg (by simp [hx'])]
        have h' : getVariable r w = .error e := by
          cases x with
          | str s =>
            have hs : isVar s = false := by simpa [isVarElem] using hx'
            simp only [getVariable, hs, Bool.false_eq_true, if_false] at h
            rcases (Except.bind_error_iff _ _ _).1 h with h | ⟨a, _, h⟩
            · exact h
            · simp [pure, Except.pure] at h
          | _ =>
            simp only [getVariable] at h
            rcases (Except.bind_error_iff _ _ _).1 h with h | ⟨a, _, h⟩
            · exact h
            · simp [pure, Except.pure] at h
        exact getVariable_error r w e h'

@[simp] theorem GoodE_ok {α : Type} (E : MErr → Prop) (Q : α → Prop) (v : α) : GoodE E Q (.ok v) = Q v := rfl
@[simp] theorem GoodE_pure {α : Type} (E : MErr → Prop) (Q : α → Prop) (v : α) :
    GoodE E Q (pure v : Except MErr α) = Q v := rfl
@[simp] theorem GoodE_error {α : Type} (E : MErr → Prop) (Q : α → Prop) (e : MErr) :
    GoodE E Q (.error e : Except MErr α) = E e := rfl

/-- allowed errors of a call on pattern `p`: never `nonGround`, and none at all inside the fragment -/
def EJ (p : J) (e : MErr) : Prop := e ≠ .nonGround ∧ patOK p = false
def EA (xs : List J) (e : MErr) : Prop := e ≠ .nonGround ∧ patOKL xs = false
def EO (kvs : List (String × J)) (e : MErr) : Prop := e ≠ .nonGround ∧ patOKO kvs = false

def NG (p : J) : Prop :=
  ∀ (d : J) (bs : Bs), d.ground = true → GBs bs →
    GoodE (EJ p) (fun bss => ∀ σ ∈ bss, GBs σ) (matchJ p d bs)

theorem mem_flat_GBs {accs : List (List Bs)} (h : ∀ r ∈ accs, ∀ σ ∈ r, GBs σ) :
    ∀ σ ∈ accs.flatMap id, GBs σ := by
  intro σ hσ
  obtain ⟨r, hr, hσ⟩ := List.mem_flatMap.1 hσ
  exact h r hr σ hσ

theorem matchO_good (fm : List (String × J)) (hfm : groundO fm = true) : ∀ (kvs : List (String × J)),
    (∀ kv ∈ kvs, NG kv.2) → ∀ (bss : List Bs), (∀ b ∈ bss, GBs b) →
      GoodE (EO kvs) (fun out => ∀ σ ∈ out, GBs σ) (matchO kvs fm bss)
  | [], _, bss, hb => by rw [matchO_nil]; exact hb
  | (k, v) :: r, ih, bss, hb => by
      have ihv : NG v := ih (k, v) List.mem_cons_self
      have ihr : ∀ kv ∈ r, NG kv.2 := fun kv hkv => ih kv (List.mem_cons_of_mem _ hkv)
      have hEv : ∀ e, EJ v e → EO ((k, v) :: r) e := by
        intro e he; exact ⟨he.1, by simp [patOKO, he.2]⟩
      have hEr : ∀ e, EO r e → EO ((k, v) :: r) e := by
        intro e he; exact ⟨he.1, by simp [patOKO, he.2]⟩
      by_cases hk : isVar k = true
      · rw [matchO_cons_var hk]
        refine GoodE.bind (Q := fun per => ∀ r ∈ per, ∀ σ ∈ r, GBs σ) ?_ (fun per hper => mem_flat_GBs hper)
        apply GoodE.mapM
        intro fkv hfkv
        obtain ⟨hfk, hfv⟩ := groundO_mem hfm fkv hfkv
        refine GoodE.bind (Q := fun e1 => ∀ r ∈ e1, ∀ σ ∈ r, GBs σ) ?_ ?_
        · apply GoodE.mapM
          intro b hbm
          exact matchStr_good k (by simp [J.ground, hfk]) (hb b hbm)
        · intro e1 he1
          by_cases hem : (e1.flatMap id).isEmpty = true
          · simp only [hem, if_true, GoodE_pure]; intro σ hσ; cases hσ
          · simp only [hem, Bool.false_eq_true, if_false]
            refine GoodE.bind (Q := fun e2 => ∀ r ∈ e2, ∀ σ ∈ r, GBs σ) ?_
              (fun e2 he2 => mem_flat_GBs he2)
            apply GoodE.mapM
            intro b hbm
            exact (ihv fkv.2 b hfv (mem_flat_GBs he1 b hbm)).mono hEv (fun _ h => h)
      · have hk' : isVar k = false := by simpa using hk
        rw [matchO_cons_const hk']
        cases hl : lookupKey k fm with
        | none =>
          simp only
          cases v with
          | str s =>
            simp only
            by_cases ho : isOptVar s = true
            · simp only [ho, if_true]
              exact (matchO_good fm hfm r ihr bss hb).mono hEr (fun _ h => h)
            · simp only [ho, Bool.false_eq_true, if_false, GoodE_ok]; intro σ hσ; cases hσ
          | _ => simp only [GoodE_ok]; intro σ hσ; cases hσ
        | some fv =>
          simp only
          have hfv : fv.ground = true := (groundO_mem hfm _ (lookupKey_mem hl)).2
          refine GoodE.bind (Q := fun acc => ∀ r ∈ acc, ∀ σ ∈ r, GBs σ) ?_ ?_
          · apply GoodE.mapM
            intro b hbm
            exact (ihv fv b hfv (hb b hbm)).mono hEv (fun _ h => h)
          · intro acc hacc
            by_cases hem : (acc.flatMap id).isEmpty = true
            · simp only [hem, if_true, GoodE_pure]; intro σ hσ; cases hσ
            · simp only [hem, Bool.false_eq_true, if_false]
              exact (matchO_good fm hfm r ihr _ (mem_flat_GBs hacc)).mono hEr (fun _ h => h)

/-- every branch carries ground bindings and ground unused facts -/
def BrG (brs : List (List Bs × List J × List J)) : Prop :=
  ∀ br ∈ brs, (∀ b ∈ br.1, GBs b) ∧ (∀ y ∈ br.2.1, y.ground = true) ∧ (∀ y ∈ br.2.2, y.ground = true)

theorem matchA_good : ∀ (xs : List J), (∀ x ∈ xs, NG x) →
    ∀ (ns : Bool) (branches : List (List Bs × List J × List J)), BrG branches →
      GoodE (EA xs) BrG (matchA xs ns branches)
  | [], _, ns, branches, hb => by rw [matchA_nil]; exact hb
  | x :: xs, ih, ns, branches, hb => by
      have ihx : NG x := ih x List.mem_cons_self
      have ihr : ∀ y ∈ xs, NG y := fun y hy => ih y (List.mem_cons_of_mem _ hy)
      have hEx : ∀ e, EJ x e → EA (x :: xs) e := by
        intro e he; exact ⟨he.1, by simp [patOKL, he.2]⟩
      have hEr : ∀ e, EA xs e → EA (x :: xs) e := by
        intro e he; exact ⟨he.1, by simp [patOKL, he.2]⟩
      rw [matchA_cons_eq]
      by_cases hv : isVarElem x = true
      · rw [if_pos hv]
        exact (matchA_good xs ihr ns branches hb).mono hEr (fun _ h => h)
      · rw [if_neg hv]
        by_cases hx : x.isScalar = true
        · rw [if_pos hx]
          cases branches with
          | nil => simp only [GoodE_ok]; intro br hbr; cases hbr
          | cons br0 tail =>
            simp only
            by_cases hc : br0.2.1.contains x = true
            · simp only [hc, if_true]
              refine (matchA_good xs ihr ns _ ?_).mono hEr (fun _ h => h)
              intro br hbr
              obtain ⟨br2, hbr2, rfl⟩ := List.mem_map.1 hbr
              obtain ⟨h1, h2, h3⟩ := hb br2 hbr2
              exact ⟨h1, fun y hy => h2 y (List.mem_of_mem_erase hy), h3⟩
            · simp only [hc, Bool.false_eq_true, if_false, GoodE_ok]; intro br hbr; cases hbr
        · rw [if_neg hx]
          by_cases hns : ns = true
          · rw [if_pos hns]; simp only [GoodE_ok]; intro br hbr; cases hbr
          · rw [if_neg hns]
            refine GoodE.bind (Q := fun nb => ∀ per ∈ nb, ∀ one ∈ per, BrG one) ?_ ?_
            · apply GoodE.mapM
              intro br hbr
              obtain ⟨h1, h2, h3⟩ := hb br hbr
              apply GoodE.mapM
              intro fr hfr
              have hfrp := splitNth_perm (y := fr.1) (r := fr.2) hfr
              refine GoodE.bind (Q := fun acc => ∀ r ∈ acc, ∀ σ ∈ r, GBs σ) ?_ ?_
              · apply GoodE.mapM
                intro b hbm
                exact (ihx fr.1 b (h3 _ (hfrp.mem_iff.2 List.mem_cons_self)) (h1 b hbm)).mono hEx
                  (fun _ h => h)
              · intro acc hacc
                simp only [GoodE_pure]
                by_cases hem : (acc.flatMap id).isEmpty = true
                · simp only [hem, if_true]; intro br1 hbr1; cases hbr1
                · simp only [hem, Bool.false_eq_true, if_false]
                  intro br1 hbr1
                  rw [List.mem_singleton.1 hbr1]
                  exact ⟨mem_flat_GBs hacc, h2,
                    fun y hy => h3 y (hfrp.mem_iff.2 (List.mem_cons_of_mem _ hy))⟩
            · intro nb hnb
              have hnbG : BrG (nb.flatMap (fun per => per.flatMap id)) := by
                intro br1 hbr1
                obtain ⟨per, hper, hbr1⟩ := List.mem_flatMap.1 hbr1
                obtain ⟨one, hone, hbr1⟩ := List.mem_flatMap.1 hbr1
                exact hnb per hper one hone br1 hbr1
              by_cases hem : (nb.flatMap (fun per => per.flatMap id)).isEmpty = true
              · simp only [hem, if_true, GoodE_pure]; intro br hbr; cases hbr
              · simp only [hem, Bool.false_eq_true, if_false]
                exact (matchA_good xs ihr ns _ hnbG).mono hEr (fun _ h => h)

theorem patOK_arr_eq (xs : List J) :
    patOK (.arr xs) = (decide ((xs.filter isVarElem).length ≤ 1) && distinctJ (xs.filter J.isScalar) && patOKL xs) := by
  rw [patOK]; rfl

theorem ngJ : ∀ p, NG p := by
  intro p
  induction p using J.ind' with
  | hnull =>
    intro d bs _ hb
    rw [matchJ_null]
    cases d <;> simp only [GoodE_ok] <;> intro σ hσ
    · rw [List.mem_singleton.1 hσ]; exact hb
    all_goals cases hσ
  | hbool a =>
    intro d bs _ hb
    rw [matchJ_bool]
    cases d with
    | bool b =>
      simp only [GoodE_ok]; intro σ hσ
      by_cases hab : (a == b) = true
      · rw [if_pos hab] at hσ; rw [List.mem_singleton.1 hσ]; exact hb
      · rw [if_neg hab] at hσ; cases hσ
    | _ => simp only [GoodE_ok]; intro σ hσ; cases hσ
  | hnum a =>
    intro d bs _ hb
    rw [matchJ_num]
    cases d with
    | num b =>
      simp only [GoodE_ok]; intro σ hσ
      by_cases hab : (a == b) = true
      · rw [if_pos hab] at hσ; rw [List.mem_singleton.1 hσ]; exact hb
      · rw [if_neg hab] at hσ; cases hσ
    | _ => simp only [GoodE_ok]; intro σ hσ; cases hσ
  | hstr s =>
    intro d bs hd hb
    rw [matchJ_str]
    exact matchStr_good s hd hb
  | hobj kvs ih =>
    intro d bs hd hb
    rw [matchJ_obj]
    cases d with
    | obj fm =>
      simp only
      have hfm : groundO fm = true := by simpa [J.ground] using hd
      by_cases he : kvs.isEmpty = true
      · simp only [he, if_true, GoodE_ok]; intro σ hσ; rw [List.mem_singleton.1 hσ]; exact hb
      · simp only [he, Bool.false_eq_true, if_false]
        by_cases hpv : (decide (kvs.length > 1) && kvs.any fun kv => isVar kv.1) = true
        · simp only [hpv, if_true, GoodE_error]
          refine ⟨by decide, ?_⟩
          simp only [Bool.and_eq_true, List.any_eq_true] at hpv
          obtain ⟨kv, hkv, hkvv⟩ := hpv.2
          have : (kvs.all fun kv => !isVar kv.1) = false := by
            rw [List.all_eq_false]; exact ⟨kv, hkv, by simp [hkvv]⟩
          simp [patOK, this]
        · simp only [hpv, Bool.false_eq_true, if_false]
          refine (matchO_good fm hfm kvs (fun kv hkv => ih kv hkv) [bs] ?_).mono ?_ (fun _ h => h)
          · intro b hbm; rw [List.mem_singleton.1 hbm]; exact hb
          · intro e he; exact ⟨he.1, by simp [patOK, he.2]⟩
    | _ => simp only [GoodE_ok]; intro σ hσ; cases hσ
  | harr xs ih =>
    intro d bs hd hb
    rw [matchJ_arr]
    cases hgv : getVariable xs none with
    | error e =>
      simp only [GoodE_error]
      have := getVariable_error xs none e hgv
      simp only [Option.isSome_none, Bool.false_eq_true, if_false] at this
      refine ⟨this.1, ?_⟩
      rw [patOK_arr_eq]
      have : decide ((xs.filter isVarElem).length ≤ 1) = false := by
        simp only [decide_eq_false_iff_not]; omega
      simp [this]
    | ok vw =>
      obtain ⟨v, w⟩ := vw
      simp only
      cases d with
      | arr fa =>
        simp only
        have hfa : ∀ y ∈ fa, y.ground = true := groundL_iff.1 (by simpa [J.ground] using hd)
        have hE : ∀ e, EA xs e → EJ (.arr xs) e := by
          intro e he; exact ⟨he.1, by rw [patOK_arr_eq]; simp [he.2]⟩
        refine GoodE.bind (Q := BrG) ((matchA_good xs ih _ _ ?_).mono hE (fun _ h => h)) ?_
        · intro br hbr
          rw [List.mem_singleton.1 hbr]
          refine ⟨?_, ?_, ?_⟩
          · intro b hbm; rw [List.mem_singleton.1 hbm]; exact hb
          · intro y hy; exact hfa y (List.mem_filter.1 (List.mem_eraseDups.1 hy)).1
          · intro y hy; exact hfa y (List.mem_filter.1 hy).1
        · intro branches hbrs
          have hfst : ∀ σ ∈ branches.flatMap (·.1), GBs σ := by
            intro σ hσ
            obtain ⟨br, hbr, hσ⟩ := List.mem_flatMap.1 hσ
            exact (hbrs br hbr).1 σ hσ
          cases v with
          | none => simp only [GoodE_pure]; exact hfst
          | some s =>
            simp only
            refine GoodE.bind (Q := fun ext => ∀ per ∈ ext, ∀ r ∈ per, ∀ q ∈ r, ∀ σ ∈ q, GBs σ) ?_ ?_
            · apply GoodE.mapM
              intro br hbr
              obtain ⟨h1, h2, h3⟩ := hbrs br hbr
              apply GoodE.mapM
              intro fr hfr
              have hm : fr.1 ∈ br.2.2 ++ br.2.1 := splitNth_mem_fst (r := fr.2) hfr
              have hg : fr.1.ground = true := by
                rcases List.mem_append.1 hm with hm | hm
                · exact h3 _ hm
                · exact h2 _ hm
              apply GoodE.mapM
              intro b hbm
              exact matchStr_good s hg (h1 b hbm)
            · intro ext hext
              split
              · simp only [GoodE_pure]; exact hfst
              · simp only [GoodE_pure]
                intro σ hσ
                obtain ⟨per, hper, hσ⟩ := List.mem_flatMap.1 hσ
                obtain ⟨r, hr, hσ⟩ := List.mem_flatMap.1 hσ
                obtain ⟨q, hq, hσ⟩ := List.mem_flatMap.1 hσ
                exact hext per hper r hr q hq σ hσ
      | _ => simp only [GoodE_ok]; intro σ hσ; cases hσ

import RulioProofs.SysWalk
import RulioProofs.ReloadStore

open AM

set_option linter.unusedSimpArgs false
set_option linter.unusedVariables false

/-! # `SetParents` / `getParents` through the `!parents` property fact -/

theorem idProp_id : idProperty "id" = false := by decide +kernel
theorem idProp_dw : idProperty "deleteWith" = false := by decide +kernel
theorem idProp_parents : idProperty "!parents" = true := by decide +kernel
theorem bang_parents : "!" ++ "parents" = "!parents" := by decide +kernel
theorem drop_parents : genPropId "" ("!parents".drop 1).copy = "!.parents" := by decide +kernel
theorem genPropId_parents : genPropId "" "parents" = "!.parents" := by decide +kernel

/-- preparing the `!parents` property fact: canonical id `!.parents`, the fact itself unchanged -/
theorem prepare_parents (fresh : String) (v : J) (now : Int) :
    prepareFact "" fresh (propFact "" "parents" v) now =
      .ok ("!.parents", propFact "" "parents" v, propFact "" "parents" v) := by
  simp [prepareFact, propFact, bang_parents, genId, parseProp, List.filter, idProp_id, idProp_dw, idProp_parents,
    Obj.get?, lookupKey, drop_parents, genPropId_parents, setExpires, bind, Except.bind, pure, Except.pure]

theorem indexedForm_parents (v : J) : indexedForm (propFact "" "parents" v) = propFact "" "parents" v := by
  simp [indexedForm, extractRule, propFact, Obj.get?, lookupKey, bang_parents]

theorem memForm_parents (k : Kind) (v : J) : memForm k (propFact "" "parents" v) = propFact "" "parents" v := by
  cases k
  · exact indexedForm_parents v
  · rfl

theorem checkExp_parents (v : J) (now : Int) : checkExpiration (propFact "" "parents" v) now = .ok false := by
  simp [checkExpiration, propFact, Obj.get?, lookupKey, bang_parents]

theorem get_parents_key (v : J) : (propFact "" "parents" v).get? "!parents" = some v := by
  simp [propFact, Obj.get?, lookupKey, bang_parents]

theorem parentsOfJ_strs (ps : List String) : parentsOfJ (.arr (ps.map .str)) = .ok ps := by
  unfold parentsOfJ
  induction ps with
  | nil => rfl
  | cons p rest ih =>
    simp only [List.map_cons, List.mapM_cons, bind, Except.bind, pure, Except.pure] at ih ⊢
    rw [ih]

/-- a stored, unexpired fact is what `Get` returns, without any state change -/
theorem St.get_live {s : St} {id : String} {f : Obj} {now : Int} (hg : amGet s.facts id = some f)
    (he : checkExpiration f now = .ok false) : s.get id now = (s, .ok f) := by
  unfold St.get
  cases s.kind <;> simp [St.iGet, St.lGet, hg, he]

theorem St.get_absent {s : St} {id : String} {now : Int} (hg : amGet s.facts id = none) :
    s.get id now = (s, .error "notFound") := by
  unfold St.get
  cases s.kind <;> simp [St.iGet, St.lGet, hg]

/-- reading the parents when the `!.parents` fact is there and not expired -/
theorem getParents_of_fact {l : Loc} {now : Int} {f : Obj} {ps : List String}
    (hg : amGet l.st.facts "!.parents" = some f) (he : checkExpiration f now = .ok false)
    (hv : f.get? "!parents" = some (.arr (ps.map .str))) :
    locGetParentsRaw now l = (l, .ok ps) := by
  have h1 := St.get_live hg he
  simp [locGetParentsRaw, getProp, bind, LM.bind, LM.attempt, stGet, LM.liftSt, genPropId_parents, h1,
    bang_parents, hv, pure, LM.pure, parentsOfJ_strs]

/-- reading the parents when there is no `!.parents` fact: no parents -/
theorem getParents_of_absent {l : Loc} {now : Int} (hg : amGet l.st.facts "!.parents" = none) :
    locGetParentsRaw now l = (l, .ok []) := by
  have h1 := St.get_absent (now := now) hg
  simp [locGetParentsRaw, getProp, bind, LM.bind, LM.attempt, stGet, LM.liftSt, genPropId_parents, h1,
    pure, LM.pure]

/-- a successful `setProp "" "parents"` leaves exactly the new `!.parents` fact in memory -/
theorem setProp_parents_ok {l l' : Loc} {v : J} {now : Int} {r : String}
    (h : setProp "" "parents" v now l = (l', .ok r)) :
    r = "!.parents" ∧ amGet l'.st.facts "!.parents" = some (propFact "" "parents" v) := by
  unfold setProp stAdd LM.liftSt at h
  simp only [bang_parents] at h
  cases ha : l.st.add "" (propFact "" "parents" v) now with
  | mk s1 r1 =>
    have h' : ({ l with st := s1 }, r1) = (l', Except.ok r) := by
      have : propFact "" "parents" v = [("id", J.str ""), ("!parents", v), ("deleteWith", J.arr [J.str ""])] := by
        simp [propFact, bang_parents]
      rw [this] at ha; rw [ha] at h; exact h
    cases h'
    obtain ⟨m, x', hp, hf, _, _⟩ := St.add_spec ha
    rw [prepare_parents] at hp
    cases hp
    refine ⟨rfl, ?_⟩
    simp only [hf, memForm_parents, amGet_amSet_self]

/-- the guards-then-body shape of a location method: a successful run passes through a successful guard run -/
theorem LM.bind_ok {α β} {m : LM α} {f : α → LM β} {l l' : Loc} {b : β}
    (h : (m >>= f) l = (l', .ok b)) : ∃ l1 a, m l = (l1, .ok a) ∧ f a l1 = (l', .ok b) := by
  replace h : LM.bind m f l = (l', .ok b) := h
  unfold LM.bind at h
  cases hm : m l with
  | mk l1 r =>
    rw [hm] at h
    cases r with
    | error e => cases h
    | ok a => exact ⟨l1, a, rfl, h⟩

/-- **parents_immediate** (single location): after a successful `SetParents ps`, reading the parents at any
time gives exactly `ps`, with no further state change -/
theorem setParents_then_get {c : Ctx} {ps : List String} {now : Int} {l l' : Loc} {r : String}
    (h : locSetParents c ps now l = (l', .ok r)) (now' : Int) :
    locGetParentsRaw now' l' = (l', .ok ps) := by
  unfold locSetParents at h
  obtain ⟨l1, _, _, h2⟩ := LM.bind_ok h
  obtain ⟨_, hg⟩ := setProp_parents_ok h2
  exact getParents_of_fact hg (checkExp_parents _ _) (get_parents_key _)

import RulioModel.CronHooks

/-! # Lemmas for C15 (cron hooks): association lists, the registry invariants -/

section AList
variable {κ α : Type} [DecidableEq κ]

theorem aGet_filterKey (q : κ → Bool) (m : List (κ × α)) (k : κ) :
    aGet (m.filter (fun p => q p.1)) k = if q k then aGet m k else none := by
  induction m with
  | nil => simp [aGet]
  | cons hd tl ih =>
    obtain ⟨k', v⟩ := hd
    by_cases hq : q k' = true
    · simp only [List.filter, hq, aGet]
      by_cases hk : k = k'
      · subst hk; simp [hq]
      · simp [hk, ih]
    · have hq' : q k' = false := by simpa using hq
      simp only [List.filter, hq', aGet]
      by_cases hk : k = k'
      · subst hk; simp [hq', ih]
      · simp [hk, ih]

theorem aGet_aErase (m : List (κ × α)) (k k' : κ) :
    aGet (aErase m k) k' = if k' = k then none else aGet m k' := by
  have := aGet_filterKey (fun x => decide (x ≠ k)) m k'
  unfold aErase
  rw [this]
  by_cases h : k' = k <;> simp [h]

theorem aGet_aSet (m : List (κ × α)) (k : κ) (v : α) (k' : κ) :
    aGet (aSet m k v) k' = if k' = k then some v else aGet m k' := by
  unfold aSet
  simp only [aGet]
  by_cases h : k' = k
  · simp [h]
  · simp [h, aGet_aErase]

theorem aGet_some_mem {m : List (κ × α)} {k : κ} {v : α} (h : aGet m k = some v) : (k, v) ∈ m := by
  induction m with
  | nil => simp [aGet] at h
  | cons hd tl ih =>
    obtain ⟨k', v'⟩ := hd
    simp only [aGet] at h
    by_cases hk : k = k'
    · subst hk; simp at h; subst h; simp
    · simp [hk] at h; exact List.mem_cons_of_mem _ (ih h)

end AList

/-! ## what each event does to the items, the registry and the configuration -/

theorem keyOf_snd (cfg : CronCfg) (loc id : String) : (keyOf cfg loc id).2 = id := by
  unfold keyOf; split <;> rfl

theorem keyOf_inj_id (cfg : CronCfg) (loc id id' : String) (h : keyOf cfg loc id = keyOf cfg loc id') : id = id' := by
  have := congrArg Prod.snd h
  simpa [keyOf_snd] using this

theorem keyOf_byLoc_inj (cfg : CronCfg) (hb : cfg.byLoc = true) (l l' id id' : String)
    (h : keyOf cfg l id = keyOf cfg l' id') : l = l' := by
  simp [keyOf, hb] at h
  exact h.1

@[simp] theorem evAdd_cfg (a : ASys) (loc id : String) (it : AItem) (ld : Bool) : (evAdd a loc id it ld).cfg = a.cfg := rfl
@[simp] theorem evAdd_kind (a : ASys) (loc id : String) (it : AItem) (ld : Bool) : (evAdd a loc id it ld).kind = a.kind := rfl

theorem evAdd_items (a : ASys) (loc id : String) (it : AItem) (ld : Bool) (x : String × String) :
    aGet (evAdd a loc id it ld).items x = if x = (loc, id) then some it else aGet a.items x := by
  simp [evAdd, aGet_aSet]

@[simp] theorem evRemTop_cfg (a : ASys) (loc id : String) : (evRemTop a loc id).cfg = a.cfg := by
  unfold evRemTop; split <;> rfl
@[simp] theorem evRemTop_kind (a : ASys) (loc id : String) : (evRemTop a loc id).kind = a.kind := by
  unfold evRemTop; split <;> rfl

theorem evRemTop_items (a : ASys) (loc id : String) (x : String × String) :
    aGet (evRemTop a loc id).items x = if x = (loc, id) then none else aGet a.items x := by
  unfold evRemTop
  split
  · rename_i h
    by_cases hx : x = (loc, id)
    · subst hx; simp [h]
    · simp [hx]
  · simp [aGet_aErase]

@[simp] theorem evDrop_cfg (a : ASys) (loc : String) (ids : List String) : (evDrop a loc ids).cfg = a.cfg := rfl
@[simp] theorem evDrop_kind (a : ASys) (loc : String) (ids : List String) : (evDrop a loc ids).kind = a.kind := rfl
@[simp] theorem evDrop_reg (a : ASys) (loc : String) (ids : List String) : (evDrop a loc ids).reg = a.reg := rfl

theorem evDrop_items (a : ASys) (loc : String) (ids : List String) (x : String × String) :
    aGet (evDrop a loc ids).items x = if (decide (x.1 = loc) && ids.contains x.2) = true then none else aGet a.items x := by
  have := aGet_filterKey (fun (k : String × String) => !(decide (k.1 = loc) && ids.contains k.2)) a.items x
  simp only [evDrop]
  rw [this]
  cases hc : (decide (x.1 = loc) && ids.contains x.2) <;> simp

theorem itemsNotOf_get (its : Items) (loc : String) (x : String × String) :
    aGet (itemsNotOf its loc) x = if x.1 = loc then none else aGet its x := by
  have := aGet_filterKey (fun (k : String × String) => decide (k.1 ≠ loc)) its x
  unfold itemsNotOf
  rw [this]
  by_cases h : x.1 = loc <;> simp [h]

@[simp] theorem evClear_cfg (a : ASys) (loc : String) : (evClear a loc).cfg = a.cfg := rfl
@[simp] theorem evClear_kind (a : ASys) (loc : String) : (evClear a loc).kind = a.kind := rfl

theorem evClear_items (a : ASys) (loc : String) (x : String × String) :
    aGet (evClear a loc).items x = if x.1 = loc then none else aGet a.items x := by
  unfold evClear; simp [itemsNotOf_get]

theorem evClear_reg (a : ASys) (loc : String) (k : RegKey) :
    aGet (evClear a loc).reg k =
      if (decide (k = keyOf a.cfg loc k.2) && schedAt a loc k.2) = true then none else aGet a.reg k := by
  have := aGet_filterKey (fun (k : RegKey) => !(decide (k = keyOf a.cfg loc k.2) && schedAt a loc k.2)) a.reg k
  simp only [evClear]
  rw [this]
  cases hc : (decide (k = keyOf a.cfg loc k.2) && schedAt a loc k.2) <;> simp

@[simp] theorem evCronReset_cfg (a : ASys) : (evCronReset a).cfg = a.cfg := by
  unfold evCronReset; split <;> rfl
@[simp] theorem evCronReset_items (a : ASys) : (evCronReset a).items = a.items := by
  unfold evCronReset; split <;> rfl

/-! ## `RegOK` / `Uniq` only see the maps through `aGet` -/

theorem RegOK_ext {a b : ASys} (hr : ∀ k, aGet a.reg k = aGet b.reg k)
    (hi : ∀ x, aGet a.items x = aGet b.items x) (hc : a.cfg = b.cfg) (h : RegOK b) : RegOK a := by
  intro k e
  rw [hr k, h k e]
  unfold Stored
  simp only [hi, hc]

theorem Uniq_of_sub {a b : ASys} (hc : a.cfg = b.cfg)
    (hi : ∀ x it, aGet a.items x = some it → aGet b.items x = some it) (h : Uniq b) : Uniq a := by
  intro hb l l' id it it' h1 h2 h3 h4
  exact h (hc ▸ hb) l l' id it it' (hi _ _ h1) h2 (hi _ _ h3) h4

/-! ## what `Plain` says, event by event -/

theorem plain_add {a : ASys} {loc id : String} {it : AItem} (hp : Plain a (.add loc id it) = true) :
    (it.sched = "" → ∀ old, aGet a.items (loc, id) = some old → old.sched = "") ∧
    (a.cfg.byLoc = false → it.sched ≠ "" → ∀ l it', aGet a.items (l, id) = some it' → it'.sched ≠ "" → l = loc) := by
  simp only [Plain, Bool.and_eq_true, Bool.or_eq_true] at hp
  obtain ⟨h1, h2⟩ := hp
  constructor
  · intro hs old hold
    rcases h1 with h | h
    · simp [hs] at h
    · rw [hold] at h; simpa using h
  · intro hb hs l it' hl hs'
    rcases h2 with (h | h) | h
    · simp [hb] at h
    · simp [hs] at h
    · have hm := aGet_some_mem hl
      rw [List.all_eq_true] at h
      have := h _ hm
      simp only [Bool.or_eq_true, bne_iff_ne, ne_eq, beq_iff_eq] at this
      rcases this with (h' | h') | h'
      · exact absurd trivial h'
      · exact h'
      · exact absurd h' hs'

theorem plain_drop {a : ASys} {loc : String} {ids : List String} (hp : Plain a (.drop loc ids) = true) :
    ∀ i it, aGet a.items (loc, i) = some it → i ∈ ids → it.sched = "" := by
  intro i it hi hmem
  simp only [Plain] at hp
  rw [List.all_eq_true] at hp
  have hm : ((loc, i), it) ∈ itemsOf a.items loc := by
    unfold itemsOf
    rw [List.mem_filter]
    exact ⟨aGet_some_mem hi, by simp⟩
  have := hp _ hm
  simp only [Bool.or_eq_true, Bool.not_eq_true', beq_iff_eq] at this
  rcases this with h | h
  · exact absurd hmem (by simpa using h)
  · exact h

/-! ## `RegOK` is preserved by every `Plain` event -/

theorem regOK_add {a : ASys} {loc id : String} {it : AItem} (h : RegOK a) (hp : Plain a (.add loc id it) = true) :
    RegOK (evAdd a loc id it false) := by
  obtain ⟨hp1, hp2⟩ := plain_add hp
  intro k e
  by_cases hs : it.sched = ""
  · have hreg : (evAdd a loc id it false).reg = a.reg := by simp [evAdd, hookAdd, hs]
    rw [hreg, h k e]
    constructor
    · rintro ⟨l, it', h1, h2, h3, h4⟩
      have hne : (l, k.2) ≠ (loc, id) := by
        intro heq; rw [heq] at h1; exact h2 (hp1 hs _ h1)
      exact ⟨l, it', by rw [evAdd_items]; simp [hne, h1], h2, h3, h4⟩
    · rintro ⟨l, it', h1, h2, h3, h4⟩
      rw [evAdd_items] at h1
      by_cases heq : (l, k.2) = (loc, id)
      · simp [heq] at h1; subst h1; exact absurd hs h2
      · simp [heq] at h1; exact ⟨l, it', h1, h2, h3, h4⟩
  · have hreg : (evAdd a loc id it false).reg = aSet a.reg (keyOf a.cfg loc id) ⟨it.sched, loc⟩ := by
      simp [evAdd, hookAdd, hs]
    rw [hreg, aGet_aSet]
    by_cases hk : k = keyOf a.cfg loc id
    · simp only [hk, if_true]
      constructor
      · intro he
        have he' : e = ⟨it.sched, loc⟩ := by simpa using he.symm
        refine ⟨loc, it, ?_, hs, he', ?_⟩
        · rw [evAdd_items]; simp [keyOf_snd]
        · simp [keyOf_snd]
      · rintro ⟨l, it', h1, h2, h3, h4⟩
        simp only [keyOf_snd, evAdd_cfg] at h1 h4
        rw [evAdd_items] at h1
        by_cases hl : l = loc
        · subst hl; simp at h1; subst h1; rw [h3]
        · have hne : (l, id) ≠ (loc, id) := by intro hh; exact hl (congrArg Prod.fst hh)
          simp [hne] at h1
          exfalso
          cases hb : a.cfg.byLoc with
          | true => exact hl (keyOf_byLoc_inj a.cfg hb _ _ _ _ h4).symm
          | false => exact hl (hp2 hb hs l it' h1 h2)
    · simp only [hk, if_false]
      rw [h k e]
      constructor
      · rintro ⟨l, it', h1, h2, h3, h4⟩
        have hne : (l, k.2) ≠ (loc, id) := by
          intro heq
          have h5 : l = loc := congrArg Prod.fst heq
          have h6 : k.2 = id := congrArg Prod.snd heq
          rw [h5, h6] at h4; exact hk h4
        exact ⟨l, it', by rw [evAdd_items]; simp [hne, h1], h2, h3, h4⟩
      · rintro ⟨l, it', h1, h2, h3, h4⟩
        have hne : (l, k.2) ≠ (loc, id) := by
          intro heq
          have h5 : l = loc := congrArg Prod.fst heq
          have h6 : k.2 = id := congrArg Prod.snd heq
          simp only [evAdd_cfg] at h4
          rw [h5, h6] at h4; exact hk h4
        rw [evAdd_items] at h1
        simp [hne] at h1
        exact ⟨l, it', h1, h2, h3, h4⟩

theorem uniq_add {a : ASys} {loc id : String} {it : AItem} (h : Uniq a) (hp : Plain a (.add loc id it) = true) :
    Uniq (evAdd a loc id it false) := by
  obtain ⟨_, hp2⟩ := plain_add hp
  intro hb l l' i it1 it2 h1 h2 h3 h4
  simp only [evAdd_cfg] at hb
  rw [evAdd_items] at h1 h3
  by_cases e1 : (l, i) = (loc, id) <;> by_cases e2 : (l', i) = (loc, id)
  · exact (congrArg Prod.fst e1).trans (congrArg Prod.fst e2).symm
  · simp [e1] at h1; simp [e2] at h3; subst h1
    have hi : i = id := congrArg Prod.snd e1
    subst hi
    have hl : l = loc := congrArg Prod.fst e1
    rw [hl]
    exact (hp2 hb h2 l' it2 h3 h4).symm
  · simp [e1] at h1; simp [e2] at h3; subst h3
    have hi : i = id := congrArg Prod.snd e2
    subst hi
    have hl : l' = loc := congrArg Prod.fst e2
    rw [hl]
    exact hp2 hb h4 l it1 h1 h2
  · simp [e1] at h1; simp [e2] at h3
    exact h hb l l' i it1 it2 h1 h2 h3 h4

/-- removing a stored item together with (iff it is scheduled) its registration keeps the registry exact -/
theorem regOK_erase_item {a b : ASys} {loc id : String} {old : AItem} (h : RegOK a) (hu : Uniq a)
    (hold : aGet a.items (loc, id) = some old) (hc : b.cfg = a.cfg)
    (hitems : ∀ x, aGet b.items x = if x = (loc, id) then none else aGet a.items x)
    (hreg : ∀ k, aGet b.reg k = if old.sched ≠ "" ∧ k = keyOf a.cfg loc id then none else aGet a.reg k) :
    RegOK b := by
  intro k e
  rw [hreg k]
  have toB : ∀ l it', (l, k.2) ≠ (loc, id) → aGet a.items (l, k.2) = some it' → aGet b.items (l, k.2) = some it' := by
    intro l it' hne h1; rw [hitems]; simp [hne, h1]
  have toA : ∀ l it', aGet b.items (l, k.2) = some it' → (l, k.2) ≠ (loc, id) ∧ aGet a.items (l, k.2) = some it' := by
    intro l it' h1
    rw [hitems] at h1
    by_cases heq : (l, k.2) = (loc, id)
    · simp [heq] at h1
    · simp [heq] at h1; exact ⟨heq, h1⟩
  by_cases hs : old.sched = ""
  · simp only [hs, ne_eq, not_true_eq_false, false_and, if_false]
    rw [h k e]
    constructor
    · rintro ⟨l, it', h1, h2, h3, h4⟩
      have hne : (l, k.2) ≠ (loc, id) := by
        intro heq; rw [heq, hold] at h1; simp at h1; subst h1; exact h2 hs
      exact ⟨l, it', toB l it' hne h1, h2, h3, hc ▸ h4⟩
    · rintro ⟨l, it', h1, h2, h3, h4⟩
      exact ⟨l, it', (toA l it' h1).2, h2, h3, hc ▸ h4⟩
  · by_cases hk : k = keyOf a.cfg loc id
    · subst hk
      simp only [hs, ne_eq, not_false_eq_true, and_self, if_true]
      simp only [keyOf_snd] at toA
      constructor
      · intro hh; cases hh
      · rintro ⟨l, it', h1, h2, _, h4⟩
        exfalso
        simp only [keyOf_snd] at h1 h4
        obtain ⟨hne, ha⟩ := toA l it' h1
        have hl : l ≠ loc := by intro hh; exact hne (by rw [hh])
        rw [hc] at h4
        cases hb : a.cfg.byLoc with
        | true => exact hl (keyOf_byLoc_inj a.cfg hb _ _ _ _ h4).symm
        | false => exact hl (hu hb loc l id old it' hold hs ha h2).symm
    · simp only [hk, and_false, if_false]
      rw [h k e]
      constructor
      · rintro ⟨l, it', h1, h2, h3, h4⟩
        have hne : (l, k.2) ≠ (loc, id) := by
          intro heq
          have h5 : l = loc := congrArg Prod.fst heq
          have h6 : k.2 = id := congrArg Prod.snd heq
          rw [h5, h6] at h4; exact hk h4
        exact ⟨l, it', toB l it' hne h1, h2, h3, hc ▸ h4⟩
      · rintro ⟨l, it', h1, h2, h3, h4⟩
        exact ⟨l, it', (toA l it' h1).2, h2, h3, hc ▸ h4⟩

theorem regOK_remTop {a : ASys} {loc id : String} (h : RegOK a) (hu : Uniq a) : RegOK (evRemTop a loc id) := by
  cases hget : aGet a.items (loc, id) with
  | none => have : evRemTop a loc id = a := by simp [evRemTop, hget]
            rw [this]; exact h
  | some old =>
    apply regOK_erase_item h hu hget (evRemTop_cfg a loc id) (evRemTop_items a loc id)
    intro k
    simp only [evRemTop, hget, hookRem]
    by_cases hs : old.sched = ""
    · simp [hs]
    · simp only [hs, if_false, aGet_aErase]
      by_cases hk : k = keyOf a.cfg loc id <;> simp [hk, hs]

theorem uniq_remTop {a : ASys} {loc id : String} (hu : Uniq a) : Uniq (evRemTop a loc id) := by
  apply Uniq_of_sub (evRemTop_cfg a loc id) _ hu
  intro x it hx
  rw [evRemTop_items] at hx
  by_cases h : x = (loc, id) <;> simp [h] at hx
  exact hx

/-- items without a schedule may disappear silently -/
theorem regOK_drop_unscheduled {a b : ASys} (P : String × String → Prop) [DecidablePred P] (h : RegOK a)
    (hc : b.cfg = a.cfg) (hreg : ∀ k, aGet b.reg k = aGet a.reg k)
    (hitems : ∀ x, aGet b.items x = if P x then none else aGet a.items x)
    (hP : ∀ x it, P x → aGet a.items x = some it → it.sched = "") : RegOK b := by
  intro k e
  rw [hreg k, h k e]
  constructor
  · rintro ⟨l, it', h1, h2, h3, h4⟩
    have hn : ¬ P (l, k.2) := fun hp => h2 (hP _ _ hp h1)
    exact ⟨l, it', by rw [hitems]; simp [hn, h1], h2, h3, hc ▸ h4⟩
  · rintro ⟨l, it', h1, h2, h3, h4⟩
    rw [hitems] at h1
    by_cases hp : P (l, k.2)
    · simp [hp] at h1
    · simp [hp] at h1; exact ⟨l, it', h1, h2, h3, hc ▸ h4⟩

theorem regOK_drop {a : ASys} {loc : String} {ids : List String} (h : RegOK a)
    (hp : Plain a (.drop loc ids) = true) : RegOK (evDrop a loc ids) := by
  apply regOK_drop_unscheduled (fun x => (decide (x.1 = loc) && ids.contains x.2) = true) h (evDrop_cfg a loc ids)
    (fun k => by rw [evDrop_reg]) (evDrop_items a loc ids)
  intro x it hx hget
  simp only [Bool.and_eq_true, decide_eq_true_eq, List.contains_iff_mem] at hx
  obtain ⟨l, i⟩ := x
  simp only at hx
  obtain ⟨h1, h2⟩ := hx
  subst h1
  exact plain_drop hp i it hget h2

theorem uniq_drop {a : ASys} {loc : String} {ids : List String} (hu : Uniq a) : Uniq (evDrop a loc ids) := by
  apply Uniq_of_sub (evDrop_cfg a loc ids) _ hu
  intro x it hx
  rw [evDrop_items] at hx
  cases hc : (decide (x.1 = loc) && ids.contains x.2)
  · rw [hc] at hx; simpa using hx
  · rw [hc] at hx; simp at hx

theorem uniq_clear {a : ASys} {loc : String} (hu : Uniq a) : Uniq (evClear a loc) := by
  apply Uniq_of_sub (evClear_cfg a loc) _ hu
  intro x it hx
  rw [evClear_items] at hx
  by_cases hc : x.1 = loc <;> simp [hc] at hx
  exact hx

theorem schedAt_true {a : ASys} {loc id : String} (h : schedAt a loc id = true) :
    ∃ it, aGet a.items (loc, id) = some it ∧ it.sched ≠ "" := by
  unfold schedAt at h
  cases hg : aGet a.items (loc, id) with
  | none => simp [hg] at h
  | some it => simp [hg] at h; exact ⟨it, rfl, h⟩

theorem schedAt_of {a : ASys} {loc id : String} {it : AItem} (hg : aGet a.items (loc, id) = some it)
    (hs : it.sched ≠ "") : schedAt a loc id = true := by
  unfold schedAt; simp [hg, hs]

theorem regOK_clear {a : ASys} {loc : String} (h : RegOK a) (hu : Uniq a)
    (hp : Plain a (.clear loc) = true) : RegOK (evClear a loc) := by
  · intro k e
    rw [evClear_reg a loc k]
    cases hc : (decide (k = keyOf a.cfg loc k.2) && schedAt a loc k.2) with
    | true =>
      simp only [if_true]
      simp only [Bool.and_eq_true, decide_eq_true_eq] at hc
      obtain ⟨hkey, hsch⟩ := hc
      obtain ⟨old, hold, hos⟩ := schedAt_true hsch
      constructor
      · intro hh; cases hh
      · rintro ⟨l, it', h1, h2, _, h4⟩
        exfalso
        rw [evClear_items] at h1
        by_cases hl : l = loc
        · simp [hl] at h1
        · simp [hl] at h1
          simp only [evClear_cfg] at h4
          cases hb : a.cfg.byLoc with
          | true => exact hl (keyOf_byLoc_inj a.cfg hb _ _ _ _ (h4.symm.trans hkey))
          | false => exact hl (hu hb loc l k.2 old it' hold hos h1 h2).symm
    | false =>
      simp only [Bool.false_eq_true, if_false]
      rw [h k e]
      constructor
      · rintro ⟨l, it', h1, h2, h3, h4⟩
        have hl : l ≠ loc := by
          intro hh
          subst hh
          have : (decide (k = keyOf a.cfg l k.2) && schedAt a l k.2) = true := by
            simp only [Bool.and_eq_true, decide_eq_true_eq]
            exact ⟨h4, schedAt_of h1 h2⟩
          rw [hc] at this; cases this
        exact ⟨l, it', by rw [evClear_items]; simp [hl, h1], h2, h3, by simpa using h4⟩
      · rintro ⟨l, it', h1, h2, h3, h4⟩
        rw [evClear_items] at h1
        by_cases hl : l = loc
        · simp [hl] at h1
        · simp [hl] at h1; exact ⟨l, it', h1, h2, h3, by simpa using h4⟩

/-! ## ticks -/

theorem runsNow_some {a : ASys} {loc id : String} {en : Bool} {it : AItem} (h : runsNow a loc id en = some it) :
    aGet a.items (loc, id) = some it ∧ it.trig = .runs ∧ en = true := by
  unfold runsNow at h
  cases hg : aGet a.items (loc, id) with
  | none => simp [hg] at h
  | some it' =>
    simp only [hg] at h
    by_cases hc : (decide (it'.trig = .runs) && en) = true
    · simp only [hc, if_true, Option.some.injEq] at h
      subst h
      simp only [Bool.and_eq_true, decide_eq_true_eq] at hc
      exact ⟨rfl, hc.1, hc.2⟩
    · simp [hc] at h

theorem runsNow_reg (a : ASys) (r : Reg) (loc id : String) (en : Bool) :
    runsNow { a with reg := r } loc id en = runsNow a loc id en := rfl

/-- the state after a tick, case by case -/
theorem evTick_none {a : ASys} {key : RegKey} {en co : Bool} (h : aGet a.reg key = none) :
    evTick a key en co = (a, ⟨false, none⟩) := by
  simp [evTick, h]

theorem evTick_some {a : ASys} {key : RegKey} {en co : Bool} {e : RegEntry} (h : aGet a.reg key = some e) :
    evTick a key en co =
      (let a1 : ASys := { a with reg := aErase a.reg key }
       let r : ASys × Option (String × String) :=
         match runsNow a e.loc key.2 en with
         | some it => (if co && oneShot it.sched then evRemTop a1 e.loc key.2 else a1, some (e.loc, key.2))
         | none => (a1, none)
       let a3 : ASys := if oneShot e.sched then r.1 else { r.1 with reg := aSet r.1.reg key e }
       (a3, ⟨true, r.2⟩)) := by
  simp only [evTick, h]
  rfl

theorem regOK_tick {a : ASys} {key : RegKey} {en co : Bool} (h : RegOK a) (hu : Uniq a)
    (hp : Plain a (.tick key en co) = true) : RegOK (evTick a key en co).1 := by
  cases hget : aGet a.reg key with
  | none => rw [evTick_none hget]; exact h
  | some e =>
    obtain ⟨l, it0, hi0, hs0, he, hkey⟩ := (h key e).mp hget
    have hel : e.loc = l := by rw [he]
    have hes : e.sched = it0.sched := by rw [he]
    simp only [Plain, hget] at hp
    rw [evTick_some hget]
    cases hone : oneShot e.sched with
    | true =>
      simp only [hone, Bool.not_true, Bool.false_or] at hp
      cases hr : runsNow a e.loc key.2 en with
      | none => simp [hr] at hp
      | some it =>
        simp only [hr, Bool.and_eq_true] at hp
        obtain ⟨hco, hio⟩ := hp
        obtain ⟨hit, _, _⟩ := runsNow_some hr
        rw [hel, hi0] at hit
        have : it0 = it := by simpa using hit
        subst this
        simp only [hco, hio, Bool.and_self, if_true, hone]
        rw [hel]
        apply regOK_erase_item h hu hi0 (by simp) 
        · intro x; rw [evRemTop_items]
        · intro k
          simp only [evRemTop, hi0, hookRem, hs0, if_false, aGet_aErase, ← hkey]
          by_cases hk : k = key <;> simp [hk, hs0]
    | false =>
      have hr1 : ∀ (x : ASys × Option (String × String)),
          (match runsNow a e.loc key.2 en with
           | some it => ((if co && oneShot it.sched then evRemTop { a with reg := aErase a.reg key } e.loc key.2
                          else { a with reg := aErase a.reg key }), some (e.loc, key.2))
           | none => ({ a with reg := aErase a.reg key }, none)) = x → x.1 = { a with reg := aErase a.reg key } := by
        intro x hx
        cases hr : runsNow a e.loc key.2 en with
        | none => rw [hr] at hx; rw [← hx]
        | some it =>
          rw [hr] at hx
          obtain ⟨hit, _, _⟩ := runsNow_some hr
          rw [hel, hi0] at hit
          have : it0 = it := by simpa using hit
          subst this
          have ho : oneShot it0.sched = false := by rw [← hes]; exact hone
          simp only [ho, Bool.and_false, Bool.false_eq_true, if_false] at hx
          rw [← hx]
      simp only [hone, Bool.false_eq_true, if_false]
      rw [hr1 _ rfl]
      refine RegOK_ext (b := a) ?_ (fun x => rfl) rfl h
      intro k
      simp only [aGet_aSet, aGet_aErase]
      by_cases hk : k = key
      · simp [hk, hget]
      · simp [hk]

theorem evTick_cfg (a : ASys) (key : RegKey) (en co : Bool) : (evTick a key en co).1.cfg = a.cfg := by
  cases hget : aGet a.reg key with
  | none => rw [evTick_none hget]
  | some e =>
    rw [evTick_some hget]
    cases runsNow a e.loc key.2 en <;> cases oneShot e.sched <;> simp
    all_goals (split <;> simp)

theorem evTick_kind (a : ASys) (key : RegKey) (en co : Bool) : (evTick a key en co).1.kind = a.kind := by
  cases hget : aGet a.reg key with
  | none => rw [evTick_none hget]
  | some e =>
    rw [evTick_some hget]
    cases runsNow a e.loc key.2 en <;> cases oneShot e.sched <;> simp
    all_goals (split <;> simp)

/-- a tick changes at most the item it ran: that one may disappear (`RuleDone`) -/
theorem evTick_items (a : ASys) (key : RegKey) (en co : Bool) (x : String × String) :
    aGet (evTick a key en co).1.items x = aGet a.items x ∨
    (aGet (evTick a key en co).1.items x = none ∧ (evTick a key en co).2.ran = some x ∧
      ∃ e, aGet a.reg key = some e ∧ x = (e.loc, key.2)) := by
  cases hget : aGet a.reg key with
  | none => rw [evTick_none hget]; exact Or.inl rfl
  | some e =>
    rw [evTick_some hget]
    cases hr : runsNow a e.loc key.2 en with
    | none => cases oneShot e.sched <;> exact Or.inl rfl
    | some it =>
      by_cases hc : (co && oneShot it.sched) = true
      · have : ∀ (b : ASys), b.items = a.items →
            (aGet (evRemTop b e.loc key.2).items x = aGet a.items x ∨
             (aGet (evRemTop b e.loc key.2).items x = none ∧ x = (e.loc, key.2))) := by
          intro b hb
          rw [evRemTop_items, hb]
          by_cases hx : x = (e.loc, key.2)
          · exact Or.inr ⟨by simp [hx], hx⟩
          · exact Or.inl (by simp [hx])
        cases oneShot e.sched <;> simp only [hc, if_true, Bool.false_eq_true, if_false]
        all_goals
          rcases this { a with reg := aErase a.reg key } rfl with h1 | ⟨h1, h2⟩
          · exact Or.inl h1
          · exact Or.inr ⟨h1, by rw [h2], e, rfl, h2⟩
      · cases oneShot e.sched <;> simp [hc]

theorem evTick_items_sub (a : ASys) (key : RegKey) (en co : Bool) (x : String × String) (it : AItem)
    (h : aGet (evTick a key en co).1.items x = some it) : aGet a.items x = some it := by
  rcases evTick_items a key en co x with h1 | ⟨h1, _⟩
  · rw [← h1]; exact h
  · rw [h1] at h; cases h

theorem uniq_tick {a : ASys} {key : RegKey} {en co : Bool} (hu : Uniq a) : Uniq (evTick a key en co).1 :=
  Uniq_of_sub (evTick_cfg a key en co) (evTick_items_sub a key en co) hu

theorem loadLin_fold_cfg (loc : String) (docs : List (String × AItem)) (b : ASys) :
    (docs.foldl (fun a d => { a with items := aSet a.items (loc, d.1) d.2 }) b).cfg = b.cfg := by
  induction docs generalizing b with
  | nil => rfl
  | cons d ds ih => simp only [List.foldl_cons]; rw [ih]

theorem loadIdx_fold_cfg (loc : String) (docs : List (String × AItem)) (b : ASys) :
    (docs.foldl (fun a d => evAdd a loc d.1 d.2 true) b).cfg = b.cfg := by
  induction docs generalizing b with
  | nil => rfl
  | cons d ds ih => simp only [List.foldl_cons]; rw [ih]; rfl

@[simp] theorem evLoad_cfg (a : ASys) (loc : String) (docs : List (String × AItem)) : (evLoad a loc docs).cfg = a.cfg := by
  simp only [evLoad]
  rw [loadIdx_fold_cfg]

@[simp] theorem step_cfg (a : ASys) (ev : AEv) : (step a ev).cfg = a.cfg := by
  cases ev with
  | tick key en co => exact evTick_cfg a key en co
  | _ => simp [step]

/-- the invariant of `registered_iff_exists_partial` -/
theorem plain_step_preserves {a : ASys} {ev : AEv} (h : RegOK a) (hu : Uniq a) (hp : Plain a ev = true) :
    RegOK (step a ev) ∧ Uniq (step a ev) := by
  cases ev with
  | add loc id it => exact ⟨regOK_add h hp, uniq_add hu hp⟩
  | remTop loc id => exact ⟨regOK_remTop h hu, uniq_remTop hu⟩
  | drop loc ids => exact ⟨regOK_drop h hp, uniq_drop hu⟩
  | clear loc => exact ⟨regOK_clear h hu hp, uniq_clear hu⟩
  | load loc docs => simp [Plain] at hp
  | cronReset =>
    simp only [Plain] at hp
    have : step a .cronReset = a := by simp [step, evCronReset, hp]
    rw [this]; exact ⟨h, hu⟩
  | tick key en co => exact ⟨regOK_tick h hu hp, uniq_tick hu⟩

theorem plain_run_preserves {a : ASys} {evs : List AEv} (h : RegOK a) (hu : Uniq a) (hp : PlainRun a evs = true) :
    RegOK (run a evs) ∧ Uniq (run a evs) := by
  induction evs generalizing a with
  | nil => exact ⟨h, hu⟩
  | cons ev rest ih =>
    simp only [PlainRun, Bool.and_eq_true] at hp
    obtain ⟨h', hu'⟩ := plain_step_preserves h hu hp.1
    exact ih h' hu' hp.2

theorem plainRun_take {a : ASys} {evs : List AEv} (n : Nat) (hp : PlainRun a evs = true) :
    PlainRun a (evs.take n) = true := by
  induction evs generalizing a n with
  | nil => simp [PlainRun]
  | cons ev rest ih =>
    cases n with
    | zero => simp [PlainRun]
    | succ n =>
      simp only [PlainRun, Bool.and_eq_true, List.take_succ_cons] at hp ⊢
      exact ⟨hp.1, ih n hp.2⟩

theorem regOK_init (kind : SKind) (cfg : CronCfg) : RegOK (ASys.init kind cfg) := by
  intro k e
  simp only [ASys.init, aGet]
  constructor
  · intro h; cases h
  · rintro ⟨l, it, h1, _⟩; simp [aGet] at h1

theorem uniq_init (kind : SKind) (cfg : CronCfg) : Uniq (ASys.init kind cfg) := by
  intro _ l l' id it it' h1
  simp [ASys.init, aGet] at h1

/-! ## the registry only grows through the add hook -/

theorem evRemTop_reg_sub (a : ASys) (loc id : String) (k : RegKey) (e : RegEntry)
    (h : aGet (evRemTop a loc id).reg k = some e) : aGet a.reg k = some e := by
  unfold evRemTop at h
  cases hg : aGet a.items (loc, id) with
  | none => simpa [hg] using h
  | some old =>
    simp only [hg, hookRem] at h
    by_cases hs : old.sched = ""
    · simpa [hs] using h
    · simp only [hs, if_false, aGet_aErase] at h
      by_cases hk : k = keyOf a.cfg loc id
      · simp [hk] at h
      · simpa [hk] using h

theorem evClear_reg_sub (a : ASys) (loc : String) (k : RegKey) (e : RegEntry)
    (h : aGet (evClear a loc).reg k = some e) : aGet a.reg k = some e := by
  rw [evClear_reg a loc k] at h
  cases hc : (decide (k = keyOf a.cfg loc k.2) && schedAt a loc k.2)
  · rw [hc] at h; simpa using h
  · rw [hc] at h; simp at h

theorem evTick_reg_sub (a : ASys) (key : RegKey) (en co : Bool) (k : RegKey) (e' : RegEntry)
    (h : aGet (evTick a key en co).1.reg k = some e') : aGet a.reg k = some e' := by
  cases hget : aGet a.reg key with
  | none => rw [evTick_none hget] at h; exact h
  | some e =>
    rw [evTick_some hget] at h
    -- the registry after `Fn`: a sub-map of the registry without `key`
    have hr : ∀ (b : ASys), (∀ k e', aGet b.reg k = some e' → k ≠ key ∧ aGet a.reg k = some e') →
        ∀ k e', aGet (if oneShot e.sched then b else { b with reg := aSet b.reg key e }).reg k = some e' →
          aGet a.reg k = some e' := by
      intro b hb k e' hh
      cases ho : oneShot e.sched
      · simp only [ho, Bool.false_eq_true, if_false, aGet_aSet] at hh
        by_cases hk : k = key
        · simp only [hk, if_true, Option.some.injEq] at hh
          rw [hk, hget, hh]
        · simp only [hk, if_false] at hh; exact (hb k e' hh).2
      · simp only [ho, if_true] at hh; exact (hb k e' hh).2
    have h1 : ∀ k e', aGet (aErase a.reg key) k = some e' → k ≠ key ∧ aGet a.reg k = some e' := by
      intro k e' hh
      rw [aGet_aErase] at hh
      by_cases hk : k = key
      · simp [hk] at hh
      · simp only [hk, if_false] at hh; exact ⟨hk, hh⟩
    cases hrn : runsNow a e.loc key.2 en with
    | none =>
      simp only [hrn] at h
      exact hr { a with reg := aErase a.reg key } h1 k e' h
    | some it =>
      simp only [hrn] at h
      by_cases hc : (co && oneShot it.sched) = true
      · simp only [hc, if_true] at h
        refine hr (evRemTop { a with reg := aErase a.reg key } e.loc key.2) ?_ k e' h
        intro k e' hh
        exact h1 k e' (evRemTop_reg_sub _ _ _ k e' hh)
      · simp only [hc, if_false] at h
        exact hr { a with reg := aErase a.reg key } h1 k e' h

/-- entries keep the location whose add hook created them, under a key made from that location -/
def RegSound (a : ASys) : Prop := ∀ k e, aGet a.reg k = some e → k = keyOf a.cfg e.loc k.2

theorem regSound_of_sub {a b : ASys} (hc : b.cfg = a.cfg)
    (hs : ∀ k e, aGet b.reg k = some e → aGet a.reg k = some e) (h : RegSound a) : RegSound b := by
  intro k e hk; rw [hc]; exact h k e (hs k e hk)

theorem regSound_evAdd {a : ASys} (loc id : String) (it : AItem) (ld : Bool) (h : RegSound a) :
    RegSound (evAdd a loc id it ld) := by
  intro k e hk
  simp only [evAdd, hookAdd] at hk
  simp only [evAdd_cfg]
  by_cases h1 : (a.cfg.persistent && ld) = true
  · simp only [h1, if_true] at hk; exact h k e hk
  · simp only [h1, if_false] at hk
    by_cases hs : it.sched = ""
    · simp only [hs, if_true] at hk; exact h k e hk
    · have hk' : aGet (aSet a.reg (keyOf a.cfg loc id) ⟨it.sched, loc⟩) k = some e := by simpa [hs] using hk
      rw [aGet_aSet] at hk'
      by_cases hkk : k = keyOf a.cfg loc id
      · simp only [hkk, if_true, Option.some.injEq] at hk'
        rw [hkk, ← hk']; simp [keyOf_snd]
      · simp only [hkk, if_false] at hk'; exact h k e hk'

theorem loadIdx_fold_regSound (loc : String) (docs : List (String × AItem)) (b : ASys) (h : RegSound b) :
    RegSound (docs.foldl (fun a d => evAdd a loc d.1 d.2 true) b) := by
  induction docs generalizing b with
  | nil => exact h
  | cons d ds ih => simp only [List.foldl_cons]; exact ih _ (regSound_evAdd loc d.1 d.2 true h)

theorem loadLin_fold_reg (loc : String) (docs : List (String × AItem)) (b : ASys) :
    (docs.foldl (fun a d => { a with items := aSet a.items (loc, d.1) d.2 }) b).reg = b.reg := by
  induction docs generalizing b with
  | nil => rfl
  | cons d ds ih => simp only [List.foldl_cons]; rw [ih]

theorem regSound_step {a : ASys} (ev : AEv) (h : RegSound a) : RegSound (step a ev) := by
  cases ev with
  | add loc id it => exact regSound_evAdd loc id it false h
  | remTop loc id => exact regSound_of_sub (by simp [step]) (evRemTop_reg_sub a loc id) h
  | drop loc ids => exact regSound_of_sub (by simp [step]) (fun k e hk => hk) h
  | clear loc => exact regSound_of_sub (by simp [step]) (evClear_reg_sub a loc) h
  | load loc docs =>
    simp only [step, evLoad]
    apply loadIdx_fold_regSound
    intro k e hk; exact h k e hk
  | cronReset =>
    simp only [step, evCronReset]
    split
    · exact h
    · intro k e hk; simp [aGet] at hk
  | tick key en co => exact regSound_of_sub (evTick_cfg a key en co) (evTick_reg_sub a key en co) h

theorem regSound_run {a : ASys} (evs : List AEv) (h : RegSound a) : RegSound (run a evs) := by
  induction evs generalizing a with
  | nil => exact h
  | cons ev rest ih => exact ih (regSound_step ev h)

theorem regSound_init (kind : SKind) (cfg : CronCfg) : RegSound (ASys.init kind cfg) := by
  intro k e hk; simp [ASys.init, aGet] at hk

/-! ## an absent item stays absent unless something stores it -/

theorem loadIdx_fold_items_other (l loc id : String) (hl : l ≠ loc) (docs : List (String × AItem)) (b : ASys) :
    aGet (docs.foldl (fun a d => evAdd a l d.1 d.2 true) b).items (loc, id) = aGet b.items (loc, id) := by
  induction docs generalizing b with
  | nil => rfl
  | cons d ds ih =>
    simp only [List.foldl_cons]; rw [ih, evAdd_items]
    have : (loc, id) ≠ (l, d.1) := by intro hh; exact hl (congrArg Prod.fst hh).symm
    simp [this]

theorem loadLin_fold_items_other (l loc id : String) (hl : l ≠ loc) (docs : List (String × AItem)) (b : ASys) :
    aGet (docs.foldl (fun a d => { a with items := aSet a.items (l, d.1) d.2 }) b).items (loc, id) = aGet b.items (loc, id) := by
  induction docs generalizing b with
  | nil => rfl
  | cons d ds ih =>
    simp only [List.foldl_cons]; rw [ih]
    simp only [aGet_aSet]
    have : (loc, id) ≠ (l, d.1) := by intro hh; exact hl (congrArg Prod.fst hh).symm
    simp [this]

theorem evLoad_items_other (a : ASys) (l loc id : String) (hl : l ≠ loc) (docs : List (String × AItem)) :
    aGet (evLoad a l docs).items (loc, id) = aGet a.items (loc, id) := by
  simp only [evLoad]
  rw [loadIdx_fold_items_other l loc id hl]; simp [itemsNotOf_get, Ne.symm hl]

theorem absent_step {a : ASys} {loc id : String} (ev : AEv) (hn : NoStore loc id [ev] = true)
    (h : aGet a.items (loc, id) = none) : aGet (step a ev).items (loc, id) = none := by
  cases ev with
  | add l i it =>
    simp only [NoStore, Bool.and_true, Bool.not_eq_true', Bool.and_eq_false_iff, beq_eq_false_iff_ne, ne_eq] at hn
    simp only [step]; rw [evAdd_items]
    have : (loc, id) ≠ (l, i) := by
      intro hh
      have h1 : loc = l := congrArg Prod.fst hh
      have h2 : id = i := congrArg Prod.snd hh
      rcases hn with hn | hn
      · exact hn h1.symm
      · exact hn h2.symm
    simp [this, h]
  | remTop l i => simp only [step]; rw [evRemTop_items]; split <;> simp [h]
  | drop l ids => simp only [step]; rw [evDrop_items]; split <;> simp [h]
  | clear l => simp only [step]; rw [evClear_items]; split <;> simp [h]
  | load l docs =>
    simp only [NoStore, Bool.and_true, bne_iff_ne, ne_eq] at hn
    simp only [step]; rw [evLoad_items_other a l loc id hn]; exact h
  | cronReset => simp [step, h]
  | tick key en co =>
    simp only [step]
    rcases evTick_items a key en co (loc, id) with h1 | ⟨h1, _⟩
    · rw [h1]; exact h
    · exact h1

theorem noStore_cons (loc id : String) (ev : AEv) (evs : List AEv) :
    NoStore loc id (ev :: evs) = (NoStore loc id [ev] && NoStore loc id evs) := by
  cases ev <;> simp [NoStore]

theorem absent_run {a : ASys} {loc id : String} (evs : List AEv) (hn : NoStore loc id evs = true)
    (h : aGet a.items (loc, id) = none) : aGet (run a evs).items (loc, id) = none := by
  induction evs generalizing a with
  | nil => exact h
  | cons ev rest ih =>
    rw [noStore_cons, Bool.and_eq_true] at hn
    exact ih hn.2 (absent_step ev hn.1 h)

/-! ## a key without a job stays without one unless an add hook registers it -/

theorem unregistered_step {a : ASys} {key : RegKey} (ev : AEv) (hn : NoRegister a.cfg key [ev] = true)
    (h : aGet a.reg key = none) : aGet (step a ev).reg key = none := by
  have sub : ∀ (r : Reg), (∀ e, aGet r key = some e → aGet a.reg key = some e) → aGet r key = none := by
    intro r hr
    cases hg : aGet r key with
    | none => rfl
    | some e => rw [hr e hg] at h; cases h
  cases ev with
  | add l i it =>
    simp only [NoRegister, Bool.and_true, Bool.or_eq_true, beq_iff_eq, bne_iff_ne, ne_eq] at hn
    simp only [step, evAdd, hookAdd, Bool.and_false, Bool.false_eq_true, if_false]
    by_cases hs : it.sched = ""
    · simp [hs, h]
    · rcases hn with hn | hn
      · exact absurd hn hs
      · simp only [hs, if_false, aGet_aSet]
        have : key ≠ keyOf a.cfg l i := fun hh => hn hh.symm
        simp [this, h]
  | remTop l i => exact sub _ (fun e he => evRemTop_reg_sub a l i key e he)
  | drop l ids => simpa [step] using h
  | clear l => exact sub _ (fun e he => evClear_reg_sub a l key e he)
  | load l docs => simp [NoRegister] at hn
  | cronReset =>
    simp only [step, evCronReset]
    split
    · exact h
    · simp [aGet]
  | tick k en co => exact sub _ (fun e he => evTick_reg_sub a k en co key e he)

theorem noRegister_cons (cfg : CronCfg) (key : RegKey) (ev : AEv) (evs : List AEv) :
    NoRegister cfg key (ev :: evs) = (NoRegister cfg key [ev] && NoRegister cfg key evs) := by
  cases ev <;> simp [NoRegister]

theorem unregistered_run {a : ASys} {key : RegKey} (evs : List AEv) (hn : NoRegister a.cfg key evs = true)
    (h : aGet a.reg key = none) : aGet (run a evs).reg key = none := by
  induction evs generalizing a with
  | nil => exact h
  | cons ev rest ih =>
    rw [noRegister_cons, Bool.and_eq_true] at hn
    have := ih (a := step a ev) (by rw [step_cfg]; exact hn.2) (unregistered_step ev hn.1 h)
    exact this

/-! ## Load -/

theorem loadIdx_fold_registers (cfg : CronCfg) (loc : String) (hp : cfg.persistent = false)
    (docs : List (String × AItem)) (b : ASys) (hc : b.cfg = cfg)
    (hb : ∀ id it, aGet b.items (loc, id) = some it → it.sched ≠ "" →
      aGet b.reg (keyOf cfg loc id) = some ⟨it.sched, loc⟩) :
    ∀ id it, aGet (docs.foldl (fun a d => evAdd a loc d.1 d.2 true) b).items (loc, id) = some it → it.sched ≠ "" →
      aGet (docs.foldl (fun a d => evAdd a loc d.1 d.2 true) b).reg (keyOf cfg loc id) = some ⟨it.sched, loc⟩ := by
  induction docs generalizing b with
  | nil => exact hb
  | cons d ds ih =>
    simp only [List.foldl_cons]
    apply ih (evAdd b loc d.1 d.2 true) (by simp [hc])
    intro id it hi hs
    rw [evAdd_items] at hi
    simp only [evAdd, hookAdd, hc, hp, Bool.false_and, Bool.false_eq_true, if_false]
    by_cases hid : id = d.1
    · subst hid
      simp only [if_true, Option.some.injEq] at hi
      subst hi
      simp [hs, aGet_aSet]
    · have hne : (loc, id) ≠ (loc, d.1) := by intro hh; exact hid (congrArg Prod.snd hh)
      simp only [hne, if_false] at hi
      by_cases hds : d.2.sched = ""
      · simp only [hds, if_true]; exact hb id it hi hs
      · simp only [hds, if_false, aGet_aSet]
        have : keyOf cfg loc id ≠ keyOf cfg loc d.1 := fun hh => hid (keyOf_inj_id cfg loc _ _ hh)
        simp only [this, if_false]; exact hb id it hi hs

theorem loadIdx_fold_reg_persistent (loc : String) (docs : List (String × AItem)) (b : ASys)
    (hp : b.cfg.persistent = true) :
    (docs.foldl (fun a d => evAdd a loc d.1 d.2 true) b).reg = b.reg := by
  induction docs generalizing b with
  | nil => rfl
  | cons d ds ih =>
    simp only [List.foldl_cons]
    rw [ih (evAdd b loc d.1 d.2 true) (by simpa using hp)]
    simp [evAdd, hookAdd, hp]

/-! ## what a tick evaluates -/

theorem evTick_ran {a : ASys} {key : RegKey} {en co : Bool} {x : String × String}
    (h : (evTick a key en co).2.ran = some x) :
    ∃ e it, aGet a.reg key = some e ∧ x = (e.loc, key.2) ∧ aGet a.items x = some it ∧ it.trig = .runs ∧ en = true := by
  cases hget : aGet a.reg key with
  | none => rw [evTick_none hget] at h; cases h
  | some e =>
    rw [evTick_some hget] at h
    cases hr : runsNow a e.loc key.2 en with
    | none => simp [hr] at h
    | some it =>
      simp only [hr, Option.some.injEq] at h
      obtain ⟨h1, h2, h3⟩ := runsNow_some hr
      exact ⟨e, it, rfl, h.symm, by rw [← h]; exact h1, h2, h3⟩

theorem evTick_runs {a : ASys} {key : RegKey} {co : Bool} {e : RegEntry} {it : AItem}
    (hreg : aGet a.reg key = some e) (hit : aGet a.items (e.loc, key.2) = some it) (hr : it.trig = .runs) :
    (evTick a key true co).2.ran = some (e.loc, key.2) := by
  rw [evTick_some hreg]
  have : runsNow a e.loc key.2 true = some it := by simp [runsNow, hit, hr]
  simp [this]

theorem evTick_fired_iff (a : ASys) (key : RegKey) (en co : Bool) :
    (evTick a key en co).2.fired = (aGet a.reg key).isSome := by
  cases hget : aGet a.reg key with
  | none => rw [evTick_none hget]; rfl
  | some e => rw [evTick_some hget]; rfl

/-- a one-shot job is gone from the registry once it has fired -/
theorem evTick_oneshot_consumed {a : ASys} {key : RegKey} {en co : Bool} {e : RegEntry}
    (hreg : aGet a.reg key = some e) (ho : oneShot e.sched = true) :
    aGet (evTick a key en co).1.reg key = none := by
  rw [evTick_some hreg]
  simp only [ho, if_true]
  have h1 : aGet (aErase a.reg key) key = none := by simp [aGet_aErase]
  cases hr : runsNow a e.loc key.2 en with
  | none => exact h1
  | some it =>
    simp only
    by_cases hc : (co && oneShot it.sched) = true
    · simp only [hc, if_true]
      cases hg : aGet (evRemTop { a with reg := aErase a.reg key } e.loc key.2).reg key with
      | none => rfl
      | some e' =>
        have := evRemTop_reg_sub _ _ _ key e' hg
        simp only at this
        rw [h1] at this; cases this
    · simp only [hc, if_false]; exact h1

/-- `RuleDone`: a one-shot rule whose evaluation completed is deleted -/
theorem evTick_oneshot_rule_deleted {a : ASys} {key : RegKey} {en : Bool} {x : String × String} {it : AItem}
    (hran : (evTick a key en true).2.ran = some x) (hit : aGet a.items x = some it) (ho : oneShot it.sched = true) :
    aGet (evTick a key en true).1.items x = none := by
  obtain ⟨e, it', hreg, hx, hit', _, _⟩ := evTick_ran hran
  rw [hit] at hit'
  have : it = it' := by simpa using hit'
  subst this
  rw [evTick_some hreg]
  have hrn : runsNow a e.loc key.2 en = some it := by
    rw [evTick_some hreg] at hran
    cases hr : runsNow a e.loc key.2 en with
    | none => simp [hr] at hran
    | some it2 =>
      obtain ⟨h1, _, _⟩ := runsNow_some hr
      rw [← hx, hit] at h1
      rw [h1]
  simp only [hrn, ho, Bool.and_self, if_true]
  cases oneShot e.sched <;> simp only [Bool.false_eq_true, if_false, if_true] <;> rw [hx, evRemTop_items] <;> simp

theorem run_cfg (a : ASys) (evs : List AEv) : (run a evs).cfg = a.cfg := by
  induction evs generalizing a with
  | nil => rfl
  | cons ev rest ih =>
    have : run a (ev :: rest) = run (step a ev) rest := rfl
    rw [this, ih, step_cfg]

theorem evLoad_fold (a : ASys) (loc : String) (docs : List (String × AItem)) :
    evLoad a loc docs =
      docs.foldl (fun a d => evAdd a loc d.1 d.2 true) { a with items := itemsNotOf a.items loc } := rfl


import RulioProofs.StateSearch

set_option linter.unusedSimpArgs false
set_option linter.unusedVariables false

/-! # The deleteWith cascade: what is deleted (partial correctness) and why the budget suffices -/

/-! ## pure notions over a fact list -/

abbrev FactList := List (String × Obj)

def keysOf (F : FactList) : List String := F.map (·.1)

/-- no stored fact names `i` in `deleteWith` -/
def NoDeps (F : FactList) (i : String) : Prop := ∀ e, e ∈ F → depOn e.2 i = false

/-- `d` is reachable from `root` along "names … in deleteWith" edges between stored facts -/
inductive DepReach (F : FactList) (root : String) : String → Prop where
  | base : DepReach F root root
  | step {d k : String} {fact : Obj} : DepReach F root d → (k, fact) ∈ F → depOn fact d = true → DepReach F root k

theorem DepReach.mono {F F' : FactList} {a b : String} (hs : ∀ e, e ∈ F → e ∈ F') (h : DepReach F a b) : DepReach F' a b := by
  induction h with
  | base => exact .base
  | step _ hm hd ih => exact .step ih (hs _ hm) hd

theorem DepReach.trans {F : FactList} {a b c : String} (h1 : DepReach F a b) (h2 : DepReach F b c) : DepReach F a c := by
  induction h2 with
  | base => exact h1
  | step _ hm hd ih => exact .step ih hm hd

theorem NoDeps.mono {F F' : FactList} {i : String} (hs : ∀ e, e ∈ F' → e ∈ F) (h : NoDeps F i) : NoDeps F' i :=
  fun e he => h e (hs e he)

theorem mem_keysOf {F : FactList} {k : String} : k ∈ keysOf F ↔ ∃ fact, (k, fact) ∈ F := by
  simp only [keysOf, List.mem_map]
  constructor
  · rintro ⟨e, he, rfl⟩; exact ⟨e.2, he⟩
  · rintro ⟨fact, h⟩; exact ⟨_, h, rfl⟩

theorem keysOf_filterOut (D : List String) (F : FactList) : keysOf (filterOut D F) = (keysOf F).filter (fun k => !D.contains k) := by
  simp only [keysOf, filterOut, List.filter_map]
  rfl

theorem mem_keysOf_filterOut {D : List String} {F : FactList} {k : String} :
    k ∈ keysOf (filterOut D F) ↔ k ∈ keysOf F ∧ k ∉ D := by
  rw [keysOf_filterOut]; simp

/-! ## counting absent list members -/

/-- how many members of `L` are not in `K` -/
def cntAbs (K L : List String) : Nat := (L.filter (fun i => !K.contains i)).length

theorem nodup_subset_length {K1 : List String} (hn : K1.Nodup) : ∀ {K : List String}, K1 ⊆ K → K1.length ≤ K.length := by
  induction K1 with
  | nil => intro K _; simp
  | cons x r ih =>
    intro K hs
    rw [List.nodup_cons] at hn
    have hx : x ∈ K := hs (by simp)
    have hr : r ⊆ K.erase x := by
      intro y hy
      have hne : y ≠ x := by rintro rfl; exact hn.1 hy
      exact (List.mem_erase_of_ne hne).2 (hs (List.mem_cons_of_mem _ hy))
    have := ih hn.2 hr
    rw [List.length_erase_of_mem hx] at this
    have hpos : 0 < K.length := List.length_pos_of_mem hx
    simp only [List.length_cons]
    omega

theorem cntAbs_cons_of_mem {K : List String} {i : String} (L : List String) (h : i ∈ K) :
    cntAbs K (i :: L) = cntAbs K L := by
  simp [cntAbs, h]

theorem cntAbs_cons_of_not_mem {K : List String} {i : String} (L : List String) (h : i ∉ K) :
    cntAbs K (i :: L) = cntAbs K L + 1 := by
  simp [cntAbs, h]

theorem cntAbs_eq_zero {K L : List String} (h : ∀ i, i ∈ L → i ∈ K) : cntAbs K L = 0 := by
  simp only [cntAbs, List.length_eq_zero_iff, List.filter_eq_nil_iff]
  intro i hi
  simp [h i hi]

theorem cntAbs_le {L : List String} (hL : L.Nodup) : ∀ {K K1 : List String}, K1.Nodup → K1 ⊆ K →
    cntAbs K1 L + K1.length ≤ cntAbs K L + K.length := by
  induction L with
  | nil => intro K K1 hn hs; simpa [cntAbs] using nodup_subset_length hn hs
  | cons j r ih =>
    intro K K1 hn hs
    rw [List.nodup_cons] at hL
    by_cases h1 : j ∈ K1
    · have h2 : j ∈ K := hs h1
      rw [cntAbs_cons_of_mem r h1, cntAbs_cons_of_mem r h2]
      exact ih hL.2 hn hs
    · by_cases h2 : j ∈ K
      · -- present before, absent after: move `j` out of `K`
        have hs' : K1 ⊆ K.erase j := by
          intro y hy
          have hne : y ≠ j := by rintro rfl; exact h1 hy
          exact (List.mem_erase_of_ne hne).2 (hs hy)
        have := ih hL.2 hn hs'
        have hsame : cntAbs (K.erase j) r = cntAbs K r := by
          simp only [cntAbs]
          congr 1
          apply List.filter_congr
          intro x hx
          have hne : x ≠ j := by rintro rfl; exact hL.1 hx
          have : (K.erase j).contains x = K.contains x := by
            rw [Bool.eq_iff_iff]
            simp only [List.contains_iff_mem, List.mem_erase_of_ne hne]
          rw [this]
        rw [hsame, List.length_erase_of_mem h2] at this
        have hpos : 0 < K.length := List.length_pos_of_mem h2
        rw [cntAbs_cons_of_not_mem r h1, cntAbs_cons_of_mem r h2]
        omega
      · have := ih hL.2 hn hs
        rw [cntAbs_cons_of_not_mem r h1, cntAbs_cons_of_not_mem r h2]
        omega

/-! ## the dependents search -/

/-- invariants carried through the cascade (`TIOK`/`TINodup` matter for the indexed state only) -/
structure CInv (s : St) (now : Int) : Prop where
  keys : KeysNodup s
  nexp : NoneExpired s now
  ids : IdsOK s

theorem CInv.le {s s' : St} {now : Int} (h : CInv s now) (hle : StLe s s') : CInv s' now :=
  ⟨hle.keys h.keys, hle.noneExpired h.nexp, hle.idsOK h.ids⟩

/-- the candidate `i` is stored and names `id` -/
def depPred (F : FactList) (id : String) (i : String) : Bool :=
  match amGet F i with | some fact => depOn fact id | none => false

theorem cands_depPat (s : St) (id : String) :
    ∃ c, s.cands (depPat id) = .ok c ∧ c.length ≤ tiWidth s.ti ∧ (TINodup s → c.Nodup) ∧
      (TIOK s → ∀ i fact, (i, fact) ∈ s.facts → depOn fact id = true → i ∈ c) := by
  simp only [St.cands]
  cases hterms : extractTerms (depPat id) with
  | nil => exact absurd hterms (extractTerms_depPat_ne_nil id)
  | cons t ts =>
    simp only [List.isEmpty_cons, Bool.false_eq_true, ↓reduceIte]
    refine ⟨_, TI.search_cons _ _ _, TI.search_length_le (TI.search_cons _ _ _),
      fun hn => TI.search_nodup hn (TI.search_cons _ _ _), ?_⟩
    intro htiok i fact hmem hdep
    have hall : ∀ t', t' ∈ t :: ts → TI.has s.ti t' i := by
      intro t' ht'
      rw [← hterms] at ht'
      exact htiok i fact hmem t' (terms_depPat_subset hdep t' ht')
    obtain ⟨ids, hids, hi⟩ := TI.search_complete (by simp) hall
    rw [TI.search_cons] at hids
    injection hids with hids
    rw [hids]; exact hi

theorem isearch_dep {s : St} {now : Int} (hne : NoneExpired s now) {id : String} (hid : isVar id = false) (f : Nat)
    {c : List String} (hc : s.cands (depPat id) = .ok c) :
    (St.isearch f s (depPat id) now = (s, .error "fuel") ∨
      ∃ found, St.isearch f s (depPat id) now = (s, .ok found) ∧ found.map (·.1) = c.filter (depPred s.facts id)) ∧
    (c.length + 1 < f →
      ∃ found, St.isearch f s (depPat id) now = (s, .ok found) ∧ found.map (·.1) = c.filter (depPred s.facts id)) := by
  have hspec : s.ispec (depPat id) = .ok (c.filterMap (stHit s.facts (depPat id))) := by
    simp only [St.ispec, hc]
    exact scan_depPat s.facts id hid c
  have hmap := hit_depPat_map s.facts id hid c
  have hlen : s.candsLen (depPat id) = c.length := by simp [St.candsLen, hc]
  obtain ⟨h1, h2⟩ := isearch_spec hne (depPat id) f
  rw [hspec] at h1 h2
  rw [hlen] at h2
  refine ⟨?_, fun hf => ⟨_, h2 hf, hmap⟩⟩
  rcases h1 with h1 | h1
  · exact Or.inl h1
  · exact Or.inr ⟨_, h1, hmap⟩

theorem depPred_spec {F : FactList} {id i : String} (h : depPred F id i = true) :
    ∃ fact, (i, fact) ∈ F ∧ depOn fact id = true := by
  simp only [depPred] at h
  split at h
  · rename_i fact hg; exact ⟨fact, amGet_some_mem hg, h⟩
  · cases h

theorem depPred_of_mem {F : FactList} (hn : (F.map (·.1)).Nodup) {id i : String} {fact : Obj}
    (hm : (i, fact) ∈ F) (hd : depOn fact id = true) : depPred F id i = true := by
  simp only [depPred, amGet_of_mem_nodup_st hn hm, hd]

/-! ## partial correctness of the cascade -/

/-- `s'` is `s` minus the facts (and storage entries) with ids in `D`; every member of `D` is reachable from a
root; no surviving fact names a root or a deleted id -/
structure Cascaded (s s' : St) (roots D : List String) : Prop where
  facts : s'.facts = filterOut D s.facts
  store : s'.store = filterOut D s.store
  reach : ∀ d, d ∈ D → ∃ r, r ∈ roots ∧ DepReach s.facts r d
  closedR : ∀ r, r ∈ roots → NoDeps s'.facts r
  closedD : ∀ d, d ∈ D → NoDeps s'.facts d

theorem Cascaded.nil (s : St) : Cascaded s s [] [] :=
  ⟨(filterOut_nil _).symm, (filterOut_nil _).symm, by simp, by simp, by simp⟩

theorem Cascaded.sub {s s' : St} {R D : List String} (h : Cascaded s s' R D) : ∀ e, e ∈ s'.facts → e ∈ s.facts := by
  intro e he; rw [h.facts] at he; exact (mem_filterOut.1 he).1

theorem Cascaded.comp {s s1 s' : St} {R1 D1 R2 D2 : List String}
    (h1 : Cascaded s s1 R1 D1) (h2 : Cascaded s1 s' R2 D2) : Cascaded s s' (R1 ++ R2) (D1 ++ D2) := by
  refine ⟨?_, ?_, ?_, ?_, ?_⟩
  · rw [h2.facts, h1.facts, filterOut_filterOut]
  · rw [h2.store, h1.store, filterOut_filterOut]
  · intro d hd
    rcases List.mem_append.1 hd with hd | hd
    · obtain ⟨r, hr, hre⟩ := h1.reach d hd
      exact ⟨r, List.mem_append_left _ hr, hre⟩
    · obtain ⟨r, hr, hre⟩ := h2.reach d hd
      exact ⟨r, List.mem_append_right _ hr, hre.mono h1.sub⟩
  · intro r hr
    rcases List.mem_append.1 hr with hr | hr
    · exact (h1.closedR r hr).mono h2.sub
    · exact h2.closedR r hr
  · intro d hd
    rcases List.mem_append.1 hd with hd | hd
    · exact (h1.closedD d hd).mono h2.sub
    · exact h2.closedD d hd

theorem st_pair_eta {α β} (x : α × β) {b : β} (h : x.2 = b) : x = (x.1, b) := by
  cases x; simp at h; subst h; rfl

/-- the state invariants of the indexed cascade -/
structure IInv (s : St) (now : Int) : Prop extends CInv s now where
  tiok : TIOK s
  tinodup : TINodup s

theorem IInv.le {s s' : St} {now : Int} (h : IInv s now) (hle : StLe s s') : IInv s' now :=
  ⟨h.toCInv.le hle, hle.tiok h.tiok, hle.tinodup h.tinodup⟩

/-- the invariants with "nothing expired" relaxed for the root id `i` (deletion of `i` by its own expiry) -/
structure CInvBut (s : St) (i : String) (now : Int) : Prop where
  keys : KeysNodup s
  nexp : NoneExpiredBut s i now
  ids : IdsOK s

structure IInvBut (s : St) (i : String) (now : Int) : Prop extends CInvBut s i now where
  tiok : TIOK s
  tinodup : TINodup s

theorem CInv.but {s : St} {now : Int} (h : CInv s now) (i : String) : CInvBut s i now :=
  ⟨h.keys, fun e he _ => h.nexp e he, h.ids⟩

theorem IInv.but {s : St} {now : Int} (h : IInv s now) (i : String) : IInvBut s i now :=
  ⟨h.toCInv.but i, h.tiok, h.tinodup⟩

theorem noneExpired_of_but_filter {s s' : St} {i : String} {now : Int} (h : NoneExpiredBut s i now)
    (hf : s'.facts = filterOut [i] s.facts) : NoneExpired s' now := by
  intro e he
  rw [hf] at he
  obtain ⟨h1, h2⟩ := mem_filterOut.1 he
  exact h e h1 (by simpa using h2)

theorem noneExpired_of_but_absent {s : St} {i : String} {now : Int} (h : NoneExpiredBut s i now)
    (hg : amGet s.facts i = none) : NoneExpired s now := by
  intro e he
  apply h e he
  rintro rfl
  exact amGet_none_iff.1 hg (List.mem_map.2 ⟨e, he, rfl⟩)

theorem CInvBut.ldel {s : St} {i : String} {now : Int} (h : CInvBut s i now) : CInv (s.ldel i) now :=
  ⟨(ldel_le s i).keys h.keys,
   noneExpired_of_but_filter h.nexp (by simp only [St.ldel, amErase_eq_filterOut]),
   (ldel_le s i).idsOK h.ids⟩

theorem IInvBut.idel {s s1 : St} {i : String} {now : Int} (h : IInvBut s i now) (hs : SameButRi s s1) (fact : Obj) :
    IInv (s1.idel i fact) now :=
  have hle := idel_le hs i fact
  ⟨⟨hle.keys h.keys,
    noneExpired_of_but_filter h.nexp (by simp only [St.idel, hs.1, amErase_eq_filterOut]),
    hle.idsOK h.ids⟩, hle.tiok h.tiok, hle.tinodup h.tinodup⟩

theorem IInvBut.absent {s : St} {i : String} {now : Int} (h : IInvBut s i now) (hg : amGet s.facts i = none) :
    IInv s now :=
  ⟨⟨h.keys, noneExpired_of_but_absent h.nexp hg, h.ids⟩, h.tiok, h.tinodup⟩

theorem CInvBut.absent {s : St} {i : String} {now : Int} (h : CInvBut s i now) (hg : amGet s.facts i = none) :
    CInv s now :=
  ⟨h.keys, noneExpired_of_but_absent h.nexp hg, h.ids⟩

theorem not_mem_keys_of_amGet_none {F : FactList} {i : String} (h : amGet F i = none) : i ∉ keysOf F :=
  amGet_none_iff.1 h

/-- from the dependents list back to the root -/
theorem Cascaded.of_deps {s s' : St} {i : String} {L D : List String} (h : Cascaded s s' L D)
    (hL : ∀ j, j ∈ L → ∃ fact, (j, fact) ∈ s.facts ∧ depOn fact i = true)
    (hcomplete : ∀ j fact, (j, fact) ∈ s.facts → depOn fact i = true → j ∈ L)
    (hgone : ∀ j, j ∈ L → j ∉ keysOf s'.facts) : Cascaded s s' [i] D := by
  refine ⟨h.facts, h.store, ?_, ?_, h.closedD⟩
  · intro d hd
    obtain ⟨j, hj, hre⟩ := h.reach d hd
    obtain ⟨fact, hm, hdep⟩ := hL j hj
    exact ⟨i, by simp, (DepReach.step .base hm hdep).trans hre⟩
  · intro r hr
    simp only [List.mem_singleton] at hr; subst hr
    intro e he
    cases hdep : depOn e.2 r with
    | false => rfl
    | true =>
      have hj := hcomplete e.1 e.2 (h.sub e he) hdep
      exact absurd (mem_keysOf.2 ⟨e.2, he⟩) (hgone e.1 hj)

theorem ipost (now : Int) : ∀ f : Nat,
    (∀ s i, IInvBut s i now → isVar i = false → ∀ s' b, St.irem f s i now = (s', .ok b) →
      ∃ D, Cascaded s s' [i] D ∧ i ∉ keysOf s'.facts ∧ b = amHas s.facts i ∧ (amHas s.facts i = true → i ∈ D)) ∧
    (∀ s i, IInv s now → isVar i = false → ∀ s' u, St.ideps f s i now = (s', .ok u) →
      ∃ D, Cascaded s s' [i] D) ∧
    (∀ s L, IInv s now → (∀ i, i ∈ L → isVar i = false) → ∀ s' u, St.iremAll f s L now = (s', .ok u) →
      ∃ D, Cascaded s s' L D ∧ ∀ i, i ∈ L → i ∉ keysOf s'.facts) := by
  intro f
  induction f with
  | zero =>
    refine ⟨?_, ?_, ?_⟩
    · intro s i _ _ s' b h; rw [St.irem_zero] at h; cases h
    · intro s i _ _ s' b h; rw [St.ideps_zero] at h; cases h
    · intro s i _ _ s' b h; rw [St.iremAll_zero] at h; cases h
  | succ f ih =>
    obtain ⟨ih1, ih2, ih3⟩ := ih
    refine ⟨?_, ?_, ?_⟩
    · -- irem
      intro s i hinv hi s' b h
      rw [St.irem_succ] at h
      cases hg : amGet s.facts i with
      | some fact =>
        rw [hg] at h
        simp only at h
        cases hu : s.unindexOf i fact with
        | error e => rw [hu] at h; cases h
        | ok s1 =>
          rw [hu] at h
          simp only at h
          have hsame := unindexOf_same hu
          have hle : StLe s (s1.idel i fact) := idel_le hsame i fact
          cases hr : (St.ideps f (s1.idel i fact) i now).2 with
          | error e => rw [hr] at h; cases h
          | ok u =>
            rw [hr] at h
            injection h with h1 h2
            have hd := st_pair_eta _ hr
            rw [h1] at hd
            obtain ⟨D, hD⟩ := ih2 _ i (hinv.idel hsame fact) hi s' u hd
            have hf2 : (s1.idel i fact).facts = filterOut [i] s.facts := by
              simp only [St.idel, hsame.1, amErase_eq_filterOut]
            have hs2 : (s1.idel i fact).store = filterOut [i] s.store := by
              simp only [St.idel, hsame.2.1, amErase_eq_filterOut]
            have hsub2 : ∀ e, e ∈ (s1.idel i fact).facts → e ∈ s.facts := fun e he => hle.facts.subset he
            refine ⟨i :: D, ⟨?_, ?_, ?_, hD.closedR, ?_⟩, ?_, ?_, fun _ => by simp⟩
            · rw [hD.facts, hf2, filterOut_filterOut]; rfl
            · rw [hD.store, hs2, filterOut_filterOut]; rfl
            · intro d hd
              rcases List.mem_cons.1 hd with hd | hd
              · subst hd; exact ⟨d, by simp, .base⟩
              · obtain ⟨r, hr, hre⟩ := hD.reach d hd
                exact ⟨r, hr, hre.mono hsub2⟩
            · intro d hd
              rcases List.mem_cons.1 hd with hd | hd
              · subst hd; exact hD.closedR d (by simp)
              · exact hD.closedD d hd
            · intro hk
              rw [hD.facts, hf2, filterOut_filterOut] at hk
              have := (mem_keysOf_filterOut.1 hk).2
              simp at this
            · cases h2; rw [amHas_eq_isSome, hg]; rfl
      | none =>
        rw [hg] at h
        simp only at h
        cases hr : (St.ideps f s i now).2 with
        | error e => rw [hr] at h; cases h
        | ok u =>
          rw [hr] at h
          injection h with h1 h2
          have hd := st_pair_eta _ hr
          rw [h1] at hd
          obtain ⟨D, hD⟩ := ih2 _ i (hinv.absent hg) hi s' u hd
          refine ⟨D, hD, ?_, ?_, ?_⟩
          · intro hk
            rw [hD.facts] at hk
            exact not_mem_keys_of_amGet_none hg (mem_keysOf_filterOut.1 hk).1
          · cases h2; rw [amHas_eq_isSome, hg]; rfl
          · rw [amHas_eq_isSome, hg]; simp
    · -- ideps
      intro s i hinv hi s' u h
      rw [St.ideps_succ] at h
      simp only [hi, Bool.false_eq_true, ↓reduceIte] at h
      obtain ⟨c, hc, _, _, hcomp⟩ := cands_depPat s i
      obtain ⟨hs1, _⟩ := isearch_dep hinv.nexp hi f hc
      rcases hs1 with hs1 | ⟨found, hs1, hmap⟩
      · rw [hs1] at h; cases h
      · rw [hs1] at h
        simp only at h
        have hLnv : ∀ j, j ∈ found.map (·.1) → isVar j = false := by
          intro j hj
          rw [hmap] at hj
          obtain ⟨fact, hm, _⟩ := depPred_spec (List.mem_filter.1 hj).2
          exact hinv.ids _ hm
        obtain ⟨D, hD, hgone⟩ := ih3 s _ hinv hLnv s' u h
        refine ⟨D, hD.of_deps ?_ ?_ hgone⟩
        · intro j hj
          rw [hmap] at hj
          exact depPred_spec (List.mem_filter.1 hj).2
        · intro j fact hm hdep
          rw [hmap, List.mem_filter]
          exact ⟨hcomp hinv.tiok j fact hm hdep, depPred_of_mem hinv.keys hm hdep⟩
    · -- iremAll
      intro s L hinv hL s' u h
      cases L with
      | nil =>
        rw [St.iremAll_nil] at h
        injection h with h1 h2; subst h1
        exact ⟨[], Cascaded.nil s, by simp⟩
      | cons i rest =>
        rw [St.iremAll_cons] at h
        cases hr : (St.irem f s i now).2 with
        | error e => rw [hr] at h; cases h
        | ok b =>
          rw [hr] at h
          simp only at h
          have hd := st_pair_eta _ hr
          have hle : StLe s (St.irem f s i now).1 := (iframe now f).1 s i
          obtain ⟨D1, hD1, hg1, _, _⟩ := ih1 s i (hinv.but i) (hL i (by simp)) _ b hd
          obtain ⟨D2, hD2, hg2⟩ := ih3 _ rest (hinv.le hle) (fun j hj => hL j (List.mem_cons_of_mem _ hj)) s' u h
          refine ⟨D1 ++ D2, hD1.comp hD2, ?_⟩
          intro j hj
          rcases List.mem_cons.1 hj with hj | hj
          · subst hj
            intro hk
            apply hg1
            obtain ⟨fact, hm⟩ := mem_keysOf.1 hk
            exact mem_keysOf.2 ⟨fact, hD2.sub _ hm⟩
          · exact hg2 j hj

/-! ## the budget suffices (indexed state) -/

theorem keysOf_nodup_of_le {s s' : St} (hle : StLe s s') (hk : KeysNodup s) : (keysOf s'.facts).Nodup :=
  hle.keys hk

theorem keysOf_subset_of_le {s s' : St} (hle : StLe s s') : keysOf s'.facts ⊆ keysOf s.facts :=
  (hle.facts.map _).subset

theorem depPred_filter_nil {F : FactList} {i : String} (h : NoDeps F i) (c : List String) :
    c.filter (depPred F i) = [] := by
  rw [List.filter_eq_nil_iff]
  intro j _ hj
  obtain ⟨fact, hm, hd⟩ := depPred_spec hj
  have := h _ hm
  simp only at this
  rw [this] at hd; cases hd

theorem iterm (now : Int) : ∀ f : Nat,
    (∀ s i, IInvBut s i now → isVar i = false →
      ((amHas s.facts i = true ∧ 3 * s.facts.length + tiWidth s.ti + 3 ≤ f) ∨
       (NoDeps s.facts i ∧ amHas s.facts i = false ∧ tiWidth s.ti + 4 ≤ f) ∨
       (3 * s.facts.length + tiWidth s.ti + 6 ≤ f)) →
      (St.irem f s i now).2 ≠ .error "fuel") ∧
    (∀ s i, IInv s now → isVar i = false →
      ((3 * s.facts.length + tiWidth s.ti + 5 ≤ f) ∨ (NoDeps s.facts i ∧ tiWidth s.ti + 3 ≤ f)) →
      (St.ideps f s i now).2 ≠ .error "fuel") ∧
    (∀ s L, IInv s now → L.Nodup → (∀ i, i ∈ L → isVar i = false) →
      (∀ i, i ∈ L → i ∉ keysOf s.facts → NoDeps s.facts i) →
      3 * s.facts.length + cntAbs (keysOf s.facts) L + tiWidth s.ti + 4 ≤ f →
      (St.iremAll f s L now).2 ≠ .error "fuel") := by
  intro f
  induction f with
  | zero =>
    refine ⟨?_, ?_, ?_⟩
    · intro s i _ _ h; omega
    · intro s i _ _ h; omega
    · intro s L _ _ _ _ h; omega
  | succ f ih =>
    obtain ⟨ih1, ih2, ih3⟩ := ih
    refine ⟨?_, ?_, ?_⟩
    · -- irem
      intro s i hinv hi hb
      rw [St.irem_succ]
      cases hg : amGet s.facts i with
      | some fact =>
        simp only
        have hpres : amHas s.facts i = true := by rw [amHas_eq_isSome, hg]; rfl
        cases hu : s.unindexOf i fact with
        | error e =>
          simp only
          intro h; injection h with h
          -- errors of `unindexRule` are never the fuel error
          simp only [St.unindexOf] at hu
          split at hu
          · rename_i r _
            simp only [St.unindexRule, bind, Except.bind] at hu
            split at hu
            · rename_i e' hp
              injection hu with hu
              simp only [getRulePattern] at hp
              split at hp
              · cases hp
              · split at hp
                · cases hp
                · cases hp
                · injection hp with hp; rw [← hu, ← hp] at h; revert h; decide
              · injection hp with hp; rw [← hu, ← hp] at h; revert h; decide
            · split at hu
              · cases hu
              · split at hu
                · rename_i e' _
                  injection hu with hu; rw [← hu] at h
                  cases e' <;> revert h <;> decide
                · cases hu
          · cases hu
        | ok s1 =>
          simp only
          have hsame := unindexOf_same hu
          have hle : StLe s (s1.idel i fact) := idel_le hsame i fact
          have hlen : (s1.idel i fact).facts.length + 1 = s.facts.length := by
            simp only [St.idel, hsame.1]
            exact length_amErase_of_mem _ _ hinv.keys (amGet_isSome_iff_st.1 (by rw [hg]; rfl))
          have hw := hle.width
          have hneed : 3 * (s1.idel i fact).facts.length + tiWidth (s1.idel i fact).ti + 5 ≤ f := by
            rcases hb with hb | hb | hb
            · omega
            · rw [hb.2.1] at hpres; cases hpres
            · omega
          have := ih2 _ i (hinv.idel hsame fact) hi (Or.inl hneed)
          intro h
          apply this
          cases hr : (St.ideps f (s1.idel i fact) i now).2 with
          | error e => rw [hr] at h; simpa [Except.map] using h
          | ok u => rw [hr] at h; cases h
      | none =>
        simp only
        have habs : amHas s.facts i = false := by rw [amHas_eq_isSome, hg]; rfl
        have hneed : (3 * s.facts.length + tiWidth s.ti + 5 ≤ f) ∨ (NoDeps s.facts i ∧ tiWidth s.ti + 3 ≤ f) := by
          rcases hb with hb | hb | hb
          · rw [hb.1] at habs; cases habs
          · exact Or.inr ⟨hb.1, by omega⟩
          · exact Or.inl (by omega)
        have := ih2 _ i (hinv.absent hg) hi hneed
        intro h
        apply this
        cases hr : (St.ideps f s i now).2 with
        | error e => rw [hr] at h; simpa [Except.map] using h
        | ok u => rw [hr] at h; cases h
    · -- ideps
      intro s i hinv hi hb
      rw [St.ideps_succ]
      simp only [hi, Bool.false_eq_true, ↓reduceIte]
      obtain ⟨c, hc, hclen, hcnd, hcomp⟩ := cands_depPat s i
      have hf : c.length + 1 < f := by rcases hb with hb | hb <;> omega
      obtain ⟨found, hs1, hmap⟩ := (isearch_dep hinv.nexp hi f hc).2 hf
      rw [hs1]
      simp only
      rcases hb with hb | hb
      · apply ih3 s _ hinv
        · rw [hmap]; exact (hcnd hinv.tinodup).sublist List.filter_sublist
        · intro j hj
          rw [hmap] at hj
          obtain ⟨fact, hm, _⟩ := depPred_spec (List.mem_filter.1 hj).2
          exact hinv.ids _ hm
        · intro j hj hnk
          rw [hmap] at hj
          obtain ⟨fact, hm, _⟩ := depPred_spec (List.mem_filter.1 hj).2
          exact absurd (mem_keysOf.2 ⟨fact, hm⟩) hnk
        · have : cntAbs (keysOf s.facts) (found.map (·.1)) = 0 := by
            apply cntAbs_eq_zero
            intro j hj
            rw [hmap] at hj
            obtain ⟨fact, hm, _⟩ := depPred_spec (List.mem_filter.1 hj).2
            exact mem_keysOf.2 ⟨fact, hm⟩
          omega
      · rw [hmap, depPred_filter_nil hb.1]
        obtain ⟨f', rfl⟩ : ∃ f', f = f' + 1 := ⟨f - 1, by omega⟩
        rw [St.iremAll_nil]
        simp
    · -- iremAll
      intro s L hinv hnd hLv hpre hb
      cases L with
      | nil => rw [St.iremAll_nil]; simp
      | cons i rest =>
        rw [St.iremAll_cons]
        rw [List.nodup_cons] at hnd
        have hiv := hLv i (by simp)
        have hrem : (St.irem f s i now).2 ≠ .error "fuel" := by
          apply ih1 s i (hinv.but i) hiv
          by_cases hk : i ∈ keysOf s.facts
          · left
            rw [cntAbs_cons_of_mem rest hk] at hb
            refine ⟨by rw [amHas_eq_isSome]; exact amGet_isSome_iff_st.2 hk, by omega⟩
          · right; left
            rw [cntAbs_cons_of_not_mem rest hk] at hb
            refine ⟨hpre i (by simp) hk, ?_, by omega⟩
            rw [amHas_eq_isSome]
            cases hh : amGet s.facts i with
            | none => rfl
            | some v => exact absurd (amGet_isSome_iff_st.1 (by rw [hh]; rfl)) hk
        cases hr : (St.irem f s i now).2 with
        | error e =>
          simp only
          intro h; injection h with h; subst h; exact hrem hr
        | ok b =>
          simp only
          have hd := st_pair_eta _ hr
          have hle : StLe s (St.irem f s i now).1 := (iframe now f).1 s i
          obtain ⟨D1, hD1, hg1, _, hpD⟩ := (ipost now f).1 s i (hinv.but i) hiv _ b hd
          have hK1nd : (keysOf (St.irem f s i now).1.facts).Nodup := hle.keys hinv.keys
          have hK1sub := keysOf_subset_of_le hle
          apply ih3 _ rest (hinv.le hle) hnd.2 (fun j hj => hLv j (List.mem_cons_of_mem _ hj))
          · intro j hj hnk
            by_cases hk : j ∈ keysOf s.facts
            · have : j ∈ D1 := by
                apply Classical.byContradiction
                intro hnD
                apply hnk
                rw [hD1.facts]
                exact mem_keysOf_filterOut.2 ⟨hk, hnD⟩
              exact hD1.closedD j this
            · exact (hpre j (List.mem_cons_of_mem _ hj) hk).mono hD1.sub
          · have hw := hle.width
            have hcnt := cntAbs_le (L := i :: rest) (List.nodup_cons.2 hnd) hK1nd hK1sub
            have hcnt1 := cntAbs_le (L := [i]) (by simp) hK1nd hK1sub
            have e1 : (keysOf s.facts).length = s.facts.length := by simp [keysOf]
            have e2 : (keysOf (St.irem f s i now).1.facts).length = (St.irem f s i now).1.facts.length := by
              simp [keysOf]
            have e0 : ∀ K, cntAbs K [] = 0 := fun _ => rfl
            rw [cntAbs_cons_of_not_mem rest hg1] at hcnt
            rw [cntAbs_cons_of_not_mem [] hg1, e0] at hcnt1
            by_cases hk : i ∈ keysOf s.facts
            · rw [cntAbs_cons_of_mem rest hk] at hb hcnt
              rw [cntAbs_cons_of_mem [] hk, e0] at hcnt1
              omega
            · rw [cntAbs_cons_of_not_mem rest hk] at hb hcnt
              rw [cntAbs_cons_of_not_mem [] hk, e0] at hcnt1
              omega

/-! ## linear state -/

theorem lsearch_dep {s : St} {now : Int} (hne : NoneExpired s now) {id : String} (hid : isVar id = false) (f : Nat) :
    (St.lsearch f s (depPat id) now = (s, .error "fuel") ∨
      ∃ found, St.lsearch f s (depPat id) now = (s, .ok found) ∧
        found.map (·.1) = (keysOf s.facts).filter (depPred s.facts id)) ∧
    (s.facts.length + 1 < f →
      ∃ found, St.lsearch f s (depPat id) now = (s, .ok found) ∧
        found.map (·.1) = (keysOf s.facts).filter (depPred s.facts id)) := by
  have hspec : s.lspec (depPat id) = .ok ((keysOf s.facts).filterMap (stHit s.facts (depPat id))) := by
    simp only [St.lspec]
    exact scan_depPat s.facts id hid _
  have hmap := hit_depPat_map s.facts id hid (keysOf s.facts)
  obtain ⟨h1, h2⟩ := lsearch_spec hne (depPat id) f
  rw [hspec] at h1 h2
  refine ⟨?_, fun hf => ⟨_, h2 hf, hmap⟩⟩
  rcases h1 with h1 | h1
  · exact Or.inl h1
  · exact Or.inr ⟨_, h1, hmap⟩

theorem ldel_facts (s : St) (i : String) : (s.ldel i).facts = filterOut [i] s.facts := by
  simp only [St.ldel, amErase_eq_filterOut]
theorem ldel_store (s : St) (i : String) : (s.ldel i).store = filterOut [i] s.store := by
  simp only [St.ldel, amErase_eq_filterOut]

theorem not_mem_keys_ldel (s : St) (i : String) : i ∉ keysOf (s.ldel i).facts := by
  rw [ldel_facts]; intro h; have := (mem_keysOf_filterOut.1 h).2; simp at this

/-- the dependents list the linear `rem` recurses into -/
theorem ldeps_props {s0 : St} (hk : KeysNodup s0) {i : String} (hi : i ∉ keysOf s0.facts) :
    let L := ((keysOf s0.facts).filter (depPred s0.facts i)).filter (· != i)
    L.Nodup ∧ (∀ j, j ∈ L → ∃ fact, (j, fact) ∈ s0.facts ∧ depOn fact i = true) ∧
    (∀ j fact, (j, fact) ∈ s0.facts → depOn fact i = true → j ∈ L) := by
  refine ⟨?_, ?_, ?_⟩
  · exact (hk.sublist List.filter_sublist).sublist List.filter_sublist
  · intro j hj
    exact depPred_spec (List.mem_filter.1 (List.mem_filter.1 hj).1).2
  · intro j fact hm hd
    have hjk : j ∈ keysOf s0.facts := mem_keysOf.2 ⟨fact, hm⟩
    simp only [List.mem_filter, bne_iff_ne, ne_eq]
    refine ⟨⟨hjk, depPred_of_mem hk hm hd⟩, ?_⟩
    rintro rfl; exact hi hjk

theorem lpost (now : Int) : ∀ f : Nat,
    (∀ s i, CInvBut s i now → isVar i = false → ∀ s' b, St.lrem f s i now = (s', .ok b) →
      ∃ D, Cascaded s s' [i] D ∧ i ∉ keysOf s'.facts ∧ b = amHas s.facts i ∧ i ∈ D) ∧
    (∀ s L, CInv s now → (∀ i, i ∈ L → isVar i = false) → ∀ s' u, St.lremAll f s L now = (s', .ok u) →
      ∃ D, Cascaded s s' L D ∧ ∀ i, i ∈ L → i ∉ keysOf s'.facts) := by
  intro f
  induction f with
  | zero =>
    refine ⟨?_, ?_⟩
    · intro s i _ _ s' b h; rw [St.lrem_zero] at h; cases h
    · intro s i _ _ s' b h; rw [St.lremAll_zero] at h; cases h
  | succ f ih =>
    obtain ⟨ih1, ih2⟩ := ih
    refine ⟨?_, ?_⟩
    · intro s i hinv hi s' b h
      rw [St.lrem_succ] at h
      simp only [hi, Bool.false_eq_true, ↓reduceIte] at h
      have hle : StLe s (s.ldel i) := ldel_le s i
      have hinv0 := hinv.ldel
      obtain ⟨hs1, _⟩ := lsearch_dep hinv0.nexp hi f
      rcases hs1 with hs1 | ⟨found, hs1, hmap⟩
      · rw [hs1] at h; cases h
      · rw [hs1] at h
        simp only at h
        rw [hmap] at h
        obtain ⟨_, hLmem, hLcomp⟩ := ldeps_props hinv0.keys (not_mem_keys_ldel s i)
        cases hr : (St.lremAll f (s.ldel i)
            (((keysOf (s.ldel i).facts).filter (depPred (s.ldel i).facts i)).filter (· != i)) now).2 with
        | error e => rw [hr] at h; cases h
        | ok u =>
          rw [hr] at h
          injection h with h1 h2
          have hd := st_pair_eta _ hr
          rw [h1] at hd
          have hLnv : ∀ j, j ∈ ((keysOf (s.ldel i).facts).filter (depPred (s.ldel i).facts i)).filter (· != i) →
              isVar j = false := by
            intro j hj
            obtain ⟨fact, hm, _⟩ := hLmem j hj
            exact hinv0.ids _ hm
          obtain ⟨D, hD, hgone⟩ := ih2 _ _ hinv0 hLnv s' u hd
          have hD' := hD.of_deps hLmem hLcomp hgone
          have hsub2 : ∀ e, e ∈ (s.ldel i).facts → e ∈ s.facts := fun e he => hle.facts.subset he
          refine ⟨i :: D, ⟨?_, ?_, ?_, hD'.closedR, ?_⟩, ?_, ?_, by simp⟩
          · rw [hD'.facts, ldel_facts, filterOut_filterOut]; rfl
          · rw [hD'.store, ldel_store, filterOut_filterOut]; rfl
          · intro d hd
            rcases List.mem_cons.1 hd with hd | hd
            · subst hd; exact ⟨d, by simp, .base⟩
            · obtain ⟨r, hr, hre⟩ := hD'.reach d hd
              exact ⟨r, hr, hre.mono hsub2⟩
          · intro d hd
            rcases List.mem_cons.1 hd with hd | hd
            · subst hd; exact hD'.closedR d (by simp)
            · exact hD'.closedD d hd
          · intro hk
            rw [hD'.facts, ldel_facts, filterOut_filterOut] at hk
            have := (mem_keysOf_filterOut.1 hk).2
            simp at this
          · cases h2; rfl
    · intro s L hinv hL s' u h
      cases L with
      | nil =>
        rw [St.lremAll_nil] at h
        injection h with h1 h2; subst h1
        exact ⟨[], Cascaded.nil s, by simp⟩
      | cons i rest =>
        rw [St.lremAll_cons] at h
        cases hr : (St.lrem f s i now).2 with
        | error e => rw [hr] at h; cases h
        | ok b =>
          rw [hr] at h
          simp only at h
          have hd := st_pair_eta _ hr
          have hle : StLe s (St.lrem f s i now).1 := (lframe now f).1 s i
          obtain ⟨D1, hD1, hg1, _, _⟩ := ih1 s i (hinv.but i) (hL i (by simp)) _ b hd
          obtain ⟨D2, hD2, hg2⟩ := ih2 _ rest (hinv.le hle) (fun j hj => hL j (List.mem_cons_of_mem _ hj)) s' u h
          refine ⟨D1 ++ D2, hD1.comp hD2, ?_⟩
          intro j hj
          rcases List.mem_cons.1 hj with hj | hj
          · subst hj
            intro hk
            apply hg1
            obtain ⟨fact, hm⟩ := mem_keysOf.1 hk
            exact mem_keysOf.2 ⟨fact, hD2.sub _ hm⟩
          · exact hg2 j hj

theorem lterm (now : Int) : ∀ f : Nat,
    (∀ s i, CInvBut s i now → isVar i = false →
      ((amHas s.facts i = true ∧ 2 * s.facts.length + 2 ≤ f) ∨
       (NoDeps s.facts i ∧ amHas s.facts i = false ∧ s.facts.length + 3 ≤ f) ∨
       (2 * s.facts.length + 4 ≤ f)) →
      (St.lrem f s i now).2 ≠ .error "fuel") ∧
    (∀ s L, CInv s now → L.Nodup → (∀ i, i ∈ L → isVar i = false) →
      (∀ i, i ∈ L → i ∉ keysOf s.facts → NoDeps s.facts i) →
      2 * s.facts.length + cntAbs (keysOf s.facts) L + 3 ≤ f →
      (St.lremAll f s L now).2 ≠ .error "fuel") := by
  intro f
  induction f with
  | zero =>
    refine ⟨?_, ?_⟩
    · intro s i _ _ h; omega
    · intro s L _ _ _ _ h; omega
  | succ f ih =>
    obtain ⟨ih1, ih2⟩ := ih
    refine ⟨?_, ?_⟩
    · intro s i hinv hi hb
      rw [St.lrem_succ]
      simp only [hi, Bool.false_eq_true, ↓reduceIte]
      have hle : StLe s (s.ldel i) := ldel_le s i
      have hinv0 := hinv.ldel
      have hn0 := hle.length_le
      have hpres : amHas s.facts i = true → (s.ldel i).facts.length + 1 = s.facts.length := by
        intro hp
        simp only [St.ldel]
        exact length_amErase_of_mem _ _ hinv.keys (amGet_isSome_iff_st.1 (by rw [← amHas_eq_isSome]; exact hp))
      have hf : (s.ldel i).facts.length + 1 < f := by
        rcases hb with hb | hb | hb
        · have := hpres hb.1; omega
        · omega
        · omega
      obtain ⟨found, hs1, hmap⟩ := (lsearch_dep hinv0.nexp hi f).2 hf
      rw [hs1]
      simp only
      rw [hmap]
      obtain ⟨hLnd, hLmem, _⟩ := ldeps_props hinv0.keys (not_mem_keys_ldel s i)
      have hgoal : (St.lremAll f (s.ldel i)
            (((keysOf (s.ldel i).facts).filter (depPred (s.ldel i).facts i)).filter (· != i)) now).2
              ≠ .error "fuel" := by
        by_cases hclosed : NoDeps s.facts i ∧ amHas s.facts i = false
        · have : NoDeps (s.ldel i).facts i := hclosed.1.mono (fun e he => hle.facts.subset he)
          rw [depPred_filter_nil this]
          obtain ⟨f', rfl⟩ : ∃ f', f = f' + 1 := ⟨f - 1, by omega⟩
          simp only [List.filter_nil]
          rw [St.lremAll_nil]
          simp
        · apply ih2 _ _ hinv0 hLnd
          · intro j hj
            obtain ⟨fact, hm, _⟩ := hLmem j hj
            exact hinv0.ids _ hm
          · intro j hj hnk
            obtain ⟨fact, hm, _⟩ := hLmem j hj
            exact absurd (mem_keysOf.2 ⟨fact, hm⟩) hnk
          · have : cntAbs (keysOf (s.ldel i).facts)
                (((keysOf (s.ldel i).facts).filter (depPred (s.ldel i).facts i)).filter (· != i)) = 0 := by
              apply cntAbs_eq_zero
              intro j hj
              obtain ⟨fact, hm, _⟩ := hLmem j hj
              exact mem_keysOf.2 ⟨fact, hm⟩
            rw [this]
            rcases hb with hb | hb | hb
            · have := hpres hb.1; omega
            · exact absurd ⟨hb.1, hb.2.1⟩ hclosed
            · omega
      intro h
      apply hgoal
      cases hr : (St.lremAll f (s.ldel i)
            (((keysOf (s.ldel i).facts).filter (depPred (s.ldel i).facts i)).filter (· != i)) now).2 with
      | error e => rw [hr] at h; simpa [Except.map] using h
      | ok u => rw [hr] at h; cases h
    · intro s L hinv hnd hLv hpre hb
      cases L with
      | nil => rw [St.lremAll_nil]; simp
      | cons i rest =>
        rw [St.lremAll_cons]
        rw [List.nodup_cons] at hnd
        have hiv := hLv i (by simp)
        have hrem : (St.lrem f s i now).2 ≠ .error "fuel" := by
          apply ih1 s i (hinv.but i) hiv
          by_cases hk : i ∈ keysOf s.facts
          · left
            rw [cntAbs_cons_of_mem rest hk] at hb
            refine ⟨by rw [amHas_eq_isSome]; exact amGet_isSome_iff_st.2 hk, by omega⟩
          · right; left
            rw [cntAbs_cons_of_not_mem rest hk] at hb
            refine ⟨hpre i (by simp) hk, ?_, by omega⟩
            rw [amHas_eq_isSome]
            cases hh : amGet s.facts i with
            | none => rfl
            | some v => exact absurd (amGet_isSome_iff_st.1 (by rw [hh]; rfl)) hk
        cases hr : (St.lrem f s i now).2 with
        | error e =>
          simp only
          intro h; injection h with h; subst h; exact hrem hr
        | ok b =>
          simp only
          have hd := st_pair_eta _ hr
          have hle : StLe s (St.lrem f s i now).1 := (lframe now f).1 s i
          obtain ⟨D1, hD1, hg1, _, hpD⟩ := (lpost now f).1 s i (hinv.but i) hiv _ b hd
          have hK1nd : (keysOf (St.lrem f s i now).1.facts).Nodup := hle.keys hinv.keys
          have hK1sub := keysOf_subset_of_le hle
          apply ih2 _ rest (hinv.le hle) hnd.2 (fun j hj => hLv j (List.mem_cons_of_mem _ hj))
          · intro j hj hnk
            by_cases hk : j ∈ keysOf s.facts
            · have : j ∈ D1 := by
                apply Classical.byContradiction
                intro hnD
                apply hnk
                rw [hD1.facts]
                exact mem_keysOf_filterOut.2 ⟨hk, hnD⟩
              exact hD1.closedD j this
            · exact (hpre j (List.mem_cons_of_mem _ hj) hk).mono hD1.sub
          · have hcnt := cntAbs_le (L := i :: rest) (List.nodup_cons.2 hnd) hK1nd hK1sub
            have hcnt1 := cntAbs_le (L := [i]) (by simp) hK1nd hK1sub
            have e1 : (keysOf s.facts).length = s.facts.length := by simp [keysOf]
            have e2 : (keysOf (St.lrem f s i now).1.facts).length = (St.lrem f s i now).1.facts.length := by
              simp [keysOf]
            have e0 : ∀ K, cntAbs K [] = 0 := fun _ => rfl
            rw [cntAbs_cons_of_not_mem rest hg1] at hcnt
            rw [cntAbs_cons_of_not_mem [] hg1, e0] at hcnt1
            by_cases hk : i ∈ keysOf s.facts
            · rw [cntAbs_cons_of_mem rest hk] at hb hcnt
              rw [cntAbs_cons_of_mem [] hk, e0] at hcnt1
              omega
            · rw [cntAbs_cons_of_not_mem rest hk] at hb hcnt
              rw [cntAbs_cons_of_not_mem [] hk, e0] at hcnt1
              omega

import RulioProofs.PatIndexHist
import RulioModel.Spec

/-! # Pattern index: the indexed *state* keeps every stored rule at its pattern's path (C01, part 4b)

`St.iadd` / `St.irem` (and everything that calls them: expiry inside searches, `iGet`, `iFindRules`, the
`deleteWith` cascade) only touch the rule index through `piAdd` / `piRem` under the id at hand. -/

open List

namespace PI

/-! ## the `when` pattern of a stored rule, in terms of `ExtractRule` / `GetRulePatterns` -/

/-- the indexed pattern of a rule body: none for a scheduled rule -/
def ruleWhen (r : Obj) : Option Obj :=
  if Obj.has r "schedule" then none else
  match Obj.get? r "when" with
  | some (.obj w) => (match Obj.get? w "pattern" with | some (.obj p) => some p | none => some w | _ => none)
  | _ => none

theorem whenOf_eq (fact : Obj) :
    whenOf fact = (match fact.get? "rule" with | some (.obj r) => ruleWhen r | _ => none) := by
  unfold whenOf ruleWhen
  rfl

theorem lookupKey_eq_amGet (k : String) : ∀ l : List (String × J), lookupKey k l = amGet l k
  | [] => rfl
  | (k', v) :: l => by simp only [lookupKey, amGet]; rw [lookupKey_eq_amGet k l]

theorem get_set (o : Obj) (k k' : String) (v : J) :
    Obj.get? (Obj.set o k v) k' = if k' = k then some v else Obj.get? o k' := by
  unfold Obj.get?
  rw [lookupKey_eq_amGet, lookupKey_eq_amGet]
  exact amGet_amSet o k k' v

theorem ruleWhen_set_expires (r : Obj) (e : J) : ruleWhen (Obj.set r "expires" e) = ruleWhen r := by
  unfold ruleWhen Obj.has
  have h1 : Obj.get? (Obj.set r "expires" e) "schedule" = Obj.get? r "schedule" := by
    rw [get_set]; simp
  have h2 : Obj.get? (Obj.set r "expires" e) "when" = Obj.get? r "when" := by
    rw [get_set]; simp
  unfold Obj.get? at h1 h2
  unfold Obj.get?
  rw [h1, h2]

/-- `ruleWhen` of an optional rule body -/
def optWhen (o : Option Obj) : Option Obj := match o with | some r => ruleWhen r | none => none

/-- `whenOf` of a stored fact is what `ExtractRule` + `schedule` test + `GetRulePatterns` see -/
theorem whenOf_extractRule (fact : Obj) :
    whenOf fact = (match extractRule fact false with | .ok (some r, _) => ruleWhen r | _ => none) := by
  rw [whenOf_eq]
  unfold extractRule
  cases hr : fact.get? "rule" with
  | none => rfl
  | some rv =>
    cases rv with
    | obj r =>
      cases he : fact.get? "expires" with
      | none => rfl
      | some e => simp only []; rw [ruleWhen_set_expires]
    | _ => rfl

/-- the fact `ExtractRule` hands back carries the rule body it returns -/
theorem whenOf_extractRule_snd {fact fact' : Obj} {rule : Option Obj}
    (h : extractRule fact false = .ok (rule, fact')) :
    whenOf fact' = optWhen rule := by
  unfold optWhen
  rw [whenOf_eq]
  unfold extractRule at h
  cases hr : fact.get? "rule" with
  | none => simp [hr] at h; obtain ⟨rfl, rfl⟩ := h; simp [hr]
  | some rv =>
    cases rv with
    | obj r =>
      cases he : fact.get? "expires" with
      | none => simp [hr, he] at h; obtain ⟨rfl, rfl⟩ := h; simp [hr]
      | some e =>
        simp [hr, he] at h; obtain ⟨rfl, rfl⟩ := h
        simp [get_set]
    | _ => simp [hr] at h; obtain ⟨rfl, rfl⟩ := h; simp [hr]

theorem ruleWhen_getRulePattern {r pat : Obj} (h : ruleWhen r = some pat) :
    Obj.has r "schedule" = false ∧ getRulePattern r = .ok (some pat) := by
  unfold ruleWhen at h
  by_cases hs : Obj.has r "schedule" = true
  · simp [hs] at h
  · have hs' : Obj.has r "schedule" = false := by simpa using hs
    simp only [hs', Bool.false_eq_true, if_false] at h
    refine ⟨hs', ?_⟩
    unfold getRulePattern
    cases hw : Obj.get? r "when" with
    | none => simp [hw] at h
    | some w =>
      cases w with
      | obj w =>
        simp only [hw] at h ⊢
        cases hp : Obj.get? w "pattern" with
        | none => simp [hp] at h ⊢; exact h
        | some p =>
          cases p with
          | obj p => simp [hp] at h ⊢; exact h
          | _ => simp [hp] at h
      | _ => simp [hw] at h

theorem getRulePattern_ruleWhen {r pat : Obj} (hs : Obj.has r "schedule" = false)
    (h : getRulePattern r = .ok (some pat)) : ruleWhen r = some pat := by
  unfold ruleWhen
  simp only [hs, Bool.false_eq_true, if_false]
  unfold getRulePattern at h
  cases hw : Obj.get? r "when" with
  | none => simp [hw] at h
  | some w =>
    cases w with
    | obj w =>
      simp only [hw] at h ⊢
      cases hp : Obj.get? w "pattern" with
      | none => simp [hp] at h ⊢; exact h
      | some p =>
        cases p with
        | obj p => simp [hp] at h ⊢; exact h
        | _ => simp [hp] at h
    | _ => simp [hw] at h

/-! ## the two index actions of the state -/

/-- ids other than `id` stay where they are -/
def Others (id : String) (a b : PI) : Prop :=
  ∀ id', id' ≠ id → ∀ ρ, id' ∈ idsAt a ρ → id' ∈ idsAt b ρ

/-- `id` sits at the end of the path of `pat` -/
def At (ri : PI) (id : String) (pat : Obj) : Prop :=
  ∃ π, path (mapToPairs pat) = some π ∧ id ∈ idsAt ri π

theorem Others.refl (id : String) (a : PI) : Others id a a := fun _ _ _ h => h
theorem Others.trans {id : String} {a b c : PI} (h1 : Others id a b) (h2 : Others id b c) : Others id a c :=
  fun id' hne ρ h => h2 id' hne ρ (h1 id' hne ρ h)

theorem others_piRem (ri : PI) (q : Obj) (id : String) (hn : NodupIds ri) : Others id ri (piRem ri q id).1 :=
  fun _ hne _ h => (piRem_spec ri q id).2.rem_other hn hne h

theorem mono_piAdd (ri : PI) (q : Obj) (id : String) {id' : String} {ρ : List Edge} (h : id' ∈ idsAt ri ρ) :
    id' ∈ idsAt (piAdd ri q id).1 ρ := (piAdd_spec ri q id).2.add_mono h

theorem unindexRule_spec {s s' : St} {id : String} {rule : Obj} (h : s.unindexRule id rule = .ok s')
    (hn : NodupIds s.ri) : s'.facts = s.facts ∧ NodupIds s'.ri ∧ Others id s.ri s'.ri := by
  unfold St.unindexRule at h
  cases hg : getRulePattern rule with
  | error e => simp [hg, bind, Except.bind] at h
  | ok po =>
    cases po with
    | none =>
      simp [hg, bind, Except.bind, pure, Except.pure] at h; subst h
      exact ⟨rfl, hn, Others.refl _ _⟩
    | some pat =>
      simp only [hg, bind, Except.bind] at h
      rcases hr : piRem s.ri pat id with ⟨ri1, e1⟩
      rw [hr] at h
      cases e1 with
      | some e => simp at h
      | none =>
        simp only [pure, Except.pure, Except.ok.injEq] at h; subst h
        have h1 := nodupIds_piRem id pat hn
        have h2 := others_piRem s.ri pat id hn
        rw [hr] at h1 h2
        exact ⟨rfl, h1, h2⟩

theorem indexRule_spec (s : St) (id : String) (rule : Obj) :
    (s.indexRule id rule).1.facts = s.facts ∧
    (NodupIds s.ri → NodupIds (s.indexRule id rule).1.ri) ∧
    (∀ id' ρ, id' ∈ idsAt s.ri ρ → id' ∈ idsAt (s.indexRule id rule).1.ri ρ) ∧
    (∀ pat π, getRulePattern rule = .ok (some pat) → path (mapToPairs pat) = some π →
      id ∈ idsAt (s.indexRule id rule).1.ri π) ∧
    ((s.indexRule id rule).2 = none → ∃ pat, getRulePattern rule = .ok (some pat) ∧ At (s.indexRule id rule).1.ri id pat) := by
  unfold St.indexRule
  cases hg : getRulePattern rule with
  | error e => simp
  | ok po =>
    cases po with
    | none => simp
    | some pat =>
      simp only []
      refine ⟨by first | rfl | trivial, fun hn => nodupIds_piAdd id pat hn, fun id' ρ h => mono_piAdd s.ri pat id h, ?_, ?_⟩
      · intro pat' π hp hπ
        cases hp
        exact indexed_piAdd_self id pat hπ
      · intro he
        have he' : (piAdd s.ri pat id).2 = none := by
          cases h2 : (piAdd s.ri pat id).2 with
          | none => rfl
          | some e => simp [h2] at he
        have : (path (mapToPairs pat)).isSome = true := (piAdd_spec s.ri pat id).1.1 he'
        obtain ⟨π, hπ⟩ := Option.isSome_iff_exists.1 this
        exact ⟨pat, rfl, π, hπ, indexed_piAdd_self id pat hπ⟩

theorem unindexPrevious_spec {s s1 : St} {id : String} {replaced : Option Obj}
    (h : s.unindexPrevious id = .ok (s1, replaced)) (hn : NodupIds s.ri) :
    s1.facts = s.facts ∧ NodupIds s1.ri ∧ Others id s.ri s1.ri ∧
    (∀ prev, amGet s.facts id = some prev →
      whenOf prev = optWhen replaced) := by
  unfold optWhen
  unfold St.unindexPrevious at h
  cases hp : amGet s.facts id with
  | none =>
    simp [hp] at h; obtain ⟨rfl, rfl⟩ := h
    exact ⟨rfl, hn, Others.refl _ _, fun prev h => by cases h⟩
  | some prev =>
    simp only [hp] at h
    have hw := whenOf_extractRule prev
    cases he : extractRule prev false with
    | error e =>
      simp [he] at h; obtain ⟨rfl, rfl⟩ := h
      rw [he] at hw
      exact ⟨rfl, hn, Others.refl _ _, fun prev' h => by cases h; exact hw⟩
    | ok rf =>
      obtain ⟨ro, f2⟩ := rf
      rw [he] at hw
      cases ro with
      | none =>
        simp [he] at h; obtain ⟨rfl, rfl⟩ := h
        exact ⟨rfl, hn, Others.refl _ _, fun prev' h => by cases h; exact hw⟩
      | some old =>
        simp only [he] at h
        cases hu : s.unindexRule id old with
        | error e => simp [hu, Except.map] at h
        | ok s' =>
          simp only [hu, Except.map, Except.ok.injEq, Prod.mk.injEq] at h
          obtain ⟨rfl, rfl⟩ := h
          obtain ⟨h1, h2, h3⟩ := unindexRule_spec hu hn
          exact ⟨h1, h2, h3, fun prev' h => by cases h; exact hw⟩

/-! ## `IndexedState.add` -/

/-- the index step of `St.iadd` (verbatim) -/
def iaddIndex (s : St) (id : String) (rule replaced : Option Obj) : St × Option LErr :=
  match rule with
  | some r =>
    if Obj.has r "schedule" then (s, none) else
    match s.indexRule id r with
    | (s1, none) => (s1, none)
    | (s1, some e) =>
      (match replaced with
       | some old => if Obj.has old "schedule" then (s1, some e) else ((s1.indexRule id old).1, some e)
       | none => (s1, some e))
  | none => (s, none)

theorem iadd_eq (s : St) (given : String) (x : Obj) (now : Int) :
    s.iadd given x now =
      (match prepareFact given s.freshId x now with
      | .error e => (s, .error e)
      | .ok (id, fact, x') =>
        let s := if given == "" && id == s.freshId then { s with fresh := s.fresh + 1 } else s
        match extractRule fact false with
        | .error e => (s, .error e)
        | .ok (rule, fact) =>
          match s.unindexPrevious id with
          | .error e => (s, .error e)
          | .ok (s, replaced) =>
          let (s, err) : St × Option LErr := iaddIndex s id rule replaced
          match err with
          | some e => (s, .error e)
          | none =>
            let ti := (extractTerms fact).foldl (fun ti t => TI.add ti t id) s.ti
            ({ s with ti := ti, facts := amSet s.facts id fact }, .ok (id, x'))) := by
  unfold St.iadd iaddIndex
  rfl

theorem iaddIndex_spec (s : St) (id : String) (rule replaced : Option Obj) (hn : NodupIds s.ri) :
    (iaddIndex s id rule replaced).1.facts = s.facts ∧
    NodupIds (iaddIndex s id rule replaced).1.ri ∧
    (∀ id' ρ, id' ∈ idsAt s.ri ρ → id' ∈ idsAt (iaddIndex s id rule replaced).1.ri ρ) ∧
    ((iaddIndex s id rule replaced).2 = none →
      ∀ pat, optWhen rule = some pat →
        At (iaddIndex s id rule replaced).1.ri id pat) ∧
    ((iaddIndex s id rule replaced).2 ≠ none →
      ∀ pat π, optWhen replaced = some pat →
        path (mapToPairs pat) = some π → id ∈ idsAt (iaddIndex s id rule replaced).1.ri π) := by
  unfold iaddIndex optWhen
  cases rule with
  | none => exact ⟨rfl, hn, fun _ _ h => h, fun _ pat h => (by cases h), fun h => absurd rfl h⟩
  | some r =>
    simp only []
    by_cases hs : Obj.has r "schedule" = true
    · simp only [hs, if_true]
      refine ⟨by first | rfl | trivial, hn, fun _ _ h => h, ?_, fun h => absurd rfl h⟩
      intro _ pat h
      have := (ruleWhen_getRulePattern h).1
      rw [hs] at this; cases this
    · have hs' : Obj.has r "schedule" = false := by simpa using hs
      simp only [hs', Bool.false_eq_true, if_false]
      obtain ⟨i1, i2, i3, i4, i5⟩ := indexRule_spec s id r
      rcases hix : s.indexRule id r with ⟨s1, e⟩
      rw [hix] at i1 i2 i3 i4 i5
      simp only at i1 i2 i3 i4 i5
      cases e with
      | none =>
        simp only []
        refine ⟨i1, i2 hn, i3, ?_, fun h => absurd rfl h⟩
        intro _ pat h
        obtain ⟨pat', hp', hat⟩ := i5 rfl
        rw [(ruleWhen_getRulePattern h).2] at hp'
        cases hp'; exact hat
      | some e =>
        simp only []
        cases replaced with
        | none =>
          simp only []
          exact ⟨i1, i2 hn, i3, fun h => (by cases h), fun _ pat π h => (by cases h)⟩
        | some old =>
          simp only []
          by_cases ho : Obj.has old "schedule" = true
          · simp only [ho, if_true]
            refine ⟨i1, i2 hn, i3, fun h => (by cases h), ?_⟩
            intro _ pat π h
            have := (ruleWhen_getRulePattern h).1
            rw [ho] at this; cases this
          · have ho' : Obj.has old "schedule" = false := by simpa using ho
            simp only [ho', Bool.false_eq_true, if_false]
            obtain ⟨j1, j2, j3, j4, _⟩ := indexRule_spec s1 id old
            refine ⟨j1.trans i1, j2 (i2 hn), fun id' ρ h => j3 id' ρ (i3 id' ρ h), fun h => (by cases h), ?_⟩
            intro _ pat π h hπ
            exact j4 pat π (ruleWhen_getRulePattern h).2 hπ

theorem stIdx_iadd (s : St) (given : String) (x : Obj) (now : Int) (h : StIdx s) :
    StIdx (s.iadd given x now).1 := by
  rw [iadd_eq]
  cases hp : prepareFact given s.freshId x now with
  | error e => exact h
  | ok r =>
    obtain ⟨id, fact, x'⟩ := r
    simp only []
    generalize hs0 : (if (given == "" && id == s.freshId) = true then ({ s with fresh := s.fresh + 1 } : St) else s) = s0
    have h0 : s0.ri = s.ri ∧ s0.facts = s.facts := by subst hs0; split <;> exact ⟨rfl, rfl⟩
    have hI0 : StIdx s0 := by unfold StIdx; rw [h0.1, h0.2]; exact h
    clear hs0 h h0
    cases he : extractRule fact false with
    | error e => exact hI0
    | ok rf =>
      obtain ⟨rule, fact'⟩ := rf
      simp only []
      cases hu : s0.unindexPrevious id with
      | error e => exact hI0
      | ok ur =>
        obtain ⟨s1, replaced⟩ := ur
        simp only []
        obtain ⟨hf1, hn1, ho1, hprev⟩ := unindexPrevious_spec hu hI0.1
        have hw' := whenOf_extractRule_snd he
        obtain ⟨k1, k2, k3, k4, k5⟩ := iaddIndex_spec s1 id rule replaced hn1
        rcases hix : iaddIndex s1 id rule replaced with ⟨s2, err⟩
        rw [hix] at k1 k2 k3 k4 k5
        simp only at k1 k2 k3 k4 k5
        -- rules stored under other ids stay where they are
        have hother : ∀ id' f' pat', id' ≠ id → amGet s0.facts id' = some f' → whenOf f' = some pat' →
            At s2.ri id' pat' := by
          intro id' f' pat' hne hg hwf
          obtain ⟨π, hπ, hm⟩ := hI0.2 id' f' pat' hg hwf
          exact ⟨π, hπ, k3 id' π (ho1 id' hne π hm)⟩
        cases err with
        | some e =>
          simp only []
          refine ⟨k2, ?_⟩
          intro id' f' pat' hg hwf
          rw [k1, hf1] at hg
          by_cases hid : id' = id
          · subst hid
            obtain ⟨π, hπ, _⟩ := hI0.2 id' f' pat' hg hwf
            rw [hprev f' hg] at hwf
            exact ⟨π, hπ, k5 (by simp) pat' π hwf hπ⟩
          · exact hother id' f' pat' hid hg hwf
        | none =>
          simp only []
          refine ⟨k2, ?_⟩
          intro id' f' pat' hg hwf
          simp only at hg
          rw [amGet_amSet] at hg
          by_cases hid : id' = id
          · subst hid
            simp only [if_true, Option.some.injEq] at hg; subst hg
            rw [hw'] at hwf
            exact k4 rfl pat' hwf
          · simp only [hid, if_false] at hg
            rw [k1, hf1] at hg
            exact hother id' f' pat' hid hg hwf

theorem stIdx_iAdd (s : St) (given : String) (x : Obj) (now : Int) (h : StIdx s) :
    StIdx (s.iAdd given x now).1 := by
  have := stIdx_iadd s given x now h
  unfold St.iAdd
  rcases hr : s.iadd given x now with ⟨s1, r⟩
  rw [hr] at this
  cases r with
  | error e => exact this
  | ok v => exact this

/-! ## `IndexedState.rem`, the cascade, and the searches that expire facts -/

theorem stIdx_init (k : Kind) (n : Nat) : StIdx { kind := k, fresh := n } :=
  ⟨nodupIds_empty, fun id fact pat h => by simp [amGet] at h⟩

/-- erasing the stored fact after its rule left the index -/
theorem stIdx_erase {s s1 : St} {id : String} (h : StIdx s) (hf : s1.facts = s.facts) (hn : NodupIds s1.ri)
    (ho : Others id s.ri s1.ri) (ti : TI) (store : List (String × J)) :
    StIdx { s1 with facts := amErase s1.facts id, ti := ti, store := store } := by
  refine ⟨hn, ?_⟩
  intro id' f' pat' hg hwf
  simp only at hg
  rw [amGet_amErase, hf] at hg
  by_cases hid : id' = id
  · simp [hid] at hg
  · simp only [hid, if_false] at hg
    obtain ⟨π, hπ, hm⟩ := h.2 id' f' pat' hg hwf
    exact ⟨π, hπ, ho id' hid π hm⟩

/-- the unindex step of `St.irem` (verbatim) -/
def iremUnindex (s : St) (id : String) (fact : Obj) : Except LErr St :=
  let rule := match extractRule fact false with | .ok (r, _) => r | .error _ => none
  match rule with
  | some r => s.unindexRule id r
  | none => .ok s

/-- the erase step of `St.irem` (verbatim) -/
def iremErase (s1 : St) (id : String) (fact : Obj) : St :=
  { s1 with facts := amErase s1.facts id,
            ti := (extractTerms fact).foldl (fun ti t => TI.rem ti t id) s1.ti,
            store := amErase s1.store id }

theorem irem_succ (fuel : Nat) (s : St) (id : String) (now : Int) :
    St.irem (fuel + 1) s id now =
      (match amGet s.facts id with
      | some fact =>
        match iremUnindex s id fact with
        | .error e => (s, .error e)
        | .ok s1 =>
          match St.ideps fuel (iremErase s1 id fact) id now with
          | (s3, .error e) => (s3, .error e)
          | (s3, .ok _) => (s3, .ok true)
      | none =>
        match St.ideps fuel s id now with
        | (s3, .error e) => (s3, .error e)
        | (s3, .ok _) => (s3, .ok false)) := by
  simp only [St.irem, iremUnindex, iremErase]
  rfl

theorem iremUnindex_spec {s s1 : St} {id : String} {fact : Obj} (h : iremUnindex s id fact = .ok s1)
    (hn : NodupIds s.ri) : s1.facts = s.facts ∧ NodupIds s1.ri ∧ Others id s.ri s1.ri := by
  unfold iremUnindex at h
  simp only at h
  split at h
  · exact unindexRule_spec h hn
  · cases h; exact ⟨rfl, hn, Others.refl _ _⟩

theorem irem_family (fuel : Nat) :
    (∀ s id now, StIdx s → StIdx (St.irem fuel s id now).1) ∧
    (∀ s id now, StIdx s → StIdx (St.ideps fuel s id now).1) ∧
    (∀ s ids now, StIdx s → StIdx (St.iremAll fuel s ids now).1) ∧
    (∀ s p now, StIdx s → StIdx (St.isearch fuel s p now).1) ∧
    (∀ s p ids now acc, StIdx s → StIdx (St.isearchLoop fuel s p ids now acc).1) := by
  induction fuel with
  | zero =>
    refine ⟨?_, ?_, ?_, ?_, ?_⟩ <;> intros <;>
      simp only [St.irem, St.ideps, St.iremAll, St.isearch, St.isearchLoop] <;> assumption
  | succ fuel ih =>
    obtain ⟨ih1, ih2, ih3, ih4, ih5⟩ := ih
    refine ⟨?_, ?_, ?_, ?_, ?_⟩
    · -- irem
      intro s id now h
      rw [irem_succ]
      cases hg : amGet s.facts id with
      | none =>
        simp only []
        have := ih2 s id now h
        rcases hd : St.ideps fuel s id now with ⟨s3, r3⟩
        rw [hd] at this
        cases r3 <;> exact this
      | some fact =>
        simp only []
        cases hu : iremUnindex s id fact with
        | error e => exact h
        | ok s1 =>
          simp only []
          obtain ⟨hf, hn, ho⟩ := iremUnindex_spec hu h.1
          have hs2 : StIdx (iremErase s1 id fact) := stIdx_erase h hf hn ho _ _
          have := ih2 _ id now hs2
          rcases hd : St.ideps fuel (iremErase s1 id fact) id now with ⟨s3, r3⟩
          rw [hd] at this
          cases r3 <;> exact this
    · -- ideps
      intro s id now h
      simp only [St.ideps]
      split
      · exact h
      · have := ih4 s [("deleteWith", .arr [.str id])] now h
        rcases hd : St.isearch fuel s [("deleteWith", .arr [.str id])] now with ⟨s1, r1⟩
        rw [hd] at this
        cases r1 with
        | error e => exact this
        | ok found => exact ih3 s1 _ now this
    · -- iremAll
      intro s ids now h
      simp only [St.iremAll]
      cases ids with
      | nil => exact h
      | cons i rest =>
        simp only []
        have := ih1 s i now h
        rcases hd : St.irem fuel s i now with ⟨s1, r1⟩
        rw [hd] at this
        cases r1 with
        | error e => exact this
        | ok b => exact ih3 s1 rest now this
    · -- isearch
      intro s p now h
      simp only [St.isearch]
      split
      · exact h
      · exact ih5 s p _ now [] h
    · -- isearchLoop
      intro s p ids now acc h
      simp only [St.isearchLoop]
      cases ids with
      | nil => exact h
      | cons id rest =>
        simp only []
        cases hg : amGet s.facts id with
        | none => exact ih5 s p rest now acc h
        | some fact =>
          simp only []
          cases hce : checkExpiration fact now with
          | error e =>
            simp only [Bool.false_eq_true, if_false]
            cases matchesJ (.obj p) (.obj fact) with
            | error e => exact h
            | ok bss => exact ih5 s p rest now _ h
          | ok b =>
            cases b with
            | true =>
              simp only [if_true]
              exact ih5 _ p rest now acc (ih1 s id now h)
            | false =>
              simp only [Bool.false_eq_true, if_false]
              cases matchesJ (.obj p) (.obj fact) with
              | error e => exact h
              | ok bss => exact ih5 s p rest now _ h

theorem stIdx_irem (fuel : Nat) (s : St) (id : String) (now : Int) (h : StIdx s) :
    StIdx (St.irem fuel s id now).1 := (irem_family fuel).1 s id now h

theorem stIdx_isearch (fuel : Nat) (s : St) (p : Obj) (now : Int) (h : StIdx s) :
    StIdx (St.isearch fuel s p now).1 := (irem_family fuel).2.2.2.1 s p now h

theorem stIdx_iGet (s : St) (id : String) (now : Int) (h : StIdx s) : StIdx (s.iGet id now).1 := by
  unfold St.iGet
  cases amGet s.facts id with
  | none => exact h
  | some fact =>
    simp only []
    cases checkExpiration fact now with
    | error e => exact h
    | ok b =>
      cases b with
      | false => exact h
      | true =>
        simp only []
        have := stIdx_irem s.fuel s id now h
        rcases hd : St.irem s.fuel s id now with ⟨s1, r1⟩
        rw [hd] at this
        cases r1 <;> exact this

theorem stIdx_iFindRules_go (now : Int) : ∀ (fuel : Nat) (s : St) (ids : List String)
    (acc : List (String × Obj)), StIdx s → StIdx (St.iFindRules.go now fuel s ids acc).1 := by
  intro fuel
  induction fuel with
  | zero => intro s ids acc h; simp only [St.iFindRules.go]; exact h
  | succ fuel ih =>
    intro s ids acc h
    simp only [St.iFindRules.go]
    cases ids with
    | nil => exact h
    | cons id rest =>
      simp only []
      have hrest : ∀ s1, StIdx s1 → StIdx (match amGet s.facts id with
          | none => (s1, (Except.error "lostRule" : Except LErr (List (String × Obj))))
          | some f =>
            match extractRule f true with
            | .error e => (s1, .error e)
            | .ok (some body, _) => St.iFindRules.go now fuel s1 rest (acc ++ [(id, body)])
            | .ok (none, _) => (s1, .error "ruleBodyMissing")).1 := by
        intro s1 h1
        cases amGet s.facts id with
        | none => exact h1
        | some f =>
          simp only []
          cases extractRule f true with
          | error e => exact h1
          | ok rf =>
            obtain ⟨ro, f2⟩ := rf
            cases ro with
            | none => exact h1
            | some body => exact ih s1 rest _ h1
      cases hce : checkExpiration ((amGet s.facts id).getD []) now with
      | error e =>
        simp only [Bool.false_eq_true, if_false]
        exact hrest s h
      | ok b =>
        cases b with
        | true =>
          simp only [if_true]
          exact ih _ rest acc (stIdx_irem _ s id now h)
        | false =>
          simp only [Bool.false_eq_true, if_false]
          exact hrest s h

theorem stIdx_iFindRules (s : St) (ev : Obj) (now : Int) (h : StIdx s) : StIdx (s.iFindRules ev now).1 := by
  unfold St.iFindRules
  cases piSearch s.ri ev with
  | error e => exact h
  | ok ids => exact stIdx_iFindRules_go now _ s ids [] h

/-- **every reachable indexed state satisfies the rule-index invariant** -/
theorem stIdx_of_reach {s : St} (h : IReach s) : StIdx s := by
  induction h with
  | init => exact stIdx_init _ _
  | add s given x now _ ih => exact stIdx_iAdd s given x now ih
  | rem s fuel id now _ ih => exact stIdx_irem fuel s id now ih
  | get s id now _ ih => exact stIdx_iGet s id now ih
  | search s fuel p now _ ih => exact stIdx_isearch fuel s p now ih
  | findRules s ev now _ ih => exact stIdx_iFindRules s ev now ih
  | clear s _ _ => exact stIdx_init _ _

end PI

import RulioProofs.StateMatch

set_option linter.unusedSimpArgs false
set_option linter.unusedVariables false

/-! # A fact over which a pattern lies (`pmv`) carries all the pattern's terms -/

theorem isVar_anon_st : isVar "?" = true := by decide +kernel

/-! ## unfolding the declarative partial-match predicate -/

theorem sPmv_str (σ : Bs) (s : String) (d : J) : pmv σ (.str s) d = pmStr σ s d := by
  unfold pmv; rfl

theorem sPmv_obj (σ : Bs) (kvs : List (String × J)) (d : J) :
    pmv σ (.obj kvs) d = match d with | .obj dm => pmO σ kvs dm dm | _ => false := by
  cases d <;> (unfold pmv; rfl)

theorem sPmv_arr (σ : Bs) (xs : List J) (d : J) :
    pmv σ (.arr xs) d = match d with | .arr ds => pmA σ xs ds | _ => false := by
  cases d <;> (unfold pmv; rfl)

theorem sPmO_cons_const (σ : Bs) (k : String) (v : J) (r dm rest : List (String × J)) (hk : isVar k = false) :
    pmO σ ((k, v) :: r) dm rest =
      ((match lookupKey k dm with | some dv => pmv σ v dv | none => false) && pmO σ r dm dm) := by
  rw [pmO.eq_def]; simp only [hk, Bool.false_eq_true, ↓reduceIte]
  cases lookupKey k dm <;> rfl

theorem sPmA_cons (σ : Bs) (x : J) (xs ds : List J) : pmA σ (x :: xs) ds = pmPick σ x xs [] ds := by
  rw [pmA]

theorem sPmPick_nil (σ : Bs) (x : J) (xs pre : List J) : pmPick σ x xs pre [] = false := by
  rw [pmPick]

theorem sPmPick_cons (σ : Bs) (x : J) (xs pre : List J) (d : J) (post : List J) :
    pmPick σ x xs pre (d :: post) = ((pmv σ x d && pmA σ xs (pre ++ post)) || pmPick σ x xs (pre ++ [d]) post) := by
  rw [pmPick]

theorem pmPick_spec (σ : Bs) (x : J) (xs : List J) : ∀ (post pre : List J), pmPick σ x xs pre post = true →
    ∃ d, d ∈ post ∧ pmv σ x d = true ∧ ∃ ds', pmA σ xs ds' = true ∧ ∀ y, y ∈ ds' → y ∈ pre ++ post := by
  intro post
  induction post with
  | nil => intro pre h; rw [sPmPick_nil] at h; cases h
  | cons d post ih =>
    intro pre h
    rw [sPmPick_cons] at h
    simp only [Bool.or_eq_true, Bool.and_eq_true] at h
    rcases h with ⟨h1, h2⟩ | h
    · refine ⟨d, by simp, h1, pre ++ post, h2, ?_⟩
      intro y hy
      rcases List.mem_append.1 hy with hy | hy
      · exact List.mem_append_left _ hy
      · exact List.mem_append_right _ (List.mem_cons_of_mem _ hy)
    · obtain ⟨d', hd', hp, ds', hA, hsub⟩ := ih (pre ++ [d]) h
      refine ⟨d', List.mem_cons_of_mem _ hd', hp, ds', hA, ?_⟩
      intro y hy
      have := hsub y hy
      simp only [List.append_assoc, List.singleton_append] at this
      exact this

theorem mem_termsL {xs : List J} {t : String} : t ∈ termsL xs ↔ ∃ x, x ∈ xs ∧ t ∈ termsJ x := by
  induction xs with
  | nil => simp [termsL]
  | cons y ys ih =>
    simp only [termsL, List.mem_append, ih, List.mem_cons]
    constructor
    · rintro (h | ⟨x, hx, ht⟩)
      · exact ⟨y, Or.inl rfl, h⟩
      · exact ⟨x, Or.inr hx, ht⟩
    · rintro ⟨x, hx | hx, ht⟩
      · subst hx; exact Or.inl ht
      · exact Or.inr ⟨x, hx, ht⟩

mutual
/-- **`pmv_terms_subset`, all levels.** -/
theorem pmv_termsJ (σ : Bs) : ∀ (p d : J), noVarKeys p = true → pmv σ p d = true → ∀ t, t ∈ termsJ p → t ∈ termsJ d
  | .null, d, _, _, t, ht => by simp [termsJ] at ht
  | .bool b, d, _, _, t, ht => by simp [termsJ] at ht
  | .num n, d, _, _, t, ht => by simp [termsJ] at ht
  | .str s, d, _, hp, t, ht => by
    simp only [termsJ] at ht
    split at ht
    · rename_i hc
      simp only [Bool.and_eq_true, Bool.not_eq_true', decide_eq_true_eq] at hc
      have hne : s ≠ "?" := by rintro rfl; rw [isVar_anon_st] at hc; cases hc.1
      rw [sPmv_str] at hp
      simp only [pmStr, beq_iff_eq, hne, ↓reduceIte, hc.1, Bool.false_eq_true] at hp
      cases d with
      | str t' =>
        simp only [beq_iff_eq] at hp
        subst hp
        simp only [termsJ, hc.1, hc.2, Bool.not_false, decide_true, Bool.and_self, ↓reduceIte]
        exact ht
      | _ => simp at hp
    · simp at ht
  | .arr xs, d, hk, hp, t, ht => by
    rw [sPmv_arr] at hp
    cases d with
    | arr ds =>
      simp only at hp
      simp only [termsJ] at ht ⊢
      simp only [noVarKeys] at hk
      exact pmv_termsL σ xs ds hk hp t ht
    | _ => simp at hp
  | .obj kvs, d, hk, hp, t, ht => by
    rw [sPmv_obj] at hp
    cases d with
    | obj dm =>
      simp only at hp
      simp only [termsJ] at ht ⊢
      simp only [noVarKeys] at hk
      exact pmv_termsO σ kvs dm dm hk hp t ht
    | _ => simp at hp
theorem pmv_termsL (σ : Bs) : ∀ (xs ds : List J), noVarKeysL xs = true → pmA σ xs ds = true →
    ∀ t, t ∈ termsL xs → t ∈ termsL ds
  | [], ds, _, _, t, ht => by simp [termsL] at ht
  | x :: xs, ds, hk, hp, t, ht => by
    rw [sPmA_cons] at hp
    simp only [noVarKeysL, Bool.and_eq_true] at hk
    obtain ⟨d, hd, hpd, ds', hA, hsub⟩ := pmPick_spec σ x xs ds [] hp
    simp only [termsL, List.mem_append] at ht
    rcases ht with ht | ht
    · exact mem_termsL.2 ⟨d, hd, pmv_termsJ σ x d hk.1 hpd t ht⟩
    · have := pmv_termsL σ xs ds' hk.2 hA t ht
      obtain ⟨y, hy, hty⟩ := mem_termsL.1 this
      exact mem_termsL.2 ⟨y, by simpa using hsub y hy, hty⟩
theorem pmv_termsO (σ : Bs) : ∀ (kvs dm rest : List (String × J)), noVarKeysO kvs = true → pmO σ kvs dm rest = true →
    ∀ t, t ∈ termsO kvs → t ∈ termsO dm
  | [], dm, rest, _, _, t, ht => by simp [termsO] at ht
  | (k, v) :: r, dm, rest, hk, hp, t, ht => by
    simp only [noVarKeysO, Bool.and_eq_true, Bool.not_eq_true'] at hk
    rw [sPmO_cons_const σ k v r dm rest hk.1.1] at hp
    simp only [Bool.and_eq_true] at hp
    cases hl : lookupKey k dm with
    | none => rw [hl] at hp; simp at hp
    | some dv =>
      rw [hl] at hp
      simp only at hp
      obtain ⟨h1, h2⟩ := termsO_of_lookup hl
      simp only [termsO, List.mem_append] at ht
      rcases ht with (ht | ht) | ht
      · split at ht
        · rename_i hc
          simp only [Bool.and_eq_true, Bool.not_eq_true', decide_eq_true_eq] at hc
          simp only [List.mem_singleton] at ht; subst ht
          exact h1 hc.1 hc.2
        · simp at ht
      · split at ht
        · simp at ht
        · rename_i hskip
          exact h2 (by simpa using hskip) t (pmv_termsJ σ v dv hk.1.2 hp.1 t ht)
      · exact pmv_termsO σ r dm dm hk.2 hp.2 t ht
end

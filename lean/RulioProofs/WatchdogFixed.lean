import RulioProofs.Watchdog

/-! # C14 lemmas: the proposed repair (`watchdogCleanup` buffered with capacity 1, Halt reported as an error) -/

namespace Watchdog

/-- invariant of every guarded run with the buffered channel -/
def rinv (hE : Bool) (s : Ctl) : Bool :=
  (!s.intrFull || s.w == .close || s.w == .done) &&
  (!s.intrClosed || s.w == .done) &&
  (match s.m with
   | .start => s.w == .idle && !s.intrFull && !s.intrClosed && !s.clnFull && !s.clnClosed
   | .run => s.w != .idle && !s.clnFull && !s.clnClosed && (!(s.w == .close || s.w == .done) || s.intrFull)
   | .dSend .fin => s.w != .idle && !s.clnFull && !s.clnClosed
   | .dSend .halt => s.w != .idle && !s.clnFull && !s.clnClosed
   | .dClose .fin => s.w != .idle && !s.clnClosed
   | .dClose .halt => s.w != .idle && !s.clnClosed
   | .dRecover .fin => s.w != .idle && s.clnClosed
   | .dRecover .halt => s.w != .idle && s.clnClosed
   | .ret .own => s.w != .idle && s.clnClosed
   | .ret .timeoutErr => s.w != .idle && s.clnClosed && hE
   | .ret .nilOk => s.w != .idle && s.clnClosed && !hE
   | _ => false)

theorem rinv_init (hE : Bool) : rinv hE Ctl.init = true := by cases hE <;> decide

theorem rinv_pres_k : ∀ hE k, rinv hE k = true → ∀ fi z t,
    (stepCtl ⟨true, fi, true, hE⟩ z t k).all (fun r => rinv hE r.1) = true := by decide +kernel

theorem rinv_pres : ∀ fi hE, Preserved ⟨true, fi, true, hE⟩ (rinv hE) :=
  fun fi hE z k hk t => rinv_pres_k hE k hk fi z t

/-- the caller's goroutine is never blocked -/
theorem rinv_main_enabled_k : ∀ hE k, rinv hE k = true → k.returned = false → ∀ fi z,
    (stepCtl ⟨true, fi, true, hE⟩ z .main k).isSome = true := by decide +kernel

theorem rinv_main_enabled : ∀ fi hE z k, rinv hE k = true → k.returned = false →
    (stepCtl ⟨true, fi, true, hE⟩ z .main k).isSome = true :=
  fun fi hE z k h1 h2 => rinv_main_enabled_k hE k h1 h2 fi z

theorem rinv_returned : ∀ k, rinv true k = true → k.returned = true → k.m = .ret .own ∨ k.m = .ret .timeoutErr := by
  decide +kernel

theorem rinv_not_panicked : ∀ hE k, rinv hE k = true → k.m ≠ .panicked := by decide +kernel

/-- nothing can move ⇒ the caller has returned and the watchdog goroutine has exited -/
theorem rinv_stuck_k : ∀ hE k, rinv hE k = true → ∀ fi z,
    (∀ t, stepCtl ⟨true, fi, true, hE⟩ z t k = none) → k.returned = true ∧ k.w = .done := by decide +kernel

theorem rinv_stuck : ∀ fi hE z k, rinv hE k = true →
    (∀ t, stepCtl ⟨true, fi, true, hE⟩ z t k = none) → k.returned = true ∧ k.w = .done :=
  fun fi hE z k hk h => rinv_stuck_k hE k hk fi z h

theorem rinv_dec_k : ∀ hE k, rinv hE k = true → ∀ fi z t,
    (stepCtl ⟨true, fi, true, hE⟩ z t k).all
      (fun r => if r.2 then muK ⟨true, fi, true, hE⟩ r.1 == muK ⟨true, fi, true, hE⟩ k
                else decide (muK ⟨true, fi, true, hE⟩ r.1 < muK ⟨true, fi, true, hE⟩ k)) = true := by decide +kernel

theorem rinv_dec : ∀ fi hE z, Decreasing ⟨true, fi, true, hE⟩ z (rinv hE) :=
  fun fi hE z k hk t => rinv_dec_k hE k hk fi z t

/-- the script never ends by itself -/
def rlinv (s : Ctl) : Bool :=
  rinv true s &&
  (match s.m with | .dSend .fin => false | .dClose .fin => false | .dRecover .fin => false | .ret .own => false | _ => true)

theorem rlinv_pres : PreservedAt ⟨true, true, true, true⟩ false rlinv := by decide +kernel

theorem rlinv_returned : ∀ k, rlinv k = true → k.returned = true → k.m = .ret .timeoutErr := by decide +kernel

/-- a thread whose step makes progress towards the end of the call -/
def progressTid (s : Ctl) : Tid :=
  let aux : Tid := if s.fired then .wd else .timer
  match s.m with
  | .ret _ => aux
  | .panicked => aux
  | .run => if s.intrFull then .main else aux
  | _ => .main

theorem rlinv_progress : ∀ k, rlinv k = true → k.overFinal .timeoutErr = false →
    (stepCtl ⟨true, true, true, true⟩ false (progressTid k) k).any
      (fun r => decide (muK ⟨true, true, true, true⟩ r.1 < muK ⟨true, true, true, true⟩ k)) = true := by
  decide +kernel

end Watchdog

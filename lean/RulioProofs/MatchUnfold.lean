import RulioProofs.MatchSpecLemmas

/-! # Unfolding lemmas for the matcher model (`matchJ` / `matchO` / `matchA`), `getVariable`, and the
bookkeeping predicates `SC` (scalar condition) and `DomLe` (domain bound) used by the C05 proofs -/

open List

/-! ## unfolding -/
theorem matchJ_null (f : J) (bs : Bs) :
    matchJ .null f bs = (match f with | .null => .ok [bs] | _ => .ok []) := by
  rw [matchJ.eq_def]; rfl
theorem matchJ_bool (a : Bool) (f : J) (bs : Bs) :
    matchJ (.bool a) f bs = (match f with | .bool b => .ok (if a == b then [bs] else []) | _ => .ok []) := by
  rw [matchJ.eq_def]; rfl
theorem matchJ_num (a : Int) (f : J) (bs : Bs) :
    matchJ (.num a) f bs = (match f with | .num b => .ok (if a == b then [bs] else []) | _ => .ok []) := by
  rw [matchJ.eq_def]; rfl
theorem matchJ_str (s : String) (f : J) (bs : Bs) : matchJ (.str s) f bs = matchStr s f bs := by
  rw [matchJ.eq_def]
theorem matchJ_obj (kvs : List (String × J)) (f : J) (bs : Bs) :
    matchJ (.obj kvs) f bs =
      (match f with
       | .obj fm =>
         if kvs.isEmpty then .ok [bs]
         else if kvs.length > 1 && kvs.any (fun kv => isVar kv.1) then .error .propVarWithOthers
         else matchO kvs fm [bs]
       | _ => .ok []) := by
  rw [matchJ.eq_def]; rfl
theorem matchJ_arr (xs : List J) (f : J) (bs : Bs) :
    matchJ (.arr xs) f bs =
      (match getVariable xs none with
       | .error e => .error e
       | .ok (v, _) =>
         match f with
         | .arr fa =>
           (matchA xs (fa.filter (fun y => !y.isScalar)).isEmpty
              [([bs], (fa.filter J.isScalar).eraseDups, fa.filter (fun y => !y.isScalar))]) >>= fun branches =>
           match v with
           | none => pure (branches.flatMap (·.1))
           | some v =>
             (branches.mapM (fun br =>
               (splitNth (br.2.2 ++ br.2.1)).mapM (fun fr => br.1.mapM (fun b => matchStr v fr.1 b)))) >>= fun ext =>
             if (ext.flatMap (fun per => per.flatMap (fun r => r.flatMap id))).isEmpty && isOptVar v
             then pure (branches.flatMap (·.1))
             else pure (ext.flatMap (fun per => per.flatMap (fun r => r.flatMap id)))
         | _ => .ok []) := by
  rw [matchJ.eq_def]; rfl

theorem matchO_nil (fm : List (String × J)) (bss : List Bs) : matchO [] fm bss = .ok bss := by
  rw [matchO.eq_def]
theorem matchO_cons_const {k : String} (hk : isVar k = false) (v : J) (r fm : List (String × J)) (bss : List Bs) :
    matchO ((k, v) :: r) fm bss =
      (match lookupKey k fm with
       | none => (match v with
                  | .str s => if isOptVar s then matchO r fm bss else .ok []
                  | _ => .ok [])
       | some fv =>
         (bss.mapM (fun b => matchJ v fv b)) >>= fun acc =>
           if (acc.flatMap id).isEmpty then pure [] else matchO r fm (acc.flatMap id)) := by
  rw [matchO.eq_def]; simp only [hk, Bool.false_eq_true, if_false]; rfl
theorem matchO_cons_var {k : String} (hk : isVar k = true) (v : J) (r fm : List (String × J)) (bss : List Bs) :
    matchO ((k, v) :: r) fm bss =
      ((fm.mapM (fun (fk, fv) =>
          (bss.mapM (fun b => matchStr k (.str fk) b)) >>= fun e1 =>
            if (e1.flatMap id).isEmpty then pure []
            else ((e1.flatMap id).mapM (fun b => matchJ v fv b)) >>= fun e2 => pure (e2.flatMap id))) >>= fun per =>
        pure (per.flatMap id)) := by
  rw [matchO.eq_def]; simp only [hk, if_true]

theorem matchA_nil (ns : Bool) (branches : List (List Bs × List J × List J)) :
    matchA [] ns branches = .ok branches := by
  rw [matchA.eq_def]
theorem matchA_cons_eq (x : J) (xs : List J) (ns : Bool) (branches : List (List Bs × List J × List J)) :
    matchA (x :: xs) ns branches =
      (if isVarElem x = true then matchA xs ns branches
       else if x.isScalar = true then
         (match branches with
          | [] => .ok []
          | (_, sc, _) :: _ =>
            if sc.contains x then matchA xs ns (branches.map (fun br => (br.1, br.2.1.erase x, br.2.2)))
            else .ok [])
       else if ns = true then .ok [] else
        (branches.mapM (fun br =>
          (splitNth br.2.2).mapM (fun fr =>
            (br.1.mapM (fun b => matchJ x fr.1 b)) >>= fun acc =>
              pure (if (acc.flatMap id).isEmpty then [] else [(acc.flatMap id, br.2.1, fr.2)])))) >>= fun nb =>
        if (nb.flatMap (fun per => per.flatMap id)).isEmpty then pure []
        else matchA xs ns (nb.flatMap (fun per => per.flatMap id))) := by
  rw [matchA.eq_def]; rfl

theorem matchA_cons_var {x : J} (hx : isVarElem x = true) (xs : List J) (ns : Bool)
    (branches : List (List Bs × List J × List J)) :
    matchA (x :: xs) ns branches = matchA xs ns branches := by
  rw [matchA_cons_eq, if_pos hx]
theorem matchA_cons_scalar {x : J} (hv : isVarElem x = false) (hx : x.isScalar = true) (xs : List J) (ns : Bool)
    (branches : List (List Bs × List J × List J)) :
    matchA (x :: xs) ns branches =
      (match branches with
       | [] => .ok []
       | (_, sc, _) :: _ =>
         if sc.contains x then matchA xs ns (branches.map (fun br => (br.1, br.2.1.erase x, br.2.2)))
         else .ok []) := by
  rw [matchA_cons_eq, if_neg (by simp [hv]), if_pos hx]
theorem matchA_cons_struct {x : J} (hx : x.isScalar = false) (xs : List J)
    (branches : List (List Bs × List J × List J)) :
    matchA (x :: xs) false branches =
      ((branches.mapM (fun br =>
          (splitNth br.2.2).mapM (fun fr =>
            (br.1.mapM (fun b => matchJ x fr.1 b)) >>= fun acc =>
              pure (if (acc.flatMap id).isEmpty then [] else [(acc.flatMap id, br.2.1, fr.2)])))) >>= fun nb =>
        if (nb.flatMap (fun per => per.flatMap id)).isEmpty then pure []
        else matchA xs false (nb.flatMap (fun per => per.flatMap id))) := by
  have hv : isVarElem x = false := by cases x <;> simp_all [J.isScalar, isVarElem]
  rw [matchA_cons_eq, if_neg (by simp [hv]), if_neg (by simp [hx]), if_neg (by simp)]
theorem matchA_cons_struct_ns {x : J} (hx : x.isScalar = false) (xs : List J)
    (branches : List (List Bs × List J × List J)) :
    matchA (x :: xs) true branches = .ok [] := by
  have hv : isVarElem x = false := by cases x <;> simp_all [J.isScalar, isVarElem]
  rw [matchA_cons_eq, if_neg (by simp [hv]), if_neg (by simp [hx]), if_pos rfl]

theorem matchA_filter : ∀ (xs : List J) (ns : Bool) (branches : List (List Bs × List J × List J)),
    matchA xs ns branches = matchA (xs.filter (fun x => !isVarElem x)) ns branches
  | [], ns, br => by simp
  | x :: xs, ns, br => by
      by_cases hx : isVarElem x = true
      · rw [matchA_cons_var hx, List.filter_cons_of_neg (by simp [hx])]
        exact matchA_filter xs ns br
      · rw [List.filter_cons_of_pos (by simpa using hx), matchA_cons_eq, matchA_cons_eq]
        simp only [matchA_filter xs]

/-! ## `getVariable` -/
theorem getVariable_spec : ∀ (xs : List J) (w v : Option String) (acc : List J),
    getVariable xs w = .ok (v, acc) →
      (w = none → xs.filter isVarElem = (match v with | none => [] | some s => [.str s])) ∧
      (∀ s, w = some s → xs.filter isVarElem = [] ∧ v = some s)
  | [], w, v, acc, h => by
      simp only [getVariable, Except.ok.injEq, Prod.mk.injEq] at h
      obtain ⟨rfl, _⟩ := h
      constructor
      · rintro rfl; rfl
      · rintro s rfl; exact ⟨rfl, rfl⟩
  | x :: r, w, v, acc, h => by
      by_cases hx : isVarElem x = true
      · cases x <;> simp [isVarElem] at hx
        rename_i s
        simp only [getVariable, hx, if_true] at h
        cases w with
        | none =>
          simp only at h
          have := (getVariable_spec r (some s) v acc h).2 s rfl
          refine ⟨fun _ => ?_, fun s h => by cases h⟩
          rw [List.filter_cons_of_pos (by simp [isVarElem, hx]), this.1, this.2]
        | some w =>
          simp only at h
          split at h <;> cases h
      · have hx' : isVarElem x = false := by simpa using hx
        have h' : ∃ acc', getVariable r w = .ok (v, acc') := by
          cases x with
          | str s =>
            have hs : isVar s = false := by simpa [isVarElem] using hx'
            simp only [getVariable, hs, Bool.false_eq_true, if_false] at h
            obtain ⟨⟨v', acc'⟩, h1, h2⟩ := (Except.bind_ok_iff _ _ _).1 h
            simp only [pure, Except.pure, Except.ok.injEq, Prod.mk.injEq] at h2
            exact ⟨acc', by rw [h1, h2.1]⟩
          | _ =>
            simp only [getVariable] at h
            obtain ⟨⟨v', acc'⟩, h1, h2⟩ := (Except.bind_ok_iff _ _ _).1 h
            simp only [pure, Except.pure, Except.ok.injEq, Prod.mk.injEq] at h2
            exact ⟨acc', by rw [h1, h2.1]⟩
        obtain ⟨acc', h'⟩ := h'
        have := getVariable_spec r w v acc' h'
        rw [List.filter_cons_of_neg (by simp [hx'])]
        exact this

theorem getVariable_some_isVar : ∀ (xs : List J) (w v : Option String) (acc : List J),
    getVariable xs w = .ok (v, acc) → w = none → ∀ s, v = some s → .str s ∈ xs ∧ isVar s = true := by
  intro xs w v acc h hw s hv
  have := (getVariable_spec xs w v acc h).1 hw
  subst hv
  have hm : J.str s ∈ xs.filter isVarElem := by rw [this]; exact List.mem_singleton.2 rfl
  have := List.mem_filter.1 hm
  exact ⟨this.1, by simpa [isVarElem] using this.2⟩

/-! ## counting variables -/
theorem vcount_append (v : String) (l1 l2 : List String) : _root_.count v (l1 ++ l2) = _root_.count v l1 + _root_.count v l2 := by
  simp [_root_.count]
theorem vcount_pos_of_mem {v : String} {l : List String} (h : v ∈ l) : 1 ≤ _root_.count v l := by
  unfold _root_.count
  apply List.length_pos_of_mem (a := v)
  exact List.mem_filter.2 ⟨h, by simp⟩
theorem vcount_perm {v : String} {l1 l2 : List String} (h : l1.Perm l2) : _root_.count v l1 = _root_.count v l2 := by
  unfold _root_.count; exact (h.filter _).length_eq
theorem mem_of_vcount_pos {v : String} {l : List String} (h : 1 ≤ _root_.count v l) : v ∈ l := by
  unfold _root_.count at h
  obtain ⟨a, ha⟩ := List.exists_mem_of_length_pos h
  have := List.mem_filter.1 ha
  have h2 : a = v := by simpa using this.2
  exact h2 ▸ this.1

/-! ## scalar condition and domain bound -/
/-- every variable of the list `vs` (the variables of a pattern, with repetitions) that occurs twice or is
bound in `b` is bound to a scalar in `τ` (if bound at all) -/
def SC (τ : Bs) (vs : List String) (b : Bs) : Prop :=
  ∀ y ∈ vs, (2 ≤ _root_.count y vs ∨ b.get? y ≠ none) → scalarAt τ y = true

/-- `σ` binds nothing besides what `b` binds and the variables `vs` -/
def DomLe (σ b : Bs) (vs : List String) : Prop := ∀ k, σ.get? k ≠ none → b.get? k ≠ none ∨ k ∈ vs

theorem DomLe.refl (b : Bs) (vs : List String) : DomLe b b vs := fun _ h => Or.inl h
theorem DomLe.trans {σ1 σ2 b : Bs} {v1 v2 : List String} (h1 : DomLe σ1 b v1) (h2 : DomLe σ2 σ1 v2) :
    DomLe σ2 b (v1 ++ v2) := by
  intro k hk
  rcases h2 k hk with h | h
  · rcases h1 k h with h | h
    · exact Or.inl h
    · exact Or.inr (List.mem_append_left _ h)
  · exact Or.inr (List.mem_append_right _ h)
theorem DomLe.mono {σ b : Bs} {v1 v2 : List String} (h : DomLe σ b v1) (hs : ∀ k ∈ v1, k ∈ v2) : DomLe σ b v2 :=
  fun k hk => (h k hk).imp id (hs k)

theorem SC.left {τ b : Bs} {v1 v2 : List String} (h : SC τ (v1 ++ v2) b) : SC τ v1 b := by
  intro y hy hc
  apply h y (List.mem_append_left _ hy)
  rcases hc with hc | hc
  · left; rw [vcount_append]; omega
  · right; exact hc
theorem SC.right {τ b : Bs} {v1 v2 : List String} (h : SC τ (v1 ++ v2) b) : SC τ v2 b := by
  intro y hy hc
  apply h y (List.mem_append_right _ hy)
  rcases hc with hc | hc
  · left; rw [vcount_append]; omega
  · right; exact hc
/-- threading: after the first part bound some of its variables, the condition for the second part follows -/
theorem SC.right_of_dom {τ b σ1 : Bs} {v1 v2 : List String} (h : SC τ (v1 ++ v2) b) (hd : DomLe σ1 b v1) :
    SC τ v2 σ1 := by
  intro y hy hc
  apply h y (List.mem_append_right _ hy)
  rcases hc with hc | hc
  · left; rw [vcount_append]; omega
  · rcases hd y hc with hb | hv
    · right; exact hb
    · left; rw [vcount_append]
      have := vcount_pos_of_mem hv
      have := vcount_pos_of_mem hy
      omega
theorem SC.perm {τ b : Bs} {v1 v2 : List String} (hp : v1.Perm v2) (h : SC τ v1 b) : SC τ v2 b := by
  intro y hy hc
  apply h y (hp.mem_iff.2 hy)
  rw [vcount_perm hp]; exact hc
theorem SC.ext {τ b b' : Bs} {vs : List String} (h : SC τ vs b') (hb : ∀ y, b.get? y ≠ none → b'.get? y ≠ none) :
    SC τ vs b := fun y hy hc => h y hy (hc.imp id (hb y))

theorem varsOf_str (s : String) : varsOf (.str s) = if isVar s && s != "?" then [s] else [] := by
  rw [varsOf.eq_def]
theorem varsOf_arr (xs : List J) : varsOf (.arr xs) = varsOfL xs := by rw [varsOf.eq_def]
theorem varsOf_obj (kvs : List (String × J)) : varsOf (.obj kvs) = varsOfO kvs := by rw [varsOf.eq_def]
theorem varsOf_scalar_const {x : J} (hx : x.isScalar = true) (hv : isVarElem x = false) : varsOf x = [] := by
  cases x <;> simp_all [varsOf, isVarElem, J.isScalar]
theorem varsOfO_cons_const {k : String} (hk : isVar k = false) (v : J) (r : List (String × J)) :
    varsOfO ((k, v) :: r) = varsOf v ++ varsOfO r := by
  simp [varsOfO, hk]

import RulioModel.ComposeFrag
import RulioProofs.MatchTop
import RulioProofs.StateC02

/-! # Composition, matcher side: C05's soundness / totality in the form the state theorems consume -/

set_option linter.unusedVariables false

theorem noRepeats_count : ∀ {l : List String}, noRepeats l = true → ∀ y, count y l ≤ 1
  | [], _, y => by simp [count]
  | x :: xs, h, y => by
    simp only [noRepeats, Bool.and_eq_true, Bool.not_eq_true'] at h
    have ih := noRepeats_count h.2 y
    unfold count at ih ⊢
    by_cases hxy : x = y
    · subst hxy
      have hnot : x ∉ xs := by
        intro hm
        have : xs.contains x = true := List.contains_iff_mem.2 hm
        rw [h.1] at this; cases this
      have : xs.filter (· == x) = [] := by
        rw [List.filter_eq_nil_iff]
        intro a ha hax
        have : a = x := by simpa using hax
        exact hnot (this ▸ ha)
      simp [this]
    · have : (x == y) = false := by simpa using hxy
      simp only [List.filter_cons, this]
      exact ih

/-- **a linear pattern satisfies the scalar-repeats condition trivially** (for the empty incoming bindings):
no variable occurs twice and none is bound beforehand, so there is no critical variable -/
theorem linear_scalarRepeatsIn (σ : Bs) (p : Obj) (h : linearPattern p = true) :
    scalarRepeatsIn σ (.obj p) [] = true := by
  rw [scalarRepeatsIn_iff]
  intro y hy hc
  rcases hc with hc | hc
  · have := noRepeats_count h y
    omega
  · exact absurd rfl hc

theorem matchesJ_ok_iff {p d : J} {bss : List Bs} : matchesJ p d = .ok bss ↔ matchJ p d [] = .ok bss := by
  unfold matchesJ
  cases matchJ p d [] with
  | ok r => simp
  | error e => simp

/-- inside the fragments the matcher reports no error on empty incoming bindings (C05 `match_ok`) -/
theorem matchesJ_total {p d : J} (hp : patOK p = true) (hd : dataOK d = true) : ∃ bss, matchesJ p d = .ok bss := by
  have := ngJ p d [] (dataOK_ground d hd) (fun kv hkv => by cases hkv)
  cases hr : matchJ p d [] with
  | ok bss => exact ⟨bss, matchesJ_ok_iff.2 hr⟩
  | error e => rw [hr] at this; have := this.2; rw [hp] at this; cases this

/-- **a non-empty matcher answer yields a specification witness** (C05 `match_sound` on a linear pattern) -/
theorem match_nonempty_pmv {p d : Obj} {bss : List Bs} (hp : patOK (.obj p) = true) (hd : dataOK (.obj d) = true)
    (hlin : linearPattern p = true) (hm : matchesJ (.obj p) (.obj d) = .ok bss) (hne : bss ≠ []) :
    ∃ σ, σ ∈ bss ∧ pmv σ (.obj p) (.obj d) = true := by
  cases bss with
  | nil => exact absurd rfl hne
  | cons σ rest =>
    have hr := matchesJ_ok_iff.1 hm
    obtain ⟨_, _, h3⟩ := soundJ (.obj p) hp (.obj d) [] (σ :: rest) σ hd hr (List.mem_cons_self ..)
    exact ⟨σ, List.mem_cons_self .., h3 σ (Bs.Ext.refl σ) ((scalarRepeatsIn_iff σ (.obj p) []).1
      (linear_scalarRepeatsIn σ p hlin))⟩

/-- **C05 discharges the matcher hypothesis of C02**: for a linear pattern of the matcher fragment and stored
facts of the data fragment (or on which the matcher plainly answers "no match") -/
theorem matcherSoundOn_of_frag {F : List (String × Obj)} {p : Obj} (hp : patOK (.obj p) = true)
    (hlin : linearPattern p = true) (hF : FactsOKFor F p) : MatcherSoundOn F p := by
  intro e he bss hm hne
  rcases hF e he with hd | h0
  · obtain ⟨σ, _, hσ⟩ := match_nonempty_pmv hp hd hlin hm hne
    exact ⟨σ, hσ⟩
  · rw [h0] at hm; cases hm; exact absurd rfl hne

theorem FactsOK.for {s : St} (h : FactsOK s) (p : Obj) : FactsOKFor s.facts p := fun e he => Or.inl (h e he)

/-- the specification search does not fail inside the fragments -/
theorem specSearch_total {F : List (String × Obj)} {p : Obj} (hp : patOK (.obj p) = true) (hF : FactsOKFor F p)
    (now : Int) : ∃ R, specSearch F p now = .ok R := by
  unfold specSearch
  have key : ∀ (L : List (String × Obj)), (∀ e, e ∈ L → e ∈ F) →
      ∃ per, L.mapM (fun (x : String × Obj) => (do
        let bss ← matchesJ (.obj p) (.obj x.2)
        pure (if bss.isEmpty then [] else [(x.1, bss)]) : Except LErr (List (String × List Bs)))) = .ok per := by
    intro L
    induction L with
    | nil => intro _; exact ⟨[], rfl⟩
    | cons e L ih =>
      intro hsub
      obtain ⟨per, hper⟩ := ih (fun x hx => hsub x (List.mem_cons_of_mem _ hx))
      have : ∃ bss, matchesJ (.obj p) (.obj e.2) = .ok bss := by
        rcases hF e (hsub e (List.mem_cons_self ..)) with hd | h0
        · exact matchesJ_total hp hd
        · exact ⟨[], h0⟩
      obtain ⟨bss, hb⟩ := this
      refine ⟨(if bss.isEmpty then [] else [(e.1, bss)]) :: per, ?_⟩
      rw [List.mapM_cons, hper]
      simp [hb, bind, Except.bind, pure, Except.pure]
  obtain ⟨per, hper⟩ := key (F.filter (fun f => unexpired f.2 now)) (fun e he => (List.mem_filter.1 he).1)
  refine ⟨per.flatten, ?_⟩
  have hfun : (fun (x : String × Obj) => (do
        let bss ← matchesJ (.obj p) (.obj x.2)
        pure (if bss.isEmpty then [] else [(x.1, bss)]) : Except LErr (List (String × List Bs)))) =
      (fun x => match x with | (id, f) => (do
        let bss ← matchesJ (.obj p) (.obj f)
        pure (if bss.isEmpty then [] else [(id, bss)]) : Except LErr (List (String × List Bs)))) := by
    funext x; cases x; rfl
  rw [hfun] at hper
  rw [hper]; rfl

/-! ## the matcher fragment is inside the term-index fragment -/

theorem noVarKeysL_iff : ∀ {xs : List J}, noVarKeysL xs = true ↔ ∀ x ∈ xs, noVarKeys x = true
  | [] => by simp [noVarKeysL]
  | x :: xs => by simp [noVarKeysL, noVarKeysL_iff (xs := xs)]
theorem noVarKeysO_iff : ∀ {kvs : List (String × J)}, noVarKeysO kvs = true ↔
    ∀ kv ∈ kvs, isVar kv.1 = false ∧ noVarKeys kv.2 = true
  | [] => by simp [noVarKeysO]
  | (k, v) :: r => by simp [noVarKeysO, noVarKeysO_iff (kvs := r), and_assoc]
theorem noOptVarsL_iff : ∀ {xs : List J}, noOptVarsL xs = true ↔ ∀ x ∈ xs, noOptVars x = true
  | [] => by simp [noOptVarsL]
  | x :: xs => by simp [noOptVarsL, noOptVarsL_iff (xs := xs)]
theorem noOptVarsO_iff : ∀ {kvs : List (String × J)}, noOptVarsO kvs = true ↔ ∀ kv ∈ kvs, noOptVars kv.2 = true
  | [] => by simp [noOptVarsO]
  | (k, v) :: r => by simp [noOptVarsO, noOptVarsO_iff (kvs := r)]

theorem patOK_noVarKeys_noOptVars : ∀ p : J, patOK p = true → noVarKeys p = true ∧ noOptVars p = true := by
  intro p
  induction p using J.ind' with
  | hnull => intro _; simp [noVarKeys, noOptVars]
  | hbool b => intro _; simp [noVarKeys, noOptVars]
  | hnum n => intro _; simp [noVarKeys, noOptVars]
  | hstr s => intro h; simpa [noVarKeys, noOptVars, patOK] using h
  | harr xs ih =>
    intro h
    simp only [patOK, Bool.and_eq_true] at h
    have hl := patOKL_iff.1 h.2
    simp only [noVarKeys, noOptVars]
    exact ⟨noVarKeysL_iff.2 (fun x hx => (ih x hx (hl x hx)).1), noOptVarsL_iff.2 (fun x hx => (ih x hx (hl x hx)).2)⟩
  | hobj kvs ih =>
    intro h
    simp only [patOK, Bool.and_eq_true, List.all_eq_true, Bool.not_eq_true'] at h
    have hl := patOKO_iff.1 h.2
    simp only [noVarKeys, noOptVars]
    exact ⟨noVarKeysO_iff.2 (fun kv hkv => ⟨h.1 kv hkv, (ih kv hkv (hl kv hkv)).1⟩),
      noOptVarsO_iff.2 (fun kv hkv => (ih kv hkv (hl kv hkv)).2)⟩

/-- a pattern of the matcher fragment (`patOK`) is in the term-index fragment (`TermOK`: no variable keys, no
optional variables) -/
theorem patOK_termOK {p : Obj} (hp : patOK (.obj p) = true) : TermOK p = true := by
  have := patOK_noVarKeys_noOptVars (.obj p) hp
  simp only [noVarKeys, noOptVars] at this
  simp [TermOK, this.1, this.2]

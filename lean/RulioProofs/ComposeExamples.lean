import RulioProofs.ComposeLoc
import RulioProofs.ComposeHist

/-! # A concrete location history on which every hypothesis of the composed theorems holds (non-vacuity)

`cxLoc k`: a fresh location of kind `k` after: `r1` and `r2` added with the `when` `{"likes":["tacos"]}`; `r1`
**replaced** by a rule with the `when` `{"wants":"?x"}`; `r2` **disabled**; a plain fact added; `r3` added and
**overwritten by a plain fact**.  The event `{"wants":"tacos","likes":["chips","tacos"]}` matches the current `when` of `r1` and `r2`
and the former `when` of `r1`. -/

namespace ComposeEx

def rule1 : Obj := [("when", .obj [("pattern", .obj [("wants", .str "?x")])]), ("action", .obj [("code", .str "1")])]
def rule2 : Obj := [("when", .obj [("pattern", .obj [("likes", .arr [.str "tacos"])])]), ("action", .obj [("code", .str "2")])]
def cxOps : List LocOp :=
  [.addRule {} "r1" rule2 0, .addRule {} "r2" rule2 0, .addRule {} "r1" rule1 1, .enableRule {} "r2" false 2,
   .addFact {} "f1" [("have", .str "chips")] 3, .addRule {} "r3" rule1 4, .addFact {} "r3" [("have", .str "salsa")] 5]
def cxLoc (k : Kind) : Loc := (Loc.fresh "home" k).run cxOps
def cxEv : Obj := [("wants", .str "tacos"), ("likes", .arr [.str "chips", .str "tacos"])]

set_option maxRecDepth 100000 in
theorem cx_ids (k : Kind) : (cxLoc k).st.facts.map (·.1) = ["r1", "r2", "!r2.disabled", "f1", "r3"] := by
  cases k <;> decide +kernel

set_option maxRecDepth 100000 in
theorem cx_kind (k : Kind) : (cxLoc k).st.kind = k := by cases k <;> decide +kernel

theorem cx_good (k : Kind) : StGood (cxLoc k).st := stGood_history "home" k cxOps

set_option maxRecDepth 100000 in
theorem cx_noneExpired (k : Kind) : NoneExpired (cxLoc k).st 7 :=
  noneExpired_of_check (by cases k <;> decide +kernel)

set_option maxRecDepth 100000 in
theorem cx_shapes (k : Kind) : RuleShapes (cxLoc k).st := ruleShapes_of_b (by cases k <;> decide +kernel)

set_option maxRecDepth 100000 in
theorem cx_whenFrag (k : Kind) : WhenFrag (cxLoc k).st := whenFrag_of_b (by cases k <;> decide +kernel)

set_option maxRecDepth 100000 in
theorem cx_valid (k : Kind) : RulesValid (cxLoc k).st := rulesValid_of_b (by cases k <;> decide +kernel)

set_option maxRecDepth 100000 in
theorem cx_maps (k : Kind) : RuleMaps (cxLoc k).st := ruleMaps_of_b (by cases k <;> decide +kernel)

theorem cx_ev : EvOK cxEv = true ∧ dataOK (.obj cxEv) = true := by decide +kernel

set_option maxRecDepth 100000 in
theorem cx_guards (k : Kind) : LocP.guardsVerdict {} 7 (cxLoc k) (guardsOf "searchRules") = .ok () := by
  cases k <;> decide +kernel

set_option maxRecDepth 100000 in
theorem cx_disabled (k : Kind) : ruleDisabled (cxLoc k).st.facts "r2" 7 = true ∧ ruleDisabled (cxLoc k).st.facts "r1" 7 = false := by
  cases k <;> decide +kernel

set_option maxRecDepth 100000 in
/-- `r3` is stored, but no longer as a rule -/
theorem cx_r3 (k : Kind) : ∀ f, ("r3", f) ∈ (cxLoc k).st.facts → whenOf f = none := by
  have h : (cxLoc k).st.facts.all (fun e => !(e.1 == "r3") || (whenOf e.2).isNone) = true := by
    cases k <;> decide +kernel
  intro f hf
  have := List.all_eq_true.1 h ("r3", f) hf
  simpa using this

set_option maxRecDepth 100000 in
/-- the instance as a one-location system: right name, no `!.parents` property fact -/
theorem cx_sys (k : Kind) : (cxLoc k).name = "home" ∧ amGet (cxLoc k).st.facts (genPropId "" "parents") = none ∧
    Sys.get? [("home", cxLoc k)] "home" = some (cxLoc k) := by
  refine ⟨by cases k <;> decide +kernel, ?_, by simp [Sys.get?, amGet]⟩
  have h : (amGet (cxLoc k).st.facts (genPropId "" "parents")).isNone = true := by cases k <;> decide +kernel
  exact Option.isNone_iff_eq_none.1 h

theorem cx_idx (k : Kind) : (cxLoc k).st.kind = .indexed →
    IReach (cxLoc k).st ∧ WhenFrag (cxLoc k).st ∧ EvOK cxEv = true ∧ dataOK (.obj cxEv) = true :=
  fun hk => ⟨(cx_good k).2 hk, cx_whenFrag k, cx_ev.1, cx_ev.2⟩

/-- the dispatch specification does not fail on the instance (needed as a hypothesis for the linear kind only) -/
theorem cx_spec (k : Kind) : ∃ out, specDispatchLocal (cxLoc k).st.facts cxEv 7 = .ok out := by
  apply specDispatchLocal_total
  intro e he p hp
  have := cx_whenFrag k e he p hp
  simp only [whenFrag, Bool.and_eq_true] at this
  exact matchesJ_total this.1.2 cx_ev.2

end ComposeEx

import RulioModel.Breaker

/-! # Helper lemmas for C20: Throttle bookkeeping and the capacity gate -/

open Gen.C20

/-! ## Throttle -/

/-- `pending` is exactly the number of submitters between the increment and the decrement, and at most
`pendingLimit + 1` of them exist — whatever `Disable` calls are interleaved -/
structure TInv (t : Thr) : Prop where
  eq : t.pending = t.waiting
  bound : t.waiting ≤ t.pendingLimit + 1

theorem waiting_set_of_idle (t : Thr) (tid : Nat) (pc : SPc) (h : t.pcs[tid]? = some .idle) :
    (t.pcs.set tid pc).count .waiting = t.pcs.count .waiting + (if pc = .waiting then 1 else 0) := by
  obtain ⟨hlt, hget⟩ := List.getElem?_eq_some_iff.mp h
  rw [List.count_set hlt, hget]
  cases pc <;> simp

theorem waiting_set_of_waiting (t : Thr) (tid : Nat) (h : t.pcs[tid]? = some .waiting) :
    (t.pcs.set tid .done).count .waiting + 1 = t.pcs.count .waiting := by
  obtain ⟨hlt, hget⟩ := List.getElem?_eq_some_iff.mp h
  have hpos : 0 < t.pcs.count .waiting := List.count_pos_iff.mpr (List.mem_of_getElem? h)
  rw [List.count_set hlt, hget]
  simp
  omega

/-- **tie to the generated guard of `t.pending++`**: it is the negation of the test that makes `Submit` return
`ThrottleOverflow` — the increment happens exactly for the submissions that go on to the loop (and the decrement) -/
theorem incr_iff_not_overflow (too disabled : Bool) : incrGuard too disabled = !overflowReturns too := by
  cases too <;> cases disabled <;> rfl

theorem step_inv (t : Thr) (tid : Nat) (h : TInv t) : TInv (t.step tid) := by
  unfold Thr.step
  split
  · rename_i hidle
    have hw := waiting_set_of_idle t tid
    have heq := h.eq
    have hb := h.bound
    unfold Thr.waiting at heq hb
    unfold Thr.enter
    simp only [incr_iff_not_overflow]
    simp only [tooMany, overflowReturns]
    by_cases htoo : t.pendingLimit < t.pending
    · -- overflow: nobody starts waiting and `pending` is not touched
      have := hw .overflow hidle
      simp only [htoo, decide_true, Bool.not_true, Bool.false_eq_true, if_false, if_true]
      constructor
      · show t.pending = (t.pcs.set tid .overflow).count .waiting
        rw [this]; simp; exact heq
      · show (t.pcs.set tid .overflow).count .waiting ≤ _
        rw [this]; simp; exact hb
    · have := hw .waiting hidle
      simp only [htoo, decide_false, Bool.not_false, if_true, Bool.false_eq_true, if_false]
      constructor
      · show t.pending + 1 = (t.pcs.set tid .waiting).count .waiting
        rw [this]; simp; exact heq
      · show (t.pcs.set tid .waiting).count .waiting ≤ t.pendingLimit + 1
        rw [this]; simp; omega
  · rename_i hwait
    have := waiting_set_of_waiting t tid hwait
    have h1 := h.eq
    have h2 := h.bound
    unfold Thr.waiting at h1 h2
    unfold Thr.exit
    simp only [exitDecrement]
    constructor
    · show t.pending - 1 = (t.pcs.set tid .done).count .waiting
      omega
    · show (t.pcs.set tid .done).count .waiting ≤ t.pendingLimit + 1
      omega
  · exact h

theorem ev_inv (t : Thr) (e : Thr.Ev) (h : TInv t) : TInv (t.ev e) := by
  cases e with
  | sub tid => exact step_inv t tid h
  | setDisabled b => exact ⟨h.eq, h.bound⟩
  | spawn =>
    have h1 := h.eq
    have h2 := h.bound
    unfold Thr.waiting at h1 h2
    constructor
    · show t.pending = (t.pcs ++ [SPc.idle]).count .waiting
      rw [List.count_append]; simp; exact h1
    · show (t.pcs ++ [SPc.idle]).count .waiting ≤ t.pendingLimit + 1
      rw [List.count_append]; simp; exact h2

theorem exec_inv (t : Thr) (es : List Thr.Ev) (h : TInv t) : TInv (t.exec es) := by
  induction es generalizing t with
  | nil => exact h
  | cons e es ih => exact ih _ (ev_inv t e h)

theorem ev_pendingLimit (t : Thr) (e : Thr.Ev) : (t.ev e).pendingLimit = t.pendingLimit := by
  cases e with
  | sub tid => simp only [Thr.ev, Thr.step]; split <;> rfl
  | setDisabled b => rfl
  | spawn => rfl

theorem exec_pendingLimit (t : Thr) (es : List Thr.Ev) : (t.exec es).pendingLimit = t.pendingLimit := by
  induction es generalizing t with
  | nil => rfl
  | cons e es ih => simp only [Thr.exec]; rw [ih, ev_pendingLimit]

theorem start_inv (limit : Nat) (d : Bool) (n : Nat) : TInv (Thr.start limit d n) := by
  constructor <;> simp [Thr.start, Thr.waiting, List.count_replicate]

/-! ## the retry loop -/

theorem submitLoop_go_once (attempts i : Nat) (st : List BKind) (fuel : Nat)
    (hf : ∀ k ∈ st, k.faithful = true) :
    (submitLoop.go attempts i st fuel).1 = (if (submitLoop.go attempts i st fuel).2 then 1 else 0) := by
  induction st generalizing i fuel with
  | nil => cases fuel <;> simp [submitLoop.go]
  | cons k st ih =>
    cases fuel with
    | zero => simp [submitLoop.go]
    | succ fuel =>
      have hk := hf k (List.mem_cons_self ..)
      have ih' := ih (i + 1) fuel (fun k' h' => hf k' (List.mem_cons_of_mem _ h'))
      simp only [BKind.faithful, beq_iff_eq] at hk
      simp only [submitLoop.go, loopBreaksOnWorked, Bool.and_true]
      split
      · cases h2 : k.doF.2
        · rw [h2] at hk
          simp [hk, ih']
        · rw [h2] at hk
          simp [hk]
      · simp

/-! ## capacity -/

theorem put_length_le (st : List (String × String)) (id v : String) : (Cap.put st id v).length ≤ st.length + 1 := by
  unfold Cap.put
  split <;> simp

theorem filter_length_le' (st : List (String × String)) (p : String × String → Bool) : (st.filter p).length ≤ st.length :=
  List.length_filter_le _ _

/-- a gated add or a removal keeps `count ≤ max` -/
theorem cap_step_le (c : Cap) (o : CapOp) (hp : Cap.CapOp.public o = true) (h : (c.count : Int) ≤ c.maxFacts) :
    (((c.step o).1.count : Nat) : Int) ≤ (c.step o).1.maxFacts ∧ (c.step o).1.maxFacts = c.maxFacts := by
  cases o with
  | addFact id v =>
    simp only [Cap.step, addFactGated, atCapacity, Bool.true_and]
    by_cases hc : c.maxFacts ≤ (c.count : Int)
    · simp [hc, h]
    · simp only [hc, decide_false, Bool.false_eq_true, if_false, and_true]
      have := put_length_le c.store id v
      unfold Cap.count at *
      simp only []
      omega
  | addRule id v =>
    simp only [Cap.step, addRuleGated, atCapacity, Bool.true_and]
    by_cases hc : c.maxFacts ≤ (c.count : Int)
    · simp [hc, h]
    · simp only [hc, decide_false, Bool.false_eq_true, if_false, and_true]
      have := put_length_le c.store id v
      unfold Cap.count at *
      simp only []
      omega
  | rem id =>
    simp only [Cap.step]
    split
    · have := filter_length_le' c.store (fun kv => kv.1 != id)
      unfold Cap.count at *
      simp only [and_true]
      omega
    · exact ⟨h, rfl⟩
  | setProp id v => simp [Cap.CapOp.public] at hp

theorem cap_exec_le (c : Cap) (os : List CapOp) (hp : ∀ o ∈ os, Cap.CapOp.public o = true)
    (h : (c.count : Int) ≤ c.maxFacts) : (((c.exec os).count : Nat) : Int) ≤ c.maxFacts := by
  induction os generalizing c with
  | nil => exact h
  | cons o os ih =>
    have hs := cap_step_le c o (hp o (List.mem_cons_self ..)) h
    simp only [Cap.exec]
    have := ih (c.step o).1 (fun o' h' => hp o' (List.mem_cons_of_mem _ h')) hs.1
    rw [hs.2] at this
    exact this

/-- every status of a SimpleBreaker is faithful since `Do` reports `Closed || Disabled`, which is when it runs `f` -/
theorem simple_faithful (closed disabled : Bool) : (BKind.simple closed disabled).faithful = true := by
  cases closed <;> cases disabled <;> decide

/-- a disabled, open SimpleBreaker: the first attempt runs the function and reports it, the loop ends -/
theorem simple_disabled_once (attempts : Nat) (h : 0 < attempts) :
    submitLoop attempts (List.replicate attempts (.simple false true)) = (1, true) := by
  obtain ⟨m, rfl⟩ : ∃ m, attempts = m + 1 := ⟨attempts - 1, by omega⟩
  simp [submitLoop, List.replicate_succ, submitLoop.go, loopCond, BKind.doF, simpleRuns, simpleAttempted, loopBreaksOnWorked]

import RulioProofs.C13
import RulioProofs.StateFrame

/-! # C13 — away from the enumerated sites nothing panics (state level) -/

namespace C13

/-- no stored fact can make `GetRulePatterns` panic -/
def WOK (s : St) : Prop := ∀ e, e ∈ s.facts → whenOK e.2 = true

theorem WOK.le {s s' : St} (h : WOK s) (hle : StLe s s') : WOK s' :=
  fun e he => h e (hle.facts.subset he)

/-- result is not the panic error -/
def NP {α β} (r : α × Except LErr β) : Prop := r.2 ≠ .error "panic"

theorem perr_ne_panic (e : PErr) : perr e ≠ "panic" := by cases e <;> decide
theorem merr_ne_panic (e : MErr) : merr e ≠ "panic" := by cases e <;> decide

theorem matchesJ_err_ne_panic {p d : J} {e : LErr} (h : matchesJ p d = .error e) : e ≠ "panic" := by
  unfold matchesJ at h
  split at h
  · simp at h
  · simp only [Except.error.injEq] at h
    rw [← h]; exact merr_ne_panic _

theorem map_np {α β} {r : Except LErr α} {g : α → β} (h : r ≠ .error "panic") : r.map g ≠ .error "panic" := by
  cases r with
  | error e => intro h'; apply h; simpa [Except.map] using h'
  | ok a => simp [Except.map]

theorem getRulePattern_set_expires (r : Obj) (v : J) : getRulePattern (Obj.set r "expires" v) = getRulePattern r := by
  unfold getRulePattern
  rw [get?_set_ne r "when" "expires" v (by decide)]

/-- the rule `extractRule` hands out has the `when` of the stored rule body -/
theorem extractRule_when {fact : Obj} {req : Bool} {r fact' : Obj} (h : extractRule fact req = .ok (some r, fact'))
    (hw : whenOK fact = true) : ∀ e, getRulePattern r ≠ .error e := by
  unfold extractRule at h
  unfold whenOK at hw
  split at h
  · rename_i r0 hr
    rw [hr] at hw
    simp only at hw
    split at h
    · simp only [Except.ok.injEq, Prod.mk.injEq, Option.some.injEq] at h
      rw [← h.1, getRulePattern_set_expires]
      intro e he; rw [he] at hw; simp at hw
    · simp only [Except.ok.injEq, Prod.mk.injEq, Option.some.injEq] at h
      rw [← h.1]
      intro e he; rw [he] at hw; simp at hw
  · split at h <;> simp at h
  · split at h <;> simp at h

theorem unindexRule_np {s : St} {id : String} {r : Obj} (h : ∀ e, getRulePattern r ≠ .error e) :
    s.unindexRule id r ≠ .error "panic" := by
  unfold St.unindexRule
  cases hg : getRulePattern r with
  | error e => exact absurd hg (h e)
  | ok p =>
    simp only [bind, Except.bind]
    cases p with
    | none => simp [pure, Except.pure]
    | some pat =>
      simp only
      split
      · rename_i e _
        intro h'
        simp only [Except.error.injEq] at h'
        exact perr_ne_panic _ h'
      · simp [pure, Except.pure]

theorem unindexOf_np {s : St} {id : String} {fact : Obj} (hw : whenOK fact = true) :
    s.unindexOf id fact ≠ .error "panic" := by
  unfold St.unindexOf
  cases he : extractRule fact false with
  | error e => simp
  | ok p =>
    rcases p with ⟨r?, fact'⟩
    cases r? with
    | none => simp
    | some r => exact unindexRule_np (extractRule_when he hw)

theorem cands_ne_panic (s : St) (p : Obj) : s.cands p ≠ .error "panic" := by
  unfold St.cands
  split
  · simp
  · unfold TI.search
    split
    · intro h; simp only [Except.error.injEq] at h; exact absurd h (by decide)
    · simp

/-- the indexed `rem` / `search` family never panics on a state whose stored rules have a sound `when` -/
theorem inp (now : Int) : ∀ f : Nat,
    (∀ s id, WOK s → NP (St.irem f s id now)) ∧
    (∀ s id, WOK s → NP (St.ideps f s id now)) ∧
    (∀ s ids, WOK s → NP (St.iremAll f s ids now)) ∧
    (∀ s p, WOK s → NP (St.isearch f s p now)) ∧
    (∀ s p ids acc, WOK s → NP (St.isearchLoop f s p ids now acc)) := by
  intro f
  induction f with
  | zero =>
    refine ⟨?_, ?_, ?_, ?_, ?_⟩ <;> intros <;> (unfold NP; intro h; simp only [St.irem_zero, St.ideps_zero, St.iremAll_zero, St.isearch_zero, St.isearchLoop_zero, Except.error.injEq] at h; exact absurd h (by decide))
  | succ f ih =>
    obtain ⟨ih1, ih2, ih3, ih4, ih5⟩ := ih
    have fr := iframe now f
    have h5 : ∀ s p ids acc, WOK s → NP (St.isearchLoop (f + 1) s p ids now acc) := by
      intro s p ids acc hw
      cases ids with
      | nil => rw [St.isearchLoop_nil]; unfold NP; simp
      | cons i rest =>
        rw [St.isearchLoop_cons]
        cases amGet s.facts i with
        | none => exact ih5 _ _ _ _ hw
        | some fact =>
          simp only
          split
          · exact ih5 _ _ _ _ (hw.le (fr.1 s i))
          · split
            · rename_i e he
              unfold NP; intro h; simp only [Except.error.injEq] at h
              exact matchesJ_err_ne_panic he h
            · exact ih5 _ _ _ _ hw
    have h4 : ∀ s p, WOK s → NP (St.isearch (f + 1) s p now) := by
      intro s p hw
      rw [St.isearch_succ]
      split
      · rename_i e he
        unfold NP; intro h; simp only [Except.error.injEq] at h
        exact cands_ne_panic s p (by rw [he, h])
      · exact ih5 _ _ _ _ hw
    have h3 : ∀ s ids, WOK s → NP (St.iremAll (f + 1) s ids now) := by
      intro s ids hw
      cases ids with
      | nil => rw [St.iremAll_nil]; unfold NP; simp
      | cons i rest =>
        rw [St.iremAll_cons]
        split
        · rename_i e he
          unfold NP; intro h; simp only [Except.error.injEq] at h
          exact ih1 s i hw (by rw [he, h])
        · exact ih3 _ _ (hw.le (fr.1 s i))
    have h2 : ∀ s id, WOK s → NP (St.ideps (f + 1) s id now) := by
      intro s id hw
      rw [St.ideps_succ]
      split
      · unfold NP; simp
      · split
        · rename_i e he
          unfold NP; intro h; simp only [Except.error.injEq] at h
          exact ih4 s _ hw (by rw [he, h])
        · exact ih3 _ _ (hw.le (fr.2.2.2.1 s _))
    have h1 : ∀ s id, WOK s → NP (St.irem (f + 1) s id now) := by
      intro s id hw
      rw [St.irem_succ]
      split
      · rename_i fact hg
        split
        · rename_i e he
          unfold NP; intro h; simp only [Except.error.injEq] at h
          have hwf : whenOK fact = true := hw (id, fact) (amGet_some_mem hg)
          exact unindexOf_np hwf (by rw [he, h])
        · rename_i s1 hu
          unfold NP
          exact map_np (ih2 _ _ (hw.le (idel_le (unindexOf_same hu) id fact)))
      · unfold NP
        exact map_np (ih2 _ _ hw)
    exact ⟨h1, h2, h3, h4, h5⟩

/-! ## the panic-propagating loops of the wrapper model -/

theorem isearchLoopP_zero (s : St) (p : Obj) (ids : List String) (now : Int) (acc) :
    isearchLoopP 0 s p ids now acc = (s, .error "fuel") := rfl
theorem isearchLoopP_nil (f : Nat) (s : St) (p : Obj) (now : Int) (acc) :
    isearchLoopP (f + 1) s p [] now acc = (s, .ok acc) := rfl

theorem isearchLoopP_cons (f : Nat) (s : St) (p : Obj) (i : String) (rest : List String) (now : Int) (acc) :
    isearchLoopP (f + 1) s p (i :: rest) now acc =
      match amGet s.facts i with
      | none => isearchLoopP f s p rest now acc
      | some fact =>
        match checkExpiration fact now with
        | .ok true =>
          (match (St.irem f s i now).2 with
           | .error e => if e == "panic" then ((St.irem f s i now).1, .error e) else isearchLoopP f (St.irem f s i now).1 p rest now acc
           | .ok _ => isearchLoopP f (St.irem f s i now).1 p rest now acc)
        | _ => match matchesJ (.obj p) (.obj fact) with
          | .error e => (s, .error e)
          | .ok bss => isearchLoopP f s p rest now (if bss.isEmpty then acc else acc ++ [(i, fact, bss)]) := by
  rw [isearchLoopP]
  cases hg : amGet s.facts i with
  | none => rfl
  | some fact =>
    simp only
    rcases checkExpiration fact now with e | b
    · rfl
    · cases b
      · rfl
      · simp only
        rcases St.irem f s i now with ⟨s1, r | r⟩ <;> rfl

theorem ne_panic_of_fuel : ("fuel" : LErr) ≠ "panic" := by decide

theorem isearchLoopP_le (now : Int) (p : Obj) : ∀ (f : Nat) (s : St) (ids : List String) (acc),
    StLe s (isearchLoopP f s p ids now acc).1 := by
  intro f
  induction f with
  | zero => intros; exact StLe.refl _
  | succ f ih =>
    intro s ids acc
    cases ids with
    | nil => exact StLe.refl _
    | cons i rest =>
      rw [isearchLoopP_cons]
      have hle : StLe s (St.irem f s i now).1 := (iframe now f).1 s i
      cases amGet s.facts i with
      | none => exact ih _ _ _
      | some fact =>
        simp only
        split
        · split
          · split
            · exact hle
            · exact hle.trans (ih _ _ _)
          · exact hle.trans (ih _ _ _)
        · split
          · exact StLe.refl _
          · exact ih _ _ _

theorem isearchLoopP_np (now : Int) (p : Obj) : ∀ (f : Nat) (s : St) (ids : List String) (acc), WOK s →
    NP (isearchLoopP f s p ids now acc) := by
  intro f
  induction f with
  | zero => intro s ids acc _; unfold NP; rw [isearchLoopP_zero]; intro h; simp only [Except.error.injEq] at h; exact ne_panic_of_fuel h
  | succ f ih =>
    intro s ids acc hw
    cases ids with
    | nil => unfold NP; rw [isearchLoopP_nil]; simp
    | cons i rest =>
      rw [isearchLoopP_cons]
      have hle : StLe s (St.irem f s i now).1 := (iframe now f).1 s i
      have hnp : (St.irem f s i now).2 ≠ .error "panic" := (inp now f).1 s i hw
      cases amGet s.facts i with
      | none => exact ih _ _ _ hw
      | some fact =>
        simp only
        split
        · split
          · rename_i e he
            split
            · rename_i hp
              have : e = "panic" := by simpa using hp
              exact absurd (by rw [he, this]) hnp
            · exact ih _ _ _ (hw.le hle)
          · exact ih _ _ _ (hw.le hle)
        · split
          · rename_i e he
            unfold NP; intro h; simp only [Except.error.injEq] at h
            exact matchesJ_err_ne_panic he h
          · exact ih _ _ _ hw

theorem isearchP_le (s : St) (p : Obj) (now : Int) : StLe s (isearchP s p now).1 := by
  unfold isearchP
  split
  · exact StLe.refl _
  · simp only
    split
    · exact StLe.refl _
    · exact isearchLoopP_le now p _ _ _ _

theorem isearchP_np (s : St) (p : Obj) (now : Int) (hw : WOK s) : NP (isearchP s p now) := by
  unfold isearchP
  split
  · unfold NP; intro h; simp only [Except.error.injEq] at h; exact ne_panic_of_fuel h
  · simp only
    split
    · rename_i e he
      unfold NP; intro h; simp only [Except.error.injEq] at h
      exact cands_ne_panic s p (by unfold St.cands; rw [he, h])
    · exact isearchLoopP_np now p _ _ _ _ hw

theorem ifindLoopP_zero (now : Int) (s : St) (ids : List String) (acc) : ifindLoopP now 0 s ids acc = (s, .error "fuel") := rfl
theorem ifindLoopP_nil (now : Int) (f : Nat) (s : St) (acc) : ifindLoopP now (f + 1) s [] acc = (s, .ok acc) := rfl
theorem ifindLoopP_cons (now : Int) (f : Nat) (s : St) (i : String) (rest : List String) (acc) :
    ifindLoopP now (f + 1) s (i :: rest) acc =
      match checkExpiration ((amGet s.facts i).getD []) now with
      | .ok true =>
        (match (St.irem s.fuel s i now).2 with
         | .error e => if e == "panic" then ((St.irem s.fuel s i now).1, .error e) else ifindLoopP now f (St.irem s.fuel s i now).1 rest acc
         | .ok _ => ifindLoopP now f (St.irem s.fuel s i now).1 rest acc)
      | _ =>
        match amGet s.facts i with
        | none => (s, .error "lostRule")
        | some fct =>
          match extractRule fct true with
          | .error e => (s, .error e)
          | .ok (some body, _) => ifindLoopP now f s rest (acc ++ [(i, body)])
          | .ok (none, _) => (s, .error "ruleBodyMissing") := by
  rw [ifindLoopP]
  rcases checkExpiration ((amGet s.facts i).getD []) now with e | b
  · rfl
  · cases b
    · rfl
    · simp only
      rcases St.irem s.fuel s i now with ⟨s1, r | r⟩ <;> rfl

theorem extractRule_err_ne_panic {fact : Obj} {req : Bool} {e : LErr} (h : extractRule fact req = .error e) : e ≠ "panic" := by
  unfold extractRule at h
  repeat' split at h
  all_goals (simp only [Except.error.injEq, reduceCtorEq] at h)
  all_goals (rw [← h]; decide)

theorem ifindLoopP_le (now : Int) : ∀ (f : Nat) (s : St) (ids : List String) (acc), StLe s (ifindLoopP now f s ids acc).1 := by
  intro f
  induction f with
  | zero => intros; exact StLe.refl _
  | succ f ih =>
    intro s ids acc
    cases ids with
    | nil => exact StLe.refl _
    | cons i rest =>
      rw [ifindLoopP_cons]
      have hle : StLe s (St.irem s.fuel s i now).1 := (iframe now s.fuel).1 s i
      split
      · split
        · split
          · exact hle
          · exact hle.trans (ih _ _ _)
        · exact hle.trans (ih _ _ _)
      · split
        · exact StLe.refl _
        · split
          · exact StLe.refl _
          · exact ih _ _ _
          · exact StLe.refl _

theorem ifindLoopP_np (now : Int) : ∀ (f : Nat) (s : St) (ids : List String) (acc), WOK s → NP (ifindLoopP now f s ids acc) := by
  intro f
  induction f with
  | zero => intro s ids acc _; unfold NP; rw [ifindLoopP_zero]; intro h; simp only [Except.error.injEq] at h; exact ne_panic_of_fuel h
  | succ f ih =>
    intro s ids acc hw
    cases ids with
    | nil => unfold NP; rw [ifindLoopP_nil]; simp
    | cons i rest =>
      rw [ifindLoopP_cons]
      have hle : StLe s (St.irem s.fuel s i now).1 := (iframe now s.fuel).1 s i
      have hnp : (St.irem s.fuel s i now).2 ≠ .error "panic" := (inp now s.fuel).1 s i hw
      split
      · split
        · rename_i e he
          split
          · rename_i hp
            have : e = "panic" := by simpa using hp
            exact absurd (by rw [he, this]) hnp
          · exact ih _ _ _ (hw.le hle)
        · exact ih _ _ _ (hw.le hle)
      · split
        · unfold NP; intro h; simp only [Except.error.injEq] at h; exact absurd h (by decide)
        · split
          · rename_i e he
            unfold NP; intro h; simp only [Except.error.injEq] at h
            exact extractRule_err_ne_panic he h
          · exact ih _ _ _ hw
          · unfold NP; intro h; simp only [Except.error.injEq] at h; exact absurd h (by decide)

theorem ifindRulesP_le (s : St) (ev : Obj) (now : Int) : StLe s (ifindRulesP s ev now).1 := by
  unfold ifindRulesP
  split
  · exact StLe.refl _
  · exact ifindLoopP_le now _ _ _ _

theorem ifindRulesP_np (s : St) (ev : Obj) (now : Int) (hw : WOK s) : NP (ifindRulesP s ev now) := by
  unfold ifindRulesP
  split
  · unfold NP; intro h; simp only [Except.error.injEq] at h; exact perr_ne_panic _ h
  · exact ifindLoopP_np now _ _ _ _ hw

/-- indexed state: remove, search and rule search never panic when every stored rule body has a sound `when`, and they
keep that invariant (they only delete facts) -/
theorem indexed_np (s : St) (now : Int) (hk : s.kind = .indexed) (hw : WOK s) :
    (∀ id, (s.rem id now).2 ≠ .error "panic" ∧ WOK (s.rem id now).1) ∧
    (∀ p, (searchK s p now).2 ≠ .error "panic" ∧ WOK (searchK s p now).1) ∧
    (∀ ev, (findRulesK s ev now).2 ≠ .error "panic" ∧ WOK (findRulesK s ev now).1) := by
  refine ⟨fun id => ?_, fun p => ?_, fun ev => ?_⟩
  · unfold St.rem; rw [hk]
    exact ⟨(inp now s.fuel).1 s id hw, hw.le ((iframe now s.fuel).1 s id)⟩
  · unfold searchK; rw [hk]
    exact ⟨isearchP_np s p now hw, hw.le (isearchP_le s p now)⟩
  · unfold findRulesK; rw [hk]
    exact ⟨ifindRulesP_np s ev now hw, hw.le (ifindRulesP_le s ev now)⟩

end C13

import RulioProofs.C13

/-! # C13 — away from the enumerated sites nothing panics (every public operation, both states, any store) -/

namespace C13

/-- every operation except the non-inherited `ListRules`, on a serving location whose State method bodies do not panic:
no panic, no hang, and the location stays such a location -/
theorem run_clean (op : PubOp) (k : KLoc) (h : Serving k) (hf : FaultFree k) (hop : op.localList = false) :
    (run op k).2.isPanic = false ∧ (run op k).2.isHang = false ∧ Serving (run op k).1 ∧ FaultFree (run op k).1 := by
  have := sat_run (cleanSpec (fun _ => False)) op (Or.inr (Or.inr hop)) k ⟨h, hf⟩
  refine ⟨?_, this.1, this.2.2 (Or.inr rfl)⟩
  rcases hr : (run op k).2 with _ | _ | s | _ <;> simp [Res.isPanic]
  exact this.2.1 rfl s hr

/-- every public operation on a serving location whose State method bodies do not panic: it answers, the location stays
such a location, and the only panic is the nil dereference of the non-inherited `ListRules` -/
theorem run_no_panic_off_sites (op : PubOp) (k : KLoc) (h : Serving k) (hf : FaultFree k) :
    (run op k).2.isHang = false ∧ Serving (run op k).1 ∧ FaultFree (run op k).1 ∧
    (∀ site, (run op k).2 = .panic site → site = .listRulesNil ∧ op.localList = true) := by
  have := sat_run (cleanSpec (fun s => s = .listRulesNil)) op (Or.inr (Or.inl rfl)) k ⟨h, hf⟩
  refine ⟨this.1, (this.2.2 (Or.inr rfl)).1, (this.2.2 (Or.inr rfl)).2, fun site hs => ⟨this.2.1 rfl site hs, ?_⟩⟩
  cases hop : op.localList with
  | true => rfl
  | false =>
    have h2 := (run_clean op k h hf hop).1
    rw [hs] at h2
    exact absurd h2 (by simp [Res.isPanic])

end C13

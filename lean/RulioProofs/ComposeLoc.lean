import RulioModel.ComposeFrag
import RulioProofs.ComposeState
import RulioProofs.ComposeIdx
import RulioProofs.ComposeSearch
import RulioProofs.LocLife
import RulioProofs.Events

/-! # Composition, location side: an event fires exactly the live, matching, enabled rules -/

set_option linter.unusedVariables false
set_option linter.unusedSimpArgs false

open QSpec EventsProofs

/-- `RuleFromMap` keeps the `when` pattern: a body whose `when` is a map with a map under `pattern` is parsed into
a rule whose pattern is that map -/
theorem ruleFromMap_when {body : Obj} {rm : RuleM} (h : ruleFromMap body = .ok rm) {w p : Obj}
    (hw : body.get? "when" = some (.obj w)) (hp : Obj.get? w "pattern" = some (.obj p)) : rm.when? = some p := by
  revert rm
  unfold ruleFromMap
  simp only [hw, hp, bind, Except.bind, pure, Except.pure]
  repeat' (first | (intro rm h; cases h; done) | (intro rm h; injection h with h; subst h; rfl) | split)

/-! ## the `when` pattern of a stored rule, three ways: `whenOf` (specification), `ExtractRule` + `RuleFromMap`
(what the event walk re-matches), the linear scan -/

theorem whenOf_some {f p : Obj} (h : whenOf f = some p) :
    ∃ r w, f.get? "rule" = some (.obj r) ∧ Obj.has r "schedule" = false ∧ Obj.get? r "when" = some (.obj w) ∧
      (Obj.get? w "pattern" = some (.obj p) ∨ (Obj.get? w "pattern" = none ∧ p = w)) := by
  unfold whenOf at h
  cases hr : f.get? "rule" with
  | none => simp [hr] at h
  | some rv =>
    cases rv with
    | obj r =>
      simp only [hr] at h
      by_cases hs : Obj.has r "schedule" = true
      · simp [hs] at h
      · have hs' : Obj.has r "schedule" = false := by simpa using hs
        simp only [hs', Bool.false_eq_true, if_false] at h
        cases hw : Obj.get? r "when" with
        | none => simp [hw] at h
        | some wv =>
          cases wv with
          | obj w =>
            simp only [hw] at h
            cases hp : Obj.get? w "pattern" with
            | none =>
              simp only [hp, Option.some.injEq] at h
              exact ⟨r, w, rfl, hs', hw, Or.inr ⟨hp, h.symm⟩⟩
            | some pv =>
              cases pv with
              | obj p' =>
                simp only [hp, Option.some.injEq] at h
                subst h
                exact ⟨r, w, rfl, hs', hw, Or.inl hp⟩
              | _ => simp [hp] at h
          | _ => simp [hw] at h
    | _ => simp [hr] at h

theorem whenOf_of_parts {f r w p : Obj} (hr : f.get? "rule" = some (.obj r)) (hs : Obj.has r "schedule" = false)
    (hw : Obj.get? r "when" = some (.obj w)) (hp : Obj.get? w "pattern" = some (.obj p)) : whenOf f = some p := by
  unfold whenOf
  simp [hr, hs, hw, hp]

/-- in a rule body of the documented shape the `when` map carries a pattern and there is no `schedule` key -/
theorem shape_parts {r w : Obj} (hs : ruleShapeOK r = true) (hw : Obj.get? r "when" = some (.obj w)) :
    Obj.has r "schedule" = false ∧ ∃ p, Obj.get? w "pattern" = some (.obj p) := by
  unfold ruleShapeOK at hs
  simp only [hw, Bool.and_eq_true, Bool.not_eq_true'] at hs
  refine ⟨hs.1, ?_⟩
  cases hp : Obj.get? w "pattern" with
  | none => simp [hp] at hs
  | some pv =>
    cases pv with
    | obj p => exact ⟨p, rfl⟩
    | _ => simp [hp] at hs

/-- the body `ExtractRule` hands out is the stored rule map, possibly with `expires` set: same `when` -/
theorem extractRule_true_ok {f body f' : Obj} (h : extractRule f true = .ok (some body, f')) :
    ∃ r, f.get? "rule" = some (.obj r) ∧ Obj.get? body "when" = Obj.get? r "when" := by
  unfold extractRule at h
  cases hr : f.get? "rule" with
  | none => simp [hr] at h
  | some rv =>
    cases rv with
    | obj r =>
      simp only [hr] at h
      cases he : f.get? "expires" with
      | none =>
        simp only [he, Except.ok.injEq, Prod.mk.injEq, Option.some.injEq] at h
        obtain ⟨rfl, _⟩ := h
        exact ⟨_, rfl, rfl⟩
      | some e =>
        simp only [he, Except.ok.injEq, Prod.mk.injEq, Option.some.injEq] at h
        obtain ⟨rfl, _⟩ := h
        refine ⟨r, rfl, ?_⟩
        rw [PI.get_set]; simp
    | null | bool _ | num _ | str _ | arr _ => simp [hr] at h

theorem extractRule_true_of_rule {f r : Obj} (hr : f.get? "rule" = some (.obj r)) :
    ∃ body f', extractRule f true = .ok (some body, f') := by
  unfold extractRule
  simp only [hr]
  cases f.get? "expires" with
  | none => exact ⟨_, _, rfl⟩
  | some e => exact ⟨_, _, rfl⟩

/-! ## the dispatch specification: totality and distinct ids -/

theorem specDispatchLocal_total {facts : List (String × Obj)} {ev : Obj} {now : Int}
    (h : ∀ e, e ∈ facts → ∀ p, whenOf e.2 = some p → ∃ bss, matchesJ (.obj p) (.obj ev) = .ok bss) :
    ∃ out, specDispatchLocal facts ev now = .ok out := by
  have key : ∀ (g : String × Obj → Except LErr (List (String × List Bs))) (L : List (String × Obj)),
      (∀ e ∈ L, ∃ r, g e = .ok r) → ∀ e', L.mapM g ≠ .error e' := by
    intro g L hall e' he'
    obtain ⟨rs, hrs⟩ := PI.mapM_ok_of_all g L hall
    rw [hrs] at he'; cases he'
  unfold specDispatchLocal
  simp only [bind, Except.bind]
  split
  · rename_i e herr
    refine absurd herr (key _ _ ?_ _)
    intro e he
    obtain ⟨id, f⟩ := e
    have hmem := (List.mem_filter.1 he).1
    dsimp only
    cases hw : whenOf f with
    | none => exact ⟨[], rfl⟩
    | some pat =>
      obtain ⟨bss, hb⟩ := h (id, f) hmem pat hw
      dsimp only
      rw [hb]
      exact ⟨_, rfl⟩
  · exact ⟨_, rfl⟩

theorem mapM_flatten_keys {β : Type} (g : String × Obj → Except LErr (List (String × β)))
    (hg : ∀ x r, g x = .ok r → r = [] ∨ ∃ b, r = [(x.1, b)]) :
    ∀ (xs : List (String × Obj)) (per : List (List (String × β))), xs.mapM g = .ok per →
      (per.flatten.map (·.1)).Sublist (xs.map (·.1)) := by
  intro xs
  induction xs with
  | nil =>
    intro per h
    simp only [List.mapM_nil, pure, Except.pure, Except.ok.injEq] at h
    subst h; simp
  | cons x xs ih =>
    intro per h
    rw [List.mapM_cons] at h
    cases hx : g x with
    | error e => rw [hx] at h; cases h
    | ok r =>
      rw [hx] at h
      cases hxs : xs.mapM g with
      | error e => rw [hxs] at h; cases h
      | ok rest =>
        rw [hxs] at h
        simp only [bind, Except.bind, pure, Except.pure, Except.ok.injEq] at h
        subst h
        rw [List.flatten_cons, List.map_append, List.map_cons]
        rcases hg x r hx with rfl | ⟨b, rfl⟩
        · simpa using (ih rest hxs).cons x.1
        · simpa using (ih rest hxs).cons_cons x.1

/-- the ids of the dispatch specification are ids of stored facts, in order: pairwise distinct -/
theorem specDispatchLocal_ids {facts : List (String × Obj)} {ev : Obj} {now : Int} {out : List (String × List Bs)}
    (h : specDispatchLocal facts ev now = .ok out) : (out.map (·.1)).Sublist (facts.map (·.1)) := by
  unfold specDispatchLocal at h
  simp only [bind, Except.bind] at h
  split at h
  · cases h
  · rename_i per hper
    simp only [pure, Except.pure, Except.ok.injEq] at h
    subst h
    refine (mapM_flatten_keys _ ?_ _ per hper).trans ((List.filter_sublist).map _)
    intro x r hr
    obtain ⟨id, f⟩ := x
    dsimp only at hr
    cases hw : whenOf f with
    | none => rw [hw] at hr; simp only [pure, Except.pure, Except.ok.injEq] at hr; exact Or.inl hr.symm
    | some pat =>
      rw [hw] at hr
      dsimp only at hr
      cases hm : matchesJ (.obj pat) (.obj ev) with
      | error e => rw [hm] at hr; cases hr
      | ok bss =>
        rw [hm] at hr
        simp only [bind, Except.bind, pure, Except.pure, Except.ok.injEq] at hr
        subst hr
        by_cases he : bss.isEmpty = true
        · exact Or.inl (by rw [if_pos he])
        · exact Or.inr ⟨bss, by rw [if_neg he]⟩

/-! ## the candidates of `findRules` against the dispatch specification (both state kinds) -/

/-- a candidate is fine: its id is a stored non-scheduled rule with `when` pattern `p`, and whatever `RuleFromMap`
makes of the body handed out carries that pattern -/
def CandOK (s : St) (id : String) (body : Obj) : Prop :=
  ∃ f p, (id, f) ∈ s.facts ∧ whenOf f = some p ∧ ∀ rm, ruleFromMap body = .ok rm → rm.when? = some p

theorem candOK_of_parts {s : St} {id : String} {f r body : Obj} (hshape : RuleShapes s) (hm : (id, f) ∈ s.facts)
    (hr : f.get? "rule" = some (.obj r)) (hbw : Obj.get? body "when" = Obj.get? r "when")
    {w : Obj} (hw : Obj.get? r "when" = some (.obj w)) : CandOK s id body := by
  obtain ⟨hs, p, hp⟩ := shape_parts (hshape (id, f) hm r hr) hw
  exact ⟨f, p, hm, whenOf_of_parts hr hs hw hp, fun rm hrm => ruleFromMap_when hrm (hbw.trans hw) hp⟩

theorem mapM_fst {α : Type} (g : String → Except LErr (String × α)) (hg : ∀ x y, g x = .ok y → y.1 = x) :
    ∀ (l : List String) (ys : List (String × α)), l.mapM g = .ok ys → ys.map (·.1) = l := by
  intro l
  induction l with
  | nil =>
    intro ys h
    simp only [List.mapM_nil, pure, Except.pure, Except.ok.injEq] at h
    subst h; rfl
  | cons x xs ih =>
    intro ys h
    rw [List.mapM_cons] at h
    cases hx : g x with
    | error e => rw [hx] at h; cases h
    | ok y =>
      rw [hx] at h
      cases hxs : xs.mapM g with
      | error e => rw [hxs] at h; cases h
      | ok rest =>
        rw [hxs] at h
        simp only [bind, Except.bind, pure, Except.pure, Except.ok.injEq] at h
        subst h
        simp [hg x y hx, ih rest hxs]

theorem ruleBodyAt_ok {s : St} {n : String} {y : String × Obj} (h : ruleBodyAt s n = .ok y) :
    y.1 = n ∧ ∃ f f', amGet s.facts n = some f ∧ extractRule f true = .ok (some y.2, f') := by
  unfold ruleBodyAt at h
  cases hg : amGet s.facts n with
  | none => simp [hg] at h
  | some f =>
    simp only [hg] at h
    cases he : extractRule f true with
    | error e => simp [he] at h
    | ok rf =>
      obtain ⟨ro, f2⟩ := rf
      cases ro with
      | none => simp [he] at h
      | some body =>
        simp only [he, Except.ok.injEq] at h
        subst h
        exact ⟨rfl, f, f2, rfl, he⟩

theorem linCand_some {ev : Obj} {e : String × Obj} {id : String} {r : Obj} (h : linCand ev e = .ok (some (id, r))) :
    id = e.1 ∧ e.2.get? "rule" = some (.obj r) ∧ ∃ w, Obj.get? r "when" = some (.obj w) := by
  unfold linCand at h
  cases hr : e.2.get? "rule" with
  | none => simp [hr] at h
  | some rv =>
    cases rv with
    | obj r' =>
      simp only [hr] at h
      cases hw : Obj.get? r' "when" with
      | none => simp [hw] at h
      | some wv =>
        cases wv with
        | obj w =>
          simp only [hw] at h
          cases hm : matchesJ ((Obj.get? w "pattern").getD (.obj w)) (.obj ev) with
          | error err => simp [hm] at h
          | ok bss =>
            simp only [hm, Except.ok.injEq] at h
            split at h
            · cases h
            · simp only [Option.some.injEq, Prod.mk.injEq] at h
              obtain ⟨rfl, rfl⟩ := h
              exact ⟨rfl, rfl, w, hw⟩
        | null | bool _ | num _ | str _ | arr _ => simp [hw] at h
    | null | bool _ | num _ | str _ | arr _ => simp [hr] at h

/-- the linear scan on a stored non-scheduled rule is the specification's match -/
theorem linCand_of_whenOf {ev : Obj} {id : String} {f p : Obj} (hw : whenOf f = some p) :
    ∃ r, f.get? "rule" = some (.obj r) ∧
      linCand ev (id, f) = (match matchesJ (.obj p) (.obj ev) with
        | .error err => .error err
        | .ok bss => .ok (if bss.isEmpty then none else some (id, r))) := by
  obtain ⟨r, w, hr, _, hww, hp⟩ := whenOf_some hw
  refine ⟨r, hr, ?_⟩
  have hpat : (Obj.get? w "pattern").getD (.obj w) = .obj p := by
    rcases hp with hp | ⟨hp, rfl⟩ <;> simp [hp]
  unfold linCand
  simp only [hr, hww, hpat]
  cases matchesJ (.obj p) (.obj ev) <;> rfl

theorem filterMap_id_keys : ∀ (xs : List (String × Obj)) (os : List (Option (String × Obj))),
    List.Forall₂ (fun x o => o = none ∨ ∃ r, o = some (x.1, r)) xs os →
    ((os.filterMap id).map (·.1)).Sublist (xs.map (·.1)) := by
  intro xs os h
  induction h with
  | nil => simp
  | @cons x o xs os hxo _ ih =>
    rcases hxo with rfl | ⟨r, rfl⟩
    · simpa using ih.cons x.1
    · simpa using ih.cons_cons x.1

theorem mapM_forall₂ {α β : Type} (g : α → Except LErr β) : ∀ (l : List α) (rs : List β),
    l.mapM g = .ok rs → List.Forall₂ (fun a b => g a = .ok b) l rs := by
  intro l
  induction l with
  | nil =>
    intro rs h
    simp only [List.mapM_nil, pure, Except.pure, Except.ok.injEq] at h
    subst h; exact .nil
  | cons x xs ih =>
    intro rs h
    rw [List.mapM_cons] at h
    cases hx : g x with
    | error e => rw [hx] at h; cases h
    | ok y =>
      rw [hx] at h
      cases hxs : xs.mapM g with
      | error e => rw [hxs] at h; cases h
      | ok rest =>
        rw [hxs] at h
        simp only [bind, Except.bind, pure, Except.pure, Except.ok.injEq] at h
        subst h
        exact .cons hx (ih rest hxs)

/-- **the candidates of `findRules` against the dispatch specification.**  In a well-formed state without expired
facts whose stored rule bodies have the documented shape — and, for the indexed kind, reachable, with the stored
`when` patterns in the fragment `whenFrag` and the event in the fragments `EvOK`, `dataOK` — a successful rule
search leaves the state unchanged, returns no id twice, the specification does not fail, every rule of the
specification is among the candidates, and every candidate is a stored non-scheduled rule whose `when` pattern is
what `RuleFromMap` hands to the event walk. -/
theorem findRules_vs_spec {s : St} {ev : Obj} {now : Int} (hwf : WF s) (hne : NoneExpired s now)
    (hshape : RuleShapes s)
    (hidx : s.kind = .indexed → IReach s ∧ WhenFrag s ∧ EvOK ev = true ∧ dataOK (.obj ev) = true)
    {s' : St} {cands : List (String × Obj)} (h : s.findRules ev now = (s', .ok cands)) :
    s' = s ∧ (cands.map (·.1)).Nodup ∧
    ∃ out, specDispatchLocal s.facts ev now = .ok out ∧
      (∀ id bss, (id, bss) ∈ out → ∃ body, (id, body) ∈ cands) ∧
      (∀ id body, (id, body) ∈ cands → CandOK s id body) := by
  unfold St.findRules at h
  cases hk : s.kind with
  | indexed =>
    rw [hk] at h
    simp only at h
    obtain ⟨hreach, hfrag, hev, hdev⟩ := hidx hk
    obtain ⟨hstidx, hsound⟩ := PI.idxSound_of_reach hreach
    rw [iFindRules_eq hne ev] at h
    simp only [Prod.mk.injEq] at h
    obtain ⟨hs', hres⟩ := h
    cases hps : piSearch s.ri ev with
    | error e => rw [hps] at hres; cases hres
    | ok ids =>
      rw [hps] at hres
      simp only at hres
      have hfst : cands.map (·.1) = ids := mapM_fst _ (fun x y hy => (ruleBodyAt_ok hy).1) ids cands hres
      have hspec : ∃ out, specDispatchLocal s.facts ev now = .ok out := by
        apply specDispatchLocal_total
        intro e he p hp
        have := hfrag e he p hp
        simp only [whenFrag, Bool.and_eq_true] at this
        exact matchesJ_total this.1.2 hdev
      obtain ⟨out, hout⟩ := hspec
      refine ⟨hs'.symm, by rw [hfst]; exact PI.piSearch_nodup hstidx.1 hps, out, hout, ?_, ?_⟩
      · intro id bss hmem
        obtain ⟨f, pat, hf, _, hw, hm, hnil⟩ := (LocP.specDispatchLocal_mem hout id bss).1 hmem
        have hfr := hfrag (id, f) hf pat hw
        simp only [whenFrag, Bool.and_eq_true] at hfr
        obtain ⟨σ, _, hσ⟩ := match_nonempty_pmv hfr.1.2 hdev hfr.2 hm hnil
        have hget : amGet s.facts id = some f := amGet_of_mem_nodup_st hwf.keys hf
        obtain ⟨π, hπ, hid⟩ := hstidx.2 id f pat hget hw
        obtain ⟨π', hπ', hemb⟩ := PI.emb_of_pmv σ hfr.1.1 hev hσ
        rw [hπ] at hπ'; cases hπ'
        have hin : id ∈ ids := PI.piSearch_of_emb hid hemb hps
        obtain ⟨y, hy, hyb⟩ := PI.mapM_ok _ _ _ hres id hin
        refine ⟨y.2, ?_⟩
        have := (ruleBodyAt_ok hyb).1
        rw [← this]; exact hy
      · intro id body hmem
        obtain ⟨n, hn, hnb⟩ := PI.mapM_ok_rev _ _ _ hres (id, body) hmem
        obtain ⟨hidn, f, f', hg, hex⟩ := ruleBodyAt_ok hnb
        simp only at hidn hex
        subst hidn
        obtain ⟨π, hπ⟩ := PI.piSearch_somewhere hps id hn
        obtain ⟨fact, pat, hg', hw, _⟩ := hsound π id hπ
        rw [hg] at hg'; cases hg'
        obtain ⟨r, w, hr, _, hww, _⟩ := whenOf_some hw
        obtain ⟨r', hr', hbw⟩ := extractRule_true_ok hex
        rw [hr] at hr'; cases hr'
        exact candOK_of_parts hshape (amGet_some_mem hg) hr hbw hww
  | linear =>
    rw [hk] at h
    simp only at h
    rw [lFindRules_eq hwf.keys hne ev] at h
    simp only [Prod.mk.injEq] at h
    obtain ⟨hs', hres⟩ := h
    cases hmm : s.facts.mapM (linCand ev) with
    | error e => rw [hmm] at hres; cases hres
    | ok os =>
      rw [hmm] at hres
      simp only [Except.map, Except.ok.injEq] at hres
      subst hres
      have hall := mapM_forall₂ _ _ _ hmm
      have hspec : ∃ out, specDispatchLocal s.facts ev now = .ok out := by
        apply specDispatchLocal_total
        intro e he p hp
        obtain ⟨o, _, ho⟩ := PI.mapM_ok _ _ _ hmm e he
        obtain ⟨r, _, hlc⟩ := linCand_of_whenOf (ev := ev) (id := e.1) hp
        rw [show (e.1, e.2) = e from rfl, ho] at hlc
        cases hmj : matchesJ (.obj p) (.obj ev) with
        | error err => rw [hmj] at hlc; cases hlc
        | ok bss => exact ⟨bss, rfl⟩
      obtain ⟨out, hout⟩ := hspec
      refine ⟨hs'.symm, ?_, out, hout, ?_, ?_⟩
      · refine List.Nodup.sublist (filterMap_id_keys s.facts os ?_) hwf.keys
        refine List.Forall₂.imp ?_ hall
        intro x o hxo
        cases o with
        | none => exact Or.inl rfl
        | some y =>
          obtain ⟨id, r⟩ := y
          obtain ⟨hid, _, _⟩ := linCand_some hxo
          exact Or.inr ⟨r, by rw [hid]⟩
      · intro id bss hmem
        obtain ⟨f, pat, hf, _, hw, hm, hnil⟩ := (LocP.specDispatchLocal_mem hout id bss).1 hmem
        obtain ⟨r, _, hlc⟩ := linCand_of_whenOf (ev := ev) (id := id) hw
        rw [hm] at hlc
        have hemp : bss.isEmpty = false := by cases bss with | nil => exact absurd rfl hnil | cons _ _ => rfl
        simp only [hemp, Bool.false_eq_true, if_false] at hlc
        obtain ⟨o, ho, hoe⟩ := PI.mapM_ok _ _ _ hmm (id, f) hf
        rw [hlc] at hoe; cases hoe
        exact ⟨r, List.mem_filterMap.2 ⟨some (id, r), ho, rfl⟩⟩
      · intro id body hmem
        obtain ⟨o, ho, hoe⟩ := List.mem_filterMap.1 hmem
        simp only [id_eq] at hoe
        subst hoe
        obtain ⟨e, he, hle⟩ := PI.mapM_ok_rev _ _ _ hmm _ ho
        obtain ⟨hid, hr, w, hw⟩ := linCand_some hle
        subst hid
        exact candOK_of_parts hshape he hr rfl hw

/-! ## the rule search of a location, its enabled flags, the event walk -/

theorem noneExpired_locP {s : St} {now : Int} (h : _root_.NoneExpired s now) : LocP.NoneExpired s now := by
  intro id f hg
  rw [h (id, f) (amGet_some_mem hg)]
  intro hc; cases hc

theorem noneExpired_guardFresh {s : St} {now : Int} (h : _root_.NoneExpired s now) : LocP.GuardFresh s now :=
  LocP.NoneExpired.guardFresh (noneExpired_locP h)

/-- the guards shared by `searchRules` and `RuleEnabled` -/
theorem guards_searchRules_eq : guardsOf "searchRules" = guardsOf "RuleEnabled" := rfl

/-- `FindCachedRules`' validation loop keeps ids and order: each candidate body goes through `RuleFromMap` -/
theorem searchRules_go_ok : ∀ (cands : List (String × Obj)) (rs : List (String × RuleM)),
    locSearchRules.go cands = .ok rs →
    List.Forall₂ (fun (cb : String × Obj) (ir : String × RuleM) => ir.1 = cb.1 ∧ ruleFromMap cb.2 = .ok ir.2) cands rs := by
  intro cands
  induction cands with
  | nil =>
    intro rs h
    simp only [locSearchRules.go, Except.ok.injEq] at h
    subst h; exact .nil
  | cons cb rest ih =>
    intro rs h
    obtain ⟨id, body⟩ := cb
    simp only [locSearchRules.go, bind, Except.bind] at h
    cases hr : ruleFromMap body with
    | error e => rw [hr] at h; cases h
    | ok r =>
      rw [hr] at h
      simp only at h
      cases hg : locSearchRules.go rest with
      | error e => rw [hg] at h; cases h
      | ok rs' =>
        rw [hg] at h
        simp only [pure, Except.pure, Except.ok.injEq] at h
        subst h
        exact .cons ⟨rfl, hr⟩ (ih rs' hg)

/-- a successful `searchRules`: the guards let the caller through, the state's rule search answered `cands`,
every candidate body is a valid rule -/
theorem locSearchRules_ok {c : Ctx} {ev : Obj} {now : Int} {l l' : Loc} {rs : List (String × RuleM)}
    (hne : _root_.NoneExpired l.st now) (h : locSearchRules c ev now l = (l', .ok rs)) :
    LocP.guardsVerdict c now l (guardsOf "searchRules") = .ok () ∧
    ∃ cands, l.st.findRules ev now = (l'.st, .ok cands) ∧ l' = { l with st := l'.st } ∧
      locSearchRules.go cands = .ok rs := by
  rw [LocP.locSearchRules_split, LocP.guarded_eq (noneExpired_guardFresh hne) c] at h
  cases hv : LocP.guardsVerdict c now l (guardsOf "searchRules") with
  | error e => rw [hv] at h; cases h
  | ok u =>
    rw [hv] at h
    simp only [LocP.Body.searchRules, bind, LM.bind, stFindRules, LocP.liftSt_eq] at h
    refine ⟨rfl, ?_⟩
    cases hf : (l.st.findRules ev now).2 with
    | error e => rw [hf] at h; cases h
    | ok cands =>
      rw [hf] at h
      simp only at h
      cases hg : locSearchRules.go cands with
      | error e => rw [hg] at h; cases h
      | ok rs' =>
        rw [hg] at h
        simp only [pure, LM.pure, Prod.mk.injEq, Except.ok.injEq] at h
        obtain ⟨h1, h2⟩ := h
        subst h2
        refine ⟨cands, ?_, ?_, hg⟩
        · rw [← h1]
          exact Prod.ext rfl hf
        · rw [← h1]

/-- how the driver reads the answer of `RuleEnabled` -/
def flagOf (res : Except LErr Bool) : Bool :=
  match res with | .ok b => b | .error "disabled" => false | .error _ => true

theorem locEnabledFlags_cons (c : Ctx) (now : Int) (id : String) (r : RuleM) (rest : List (String × RuleM)) (l : Loc) :
    locEnabledFlags c now ((id, r) :: rest) l =
      ((locEnabledFlags c now rest (locRuleEnabled c id now l).1).1,
       (id, r, flagOf (locRuleEnabled c id now l).2) :: (locEnabledFlags c now rest (locRuleEnabled c id now l).1).2) := by
  simp only [locEnabledFlags, flagOf]
  rfl

/-- `RuleEnabled`'s body when nothing is expired: the location is untouched and the driver's reading of the answer
is the negation of `ruleDisabled` -/
theorem ruleEnabled_flag {id : String} {now : Int} {l : Loc} (hne : _root_.NoneExpired l.st now) :
    ∃ r, LocP.Body.ruleEnabled id now l = (l, r) ∧ flagOf r = !ruleDisabled l.st.facts id now := by
  have hfresh : LocP.FreshAt l.st (genPropId id "disabled") now := fun f hf => noneExpired_locP hne _ f hf
  simp only [LocP.Body.ruleEnabled, bind, LM.bind, LocP.getProp_eq hfresh, LocP.getPropPure, LocP.getPure, ruleDisabled]
  cases hg : amGet l.st.facts (genPropId id "disabled") with
  | none => exact ⟨_, rfl, by simp [pure, LM.pure, flagOf]⟩
  | some f =>
    dsimp only
    have hc : checkExpiration f now = .ok false := hne (_, f) (amGet_some_mem hg)
    rw [hc]
    dsimp only
    cases hv : f.get? ("!" ++ "disabled") with
    | none =>
      refine ⟨_, rfl, ?_⟩
      have hv' : f.get? "!disabled" = none := hv
      simp [LM.fail, flagOf, unexpired, hc, hv']
    | some v =>
      dsimp only
      have hv' : f.get? "!disabled" = some v := hv
      cases v with
      | bool d =>
        refine ⟨_, rfl, ?_⟩
        simp only [pure, LM.pure, flagOf, unexpired, hc, hv']
        cases d <;> rfl
      | null => exact ⟨_, rfl, by simp [pure, LM.pure, flagOf, unexpired, hc, hv']⟩
      | num _ => exact ⟨_, rfl, by simp [pure, LM.pure, flagOf, unexpired, hc, hv']⟩
      | str _ => exact ⟨_, rfl, by simp [pure, LM.pure, flagOf, unexpired, hc, hv']⟩
      | arr _ => exact ⟨_, rfl, by simp [pure, LM.pure, flagOf, unexpired, hc, hv']⟩
      | obj _ => exact ⟨_, rfl, by simp [pure, LM.pure, flagOf, unexpired, hc, hv']⟩

/-- **the enabled flags are the negated disabled flags**: once the guards of `searchRules` (= those of
`RuleEnabled`) let the caller through and nothing is expired, asking `RuleEnabled` for every candidate leaves the
location alone and marks a candidate enabled iff `ruleDisabled` is false for its id -/
theorem locEnabledFlags_eq {c : Ctx} {now : Int} {l : Loc} (hne : _root_.NoneExpired l.st now)
    (hg : LocP.guardsVerdict c now l (guardsOf "searchRules") = .ok ()) :
    ∀ rs : List (String × RuleM), locEnabledFlags c now rs l =
      (l, rs.map (fun x => (x.1, x.2, !ruleDisabled l.st.facts x.1 now))) := by
  intro rs
  induction rs with
  | nil => rfl
  | cons x rest ih =>
    obtain ⟨id, r⟩ := x
    rw [locEnabledFlags_cons]
    have hre : locRuleEnabled c id now l = (l, (LocP.Body.ruleEnabled id now l).2) ∧
        flagOf (LocP.Body.ruleEnabled id now l).2 = !ruleDisabled l.st.facts id now := by
      obtain ⟨res, hres, hflag⟩ := ruleEnabled_flag (id := id) hne
      rw [LocP.locRuleEnabled_split, LocP.guarded_eq (noneExpired_guardFresh hne) c, ← guards_searchRules_eq, hg]
      simp only [hres]
      exact ⟨by first | rfl | trivial, hflag⟩
    rw [hre.1]
    simp only [ih, hre.2, List.map_cons]

theorem forall₂_mem_left {α β : Type} {R : α → β → Prop} {l1 : List α} {l2 : List β} (h : List.Forall₂ R l1 l2)
    {a : α} (ha : a ∈ l1) : ∃ b ∈ l2, R a b := by
  induction h with
  | nil => cases ha
  | @cons x y xs ys hxy _ ih =>
    rcases List.mem_cons.1 ha with rfl | ha
    · exact ⟨y, List.mem_cons_self, hxy⟩
    · obtain ⟨b, hb, hr⟩ := ih ha
      exact ⟨b, List.mem_cons_of_mem _ hb, hr⟩

theorem forall₂_mem_right {α β : Type} {R : α → β → Prop} {l1 : List α} {l2 : List β} (h : List.Forall₂ R l1 l2)
    {b : β} (hb : b ∈ l2) : ∃ a ∈ l1, R a b := by
  induction h with
  | nil => cases hb
  | @cons x y xs ys hxy _ ih =>
    rcases List.mem_cons.1 hb with rfl | hb
    · exact ⟨x, List.mem_cons_self, hxy⟩
    · obtain ⟨a, ha, hr⟩ := ih hb
      exact ⟨a, List.mem_cons_of_mem _ ha, hr⟩

theorem forall₂_map_fst {cands : List (String × Obj)} {rs : List (String × RuleM)}
    (h : List.Forall₂ (fun (cb : String × Obj) (ir : String × RuleM) => ir.1 = cb.1 ∧ ruleFromMap cb.2 = .ok ir.2) cands rs) :
    rs.map (·.1) = cands.map (·.1) := by
  induction h with
  | nil => rfl
  | @cons x y xs ys hxy _ ih => simp [hxy.1, ih]

theorem whenBindings_some {ev : Obj} {rm : RuleM} {p : Obj} (h : rm.when? = some p) :
    whenBindings ev rm = matchesJ (.obj p) (.obj ev) := by
  unfold whenBindings; rw [h]

theorem unexpired_of_ne {s : St} {now : Int} (hne : _root_.NoneExpired s now) {e : String × Obj} (he : e ∈ s.facts) :
    unexpired e.2 now = true := by
  simp only [unexpired, hne e he]

/-- **the validated candidates of a location's rule search against the dispatch specification** (both kinds) -/
theorem dispatch_vs_spec {c : Ctx} {ev : Obj} {now : Int} {l l' : Loc} {rs : List (String × RuleM)}
    (hwf : WF l.st) (hne : _root_.NoneExpired l.st now) (hshape : RuleShapes l.st)
    (hidx : l.st.kind = .indexed → IReach l.st ∧ WhenFrag l.st ∧ EvOK ev = true ∧ dataOK (.obj ev) = true)
    (h : locSearchRules c ev now l = (l', .ok rs)) :
    l' = l ∧ LocP.guardsVerdict c now l (guardsOf "searchRules") = .ok () ∧ (rs.map (·.1)).Nodup ∧
    ∃ out, specDispatchLocal l.st.facts ev now = .ok out ∧
      (∀ id bss, (id, bss) ∈ out → ∃ rm, (id, rm) ∈ rs ∧ whenBindings ev rm = .ok bss) ∧
      (∀ id rm, (id, rm) ∈ rs → ∀ bss, whenBindings ev rm = .ok bss → bss ≠ [] → (id, bss) ∈ out) := by
  obtain ⟨hg, cands, hfr, hl', hgo⟩ := locSearchRules_ok hne h
  obtain ⟨hst, hnd, out, hout, hcomp, hcand⟩ := findRules_vs_spec hwf hne hshape hidx hfr
  have hall := searchRules_go_ok cands rs hgo
  have hl : l' = l := by rw [hl', hst]
  refine ⟨hl, hg, by rw [forall₂_map_fst hall]; exact hnd, out, hout, ?_, ?_⟩
  · intro id bss hmem
    obtain ⟨body, hb⟩ := hcomp id bss hmem
    obtain ⟨ir, hir, hid, hrm⟩ := forall₂_mem_left hall hb
    obtain ⟨id', rm⟩ := ir
    simp only at hid hrm
    subst hid
    refine ⟨rm, hir, ?_⟩
    obtain ⟨f', p', hf', hw', hwhen⟩ := hcand id' body hb
    obtain ⟨f, pat, hf, _, hw, hm, _⟩ := (LocP.specDispatchLocal_mem hout id' bss).1 hmem
    have e1 := amGet_of_mem_nodup_st hwf.keys hf
    have e2 := amGet_of_mem_nodup_st hwf.keys hf'
    rw [e1] at e2; cases e2
    rw [hw] at hw'; cases hw'
    rw [whenBindings_some (hwhen rm hrm)]; exact hm
  · intro id rm hmem bss hwb hnil
    obtain ⟨cb, hcb, hid, hrm⟩ := forall₂_mem_right hall hmem
    obtain ⟨id', body⟩ := cb
    simp only at hid hrm
    subst hid
    obtain ⟨f, p, hf, hw, hwhen⟩ := hcand id body hcb
    rw [whenBindings_some (hwhen rm hrm)] at hwb
    exact (LocP.specDispatchLocal_mem hout id bss).2 ⟨f, p, hf, unexpired_of_ne hne hf, hw, hwb, hnil⟩

theorem dispatch_ids_sublist (ev : Obj) : ∀ (cands : List (String × RuleM × Bool)) (disp : List (String × RuleM × List Bs)),
    dispatch ev cands = .ok disp → (disp.map (·.1)).Sublist (cands.map (·.1)) := by
  intro cands
  induction cands with
  | nil => intro disp h; rw [dispatch_nil] at h; cases h; simp
  | cons cd rest ih =>
    intro disp h
    rw [dispatch_cons] at h
    cases h1 : dispatchOne ev cd with
    | error e => rw [h1] at h; cases h
    | ok o =>
      cases h2 : dispatch ev rest with
      | error e => rw [h1, h2] at h; cases h
      | ok ds =>
        rw [h1, h2] at h
        simp only [bind, Except.bind, pure, Except.pure, Except.ok.injEq] at h
        subst h
        cases o with
        | none => simpa using (ih ds h2).cons cd.1
        | some d =>
          have : d.1 = cd.1 := by
            unfold dispatchOne at h1
            split at h1
            · cases h1
            · split at h1
              · cases h1
              · simp only [Except.ok.injEq] at h1
                split at h1
                · cases h1
                · simp only [Option.some.injEq] at h1
                  rw [← h1]
          simpa [this] using (ih ds h2).cons_cons cd.1

theorem nodup_of_map_fst {α β : Type} : ∀ {l : List (α × β)}, (l.map (·.1)).Nodup → l.Nodup
  | [], _ => List.nodup_nil
  | a :: l, h => by
    rw [List.map_cons, List.nodup_cons] at h
    rw [List.nodup_cons]
    exact ⟨fun ha => h.1 (List.mem_map.2 ⟨a, ha, rfl⟩), nodup_of_map_fst h.2⟩

/-- **`dispatch_exact_local`, proof side.**  One `event` op on a location without parents, both state kinds. -/
theorem locProcessEvent_exact (srch : Srch) {c : Ctx} {ev : Obj} {now : Int} {l l' : Loc} {t : Tree}
    (hwf : WF l.st) (hne : _root_.NoneExpired l.st now) (hshape : RuleShapes l.st)
    (hidx : l.st.kind = .indexed → IReach l.st ∧ WhenFrag l.st ∧ EvOK ev = true ∧ dataOK (.obj ev) = true)
    (h : locProcessEvent srch c ev now l = (l', t)) (herr : t.err = none) :
    l' = l ∧ ∃ out, specFires l.st.facts ev now = .ok out ∧
      (∃ full, full.Perm out ∧ t.fired <+: full) ∧ (∀ x, x ∈ t.fired → x ∈ out) ∧
      (t.aborted = false → t.fired.Perm out) := by
  unfold locProcessEvent at h
  rcases hsr : locSearchRules c ev now l with ⟨l1, res⟩
  rw [hsr] at h
  cases res with
  | error e =>
    simp only [Prod.mk.injEq] at h
    rw [← h.2] at herr; cases herr
  | ok rs =>
    simp only at h
    obtain ⟨hl1, hg, hnd, out, hout, hcomp, hsnd⟩ := dispatch_vs_spec hwf hne hshape hidx hsr
    subst hl1
    rw [locEnabledFlags_eq hne hg rs] at h
    simp only [Prod.mk.injEq] at h
    obtain ⟨hl', ht⟩ := h
    subst ht
    refine ⟨hl'.symm, out.filter (fun r => !ruleDisabled l1.st.facts r.1 now), by simp [specFires, hout, Except.map], ?_⟩
    generalize hwe : rs.map (fun x => (x.1, x.2, !ruleDisabled l1.st.facts x.1 now)) = withEn at herr ⊢
    obtain ⟨disp, hdisp⟩ := no_err_dispatch srch l1.name ev withEn herr
    -- membership in the dispatch = membership in the filtered specification
    have hiff : ∀ x, x ∈ firedOf disp ↔ x ∈ out.filter (fun r => !ruleDisabled l1.st.facts r.1 now) := by
      intro x
      obtain ⟨id, bss⟩ := x
      rw [List.mem_filter]
      constructor
      · intro hx
        obtain ⟨d, hd, hde⟩ := List.mem_map.1 hx
        obtain ⟨hc, hwb, hnil⟩ := dispatch_mem ev withEn disp hdisp d hd
        simp only [Prod.mk.injEq] at hde
        obtain ⟨h1, h2⟩ := hde
        rw [h1] at hc
        rw [h2] at hwb hnil
        rw [← hwe] at hc
        obtain ⟨y, hy, hye⟩ := List.mem_map.1 hc
        simp only [Prod.mk.injEq] at hye
        obtain ⟨e1, e2, e3⟩ := hye
        have hyrs : (id, d.2.1) ∈ rs := by rw [← e1, ← e2]; exact hy
        refine ⟨hsnd id d.2.1 hyrs bss hwb hnil, ?_⟩
        rw [e1] at e3; simpa using e3
      · rintro ⟨hx, hen⟩
        obtain ⟨rm, hrm, hwb⟩ := hcomp id bss hx
        have hnil : bss ≠ [] := ((LocP.specDispatchLocal_mem hout id bss).1 hx).choose_spec.choose_spec.2.2.2.2
        have hc : (id, rm, true) ∈ withEn := by
          rw [← hwe]
          refine List.mem_map.2 ⟨(id, rm), hrm, ?_⟩
          simp only [Prod.mk.injEq, true_and]
          simpa using hen
        rw [dispatch_ok ev withEn disp hdisp]
        refine List.mem_map.2 ⟨(id, rm, bss), List.mem_filterMap.2 ⟨(id, rm, true), hc, ?_⟩, rfl⟩
        rw [dispatchOne_match ev id rm bss hwb hnil]
    have hnd1 : (firedOf disp).Nodup := by
      apply nodup_of_map_fst
      have : (firedOf disp).map (·.1) = disp.map (·.1) := by simp [firedOf, List.map_map, Function.comp_def]
      rw [this]
      refine List.Nodup.sublist (dispatch_ids_sublist ev withEn disp hdisp) ?_
      rw [← hwe]
      simpa [List.map_map, Function.comp_def] using hnd
    have hnd2 : (out.filter (fun r => !ruleDisabled l1.st.facts r.1 now)).Nodup := by
      refine List.Nodup.sublist List.filter_sublist ?_
      exact nodup_of_map_fst (List.Nodup.sublist (specDispatchLocal_ids hout) hwf.keys)
    have hperm : (firedOf disp).Perm (out.filter (fun r => !ruleDisabled l1.st.facts r.1 now)) :=
      (List.perm_ext_iff_of_nodup hnd1 hnd2).2 hiff
    obtain ⟨n, hn⟩ := tree_prefix srch l1.name ev withEn disp hdisp
    have hfired : (processEvent srch l1.name ev withEn).fired = (firedOf disp).take n := by
      unfold Tree.fired firedOf
      rw [hn, List.map_map, ← List.map_take]
      rfl
    refine ⟨⟨firedOf disp, hperm, by rw [hfired]; exact List.take_prefix _ _⟩, ?_, ?_⟩
    · intro x hx
      rw [hfired] at hx
      exact (hiff x).1 (List.mem_of_mem_take hx)
    · intro hab
      have := (tree_not_aborted srch l1.name ev withEn disp hdisp hab).1
      have hf2 : (processEvent srch l1.name ev withEn).fired = firedOf disp := by
        unfold Tree.fired firedOf
        rw [this, List.map_map]
        rfl
      rw [hf2]; exact hperm

/-! ## when an `event` op reports no error -/

theorem iFindRules_total {s : St} (h : IReach s) {now : Int} (hne : _root_.NoneExpired s now) {ev : Obj}
    (hev : EvOK ev = true) :
    ∃ ids cands, piSearch s.ri ev = .ok ids ∧ s.iFindRules ev now = (s, .ok cands) ∧ cands.map (·.1) = ids := by
  obtain ⟨ids, hps⟩ := PI.piSearch_total s.ri hev
  obtain ⟨_, hsound⟩ := PI.idxSound_of_reach h
  have hall : ∀ n ∈ ids, ∃ y, ruleBodyAt s n = .ok y := by
    intro n hn
    obtain ⟨π, hπ⟩ := PI.piSearch_somewhere hps n hn
    obtain ⟨fact, pat, hg, hw, _⟩ := hsound π n hπ
    obtain ⟨r, w, hr, _, _, _⟩ := whenOf_some hw
    obtain ⟨body, f', hex⟩ := extractRule_true_of_rule hr
    exact ⟨(n, body), by simp [ruleBodyAt, hg, hex]⟩
  obtain ⟨cands, hc⟩ := PI.mapM_ok_of_all _ ids hall
  refine ⟨ids, cands, hps, ?_, mapM_fst _ (fun x y hy => (ruleBodyAt_ok hy).1) ids cands hc⟩
  rw [iFindRules_eq hne ev, hps]
  simp only [hc]

/-- when the dispatch specification does not fail, the matcher does not fail on any stored `when` pattern -/
theorem specDispatchLocal_ok_matches {facts : List (String × Obj)} {ev : Obj} {now : Int} {out : List (String × List Bs)}
    (h : specDispatchLocal facts ev now = .ok out) {e : String × Obj} (he : e ∈ facts)
    (hun : unexpired e.2 now = true) {p : Obj} (hw : whenOf e.2 = some p) :
    ∃ bss, matchesJ (.obj p) (.obj ev) = .ok bss := by
  unfold specDispatchLocal at h
  simp only [bind, Except.bind] at h
  split at h
  · cases h
  · rename_i per hper
    obtain ⟨r, _, hr⟩ := PI.mapM_ok _ _ _ hper e (List.mem_filter.2 ⟨he, hun⟩)
    obtain ⟨id, f⟩ := e
    dsimp only at hr hw
    rw [hw] at hr
    dsimp only at hr
    cases hm : matchesJ (.obj p) (.obj ev) with
    | error err => rw [hm] at hr; cases hr
    | ok bss => exact ⟨bss, rfl⟩

theorem searchRules_go_total : ∀ (cands : List (String × Obj)),
    (∀ cb, cb ∈ cands → ∃ rm, ruleFromMap cb.2 = .ok rm) → ∃ rs, locSearchRules.go cands = .ok rs := by
  intro cands
  induction cands with
  | nil => intro _; exact ⟨[], rfl⟩
  | cons cb rest ih =>
    intro h
    obtain ⟨id, body⟩ := cb
    obtain ⟨rm, hrm⟩ := h (id, body) List.mem_cons_self
    obtain ⟨rs, hrs⟩ := ih (fun cb hcb => h cb (List.mem_cons_of_mem _ hcb))
    refine ⟨(id, rm) :: rs, ?_⟩
    simp only [locSearchRules.go, bind, Except.bind]
    simp only at hrm
    rw [hrm]
    simp only [hrs, pure, Except.pure]

/-- **an `event` op reports no error** when the guards of the rule search let the caller through, nothing is
expired, every stored rule body is a map accepted by `RuleFromMap`, and (linear kind) the dispatch specification
itself does not fail — for the indexed kind this follows from the fragments -/
theorem locProcessEvent_no_error (srch : Srch) {c : Ctx} {ev : Obj} {now : Int} {l : Loc}
    (hwf : WF l.st) (hne : _root_.NoneExpired l.st now) (hshape : RuleShapes l.st)
    (hidx : l.st.kind = .indexed → IReach l.st ∧ WhenFrag l.st ∧ EvOK ev = true ∧ dataOK (.obj ev) = true)
    (hvalid : RulesValid l.st) (hmaps : RuleMaps l.st)
    (hg : LocP.guardsVerdict c now l (guardsOf "searchRules") = .ok ())
    (hspecL : l.st.kind = .linear → ∃ out, specDispatchLocal l.st.facts ev now = .ok out) :
    (locProcessEvent srch c ev now l).1 = l ∧ (locProcessEvent srch c ev now l).2.err = none := by
  -- 1. the state's rule search succeeds
  have hfind : ∃ cands, l.st.findRules ev now = (l.st, .ok cands) ∧
      ∀ cb, cb ∈ cands → ∃ f, (cb.1, f) ∈ l.st.facts ∧ candBody l.st.kind f = some cb.2 := by
    unfold St.findRules
    cases hk : l.st.kind with
    | indexed =>
      obtain ⟨hreach, _, hev, _⟩ := hidx hk
      obtain ⟨ids, cands, hps, hfr, _⟩ := iFindRules_total hreach hne hev
      refine ⟨cands, hfr, ?_⟩
      intro cb hcb
      rw [iFindRules_eq hne ev, hps] at hfr
      simp only [Prod.mk.injEq, true_and] at hfr
      obtain ⟨n, _, hnb⟩ := PI.mapM_ok_rev _ _ _ hfr cb hcb
      obtain ⟨hidn, f, f', hgf, hex⟩ := ruleBodyAt_ok hnb
      subst hidn
      exact ⟨f, amGet_some_mem hgf, by simp [candBody, hex]⟩
    | linear =>
      obtain ⟨out, hout⟩ := hspecL hk
      have hall : ∀ e ∈ l.st.facts, ∃ o, linCand ev e = .ok o := by
        intro e he
        cases hr : e.2.get? "rule" with
        | none => exact ⟨none, by simp [linCand, hr]⟩
        | some rv =>
          obtain ⟨r, rfl⟩ := hmaps e he rv hr
          cases hw : Obj.get? r "when" with
          | none => exact ⟨none, by simp [linCand, hr, hw]⟩
          | some wv =>
            cases wv with
            | obj w =>
              obtain ⟨hs, p, hp⟩ := shape_parts (hshape e he r hr) hw
              have hwo := whenOf_of_parts hr hs hw hp
              obtain ⟨bss, hb⟩ := specDispatchLocal_ok_matches hout he (unexpired_of_ne hne he) hwo
              exact ⟨if bss.isEmpty then none else some (e.1, r), by simp [linCand, hr, hw, hp, hb]⟩
            | null | bool _ | num _ | str _ | arr _ => exact ⟨none, by simp [linCand, hr, hw]⟩
      obtain ⟨os, hos⟩ := PI.mapM_ok_of_all _ _ hall
      refine ⟨os.filterMap id, ?_, ?_⟩
      · rw [lFindRules_eq hwf.keys hne ev, hos]; rfl
      · intro cb hcb
        obtain ⟨o, ho, hoe⟩ := List.mem_filterMap.1 hcb
        simp only [id_eq] at hoe
        subst hoe
        obtain ⟨e, he, hle⟩ := PI.mapM_ok_rev _ _ _ hos _ ho
        obtain ⟨hid, hr, _⟩ := linCand_some (id := cb.1) (r := cb.2) hle
        refine ⟨e.2, by rw [hid]; exact he, by simp [candBody, hr]⟩
  obtain ⟨cands, hfr, hbodies⟩ := hfind
  -- 2. every candidate body is a valid rule
  obtain ⟨rs, hrs⟩ := searchRules_go_total cands (fun cb hcb => by
    obtain ⟨f, hf, hcb'⟩ := hbodies cb hcb
    exact hvalid _ hf _ hcb')
  -- 3. the location's rule search
  have hsr : locSearchRules c ev now l = (l, .ok rs) := by
    rw [LocP.locSearchRules_split, LocP.guarded_eq (noneExpired_guardFresh hne) c, hg]
    simp only [LocP.Body.searchRules, bind, LM.bind, stFindRules, LocP.liftSt_eq, hfr, hrs, pure, LM.pure]
  -- 4. flags and dispatch
  obtain ⟨_, _, _, out, hout, _, _⟩ := dispatch_vs_spec hwf hne hshape hidx hsr
  obtain ⟨_, _, hcand⟩ := (findRules_vs_spec hwf hne hshape hidx hfr).2.2.choose_spec
  have hall := searchRules_go_ok cands rs hrs
  unfold locProcessEvent
  rw [hsr]
  simp only [locEnabledFlags_eq hne hg rs]
  refine ⟨by first | rfl | trivial, ?_⟩
  rw [processEvent_eq]
  have hdisp : ∃ disp, dispatch ev (rs.map (fun x => (x.1, x.2, !ruleDisabled l.st.facts x.1 now))) = .ok disp := by
    unfold dispatch
    have : ∀ cd ∈ rs.map (fun x => (x.1, x.2, !ruleDisabled l.st.facts x.1 now)), ∃ o, dispatchOne ev cd = .ok o := by
      intro cd hcd
      obtain ⟨x, hx, rfl⟩ := List.mem_map.1 hcd
      obtain ⟨cb, hcb, hid, hrm⟩ := forall₂_mem_right hall hx
      obtain ⟨f, p, hf, hw, hwhen⟩ := hcand cb.1 cb.2 hcb
      obtain ⟨bss, hb⟩ := specDispatchLocal_ok_matches hout hf (unexpired_of_ne hne hf) hw
      unfold dispatchOne
      simp only
      split
      · exact ⟨_, rfl⟩
      · rw [whenBindings_some (hwhen x.2 hrm), hb]
        exact ⟨_, rfl⟩
    obtain ⟨ds, hds⟩ := PI.mapM_ok_of_all _ _ this
    exact ⟨ds.filterMap id, by rw [hds]; rfl⟩
  obtain ⟨disp, hd⟩ := hdisp
  rw [hd]

/-! ## the executable forms of the hypotheses are sound -/

theorem ruleShapes_of_b {s : St} (h : ruleShapesB s = true) : RuleShapes s := by
  intro e he r hr
  have := List.all_eq_true.1 h e he
  simpa [hr] using this

theorem whenFrag_of_b {s : St} (h : whenFragB s = true) : WhenFrag s := by
  intro e he p hp
  have := List.all_eq_true.1 h e he
  simpa [hp] using this

theorem rulesValid_of_b {s : St} (h : rulesValidB s = true) : RulesValid s := by
  intro e he body hb
  have := List.all_eq_true.1 h e he
  simp only [hb] at this
  cases hr : ruleFromMap body with
  | ok rm => exact ⟨rm, rfl⟩
  | error err => rw [hr] at this; cases this

theorem ruleMaps_of_b {s : St} (h : ruleMapsB s = true) : RuleMaps s := by
  intro e he rv hr
  have := List.all_eq_true.1 h e he
  simp only [hr] at this
  cases rv with
  | obj r => exact ⟨r, rfl⟩
  | null | bool _ | num _ | str _ | arr _ => cases this

theorem factsOK_of_b {s : St} (h : factsOKB s = true) : FactsOK s :=
  fun e he => List.all_eq_true.1 h e he

/-! ## the lifecycle reading -/

/-- membership in the filtered specification = live and enabled -/
theorem specFires_mem {facts : List (String × Obj)} {ev : Obj} {now : Int} {out : List (String × List Bs)}
    (h : specFires facts ev now = .ok out) (id : String) (bss : List Bs) :
    (id, bss) ∈ out ↔ LiveEnabled facts ev now id bss := by
  unfold specFires at h
  cases hs : specDispatchLocal facts ev now with
  | error e => rw [hs] at h; cases h
  | ok out0 =>
    rw [hs] at h
    simp only [Except.map, Except.ok.injEq] at h
    subst h
    rw [List.mem_filter, LocP.specDispatchLocal_mem hs id bss]
    unfold LiveEnabled
    constructor
    · rintro ⟨⟨f, p, hf, hun, hw, hm, hnil⟩, hen⟩
      exact ⟨f, p, hf, hw, hun, hm, hnil, by simpa using hen⟩
    · rintro ⟨f, p, hf, hw, hun, hm, hnil, hen⟩
      exact ⟨⟨f, p, hf, hun, hw, hm, hnil⟩, by simpa using hen⟩

/-- the flag fact, once stored, disables the id at every time (it carries no expiry) -/
theorem ruleDisabled_of_flag {facts : List (String × Obj)} {id : String}
    (h : amGet facts (genPropId id "disabled") = some (LocP.flagFact id)) (now : Int) :
    ruleDisabled facts id now = true := by
  have hc : checkExpiration (LocP.flagFact id) now = .ok false := by
    simp [checkExpiration, LocP.flagFact, Obj.get?, lookupKey]
  have hv : (LocP.flagFact id).get? "!disabled" = some (.bool true) := by
    simp [LocP.flagFact, Obj.get?, lookupKey]
  simp only [ruleDisabled, h, unexpired, hc, hv]
  rfl

theorem not_stored_of_amGet_none {facts : List (String × Obj)} {id : String} (h : amGet facts id = none) :
    ∀ f, (id, f) ∉ facts := by
  intro f hf
  have := amGet_none_iff.1 h
  exact this (List.mem_map.2 ⟨(id, f), hf, rfl⟩)

import RulioProofs.ReloadIndexed
import RulioProofs.StateC02
import RulioProofs.PatIndexState
import RulioModel.CloseFrag

/-! # C06 for the indexed state: `Load` re-establishes the index invariants of a live state, and what follows for
observations on the reloaded state (composition of the C06 reload lemmas with the invariants of C01 / C02 / C08). -/

set_option linter.unusedVariables false
set_option linter.unusedSimpArgs false

open AM

/-! ## the invariants do not mention storage (nor, for `StIdx`, the term index) -/

theorem WF.of_eq {s s' : St} (h : WF s) (hf : s'.facts = s.facts) (ht : s'.ti = s.ti) (hk : s'.kind = s.kind) : WF s' :=
  ⟨by simp only [KeysNodup, hf]; exact h.keys,
   by intro e he; rw [hf] at he; exact h.ids e he,
   by intro hk'; rw [hk] at hk'; intro id fact hm; rw [hf] at hm; rw [ht]; exact h.tiok hk' id fact hm,
   by intro hk'; rw [hk] at hk'; simp only [TINodup, ht]; exact h.tinodup hk'⟩

theorem StIdx.of_eq {s s' : St} (h : StIdx s) (hf : s'.facts = s.facts) (hr : s'.ri = s.ri) : StIdx s' := by
  unfold StIdx at h ⊢
  rw [hf, hr]; exact h

/-- the in-memory `add` of the indexed state keeps well-formedness -/
theorem WF.iadd {s : St} (h : WF s) (hk : s.kind = .indexed) (given : String) (x : Obj) (now : Int) :
    WF (s.iadd given x now).1 ∧ (s.iadd given x now).1.kind = .indexed := by
  rcases iadd_shape s given x now with ⟨e, _, hf⟩ | ⟨id, fact, x', _, ha⟩
  · exact ⟨h.addFailed hf, hf.kind.trans hk⟩
  · obtain ⟨fact0, rule, hp, hex⟩ := ha.prep
    have hadded : Added s { (s.iadd given x now).1 with store := amSet s.store id (.obj fact) } given x now id fact :=
      ⟨⟨fact0, x', hp, Or.inr ⟨rule, hex⟩⟩, ha.facts, fun _ => ha.ti, rfl, ha.kind, ha.fresh⟩
    exact ⟨(h.added hadded).of_eq rfl rfl rfl, ha.kind.trans hk⟩

theorem IdxInvs.iadd {s : St} (h : IdxInvs s) (given : String) (x : Obj) (now : Int) :
    IdxInvs (s.iadd given x now).1 :=
  ⟨(h.wf.iadd h.kind given x now).2, (h.wf.iadd h.kind given x now).1, PI.stIdx_iadd s given x now h.idx⟩

theorem IdxInvs.of_eq {s s' : St} (h : IdxInvs s) (hf : s'.facts = s.facts) (hr : s'.ri = s.ri) (ht : s'.ti = s.ti)
    (hk : s'.kind = s.kind) : IdxInvs s' :=
  ⟨hk.trans h.kind, h.wf.of_eq hf ht hk, h.idx.of_eq hf hr⟩

theorem IdxInvs.init (store : List (String × J)) (n : Nat) : IdxInvs { kind := .indexed, store := store, fresh := n } :=
  ⟨rfl, (wf_empty .indexed).of_eq rfl rfl rfl, (PI.stIdx_init .indexed n).of_eq rfl rfl⟩

/-- **`Load` is a history of in-memory `add`s**: every state it goes through satisfies the index invariants -/
theorem iLoad_go_inv (now : Int) : ∀ (docs : List (String × J)) (s t : St), IdxInvs s →
    St.iLoad.go now s docs = .ok t → IdxInvs t := by
  intro docs
  induction docs with
  | nil => intro s t h hgo; simp only [St.iLoad.go] at hgo; cases hgo; exact h
  | cons d rest ih =>
    intro s t h hgo
    obtain ⟨id, doc⟩ := d
    cases doc with
    | obj x =>
      simp only [St.iLoad.go] at hgo
      have h1 := h.iadd id x now
      split at hgo
      · rename_i s1 r heq
        rw [heq] at h1
        exact ih s1 t h1 hgo
      · rename_i s1 heq
        rw [heq] at h1
        simp only at h1
        exact ih _ t (IdxInvs.of_eq (s' := { s1 with store := amErase s1.store id }) h1 rfl rfl rfl rfl) hgo
      · cases hgo
    | _ => simp only [St.iLoad.go] at hgo; cases hgo

theorem iLoad_inv {docs : List (String × J)} {now : Int} {t : St} (h : St.iLoad docs now = .ok t) : IdxInvs t := by
  unfold St.iLoad at h
  exact iLoad_go_inv now docs _ t (IdxInvs.init docs 0) h

theorem reload_inv {s t : St} {now : Int} (hk : s.kind = .indexed) (h : s.reload now = .ok t) : IdxInvs t := by
  unfold St.reload at h
  rw [hk] at h
  simp only at h
  cases hl : St.iLoad s.store now with
  | error e => rw [hl] at h; cases h
  | ok t0 =>
    rw [hl] at h
    simp only [Except.map] at h
    cases h
    exact (iLoad_inv hl).of_eq rfl rfl rfl rfl

/-! ## every operation of the `State` interface keeps well-formedness -/

theorem iFindRules_go_le_cl (fuel : Nat) : ∀ (s0 s : St) (now : Int) (ids : List String)
    (acc : List (String × Obj)), StLe s0 s → StLe s0 (St.iFindRules.go now fuel s ids acc).1 := by
  induction fuel with
  | zero => intro s0 s now ids acc h; simpa [St.iFindRules.go] using h
  | succ fuel ih =>
    intro s0 s now ids acc h
    cases ids with
    | nil => rw [St.iFindRules.go]; exact h
    | cons id rest =>
      rw [St.iFindRules.go]
      dsimp only
      have hrem : StLe s0 (St.irem s.fuel s id now).1 := h.trans ((iframe now s.fuel).1 s id)
      cases hc : checkExpiration ((amGet s.facts id).getD []) now with
      | error e =>
        simp only [Bool.false_eq_true, if_false]
        split
        · exact h
        · split
          · exact h
          · exact ih s0 s now rest _ h
          · exact h
      | ok b =>
        cases b with
        | true => simp only [if_true]; exact ih s0 _ now rest acc hrem
        | false =>
          simp only [Bool.false_eq_true, if_false]
          split
          · exact h
          · split
            · exact h
            · exact ih s0 s now rest _ h
            · exact h

theorem lFindRules_go_le_cl (fuel : Nat) : ∀ (s0 s : St) (event : Obj) (now : Int) (ids : List String)
    (acc : List (String × Obj)), StLe s0 s → StLe s0 (St.lFindRules.go event now fuel s ids acc).1 := by
  induction fuel with
  | zero => intro s0 s ev now ids acc h; simpa [St.lFindRules.go] using h
  | succ fuel ih =>
    intro s0 s ev now ids acc h
    cases ids with
    | nil => rw [St.lFindRules.go]; exact h
    | cons id rest =>
      rw [St.lFindRules.go]
      split
      · exact ih s0 s ev now rest acc h
      · split
        · exact ih s0 s ev now rest acc h
        · split
          · exact h
          · split
            · rename_i s1 e heq
              have := (lframe now s.fuel).1 s id; rw [heq] at this; exact h.trans this
            · rename_i s1 u heq
              have := (lframe now s.fuel).1 s id; rw [heq] at this
              exact ih s0 s1 ev now rest acc (h.trans this)
          · split
            · split
              · dsimp only
                split
                · exact h
                · exact ih s0 s ev now rest _ h
              · exact ih s0 s ev now rest acc h
            · exact h

theorem St.get_le (s : St) (id : String) (now : Int) : StLe s (s.get id now).1 := by
  unfold St.get
  cases s.kind
  · simp only [St.iGet]
    split
    · exact StLe.refl s
    · split
      · exact StLe.refl s
      · split
        · rename_i s1 e heq
          have := (iframe now s.fuel).1 s id; rw [heq] at this; exact this
        · rename_i s1 u heq
          have := (iframe now s.fuel).1 s id; rw [heq] at this; exact this
      · exact StLe.refl s
  · simp only [St.lGet]
    split
    · exact StLe.refl s
    · split
      · exact StLe.refl s
      · split
        · rename_i s1 e heq
          have := (lframe now s.fuel).1 s id; rw [heq] at this; exact this
        · rename_i s1 u heq
          have := (lframe now s.fuel).1 s id; rw [heq] at this; exact this
      · exact StLe.refl s

theorem St.search_le (s : St) (p : Obj) (now : Int) : StLe s (s.search p now).1 := by
  unfold St.search
  cases s.kind
  · exact (iframe now s.fuel).2.2.2.1 s p
  · exact (lframe now s.fuel).2.2.1 s p

theorem St.findRules_le (s : St) (ev : Obj) (now : Int) : StLe s (s.findRules ev now).1 := by
  unfold St.findRules
  cases s.kind
  · simp only [St.iFindRules]
    split
    · exact StLe.refl s
    · exact iFindRules_go_le_cl _ s s now _ [] (StLe.refl s)
  · simp only [St.lFindRules]
    exact lFindRules_go_le_cl _ s s ev now _ [] (StLe.refl s)

theorem WF.stepOp {s : St} (h : WF s) (op : ROp) : WF (s.stepOp op).1 := by
  cases op with
  | add g x now => exact h.add g x now
  | rem id now => exact h.le (rem_le s id now)
  | get id now => exact h.le (St.get_le s id now)
  | search p now => exact h.le (St.search_le s p now)
  | findRules ev now => exact h.le (St.findRules_le s ev now)
  | clear => exact (wf_empty s.kind).of_eq rfl rfl rfl

theorem WF.runOps (ops : List ROp) : ∀ {s : St}, WF s → WF (s.runOps ops) := by
  induction ops with
  | nil => intro s h; exact h
  | cons op rest ih => intro s h; exact ih (h.stepOp op)

theorem IReach.stepOp {s : St} (h : IReach s) (hk : s.kind = .indexed) (op : ROp) : IReach (s.stepOp op).1 := by
  cases op with
  | add g x now => simp only [St.stepOp, St.add, hk]; exact .add s g x now h
  | rem id now => simp only [St.stepOp, St.rem, hk]; exact .rem s s.fuel id now h
  | get id now => simp only [St.stepOp, St.get, hk]; exact .get s id now h
  | search p now => simp only [St.stepOp, St.search, hk]; exact .search s s.fuel p now h
  | findRules ev now => simp only [St.stepOp, St.findRules, hk]; exact .findRules s ev now h
  | clear => exact .clear s h

theorem IReach.runOps (ops : List ROp) : ∀ {s : St}, IReach s → s.kind = .indexed → IReach (s.runOps ops) := by
  induction ops with
  | nil => intro s h _; exact h
  | cons op rest ih => intro s h hk; exact ih (h.stepOp hk op) ((St.stepOp_kind s op).trans hk)

theorem IdxInvs.stepOp {s : St} (h : IdxInvs s) (op : ROp) : IdxInvs (s.stepOp op).1 := by
  refine ⟨(St.stepOp_kind s op).trans h.kind, h.wf.stepOp op, ?_⟩
  have hk := h.kind
  cases op with
  | add g x now => simp only [St.stepOp, St.add, hk]; exact PI.stIdx_iAdd s g x now h.idx
  | rem id now => simp only [St.stepOp, St.rem, hk]; exact PI.stIdx_irem _ s id now h.idx
  | get id now => simp only [St.stepOp, St.get, hk]; exact PI.stIdx_iGet s id now h.idx
  | search p now => simp only [St.stepOp, St.search, hk]; exact PI.stIdx_isearch _ s p now h.idx
  | findRules ev now => simp only [St.stepOp, St.findRules, hk]; exact PI.stIdx_iFindRules s ev now h.idx
  | clear => exact (PI.stIdx_init s.kind s.fresh).of_eq rfl rfl

theorem IdxInvs.runOps (ops : List ROp) : ∀ {s : St}, IdxInvs s → IdxInvs (s.runOps ops) := by
  induction ops with
  | nil => intro s h; exact h
  | cons op rest ih => intro s h; exact ih (h.stepOp op)

theorem IdxInvs.empty : IdxInvs (St.empty .indexed) := IdxInvs.init [] 0

/-! ## reload when nothing is expired: same memory, same storage -/

theorem iLoad_go_same (now : Int) (facts : List (String × Obj)) : ∀ (s : St),
    (∀ p ∈ facts, CanonFact p.1 p.2) → (∀ p ∈ facts, IndexableFact p.1 p.2) → (facts.map (·.1)).Nodup →
    (∀ p ∈ facts, amGet s.facts p.1 = none) → (∀ p ∈ facts, unexpired p.2 now = true) →
    ∃ t, St.iLoad.go now s (facts.map (fun p => (p.1, J.obj p.2))) = .ok t ∧
      t.facts = s.facts ++ facts ∧ t.store = s.store ∧ t.kind = s.kind := by
  induction facts with
  | nil => intro s _ _ _ _ _; exact ⟨s, rfl, by simp, rfl, rfl⟩
  | cons p rest ih =>
    intro s hc hi hnd hdisj hun
    obtain ⟨id, f⟩ := p
    simp only [List.map_cons, List.nodup_cons] at hnd
    have hc' : ∀ q ∈ rest, CanonFact q.1 q.2 := fun q hq => hc q (by simp [hq])
    have hi' : ∀ q ∈ rest, IndexableFact q.1 q.2 := fun q hq => hi q (by simp [hq])
    have hun' : ∀ q ∈ rest, unexpired q.2 now = true := fun q hq => hun q (by simp [hq])
    simp only [List.map_cons]
    rw [St.iLoad.go.eq_2]
    rcases iadd_canon (hc (id, f) (by simp)) (hi (id, f) (by simp)) (hdisj (id, f) (by simp)) now with
      ⟨hu, hadd⟩ | ⟨hu, s1, x', hadd, hf1, hs1, hk1⟩
    · have := hun (id, f) (by simp)
      simp only at this hu
      rw [this] at hu; cases hu
    · rw [hadd]
      simp only []
      obtain ⟨t, ht, hft, hst, hkt⟩ := ih s1 hc' hi' hnd.2 (by
        intro q hq
        rw [hf1, amGet_append_single, hdisj q (by simp [hq])]
        have : q.1 ≠ id := by
          intro h; apply hnd.1; rw [← h]; exact List.mem_map.2 ⟨q, hq, rfl⟩
        simp [this]) hun'
      refine ⟨t, ht, ?_, hst.trans hs1, hkt.trans hk1⟩
      rw [hft, hf1]
      simp

/-- nothing stored is expired at `now`, in the vocabulary of the reload lemmas -/
theorem unexpired_all_of_noneExpired {s : St} {now : Int} (h : NoneExpired s now) :
    ∀ p ∈ s.facts, unexpired p.2 now = true := by
  intro p hp
  have := h p hp
  unfold unexpired
  rw [this]

/-- **reload without expired facts gives back the same memory and storage** (indexes rebuilt) -/
theorem reload_same {s : St} (h : IdxInv s) {now : Int} (hne : NoneExpired s now) :
    ∃ t, s.reload now = .ok t ∧ t.facts = s.facts ∧ t.store = s.store ∧ t.fresh = s.fresh ∧ t.kind = s.kind ∧
      IdxInvs t := by
  have hgo := iLoad_go_same now s.facts { kind := .indexed, store := s.store } h.canon h.indexable h.nodup
    (fun _ _ => rfl) (unexpired_all_of_noneExpired hne)
  rw [← h.storeEq] at hgo
  obtain ⟨t0, ht0, hf, hs, hk⟩ := hgo
  have hl : St.iLoad s.store now = .ok t0 := by unfold St.iLoad; exact ht0
  have hr : s.reload now = .ok { t0 with fresh := s.fresh } := by
    unfold St.reload
    rw [h.kind]
    simp only [hl, Except.map]
  refine ⟨_, hr, by simpa using hf, hs, rfl, hk.trans h.kind.symm, reload_inv h.kind hr⟩

/-! ## observations are determined by the facts -/

/-- `Get` answers a fact exactly when it is stored and not expired — whatever the indexes hold -/
theorem St.get_ok_iff (s : St) (id : String) (now : Int) (f : Obj) :
    (s.get id now).2 = .ok f ↔ amGet s.facts id = some f ∧ checkExpiration f now = .ok false := by
  unfold St.get
  cases s.kind
  · simp only [St.iGet]
    split
    · rename_i hg; simp [hg]
    · rename_i fact hg
      split
      · rename_i e hc
        simp only [hg, Option.some.injEq, reduceCtorEq, false_iff, not_and]
        rintro rfl; rw [hc]; simp
      · rename_i hc
        split
        · simp only [hg, Option.some.injEq, reduceCtorEq, false_iff, not_and]
          rintro rfl; rw [hc]; simp
        · simp only [hg, Option.some.injEq, reduceCtorEq, false_iff, not_and]
          rintro rfl; rw [hc]; simp
      · rename_i hc
        simp only [hg, Option.some.injEq, Except.ok.injEq]
        constructor
        · rintro rfl; exact ⟨rfl, hc⟩
        · rintro ⟨rfl, _⟩; rfl
  · simp only [St.lGet]
    split
    · rename_i hg; simp [hg]
    · rename_i fact hg
      split
      · rename_i e hc
        simp only [hg, Option.some.injEq, reduceCtorEq, false_iff, not_and]
        rintro rfl; rw [hc]; simp
      · rename_i hc
        split
        · simp only [hg, Option.some.injEq, reduceCtorEq, false_iff, not_and]
          rintro rfl; rw [hc]; simp
        · simp only [hg, Option.some.injEq, reduceCtorEq, false_iff, not_and]
          rintro rfl; rw [hc]; simp
      · rename_i hc
        simp only [hg, Option.some.injEq, Except.ok.injEq]
        constructor
        · rintro rfl; exact ⟨rfl, hc⟩
        · rintro ⟨rfl, _⟩; rfl

/-- two states with the same facts answer the same facts to every `Get`, at every time -/
theorem get_ok_congr {s t : St} (hf : t.facts = s.facts) (id : String) (now : Int) (f : Obj) :
    (t.get id now).2 = .ok f ↔ (s.get id now).2 = .ok f := by
  rw [St.get_ok_iff, St.get_ok_iff, hf]

/-- … and when the addressed fact is absent or not expired, `Get` is the same pure read on both -/
theorem get_quiet_congr {s t : St} (hf : t.facts = s.facts) (id : String) (now : Int)
    (hq : ∀ f, amGet s.facts id = some f → checkExpiration f now = .ok false) :
    ∃ r, s.get id now = (s, r) ∧ t.get id now = (t, r) := by
  cases hg : amGet s.facts id with
  | none => exact ⟨_, get_of_absent hg, get_of_absent (by rw [hf]; exact hg)⟩
  | some f => exact ⟨_, get_of_present hg (hq f hg), get_of_present (by rw [hf]; exact hg) (hq f hg)⟩

theorem St.search_eq_searchWith (s : St) (p : Obj) (now : Int) : s.search p now = s.searchWith s.fuel p now := by
  unfold St.search St.searchWith; cases s.kind <;> rfl

/-- inside the C02 fragment the two searches return the same matches up to order, and change nothing -/
theorem search_perm_congr {s t : St} (hs : IdxInvs s) (ht : IdxInvs t) (hf : t.facts = s.facts) {now : Int}
    (hne : NoneExpired s now) {p : Obj} (hterm : TermOK p = true) (hsound : MatcherSoundOn s.facts p)
    {R : List (String × List Bs)} (hspec : specSearch s.facts p now = .ok R) :
    ∃ Rs Rt, s.search p now = (s, .ok Rs) ∧ t.search p now = (t, .ok Rt) ∧
      (projRes Rs).Perm R ∧ (projRes Rt).Perm R := by
  have hne' : NoneExpired t now := by intro e he; rw [hf] at he; exact hne e he
  obtain ⟨Rs, h1, h2⟩ := searchWith_indexed hs.kind hs.wf hne hterm hsound hspec (g := s.fuel) (Nat.le_refl _)
  obtain ⟨Rt, h3, h4⟩ := searchWith_indexed ht.kind ht.wf hne' hterm (by rw [hf]; exact hsound)
    (by rw [hf]; exact hspec) (g := t.fuel) (Nat.le_refl _)
  exact ⟨Rs, Rt, by rw [St.search_eq_searchWith]; exact h1, by rw [St.search_eq_searchWith]; exact h3, h2, h4⟩

/-! ## the in-memory `add` does not depend on the indexes -/

theorem unindexRule_congr (a b : St) (id : String) (r : Obj) :
    (a.unindexRule id r).map (fun _ => ()) = (b.unindexRule id r).map (fun _ => ()) := by
  unfold St.unindexRule
  cases getRulePattern r with
  | error e => rfl
  | ok po =>
    cases po with
    | none => rfl
    | some pat =>
      simp only [bind, Except.bind, pure, Except.pure]
      have hind : (piRem a.ri pat id).2 = (piRem b.ri pat id).2 := by
        simp only [piRem]; exact PI.mod_err_indep_r _ _ _ _ _ _
      rcases ha : piRem a.ri pat id with ⟨ri, e⟩
      rcases hb : piRem b.ri pat id with ⟨ri', e'⟩
      rw [ha, hb] at hind
      simp only at hind
      subst hind
      cases e <;> rfl

theorem unindexPrevious_congr {a b : St} (hf : b.facts = a.facts) (id : String) :
    (∃ e, a.unindexPrevious id = .error e ∧ b.unindexPrevious id = .error e) ∨
    (∃ a2 b2 rep, a.unindexPrevious id = .ok (a2, rep) ∧ b.unindexPrevious id = .ok (b2, rep) ∧
      (∃ ri, a2 = { a with ri := ri }) ∧ (∃ ri, b2 = { b with ri := ri })) := by
  unfold St.unindexPrevious
  rw [show amGet b.facts id = amGet a.facts id from by rw [hf]]
  cases hg : amGet a.facts id with
  | none => exact Or.inr ⟨a, b, none, rfl, rfl, ⟨a.ri, rfl⟩, ⟨b.ri, rfl⟩⟩
  | some prev =>
    simp only
    cases he : extractRule prev false with
    | error e => exact Or.inr ⟨a, b, none, rfl, rfl, ⟨a.ri, rfl⟩, ⟨b.ri, rfl⟩⟩
    | ok pr =>
      obtain ⟨ro, f⟩ := pr
      cases ro with
      | none => exact Or.inr ⟨a, b, none, rfl, rfl, ⟨a.ri, rfl⟩, ⟨b.ri, rfl⟩⟩
      | some old =>
        simp only
        have hc := unindexRule_congr a b id old
        cases ha : a.unindexRule id old with
        | error e =>
          rw [ha] at hc
          cases hb : b.unindexRule id old with
          | error e' => rw [hb] at hc; simp [Except.map] at hc; subst hc; exact Or.inl ⟨e, rfl, rfl⟩
          | ok b2 => rw [hb] at hc; simp [Except.map] at hc
        | ok a2 =>
          rw [ha] at hc
          cases hb : b.unindexRule id old with
          | error e' => rw [hb] at hc; simp [Except.map] at hc
          | ok b2 =>
            exact Or.inr ⟨a2, b2, some old, rfl, rfl, St.unindexRule_ri ha, St.unindexRule_ri hb⟩

theorem iaddIndex_congr (a b : St) (id : String) (rule rep : Option Obj) :
    (iaddIndex a id rule rep).2 = (iaddIndex b id rule rep).2 := by
  unfold iaddIndex
  cases rule with
  | none => rfl
  | some r =>
    simp only
    split
    · rfl
    · have h := indexRule_err_indep a b id r
      rcases ha : a.indexRule id r with ⟨a1, ea⟩
      rcases hb : b.indexRule id r with ⟨b1, eb⟩
      rw [ha, hb] at h
      simp only at h
      subst h
      cases ea with
      | none => rfl
      | some e =>
        simp only
        cases rep with
        | none => rfl
        | some old => simp only; split <;> rfl

theorem iaddFresh_fresh {s t : St} (h : t.fresh = s.fresh) (g id : String) :
    (iaddFresh t g id).fresh = (iaddFresh s g id).fresh := by
  unfold iaddFresh St.freshId
  rw [h]
  split <;> simp [h]

/-- the in-memory `add` of the indexed state does not depend on the indexes: same answer, same facts, same counter -/
theorem iadd_congr {s t : St} (hf : t.facts = s.facts) (hfr : t.fresh = s.fresh) (g : String) (x : Obj) (now : Int) :
    (t.iadd g x now).2 = (s.iadd g x now).2 ∧ (t.iadd g x now).1.facts = (s.iadd g x now).1.facts ∧
    (t.iadd g x now).1.fresh = (s.iadd g x now).1.fresh := by
  rw [St.iadd_eq, St.iadd_eq]
  have hfid : t.freshId = s.freshId := by unfold St.freshId; rw [hfr]
  rw [hfid]
  cases prepareFact g s.freshId x now with
  | error e => exact ⟨rfl, hf, hfr⟩
  | ok pr =>
    obtain ⟨id, fact, x'⟩ := pr
    simp only
    have hS := iaddFresh_same s g id
    have hT := iaddFresh_same t g id
    have hFr := iaddFresh_fresh hfr g id
    have hFf : (iaddFresh t g id).facts = (iaddFresh s g id).facts := by rw [hT.1, hS.1, hf]
    cases extractRule fact false with
    | error e => exact ⟨rfl, hFf, hFr⟩
    | ok pr2 =>
      obtain ⟨rule, fact'⟩ := pr2
      simp only
      rcases unindexPrevious_congr hFf id with ⟨e, ha, hb⟩ | ⟨a2, b2, rep, ha, hb, ⟨ria, rfl⟩, ⟨rib, rfl⟩⟩
      · rw [ha, hb]; exact ⟨rfl, hFf, hFr⟩
      · rw [ha, hb]
        simp only
        have herr := iaddIndex_congr { iaddFresh s g id with ri := ria } { iaddFresh t g id with ri := rib } id rule rep
        obtain ⟨ri1, h1⟩ := iaddIndex_ri { iaddFresh s g id with ri := ria } id rule rep
        obtain ⟨ri2, h2⟩ := iaddIndex_ri { iaddFresh t g id with ri := rib } id rule rep
        rcases hx : iaddIndex { iaddFresh s g id with ri := ria } id rule rep with ⟨s3, es⟩
        rcases hy : iaddIndex { iaddFresh t g id with ri := rib } id rule rep with ⟨t3, et⟩
        rw [hx] at herr h1
        rw [hy] at herr h2
        simp only at herr h1 h2
        subst herr h1 h2
        cases es with
        | some e => exact ⟨rfl, hFf, hFr⟩
        | none => exact ⟨rfl, by simp only; rw [hFf], hFr⟩

/-! ## live and reloaded state stay in step -/

theorem ReloadSim.storeEq' {s t : St} (h : ReloadSim s t) : StoreEq t := by
  unfold StoreEq
  rw [h.mem.store, h.mem.facts]; exact h.storeEq

theorem ReloadSim.of_parts {s t : St} (hs : IdxInvs s) (ht : IdxInvs t) (he : StoreEq s) (he' : StoreEq t)
    (hf : t.facts = s.facts) (hfr : t.fresh = s.fresh) : ReloadSim s t :=
  ⟨⟨hf, by rw [he, he', hf], hfr, ht.kind.trans hs.kind.symm⟩, hs, ht, he⟩

theorem iAdd_congr {s t : St} (hf : t.facts = s.facts) (hfr : t.fresh = s.fresh) (g : String) (x : Obj) (now : Int) :
    (t.iAdd g x now).2 = (s.iAdd g x now).2 ∧ (t.iAdd g x now).1.facts = (s.iAdd g x now).1.facts ∧
    (t.iAdd g x now).1.fresh = (s.iAdd g x now).1.fresh := by
  obtain ⟨h1, h2, h3⟩ := iadd_congr hf hfr g x now
  unfold St.iAdd
  rcases hs : s.iadd g x now with ⟨s1, rs⟩
  rcases ht : t.iadd g x now with ⟨t1, rt⟩
  rw [hs, ht] at h1 h2 h3
  simp only at h1 h2 h3
  subst h1
  cases rt with
  | error e => exact ⟨rfl, h2, h3⟩
  | ok pr => exact ⟨rfl, h2, h3⟩

theorem iFindRules_go_quiet (now : Int) (fuel : Nat) : ∀ (s : St) (ids : List String) (acc : List (String × Obj)),
    NoneExpired s now → (St.iFindRules.go now fuel s ids acc).1 = s := by
  induction fuel with
  | zero => intro s ids acc _; simp [St.iFindRules.go]
  | succ fuel ih =>
    intro s ids acc hne
    cases ids with
    | nil => rw [St.iFindRules.go]
    | cons id rest =>
      rw [St.iFindRules.go]
      dsimp only
      have hc : checkExpiration ((amGet s.facts id).getD []) now = .ok false := by
        cases hg : amGet s.facts id with
        | none => rfl
        | some f => exact hne (id, f) (amGet_some_mem hg)
      rw [hc]
      simp only [Bool.false_eq_true, if_false]
      split
      · rfl
      · split
        · rfl
        · exact ih s rest _ hne
        · rfl

theorem findRules_quiet {s : St} (hk : s.kind = .indexed) {now : Int} (hne : NoneExpired s now) (ev : Obj) :
    (s.findRules ev now).1 = s := by
  unfold St.findRules
  rw [hk]
  simp only [St.iFindRules]
  split
  · rfl
  · exact iFindRules_go_quiet now _ s _ [] hne

theorem search_quiet {s : St} (hk : s.kind = .indexed) {now : Int} (hne : NoneExpired s now) (p : Obj) :
    (s.search p now).1 = s := by
  unfold St.search
  rw [hk]
  simp only
  rw [isearch_eq_ispec hne p (g := s.fuel) (Nat.le_refl _)]

theorem St.rem_eq_remOK' (s : St) (id : String) (now : Int) : s.rem id now = s.remOK id now := by
  unfold St.rem St.remOK; cases s.kind <;> rfl

/-- `Rem` inside the fragment: both succeed with the same flag and leave the same facts -/
theorem rem_congr {s t : St} (hs : IdxInvs s) (ht : IdxInvs t) (hf : t.facts = s.facts) {id : String} {now : Int}
    (hne : NoneExpired s now) (hid : isVar id = false) (hun : UnindexOK s) :
    (t.rem id now).2 = (s.rem id now).2 ∧ (∃ b, (s.rem id now).2 = .ok b) ∧
      (t.rem id now).1.facts = (s.rem id now).1.facts := by
  have hne' : NoneExpired t now := by intro e he; rw [hf] at he; exact hne e he
  have hun' : UnindexOK t := by intro e he; rw [hf] at he; exact hun e he
  obtain ⟨s', b, hrs⟩ := remWith_ok hs.wf (hne.but id) hid (fun _ => hun) (Nat.le_refl _)
  obtain ⟨t', c, hrt⟩ := remWith_ok ht.wf (hne'.but id) hid (fun _ => hun') (Nat.le_refl _)
  have hrs' : s.remOK id now = (s', .ok b) := hrs
  have hrt' : t.remOK id now = (t', .ok c) := hrt
  obtain ⟨D, hD, hgone, hb⟩ := remWith_post hs.wf (hne.but id) hid hrs'
  obtain ⟨D', hD', hgone', hc⟩ := remWith_post ht.wf (hne'.but id) hid hrt'
  have e1 := (cascaded_exact hD hgone).1
  have e2 := (cascaded_exact hD' hgone').1
  rw [St.rem_eq_remOK', St.rem_eq_remOK', hrs', hrt']
  refine ⟨?_, ⟨b, rfl⟩, ?_⟩
  · simp only; rw [hb, hc, hf]
  · simp only; rw [e1, e2, hf]

theorem stepOp_fst_add (s : St) (g : String) (x : Obj) (now : Int) : (s.stepOp (.add g x now)).1 = (s.add g x now).1 := rfl
theorem stepOp_fst_rem (s : St) (id : String) (now : Int) : (s.stepOp (.rem id now)).1 = (s.rem id now).1 := rfl
theorem stepOp_fst_get (s : St) (id : String) (now : Int) : (s.stepOp (.get id now)).1 = (s.get id now).1 := rfl
theorem stepOp_fst_search (s : St) (p : Obj) (now : Int) : (s.stepOp (.search p now)).1 = (s.search p now).1 := rfl
theorem stepOp_fst_findRules (s : St) (p : Obj) (now : Int) :
    (s.stepOp (.findRules p now)).1 = (s.findRules p now).1 := rfl

/-- **one step**: an operation of the fragment keeps live and reloaded state in step -/
theorem ReloadSim.stepOp {s t : St} (h : ReloadSim s t) {op : ROp} (hok : op.okFor s) :
    ReloadSim (s.stepOp op).1 (t.stepOp op).1 := by
  have hf := h.mem.facts
  have hfr := h.mem.fresh
  refine ReloadSim.of_parts (h.live.stepOp op) (h.re.stepOp op) (St.stepOp_storeEq h.storeEq op)
    (St.stepOp_storeEq h.storeEq' op) ?_ ?_
  · cases op with
    | add g x now =>
      rw [stepOp_fst_add, stepOp_fst_add]
      simp only [St.add, h.live.kind, h.re.kind]
      exact (iAdd_congr hf hfr g x now).2.1
    | rem id now =>
      rw [stepOp_fst_rem, stepOp_fst_rem]
      exact (rem_congr h.live h.re hf hok.1 hok.2.1 hok.2.2).2.2
    | get id now =>
      rw [stepOp_fst_get, stepOp_fst_get]
      obtain ⟨r, h1, h2⟩ := get_quiet_congr hf id now hok
      rw [h1, h2]; exact hf
    | search p now =>
      have hne' : NoneExpired t now := by intro e he; rw [hf] at he; exact hok e he
      rw [stepOp_fst_search, stepOp_fst_search, search_quiet h.live.kind hok, search_quiet h.re.kind hne']
      exact hf
    | findRules ev now =>
      have hne' : NoneExpired t now := by intro e he; rw [hf] at he; exact hok e he
      rw [stepOp_fst_findRules, stepOp_fst_findRules, findRules_quiet h.live.kind hok, findRules_quiet h.re.kind hne']
      exact hf
    | clear => rfl
  · cases op with
    | add g x now =>
      rw [stepOp_fst_add, stepOp_fst_add]
      simp only [St.add, h.live.kind, h.re.kind]
      exact (iAdd_congr hf hfr g x now).2.2
    | rem id now =>
      rw [stepOp_fst_rem, stepOp_fst_rem, (rem_le s id now).fresh, (rem_le t id now).fresh]
      exact hfr
    | get id now =>
      rw [stepOp_fst_get, stepOp_fst_get]
      obtain ⟨r, h1, h2⟩ := get_quiet_congr hf id now hok
      rw [h1, h2]; exact hfr
    | search p now =>
      have hne' : NoneExpired t now := by intro e he; rw [hf] at he; exact hok e he
      rw [stepOp_fst_search, stepOp_fst_search, search_quiet h.live.kind hok, search_quiet h.re.kind hne']
      exact hfr
    | findRules ev now =>
      have hne' : NoneExpired t now := by intro e he; rw [hf] at he; exact hok e he
      rw [stepOp_fst_findRules, stepOp_fst_findRules, findRules_quiet h.live.kind hok, findRules_quiet h.re.kind hne']
      exact hfr
    | clear => exact hfr

/-- **every history of the fragment** -/
theorem ReloadSim.runOps : ∀ (ops : List ROp) {s t : St}, ReloadSim s t → OpsOK s ops →
    ReloadSim (s.runOps ops) (t.runOps ops) := by
  intro ops
  induction ops with
  | nil => intro s t h _; exact h
  | cons op rest ih => intro s t h hok; exact ih (h.stepOp hok.1) hok.2

/-- the answers of the writes (`Add`: the id or the error; `Rem`: the flag; both reduced to ok/error by `stepOp`,
see `add_result_congr` / `rem_congr` for the values) agree as well -/
theorem ReloadSim.add_result {s t : St} (h : ReloadSim s t) (g : String) (x : Obj) (now : Int) :
    (t.add g x now).2 = (s.add g x now).2 := by
  simp only [St.add, h.live.kind, h.re.kind]
  exact (iAdd_congr h.mem.facts h.mem.fresh g x now).1

theorem ReloadSim.rem_result {s t : St} (h : ReloadSim s t) {id : String} {now : Int}
    (hok : (ROp.rem id now).okFor s) : (t.rem id now).2 = (s.rem id now).2 ∧ ∃ b, (s.rem id now).2 = .ok b :=
  have := rem_congr h.live h.re h.mem.facts hok.1 hok.2.1 hok.2.2
  ⟨this.1, this.2.1⟩

/-- the relation holds between a live reachable indexed state without expired facts and its reload -/
theorem ReloadSim.of_reload {s : St} (h : IdxInv s) (hi : IdxInvs s) {now : Int} (hne : NoneExpired s now) :
    ∃ t, s.reload now = .ok t ∧ ReloadSim s t := by
  obtain ⟨t, hr, hf, hs, hfr, hk, hinv⟩ := reload_same h hne
  exact ⟨t, hr, ⟨⟨hf, hs, hfr, hk⟩, hi, hinv, h.storeEq⟩⟩

theorem OpsOK.take : ∀ (k : Nat) {s : St} {ops : List ROp}, OpsOK s ops → OpsOK s (ops.take k) := by
  intro k
  induction k with
  | zero => intro s ops _; simp [OpsOK]
  | succ k ih =>
    intro s ops h
    cases ops with
    | nil => simp [OpsOK]
    | cons op rest => exact ⟨h.1, ih h.2⟩

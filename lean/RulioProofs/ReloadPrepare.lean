import RulioProofs.ReloadLinear

open AM

set_option linter.unusedSimpArgs false
set_option linter.unusedVariables false

/-! # `PrepareFact` is idempotent on its own output (what makes the indexed `Load` reproduce the live facts) -/

/-! ## `Obj` operations are the association-list operations -/

theorem Obj.get?_eq (o : Obj) (k : String) : o.get? k = amGet o k := by
  unfold Obj.get?
  induction o with
  | nil => rfl
  | cons p r ih => obtain ⟨k', v⟩ := p; simp only [lookupKey, amGet, ih]

theorem Obj.set_eq (o : Obj) (k : String) (v : J) : o.set k v = amSet o k v := rfl
theorem Obj.erase_eq (o : Obj) (k : String) : o.erase k = amErase o k := rfl

theorem Obj.get?_set (o : Obj) (k k' : String) (v : J) :
    (o.set k v).get? k' = if k' == k then some v else o.get? k' := by
  rw [Obj.get?_eq, Obj.get?_eq, Obj.set_eq, amGet_amSet]

theorem Obj.get?_set_self (o : Obj) (k : String) (v : J) : (o.set k v).get? k = some v := by
  simp [Obj.get?_set]

theorem Obj.get?_set_ne (o : Obj) {k k' : String} (v : J) (h : k' ≠ k) : (o.set k v).get? k' = o.get? k' := by
  simp [Obj.get?_set, h]

theorem Obj.get?_erase (o : Obj) (k k' : String) :
    (o.erase k).get? k' = if k' == k then none else o.get? k' := by
  rw [Obj.get?_eq, Obj.get?_eq, Obj.erase_eq, amGet_amErase]

theorem amSet_fix {α} (m : List (String × α)) (k : String) (v : α) (hany : m.any (fun p => p.1 == k) = true)
    (hall : ∀ p ∈ m, p.1 = k → p = (k, v)) : amSet m k v = m := by
  unfold amSet
  rw [hany]; simp only [if_true]
  have : ∀ p ∈ m, (if p.1 == k then (k, v) else p) = p := by
    intro p hp
    by_cases hk : p.1 = k
    · simp only [hk, beq_self_eq_true, if_true]; exact (hall p hp hk).symm
    · simp [hk]
  conv => rhs; rw [← List.map_id m]
  exact List.map_congr_left this

theorem Obj.set_set_same (o : Obj) (k : String) (v : J) : (o.set k v).set k v = o.set k v := by
  rw [Obj.set_eq (o.set k v)]
  apply amSet_fix
  · have := amHas_eq (o.set k v) k
    unfold amHas at this
    rw [this, Obj.set_eq, amGet_amSet_self]; rfl
  · intro p hp hk
    unfold Obj.set at hp
    split at hp
    · obtain ⟨q, _, hq⟩ := List.mem_map.1 hp
      by_cases hqk : q.1 = k
      · simp [hqk] at hq; exact hq.symm
      · simp [hqk] at hq; rw [← hq] at hk; exact absurd hk hqk
    · rcases List.mem_append.1 hp with h | h
      · rename_i hno
        exfalso; apply hno
        exact List.any_eq_true.2 ⟨p, h, by simp [hk]⟩
      · simp at h; exact h

theorem filter_map_replace (P : String → Bool) (o : Obj) {k : String} (v : J) (hk : P k = false) :
    (o.map (fun p => if p.1 == k then (k, v) else p)).filter (fun kv => P kv.1) = o.filter (fun kv => P kv.1) := by
  induction o with
  | nil => rfl
  | cons p r ih =>
    by_cases hp : p.1 = k
    · simp only [List.map_cons, hp, beq_self_eq_true, if_true, List.filter_cons, hk, Bool.false_eq_true, if_false]
      exact ih
    · have hb : (p.1 == k) = false := by simp [hp]
      simp only [List.map_cons, hb, Bool.false_eq_true, if_false, List.filter_cons]
      rw [ih]

theorem Obj.filter_set (P : String → Bool) (o : Obj) {k : String} (v : J) (hk : P k = false) :
    (o.set k v).filter (fun kv => P kv.1) = o.filter (fun kv => P kv.1) := by
  unfold Obj.set
  split
  · exact filter_map_replace P o v hk
  · simp [List.filter_append, hk]

theorem Obj.filter_erase (P : String → Bool) (o : Obj) {k : String} (hk : P k = false) :
    (o.erase k).filter (fun kv => P kv.1) = o.filter (fun kv => P kv.1) := by
  unfold Obj.erase
  rw [List.filter_filter]
  apply List.filter_congr
  intro p _
  by_cases hp : p.1 = k
  · simp [hp, hk]
  · simp [hp]

/-! ## what `setExpires` produces -/

/-- the parts of a fact that determine its id -/
def IdPart (x m : Obj) : Prop :=
  m.filter (fun kv => idProperty kv.1) = x.filter (fun kv => idProperty kv.1) ∧ m.get? "id" = x.get? "id"

theorem IdPart.refl (x : Obj) : IdPart x x := ⟨rfl, rfl⟩
theorem IdPart.trans {a b c : Obj} (h1 : IdPart a b) (h2 : IdPart b c) : IdPart a c :=
  ⟨h2.1.trans h1.1, h2.2.trans h1.2⟩

theorem idProp_ttl : idProperty "ttl" = false := by decide +kernel
theorem idProp_expires : idProperty "expires" = false := by decide +kernel
theorem idProp_rule : idProperty "rule" = false := by decide +kernel

theorem IdPart.set {x : Obj} {k : String} (v : J) (hk : idProperty k = false) (hid : "id" ≠ k) :
    IdPart x (x.set k v) := ⟨Obj.filter_set idProperty x v hk, Obj.get?_set_ne x v hid⟩
theorem IdPart.erase {x : Obj} {k : String} (hk : idProperty k = false) (hid : "id" ≠ k) :
    IdPart x (x.erase k) := ⟨Obj.filter_erase idProperty x hk, by simp [Obj.get?_erase, hid]⟩

/-- the shape of a fact that went through `setExpires` -/
structure ExpShape (m : Obj) (he : Bool) (e : Int) : Prop where
  noTtl : m.get? "ttl" = none
  exp : (he = false ∧ e = 0 ∧ m.get? "expires" = none) ∨
        (he = true ∧ m.get? "expires" = some (.num e) ∧
          (m.get? "rule" = none ∨ ∃ m0 r0, m = Obj.set m0 "rule" (.obj (Obj.set r0 "expires" (.num e)))))

theorem setExpires_shape {x m : Obj} {now : Int} {he : Bool} {e : Int} (h : setExpires x now = .ok (m, he, e)) :
    IdPart x m ∧ ExpShape m he e := by
  unfold setExpires at h
  simp only [bind, Except.bind, pure, Except.pure] at h
  -- stage A
  have hA : ∀ (a : Obj) (z : Int),
      (match x.get? "ttl" with
        | none => (Except.ok (x, 0) : Except LErr (Obj × Int))
        | some ttl =>
          match ttl with
          | J.num n => Except.ok ((x.erase "ttl").set "expires" (J.num (now + n)), now + n)
          | J.str s =>
            match parseDurationSecs s with
            | some n => Except.ok ((x.erase "ttl").set "expires" (J.num (now + n)), now + n)
            | none => Except.error "badTTL"
          | _ => Except.error "badTTL") = .ok (a, z) →
      IdPart x a ∧ a.get? "ttl" = none := by
    intro a z ha
    have hset : ∀ v, IdPart x ((x.erase "ttl").set "expires" v) ∧ ((x.erase "ttl").set "expires" v).get? "ttl" = none := by
      intro v
      refine ⟨(IdPart.erase idProp_ttl (by decide)).trans (IdPart.set v idProp_expires (by decide)), ?_⟩
      rw [Obj.get?_set_ne _ _ (by decide), Obj.get?_erase]; simp
    split at ha
    · rename_i hn; cases ha; exact ⟨IdPart.refl x, hn⟩
    · split at ha
      · cases ha; exact hset _
      · split at ha
        · cases ha; exact hset _
        · cases ha
      · cases ha
  split at h
  · cases h
  · rename_i v hv
    obtain ⟨a, z⟩ := v
    obtain ⟨hidA, httlA⟩ := hA a z hv
    simp only at h
    split at h
    · rename_i hne
      cases h
      exact ⟨hidA, httlA, .inl ⟨rfl, rfl, hne⟩⟩
    · rename_i exp hexp
      -- stage B
      split at h
      · cases h
      · rename_i w hw
        obtain ⟨b, t⟩ := w
        have hB : IdPart a b ∧ b.get? "ttl" = none ∧ b.get? "expires" = some (.num t) := by
          split at hw
          · cases hw; exact ⟨IdPart.refl _, httlA, hexp⟩
          · split at hw
            · cases hw
              refine ⟨IdPart.set _ idProp_expires (by decide), ?_, Obj.get?_set_self _ _ _⟩
              rw [Obj.get?_set_ne _ _ (by decide)]; exact httlA
            · cases hw
          · cases hw
        obtain ⟨hidB, httlB, hexpB⟩ := hB
        simp only at h
        split at h
        · rename_i hnr
          cases h
          exact ⟨hidA.trans hidB, httlB, .inr ⟨rfl, hexpB, .inl hnr⟩⟩
        · rename_i r hr
          cases h
          refine ⟨hidA.trans (hidB.trans (IdPart.set _ idProp_rule (by decide))), ?_, .inr ⟨rfl, ?_, .inr ⟨b, r, rfl⟩⟩⟩
          · rw [Obj.get?_set_ne _ _ (by decide)]; exact httlB
          · rw [Obj.get?_set_ne _ _ (by decide)]; exact hexpB
        · cases h

/-! ## prepared facts are canonical -/

theorem setExpires_none {F : Obj} (now : Int) (httl : F.get? "ttl" = none) (hexp : F.get? "expires" = none) :
    setExpires F now = .ok (F, false, 0) := by
  simp [setExpires, bind, Except.bind, pure, Except.pure, httl, hexp]

theorem setExpires_num_norule {F : Obj} (now : Int) {n : Int} (httl : F.get? "ttl" = none)
    (hexp : F.get? "expires" = some (.num n)) (hr : F.get? "rule" = none) :
    setExpires F now = .ok (F, true, n) := by
  simp [setExpires, bind, Except.bind, pure, Except.pure, httl, hexp, hr]

theorem setExpires_num_rule {F : Obj} (now : Int) {n : Int} {r : Obj} (httl : F.get? "ttl" = none)
    (hexp : F.get? "expires" = some (.num n)) (hr : F.get? "rule" = some (.obj r)) :
    setExpires F now = .ok (F.set "rule" (.obj (Obj.set r "expires" (.num n))), true, n) := by
  simp [setExpires, bind, Except.bind, pure, Except.pure, httl, hexp, hr]

theorem parseProp_congr {x m : Obj} (h : IdPart x m) : parseProp m = parseProp x := by
  unfold parseProp
  rw [h.1, h.2]

theorem genId_canon {x m : Obj} (h : IdPart x m) {given fresh id : String} (hg : genId x given fresh = .ok id)
    (hfresh : fresh ≠ "") (fresh' : String) : genId m id fresh' = .ok id := by
  unfold genId at hg ⊢
  rw [parseProp_congr h]
  cases hp : parseProp x with
  | error e => rw [hp] at hg; simp [bind, Except.bind] at hg
  | ok po =>
    rw [hp] at hg
    cases po with
    | some t =>
      obtain ⟨pid, prop, v⟩ := t
      simp only [bind, Except.bind, pure, Except.pure] at hg ⊢
      exact hg
    | none =>
      simp only [bind, Except.bind, pure, Except.pure] at hg ⊢
      have hne : (if given == "" then fresh else given) ≠ "" := by
        by_cases hgv : given = ""
        · simp [hgv, hfresh]
        · simp [hgv]
      generalize (if given == "" then fresh else given) = id0 at hg hne
      by_cases hv : isVar id0 = true
      · simp [hv] at hg
      · simp only [hv, Bool.false_eq_true, if_false] at hg
        have hid0 : id0 = id := by injection hg
        subst hid0
        have hb : (id0 == "") = false := by simpa using hne
        simp only [hb, Bool.false_eq_true, if_false, hv]

theorem extractRule_nonobj {F : Obj} (h : ∀ r, F.get? "rule" ≠ some (.obj r)) : extractRule F false = .ok (none, F) := by
  unfold extractRule
  cases hr : F.get? "rule" with
  | none => rfl
  | some v =>
    cases v with
    | obj r => exact absurd hr (h r)
    | _ => rfl

/-- the core of idempotence: the shape `setExpires` leaves behind is a fixed point of `setExpires` and of `ExtractRule` -/
theorem canon_of_shape {m : Obj} {he : Bool} {e : Int} (hs : ExpShape m he e)
    (hrule : he = true → ∀ v, m.get? "rule" = some v → ∃ r, v = .obj r) :
    indexedForm m = m ∧ (∀ now, setExpires m now = .ok (m, expOf m)) ∧ ∃ r, extractRule m false = .ok (r, m) := by
  obtain ⟨httl, hexp⟩ := hs
  rcases hexp with ⟨rfl, rfl, hne⟩ | ⟨rfl, hnum, hr⟩
  · -- no expiry
    have hex : ∃ r, extractRule m false = .ok (r, m) := by
      unfold extractRule
      cases hr : m.get? "rule" with
      | none => exact ⟨none, rfl⟩
      | some v =>
        cases v with
        | obj r => simp only [hne]; exact ⟨some r, rfl⟩
        | _ => exact ⟨none, rfl⟩
    refine ⟨?_, ?_, hex⟩
    · obtain ⟨r, hr⟩ := hex; unfold indexedForm; rw [hr]
    · intro now; rw [setExpires_none now httl hne]; simp [expOf, hne]
  · have hexpOf : expOf m = (true, e) := by simp [expOf, hnum]
    rcases hr with hnr | ⟨m0, r0, rfl⟩
    · have hex : extractRule m false = .ok (none, m) := extractRule_nonobj (by rw [hnr]; intro r h; cases h)
      refine ⟨?_, ?_, ⟨none, hex⟩⟩
      · unfold indexedForm; rw [hex]
      · intro now; rw [setExpires_num_norule now httl hnum hnr, hexpOf]
    · have hgr : (Obj.set m0 "rule" (.obj (Obj.set r0 "expires" (.num e)))).get? "rule" =
          some (.obj (Obj.set r0 "expires" (.num e))) := Obj.get?_set_self _ _ _
      have hfix : (Obj.set m0 "rule" (.obj (Obj.set r0 "expires" (.num e)))).set "rule"
          (.obj (Obj.set (Obj.set r0 "expires" (.num e)) "expires" (.num e))) =
          Obj.set m0 "rule" (.obj (Obj.set r0 "expires" (.num e))) := by
        rw [Obj.set_set_same r0, Obj.set_set_same m0]
      have hex : extractRule (Obj.set m0 "rule" (.obj (Obj.set r0 "expires" (.num e)))) false =
          .ok (some (Obj.set r0 "expires" (.num e)), Obj.set m0 "rule" (.obj (Obj.set r0 "expires" (.num e)))) := by
        unfold extractRule
        simp only [hgr, hnum]
        rw [Obj.set_set_same r0, Obj.set_set_same m0]
      refine ⟨?_, ?_, ⟨_, hex⟩⟩
      · unfold indexedForm; rw [hex]
      · intro now
        rw [setExpires_num_rule now httl hnum hgr, hfix, hexpOf]

theorem prepareFact_parts {given fresh : String} {x : Obj} {now : Int} {id : String} {m x' : Obj}
    (hp : prepareFact given fresh x now = .ok (id, m, x')) :
    genId x given fresh = .ok id ∧ ∃ he e, setExpires x now = .ok (m, he, e) ∧ (he && notAfter e now) = false := by
  unfold prepareFact at hp
  simp only [bind, Except.bind, pure, Except.pure] at hp
  cases hg : genId x given fresh with
  | error err => rw [hg] at hp; cases hp
  | ok id' =>
    rw [hg] at hp; simp only at hp
    cases hs : setExpires x now with
    | error err => rw [hs] at hp; cases hp
    | ok t =>
      obtain ⟨m', he, e⟩ := t
      rw [hs] at hp; simp only at hp
      split at hp
      · cases hp
      · rename_i hne
        cases hp
        exact ⟨rfl, he, e, rfl, by simpa using hne⟩

/-- **prepared facts are canonical**: the in-memory (indexed) form of any prepared fact is a fixed point of
preparation under its own id -/
theorem canon_of_prepare {given fresh : String} {x : Obj} {now : Int} {id : String} {m x' : Obj}
    (hp : prepareFact given fresh x now = .ok (id, m, x')) (hfresh : fresh ≠ "") :
    indexedForm m = m ∧ CanonFact id m := by
  obtain ⟨hg, he, e, hs, _⟩ := prepareFact_parts hp
  obtain ⟨hid, hshape⟩ := setExpires_shape hs
  have hrule : he = true → ∀ v, m.get? "rule" = some v → ∃ r, v = .obj r := by
    intro hhe v hv
    rcases hshape.exp with ⟨hf, _, _⟩ | ⟨_, _, hr⟩
    · rw [hf] at hhe; cases hhe
    · rcases hr with hnr | ⟨m0, r0, rfl⟩
      · rw [hnr] at hv; cases hv
      · rw [Obj.get?_set_self] at hv; cases hv; exact ⟨_, rfl⟩
  obtain ⟨hform, hse, hex⟩ := canon_of_shape hshape hrule
  exact ⟨hform, fun fresh' => genId_canon hid hg hfresh fresh', hse, hex⟩

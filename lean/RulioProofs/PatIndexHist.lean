import RulioProofs.PatIndexMatch

/-! # Pattern index: the search never fails on events of the fragment; the index invariant over histories
(C01, part 4) -/

open List

namespace PI

/-! ## totality of the search on `EvOK` events -/

theorem evOKO_iff {l : List (String × J)} :
    evOKO l = true ↔ ∀ kv ∈ l, isVar kv.1 = false ∧ evOKv kv.2 = true :=
  ⟨fun h => evOKO_mem h, evOKO_of_mem⟩

theorem evOKO_append {a b : List (String × J)} (ha : evOKO a = true) (hb : evOKO b = true) :
    evOKO (a ++ b) = true := by
  rw [evOKO_iff] at *
  intro kv hkv
  rcases List.mem_append.1 hkv with h | h
  · exact ha kv h
  · exact hb kv h

theorem evOKO_mapToPairs {l : List (String × J)} (h : evOKO l = true) : evOKO (mapToPairs l) = true := by
  rw [evOKO_iff] at *
  intro kv hkv
  exact h kv ((mapToPairs_perm l).mem_iff.1 hkv)

theorem evOKO_elems {k : String} (hk : isVar k = false) {xs s : List J} (hxs : evOKA xs = true)
    (hs : sortValues xs = .ok s) : evOKO (s.map (fun x => (k, x))) = true := by
  rw [evOKO_iff]
  intro kv hkv
  obtain ⟨x, hx, rfl⟩ := List.mem_map.1 hkv
  exact ⟨hk, (evOKA_mem hxs x ((sortValues_perm hs).mem_iff.1 hx)).1⟩

theorem picast_v_inv {v : J} (h : picast v = .v) : ∃ s, v = .str s ∧ isVar s = true := by
  cases v with
  | str s =>
    refine ⟨s, rfl, ?_⟩
    by_cases hs : hasPre s "?" = true
    · exact hs
    · simp only [picast, hs, Bool.false_eq_true, if_false] at h
      split at h <;> cases h
  | _ => simp [picast] at h

/-- on an event of the fragment the search succeeds, whatever the trie and the fuel -/
theorem search_total : ∀ (fuel : Nat) (idx : PI) (E : List (String × J)), evOKO E = true →
    ∃ ids, search fuel idx E = .ok ids := by
  intro fuel
  induction fuel with
  | zero => intro idx E _; exact ⟨[], search_zero idx E⟩
  | succ fuel ih =>
    intro idx E hE
    match E, hE with
    | [], _ => exact ⟨[], search_nil _ idx⟩
    | (k, v) :: rest, hE =>
      simp only [evOKO, Bool.and_eq_true, Bool.not_eq_true'] at hE
      obtain ⟨⟨hk, hv⟩, hrest⟩ := hE
      rw [search_cons]
      simp only [hk, Bool.false_and, Bool.false_eq_true, if_false]
      cases hki : (idx.child (.str k)).orElse (fun _ => idx.child (.str "?")) with
      | none => exact ih idx rest hrest
      | some ki =>
        simp only []
        -- the value step succeeds and leaves pairs of the fragment
        have hstep : ∀ i0 n0, ∃ ids1 next1 rest1,
            stepVal fuel ki k v rest i0 n0 = .ok (ids1, next1, rest1) ∧ evOKO rest1 = true := by
          intro i0 n0
          unfold stepVal
          cases hc : picast v with
          | v =>
            obtain ⟨s, rfl, hs⟩ := picast_v_inv hc
            simp [evOKv, hs] at hv
          | s x =>
            simp only []
            cases ki.child (.str x) <;> exact ⟨_, _, _, rfl, hrest⟩
          | m kvs =>
            have := picast_m v kvs hc; subst this
            simp only []
            cases ki.child .map with
            | none => exact ⟨_, _, _, rfl, hrest⟩
            | some mi =>
              obtain ⟨more, hmore⟩ := ih mi (mapToPairs kvs ++ rest)
                (evOKO_append (evOKO_mapToPairs (by simpa [evOKv] using hv)) hrest)
              simp only [hmore]
              exact ⟨_, _, _, rfl, hrest⟩
          | a xs =>
            have := picast_a v xs hc; subst this
            have hxs : evOKA xs = true := by simpa [evOKv] using hv
            obtain ⟨s, hs⟩ := evOKA_sortValues hxs
            simp only [hs]
            exact ⟨_, _, _, rfl, evOKO_append (evOKO_elems hk hxs hs) hrest⟩
        obtain ⟨ids1, next1, rest1, hst, hr1⟩ := hstep _ _
        rw [hst]
        obtain ⟨mores, hmores⟩ := mapM_ok_of_all (fun n => search fuel n rest1) next1
          (fun n _ => ih n rest1 hr1)
        simp only [bind, Except.bind, hmores]
        exact ⟨_, rfl⟩

/-! ## id lists under `updIds` -/

theorem mem_updIds_add {id x : String} {l : List String} : x ∈ updIds id true l ↔ x ∈ l ∨ x = id := by
  unfold updIds
  simp only [if_true]
  split
  · next h =>
    have : id ∈ l := by simpa using h
    constructor
    · exact Or.inl
    · rintro (h | rfl)
      · exact h
      · exact this
  · simp

theorem mem_updIds_rem {id x : String} {l : List String} (hl : l.Nodup) :
    x ∈ updIds id false l ↔ x ∈ l ∧ x ≠ id := by
  unfold updIds
  simp only [Bool.false_eq_true, if_false]
  rw [hl.mem_erase_iff]; exact and_comm

theorem nodup_updIds {id : String} {add : Bool} {l : List String} (hl : l.Nodup) : (updIds id add l).Nodup := by
  unfold updIds
  cases add
  · simp only [Bool.false_eq_true, if_false]; exact hl.erase _
  · simp only [if_true]
    split
    · exact hl
    · next h =>
      have : id ∉ l := by simpa using h
      rw [List.nodup_append]
      refine ⟨hl, by simp, ?_⟩
      intro a ha b hb
      simp at hb; subst hb
      exact fun h' => this (h' ▸ ha)

theorem nodupIds_empty : NodupIds empty := fun π => by rw [idsAt_empty]; exact List.nodup_nil

theorem searchFuel_gt (pairs : List (String × J)) : szO pairs < searchFuel pairs := by
  unfold searchFuel; omega

/-! ## `mod`, membership form -/

theorem ModSpec.nodup {idx idx' : PI} {π? id add} (h : ModSpec idx idx' π? (updIds id add)) (hn : NodupIds idx) :
    NodupIds idx' := by
  intro ρ; rw [h ρ]; split
  · exact nodup_updIds (hn ρ)
  · exact hn ρ

/-- adding never removes a membership -/
theorem ModSpec.add_mono {idx idx' : PI} {π? id} (h : ModSpec idx idx' π? (updIds id true)) {ρ : List Edge}
    {x : String} (hx : x ∈ idsAt idx ρ) : x ∈ idsAt idx' ρ := by
  rw [h ρ]; split
  · exact mem_updIds_add.2 (Or.inl hx)
  · exact hx

theorem ModSpec.add_mem {idx idx' : PI} {π id} (h : ModSpec idx idx' (some π) (updIds id true)) :
    id ∈ idsAt idx' π := by
  rw [h π]; simp only [if_true]; exact mem_updIds_add.2 (Or.inr rfl)

/-- removing `id` never removes another id's membership -/
theorem ModSpec.rem_other {idx idx' : PI} {π? id} (h : ModSpec idx idx' π? (updIds id false))
    (hn : NodupIds idx) {ρ : List Edge} {x : String} (hne : x ≠ id) (hx : x ∈ idsAt idx ρ) :
    x ∈ idsAt idx' ρ := by
  rw [h ρ]; split
  · exact (mem_updIds_rem (hn ρ)).2 ⟨hx, hne⟩
  · exact hx

theorem piAdd_spec (ri : PI) (p : Obj) (id : String) :
    ((piAdd ri p id).2 = none ↔ (path (mapToPairs p)).isSome = true) ∧
    ModSpec ri (piAdd ri p id).1 (path (mapToPairs p)) (updIds id true) :=
  mod_spec id true _ ri _ (searchFuel_gt _)

theorem piRem_spec (ri : PI) (p : Obj) (id : String) :
    ((piRem ri p id).2 = none ↔ (path (mapToPairs p)).isSome = true) ∧
    ModSpec ri (piRem ri p id).1 (path (mapToPairs p)) (updIds id false) :=
  mod_spec id false _ ri _ (searchFuel_gt _)

/-! ## association lists -/

theorem amGet_map_ne {α : Type} (k k' : String) (v : α) (h : k' ≠ k) : ∀ m : List (String × α),
    amGet (m.map (fun p => if p.1 == k then (k, v) else p)) k' = amGet m k'
  | [] => rfl
  | (pk, pv) :: m => by
    simp only [List.map_cons]
    by_cases hp : pk = k
    · subst hp
      have : (k' == pk) = false := by simpa using h
      simp only [beq_self_eq_true, if_true, amGet, this, Bool.false_eq_true, if_false]
      exact amGet_map_ne pk k' v h m
    · have h1 : (pk == k) = false := by simpa using hp
      simp only [h1, Bool.false_eq_true, if_false, amGet]
      rw [amGet_map_ne k k' v h m]

theorem amGet_map_eq {α : Type} (k : String) (v : α) : ∀ m : List (String × α),
    m.any (fun p => p.1 == k) = true →
    amGet (m.map (fun p => if p.1 == k then (k, v) else p)) k = some v
  | [], h => by simp at h
  | (pk, pv) :: m, h => by
    simp only [List.map_cons]
    by_cases hp : pk = k
    · subst hp; simp [amGet]
    · have h1 : (pk == k) = false := by simpa using hp
      have h2 : (k == pk) = false := by simpa using fun h' => hp h'.symm
      simp only [List.any_cons, h1, Bool.false_or] at h
      simp only [h1, Bool.false_eq_true, if_false, amGet, h2]
      exact amGet_map_eq k v m h

theorem amGet_append {α : Type} (k' : String) (l : List (String × α)) : ∀ m : List (String × α),
    amGet (m ++ l) k' = (match amGet m k' with | some x => some x | none => amGet l k')
  | [] => rfl
  | (pk, pv) :: m => by
    simp only [List.cons_append, amGet]
    split
    · rfl
    · exact amGet_append k' l m

theorem amGet_none_of_not_any {α : Type} (k : String) : ∀ m : List (String × α),
    m.any (fun p => p.1 == k) = false → amGet m k = none
  | [], _ => rfl
  | (pk, pv) :: m, h => by
    simp only [List.any_cons, Bool.or_eq_false_iff] at h
    have h2 : (k == pk) = false := by
      have : pk ≠ k := by simpa using h.1
      simpa using fun h' => this h'.symm
    simp only [amGet, h2, Bool.false_eq_true, if_false]
    exact amGet_none_of_not_any k m h.2

theorem amGet_amSet {α : Type} (m : List (String × α)) (k k' : String) (v : α) :
    amGet (amSet m k v) k' = if k' = k then some v else amGet m k' := by
  unfold amSet
  by_cases ha : m.any (fun p => p.1 == k) = true
  · simp only [ha, if_true]
    by_cases hk : k' = k
    · subst hk; simp only [if_true]; exact amGet_map_eq _ v m ha
    · simp only [hk, if_false]; exact amGet_map_ne k k' v hk m
  · have ha' : m.any (fun p => p.1 == k) = false := Bool.eq_false_iff.mpr ha
    simp only [ha', Bool.false_eq_true, if_false]
    rw [amGet_append]
    by_cases hk : k' = k
    · subst hk; simp [amGet_none_of_not_any _ m ha', amGet]
    · have : (k' == k) = false := by simpa using hk
      simp only [hk, if_false, amGet, this, Bool.false_eq_true]
      cases amGet m k' <;> rfl

theorem amGet_amErase {α : Type} (m : List (String × α)) (k k' : String) :
    amGet (amErase m k) k' = if k' = k then none else amGet m k' := by
  unfold amErase
  induction m with
  | nil => simp [amGet]
  | cons p m ih =>
    obtain ⟨pk, pv⟩ := p
    simp only [List.filter_cons]
    by_cases hp : pk = k
    · subst hp
      simp only [bne_self_eq_false, Bool.false_eq_true, if_false, ih, amGet]
      by_cases hk : k' = pk
      · simp [hk]
      · have : (k' == pk) = false := by simpa using hk
        simp [hk, this]
    · have h1 : (pk != k) = true := by simpa using hp
      simp only [h1, if_true, amGet, ih]
      by_cases hk : k' = pk
      · subst hk; simp [hp]
      · have : (k' == pk) = false := by simpa using hk
        simp [this]

/-! ## the invariant over histories -/

/-- id lists are duplicate free and every indexed rule sits at the end of its pattern's path -/
def HInv (s : IdxSt) : Prop := NodupIds s.ri ∧ Indexed s.ri s.rules

theorem hinv_init : HInv {} :=
  ⟨nodupIds_empty, fun id p h => by simp [amGet] at h⟩

/-- `piAdd` of a pattern under `id` keeps every other rule where it is; on success `(id, p)` is indexed -/
theorem indexed_piAdd {ri : PI} {rules : List (String × Obj)} (id : String) (p : Obj)
    (h : Indexed ri rules) : Indexed (piAdd ri p id).1 rules := by
  intro id' p' hg
  obtain ⟨π, hπ, hmem⟩ := h id' p' hg
  exact ⟨π, hπ, (piAdd_spec ri p id).2.add_mono hmem⟩

theorem indexed_piAdd_self {ri : PI} (id : String) (p : Obj) {π : List Edge}
    (hπ : path (mapToPairs p) = some π) : id ∈ idsAt (piAdd ri p id).1 π := by
  have := (piAdd_spec ri p id).2
  rw [hπ] at this
  exact this.add_mem

/-- `piRem` of a pattern under `id` keeps every rule stored under another id where it is -/
theorem indexed_piRem {ri : PI} {rules : List (String × Obj)} (id : String) (q : Obj) (hn : NodupIds ri)
    (h : Indexed ri rules) : ∀ id' p', id' ≠ id → amGet rules id' = some p' →
      ∃ π, path (mapToPairs p') = some π ∧ id' ∈ idsAt (piRem ri q id).1 π := by
  intro id' p' hne hg
  obtain ⟨π, hπ, hmem⟩ := h id' p' hg
  exact ⟨π, hπ, (piRem_spec ri q id).2.rem_other hn hne hmem⟩

theorem nodupIds_piAdd {ri : PI} (id : String) (p : Obj) (hn : NodupIds ri) : NodupIds (piAdd ri p id).1 :=
  (piAdd_spec ri p id).2.nodup hn
theorem nodupIds_piRem {ri : PI} (id : String) (p : Obj) (hn : NodupIds ri) : NodupIds (piRem ri p id).1 :=
  (piRem_spec ri p id).2.nodup hn

theorem hinv_add (s : IdxSt) (id : String) (p : Obj) (h : HInv s) : HInv (s.add id p) := by
  obtain ⟨hn, hi⟩ := h
  unfold IdxSt.add
  cases hprev : amGet s.rules id with
  | none =>
    simp only []
    have hsp := piAdd_spec s.ri p id
    rcases hr : piAdd s.ri p id with ⟨ri2, e2⟩
    have hn2 : NodupIds ri2 := by have := nodupIds_piAdd id p hn; rwa [hr] at this
    have hi2 : Indexed ri2 s.rules := by have := indexed_piAdd id p hi; rwa [hr] at this
    cases e2 with
    | some e => exact ⟨hn2, hi2⟩
    | none =>
      refine ⟨hn2, ?_⟩
      intro id' p' hg
      rw [amGet_amSet] at hg
      by_cases hid : id' = id
      · subst hid
        simp only [if_true, Option.some.injEq] at hg; subst hg
        rw [hr] at hsp
        have : (path (mapToPairs p)).isSome = true := hsp.1.1 rfl
        obtain ⟨π, hπ⟩ := Option.isSome_iff_exists.1 this
        have := indexed_piAdd_self (ri := s.ri) id' p hπ
        rw [hr] at this
        exact ⟨π, hπ, this⟩
      · simp only [hid, if_false] at hg
        exact hi2 id' p' hg
  | some q =>
    simp only []
    rcases hr1 : piRem s.ri q id with ⟨ri1, e1⟩
    cases e1 with
    | some e => exact ⟨hn, hi⟩
    | none =>
      simp only []
      have hn1 : NodupIds ri1 := by have := nodupIds_piRem id q hn; rwa [hr1] at this
      have hi1 : ∀ id' p', id' ≠ id → amGet s.rules id' = some p' →
          ∃ π, path (mapToPairs p') = some π ∧ id' ∈ idsAt ri1 π := by
        have := indexed_piRem id q hn hi; rwa [hr1] at this
      have hsp := piAdd_spec ri1 p id
      rcases hr2 : piAdd ri1 p id with ⟨ri2, e2⟩
      rw [hr2] at hsp
      have hn2 : NodupIds ri2 := by have := nodupIds_piAdd id p hn1; rwa [hr2] at this
      have hi2 : ∀ id' p', id' ≠ id → amGet s.rules id' = some p' →
          ∃ π, path (mapToPairs p') = some π ∧ id' ∈ idsAt ri2 π := by
        intro id' p' hne hg
        obtain ⟨π, hπ, hmem⟩ := hi1 id' p' hne hg
        exact ⟨π, hπ, hsp.2.add_mono hmem⟩
      cases e2 with
      | none =>
        refine ⟨hn2, ?_⟩
        intro id' p' hg
        rw [amGet_amSet] at hg
        by_cases hid : id' = id
        · subst hid
          simp only [if_true, Option.some.injEq] at hg; subst hg
          have : (path (mapToPairs p)).isSome = true := hsp.1.1 rfl
          obtain ⟨π, hπ⟩ := Option.isSome_iff_exists.1 this
          have := indexed_piAdd_self (ri := ri1) id' p hπ
          rw [hr2] at this
          exact ⟨π, hπ, this⟩
        · simp only [hid, if_false] at hg
          exact hi2 id' p' hid hg
      | some e =>
        simp only []
        refine ⟨nodupIds_piAdd id q hn2, ?_⟩
        intro id' p' hg
        by_cases hid : id' = id
        · subst hid
          rw [hprev] at hg; cases hg
          obtain ⟨π, hπ, _⟩ := hi id' q hprev
          exact ⟨π, hπ, indexed_piAdd_self id' q hπ⟩
        · obtain ⟨π, hπ, hmem⟩ := hi2 id' p' hid hg
          exact ⟨π, hπ, (piAdd_spec ri2 q id).2.add_mono hmem⟩

theorem hinv_rem (s : IdxSt) (id : String) (h : HInv s) : HInv (s.rem id) := by
  obtain ⟨hn, hi⟩ := h
  unfold IdxSt.rem
  cases hprev : amGet s.rules id with
  | none => exact ⟨hn, hi⟩
  | some q =>
    simp only []
    rcases hr1 : piRem s.ri q id with ⟨ri1, e1⟩
    cases e1 with
    | some e => exact ⟨hn, hi⟩
    | none =>
      simp only []
      refine ⟨by have := nodupIds_piRem id q hn; rwa [hr1] at this, ?_⟩
      intro id' p' hg
      rw [amGet_amErase] at hg
      by_cases hid : id' = id
      · simp [hid] at hg
      · simp only [hid, if_false] at hg
        have := indexed_piRem id q hn hi id' p' hid hg
        rwa [hr1] at this

theorem hinv_step (s : IdxSt) (op : IOp) (h : HInv s) : HInv (s.step op) := by
  cases op with
  | add id p => exact hinv_add s id p h
  | rem id => exact hinv_rem s id h

theorem hinv_run : ∀ (ops : List IOp) (s : IdxSt), HInv s → HInv (s.run ops)
  | [], s, h => h
  | op :: ops, s, h => by
    unfold IdxSt.run; rw [List.foldl_cons]
    exact hinv_run ops (s.step op) (hinv_step s op h)

/-! ## completeness of the candidates -/

/-- `id` at the end of `π` + `π` embeds in the event ⇒ `piSearch` (if it succeeds) returns `id` -/
theorem piSearch_of_emb {ri : PI} {ev : Obj} {π : List Edge} {id : String} (hid : id ∈ idsAt ri π)
    (hemb : Emb π (mapToPairs ev)) {ids : List String} (hs : piSearch ri ev = .ok ids) : id ∈ ids := by
  unfold piSearch at hs
  cases hr : search (searchFuel (mapToPairs ev)) ri (mapToPairs ev) with
  | error e => simp [hr, Except.map] at hs
  | ok ids0 =>
    simp only [hr, Except.map, Except.ok.injEq] at hs
    subst hs
    match π, hid, hemb with
    | [], hid, _ => exact mem_union_right hid
    | e :: π, hid, hemb =>
      exact mem_union_left (found_of_emb hemb ri (by simp) hid _ _ (searchFuel_gt _) hr)

theorem piSearch_total (ri : PI) {ev : Obj} (hev : EvOK ev = true) : ∃ ids, piSearch ri ev = .ok ids := by
  unfold piSearch
  obtain ⟨ids0, h⟩ := search_total (searchFuel (mapToPairs ev)) ri (mapToPairs ev) (evOKO_mapToPairs hev)
  refine ⟨union ids0 ri.ids, ?_⟩
  show Except.map _ (search (searchFuel (mapToPairs ev)) ri (mapToPairs ev)) = _
  rw [h]; rfl

end PI

import RulioProofs.CronHooks
import RulioModel.CronHooksLoc

/-! helper lemmas about the hooked Location-level model (`RulioModel/CronHooksLoc.lean`): logging the side-effect deletions
touches neither the registry, nor the calls made to the cron, nor the location -/

@[simp] theorem logGone_reg (cfg : CronCfg) (h : HS) (b : List (String × Obj)) (e : String) (now : Int) :
    (logGone cfg h b e now).reg = h.reg := by simp [logGone]
@[simp] theorem logGone_calls (cfg : CronCfg) (h : HS) (b : List (String × Obj)) (e : String) (now : Int) :
    (logGone cfg h b e now).calls = h.calls := by simp [logGone]
@[simp] theorem logGone_loc (cfg : CronCfg) (h : HS) (b : List (String × Obj)) (e : String) (now : Int) :
    (logGone cfg h b e now).loc = h.loc := by simp [logGone]

import RulioModel.Watchdog

/-! # Lemmas about the RunJavascript timeout protocol (C14)

The control state `Ctl` and `KCfg` are finite: every per-step fact is a closed finite statement, decided by
evaluation in the kernel (`decide`). The facts are lifted to `St` (control × remaining polls) and to all
schedules by induction. -/

namespace Watchdog

/-! ## finite quantification -/

instance (P : Pending → Prop) [DecidablePred P] : Decidable (∀ p, P p) :=
  decidable_of_iff (P .fin ∧ P .halt ∧ P .nilcall)
    ⟨fun h p => by cases p <;> simp [h], fun h => ⟨h _, h _, h _⟩⟩

instance (P : Ret → Prop) [DecidablePred P] : Decidable (∀ p, P p) :=
  decidable_of_iff (P .own ∧ P .nilOk ∧ P .timeoutErr)
    ⟨fun h p => by cases p <;> simp [h], fun h => ⟨h _, h _, h _⟩⟩

instance (P : Tid → Prop) [DecidablePred P] : Decidable (∀ p, P p) :=
  decidable_of_iff (P .main ∧ P .wd ∧ P .wdc ∧ P .timer)
    ⟨fun h p => by cases p <;> simp [h], fun h => ⟨h _, h _, h _, h _⟩⟩

instance (P : WPc → Prop) [DecidablePred P] : Decidable (∀ p, P p) :=
  decidable_of_iff (P .idle ∧ P .sel ∧ P .send ∧ P .close ∧ P .done)
    ⟨fun h p => by cases p <;> simp [h], fun h => ⟨h _, h _, h _, h _, h _⟩⟩

instance (P : MPc → Prop) [DecidablePred P] : Decidable (∀ p, P p) :=
  decidable_of_iff (P .start ∧ P .run ∧ (∀ p, P (.dSend p)) ∧ (∀ p, P (.dClose p)) ∧ (∀ p, P (.dRecover p)) ∧
      (∀ r, P (.ret r)) ∧ P .panicked)
    ⟨fun h p => by cases p <;> simp [h], fun h => ⟨h _, h _, fun _ => h _, fun _ => h _, fun _ => h _, fun _ => h _, h _⟩⟩

instance (P : Ctl → Prop) [DecidablePred P] : Decidable (∀ k, P k) :=
  decidable_of_iff (∀ m w f a b d e, P ⟨m, w, f, a, b, d, e⟩)
    ⟨fun h k => by cases k; exact h _ _ _ _ _ _ _, fun h _ _ _ _ _ _ _ => h _⟩

instance (P : KCfg → Prop) [DecidablePred P] : Decidable (∀ k, P k) :=
  decidable_of_iff (∀ a b d e, P ⟨a, b, d, e⟩)
    ⟨fun h k => by cases k; exact h _ _ _ _, fun h _ _ _ _ => h _⟩

/-- `inv` is preserved by every step taken when `runtime.Run`'s "nothing left" test reads `z` -/
def PreservedAt (c : KCfg) (z : Bool) (inv : Ctl → Bool) : Prop :=
  ∀ (k : Ctl), inv k = true → ∀ (t : Tid), (stepCtl c z t k).all (fun r => inv r.1) = true

instance (c : KCfg) (z : Bool) (inv : Ctl → Bool) : Decidable (PreservedAt c z inv) := by
  unfold PreservedAt; infer_instance

/-- an invariant of the control state is preserved by every step -/
def Preserved (c : KCfg) (inv : Ctl → Bool) : Prop := ∀ z, PreservedAt c z inv

instance (c : KCfg) (inv : Ctl → Bool) : Decidable (Preserved c inv) := by unfold Preserved; infer_instance

/-- every effective step from a state satisfying `inv` strictly decreases the control measure, except a passed
script boundary, which leaves it unchanged -/
def Decreasing (c : KCfg) (z : Bool) (inv : Ctl → Bool) : Prop :=
  ∀ (k : Ctl), inv k = true → ∀ (t : Tid),
    (stepCtl c z t k).all (fun r => if r.2 then muK c r.1 == muK c k else decide (muK c r.1 < muK c k)) = true

instance (c : KCfg) (z : Bool) (inv : Ctl → Bool) : Decidable (Decreasing c z inv) := by
  unfold Decreasing; infer_instance

/-! ## schedules -/

/-- the state after scheduling `t` once (a blocked step does not advance) -/
def next (c : Cfg) (t : Tid) (s : St) : St := (step c t s).getD s

theorem run_cons (c : Cfg) (t : Tid) (ts : List Tid) (s : St) :
    run c (t :: ts) s = run c ts (next c t s) := by simp [run, next]

theorem run_append (c : Cfg) (a b : List Tid) (s : St) :
    run c (a ++ b) s = run c b (run c a s) := by simp [run]

/-- invariants are proved once per step and lifted to every schedule -/
theorem run_inv (c : Cfg) (P : St → Prop) (hstep : ∀ s t, P s → P (next c t s)) :
    ∀ (sched : List Tid) (s : St), P s → P (run c sched s) := by
  intro sched
  induction sched with
  | nil => intro s h; simpa [run] using h
  | cons t ts ih => intro s h; rw [run_cons]; exact ih _ (hstep s t h)

theorem step_some_iff {c : Cfg} {t : Tid} {s s' : St} :
    step c t s = some s' ↔ ∃ k' p, stepCtl c.toKCfg (atEnd c s) t s.k = some (k', p) ∧
      s' = { k := k', left := if p then s.left - 1 else s.left } := by
  unfold step
  cases h : stepCtl c.toKCfg (atEnd c s) t s.k with
  | none => simp
  | some r =>
    obtain ⟨k', p⟩ := r
    constructor
    · intro h; exact ⟨k', p, rfl, by simpa using h.symm⟩
    · rintro ⟨k'', p', h1, h2⟩
      simp at h1; obtain ⟨rfl, rfl⟩ := h1
      simp [h2]

theorem next_of_step {c : Cfg} {t : Tid} {s s' : St} (h : step c t s = some s') : next c t s = s' := by
  simp [next, h]

theorem next_of_none {c : Cfg} {t : Tid} {s : St} (h : step c t s = none) : next c t s = s := by
  simp [next, h]

/-- lifting a control invariant to one step -/
theorem next_inv_at (c : Cfg) (inv : Ctl → Bool) (s : St) (t : Tid)
    (h : PreservedAt c.toKCfg (atEnd c s) inv) (hi : inv s.k = true) : inv (next c t s).k = true := by
  cases hs : step c t s with
  | none => rw [next_of_none hs]; exact hi
  | some s' =>
    rw [next_of_step hs]
    obtain ⟨k', p, hk, rfl⟩ := step_some_iff.mp hs
    have := h s.k hi t
    simpa [hk] using this

theorem run_inv_ctl (c : Cfg) (inv : Ctl → Bool) (h : Preserved c.toKCfg inv)
    (sched : List Tid) (s : St) (hi : inv s.k = true) : inv (run c sched s).k = true :=
  run_inv c (fun s => inv s.k = true) (fun s t hi => next_inv_at c inv s t (h _) hi) sched s hi

/-- a script that never ends by itself: `atEnd` is always false -/
theorem atEnd_loops (c : Cfg) (hp : c.polls = none) (s : St) : atEnd c s = false := by simp [atEnd, hp]

theorem run_inv_loops (c : Cfg) (hp : c.polls = none) (inv : Ctl → Bool) (h : PreservedAt c.toKCfg false inv)
    (sched : List Tid) (s : St) (hi : inv s.k = true) : inv (run c sched s).k = true :=
  run_inv c (fun s => inv s.k = true)
    (fun s t hi => next_inv_at c inv s t (by rw [atEnd_loops c hp]; exact h) hi) sched s hi

/-- a stuck state stays as it is under every schedule -/
theorem stuck_run (c : Cfg) (s : St) (hs : stuck c s = true) : ∀ more, run c more s = s := by
  intro more
  induction more with
  | nil => simp [run]
  | cons t ts ih =>
    rw [run_cons]
    have : next c t s = s := by
      simp [stuck] at hs
      cases t <;> simp [next, hs]
    rw [this]; exact ih

/-! ## measure -/

/-- only `runtime.Run`'s "go on" branch passes a script boundary, and only when the script is not at its end -/
theorem passed_imp (c : KCfg) (z : Bool) (t : Tid) (k k' : Ctl)
    (h : stepCtl c z t k = some (k', true)) : z = false ∧ t = .main := by
  cases t
  · refine ⟨?_, rfl⟩
    cases z with
    | false => rfl
    | true =>
      simp only [stepCtl, stepMain] at h
      split at h <;> (try split at h) <;> (try split at h) <;> simp [runStep] at h
  · simp only [stepCtl] at h; cases h' : stepWd c false k <;> simp [h'] at h
  · simp only [stepCtl] at h; cases h' : stepWd c true k <;> simp [h'] at h
  · simp only [stepCtl] at h; cases h' : stepTimer c k <;> simp [h'] at h

/-- lifting `Decreasing` for scripts that end by themselves: every effective step strictly decreases `mu` -/
theorem mu_dec_some (c : Cfg) (n : Nat) (hp : c.polls = some n) (inv : Ctl → Bool) (s : St)
    (hd : Decreasing c.toKCfg (atEnd c s) inv) (hi : inv s.k = true) (t : Tid) (s' : St)
    (hs : step c t s = some s') : mu c s' < mu c s := by
  obtain ⟨k', p, hk, rfl⟩ := step_some_iff.mp hs
  have h := hd s.k hi t
  simp [hk] at h
  cases p with
  | false => simp at h; simp [mu, hp]; omega
  | true =>
    simp at h
    -- a boundary was passed: the script was not at its end, so `left` is positive
    have hz : atEnd c s = false := (passed_imp _ _ _ _ _ hk).1
    have hl : s.left ≠ 0 := by simpa [atEnd, hp] using hz
    simp [mu, hp, h]; omega

/-- lifting `Decreasing` for scripts that never end by themselves: `mu` never increases -/
theorem mu_le_loops (c : Cfg) (hp : c.polls = none) (inv : Ctl → Bool) (s : St)
    (hd : Decreasing c.toKCfg false inv) (hi : inv s.k = true) (t : Tid) (s' : St)
    (hs : step c t s = some s') : mu c s' ≤ mu c s := by
  obtain ⟨k', p, hk, rfl⟩ := step_some_iff.mp hs
  rw [atEnd_loops c hp] at hk
  have h := hd s.k hi t
  simp [hk] at h
  cases p <;> simp at h <;> simp [mu, hp] <;> omega

/-- number of steps of a schedule that were not blocked -/
def effSteps (c : Cfg) : List Tid → St → Nat
  | [], _ => 0
  | t :: ts, s => (if (step c t s).isSome then 1 else 0) + effSteps c ts (next c t s)


end Watchdog

import RulioModel.Cache

/-! Helper lemmas for C17 (location cache). -/

section kmap
variable {α : Type}

theorem kdel_cons_ne (k' : String) (v : α) (r : List (String × α)) (k : String) (h : k' ≠ k) :
    kdel ((k', v) :: r) k = (k', v) :: kdel r k := by
  simp [kdel, List.filter_cons, h]

theorem kdel_cons_eq (k' : String) (v : α) (r : List (String × α)) (k : String) (h : k' = k) :
    kdel ((k', v) :: r) k = kdel r k := by
  simp [kdel, List.filter_cons, h]

theorem kget_kdel_same (m : List (String × α)) (k : String) : kget (kdel m k) k = none := by
  induction m with
  | nil => rfl
  | cons p r ih =>
    obtain ⟨k', v⟩ := p
    by_cases h : k' = k
    · rw [kdel_cons_eq _ _ _ _ h]; exact ih
    · rw [kdel_cons_ne _ _ _ _ h]; simp [kget, h]; exact ih

theorem kget_kdel_other (m : List (String × α)) (k k2 : String) (h : k2 ≠ k) : kget (kdel m k) k2 = kget m k2 := by
  induction m with
  | nil => rfl
  | cons p r ih =>
    obtain ⟨k', v⟩ := p
    by_cases h1 : k' = k
    · rw [kdel_cons_eq _ _ _ _ h1]
      have : ¬ k' = k2 := fun e => h (e ▸ h1)
      simp [kget, this]; exact ih
    · rw [kdel_cons_ne _ _ _ _ h1]
      by_cases h2 : k' = k2
      · simp [kget, h2]
      · simp [kget, h2]; exact ih

theorem kget_kset_same (m : List (String × α)) (k : String) (v : α) : kget (kset m k v) k = some v := by
  simp [kset, kget]

theorem kget_kset_other (m : List (String × α)) (k k2 : String) (v : α) (h : k2 ≠ k) : kget (kset m k v) k2 = kget m k2 := by
  have h3 : ¬ k = k2 := fun e => h e.symm
  simp [kset, kget, h3]; exact kget_kdel_other m k k2 h

end kmap

section seq
variable {sem : LocSem}

/-- every entry of the new table under `m` descends from an old entry under `m` with the same Location -/
def TabFrom (t' t : List (String × CEntry sem)) : Prop :=
  ∀ m e, kget t' m = some e → ∃ e0, kget t m = some e0 ∧ e.loc = e0.loc

theorem expire_spec (st : SysSt sem) (n : String) (rel : Bool) (now : Int) :
    (expire st n rel now).1.store = st.store ∧
    TabFrom (expire st n rel now).1.table st.table ∧
    (∀ l, (expire st n rel now).2 = some l → ∃ e0, kget st.table n = some e0 ∧ e0.loc = some l) ∧
    ((expire st n rel now).2 = none → ∀ e, kget (expire st n rel now).1.table n = some e → e.loc = none) := by
  unfold expire
  cases hk : kget st.table n with
  | none =>
    refine ⟨rfl, ?_, ?_, ?_⟩
    · intro m e he; exact ⟨e, he, rfl⟩
    · intro l hl; simp at hl
    · intro _ e he; simp [hk] at he
  | some e0 =>
    simp only
    generalize (if rel = true then e0.pending - 1 else e0.pending + 1) = p
    split
    · refine ⟨rfl, ?_, ?_, ?_⟩
      · intro m e he
        by_cases hm : m = n
        · subst hm; rw [kget_kset_same] at he; cases he; exact ⟨e0, hk, rfl⟩
        · rw [kget_kset_other _ _ _ _ hm] at he; exact ⟨e, he, rfl⟩
      · intro l hl; exact ⟨e0, rfl, hl⟩
      · intro hnone e he; rw [kget_kset_same] at he; cases he; exact hnone
    · refine ⟨rfl, ?_, ?_, ?_⟩
      · intro m e he
        by_cases hm : m = n
        · subst hm; rw [kget_kdel_same] at he; cases he
        · rw [kget_kdel_other _ _ _ hm] at he; exact ⟨e, he, rfl⟩
      · intro l hl; simp at hl
      · intro _ e he; rw [kget_kdel_same] at he; cases he

theorem getE_fail (cfg : Cfg) (st : SysSt sem) (n : String) (e : CEntry sem) (inst chk : Bool) (now : Int)
    (h : (chk && cfg.checkExistence && !sem.created (sem.load now (storeOf st.store n))) = true) :
    (getE cfg st n e inst chk now).2 = none ∧ (getE cfg st n e inst chk now).1.store = st.store ∧
    (getE cfg st n e inst chk now).1.table = st.table := by
  unfold getE; simp [h]

theorem getE_ok (cfg : Cfg) (st : SysSt sem) (n : String) (e : CEntry sem) (inst chk : Bool) (now : Int)
    (h : ¬ (chk && cfg.checkExistence && !sem.created (sem.load now (storeOf st.store n))) = true) :
    (getE cfg st n e inst chk now).2 = some (sem.load now (storeOf st.store n)) ∧
    (getE cfg st n e inst chk now).1.store = st.store ∧
    ((getE cfg st n e inst chk now).1.table = st.table ∨
     ∃ e', e'.loc = some (sem.load now (storeOf st.store n)) ∧ (getE cfg st n e inst chk now).1.table = kset st.table n e') := by
  unfold getE; simp only [h]
  cases inst with
  | false => exact ⟨rfl, rfl, Or.inl rfl⟩
  | true => exact ⟨rfl, rfl, Or.inr ⟨_, rfl, rfl⟩⟩

/-- `getE` in one statement: the storage is untouched; an entry that carries a Location afterwards is an old one or
the one just loaded (then the load is what was handed out); a failure means the check failed on the fresh load -/
theorem getE_spec (cfg : Cfg) (st : SysSt sem) (n : String) (e : CEntry sem) (inst chk : Bool) (now : Int) :
    (getE cfg st n e inst chk now).1.store = st.store ∧
    (∀ m e1 l', kget (getE cfg st n e inst chk now).1.table m = some e1 → e1.loc = some l' →
        (∃ e0, kget st.table m = some e0 ∧ e0.loc = some l') ∨ (m = n ∧ (getE cfg st n e inst chk now).2 = some l')) ∧
    (∀ l, (getE cfg st n e inst chk now).2 = some l → l = sem.load now (storeOf st.store n) ∧
        ((chk && cfg.checkExistence) = true → sem.created l = true)) ∧
    ((getE cfg st n e inst chk now).2 = none →
        chk = true ∧ cfg.checkExistence = true ∧ sem.created (sem.load now (storeOf st.store n)) = false) := by
  by_cases hchk : (chk && cfg.checkExistence && !sem.created (sem.load now (storeOf st.store n))) = true
  · obtain ⟨g1, g2, g3⟩ := getE_fail cfg st n e inst chk now hchk
    refine ⟨g2, ?_, ?_, ?_⟩
    · intro m e1 l' he hl; rw [g3] at he; exact Or.inl ⟨e1, he, hl⟩
    · intro l hl; rw [g1] at hl; cases hl
    · intro _
      simp [Bool.and_eq_true] at hchk
      exact ⟨hchk.1.1, hchk.1.2, hchk.2⟩
  · obtain ⟨g1, g2, g3⟩ := getE_ok cfg st n e inst chk now hchk
    refine ⟨g2, ?_, ?_, ?_⟩
    · intro m e1 l' he hl
      rcases g3 with g3 | ⟨e', he', g3⟩
      · rw [g3] at he; exact Or.inl ⟨e1, he, hl⟩
      · rw [g3] at he
        by_cases hm : m = n
        · subst hm; rw [kget_kset_same] at he; cases he
          rw [he'] at hl; cases hl
          exact Or.inr ⟨rfl, g1⟩
        · rw [kget_kset_other _ _ _ _ hm] at he; exact Or.inl ⟨e1, he, hl⟩
    · intro l hl
      rw [g1] at hl; cases hl
      refine ⟨rfl, ?_⟩
      intro hc
      simp [Bool.and_eq_true] at hchk hc
      exact hchk hc.1 hc.2
    · intro h; rw [g1] at h; cases h

theorem openE_spec (cfg : Cfg) (st : SysSt sem) (n : String) (chk : Bool) (now : Int) :
    (openE cfg st n chk now).1.store = st.store ∧
    (∀ m e l', kget (openE cfg st n chk now).1.table m = some e → e.loc = some l' →
        (∃ e0, kget st.table m = some e0 ∧ e0.loc = some l') ∨ (m = n ∧ (openE cfg st n chk now).2 = some l')) ∧
    (∀ l, (openE cfg st n chk now).2 = some l →
        ((∃ e0, kget st.table n = some e0 ∧ e0.loc = some l) ∨ l = sem.load now (storeOf st.store n)) ∧
        ((chk && cfg.checkExistence) = true → sem.created l = true)) ∧
    ((openE cfg st n chk now).2 = none →
        chk = true ∧ cfg.checkExistence = true ∧
        ∃ l, sem.created l = false ∧
          ((∃ e0, kget st.table n = some e0 ∧ e0.loc = some l) ∨ l = sem.load now (storeOf st.store n))) := by
  have hs := expire_spec st n false now
  unfold openE
  cases hx : expire st n false now with
  | mk st1 r1 =>
    rw [hx] at hs
    obtain ⟨hstore, hfrom, hsome, hnone⟩ := hs
    simp only at hstore hfrom hsome hnone
    have hfrom1 : ∀ m e l', kget st1.table m = some e → e.loc = some l' → ∃ e0, kget st.table m = some e0 ∧ e0.loc = some l' := by
      intro m e l' he hl
      obtain ⟨e0, h0, h1⟩ := hfrom m e he
      exact ⟨e0, h0, h1 ▸ hl⟩
    cases r1 with
    | some l =>
      simp only
      by_cases hre : (chk && cfg.checkExistence && !sem.created l) = true
      · simp only [hre, if_true]
        refine ⟨hstore, ?_, ?_, ?_⟩
        · intro m e l' he hl; exact Or.inl (hfrom1 m e l' he hl)
        · intro l2 hl2; cases hl2
        · intro _
          simp [Bool.and_eq_true] at hre
          exact ⟨hre.1.1, hre.1.2, l, hre.2, Or.inl (hsome l rfl)⟩
      · simp only [hre]
        refine ⟨hstore, ?_, ?_, ?_⟩
        · intro m e l' he hl; exact Or.inl (hfrom1 m e l' he hl)
        · intro l2 hl2
          cases hl2
          refine ⟨Or.inl (hsome l rfl), ?_⟩
          intro hc
          simp [Bool.and_eq_true] at hre hc
          exact hre hc.1 hc.2
        · intro h; cases h
    | none =>
      simp only
      cases hk1 : kget st1.table n with
      | some e1 =>
        simp only
        obtain ⟨g1, g2, g3, g4⟩ := getE_spec cfg st1 n e1 true chk now
        rw [hstore] at g3 g4
        refine ⟨g1.trans hstore, ?_, ?_, ?_⟩
        · intro m e l' he hl
          rcases g2 m e l' he hl with ⟨e0, h0, h1⟩ | h
          · exact Or.inl (hfrom1 m e0 l' h0 h1)
          · exact Or.inr h
        · intro l hl
          obtain ⟨h1, h2⟩ := g3 l hl
          exact ⟨Or.inr h1, h2⟩
        · intro h
          obtain ⟨h1, h2, h3⟩ := g4 h
          exact ⟨h1, h2, _, h3, Or.inr rfl⟩
      | none =>
        simp only
        -- the state after the (possible) installation of the fresh entry
        generalize hst2 : (if installs cfg = true then { st1 with table := kset st1.table n ({ expires := newExpires cfg now, pending := 1, loc := none } : CEntry sem) } else st1) = st2
        have hstore2 : st2.store = st.store := by
          rw [← hst2]; split <;> simp [hstore]
        have hfrom2 : ∀ m e l', kget st2.table m = some e → e.loc = some l' → ∃ e0, kget st.table m = some e0 ∧ e0.loc = some l' := by
          intro m e l' he hl
          rw [← hst2] at he
          split at he
          · by_cases hm : m = n
            · subst hm; simp only at he; rw [kget_kset_same] at he; cases he; simp at hl
            · simp only at he; rw [kget_kset_other _ _ _ _ hm] at he
              exact hfrom1 m e l' he hl
          · exact hfrom1 m e l' he hl
        obtain ⟨g1, g2, g3, g4⟩ := getE_spec cfg st2 n { expires := newExpires cfg now, pending := 1, loc := none } (installs cfg) chk now
        rw [hstore2] at g3 g4
        refine ⟨g1.trans hstore2, ?_, ?_, ?_⟩
        · intro m e l' he hl
          rcases g2 m e l' he hl with ⟨e0, h0, h1⟩ | h
          · exact Or.inl (hfrom2 m e0 l' h0 h1)
          · exact Or.inr h
        · intro l hl
          obtain ⟨h1, h2⟩ := g3 l hl
          exact ⟨Or.inr h1, h2⟩
        · intro h
          obtain ⟨h1, h2, h3⟩ := g4 h
          exact ⟨h1, h2, _, h3, Or.inr rfl⟩

theorem storeOf_kset_same (store : List (String × sem.S)) (n : String) (v : sem.S) : storeOf (kset store n v) n = v := by
  simp [storeOf, kget_kset_same]

theorem storeOf_kset_other (store : List (String × sem.S)) (n m : String) (v : sem.S) (h : m ≠ n) :
    storeOf (kset store n v) m = storeOf store m := by
  simp [storeOf, kget_kset_other _ _ _ _ h]

theorem dget_kset_same (d : DSt sem) (n : String) (p : sem.L × sem.S) (t : Int) :
    dget { d with locs := kset d.locs n p } n t = p := by
  simp [dget, kget_kset_same]

theorem dget_kset_other (d : DSt sem) (n m : String) (p : sem.L × sem.S) (t : Int) (h : m ≠ n) :
    dget { d with locs := kset d.locs n p } m t = dget d m t := by
  simp [dget, kget_kset_other _ _ _ _ h]

/-- every cached Location is faithful to the storage -/
def TabGood (h : ReloadOK sem) (st : SysSt sem) : Prop :=
  ∀ n e l, kget st.table n = some e → e.loc = some l → h.R l (storeOf st.store n)

/-- the directly operated locations see the same storage and are faithful to it -/
def DirOK (h : ReloadOK sem) (st : SysSt sem) (d : DSt sem) : Prop :=
  ∀ n t, (dget d n t).2 = storeOf st.store n ∧ h.R (dget d n t).1 (storeOf st.store n)

theorem tabGood_release (h : ReloadOK sem) (st : SysSt sem) (n : String) (now : Int)
    (hT : TabGood h st) : TabGood h (releaseE st n now) := by
  obtain ⟨hs, hf, _, _⟩ := expire_spec st n true now
  intro m e l he hl
  obtain ⟨e0, h0, h1⟩ := hf m e he
  have := hT m e0 l h0 (h1 ▸ hl)
  unfold releaseE; rw [hs]; exact this

theorem release_store (st : SysSt sem) (n : String) (now : Int) : (releaseE st n now).store = st.store :=
  (expire_spec st n true now).1

theorem dirOK_release (h : ReloadOK sem) (st : SysSt sem) (d : DSt sem) (n : String) (now : Int)
    (hD : DirOK h st d) : DirOK h (releaseE st n now) d := by
  intro m t; rw [release_store]; exact hD m t

theorem kget_updLoc_same (table : List (String × CEntry sem)) (n : String) (l : sem.L) (e : CEntry sem)
    (he : kget (updLoc table n l) n = some e) : e.loc = some l := by
  unfold updLoc at he
  cases hk : kget table n with
  | none => simp [hk] at he
  | some e0 => simp only [hk] at he; rw [kget_kset_same] at he; cases he; rfl

theorem kget_updLoc_other (table : List (String × CEntry sem)) (n m : String) (l : sem.L) (h : m ≠ n) :
    kget (updLoc table n l) m = kget table m := by
  unfold updLoc
  cases hk : kget table n with
  | none => rfl
  | some e0 => simp only; exact kget_kset_other _ _ _ _ h

/-- the state after a call (or `mark`) through the instance handed out for `n`: new storage, mutated instance -/
def updSt (st1 : SysSt sem) (n : String) (l2 : sem.L) (s2 : sem.S) : SysSt sem :=
  { st1 with store := kset st1.store n s2, table := updLoc st1.table n l2 }

theorem reqE_api_none (cfg : Cfg) (st st1 : SysSt sem) (n : String) (op : sem.Op) (t1 t2 : Int)
    (ho : openE cfg st n true t1 = (st1, none)) :
    reqE cfg st (.api n op) t1 t2 = (releaseE st1 n t2, .notFound) := by
  simp [reqE, ho]

theorem reqE_api_some (cfg : Cfg) (st st1 : SysSt sem) (n : String) (op : sem.Op) (t1 t2 : Int) (l : sem.L)
    (ho : openE cfg st n true t1 = (st1, some l)) :
    reqE cfg st (.api n op) t1 t2 =
      (releaseE (updSt st1 n (sem.exec l (storeOf st1.store n) op).1 (sem.exec l (storeOf st1.store n) op).2.1) n t2,
       .ok (sem.exec l (storeOf st1.store n) op).2.2) := by
  simp [reqE, ho, updSt]

theorem reqD_api_fail (d : DSt sem) (n : String) (op : sem.Op) (t : Int) (check : Bool)
    (hc : (check && !sem.created (dget d n t).1) = true) :
    reqD check d (.api n op) t = (d, .notFound) := by
  simp only [reqD, hc, if_true]

theorem reqD_api_ok (d : DSt sem) (n : String) (op : sem.Op) (t : Int) (check : Bool)
    (hc : (check && !sem.created (dget d n t).1) = false) :
    reqD check d (.api n op) t =
      ({ d with locs := kset d.locs n ((sem.exec (dget d n t).1 (dget d n t).2 op).1, (sem.exec (dget d n t).1 (dget d n t).2 op).2.1) },
       .ok (sem.exec (dget d n t).1 (dget d n t).2 op).2.2) := by
  simp only [reqD, hc]; rfl

/-- the state after a call (or `mark`) through the instance `l` that `Open` handed out -/
theorem tabGood_upd (h : ReloadOK sem) (st st1 : SysSt sem) (n : String) (l2 : sem.L) (s2 : sem.S) (P : sem.L → Prop)
    (hT : TabGood h st) (hs : st1.store = st.store)
    (otab : ∀ m e l', kget st1.table m = some e → e.loc = some l' →
        (∃ e0, kget st.table m = some e0 ∧ e0.loc = some l') ∨ (m = n ∧ P l'))
    (hR2 : h.R l2 s2) :
    TabGood h (updSt st1 n l2 s2) := by
  intro m e l' he hl
  unfold updSt at he ⊢
  by_cases hm : m = n
  · subst hm
    simp only at he
    have := kget_updLoc_same _ _ _ _ he
    rw [this] at hl; cases hl
    simp only [storeOf_kset_same]
    exact hR2
  · simp only at he
    rw [kget_updLoc_other _ _ _ _ hm] at he
    simp only [storeOf_kset_other _ _ _ _ hm, hs]
    rcases otab m e l' he hl with ⟨e0, h0, h1⟩ | ⟨h2, _⟩
    · exact hT m e0 l' h0 h1
    · exact absurd h2 hm

theorem step_sim (h : ReloadOK sem) (cfg : Cfg) (st : SysSt sem) (d : DSt sem) (r : Req sem) (t1 t2 t1' : Int)
    (hT : TabGood h st) (hD : DirOK h st d) :
    (reqE cfg st r t1 t2).2 = (reqD cfg.checkExistence d r t1').2 ∧
    TabGood h (reqE cfg st r t1 t2).1 ∧
    DirOK h (reqE cfg st r t1 t2).1 (reqD cfg.checkExistence d r t1').1 := by
  -- what `Open` hands out is faithful to the storage
  have hopenR : ∀ n l, ((∃ e0, kget st.table n = some e0 ∧ e0.loc = some l) ∨ l = sem.load t1 (storeOf st.store n)) →
      h.R l (storeOf st.store n) := by
    intro n l hl
    rcases hl with ⟨e0, h0, h1⟩ | hl
    · exact hT n e0 l h0 h1
    · exact hl ▸ h.load_R t1 _
  cases r with
  | api n op =>
    obtain ⟨os, otab, osome, onone⟩ := openE_spec cfg st n true t1
    obtain ⟨hp2, hpR⟩ := hD n t1'
    cases ho : openE cfg st n true t1 with
    | mk st1 r1 =>
      rw [ho] at os otab osome onone
      simp only at os otab osome onone
      have hT1 : TabGood h st1 := by
        intro m e l he hl
        rw [os]
        rcases otab m e l he hl with ⟨e0, h0, h1⟩ | ⟨h2, h3⟩
        · exact hT m e0 l h0 h1
        · subst h2; exact hopenR m l (osome l h3).1
      cases r1 with
      | none =>
        obtain ⟨_, hc, l, hcr, hl⟩ := onone rfl
        have hcp : sem.created (dget d n t1').1 = false := by
          rw [h.created_eq _ _ _ hpR (hopenR n l hl)]; exact hcr
        rw [reqE_api_none cfg st st1 n op t1 t2 ho, reqD_api_fail d n op t1' _ (by simp [hc, hcp])]
        refine ⟨rfl, tabGood_release h st1 n t2 hT1, ?_⟩
        intro m t; simp only [release_store, os]; exact hD m t
      | some l =>
        obtain ⟨hl, hcr⟩ := osome l rfl
        have hR : h.R l (storeOf st.store n) := hopenR n l hl
        have hcp : (cfg.checkExistence && !sem.created (dget d n t1').1) = false := by
          rw [h.created_eq _ _ _ hpR hR]
          cases hc : cfg.checkExistence with
          | false => rfl
          | true => simp [hcr (by simp [hc])]
        rw [reqE_api_some cfg st st1 n op t1 t2 l ho, reqD_api_ok d n op t1' _ hcp]
        rw [os]
        have hx : (sem.exec l (storeOf st.store n) op).2 = (sem.exec (dget d n t1').1 (dget d n t1').2 op).2 := by
          rw [hp2]; exact h.exec_eq _ _ _ _ hR hpR
        refine ⟨?_, ?_, ?_⟩
        · simp only [hx]
        · apply tabGood_release
          exact tabGood_upd h st st1 n (sem.exec l (storeOf st.store n) op).1 (sem.exec l (storeOf st.store n) op).2.1 _ hT os
            otab (h.exec_R _ _ _ hR)
        · intro m t
          simp only [release_store, updSt]
          by_cases hm : m = n
          · subst hm
            rw [dget_kset_same]
            simp only [storeOf_kset_same]
            constructor
            · rw [hx]
            · have := h.exec_R _ _ op hpR
              rw [hx, hp2]; exact this
          · rw [dget_kset_other _ _ _ _ _ hm]
            simp only [storeOf_kset_other _ _ _ _ hm, os]
            exact hD m t
  | create n =>
    obtain ⟨os, otab, osome, onone⟩ := openE_spec cfg st n false t1
    obtain ⟨hp2, hpR⟩ := hD n t1'
    cases ho : openE cfg st n false t1 with
    | mk st1 r1 =>
      rw [ho] at os otab osome onone
      simp only at os otab osome onone
      cases r1 with
      | none => exact absurd (onone rfl).1 (by simp)
      | some l =>
        have hR : h.R l (storeOf st.store n) := hopenR n l (osome l rfl).1
        have hT1 : TabGood h st1 := by
          intro m e l' he hl
          rw [os]
          rcases otab m e l' he hl with ⟨e0, h0, h1⟩ | ⟨h2, h3⟩
          · exact hT m e0 l' h0 h1
          · cases h3; subst h2; exact hR
        have hce : sem.created (dget d n t1').1 = sem.created l := h.created_eq _ _ _ hpR hR
        cases hcl : sem.created l with
        | true =>
          have e1 : reqE cfg st (.create n) t1 t2 = (releaseE st1 n t2, .created false) := by simp [reqE, ho, hcl]
          have e2 : reqD cfg.checkExistence d (.create n) t1' = (d, .created false) := by
            simp only [reqD, hce, hcl, if_true]
          rw [e1, e2]
          refine ⟨rfl, tabGood_release h st1 n t2 hT1, ?_⟩
          intro m t; simp only [release_store, os]; exact hD m t
        | false =>
          have e1 : reqE cfg st (.create n) t1 t2 =
              (releaseE (updSt st1 n (sem.mark l (storeOf st1.store n)).1 (sem.mark l (storeOf st1.store n)).2) n t2, .created true) := by
            simp [reqE, ho, hcl, updSt]
          have e2 : reqD cfg.checkExistence d (.create n) t1' =
              ({ d with locs := kset d.locs n (sem.mark (dget d n t1').1 (dget d n t1').2) }, .created true) := by
            simp only [reqD, hce, hcl]; rfl
          rw [e1, e2, os]
          refine ⟨rfl, ?_, ?_⟩
          · apply tabGood_release
            exact tabGood_upd h st st1 n (sem.mark l (storeOf st.store n)).1 (sem.mark l (storeOf st.store n)).2 _ hT os
              otab (h.mark_R _ _ hR)
          · intro m t
            simp only [release_store, updSt]
            by_cases hm : m = n
            · subst hm
              rw [dget_kset_same]
              simp only [storeOf_kset_same]
              rw [hp2]
              exact ⟨(h.mark_eq _ _ _ hR hpR).symm, h.mark_eq _ _ _ hR hpR ▸ h.mark_R _ _ hpR⟩
            · rw [dget_kset_other _ _ _ _ _ hm]
              simp only [storeOf_kset_other _ _ _ _ hm, os]
              exact hD m t
  | peek n =>
    obtain ⟨os, otab, osome, _⟩ := openE_spec cfg st n false t1
    have e1 : reqE cfg st (.peek n) t1 t2 = (releaseE (openE cfg st n false t1).1 n t2, .peeked) := by simp [reqE]
    have e2 : reqD cfg.checkExistence d (.peek n) t1' = (d, .peeked) := by simp [reqD]
    rw [e1, e2]
    refine ⟨rfl, ?_, ?_⟩
    · apply tabGood_release
      intro m e l' he hl
      rw [os]
      rcases otab m e l' he hl with ⟨e0, h0, h1⟩ | ⟨h2, h3⟩
      · exact hT m e0 l' h0 h1
      · subst h2; exact hopenR m l' (osome l' h3).1
    · intro m t; simp only [release_store, os]; exact hD m t

theorem run_sim (h : ReloadOK sem) (cfg : Cfg) :
    ∀ (h1 h2 : List (Req sem × Int × Int)) (st : SysSt sem) (d : DSt sem),
      SameReqs h1 h2 → TabGood h st → DirOK h st d →
      (runE cfg st h1).2 = (runD cfg.checkExistence d h2).2 := by
  intro h1
  induction h1 with
  | nil =>
    intro h2 st d hs _ _
    cases h2 with
    | nil => rfl
    | cons b r2 => exact absurd hs (by simp [SameReqs])
  | cons a r1 ih =>
    intro h2 st d hs hT hD
    cases h2 with
    | nil => exact absurd hs (by simp [SameReqs])
    | cons b r2 =>
      obtain ⟨ra, ta1, ta2⟩ := a
      obtain ⟨rb, tb1, tb2⟩ := b
      simp only [SameReqs] at hs
      obtain ⟨hab, hrest⟩ := hs
      subst hab
      obtain ⟨ho, hT', hD'⟩ := step_sim h cfg st d ra ta1 ta2 tb1 hT hD
      have := ih r2 _ _ hrest hT' hD'
      simp only [runE, runD]
      rw [ho, this]

theorem init_sim (h : ReloadOK sem) (s0 : List (String × sem.S)) :
    TabGood h ({ store := s0 } : SysSt sem) ∧ DirOK h ({ store := s0 } : SysSt sem) ({ base := s0 } : DSt sem) := by
  constructor
  · intro n e l he; simp [kget] at he
  · intro n t; exact ⟨rfl, h.load_R _ _⟩

/-! ### requests to one name leave the other names alone -/

theorem expire_other (st : SysSt sem) (m n : String) (rel : Bool) (now : Int) (h : n ≠ m) :
    kget (expire st m rel now).1.table n = kget st.table n := by
  unfold expire
  cases hk : kget st.table m with
  | none => rfl
  | some e0 =>
    simp only
    generalize (if rel = true then e0.pending - 1 else e0.pending + 1) = p
    split
    · exact kget_kset_other _ _ _ _ h
    · exact kget_kdel_other _ _ _ h

theorem getE_other (cfg : Cfg) (st : SysSt sem) (m n : String) (e : CEntry sem) (inst chk : Bool) (now : Int) (h : n ≠ m) :
    kget (getE cfg st m e inst chk now).1.table n = kget st.table n := by
  unfold getE
  simp only
  split
  · rfl
  · cases inst with
    | false => rfl
    | true => exact kget_kset_other _ _ _ _ h

theorem openE_other (cfg : Cfg) (st : SysSt sem) (m n : String) (chk : Bool) (now : Int) (h : n ≠ m) :
    kget (openE cfg st m chk now).1.table n = kget st.table n := by
  have h1 := expire_other st m n false now h
  unfold openE
  cases hx : expire st m false now with
  | mk st1 r1 =>
    rw [hx] at h1
    cases r1 with
    | some l => simp only; split <;> exact h1
    | none =>
      simp only
      cases hk1 : kget st1.table m with
      | some e1 => simp only; rw [getE_other _ _ _ _ _ _ _ _ h]; exact h1
      | none =>
        simp only
        rw [getE_other _ _ _ _ _ _ _ _ h]
        split
        · simp only; rw [kget_kset_other _ _ _ _ h]; exact h1
        · exact h1

theorem release_other (st : SysSt sem) (m n : String) (now : Int) (h : n ≠ m) :
    kget (releaseE st m now).table n = kget st.table n := expire_other st m n true now h

theorem reqE_other (cfg : Cfg) (st : SysSt sem) (r : Req sem) (n : String) (t1 t2 : Int) (h : n ≠ r.name) :
    kget (reqE cfg st r t1 t2).1.table n = kget st.table n ∧
    storeOf (reqE cfg st r t1 t2).1.store n = storeOf st.store n := by
  cases r with
  | api m op =>
    have h : n ≠ m := h
    have ho := openE_other cfg st m n true t1 h
    have hs := (openE_spec cfg st m true t1).1
    cases hx : openE cfg st m true t1 with
    | mk st1 r1 =>
      rw [hx] at ho hs
      cases r1 with
      | none =>
        rw [reqE_api_none cfg st st1 m op t1 t2 hx]
        exact ⟨(release_other _ _ _ _ h).trans ho, by rw [release_store]; exact congrArg (fun s => storeOf s n) hs⟩
      | some l =>
        rw [reqE_api_some cfg st st1 m op t1 t2 l hx]
        refine ⟨(release_other _ _ _ _ h).trans ?_, ?_⟩
        · simp only [updSt]; rw [kget_updLoc_other _ _ _ _ h]; exact ho
        · rw [release_store]; simp only [updSt]; rw [storeOf_kset_other _ _ _ _ h]; exact congrArg (fun s => storeOf s n) hs
  | create m =>
    have h : n ≠ m := h
    have ho := openE_other cfg st m n false t1 h
    have hs := (openE_spec cfg st m false t1).1
    cases hx : openE cfg st m false t1 with
    | mk st1 r1 =>
      rw [hx] at ho hs
      simp only at ho hs
      cases r1 with
      | none =>
        simp only [reqE, hx]
        exact ⟨(release_other _ _ _ _ h).trans ho, by rw [release_store]; exact congrArg (fun s => storeOf s n) hs⟩
      | some l =>
        simp only [reqE, hx]
        split
        · exact ⟨(release_other _ _ _ _ h).trans ho, by rw [release_store]; exact congrArg (fun s => storeOf s n) hs⟩
        · refine ⟨(release_other _ _ _ _ h).trans ?_, ?_⟩
          · simp only; rw [kget_updLoc_other _ _ _ _ h]; exact ho
          · rw [release_store]; simp only; rw [storeOf_kset_other _ _ _ _ h]; exact congrArg (fun s => storeOf s n) hs
  | peek m =>
    have h : n ≠ m := h
    simp only [reqE]
    exact ⟨(release_other _ _ _ _ h).trans (openE_other cfg st m n false t1 h),
      by rw [release_store]; exact congrArg (fun s => storeOf s n) (openE_spec cfg st m false t1).1⟩

/-- whatever the state of the cache: with existence checking on, `Open` hands a checked request only an instance that
carries the marker -/
theorem openE_checked (cfg : Cfg) (hc : cfg.checkExistence = true) (st : SysSt sem) (n : String) (now : Int) (l : sem.L)
    (h : (openE cfg st n true now).2 = some l) : sem.created l = true :=
  ((openE_spec cfg st n true now).2.2.1 l h).2 (by simp [hc])

/-- a checked request to a name that has no cache entry and no marker in storage fails and changes nothing -/
theorem reqE_api_absent (cfg : Cfg) (hc : cfg.checkExistence = true) (st : SysSt sem) (n : String) (op : sem.Op) (t1 t2 : Int)
    (htab : kget st.table n = none) (hcr : sem.created (sem.load t1 (storeOf st.store n)) = false) :
    (reqE cfg st (.api n op) t1 t2).2 = .notFound ∧
    kget (reqE cfg st (.api n op) t1 t2).1.table n = none ∧
    (reqE cfg st (.api n op) t1 t2).1.store = st.store := by
  have hexp : expire st n false t1 = (st, none) := by simp [expire, htab]
  -- after the failed open the name has no entry, or one without a Location that only this request holds
  have hopen : (openE cfg st n true t1).2 = none ∧ (openE cfg st n true t1).1.store = st.store ∧
      (kget (openE cfg st n true t1).1.table n = none ∨
       ∃ x, kget (openE cfg st n true t1).1.table n = some ({ expires := x, pending := 1, loc := none } : CEntry sem)) := by
    unfold openE
    rw [hexp]
    simp only [htab]
    generalize hst2 : (if installs cfg = true then { st with table := kset st.table n ({ expires := newExpires cfg t1, pending := 1, loc := none } : CEntry sem) } else st) = st2
    have hs2 : st2.store = st.store := by rw [← hst2]; split <;> rfl
    have ht2 : kget st2.table n = none ∨ ∃ x, kget st2.table n = some ({ expires := x, pending := 1, loc := none } : CEntry sem) := by
      rw [← hst2]; split
      · exact Or.inr ⟨_, kget_kset_same _ _ _⟩
      · exact Or.inl htab
    obtain ⟨g1, g2, g3⟩ := getE_fail cfg st2 n { expires := newExpires cfg t1, pending := 1, loc := none } (installs cfg) true t1
      (by rw [hs2]; simp [hc, hcr])
    exact ⟨g1, g2.trans hs2, by rw [g3]; exact ht2⟩
  cases hx : openE cfg st n true t1 with
  | mk st1 r1 =>
    rw [hx] at hopen
    obtain ⟨h1, h2, h3⟩ := hopen
    simp only at h1 h2 h3
    subst h1
    rw [reqE_api_none cfg st st1 n op t1 t2 hx]
    refine ⟨rfl, ?_, ?_⟩
    · rcases h3 with h3 | ⟨x, h3⟩
      · simp [releaseE, expire, h3]
      · simp [releaseE, expire, h3, kget_kdel_same]
    · rw [release_store]; exact h2

theorem no_create_run (cfg : Cfg) (hc : cfg.checkExistence = true) (n : String) (s : sem.S)
    (hn : ∀ t, sem.created (sem.load t s) = false) :
    ∀ (hist : List (Req sem × Int × Int)) (st : SysSt sem),
      (∀ x ∈ hist, x.1.name = n → ∃ op, x.1 = .api n op) →
      kget st.table n = none → storeOf st.store n = s →
      (∀ p ∈ hist.zip (runE cfg st hist).2, p.1.1.name = n → p.2 = .notFound) ∧
      storeOf (runE cfg st hist).1.store n = s ∧ kget (runE cfg st hist).1.table n = none := by
  intro hist
  induction hist with
  | nil => intro st _ ht hs; exact ⟨by intro p hp; simp [runE] at hp, hs, ht⟩
  | cons a rest ih =>
    intro st hok ht hs
    obtain ⟨r, t1, t2⟩ := a
    simp only [runE]
    by_cases hname : r.name = n
    · obtain ⟨op, hr⟩ := hok (r, t1, t2) (List.mem_cons_self ..) hname
      simp only at hr
      subst hr
      obtain ⟨g1, g2, g3⟩ := reqE_api_absent cfg hc st n op t1 t2 ht (by rw [hs]; exact hn t1)
      obtain ⟨i1, i2, i3⟩ := ih (reqE cfg st (.api n op) t1 t2).1 (fun x hx => hok x (List.mem_cons_of_mem _ hx)) g2 (by rw [g3]; exact hs)
      refine ⟨?_, i2, i3⟩
      intro p hp hpn
      simp only [List.zip_cons_cons, List.mem_cons] at hp
      rcases hp with hp | hp
      · subst hp; exact g1
      · exact i1 p hp hpn
    · obtain ⟨g1, g2⟩ := reqE_other cfg st r n t1 t2 (fun e => hname e.symm)
      obtain ⟨i1, i2, i3⟩ := ih (reqE cfg st r t1 t2).1 (fun x hx => hok x (List.mem_cons_of_mem _ hx)) (g1.trans ht) (g2.trans hs)
      refine ⟨?_, i2, i3⟩
      intro p hp hpn
      simp only [List.zip_cons_cons, List.mem_cons] at hp
      rcases hp with hp | hp
      · subst hp; exact absurd hpn hname
      · exact i1 p hp hpn

/-- the name `n` is not created: its storage is `s` (which holds no marker) and whatever instance of it is cached
carries no marker -/
def Unmarked (st : SysSt sem) (n : String) (s : sem.S) : Prop :=
  storeOf st.store n = s ∧ ∀ e l, kget st.table n = some e → e.loc = some l → sem.created l = false

/-- a request that is not `CreateLocation n` keeps `n` un-created, and fails when it is a checked request to `n` —
also after unchecked opens (`GetLocation n`) have put an instance of `n` into the cache -/
theorem reqE_unmarked (cfg : Cfg) (hc : cfg.checkExistence = true) (n : String) (s : sem.S)
    (hn : ∀ t, sem.created (sem.load t s) = false) (st : SysSt sem) (r : Req sem) (t1 t2 : Int)
    (hr : r ≠ .create n) (hU : Unmarked st n s) :
    Unmarked (reqE cfg st r t1 t2).1 n s ∧ (∀ op, r = .api n op → (reqE cfg st r t1 t2).2 = .notFound) := by
  obtain ⟨hs, hT⟩ := hU
  by_cases hname : r.name = n
  · cases r with
    | create m => exact absurd (by simp [Req.name] at hname; rw [hname]) hr
    | api m op =>
      have hm : m = n := hname
      subst hm
      obtain ⟨os, otab, osome, onone⟩ := openE_spec cfg st m true t1
      cases ho : openE cfg st m true t1 with
      | mk st1 r1 =>
        rw [ho] at os otab osome onone
        simp only at os otab osome onone
        cases r1 with
        | some l =>
          -- impossible: the instance handed out carries the marker
          obtain ⟨hl, hcr⟩ := osome l rfl
          have hcl : sem.created l = true := hcr (by simp [hc])
          rcases hl with ⟨e0, h0, h1⟩ | hl
          · rw [hT e0 l h0 h1] at hcl; cases hcl
          · rw [hl, hs, hn t1] at hcl; cases hcl
        | none =>
          rw [reqE_api_none cfg st st1 m op t1 t2 ho]
          refine ⟨⟨by rw [release_store, os]; exact hs, ?_⟩, fun _ _ => rfl⟩
          intro e l he hl
          obtain ⟨e1, h1, h2⟩ := (expire_spec st1 m true t2).2.1 m e he
          rcases otab m e1 l h1 (h2 ▸ hl) with ⟨e0, h0, h3⟩ | ⟨_, h3⟩
          · exact hT e0 l h0 h3
          · cases h3
    | peek m =>
      have hm : m = n := hname
      subst hm
      obtain ⟨os, otab, osome, _⟩ := openE_spec cfg st m false t1
      refine ⟨⟨?_, ?_⟩, fun op h => by cases h⟩
      · simp only [reqE]; rw [release_store, os]; exact hs
      · intro e l he hl
        simp only [reqE] at he
        obtain ⟨e1, h1, h2⟩ := (expire_spec (openE cfg st m false t1).1 m true t2).2.1 m e he
        rcases otab m e1 l h1 (h2 ▸ hl) with ⟨e0, h0, h3⟩ | ⟨_, h3⟩
        · exact hT e0 l h0 h3
        · rcases (osome l h3).1 with ⟨e0, h0, h4⟩ | h4
          · exact hT e0 l h0 h4
          · rw [h4, hs]; exact hn t1
  · obtain ⟨g1, g2⟩ := reqE_other cfg st r n t1 t2 (fun e => hname e.symm)
    refine ⟨⟨g2.trans hs, ?_⟩, ?_⟩
    · intro e l he hl; rw [g1] at he; exact hT e l he hl
    · intro op h; subst h; exact absurd rfl hname

theorem unmarked_run (cfg : Cfg) (hc : cfg.checkExistence = true) (n : String) (s : sem.S)
    (hn : ∀ t, sem.created (sem.load t s) = false) :
    ∀ (hist : List (Req sem × Int × Int)) (st : SysSt sem),
      (∀ x ∈ hist, x.1 ≠ .create n) → Unmarked st n s →
      (∀ p ∈ hist.zip (runE cfg st hist).2, ∀ op, p.1.1 = .api n op → p.2 = .notFound) ∧
      storeOf (runE cfg st hist).1.store n = s := by
  intro hist
  induction hist with
  | nil => intro st _ hU; exact ⟨by intro p hp; simp [runE] at hp, hU.1⟩
  | cons a rest ih =>
    intro st hok hU
    obtain ⟨r, t1, t2⟩ := a
    simp only [runE]
    obtain ⟨g1, g2⟩ := reqE_unmarked cfg hc n s hn st r t1 t2 (hok (r, t1, t2) (List.mem_cons_self ..)) hU
    obtain ⟨i1, i2⟩ := ih (reqE cfg st r t1 t2).1 (fun x hx => hok x (List.mem_cons_of_mem _ hx)) g1
    refine ⟨?_, i2⟩
    intro p hp op hpn
    simp only [List.zip_cons_cons, List.mem_cons] at hp
    rcases hp with hp | hp
    · subst hp; exact g2 op hpn
    · exact i1 p hp op hpn

/-! ### `keepMark`: `ClearLocation` keeps the marker, and reloading stays the identity -/

theorem keepMarkExec_R (h : ReloadOK sem) (isClear : sem.Op → Bool) (l : sem.L) (s : sem.S) (op : sem.Op) (hR : h.R l s) :
    h.R (keepMarkExec sem isClear l s op).1 (keepMarkExec sem isClear l s op).2.1 := by
  unfold keepMarkExec
  simp only
  by_cases hb : (isClear op && sem.created l && !sem.created (sem.exec l s op).1) = true
  · rw [if_pos hb]; exact h.mark_R _ _ (h.exec_R l s op hR)
  · rw [if_neg hb]; exact h.exec_R l s op hR

theorem keepMarkExec_eq (h : ReloadOK sem) (isClear : sem.Op → Bool) (l l' : sem.L) (s : sem.S) (op : sem.Op)
    (hR : h.R l s) (hR' : h.R l' s) :
    (keepMarkExec sem isClear l s op).2 = (keepMarkExec sem isClear l' s op).2 := by
  have he := h.exec_eq l l' s op hR hR'
  have hc := h.created_eq l l' s hR hR'
  have hs : (sem.exec l s op).2.1 = (sem.exec l' s op).2.1 := congrArg Prod.fst he
  have hr : (sem.exec l s op).2.2 = (sem.exec l' s op).2.2 := congrArg Prod.snd he
  have hc2 : sem.created (sem.exec l s op).1 = sem.created (sem.exec l' s op).1 :=
    h.created_eq _ _ _ (h.exec_R l s op hR) (hs ▸ h.exec_R l' s op hR')
  have hm : (sem.mark (sem.exec l s op).1 (sem.exec l s op).2.1).2 = (sem.mark (sem.exec l' s op).1 (sem.exec l' s op).2.1).2 := by
    rw [← hs]; exact h.mark_eq _ _ _ (h.exec_R l s op hR) (hs ▸ h.exec_R l' s op hR')
  unfold keepMarkExec
  simp only
  rw [← hc, ← hc2]
  by_cases hb : (isClear op && sem.created l && !sem.created (sem.exec l s op).1) = true
  · rw [if_pos hb, if_pos hb]; simp only [hm, hr]
  · rw [if_neg hb, if_neg hb]; exact he

theorem keepMarkExec_keeps (isClear : sem.Op → Bool) (hmc : ∀ l s, sem.created (sem.mark l s).1 = true)
    (op : sem.Op) (hop : isClear op = true) (l : sem.L) (s : sem.S) (hl : sem.created l = true) :
    sem.created (keepMarkExec sem isClear l s op).1 = true := by
  unfold keepMarkExec
  simp only
  by_cases hb : (isClear op && sem.created l && !sem.created (sem.exec l s op).1) = true
  · rw [if_pos hb]; exact hmc _ _
  · rw [if_neg hb]
    simp [hop, hl] at hb
    exact hb

/-- if reloading is the identity on observations for `sem`, it is for `keepMark sem isClear` (same relation) -/
def keepMark_reloadOK (h : ReloadOK sem) (isClear : sem.Op → Bool) : ReloadOK (keepMark sem isClear) where
  R := h.R
  load_R := h.load_R
  exec_R := fun l s op hR => keepMarkExec_R h isClear l s op hR
  exec_eq := fun l l' s op hR hR' => keepMarkExec_eq h isClear l l' s op hR hR'
  created_eq := h.created_eq
  mark_R := h.mark_R
  mark_eq := h.mark_eq
  mark_created := h.mark_created

/-- the operations carried out the way `ClearLocation` does it never erase the marker -/
theorem keepMark_keeps (sem : LocSem) (isClear : sem.Op → Bool) (hmc : ∀ l s, sem.created (sem.mark l s).1 = true)
    (op : sem.Op) (hop : isClear op = true) : KeepsMarker (keepMark sem isClear) op :=
  fun l s hl => keepMarkExec_keeps isClear hmc op hop l s hl

end seq

/-! ## the concurrent protocol: holders are counted, the instance in use is never dropped -/

section conc
variable {sem : LocSem}

theorem setNth_length {α : Type} (l : List α) (i : Nat) (a : α) : (setNth l i a).length = l.length := by
  induction l generalizing i with
  | nil => rfl
  | cons x xs ih => cases i with
    | zero => rfl
    | succ i => simp [setNth, ih]

theorem setNth_get_same {α : Type} (l : List α) (i : Nat) (a : α) (h : i < l.length) : (setNth l i a)[i]? = some a := by
  induction l generalizing i with
  | nil => simp at h
  | cons x xs ih => cases i with
    | zero => rfl
    | succ i => simp [setNth]; exact ih i (by simpa using h)

theorem setNth_get_other {α : Type} (l : List α) (i j : Nat) (a : α) (h : j ≠ i) : (setNth l i a)[j]? = l[j]? := by
  induction l generalizing i j with
  | nil => rfl
  | cons x xs ih => cases i with
    | zero => cases j with
      | zero => exact absurd rfl h
      | succ j => rfl
    | succ i => cases j with
      | zero => rfl
      | succ j => simp [setNth]; exact ih i j (by omega)

theorem lt_of_get_some {α : Type} (l : List α) (i : Nat) (a : α) (h : l[i]? = some a) : i < l.length := by
  rcases Nat.lt_or_ge i l.length with h1 | h1
  · exact h1
  · rw [List.getElem?_eq_none h1] at h; cases h

theorem get_after_set {α : Type} (l : List α) (i t : Nat) (a0 a x : α) (h0 : l[i]? = some a0)
    (h : (setNth l i a)[t]? = some x) : (t = i ∧ x = a) ∨ (t ≠ i ∧ l[t]? = some x) := by
  by_cases ht : t = i
  · subst ht
    rw [setNth_get_same _ _ _ (lt_of_get_some _ _ _ h0)] at h
    cases h; exact Or.inl ⟨rfl, rfl⟩
  · rw [setNth_get_other _ _ _ _ ht] at h; exact Or.inr ⟨ht, h⟩

theorem get_append_left {α : Type} (l : List α) (a x : α) (j : Nat) (h : l[j]? = some x) : (l ++ [a])[j]? = some x := by
  rw [List.getElem?_append_left (lt_of_get_some _ _ _ h)]; exact h

theorem get_append_new {α : Type} (l : List α) (a : α) : (l ++ [a])[l.length]? = some a := by
  simp

/-- the name a thread has opened and not released yet (whether or not the open succeeded) -/
def pcHolds (pc : PC sem) (n : String) : Bool :=
  match pc with
  | .opened r _ => decide (r.name = n)
  | .releasing m _ _ => decide (m = n)
  | _ => false

/-- the instance a thread holds -/
def pcInst (pc : PC sem) : Option (String × Nat) :=
  match pc with
  | .opened r i => some (r.name, i)
  | .releasing n (some i) _ => some (n, i)
  | _ => none

/-- number of threads between their `Open` and their `Release` of `n` -/
def cnt (n : String) : List (PC sem) → Nat
  | [] => 0
  | pc :: r => (if pcHolds pc n then 1 else 0) + cnt n r

def entPending (table : List (String × HEntry)) (n : String) : Nat :=
  match kget table n with
  | some e => e.pending
  | none => 0

theorem holdsInst_eq (c : CSt sem) (t : Nat) :
    holdsInst c t = (match c.pcs[t]? with | some pc => pcInst pc | none => none) := by
  unfold holdsInst
  cases h : c.pcs[t]? with
  | none => rfl
  | some pc =>
    cases pc with
    | start r => rfl
    | opened r i => rfl
    | releasing n inst out => cases inst <;> rfl
    | done i o => rfl

theorem pcInst_holds (pc : PC sem) (n : String) (i : Nat) (h : pcInst pc = some (n, i)) : pcHolds pc n = true := by
  cases pc with
  | start r => simp [pcInst] at h
  | opened r j => simp [pcInst] at h; simp [pcHolds, h.1]
  | releasing m inst out =>
    cases inst with
    | none => simp [pcInst] at h
    | some j => simp [pcInst] at h; simp [pcHolds, h.1]
  | done j o => simp [pcInst] at h

theorem cnt_setNth (n : String) : ∀ (l : List (PC sem)) (i : Nat) (old new : PC sem), l[i]? = some old →
    cnt n (setNth l i new) + (if pcHolds old n then 1 else 0) = cnt n l + (if pcHolds new n then 1 else 0) := by
  intro l
  induction l with
  | nil => intro i old new h; simp at h
  | cons x xs ih =>
    intro i old new h
    cases i with
    | zero =>
      simp at h; subst h
      simp only [setNth, cnt]; omega
    | succ i =>
      simp at h
      have := ih i old new h
      simp only [setNth, cnt]; omega

theorem cnt_pos (n : String) : ∀ (l : List (PC sem)) (t : Nat) (pc : PC sem), l[t]? = some pc → pcHolds pc n = true → 0 < cnt n l := by
  intro l
  induction l with
  | nil => intro t pc h; simp at h
  | cons x xs ih =>
    intro t pc h hp
    cases t with
    | zero => simp at h; subst h; simp only [cnt, hp, if_true]; omega
    | succ t =>
      simp at h
      have := ih t pc h hp
      simp only [cnt]; omega

theorem entPending_kset_same (table : List (String × HEntry)) (n : String) (e : HEntry) :
    entPending (kset table n e) n = e.pending := by
  simp [entPending, kget_kset_same]

theorem entPending_kdel_same (table : List (String × HEntry)) (n : String) : entPending (kdel table n) n = 0 := by
  simp [entPending, kget_kdel_same]

/-- the protocol invariant: every entry counts its holders, what a thread holds is what the table has -/
structure PInv (c : CSt sem) : Prop where
  count : ∀ n, entPending c.table n = cnt n c.pcs
  held : ∀ (t : Nat) (pc : PC sem) (n : String) (i : Nat), c.pcs[t]? = some pc → pcInst pc = some (n, i) →
    ∃ e, kget c.table n = some e ∧ e.inst = some i
  valid : ∀ n e i, kget c.table n = some e → e.inst = some i → ∃ l, c.insts[i]? = some (n, l)

/-- one step of thread `tid` that works on the name `n0`: what has to be shown for the invariant to survive -/
theorem pinv_step (c c' : CSt sem) (tid : Nat) (pc0 pc' : PC sem) (n0 : String)
    (hI : PInv c) (hpc : c.pcs[tid]? = some pc0) (hp : c'.pcs = setNth c.pcs tid pc')
    (hother : ∀ m, m ≠ n0 → kget c'.table m = kget c.table m)
    (hpc0 : ∀ m, m ≠ n0 → pcHolds pc0 m = false) (hpc' : ∀ m, m ≠ n0 → pcHolds pc' m = false)
    (hcnt : entPending c'.table n0 + (if pcHolds pc0 n0 then 1 else 0) = entPending c.table n0 + (if pcHolds pc' n0 then 1 else 0))
    (hkeep : ∀ e i, kget c.table n0 = some e → e.inst = some i →
        (∃ e', kget c'.table n0 = some e' ∧ e'.inst = some i) ∨ entPending c'.table n0 = 0)
    (hnew : ∀ n i, pcInst pc' = some (n, i) → ∃ e', kget c'.table n = some e' ∧ e'.inst = some i)
    (hinsts : ∀ (j : Nat) (nm : String) (l : sem.L), c.insts[j]? = some (nm, l) → ∃ l', c'.insts[j]? = some (nm, l'))
    (hval0 : ∀ e i, kget c'.table n0 = some e → e.inst = some i → ∃ l, c'.insts[i]? = some (n0, l)) :
    PInv c' := by
  have hcount : ∀ n, entPending c'.table n = cnt n c'.pcs := by
    intro n
    rw [hp]
    have hs := cnt_setNth n c.pcs tid pc0 pc' hpc
    have hold := hI.count n
    by_cases hn : n = n0
    · subst hn; omega
    · have e1 : entPending c'.table n = entPending c.table n := by simp only [entPending, hother n hn]
      rw [hpc0 n hn, hpc' n hn] at hs
      simp at hs
      omega
  refine ⟨hcount, ?_, ?_⟩
  · intro t pc n i hget hinst
    rw [hp] at hget
    rcases get_after_set c.pcs tid t pc0 pc' pc hpc hget with ⟨_, h2⟩ | ⟨_, h2⟩
    · subst h2; exact hnew n i hinst
    · obtain ⟨e, he, hei⟩ := hI.held t pc n i h2 hinst
      by_cases hn : n = n0
      · subst hn
        rcases hkeep e i he hei with h | h
        · exact h
        · have hpos := cnt_pos n c'.pcs t pc (by rw [hp]; exact hget) (pcInst_holds pc n i hinst)
          have := hcount n
          omega
      · exact ⟨e, by rw [hother n hn]; exact he, hei⟩
  · intro n e i he hei
    by_cases hn : n = n0
    · subst hn; exact hval0 e i he hei
    · rw [hother n hn] at he
      obtain ⟨l, hl⟩ := hI.valid n e i he hei
      exact hinsts i n l hl


/-! ### what the three steps do, case by case -/

/-- where the entry that `Open` loads into comes from: an entry without a Location that is still held (one more
holder), or a new one -/
def LoadOrigin (cfg : Cfg) (c : CSt sem) (r : Req sem) (now : Int) (e : HEntry) (installed : Bool) : Prop :=
  (∃ e0, kget c.table r.name = some e0 ∧ e0.inst = none ∧ e = { e0 with pending := e0.pending + 1 } ∧ installed = true) ∨
  (kget c.table r.name = none ∧ e = { expires := newExpires cfg now, pending := 1, inst := none } ∧ installed = installs cfg)

inductive OpenRes (cfg : Cfg) (c : CSt sem) (r : Req sem) (now : Int) : CSt sem × PC sem → Prop where
  | stuck : OpenRes cfg c r now (c, .start r)
  | served (e0 : HEntry) (i : Nat) (nm : String) (l : sem.L) :
      kget c.table r.name = some e0 → e0.inst = some i → c.insts[i]? = some (nm, l) →
      (reqCheck r && cfg.checkExistence && !sem.created l) = false →
      OpenRes cfg c r now ({ c with table := kset c.table r.name { e0 with pending := e0.pending + 1 } }, .opened r i)
  | refused (e0 : HEntry) (i : Nat) (nm : String) (l : sem.L) :
      kget c.table r.name = some e0 → e0.inst = some i → c.insts[i]? = some (nm, l) →
      (reqCheck r && cfg.checkExistence && !sem.created l) = true →
      OpenRes cfg c r now ({ c with table := kset c.table r.name { e0 with pending := e0.pending + 1 },
                                    log := c.log ++ [(r, .notFound)] }, .releasing r.name none .notFound)
  | loaded (e : HEntry) (installed : Bool) :
      LoadOrigin cfg c r now e installed →
      (reqCheck r && cfg.checkExistence && !sem.created (sem.load now (storeOf c.store r.name))) = false →
      OpenRes cfg c r now
        ({ c with loads := c.loads ++ [r.name], insts := c.insts ++ [(r.name, sem.load now (storeOf c.store r.name))],
                  table := (if installed then kset c.table r.name
                      (loadedEntry e c.insts.length now (sem.cacheTTL (sem.load now (storeOf c.store r.name)))) else c.table) },
         .opened r c.insts.length)
  | loadFailed (e : HEntry) (installed : Bool) :
      LoadOrigin cfg c r now e installed →
      (reqCheck r && cfg.checkExistence && !sem.created (sem.load now (storeOf c.store r.name))) = true →
      OpenRes cfg c r now
        ({ c with loads := c.loads ++ [r.name], table := (if installed then kset c.table r.name e else c.table),
                  log := c.log ++ [(r, .notFound)] }, .releasing r.name none .notFound)

theorem loadC_res (cfg : Cfg) (c : CSt sem) (r : Req sem) (now : Int) (e : HEntry) (installed : Bool)
    (ho : LoadOrigin cfg c r now e installed) : OpenRes cfg c r now (loadC cfg c r e installed now) := by
  unfold loadC
  simp only
  by_cases hb : (reqCheck r && cfg.checkExistence && !sem.created (sem.load now (storeOf c.store r.name))) = true
  · rw [if_pos hb]; exact OpenRes.loadFailed e installed ho hb
  · rw [if_neg hb]; exact OpenRes.loaded e installed ho (by simpa using hb)

theorem openC_res (cfg : Cfg) (c : CSt sem) (r : Req sem) (now : Int) : OpenRes cfg c r now (openC cfg c r now) := by
  unfold openC
  cases hk : kget c.table r.name with
  | none => simp only; exact loadC_res cfg c r now _ _ (Or.inr ⟨hk, rfl, rfl⟩)
  | some e0 =>
    simp only
    split
    next i hi =>
      unfold servedC
      cases hg : c.insts[i]? with
      | none => exact OpenRes.stuck
      | some p =>
        obtain ⟨nm, l⟩ := p
        simp only
        by_cases hb : (reqCheck r && cfg.checkExistence && !sem.created l) = true
        · rw [if_pos hb]; exact OpenRes.refused e0 i nm l hk hi hg hb
        · rw [if_neg hb]; exact OpenRes.served e0 i nm l hk hi hg (by simpa using hb)
    next hi => exact loadC_res cfg c r now _ _ (Or.inl ⟨e0, hk, hi, rfl, rfl⟩)

inductive CallRes (c : CSt sem) (r : Req sem) (i : Nat) : CSt sem × PC sem → Prop where
  | stuck : c.insts[i]? = none → CallRes c r i (c, .opened r i)
  | api (n : String) (op : sem.Op) (nm : String) (l : sem.L) : r = .api n op → c.insts[i]? = some (nm, l) →
      CallRes c r i
        ({ c with insts := setNth c.insts i (n, (sem.exec l (storeOf c.store n) op).1),
                  store := kset c.store n (sem.exec l (storeOf c.store n) op).2.1,
                  log := c.log ++ [(r, .ok (sem.exec l (storeOf c.store n) op).2.2)] },
         .releasing n (some i) (.ok (sem.exec l (storeOf c.store n) op).2.2))
  | createOld (n : String) (nm : String) (l : sem.L) : r = .create n → c.insts[i]? = some (nm, l) → sem.created l = true →
      CallRes c r i ({ c with log := c.log ++ [(r, .created false)] }, .releasing n (some i) (.created false))
  | createNew (n : String) (nm : String) (l : sem.L) : r = .create n → c.insts[i]? = some (nm, l) → sem.created l = false →
      CallRes c r i
        ({ c with insts := setNth c.insts i (n, (sem.mark l (storeOf c.store n)).1),
                  store := kset c.store n (sem.mark l (storeOf c.store n)).2,
                  log := c.log ++ [(r, .created true)] },
         .releasing n (some i) (.created true))
  | peek (n : String) (nm : String) (l : sem.L) : r = .peek n → c.insts[i]? = some (nm, l) →
      CallRes c r i ({ c with log := c.log ++ [(r, .peeked)] }, .releasing n (some i) .peeked)

theorem callC_res (c : CSt sem) (r : Req sem) (i : Nat) : CallRes c r i (callC c r i) := by
  unfold callC
  cases hg : c.insts[i]? with
  | none => exact CallRes.stuck hg
  | some p =>
    obtain ⟨nm, l⟩ := p
    simp only
    cases r with
    | api n op => exact CallRes.api n op nm l rfl hg
    | create n =>
      simp only
      cases hc : sem.created l with
      | true => simp only [if_true]; exact CallRes.createOld n nm l rfl hg hc
      | false => simp only [Bool.false_eq_true, if_false]; exact CallRes.createNew n nm l rfl hg hc
    | peek n => exact CallRes.peek n nm l rfl hg

/-- what a call leaves alone: the table and the threads; the instances keep their names -/
theorem callRes_shape (c : CSt sem) (r : Req sem) (i : Nat) (x : CSt sem × PC sem) (h : CallRes c r i x) :
    x = (c, .opened r i) ∨
    (∃ out, x.2 = .releasing r.name (some i) out) ∧ x.1.table = c.table ∧ x.1.pcs = c.pcs ∧
      (x.1.insts = c.insts ∨ ∃ l2, x.1.insts = setNth c.insts i (r.name, l2)) := by
  cases h with
  | stuck _ => exact Or.inl rfl
  | api n op nm l hr hg => subst hr; exact Or.inr ⟨⟨_, rfl⟩, rfl, rfl, Or.inr ⟨_, rfl⟩⟩
  | createOld n nm l hr hg hc => subst hr; exact Or.inr ⟨⟨_, rfl⟩, rfl, rfl, Or.inl rfl⟩
  | createNew n nm l hr hg hc => subst hr; exact Or.inr ⟨⟨_, rfl⟩, rfl, rfl, Or.inr ⟨_, rfl⟩⟩
  | peek n nm l hr hg => subst hr; exact Or.inr ⟨⟨_, rfl⟩, rfl, rfl, Or.inl rfl⟩

theorem pcHolds_start (r : Req sem) (m : String) : pcHolds (PC.start r) m = false := rfl
theorem pcHolds_done (i : Option Nat) (o : Out sem) (m : String) : pcHolds (PC.done i o) m = false := rfl
theorem pcHolds_opened (r : Req sem) (i : Nat) (m : String) : pcHolds (PC.opened r i) m = decide (r.name = m) := rfl
theorem pcHolds_releasing (n : String) (i : Option Nat) (o : Out sem) (m : String) :
    pcHolds (PC.releasing n i o) m = decide (n = m) := rfl

theorem setNth_get_name (insts : List (String × sem.L)) (i : Nat) (n : String) (l2 l0 : sem.L) (h0 : insts[i]? = some (n, l0))
    (j : Nat) (nm : String) (l : sem.L) (h : insts[j]? = some (nm, l)) : ∃ l', (setNth insts i (n, l2))[j]? = some (nm, l') := by
  by_cases hj : j = i
  · subst hj
    rw [h0] at h; cases h
    exact ⟨l2, setNth_get_same _ _ _ (lt_of_get_some _ _ _ h0)⟩
  · exact ⟨l, by rw [setNth_get_other _ _ _ _ hj]; exact h⟩

/-- the protocol invariant survives every step of every thread -/
theorem pinv_cstep (cfg : Cfg) (hinst : installs cfg = true) (c : CSt sem) (tid : Nat) (now : Int) (hI : PInv c) :
    PInv (cstep cfg c tid now) := by
  unfold cstep
  cases hpc : c.pcs[tid]? with
  | none => exact hI
  | some pc0 =>
    simp only
    cases pc0 with
    | done i o => exact hI
    | start r =>
      simp only
      have hres := openC_res cfg c r now
      generalize openC cfg c r now = x at hres
      cases hres with
      | stuck =>
        have : ({ c with pcs := setNth c.pcs tid (PC.start r) } : CSt sem) = c := by
          have : setNth c.pcs tid (PC.start r) = c.pcs := by
            apply List.ext_getElem?
            intro t
            by_cases ht : t = tid
            · subst ht; rw [setNth_get_same _ _ _ (lt_of_get_some _ _ _ hpc)]; exact hpc.symm
            · exact setNth_get_other _ _ _ _ ht
          rw [this]
        simp only
        rw [this]; exact hI
      | served e0 i nm l hk hi hg hb =>
        refine pinv_step c _ tid (.start r) (.opened r i) r.name hI hpc rfl ?_ ?_ ?_ ?_ ?_ ?_ ?_ ?_
        · intro m hm; exact kget_kset_other _ _ _ _ hm
        · intro m _; rfl
        · intro m hm; simp [pcHolds_opened, Ne.symm hm]
        · simp only [entPending_kset_same, pcHolds_start, pcHolds_opened]
          simp [entPending, hk]
        · intro e j he hj; rw [hk] at he; cases he
          exact Or.inl ⟨_, kget_kset_same _ _ _, hj⟩
        · intro n j hnj; simp [pcInst] at hnj
          obtain ⟨h1, h2⟩ := hnj; subst h1; subst h2
          exact ⟨_, kget_kset_same _ _ _, hi⟩
        · intro j nm' l' h; exact ⟨l', h⟩
        · intro e j he hj
          simp only at he; rw [kget_kset_same] at he; cases he
          exact hI.valid r.name e0 j hk hj
      | refused e0 i nm l hk hi hg hb =>
        refine pinv_step c _ tid (.start r) (.releasing r.name none .notFound) r.name hI hpc rfl ?_ ?_ ?_ ?_ ?_ ?_ ?_ ?_
        · intro m hm; exact kget_kset_other _ _ _ _ hm
        · intro m _; rfl
        · intro m hm; simp [pcHolds_releasing, Ne.symm hm]
        · simp only [entPending_kset_same, pcHolds_start, pcHolds_releasing]
          simp [entPending, hk]
        · intro e j he hj; rw [hk] at he; cases he
          exact Or.inl ⟨_, kget_kset_same _ _ _, hj⟩
        · intro n j hnj; simp [pcInst] at hnj
        · intro j nm' l' h; exact ⟨l', h⟩
        · intro e j he hj
          simp only at he; rw [kget_kset_same] at he; cases he
          exact hI.valid r.name e0 j hk hj
      | loaded e installed ho hb =>
        have hinst' : installed = true := by
          rcases ho with ⟨_, _, _, _, h⟩ | ⟨_, _, h⟩
          · exact h
          · rw [h]; exact hinst
        subst hinst'
        have hpend : e.pending = entPending c.table r.name + 1 ∧ e.inst = none := by
          rcases ho with ⟨e0, h1, h2, h3, _⟩ | ⟨h1, h3, _⟩
          · subst h3; simp [entPending, h1, h2]
          · subst h3; simp [entPending, h1]
        have hnoinst : ∀ e1 j, kget c.table r.name = some e1 → e1.inst = some j → False := by
          intro e1 j h1 h2
          rcases ho with ⟨e0, h3, h4, _, _⟩ | ⟨h3, _, _⟩
          · rw [h3] at h1; cases h1; rw [h4] at h2; cases h2
          · rw [h3] at h1; cases h1
        refine pinv_step c _ tid (.start r) (.opened r c.insts.length) r.name hI hpc rfl ?_ ?_ ?_ ?_ ?_ ?_ ?_ ?_
        · intro m hm; simp only [if_true]; exact kget_kset_other _ _ _ _ hm
        · intro m _; rfl
        · intro m hm; simp [pcHolds_opened, Ne.symm hm]
        · simp only [if_true, entPending_kset_same, pcHolds_start, pcHolds_opened, loadedEntry]
          simp [hpend.1]
        · intro e1 j he hj; exact absurd (hnoinst e1 j he hj) id
        · intro n j hnj; simp [pcInst] at hnj
          obtain ⟨h1, h2⟩ := hnj; subst h1; subst h2
          exact ⟨_, by simp only [if_true]; exact kget_kset_same _ _ _, rfl⟩
        · intro j nm' l' h; exact ⟨l', get_append_left _ _ _ _ h⟩
        · intro e1 j he hj
          simp only [if_true] at he; rw [kget_kset_same] at he; cases he
          simp [loadedEntry] at hj; subst hj
          exact ⟨_, get_append_new _ _⟩
      | loadFailed e installed ho hb =>
        have hinst' : installed = true := by
          rcases ho with ⟨_, _, _, _, h⟩ | ⟨_, _, h⟩
          · exact h
          · rw [h]; exact hinst
        subst hinst'
        have hpend : e.pending = entPending c.table r.name + 1 ∧ e.inst = none := by
          rcases ho with ⟨e0, h1, h2, h3, _⟩ | ⟨h1, h3, _⟩
          · subst h3; simp [entPending, h1, h2]
          · subst h3; simp [entPending, h1]
        have hnoinst : ∀ e1 j, kget c.table r.name = some e1 → e1.inst = some j → False := by
          intro e1 j h1 h2
          rcases ho with ⟨e0, h3, h4, _, _⟩ | ⟨h3, _, _⟩
          · rw [h3] at h1; cases h1; rw [h4] at h2; cases h2
          · rw [h3] at h1; cases h1
        refine pinv_step c _ tid (.start r) (.releasing r.name none .notFound) r.name hI hpc rfl ?_ ?_ ?_ ?_ ?_ ?_ ?_ ?_
        · intro m hm; simp only [if_true]; exact kget_kset_other _ _ _ _ hm
        · intro m _; rfl
        · intro m hm; simp [pcHolds_releasing, Ne.symm hm]
        · simp only [if_true, entPending_kset_same, pcHolds_start, pcHolds_releasing]
          simp [hpend.1]
        · intro e1 j he hj; exact absurd (hnoinst e1 j he hj) id
        · intro n j hnj; simp [pcInst] at hnj
        · intro j nm' l' h; exact ⟨l', h⟩
        · intro e1 j he hj
          simp only [if_true] at he; rw [kget_kset_same] at he; cases he
          rw [hpend.2] at hj; cases hj
    | opened r i =>
      simp only
      have hres := callRes_shape c r i _ (callC_res c r i)
      generalize callC c r i = x at hres
      rcases hres with hx | ⟨⟨out, hout⟩, htab, hpcs, hins⟩
      · subst hx
        have : ({ c with pcs := setNth c.pcs tid (PC.opened r i) } : CSt sem) = c := by
          have : setNth c.pcs tid (PC.opened r i) = c.pcs := by
            apply List.ext_getElem?
            intro t
            by_cases ht : t = tid
            · subst ht; rw [setNth_get_same _ _ _ (lt_of_get_some _ _ _ hpc)]; exact hpc.symm
            · exact setNth_get_other _ _ _ _ ht
          rw [this]
        simp only
        rw [this]; exact hI
      · obtain ⟨e, he, hei⟩ := hI.held tid _ r.name i hpc rfl
        obtain ⟨l0, hl0⟩ := hI.valid r.name e i he hei
        refine pinv_step c _ tid (.opened r i) x.2 r.name hI hpc (by simp only [hpcs]) ?_ ?_ ?_ ?_ ?_ ?_ ?_ ?_
        · intro m _; simp only [htab]
        · intro m hm; simp [pcHolds_opened, Ne.symm hm]
        · intro m hm; rw [hout]; simp [pcHolds_releasing, Ne.symm hm]
        · simp only [htab]; rw [hout]; simp [pcHolds_opened, pcHolds_releasing]
        · intro e1 j h1 h2; exact Or.inl ⟨e1, by simp only [htab]; exact h1, h2⟩
        · intro n j hnj; rw [hout] at hnj; simp [pcInst] at hnj
          obtain ⟨h1, h2⟩ := hnj; subst h1; subst h2
          exact ⟨e, by simp only [htab]; exact he, hei⟩
        · intro j nm' l' h
          rcases hins with hins | ⟨l2, hins⟩
          · exact ⟨l', by simp only [hins]; exact h⟩
          · simp only [hins]; exact setNth_get_name c.insts i r.name l2 l0 hl0 j nm' l' h
        · intro e1 j h1 h2
          simp only [htab] at h1
          obtain ⟨l1, hl1⟩ := hI.valid r.name e1 j h1 h2
          rcases hins with hins | ⟨l2, hins⟩
          · exact ⟨l1, by simp only [hins]; exact hl1⟩
          · simp only [hins]; exact setNth_get_name c.insts i r.name l2 l0 hl0 j r.name l1 hl1
    | releasing n inst out =>
      simp only
      have hpos : 0 < cnt n c.pcs := cnt_pos n c.pcs tid _ hpc (by simp [pcHolds_releasing])
      have hcount := hI.count n
      unfold relC
      cases hk : kget c.table n with
      | none => simp [entPending, hk] at hcount; omega
      | some e =>
        have hep : e.pending = cnt n c.pcs := by simpa [entPending, hk] using hcount
        simp only
        cases hr : releasedEntry e now with
        | some e' =>
          have he' : e' = { e with pending := e.pending - 1 } := by
            unfold releasedEntry at hr
            simp only at hr
            split at hr
            · cases hr; rfl
            · cases hr
          subst he'
          refine pinv_step c _ tid (.releasing n inst out) (.done inst out) n hI hpc rfl ?_ ?_ ?_ ?_ ?_ ?_ ?_ ?_
          · intro m hm; exact kget_kset_other _ _ _ _ hm
          · intro m hm; simp [pcHolds_releasing, Ne.symm hm]
          · intro m _; rfl
          · simp only [entPending_kset_same, pcHolds_releasing, pcHolds_done]
            simp [entPending, hk]; omega
          · intro e1 j h1 h2; rw [hk] at h1; cases h1
            exact Or.inl ⟨_, kget_kset_same _ _ _, h2⟩
          · intro m j hnj; simp [pcInst] at hnj
          · intro j nm' l' h; exact ⟨l', h⟩
          · intro e1 j h1 h2
            simp only at h1; rw [kget_kset_same] at h1; cases h1
            exact hI.valid n e j hk h2
        | none =>
          have hzero : e.pending - 1 = 0 := by
            unfold releasedEntry at hr
            simp only at hr
            split at hr
            · cases hr
            · rename_i hcond
              simp at hcond
              omega
          refine pinv_step c _ tid (.releasing n inst out) (.done inst out) n hI hpc rfl ?_ ?_ ?_ ?_ ?_ ?_ ?_ ?_
          · intro m hm; exact kget_kdel_other _ _ _ hm
          · intro m hm; simp [pcHolds_releasing, Ne.symm hm]
          · intro m _; rfl
          · simp only [entPending_kdel_same, pcHolds_releasing, pcHolds_done]
            simp [entPending, hk]; omega
          · intro e1 j h1 h2; exact Or.inr (entPending_kdel_same _ _)
          · intro m j hnj; simp [pcInst] at hnj
          · intro j nm' l' h; exact ⟨l', h⟩
          · intro e1 j h1 h2
            simp only at h1; rw [kget_kdel_same] at h1; cases h1

theorem pinv_init (store : List (String × sem.S)) (reqs : List (Req sem)) : PInv (cinit store reqs : CSt sem) := by
  have hc : ∀ (n : String) (l : List (Req sem)), cnt n (l.map PC.start) = 0 := by
    intro n l
    induction l with
    | nil => rfl
    | cons a r ih => simp only [List.map, cnt, pcHolds_start]; simpa using ih
  refine ⟨?_, ?_, ?_⟩
  · intro n; simp only [cinit, entPending, kget]; exact (hc n reqs).symm
  · intro t pc n i h hi
    simp only [cinit] at h
    rw [List.getElem?_map] at h
    cases hr : reqs[t]? with
    | none => simp [hr] at h
    | some r => simp [hr] at h; subst h; simp [pcInst] at hi
  · intro n e i h; simp [cinit, kget] at h

theorem pinv_crun (cfg : Cfg) (hinst : installs cfg = true) :
    ∀ (sched : List (Nat × Int)) (c : CSt sem), PInv c → PInv (crun cfg c sched) := by
  intro sched
  induction sched with
  | nil => intro c h; exact h
  | cons a rest ih =>
    intro c h
    obtain ⟨tid, now⟩ := a
    simp only [crun]
    exact ih _ (pinv_cstep cfg hinst c tid now h)


/-! ### transparency under overlap: the answers, in the order in which they were determined, are those of direct
operation -/

theorem runD_append (check : Bool) : ∀ (h1 : List (Req sem × Int × Int)) (d : DSt sem) (x : Req sem × Int × Int),
    runD check d (h1 ++ [x]) =
      ((reqD check (runD check d h1).1 x.1 x.2.1).1, (runD check d h1).2 ++ [(reqD check (runD check d h1).1 x.1 x.2.1).2]) := by
  intro h1
  induction h1 with
  | nil => intro d x; obtain ⟨r, t1, t2⟩ := x; simp [runD]
  | cons a rest ih =>
    intro d x
    obtain ⟨r, t1, t2⟩ := a
    simp only [List.cons_append, runD]
    rw [ih]

/-- the data invariant: cached instances are faithful to the storage, the storage is what direct operation of the
logged requests produces, a thread that passed the check still sees the marker -/
structure DInv (h : ReloadOK sem) (check : Bool) (s0 : List (String × sem.S)) (c : CSt sem) (d : DSt sem) : Prop where
  faithful : ∀ (n : String) (e : HEntry) (i : Nat) (l : sem.L), kget c.table n = some e → e.inst = some i →
    c.insts[i]? = some (n, l) → h.R l (storeOf c.store n)
  dir : ∀ n t, (dget d n t).2 = storeOf c.store n ∧ h.R (dget d n t).1 (storeOf c.store n)
  lin : runD check { base := s0 } (logHist c) = (d, c.log.map (·.2))
  marked : check = true → ∀ (t : Nat) (r : Req sem) (i : Nat) (l : sem.L), c.pcs[t]? = some (.opened r i) → reqCheck r = true →
    c.insts[i]? = some (r.name, l) → sem.created l = true
  keeps : ∀ (t : Nat) (r : Req sem), (c.pcs[t]? = some (.start r) ∨ ∃ i, c.pcs[t]? = some (.opened r i)) → ReqKeeps sem check r

theorem lin_step (check : Bool) (s0 : List (String × sem.S)) (c c' : CSt sem) (d d' : DSt sem) (r : Req sem) (o : Out sem)
    (hl : runD check { base := s0 } (logHist c) = (d, c.log.map (·.2))) (hlog : c'.log = c.log ++ [(r, o)])
    (hreq : reqD check d r 0 = (d', o)) :
    runD check { base := s0 } (logHist c') = (d', c'.log.map (·.2)) := by
  unfold logHist at hl ⊢
  rw [hlog, List.map_append, List.map_append]
  simp only [List.map]
  rw [runD_append, hl]
  simp only [hreq]

/-- threads other than `tid` are where they were; `tid` is at `pc'` -/
theorem pcs_cases (c : CSt sem) (tid t : Nat) (pc0 pc' pc : PC sem) (hpc : c.pcs[tid]? = some pc0)
    (h : (setNth c.pcs tid pc')[t]? = some pc) : (t = tid ∧ pc = pc') ∨ (t ≠ tid ∧ c.pcs[t]? = some pc) :=
  get_after_set c.pcs tid t pc0 pc' pc hpc h

theorem setNth_same_eq {α : Type} (l : List α) (i : Nat) (a : α) (h : l[i]? = some a) : setNth l i a = l := by
  apply List.ext_getElem?
  intro t
  by_cases ht : t = i
  · subst ht; rw [setNth_get_same _ _ _ (lt_of_get_some _ _ _ h)]; exact h.symm
  · exact setNth_get_other _ _ _ _ ht

theorem reqD_create_old (check : Bool) (d : DSt sem) (n : String) (t : Int) (hc : sem.created (dget d n t).1 = true) :
    reqD check d (.create n) t = (d, .created false) := by
  simp only [reqD, hc, if_true]

theorem reqD_create_new (check : Bool) (d : DSt sem) (n : String) (t : Int) (hc : sem.created (dget d n t).1 = false) :
    reqD check d (.create n) t = ({ d with locs := kset d.locs n (sem.mark (dget d n t).1 (dget d n t).2) }, .created true) := by
  simp only [reqD, hc]; rfl

/-- the data invariant survives every step (the protocol invariant is what makes the held instance the cached one) -/
theorem dinv_cstep (h : ReloadOK sem) (cfg : Cfg) (hinst : installs cfg = true) (s0 : List (String × sem.S))
    (c : CSt sem) (tid : Nat) (now : Int) (d : DSt sem) (hP : PInv c) (hD : DInv h cfg.checkExistence s0 c d) :
    ∃ d', DInv h cfg.checkExistence s0 (cstep cfg c tid now) d' := by
  unfold cstep
  cases hpc : c.pcs[tid]? with
  | none => exact ⟨d, hD⟩
  | some pc0 =>
    simp only
    cases pc0 with
    | done i o => exact ⟨d, hD⟩
    | start r =>
      simp only
      have hres := openC_res cfg c r now
      generalize openC cfg c r now = x at hres
      cases hres with
      | stuck =>
        simp only
        rw [setNth_same_eq _ _ _ hpc]; exact ⟨d, hD⟩
      | served e0 i nm l hk hi hg hb =>
        refine ⟨d, ⟨?_, hD.dir, hD.lin, ?_, ?_⟩⟩
        · intro n e j l' he hj hl'
          simp only at he hl'
          by_cases hn : n = r.name
          · subst hn; rw [kget_kset_same] at he; cases he
            exact hD.faithful _ e0 j l' hk hj hl'
          · rw [kget_kset_other _ _ _ _ hn] at he; exact hD.faithful n e j l' he hj hl'
        · intro hc t r' i' l' hget hrc hl'
          simp only at hget hl'
          rcases pcs_cases c tid t _ _ _ hpc hget with ⟨_, h2⟩ | ⟨_, h2⟩
          · cases h2
            rw [hg] at hl'; cases hl'
            simp [hrc, hc] at hb; exact hb
          · exact hD.marked hc t r' i' l' h2 hrc hl'
        · intro t r' hor
          simp only at hor
          rcases hor with hget | ⟨i', hget⟩
          · rcases pcs_cases c tid t _ _ _ hpc hget with ⟨_, h2⟩ | ⟨_, h2⟩
            · cases h2
            · exact hD.keeps t r' (Or.inl h2)
          · rcases pcs_cases c tid t _ _ _ hpc hget with ⟨_, h2⟩ | ⟨_, h2⟩
            · cases h2; exact hD.keeps tid _ (Or.inl hpc)
            · exact hD.keeps t r' (Or.inr ⟨i', h2⟩)
      | refused e0 i nm l hk hi hg hb =>
        have hb' : reqCheck r = true ∧ cfg.checkExistence = true ∧ sem.created l = false := by
          simp [Bool.and_eq_true] at hb; exact ⟨hb.1.1, hb.1.2, hb.2⟩
        obtain ⟨l0, hl0⟩ := hP.valid r.name e0 i hk hi
        have hnm : nm = r.name ∧ l0 = l := by rw [hg] at hl0; cases hl0; exact ⟨rfl, rfl⟩
        have hR : h.R l (storeOf c.store r.name) := hD.faithful r.name e0 i l hk hi (by rw [hg, hnm.1])
        have hreq : reqD cfg.checkExistence d r 0 = (d, .notFound) := by
          cases r with
          | api n op =>
            apply reqD_api_fail
            have := h.created_eq _ _ _ (hD.dir n 0).2 hR
            simp [hb'.2.1, this, hb'.2.2]
          | create n => simp [reqCheck] at hb'
          | peek n => simp [reqCheck] at hb'
        refine ⟨d, ⟨?_, hD.dir, lin_step _ s0 c _ d d r .notFound hD.lin rfl hreq, ?_, ?_⟩⟩
        · intro n e j l' he hj hl'
          simp only at he hl'
          by_cases hn : n = r.name
          · subst hn; rw [kget_kset_same] at he; cases he
            exact hD.faithful _ e0 j l' hk hj hl'
          · rw [kget_kset_other _ _ _ _ hn] at he; exact hD.faithful n e j l' he hj hl'
        · intro hc t r' i' l' hget hrc hl'
          simp only at hget hl'
          rcases pcs_cases c tid t _ _ _ hpc hget with ⟨_, h2⟩ | ⟨_, h2⟩
          · cases h2
          · exact hD.marked hc t r' i' l' h2 hrc hl'
        · intro t r' hor
          simp only at hor
          rcases hor with hget | ⟨i', hget⟩
          · rcases pcs_cases c tid t _ _ _ hpc hget with ⟨_, h2⟩ | ⟨_, h2⟩
            · cases h2
            · exact hD.keeps t r' (Or.inl h2)
          · rcases pcs_cases c tid t _ _ _ hpc hget with ⟨_, h2⟩ | ⟨_, h2⟩
            · cases h2
            · exact hD.keeps t r' (Or.inr ⟨i', h2⟩)
      | loaded e installed ho hb =>
        have hinst' : installed = true := by
          rcases ho with ⟨_, _, _, _, hx⟩ | ⟨_, _, hx⟩
          · exact hx
          · rw [hx]; exact hinst
        subst hinst'
        refine ⟨d, ⟨?_, hD.dir, hD.lin, ?_, ?_⟩⟩
        · intro n e1 j l' he hj hl'
          simp only [if_true] at he hl'
          by_cases hn : n = r.name
          · subst hn; rw [kget_kset_same] at he; cases he
            simp [loadedEntry] at hj; subst hj
            rw [get_append_new] at hl'; cases hl'
            exact h.load_R _ _
          · rw [kget_kset_other _ _ _ _ hn] at he
            obtain ⟨l0, hl0⟩ := hP.valid n e1 j he hj
            rw [get_append_left _ _ _ _ hl0] at hl'; cases hl'
            exact hD.faithful n e1 j _ he hj hl0
        · intro hc t r' i' l' hget hrc hl'
          simp only at hget hl'
          rcases pcs_cases c tid t _ _ _ hpc hget with ⟨_, h2⟩ | ⟨_, h2⟩
          · cases h2
            rw [get_append_new] at hl'; cases hl'
            simp [hrc, hc] at hb; exact hb
          · obtain ⟨e1, he1, hei1⟩ := hP.held t _ r'.name i' h2 rfl
            obtain ⟨l0, hl0⟩ := hP.valid r'.name e1 i' he1 hei1
            rw [get_append_left _ _ _ _ hl0] at hl'; cases hl'
            exact hD.marked hc t r' i' _ h2 hrc hl0
        · intro t r' hor
          simp only at hor
          rcases hor with hget | ⟨i', hget⟩
          · rcases pcs_cases c tid t _ _ _ hpc hget with ⟨_, h2⟩ | ⟨_, h2⟩
            · cases h2
            · exact hD.keeps t r' (Or.inl h2)
          · rcases pcs_cases c tid t _ _ _ hpc hget with ⟨_, h2⟩ | ⟨_, h2⟩
            · cases h2; exact hD.keeps tid _ (Or.inl hpc)
            · exact hD.keeps t r' (Or.inr ⟨i', h2⟩)
      | loadFailed e installed ho hb =>
        have hinst' : installed = true := by
          rcases ho with ⟨_, _, _, _, hx⟩ | ⟨_, _, hx⟩
          · exact hx
          · rw [hx]; exact hinst
        subst hinst'
        have hei : e.inst = none := by
          rcases ho with ⟨e0, h1, h2, h3, _⟩ | ⟨h1, h3, _⟩
          · subst h3; exact h2
          · subst h3; rfl
        have hb' : reqCheck r = true ∧ cfg.checkExistence = true ∧ sem.created (sem.load now (storeOf c.store r.name)) = false := by
          simp [Bool.and_eq_true] at hb; exact ⟨hb.1.1, hb.1.2, hb.2⟩
        have hreq : reqD cfg.checkExistence d r 0 = (d, .notFound) := by
          cases r with
          | api n op =>
            apply reqD_api_fail
            have := h.created_eq _ _ _ (hD.dir n 0).2 (h.load_R now (storeOf c.store n))
            simp only [Req.name] at hb'
            simp [hb'.2.1, this, hb'.2.2]
          | create n => simp [reqCheck] at hb'
          | peek n => simp [reqCheck] at hb'
        refine ⟨d, ⟨?_, hD.dir, lin_step _ s0 c _ d d r .notFound hD.lin rfl hreq, ?_, ?_⟩⟩
        · intro n e1 j l' he hj hl'
          simp only [if_true] at he hl'
          by_cases hn : n = r.name
          · subst hn; rw [kget_kset_same] at he; cases he
            rw [hei] at hj; cases hj
          · rw [kget_kset_other _ _ _ _ hn] at he; exact hD.faithful n e1 j l' he hj hl'
        · intro hc t r' i' l' hget hrc hl'
          simp only at hget hl'
          rcases pcs_cases c tid t _ _ _ hpc hget with ⟨_, h2⟩ | ⟨_, h2⟩
          · cases h2
          · exact hD.marked hc t r' i' l' h2 hrc hl'
        · intro t r' hor
          simp only at hor
          rcases hor with hget | ⟨i', hget⟩
          · rcases pcs_cases c tid t _ _ _ hpc hget with ⟨_, h2⟩ | ⟨_, h2⟩
            · cases h2
            · exact hD.keeps t r' (Or.inl h2)
          · rcases pcs_cases c tid t _ _ _ hpc hget with ⟨_, h2⟩ | ⟨_, h2⟩
            · cases h2
            · exact hD.keeps t r' (Or.inr ⟨i', h2⟩)
    | opened r i =>
      simp only
      have hres := callC_res c r i
      generalize callC c r i = x at hres
      -- the instance this thread holds is the cached one, and it is faithful
      obtain ⟨e, he, hei⟩ := hP.held tid _ r.name i hpc rfl
      obtain ⟨l0, hl0⟩ := hP.valid r.name e i he hei
      have hR0 : h.R l0 (storeOf c.store r.name) := hD.faithful r.name e i l0 he hei hl0
      -- threads and table after a call that only appends to the log
      have hlogonly : ∀ (o : Out sem) (d' : DSt sem), reqD cfg.checkExistence d r 0 = (d', o) →
          (∀ n t, (dget d' n t).2 = storeOf c.store n ∧ h.R (dget d' n t).1 (storeOf c.store n)) →
          DInv h cfg.checkExistence s0 ({ c with log := c.log ++ [(r, o)], pcs := setNth c.pcs tid (.releasing r.name (some i) o) } : CSt sem) d' := by
        intro o d' hreq hdir
        refine ⟨hD.faithful, hdir, lin_step _ s0 c _ d d' r o hD.lin rfl hreq, ?_, ?_⟩
        · intro hc t r' i' l' hget hrc hl'
          simp only at hget hl'
          rcases pcs_cases c tid t _ _ _ hpc hget with ⟨_, h2⟩ | ⟨_, h2⟩
          · cases h2
          · exact hD.marked hc t r' i' l' h2 hrc hl'
        · intro t r' hor
          simp only at hor
          rcases hor with hget | ⟨i', hget⟩
          · rcases pcs_cases c tid t _ _ _ hpc hget with ⟨_, h2⟩ | ⟨_, h2⟩
            · cases h2
            · exact hD.keeps t r' (Or.inl h2)
          · rcases pcs_cases c tid t _ _ _ hpc hget with ⟨_, h2⟩ | ⟨_, h2⟩
            · cases h2
            · exact hD.keeps t r' (Or.inr ⟨i', h2⟩)
      -- a call that writes through the instance: `l2` / `s2` = the instance and the storage afterwards
      have hwrite : ∀ (o : Out sem) (d' : DSt sem) (l2 : sem.L) (s2 : sem.S), reqD cfg.checkExistence d r 0 = (d', o) →
          h.R l2 s2 → (cfg.checkExistence = true → sem.created l0 = true → sem.created l2 = true) →
          (∀ n t, (dget d' n t).2 = storeOf (kset c.store r.name s2) n ∧ h.R (dget d' n t).1 (storeOf (kset c.store r.name s2) n)) →
          DInv h cfg.checkExistence s0 ({ c with insts := setNth c.insts i (r.name, l2), store := kset c.store r.name s2, log := c.log ++ [(r, o)], pcs := setNth c.pcs tid (.releasing r.name (some i) o) } : CSt sem) d' := by
        intro o d' l2 s2 hreq hR2 hmk hdir
        have hilt := lt_of_get_some _ _ _ hl0
        refine ⟨?_, hdir, lin_step _ s0 c _ d d' r o hD.lin rfl hreq, ?_, ?_⟩
        · intro n e1 j l' he1 hj hl'
          simp only at he1 hl'
          by_cases hji : j = i
          · subst hji
            rw [setNth_get_same _ _ _ hilt] at hl'; cases hl'
            rw [storeOf_kset_same]; exact hR2
          · rw [setNth_get_other _ _ _ _ hji] at hl'
            have hn : n ≠ r.name := by
              intro hn; subst hn
              rw [he] at he1; cases he1
              rw [hei] at hj; cases hj; exact hji rfl
            rw [storeOf_kset_other _ _ _ _ hn]
            exact hD.faithful n e1 j l' he1 hj hl'
        · intro hc t r' i' l' hget hrc hl'
          simp only at hget hl'
          rcases pcs_cases c tid t _ _ _ hpc hget with ⟨_, h2⟩ | ⟨_, h2⟩
          · cases h2
          · by_cases hji : i' = i
            · subst hji
              rw [setNth_get_same _ _ _ hilt] at hl'
              have hinj := Option.some.inj hl'
              have hnm : r.name = r'.name := congrArg Prod.fst hinj
              have hl2 : l2 = l' := congrArg Prod.snd hinj
              subst hl2
              exact hmk hc (hD.marked hc t r' i' l0 h2 hrc (by rw [hl0, hnm]))
            · rw [setNth_get_other _ _ _ _ hji] at hl'
              exact hD.marked hc t r' i' l' h2 hrc hl'
        · intro t r' hor
          simp only at hor
          rcases hor with hget | ⟨i', hget⟩
          · rcases pcs_cases c tid t _ _ _ hpc hget with ⟨_, h2⟩ | ⟨_, h2⟩
            · cases h2
            · exact hD.keeps t r' (Or.inl h2)
          · rcases pcs_cases c tid t _ _ _ hpc hget with ⟨_, h2⟩ | ⟨_, h2⟩
            · cases h2
            · exact hD.keeps t r' (Or.inr ⟨i', h2⟩)
      cases hres with
      | stuck _ =>
        simp only
        rw [setNth_same_eq _ _ _ hpc]; exact ⟨d, hD⟩
      | api n op nm l hr hg =>
        subst hr
        have hl : l = l0 := by rw [hg] at hl0; cases hl0; rfl
        subst hl
        have hnm : nm = n := by rw [hg] at hl0; cases hl0; rfl
        have hR : h.R l (storeOf c.store n) := hR0
        obtain ⟨hp2, hpR⟩ := hD.dir n 0
        have hcp : (cfg.checkExistence && !sem.created (dget d n 0).1) = false := by
          rw [h.created_eq _ _ _ hpR hR]
          cases hc : cfg.checkExistence with
          | false => rfl
          | true => simp [hD.marked hc tid (.api n op) i l hpc rfl (by rw [hg, hnm]; rfl)]
        have hx : (sem.exec l (storeOf c.store n) op).2 = (sem.exec (dget d n 0).1 (dget d n 0).2 op).2 := by
          rw [hp2]; exact h.exec_eq _ _ _ _ hR hpR
        have hreq := reqD_api_ok d n op 0 cfg.checkExistence hcp
        rw [← hx] at hreq
        refine ⟨_, hwrite _ _ (sem.exec l (storeOf c.store n) op).1 (sem.exec l (storeOf c.store n) op).2.1 hreq
          (h.exec_R _ _ _ hR) ?_ ?_⟩
        · intro hc hcl
          exact hD.keeps tid (.api n op) (Or.inr ⟨i, hpc⟩) hc l _ hcl
        · intro m t
          by_cases hm : m = n
          · subst hm
            rw [dget_kset_same]
            simp only [Req.name, storeOf_kset_same]
            constructor
            · first | trivial | rfl | rw [hx]
            · have := h.exec_R _ _ op hpR
              first | (rw [hx]; exact this) | (rw [hx, hp2]; exact this)
          · rw [dget_kset_other _ _ _ _ _ hm]
            simp only [Req.name, storeOf_kset_other _ _ _ _ hm]
            exact hD.dir m t
      | createOld n nm l hr hg hc =>
        subst hr
        have hl : l = l0 := by rw [hg] at hl0; cases hl0; rfl
        subst hl
        obtain ⟨hp2, hpR⟩ := hD.dir n 0
        have hreq := reqD_create_old cfg.checkExistence d n 0 (by rw [h.created_eq _ _ _ hpR hR0]; exact hc)
        exact ⟨d, hlogonly _ d hreq hD.dir⟩
      | createNew n nm l hr hg hc =>
        subst hr
        have hl : l = l0 := by rw [hg] at hl0; cases hl0; rfl
        subst hl
        have hR : h.R l (storeOf c.store n) := hR0
        obtain ⟨hp2, hpR⟩ := hD.dir n 0
        have hreq := reqD_create_new cfg.checkExistence d n 0 (by rw [h.created_eq _ _ _ hpR hR]; exact hc)
        refine ⟨_, hwrite _ _ (sem.mark l (storeOf c.store n)).1 (sem.mark l (storeOf c.store n)).2 hreq
          (h.mark_R _ _ hR) (fun _ _ => h.mark_created _ _) ?_⟩
        intro m t
        by_cases hm : m = n
        · subst hm
          rw [dget_kset_same]
          simp only [Req.name, storeOf_kset_same]
          rw [hp2]
          exact ⟨(h.mark_eq _ _ _ hR hpR).symm, h.mark_eq _ _ _ hR hpR ▸ h.mark_R _ _ hpR⟩
        · rw [dget_kset_other _ _ _ _ _ hm]
          simp only [Req.name, storeOf_kset_other _ _ _ _ hm]
          exact hD.dir m t
      | peek n nm l hr hg =>
        subst hr
        exact ⟨d, hlogonly _ d (by simp [reqD]) hD.dir⟩
    | releasing n inst out =>
      simp only
      have hrest : ∀ (table' : List (String × HEntry)),
          (∀ m e1 j, kget table' m = some e1 → e1.inst = some j → ∃ e0, kget c.table m = some e0 ∧ e0.inst = some j) →
          DInv h cfg.checkExistence s0 ({ c with table := table', pcs := setNth c.pcs tid (.done inst out) } : CSt sem) d := by
        intro table' hfrom
        refine ⟨?_, hD.dir, hD.lin, ?_, ?_⟩
        · intro m e1 j l' he1 hj hl'
          obtain ⟨e0, h0, h1⟩ := hfrom m e1 j he1 hj
          exact hD.faithful m e0 j l' h0 h1 hl'
        · intro hc t r' i' l' hget hrc hl'
          simp only at hget hl'
          rcases pcs_cases c tid t _ _ _ hpc hget with ⟨_, h2⟩ | ⟨_, h2⟩
          · cases h2
          · exact hD.marked hc t r' i' l' h2 hrc hl'
        · intro t r' hor
          simp only at hor
          rcases hor with hget | ⟨i', hget⟩
          · rcases pcs_cases c tid t _ _ _ hpc hget with ⟨_, h2⟩ | ⟨_, h2⟩
            · cases h2
            · exact hD.keeps t r' (Or.inl h2)
          · rcases pcs_cases c tid t _ _ _ hpc hget with ⟨_, h2⟩ | ⟨_, h2⟩
            · cases h2
            · exact hD.keeps t r' (Or.inr ⟨i', h2⟩)
      unfold relC
      cases hk : kget c.table n with
      | none => simp only; exact ⟨d, hrest c.table (fun m e1 j h1 h2 => ⟨e1, h1, h2⟩)⟩
      | some e =>
        simp only
        cases hr : releasedEntry e now with
        | some e' =>
          have he' : e'.inst = e.inst := by
            unfold releasedEntry at hr
            simp only at hr
            split at hr
            · cases hr; rfl
            · cases hr
          refine ⟨d, hrest _ ?_⟩
          intro m e1 j h1 h2
          by_cases hm : m = n
          · subst hm; rw [kget_kset_same] at h1; cases h1; exact ⟨e, hk, he' ▸ h2⟩
          · rw [kget_kset_other _ _ _ _ hm] at h1; exact ⟨e1, h1, h2⟩
        | none =>
          refine ⟨d, hrest _ ?_⟩
          intro m e1 j h1 h2
          by_cases hm : m = n
          · subst hm; rw [kget_kdel_same] at h1; cases h1
          · rw [kget_kdel_other _ _ _ hm] at h1; exact ⟨e1, h1, h2⟩

theorem dinv_init (h : ReloadOK sem) (check : Bool) (s0 : List (String × sem.S)) (reqs : List (Req sem))
    (hk : ∀ r ∈ reqs, ReqKeeps sem check r) :
    DInv h check s0 (cinit s0 reqs : CSt sem) { base := s0 } := by
  refine ⟨?_, ?_, rfl, ?_, ?_⟩
  · intro n e i l he; simp [cinit, kget] at he
  · intro n t; exact ⟨rfl, h.load_R _ _⟩
  · intro _ t r i l hget
    simp only [cinit] at hget
    rw [List.getElem?_map] at hget
    cases hr : reqs[t]? with
    | none => simp [hr] at hget
    | some r0 => simp [hr] at hget
  · intro t r hor
    simp only [cinit] at hor
    rcases hor with hget | ⟨i, hget⟩
    · rw [List.getElem?_map] at hget
      cases hr : reqs[t]? with
      | none => simp [hr] at hget
      | some r0 =>
        simp [hr] at hget; subst hget
        exact hk r0 (List.mem_of_getElem? hr)
    · rw [List.getElem?_map] at hget
      cases hr : reqs[t]? with
      | none => simp [hr] at hget
      | some r0 => simp [hr] at hget

theorem dinv_crun (h : ReloadOK sem) (cfg : Cfg) (hinst : installs cfg = true) (s0 : List (String × sem.S)) :
    ∀ (sched : List (Nat × Int)) (c : CSt sem) (d : DSt sem), PInv c → DInv h cfg.checkExistence s0 c d →
      ∃ d', DInv h cfg.checkExistence s0 (crun cfg c sched) d' := by
  intro sched
  induction sched with
  | nil => intro c d _ hD; exact ⟨d, hD⟩
  | cons a rest ih =>
    intro c d hP hD
    obtain ⟨tid, now⟩ := a
    simp only [crun]
    obtain ⟨d', hD'⟩ := dinv_cstep h cfg hinst s0 c tid now d hP hD
    exact ih _ d' (pinv_cstep cfg hinst c tid now hP) hD'


/-! ### every answer is in the log -/

/-- what is known about a thread at `pc`: it runs the request `reqs[t]`; once its answer is determined, request and
answer are in the log -/
def LProp (reqs : List (Req sem)) (log : List (Req sem × Out sem)) (t : Nat) : PC sem → Prop
  | .start r => reqs[t]? = some r
  | .opened r _ => reqs[t]? = some r
  | .releasing _ _ o => ∃ r, reqs[t]? = some r ∧ (r, o) ∈ log
  | .done _ o => ∃ r, reqs[t]? = some r ∧ (r, o) ∈ log

def LInv (reqs : List (Req sem)) (c : CSt sem) : Prop :=
  ∀ (t : Nat) (pc : PC sem), c.pcs[t]? = some pc → LProp reqs c.log t pc

theorem openRes_log (cfg : Cfg) (c : CSt sem) (r : Req sem) (now : Int) (x : CSt sem × PC sem) (h : OpenRes cfg c r now x) :
    x.1.pcs = c.pcs ∧ (∀ p, p ∈ c.log → p ∈ x.1.log) ∧
    (x.2 = .start r ∨ (∃ i, x.2 = .opened r i) ∨ (∃ n inst o, x.2 = .releasing n inst o ∧ (r, o) ∈ x.1.log)) := by
  cases h with
  | stuck => exact ⟨rfl, fun p hp => hp, Or.inl rfl⟩
  | served e0 i nm l hk hi hg hb => exact ⟨rfl, fun p hp => hp, Or.inr (Or.inl ⟨i, rfl⟩)⟩
  | refused e0 i nm l hk hi hg hb =>
    exact ⟨rfl, fun p hp => List.mem_append_left _ hp, Or.inr (Or.inr ⟨_, _, _, rfl, by simp⟩)⟩
  | loaded e installed ho hb => exact ⟨rfl, fun p hp => hp, Or.inr (Or.inl ⟨_, rfl⟩)⟩
  | loadFailed e installed ho hb =>
    exact ⟨rfl, fun p hp => List.mem_append_left _ hp, Or.inr (Or.inr ⟨_, _, _, rfl, by simp⟩)⟩

theorem callRes_log (c : CSt sem) (r : Req sem) (i : Nat) (x : CSt sem × PC sem) (h : CallRes c r i x) :
    x.1.pcs = c.pcs ∧ (∀ p, p ∈ c.log → p ∈ x.1.log) ∧
    (x.2 = .opened r i ∨ (∃ n inst o, x.2 = .releasing n inst o ∧ (r, o) ∈ x.1.log)) := by
  cases h with
  | stuck _ => exact ⟨rfl, fun p hp => hp, Or.inl rfl⟩
  | api n op nm l hr hg => exact ⟨rfl, fun p hp => List.mem_append_left _ hp, Or.inr ⟨_, _, _, rfl, by simp⟩⟩
  | createOld n nm l hr hg hc => exact ⟨rfl, fun p hp => List.mem_append_left _ hp, Or.inr ⟨_, _, _, rfl, by simp⟩⟩
  | createNew n nm l hr hg hc => exact ⟨rfl, fun p hp => List.mem_append_left _ hp, Or.inr ⟨_, _, _, rfl, by simp⟩⟩
  | peek n nm l hr hg => exact ⟨rfl, fun p hp => List.mem_append_left _ hp, Or.inr ⟨_, _, _, rfl, by simp⟩⟩

theorem linv_mono (reqs : List (Req sem)) (log log' : List (Req sem × Out sem))
    (hmono : ∀ p, p ∈ log → p ∈ log') (t : Nat) (pc : PC sem) (h : LProp reqs log t pc) : LProp reqs log' t pc := by
  cases pc with
  | start r => exact h
  | opened r i => exact h
  | releasing n inst o => obtain ⟨r, h1, h2⟩ := h; exact ⟨r, h1, hmono _ h2⟩
  | done i o => obtain ⟨r, h1, h2⟩ := h; exact ⟨r, h1, hmono _ h2⟩

theorem linv_cstep (cfg : Cfg) (reqs : List (Req sem)) (c : CSt sem) (tid : Nat) (now : Int) (hL : LInv reqs c) :
    LInv reqs (cstep cfg c tid now) := by
  unfold cstep
  cases hpc : c.pcs[tid]? with
  | none => exact hL
  | some pc0 =>
    simp only
    cases pc0 with
    | done i o => exact hL
    | start r =>
      simp only
      obtain ⟨h1, h2, h3⟩ := openRes_log cfg c r now _ (openC_res cfg c r now)
      generalize openC cfg c r now = x at h1 h2 h3
      intro t pc hget
      simp only [h1] at hget
      rcases get_after_set c.pcs tid t _ _ pc hpc hget with ⟨ht, hp⟩ | ⟨_, hp⟩
      · subst ht; subst hp
        have hr : reqs[t]? = some r := hL t _ hpc
        rcases h3 with h3 | ⟨i, h3⟩ | ⟨n, inst, o, h3, hmem⟩
        · rw [h3]; exact hr
        · rw [h3]; exact hr
        · rw [h3]; exact ⟨r, hr, hmem⟩
      · exact linv_mono reqs c.log x.1.log h2 t pc (hL t pc hp)
    | opened r i =>
      simp only
      obtain ⟨h1, h2, h3⟩ := callRes_log c r i _ (callC_res c r i)
      generalize callC c r i = x at h1 h2 h3
      intro t pc hget
      simp only [h1] at hget
      rcases get_after_set c.pcs tid t _ _ pc hpc hget with ⟨ht, hp⟩ | ⟨_, hp⟩
      · subst ht; subst hp
        have hr : reqs[t]? = some r := hL t _ hpc
        rcases h3 with h3 | ⟨n, inst, o, h3, hmem⟩
        · rw [h3]; exact hr
        · rw [h3]; exact ⟨r, hr, hmem⟩
      · exact linv_mono reqs c.log x.1.log h2 t pc (hL t pc hp)
    | releasing n inst out =>
      simp only
      have hlog : (relC c n now).log = c.log := by
        unfold relC; cases kget c.table n with
        | none => rfl
        | some e => simp only; cases releasedEntry e now <;> rfl
      have hpcs : (relC c n now).pcs = c.pcs := by
        unfold relC; cases kget c.table n with
        | none => rfl
        | some e => simp only; cases releasedEntry e now <;> rfl
      intro t pc hget
      simp only [hpcs] at hget
      rcases get_after_set c.pcs tid t _ _ pc hpc hget with ⟨ht, hp⟩ | ⟨_, hp⟩
      · subst ht; subst hp
        have hr : ∃ r, reqs[t]? = some r ∧ (r, out) ∈ c.log := hL t _ hpc
        show ∃ r, reqs[t]? = some r ∧ (r, out) ∈ (relC c n now).log
        rw [hlog]; exact hr
      · show LProp reqs (relC c n now).log t pc
        rw [hlog]; exact hL t pc hp

theorem linv_init (store : List (String × sem.S)) (reqs : List (Req sem)) : LInv reqs (cinit store reqs : CSt sem) := by
  intro t pc hget
  simp only [cinit] at hget
  rw [List.getElem?_map] at hget
  cases hr : reqs[t]? with
  | none => simp [hr] at hget
  | some r => simp [hr] at hget; subst hget; exact hr

theorem linv_crun (cfg : Cfg) (reqs : List (Req sem)) :
    ∀ (sched : List (Nat × Int)) (c : CSt sem), LInv reqs c → LInv reqs (crun cfg c sched) := by
  intro sched
  induction sched with
  | nil => intro c h; exact h
  | cons a rest ih =>
    intro c h
    obtain ⟨tid, now⟩ := a
    simp only [crun]
    exact ih _ (linv_cstep cfg reqs c tid now h)

/-! ### concurrent first requests: one load -/

/-- the requests for `n` overlap: nobody has released yet -/
inductive Phase (cfg : Cfg) (n : String) (c : CSt sem) : Prop where
  | fresh : kget c.table n = none → c.loads = [] → c.insts = [] →
      (∀ (t : Nat) (pc : PC sem), c.pcs[t]? = some pc →
        ∃ r, pc = PC.start r ∧ r.name = n ∧ (reqCheck r && cfg.checkExistence) = false) → Phase cfg n c
  | loaded (e : HEntry) : kget c.table n = some e → e.inst = some 0 → c.loads = [n] → c.insts.length = 1 →
      (∀ (t : Nat) (pc : PC sem), c.pcs[t]? = some pc →
        (∃ r, pc = PC.start r ∧ r.name = n ∧ (reqCheck r && cfg.checkExistence) = false) ∨
        (∃ r, pc = PC.opened r 0 ∧ r.name = n) ∨ (∃ o, pc = PC.releasing n (some 0) o)) → Phase cfg n c
  | over (t : Nat) : isDone c t = true → Phase cfg n c

theorem isDone_mono (cfg : Cfg) (c : CSt sem) (tid : Nat) (now : Int) (t : Nat) (h : isDone c t = true) :
    isDone (cstep cfg c tid now) t = true := by
  unfold isDone at h ⊢
  cases hpt : c.pcs[t]? with
  | none => simp [hpt] at h
  | some pc =>
    cases pc with
    | done i o =>
      have key : ∀ (c' : CSt sem) (pc' : PC sem), c'.pcs = c.pcs → tid ≠ t →
          (({ c' with pcs := setNth c'.pcs tid pc' } : CSt sem).pcs[t]?) = some (PC.done i o) := by
        intro c' pc' hp hne
        simp only [hp]; rw [setNth_get_other _ _ _ _ (Ne.symm hne)]; exact hpt
      unfold cstep
      cases hpc : c.pcs[tid]? with
      | none => simp [hpt]
      | some pc0 =>
        by_cases hne : tid = t
        · subst hne; rw [hpt] at hpc; cases hpc; simp [hpt]
        · simp only
          cases pc0 with
          | done j o' => simp [hpt]
          | start r =>
            simp only
            rw [key _ _ (openRes_log cfg c r now _ (openC_res cfg c r now)).1 hne]
          | opened r j =>
            simp only
            rw [key _ _ (callRes_log c r j _ (callC_res c r j)).1 hne]
          | releasing m inst o' =>
            simp only
            have hpcs : (relC c m now).pcs = c.pcs := by
              unfold relC; cases kget c.table m with
              | none => rfl
              | some e => simp only; cases releasedEntry e now <;> rfl
            rw [key _ _ hpcs hne]
    | start r => simp [hpt] at h
    | opened r i => simp [hpt] at h
    | releasing m inst o => simp [hpt] at h

theorem phase_step (cfg : Cfg) (hinst : installs cfg = true) (n : String) (c : CSt sem) (tid : Nat) (now : Int)
    (hp : Phase cfg n c) : Phase cfg n (cstep cfg c tid now) := by
  cases hp with
  | over t ht => exact Phase.over t (isDone_mono cfg c tid now t ht)
  | fresh htab hloads hinsts hpcs =>
    cases hpc : c.pcs[tid]? with
    | none => simp only [cstep, hpc]; exact Phase.fresh htab hloads hinsts hpcs
    | some pc0 =>
      obtain ⟨r, hr, hrn, hchk⟩ := hpcs tid pc0 hpc
      subst hr; subst hrn
      have hchk' : (reqCheck r && cfg.checkExistence && !sem.created (sem.load now (storeOf c.store r.name))) = false := by
        rw [hchk]; rfl
      have hstep : cstep cfg c tid now =
          { c with loads := c.loads ++ [r.name], insts := c.insts ++ [(r.name, sem.load now (storeOf c.store r.name))],
                   table := kset c.table r.name (loadedEntry { expires := newExpires cfg now, pending := 1, inst := none } c.insts.length now (sem.cacheTTL (sem.load now (storeOf c.store r.name)))),
                   pcs := setNth c.pcs tid (.opened r c.insts.length) } := by
        simp [cstep, hpc, openC, htab, loadC, hchk', hinst]
      rw [hstep]
      refine Phase.loaded _ (kget_kset_same _ _ _) (by simp [loadedEntry, hinsts]) (by simp [hloads]) (by simp [hinsts]) ?_
      intro t pc hget
      simp only at hget
      rcases get_after_set c.pcs tid t _ _ pc hpc hget with ⟨_, h2⟩ | ⟨_, h2⟩
      · subst h2; exact Or.inr (Or.inl ⟨r, by simp [hinsts], rfl⟩)
      · exact Or.inl (hpcs t pc h2)
  | loaded e htab hsome hloads hinsts hpcs =>
    cases hpc : c.pcs[tid]? with
    | none => simp only [cstep, hpc]; exact Phase.loaded e htab hsome hloads hinsts hpcs
    | some pc0 =>
      have h0 : ∃ p, c.insts[0]? = some p := by
        cases hi : c.insts with
        | nil => simp [hi] at hinsts
        | cons a r => exact ⟨a, rfl⟩
      obtain ⟨⟨nm, l⟩, hg⟩ := h0
      rcases hpcs tid pc0 hpc with ⟨r, hr, hrn, hchk⟩ | ⟨r, hr, hrn⟩ | ⟨o, hr⟩
      · subst hr; subst hrn
        have hchk' : (reqCheck r && cfg.checkExistence && !sem.created l) = false := by rw [hchk]; rfl
        have hstep : cstep cfg c tid now =
            { c with table := kset c.table r.name { e with pending := e.pending + 1 },
                     pcs := setNth c.pcs tid (.opened r 0) } := by
          simp [cstep, hpc, openC, htab, hsome, servedC, hg, hchk']
        rw [hstep]
        refine Phase.loaded _ (kget_kset_same _ _ _) hsome hloads hinsts ?_
        intro t pc hget
        simp only at hget
        rcases get_after_set c.pcs tid t _ _ pc hpc hget with ⟨_, h2⟩ | ⟨_, h2⟩
        · subst h2; exact Or.inr (Or.inl ⟨r, rfl, rfl⟩)
        · exact hpcs t pc h2
      · subst hr; subst hrn
        obtain ⟨hx1, hx2, hx3, hx4⟩ : (∃ out, (callC c r 0).2 = .releasing r.name (some 0) out) ∧ (callC c r 0).1.table = c.table ∧
            (callC c r 0).1.loads = c.loads ∧ (callC c r 0).1.insts.length = c.insts.length ∧ (callC c r 0).1.pcs = c.pcs := by
          have hres := callC_res c r 0
          generalize callC c r 0 = x at hres
          cases hres with
          | stuck hnone => rw [hg] at hnone; cases hnone
          | api n' op nm' l' hr' hg' => subst hr'; exact ⟨⟨_, rfl⟩, rfl, rfl, by simp [setNth_length], rfl⟩
          | createOld n' nm' l' hr' hg' hc => subst hr'; exact ⟨⟨_, rfl⟩, rfl, rfl, rfl, rfl⟩
          | createNew n' nm' l' hr' hg' hc => subst hr'; exact ⟨⟨_, rfl⟩, rfl, rfl, by simp [setNth_length], rfl⟩
          | peek n' nm' l' hr' hg' => subst hr'; exact ⟨⟨_, rfl⟩, rfl, rfl, rfl, rfl⟩
        obtain ⟨out, hout⟩ := hx1
        simp only [cstep, hpc]
        refine Phase.loaded e (by simp only [hx2]; exact htab) hsome (by simp only [hx3]; exact hloads)
          (by simp only [hx4.1]; exact hinsts) ?_
        intro t pc hget
        simp only [hx4.2] at hget
        rcases get_after_set c.pcs tid t _ _ pc hpc hget with ⟨_, h2⟩ | ⟨_, h2⟩
        · subst h2; rw [hout]; exact Or.inr (Or.inr ⟨out, rfl⟩)
        · exact hpcs t pc h2
      · subst hr
        refine Phase.over tid ?_
        have hpcs' : (relC c n now).pcs = c.pcs := by
          unfold relC; cases kget c.table n with
          | none => rfl
          | some e => simp only; cases releasedEntry e now <;> rfl
        simp only [cstep, hpc, isDone, hpcs']
        rw [setNth_get_same _ _ _ (lt_of_get_some _ _ _ hpc)]

theorem phase_run (cfg : Cfg) (hinst : installs cfg = true) (n : String) :
    ∀ (sched : List (Nat × Int)) (c : CSt sem), Phase cfg n c → Phase cfg n (crun cfg c sched) := by
  intro sched
  induction sched with
  | nil => intro c hp; exact hp
  | cons a rest ih =>
    intro c hp
    obtain ⟨tid, now⟩ := a
    simp only [crun]
    exact ih _ (phase_step cfg hinst n c tid now hp)

theorem phase_init (cfg : Cfg) (n : String) (store : List (String × sem.S)) (reqs : List (Req sem))
    (hreqs : ∀ r ∈ reqs, r.name = n ∧ (reqCheck r && cfg.checkExistence) = false) :
    Phase cfg n (cinit store reqs : CSt sem) := by
  refine Phase.fresh rfl rfl rfl ?_
  intro t pc h
  simp only [cinit] at h
  rw [List.getElem?_map] at h
  cases hr : reqs[t]? with
  | none => simp [hr] at h
  | some r =>
    simp [hr] at h; subst h
    exact ⟨r, rfl, hreqs r (List.mem_of_getElem? hr)⟩

theorem phase_facts (cfg : Cfg) (n : String) (c : CSt sem) (hp : Phase cfg n c) (hnd : ∀ t, isDone c t = false) :
    c.loads.length ≤ 1 ∧ (∀ t i, instOf c t = some i → i = 0) ∧ (∀ t i, instOf c t = some i → c.loads = [n]) := by
  cases hp with
  | over t ht => rw [hnd t] at ht; cases ht
  | fresh htab hloads hinsts hpcs =>
    refine ⟨by simp [hloads], ?_, ?_⟩ <;>
    · intro t i h
      unfold instOf at h
      cases hpc : c.pcs[t]? with
      | none => simp [hpc] at h
      | some pc => obtain ⟨r, hr, _⟩ := hpcs t pc hpc; subst hr; simp [hpc] at h
  | loaded e htab hsome hloads hinsts hpcs =>
    refine ⟨by simp [hloads], ?_, ?_⟩
    · intro t i h
      unfold instOf at h
      cases hpc : c.pcs[t]? with
      | none => simp [hpc] at h
      | some pc =>
        rcases hpcs t pc hpc with ⟨r, hr, _⟩ | ⟨r, hr, _⟩ | ⟨o, hr⟩ <;> subst hr <;> simp [hpc] at h
        · exact h.symm
        · exact h.symm
    · intro t i _; exact hloads

end conc

/-! ## the toy semantics: `add` keeps the marker -/

theorem toy_add_keeps_aux (k : Nat) (l : List Nat) (hl : l.contains 0 = true) : (k :: l).contains 0 = true := by
  rw [List.contains_cons, hl, Bool.or_true]

theorem toy_add_keeps (k : Nat) : KeepsMarker toySem (TOp.add k) := fun l _ hl => toy_add_keeps_aux k l hl

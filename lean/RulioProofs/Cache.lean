import RulioModel.Cache

/-! Helper lemmas for C17 (location cache). -/

section kmap
variable {α : Type}

theorem kdel_cons_ne (k' : String) (v : α) (r : List (String × α)) (k : String) (h : k' ≠ k) :
    kdel ((k', v) :: r) k = (k', v) :: kdel r k := by
  simp [kdel, List.filter_cons, h]

theorem kdel_cons_eq (k' : String) (v : α) (r : List (String × α)) (k : String) (h : k' = k) :
    kdel ((k', v) :: r) k = kdel r k := by
  simp [kdel, List.filter_cons, h]

theorem kget_kdel_same (m : List (String × α)) (k : String) : kget (kdel m k) k = none := by
  induction m with
  | nil => rfl
  | cons p r ih =>
    obtain ⟨k', v⟩ := p
    by_cases h : k' = k
    · rw [kdel_cons_eq _ _ _ _ h]; exact ih
    · rw [kdel_cons_ne _ _ _ _ h]; simp [kget, h]; exact ih

theorem kget_kdel_other (m : List (String × α)) (k k2 : String) (h : k2 ≠ k) : kget (kdel m k) k2 = kget m k2 := by
  induction m with
  | nil => rfl
  | cons p r ih =>
    obtain ⟨k', v⟩ := p
    by_cases h1 : k' = k
    · rw [kdel_cons_eq _ _ _ _ h1]
      have : ¬ k' = k2 := fun e => h (e ▸ h1)
      simp [kget, this]; exact ih
    · rw [kdel_cons_ne _ _ _ _ h1]
      by_cases h2 : k' = k2
      · simp [kget, h2]
      · simp [kget, h2]; exact ih

theorem kget_kset_same (m : List (String × α)) (k : String) (v : α) : kget (kset m k v) k = some v := by
  simp [kset, kget]

theorem kget_kset_other (m : List (String × α)) (k k2 : String) (v : α) (h : k2 ≠ k) : kget (kset m k v) k2 = kget m k2 := by
  have h3 : ¬ k = k2 := fun e => h e.symm
  simp [kset, kget, h3]; exact kget_kdel_other m k k2 h

end kmap

section seq
variable {sem : LocSem}

/-- every entry of the new table under `m` descends from an old entry under `m` with the same Location -/
def TabFrom (t' t : List (String × CEntry sem)) : Prop :=
  ∀ m e, kget t' m = some e → ∃ e0, kget t m = some e0 ∧ e.loc = e0.loc

theorem expire_spec (st : SysSt sem) (n : String) (rel : Bool) (now : Int) :
    (expire st n rel now).1.store = st.store ∧
    TabFrom (expire st n rel now).1.table st.table ∧
    (∀ l, (expire st n rel now).2 = some l → ∃ e0, kget st.table n = some e0 ∧ e0.loc = some l) ∧
    ((expire st n rel now).2 = none → ∀ e, kget (expire st n rel now).1.table n = some e → e.loc = none) := by
  unfold expire
  cases hk : kget st.table n with
  | none =>
    refine ⟨rfl, ?_, ?_, ?_⟩
    · intro m e he; exact ⟨e, he, rfl⟩
    · intro l hl; simp at hl
    · intro _ e he; simp [hk] at he
  | some e0 =>
    simp only
    split
    · refine ⟨rfl, ?_, ?_, ?_⟩
      · intro m e he
        by_cases hm : m = n
        · subst hm; rw [kget_kset_same] at he; cases he; exact ⟨e0, hk, rfl⟩
        · rw [kget_kset_other _ _ _ _ hm] at he; exact ⟨e, he, rfl⟩
      · intro l hl; exact ⟨e0, rfl, hl⟩
      · intro hnone e he; rw [kget_kset_same] at he; cases he; exact hnone
    · refine ⟨rfl, ?_, ?_, ?_⟩
      · intro m e he
        by_cases hm : m = n
        · subst hm; rw [kget_kdel_same] at he; cases he
        · rw [kget_kdel_other _ _ _ hm] at he; exact ⟨e, he, rfl⟩
      · intro l hl; simp at hl
      · intro _ e he; rw [kget_kdel_same] at he; cases he

theorem getE_fail (cfg : Cfg) (st : SysSt sem) (n : String) (e : CEntry sem) (inst chk : Bool) (now : Int)
    (h : (chk && cfg.checkExistence && !sem.created (sem.load now (storeOf st.store n))) = true) :
    (getE cfg st n e inst chk now).2 = none ∧ (getE cfg st n e inst chk now).1.store = st.store ∧
    (getE cfg st n e inst chk now).1.table = kdel st.table n := by
  unfold getE; simp [h]

theorem getE_ok (cfg : Cfg) (st : SysSt sem) (n : String) (e : CEntry sem) (inst chk : Bool) (now : Int)
    (h : ¬ (chk && cfg.checkExistence && !sem.created (sem.load now (storeOf st.store n))) = true) :
    (getE cfg st n e inst chk now).2 = some (sem.load now (storeOf st.store n)) ∧
    (getE cfg st n e inst chk now).1.store = st.store ∧
    ((getE cfg st n e inst chk now).1.table = st.table ∨
     ∃ e', e'.loc = some (sem.load now (storeOf st.store n)) ∧ (getE cfg st n e inst chk now).1.table = kset st.table n e') := by
  unfold getE; simp only [h]
  cases inst with
  | false => exact ⟨rfl, rfl, Or.inl rfl⟩
  | true => exact ⟨rfl, rfl, Or.inr ⟨_, rfl, rfl⟩⟩

theorem openE_spec (cfg : Cfg) (st : SysSt sem) (n : String) (chk : Bool) (now : Int) :
    (openE cfg st n chk now).1.store = st.store ∧
    (∀ m e l', kget (openE cfg st n chk now).1.table m = some e → e.loc = some l' →
        (∃ e0, kget st.table m = some e0 ∧ e0.loc = some l') ∨ (m = n ∧ (openE cfg st n chk now).2 = some l')) ∧
    (∀ l, (openE cfg st n chk now).2 = some l → (∃ e0, kget st.table n = some e0 ∧ e0.loc = some l) ∨
        (l = sem.load now (storeOf st.store n) ∧ ((chk && cfg.checkExistence) = true → sem.created l = true))) ∧
    ((openE cfg st n chk now).2 = none →
        chk = true ∧ cfg.checkExistence = true ∧ sem.created (sem.load now (storeOf st.store n)) = false) := by
  have hs := expire_spec st n false now
  unfold openE
  cases hx : expire st n false now with
  | mk st1 r1 =>
    rw [hx] at hs
    obtain ⟨hstore, hfrom, hsome, hnone⟩ := hs
    simp only at hstore hfrom hsome hnone
    cases r1 with
    | some l =>
      simp only
      refine ⟨hstore, ?_, ?_, ?_⟩
      · intro m e l' he hl
        obtain ⟨e0, h0, h1⟩ := hfrom m e he
        exact Or.inl ⟨e0, h0, h1 ▸ hl⟩
      · intro l2 hl2; cases hl2; exact Or.inl (hsome l rfl)
      · intro h; cases h
    | none =>
      simp only
      have hnone' := hnone rfl
      -- the state after the (possible) installation of the fresh entry
      generalize hst2 : (if installs cfg = true then { st1 with table := kset st1.table n ({ expires := newExpires cfg now, pending := false, loc := none } : CEntry sem) } else st1) = st2
      have hstore2 : st2.store = st.store := by
        rw [← hst2]; split <;> simp [hstore]
      -- entries of st2 that carry a Location descend from old ones
      have hfrom2 : ∀ m e l', kget st2.table m = some e → e.loc = some l' → ∃ e0, kget st.table m = some e0 ∧ e0.loc = some l' := by
        intro m e l' he hl
        rw [← hst2] at he
        split at he
        · by_cases hm : m = n
          · subst hm; simp only at he; rw [kget_kset_same] at he; cases he; simp at hl
          · simp only at he; rw [kget_kset_other _ _ _ _ hm] at he
            obtain ⟨e0, h0, h1⟩ := hfrom m e he
            exact ⟨e0, h0, h1 ▸ hl⟩
        · obtain ⟨e0, h0, h1⟩ := hfrom m e he
          exact ⟨e0, h0, h1 ▸ hl⟩
      by_cases hchk : (chk && cfg.checkExistence && !sem.created (sem.load now (storeOf st2.store n))) = true
      · obtain ⟨g1, g2, g3⟩ := getE_fail cfg st2 n { expires := newExpires cfg now, pending := false, loc := none } (installs cfg) chk now hchk
        refine ⟨g2.trans hstore2, ?_, ?_, ?_⟩
        · intro m e l' he hl
          rw [g3] at he
          by_cases hm : m = n
          · subst hm; rw [kget_kdel_same] at he; cases he
          · rw [kget_kdel_other _ _ _ hm] at he
            exact Or.inl (hfrom2 m e l' he hl)
        · intro l hl; rw [g1] at hl; cases hl
        · intro _
          rw [hstore2] at hchk
          simp [Bool.and_eq_true] at hchk
          exact ⟨hchk.1.1, hchk.1.2, hchk.2⟩
      · obtain ⟨g1, g2, g3⟩ := getE_ok cfg st2 n { expires := newExpires cfg now, pending := false, loc := none } (installs cfg) chk now hchk
        refine ⟨g2.trans hstore2, ?_, ?_, ?_⟩
        · intro m e l' he hl
          rcases g3 with g3 | ⟨e', he', g3⟩
          · rw [g3] at he; exact Or.inl (hfrom2 m e l' he hl)
          · rw [g3] at he
            by_cases hm : m = n
            · subst hm; rw [kget_kset_same] at he; cases he
              rw [he'] at hl; cases hl
              exact Or.inr ⟨rfl, g1⟩
            · rw [kget_kset_other _ _ _ _ hm] at he
              exact Or.inl (hfrom2 m e l' he hl)
        · intro l hl
          rw [g1] at hl; cases hl
          rw [hstore2] at hchk ⊢
          refine Or.inr ⟨rfl, ?_⟩
          intro hc
          simp [Bool.and_eq_true] at hchk hc
          exact hchk hc.1 hc.2
        · intro h; rw [g1] at h; cases h

theorem storeOf_kset_same (store : List (String × sem.S)) (n : String) (v : sem.S) : storeOf (kset store n v) n = v := by
  simp [storeOf, kget_kset_same]

theorem storeOf_kset_other (store : List (String × sem.S)) (n m : String) (v : sem.S) (h : m ≠ n) :
    storeOf (kset store n v) m = storeOf store m := by
  simp [storeOf, kget_kset_other _ _ _ _ h]

theorem dget_kset_same (d : DSt sem) (n : String) (p : sem.L × sem.S) (t : Int) :
    dget { d with locs := kset d.locs n p } n t = p := by
  simp [dget, kget_kset_same]

theorem dget_kset_other (d : DSt sem) (n m : String) (p : sem.L × sem.S) (t : Int) (h : m ≠ n) :
    dget { d with locs := kset d.locs n p } m t = dget d m t := by
  simp [dget, kget_kset_other _ _ _ _ h]

/-- every cached Location is faithful to the storage (and created, when existence is checked) -/
def TabGood (h : ReloadOK sem) (check : Bool) (st : SysSt sem) : Prop :=
  ∀ n e l, kget st.table n = some e → e.loc = some l →
    h.R l (storeOf st.store n) ∧ (check = true → sem.created l = true)

/-- the directly operated locations see the same storage and are faithful to it -/
def DirOK (h : ReloadOK sem) (st : SysSt sem) (d : DSt sem) : Prop :=
  ∀ n t, (dget d n t).2 = storeOf st.store n ∧ h.R (dget d n t).1 (storeOf st.store n)

theorem tabGood_release (h : ReloadOK sem) (check : Bool) (st : SysSt sem) (n : String) (now : Int)
    (hT : TabGood h check st) : TabGood h check (releaseE st n now) := by
  obtain ⟨hs, hf, _, _⟩ := expire_spec st n true now
  intro m e l he hl
  obtain ⟨e0, h0, h1⟩ := hf m e he
  have := hT m e0 l h0 (h1 ▸ hl)
  unfold releaseE; rw [hs]; exact this

theorem release_store (st : SysSt sem) (n : String) (now : Int) : (releaseE st n now).store = st.store :=
  (expire_spec st n true now).1

theorem kget_updLoc_same (table : List (String × CEntry sem)) (n : String) (l : sem.L) (e : CEntry sem)
    (he : kget (updLoc table n l) n = some e) : e.loc = some l := by
  unfold updLoc at he
  cases hk : kget table n with
  | none => simp [hk] at he
  | some e0 => simp only [hk] at he; rw [kget_kset_same] at he; cases he; rfl

theorem kget_updLoc_other (table : List (String × CEntry sem)) (n m : String) (l : sem.L) (h : m ≠ n) :
    kget (updLoc table n l) m = kget table m := by
  unfold updLoc
  cases hk : kget table n with
  | none => rfl
  | some e0 => simp only; exact kget_kset_other _ _ _ _ h

theorem reqE_api_none (cfg : Cfg) (st st1 : SysSt sem) (n : String) (op : sem.Op) (t1 t2 : Int)
    (ho : openE cfg st n true t1 = (st1, none)) :
    reqE cfg st (.api n op) t1 t2 = (releaseE st1 n t2, .notFound) := by
  simp [reqE, ho]

theorem reqE_api_some (cfg : Cfg) (st st1 : SysSt sem) (n : String) (op : sem.Op) (t1 t2 : Int) (l : sem.L)
    (ho : openE cfg st n true t1 = (st1, some l)) :
    reqE cfg st (.api n op) t1 t2 =
      (releaseE { st1 with store := kset st1.store n (sem.exec l (storeOf st1.store n) op).2.1,
                           table := updLoc st1.table n (sem.exec l (storeOf st1.store n) op).1 } n t2,
       .ok (sem.exec l (storeOf st1.store n) op).2.2) := by
  simp [reqE, ho]

theorem reqD_api_fail (d : DSt sem) (n : String) (op : sem.Op) (t : Int) (check : Bool)
    (hc : (check && !sem.created (dget d n t).1) = true) :
    reqD check d (.api n op) t = (d, .notFound) := by
  simp only [reqD, hc, if_true]

theorem reqD_api_ok (d : DSt sem) (n : String) (op : sem.Op) (t : Int) (check : Bool)
    (hc : (check && !sem.created (dget d n t).1) = false) :
    reqD check d (.api n op) t =
      ({ d with locs := kset d.locs n ((sem.exec (dget d n t).1 (dget d n t).2 op).1, (sem.exec (dget d n t).1 (dget d n t).2 op).2.1) },
       .ok (sem.exec (dget d n t).1 (dget d n t).2 op).2.2) := by
  simp only [reqD, hc]; rfl

theorem step_sim (h : ReloadOK sem) (cfg : Cfg) (st : SysSt sem) (d : DSt sem) (r : Req sem) (t1 t2 t1' : Int)
    (hT : TabGood h cfg.checkExistence st) (hD : DirOK h st d) (hr : ReqOK sem cfg.checkExistence r) :
    (reqE cfg st r t1 t2).2 = (reqD cfg.checkExistence d r t1').2 ∧
    TabGood h cfg.checkExistence (reqE cfg st r t1 t2).1 ∧
    DirOK h (reqE cfg st r t1 t2).1 (reqD cfg.checkExistence d r t1').1 := by
  cases r with
  | api n op =>
    obtain ⟨os, otab, osome, onone⟩ := openE_spec cfg st n true t1
    obtain ⟨hp2, hpR⟩ := hD n t1'
    cases ho : openE cfg st n true t1 with
    | mk st1 r1 =>
      rw [ho] at os otab osome onone
      simp only at os otab osome onone
      cases r1 with
      | none =>
        obtain ⟨_, hc, hcr⟩ := onone rfl
        have hcp : sem.created (dget d n t1').1 = false := by
          rw [h.created_eq _ _ _ hpR (h.load_R t1 _)]; exact hcr
        rw [reqE_api_none cfg st st1 n op t1 t2 ho, reqD_api_fail d n op t1' _ (by simp [hc, hcp])]
        have hT1 : TabGood h cfg.checkExistence st1 := by
          intro m e l he hl
          rcases otab m e l he hl with ⟨e0, h0, h1⟩ | ⟨_, h2⟩
          · rw [os]; exact hT m e0 l h0 h1
          · cases h2
        refine ⟨rfl, tabGood_release h _ st1 n t2 hT1, ?_⟩
        intro m t; simp only [release_store, os]; exact hD m t
      | some l =>
        have hgood : h.R l (storeOf st.store n) ∧ (cfg.checkExistence = true → sem.created l = true) := by
          rcases osome l rfl with ⟨e0, h0, h1⟩ | ⟨hl, hcr⟩
          · exact hT n e0 l h0 h1
          · exact ⟨hl ▸ h.load_R t1 _, fun hc => hcr (by simp [hc])⟩
        have hcp : (cfg.checkExistence && !sem.created (dget d n t1').1) = false := by
          rw [h.created_eq _ _ _ hpR hgood.1]
          cases hc : cfg.checkExistence with
          | false => rfl
          | true => simp [hgood.2 hc]
        rw [reqE_api_some cfg st st1 n op t1 t2 l ho, reqD_api_ok d n op t1' _ hcp]
        rw [os]
        have hx : (sem.exec l (storeOf st.store n) op).2 = (sem.exec (dget d n t1').1 (dget d n t1').2 op).2 := by
          rw [hp2]; exact h.exec_eq _ _ _ _ hgood.1 hpR
        refine ⟨?_, ?_, ?_⟩
        · simp only [hx]
        · apply tabGood_release
          intro m e l' he hl
          by_cases hm : m = n
          · subst hm
            simp only at he
            have := kget_updLoc_same _ _ _ _ he
            rw [this] at hl; cases hl
            simp only [storeOf_kset_same]
            refine ⟨h.exec_R _ _ _ hgood.1, fun hc => ?_⟩
            exact hr hc l _ (hgood.2 hc)
          · simp only at he
            rw [kget_updLoc_other _ _ _ _ hm] at he
            simp only [storeOf_kset_other _ _ _ _ hm]
            rcases otab m e l' he hl with ⟨e0, h0, h1⟩ | ⟨h2, _⟩
            · exact hT m e0 l' h0 h1
            · exact absurd h2 hm
        · intro m t
          simp only [release_store]
          by_cases hm : m = n
          · subst hm
            rw [dget_kset_same]
            simp only [storeOf_kset_same]
            constructor
            · rw [hx]
            · have := h.exec_R _ _ op hpR
              rw [hx, hp2]; exact this
          · rw [dget_kset_other _ _ _ _ _ hm]
            simp only [storeOf_kset_other _ _ _ _ hm]
            exact hD m t
  | create n =>
    obtain ⟨os, otab, osome, onone⟩ := openE_spec cfg st n false t1
    obtain ⟨hp2, hpR⟩ := hD n t1'
    cases ho : openE cfg st n false t1 with
    | mk st1 r1 =>
      rw [ho] at os otab osome onone
      simp only at os otab osome onone
      cases r1 with
      | none => exact absurd (onone rfl).1 (by simp)
      | some l =>
        have hR : h.R l (storeOf st.store n) := by
          rcases osome l rfl with ⟨e0, h0, h1⟩ | ⟨hl, _⟩
          · exact (hT n e0 l h0 h1).1
          · exact hl ▸ h.load_R t1 _
        have hce : sem.created (dget d n t1').1 = sem.created l := h.created_eq _ _ _ hpR hR
        cases hcl : sem.created l with
        | true =>
          have e1 : reqE cfg st (.create n) t1 t2 = (st1, .created false) := by simp [reqE, ho, hcl]
          have e2 : reqD cfg.checkExistence d (.create n) t1' = (d, .created false) := by
            simp only [reqD, hce, hcl, if_true]
          rw [e1, e2]
          refine ⟨rfl, ?_, ?_⟩
          · intro m e l' he hl
            rw [os]
            rcases otab m e l' he hl with ⟨e0, h0, h1⟩ | ⟨h2, h3⟩
            · exact hT m e0 l' h0 h1
            · cases h3; subst h2; exact ⟨hR, fun _ => hcl⟩
          · intro m t; simp only [os]; exact hD m t
        | false =>
          have e1 : reqE cfg st (.create n) t1 t2 =
              ({ st1 with store := kset st1.store n (sem.mark l (storeOf st1.store n)).2,
                          table := updLoc st1.table n (sem.mark l (storeOf st1.store n)).1 }, .created true) := by
            simp [reqE, ho, hcl]
          have e2 : reqD cfg.checkExistence d (.create n) t1' =
              ({ d with locs := kset d.locs n (sem.mark (dget d n t1').1 (dget d n t1').2) }, .created true) := by
            simp only [reqD, hce, hcl]; rfl
          rw [e1, e2, os]
          refine ⟨rfl, ?_, ?_⟩
          · intro m e l' he hl
            by_cases hm : m = n
            · subst hm
              simp only at he
              have := kget_updLoc_same _ _ _ _ he
              rw [this] at hl; cases hl
              simp only [storeOf_kset_same]
              exact ⟨h.mark_R _ _ hR, fun _ => h.mark_created _ _⟩
            · simp only at he
              rw [kget_updLoc_other _ _ _ _ hm] at he
              simp only [storeOf_kset_other _ _ _ _ hm]
              rcases otab m e l' he hl with ⟨e0, h0, h1⟩ | ⟨h2, _⟩
              · exact hT m e0 l' h0 h1
              · exact absurd h2 hm
          · intro m t
            by_cases hm : m = n
            · subst hm
              rw [dget_kset_same]
              simp only [storeOf_kset_same]
              rw [hp2]
              exact ⟨(h.mark_eq _ _ _ hR hpR).symm, h.mark_eq _ _ _ hR hpR ▸ h.mark_R _ _ hpR⟩
            · rw [dget_kset_other _ _ _ _ _ hm]
              simp only [storeOf_kset_other _ _ _ _ hm]
              exact hD m t
  | peek n =>
    obtain ⟨os, otab, osome, _⟩ := openE_spec cfg st n false t1
    have hc : cfg.checkExistence = false := hr
    have e1 : reqE cfg st (.peek n) t1 t2 = ((openE cfg st n false t1).1, .peeked) := by simp [reqE]
    have e2 : reqD cfg.checkExistence d (.peek n) t1' = (d, .peeked) := by simp [reqD]
    rw [e1, e2]
    refine ⟨rfl, ?_, ?_⟩
    · intro m e l' he hl
      simp only at he ⊢
      rw [os]
      refine ⟨?_, fun hc' => absurd hc' (by simp [hc])⟩
      rcases otab m e l' he hl with ⟨e0, h0, h1⟩ | ⟨h2, h3⟩
      · exact (hT m e0 l' h0 h1).1
      · subst h2
        rcases osome l' h3 with ⟨e0, h0, h1⟩ | ⟨hl2, _⟩
        · exact (hT m e0 l' h0 h1).1
        · exact hl2 ▸ h.load_R t1 _
    · intro m t; simp only [os]; exact hD m t

theorem run_sim (h : ReloadOK sem) (cfg : Cfg) :
    ∀ (h1 h2 : List (Req sem × Int × Int)) (st : SysSt sem) (d : DSt sem),
      SameReqs h1 h2 → (∀ x ∈ h1, ReqOK sem cfg.checkExistence x.1) →
      TabGood h cfg.checkExistence st → DirOK h st d →
      (runE cfg st h1).2 = (runD cfg.checkExistence d h2).2 := by
  intro h1
  induction h1 with
  | nil =>
    intro h2 st d hs _ _ _
    cases h2 with
    | nil => rfl
    | cons b r2 => exact absurd hs (by simp [SameReqs])
  | cons a r1 ih =>
    intro h2 st d hs hok hT hD
    cases h2 with
    | nil => exact absurd hs (by simp [SameReqs])
    | cons b r2 =>
      obtain ⟨ra, ta1, ta2⟩ := a
      obtain ⟨rb, tb1, tb2⟩ := b
      simp only [SameReqs] at hs
      obtain ⟨hab, hrest⟩ := hs
      subst hab
      obtain ⟨ho, hT', hD'⟩ := step_sim h cfg st d ra ta1 ta2 tb1 hT hD (hok _ (List.mem_cons_self ..))
      have := ih r2 _ _ hrest (fun x hx => hok x (List.mem_cons_of_mem _ hx)) hT' hD'
      simp only [runE, runD]
      rw [ho, this]

theorem init_sim (h : ReloadOK sem) (check : Bool) (s0 : List (String × sem.S)) :
    TabGood h check ({ store := s0 } : SysSt sem) ∧ DirOK h ({ store := s0 } : SysSt sem) ({ base := s0 } : DSt sem) := by
  constructor
  · intro n e l he; simp [kget] at he
  · intro n t; exact ⟨rfl, h.load_R _ _⟩

/-! ### requests to one name leave the other names alone -/

theorem expire_other (st : SysSt sem) (m n : String) (rel : Bool) (now : Int) (h : n ≠ m) :
    kget (expire st m rel now).1.table n = kget st.table n := by
  unfold expire
  cases hk : kget st.table m with
  | none => rfl
  | some e0 =>
    simp only
    split
    · exact kget_kset_other _ _ _ _ h
    · exact kget_kdel_other _ _ _ h

theorem getE_other (cfg : Cfg) (st : SysSt sem) (m n : String) (e : CEntry sem) (inst chk : Bool) (now : Int) (h : n ≠ m) :
    kget (getE cfg st m e inst chk now).1.table n = kget st.table n := by
  unfold getE
  simp only
  split
  · exact kget_kdel_other _ _ _ h
  · cases inst with
    | false => rfl
    | true => exact kget_kset_other _ _ _ _ h

theorem openE_other (cfg : Cfg) (st : SysSt sem) (m n : String) (chk : Bool) (now : Int) (h : n ≠ m) :
    kget (openE cfg st m chk now).1.table n = kget st.table n := by
  have h1 := expire_other st m n false now h
  unfold openE
  cases hx : expire st m false now with
  | mk st1 r1 =>
    rw [hx] at h1
    cases r1 with
    | some l => exact h1
    | none =>
      simp only
      rw [getE_other _ _ _ _ _ _ _ _ h]
      split
      · simp only; rw [kget_kset_other _ _ _ _ h]; exact h1
      · exact h1

theorem reqE_other (cfg : Cfg) (st : SysSt sem) (r : Req sem) (n : String) (t1 t2 : Int) (h : n ≠ r.name) :
    kget (reqE cfg st r t1 t2).1.table n = kget st.table n ∧
    storeOf (reqE cfg st r t1 t2).1.store n = storeOf st.store n := by
  cases r with
  | api m op =>
    have h : n ≠ m := h
    have ho := openE_other cfg st m n true t1 h
    have hs := (openE_spec cfg st m true t1).1
    cases hx : openE cfg st m true t1 with
    | mk st1 r1 =>
      rw [hx] at ho hs
      cases r1 with
      | none =>
        rw [reqE_api_none cfg st st1 m op t1 t2 hx]
        exact ⟨(expire_other _ _ _ _ _ h).trans ho, by rw [release_store]; exact congrArg (fun s => storeOf s n) hs⟩
      | some l =>
        rw [reqE_api_some cfg st st1 m op t1 t2 l hx]
        refine ⟨(expire_other _ _ _ _ _ h).trans ?_, ?_⟩
        · simp only; rw [kget_updLoc_other _ _ _ _ h]; exact ho
        · rw [release_store]; simp only; rw [storeOf_kset_other _ _ _ _ h]; exact congrArg (fun s => storeOf s n) hs
  | create m =>
    have h : n ≠ m := h
    have ho := openE_other cfg st m n false t1 h
    have hs := (openE_spec cfg st m false t1).1
    cases hx : openE cfg st m false t1 with
    | mk st1 r1 =>
      rw [hx] at ho hs
      simp only at ho hs
      cases r1 with
      | none => simp only [reqE, hx]; exact ⟨ho, congrArg (fun s => storeOf s n) hs⟩
      | some l =>
        simp only [reqE, hx]
        split
        · exact ⟨ho, congrArg (fun s => storeOf s n) hs⟩
        · simp only
          rw [kget_updLoc_other _ _ _ _ h, storeOf_kset_other _ _ _ _ h]
          exact ⟨ho, congrArg (fun s => storeOf s n) hs⟩
  | peek m =>
    have h : n ≠ m := h
    simp only [reqE]
    exact ⟨openE_other cfg st m n false t1 h, congrArg (fun s => storeOf s n) (openE_spec cfg st m false t1).1⟩

/-- a checked request to a name that has no cache entry and no marker in storage fails and changes nothing -/
theorem reqE_api_absent (cfg : Cfg) (hc : cfg.checkExistence = true) (st : SysSt sem) (n : String) (op : sem.Op) (t1 t2 : Int)
    (htab : kget st.table n = none) (hcr : sem.created (sem.load t1 (storeOf st.store n)) = false) :
    (reqE cfg st (.api n op) t1 t2).2 = .notFound ∧
    kget (reqE cfg st (.api n op) t1 t2).1.table n = none ∧
    (reqE cfg st (.api n op) t1 t2).1.store = st.store := by
  have hexp : expire st n false t1 = (st, none) := by simp [expire, htab]
  have hopen : (openE cfg st n true t1).2 = none ∧ (openE cfg st n true t1).1.store = st.store ∧
      kget (openE cfg st n true t1).1.table n = none := by
    unfold openE
    rw [hexp]
    simp only
    generalize hst2 : (if installs cfg = true then { st with table := kset st.table n ({ expires := newExpires cfg t1, pending := false, loc := none } : CEntry sem) } else st) = st2
    have hs2 : st2.store = st.store := by rw [← hst2]; split <;> rfl
    obtain ⟨g1, g2, g3⟩ := getE_fail cfg st2 n { expires := newExpires cfg t1, pending := false, loc := none } (installs cfg) true t1
      (by rw [hs2]; simp [hc, hcr])
    exact ⟨g1, g2.trans hs2, by rw [g3]; exact kget_kdel_same _ _⟩
  cases hx : openE cfg st n true t1 with
  | mk st1 r1 =>
    rw [hx] at hopen
    obtain ⟨h1, h2, h3⟩ := hopen
    simp only at h1 h2 h3
    subst h1
    rw [reqE_api_none cfg st st1 n op t1 t2 hx]
    refine ⟨rfl, ?_, ?_⟩
    · simp [releaseE, expire, h3]
    · rw [release_store]; exact h2

theorem no_create_run (cfg : Cfg) (hc : cfg.checkExistence = true) (n : String) (s : sem.S)
    (hn : ∀ t, sem.created (sem.load t s) = false) :
    ∀ (hist : List (Req sem × Int × Int)) (st : SysSt sem),
      (∀ x ∈ hist, x.1.name = n → ∃ op, x.1 = .api n op) →
      kget st.table n = none → storeOf st.store n = s →
      (∀ p ∈ hist.zip (runE cfg st hist).2, p.1.1.name = n → p.2 = .notFound) ∧
      storeOf (runE cfg st hist).1.store n = s ∧ kget (runE cfg st hist).1.table n = none := by
  intro hist
  induction hist with
  | nil => intro st _ ht hs; exact ⟨by intro p hp; simp [runE] at hp, hs, ht⟩
  | cons a rest ih =>
    intro st hok ht hs
    obtain ⟨r, t1, t2⟩ := a
    simp only [runE]
    by_cases hname : r.name = n
    · obtain ⟨op, hr⟩ := hok (r, t1, t2) (List.mem_cons_self ..) hname
      simp only at hr
      subst hr
      obtain ⟨g1, g2, g3⟩ := reqE_api_absent cfg hc st n op t1 t2 ht (by rw [hs]; exact hn t1)
      obtain ⟨i1, i2, i3⟩ := ih (reqE cfg st (.api n op) t1 t2).1 (fun x hx => hok x (List.mem_cons_of_mem _ hx)) g2 (by rw [g3]; exact hs)
      refine ⟨?_, i2, i3⟩
      intro p hp hpn
      simp only [List.zip_cons_cons, List.mem_cons] at hp
      rcases hp with hp | hp
      · subst hp; exact g1
      · exact i1 p hp hpn
    · obtain ⟨g1, g2⟩ := reqE_other cfg st r n t1 t2 (fun e => hname e.symm)
      obtain ⟨i1, i2, i3⟩ := ih (reqE cfg st r t1 t2).1 (fun x hx => hok x (List.mem_cons_of_mem _ hx)) (g1.trans ht) (g2.trans hs)
      refine ⟨?_, i2, i3⟩
      intro p hp hpn
      simp only [List.zip_cons_cons, List.mem_cons] at hp
      rcases hp with hp | hp
      · subst hp; exact absurd hpn hname
      · exact i1 p hp hpn

end seq

/-! ## the concurrent protocol: single load for window-free schedules -/

section conc
variable {sem : LocSem}

theorem setNth_length {α : Type} (l : List α) (i : Nat) (a : α) : (setNth l i a).length = l.length := by
  induction l generalizing i with
  | nil => rfl
  | cons x xs ih => cases i with
    | zero => rfl
    | succ i => simp [setNth, ih]

theorem setNth_get_same {α : Type} (l : List α) (i : Nat) (a : α) (h : i < l.length) : (setNth l i a)[i]? = some a := by
  induction l generalizing i with
  | nil => simp at h
  | cons x xs ih => cases i with
    | zero => rfl
    | succ i => simp [setNth]; exact ih i (by simpa using h)

theorem setNth_get_other {α : Type} (l : List α) (i j : Nat) (a : α) (h : j ≠ i) : (setNth l i a)[j]? = l[j]? := by
  induction l generalizing i j with
  | nil => rfl
  | cons x xs ih => cases i with
    | zero => cases j with
      | zero => exact absurd rfl h
      | succ j => rfl
    | succ i => cases j with
      | zero => rfl
      | succ j => simp [setNth]; exact ih i j (by omega)

theorem lt_of_get_some {α : Type} (l : List α) (i : Nat) (a : α) (h : l[i]? = some a) : i < l.length := by
  rcases Nat.lt_or_ge i l.length with h1 | h1
  · exact h1
  · rw [List.getElem?_eq_none h1] at h; cases h

/-- the protocol state while N threads open the same name `n` (each is `GetLocation n`) -/
inductive Phase (n : String) (c : CSt sem) : Prop where
  | fresh : kget c.table n = none → c.loads = [] → c.insts = [] →
      (∀ (t : Nat) (pc : PC sem), c.pcs[t]? = some pc → pc = PC.start (Req.peek n)) → Phase n c
  | window (e u : Nat) (ent : HEntry) : kget c.table n = some e → c.ents[e]? = some ent → ent.inst = none →
      c.loads = [] → c.insts = [] → c.pcs[u]? = some (PC.get (Req.peek n) e) →
      (∀ (t : Nat) (pc : PC sem), t ≠ u → c.pcs[t]? = some pc → pc = PC.start (Req.peek n)) → Phase n c
  | loaded (e : Nat) (ent : HEntry) : kget c.table n = some e → c.ents[e]? = some ent → ent.inst = some 0 →
      c.loads = [n] → c.insts.length = 1 →
      (∀ (t : Nat) (pc : PC sem), c.pcs[t]? = some pc → pc = PC.start (Req.peek n) ∨ pc = PC.cleanup (Req.peek n) e (some 0) ∨
          pc = PC.opened (Req.peek n) (some 0) ∨ pc = PC.done (some 0) Out.peeked) → Phase n c

theorem pcs_after_set (c : CSt sem) (tid t : Nat) (pc0 pc pc' : PC sem) (h0 : c.pcs[tid]? = some pc0)
    (h : (setNth c.pcs tid pc')[t]? = some pc) : (t = tid ∧ pc = pc') ∨ (t ≠ tid ∧ c.pcs[t]? = some pc) := by
  by_cases ht : t = tid
  · subst ht
    rw [setNth_get_same _ _ _ (lt_of_get_some _ _ _ h0)] at h
    cases h; exact Or.inl ⟨rfl, rfl⟩
  · rw [setNth_get_other _ _ _ _ ht] at h; exact Or.inr ⟨ht, h⟩

theorem phase_step (cfg : Cfg) (hinst : installs cfg = true) (n : String) (c : CSt sem) (tid : Nat) (now : Int)
    (hp : Phase n c) (hw : ∀ u, inWindow c u = true → u = tid) : Phase n (cstep cfg c tid now) := by
  cases hpc : c.pcs[tid]? with
  | none => simp only [cstep, hpc]; exact hp
  | some pc0 =>
    cases hp with
    | fresh htab hloads hinsts hpcs =>
      have := hpcs tid pc0 hpc
      subst this
      have hlen : c.ents.length < (c.ents ++ [({ expires := newExpires cfg now, pending := false, inst := none } : HEntry)]).length := by simp
      have hstep : cstep cfg c tid now =
          { c with ents := c.ents ++ [{ expires := newExpires cfg now, pending := false, inst := none }],
                   table := kset c.table n c.ents.length,
                   pcs := setNth c.pcs tid (.get (.peek n) c.ents.length) } := by
        simp [cstep, hpc, Req.name, htab, hinst]
      rw [hstep]
      refine Phase.window c.ents.length tid { expires := newExpires cfg now, pending := false, inst := none } ?_ ?_ rfl hloads hinsts ?_ ?_
      · exact kget_kset_same _ _ _
      · simp
      · exact setNth_get_same _ _ _ (lt_of_get_some _ _ _ hpc)
      · intro t pc ht hget
        simp only at hget
        rw [setNth_get_other _ _ _ _ ht] at hget
        exact hpcs t pc hget
    | window e u ent htab hent hnone hloads hinsts hu hothers =>
      have htid : u = tid := hw u (by simp [inWindow, hu])
      subst htid
      rw [hu] at hpc; cases hpc
      have hstep : cstep cfg c u now =
          { c with loads := [n], insts := [(n, sem.load now (storeOf c.store n))],
                   ents := setNth c.ents e (loadedEntry ent 0 now (sem.cacheTTL (sem.load now (storeOf c.store n)))),
                   pcs := setNth c.pcs u (.cleanup (.peek n) e (some 0)) } := by
        simp [cstep, hu, Req.name, hent, hnone, reqCheck, hloads, hinsts]
      rw [hstep]
      refine Phase.loaded e _ htab (setNth_get_same _ _ _ (lt_of_get_some _ _ _ hent)) rfl rfl rfl ?_
      intro t pc hget
      simp only at hget
      rcases pcs_after_set c u t _ pc _ hu hget with ⟨_, h2⟩ | ⟨h1, h2⟩
      · exact Or.inr (Or.inl h2)
      · exact Or.inl (hothers t pc h1 h2)
    | loaded e ent htab hent hsome hloads hinsts hpcs =>
      have hlt := lt_of_get_some _ _ _ hent
      rcases hpcs tid pc0 hpc with h | h | h | h
      · subst h
        have hstep : cstep cfg c tid now =
            { c with ents := setNth c.ents e { ent with pending := true },
                     pcs := setNth c.pcs tid (.opened (.peek n) (some 0)) } := by
          simp [cstep, hpc, Req.name, htab, hent, hsome]
        rw [hstep]
        refine Phase.loaded e { ent with pending := true } htab (setNth_get_same _ _ _ hlt) hsome hloads hinsts ?_
        intro t pc hget
        simp only at hget
        rcases pcs_after_set c tid t _ pc _ hpc hget with ⟨_, h2⟩ | ⟨_, h2⟩
        · exact Or.inr (Or.inr (Or.inl h2))
        · exact hpcs t pc h2
      · subst h
        have hstep : cstep cfg c tid now = { c with pcs := setNth c.pcs tid (.opened (.peek n) (some 0)) } := by
          simp [cstep, hpc, hent, hsome]
        rw [hstep]
        refine Phase.loaded e ent htab hent hsome hloads hinsts ?_
        intro t pc hget
        simp only at hget
        rcases pcs_after_set c tid t _ pc _ hpc hget with ⟨_, h2⟩ | ⟨_, h2⟩
        · exact Or.inr (Or.inr (Or.inl h2))
        · exact hpcs t pc h2
      · subst h
        have hstep : cstep cfg c tid now = { c with pcs := setNth c.pcs tid (.done (some 0) .peeked) } := by
          simp [cstep, hpc]
        rw [hstep]
        refine Phase.loaded e ent htab hent hsome hloads hinsts ?_
        intro t pc hget
        simp only at hget
        rcases pcs_after_set c tid t _ pc _ hpc hget with ⟨_, h2⟩ | ⟨_, h2⟩
        · exact Or.inr (Or.inr (Or.inr h2))
        · exact hpcs t pc h2
      · subst h
        have hstep : cstep cfg c tid now = c := by simp [cstep, hpc]
        rw [hstep]
        exact Phase.loaded e ent htab hent hsome hloads hinsts hpcs

theorem window_all (c : CSt sem) (tid : Nat)
    (h : (List.range c.pcs.length).all (fun u => !inWindow c u || u == tid) = true) :
    ∀ u, inWindow c u = true → u = tid := by
  intro u hu
  have hlt : u < c.pcs.length := by
    unfold inWindow at hu
    cases hpc : c.pcs[u]? with
    | none => simp [hpc] at hu
    | some pc => exact lt_of_get_some _ _ _ hpc
  rw [List.all_eq_true] at h
  have := h u (List.mem_range.mpr hlt)
  simp [hu] at this
  exact this

theorem phase_run (cfg : Cfg) (hinst : installs cfg = true) (n : String) :
    ∀ (sched : List (Nat × Int)) (c : CSt sem), Phase n c → windowFree cfg c sched = true → Phase n (crun cfg c sched) := by
  intro sched
  induction sched with
  | nil => intro c hp _; exact hp
  | cons a rest ih =>
    intro c hp hw
    obtain ⟨tid, now⟩ := a
    simp only [windowFree, Bool.and_eq_true] at hw
    simp only [crun]
    exact ih _ (phase_step cfg hinst n c tid now hp (window_all c tid hw.1)) hw.2

theorem phase_init (n : String) (store : List (String × sem.S)) (N : Nat) :
    Phase n (cinit store (List.replicate N (Req.peek n)) : CSt sem) := by
  refine Phase.fresh rfl rfl rfl ?_
  intro t pc h
  simp only [cinit, List.map_replicate] at h
  rw [List.getElem?_replicate] at h
  split at h
  · cases h; rfl
  · cases h

theorem phase_facts (n : String) (c : CSt sem) (hp : Phase n c) :
    c.loads.length ≤ 1 ∧ (∀ t i, instOf c t = some i → i = 0) ∧ (∀ t, isDone c t = true → c.loads = [n] ∧ instOf c t = some 0) := by
  cases hp with
  | fresh htab hloads hinsts hpcs =>
    refine ⟨by simp [hloads], ?_, ?_⟩
    · intro t i h
      unfold instOf at h
      cases hpc : c.pcs[t]? with
      | none => simp [hpc] at h
      | some pc => have := hpcs t pc hpc; subst this; simp [hpc] at h
    · intro t h
      unfold isDone at h
      cases hpc : c.pcs[t]? with
      | none => simp [hpc] at h
      | some pc => have := hpcs t pc hpc; subst this; simp [hpc] at h
  | window e u ent htab hent hnone hloads hinsts hu hothers =>
    refine ⟨by simp [hloads], ?_, ?_⟩
    · intro t i h
      unfold instOf at h
      by_cases htu : t = u
      · subst htu; simp [hu] at h
      · cases hpc : c.pcs[t]? with
        | none => simp [hpc] at h
        | some pc => have := hothers t pc htu hpc; subst this; simp [hpc] at h
    · intro t h
      unfold isDone at h
      by_cases htu : t = u
      · subst htu; simp [hu] at h
      · cases hpc : c.pcs[t]? with
        | none => simp [hpc] at h
        | some pc => have := hothers t pc htu hpc; subst this; simp [hpc] at h
  | loaded e ent htab hent hsome hloads hinsts hpcs =>
    refine ⟨by simp [hloads], ?_, ?_⟩
    · intro t i h
      unfold instOf at h
      cases hpc : c.pcs[t]? with
      | none => simp [hpc] at h
      | some pc =>
        rcases hpcs t pc hpc with h1 | h1 | h1 | h1 <;> subst h1 <;> simp [hpc] at h
        exact h.symm
    · intro t h
      unfold isDone at h
      cases hpc : c.pcs[t]? with
      | none => simp [hpc] at h
      | some pc =>
        rcases hpcs t pc hpc with h1 | h1 | h1 | h1 <;> subst h1 <;> simp [hpc] at h
        exact ⟨hloads, by simp [instOf, hpc]⟩

end conc

import RulioProofs.WatchdogCoded
import RulioProofs.WatchdogFast
import RulioProofs.WatchdogFixed

/-! # C14: the per-step facts lifted to all schedules -/

namespace Watchdog

theorem kcfg_eta (c : Cfg) : c.toKCfg = ⟨c.enabled, c.fires, c.cleanupBuffered, c.haltIsError⟩ := rfl

/-- `stuck` read on the control state -/
theorem stuck_ctl (c : Cfg) (s : St) (hs : stuck c s = true) (t : Tid) :
    stepCtl c.toKCfg (atEnd c s) t s.k = none := by
  simp [stuck] at hs
  have : step c t s = none := by cases t <;> simp [hs]
  unfold step at this
  split at this
  · assumption
  · simp at this

theorem step_isSome_of_ctl (c : Cfg) (s : St) (t : Tid)
    (h : (stepCtl c.toKCfg (atEnd c s) t s.k).isSome = true) : (step c t s).isSome = true := by
  unfold step
  cases h' : stepCtl c.toKCfg (atEnd c s) t s.k with
  | none => simp [h'] at h
  | some r => simp

theorem init_k (c : Cfg) : (init c).k = Ctl.init := rfl

/-! ## fast path -/

theorem fast_path (c : Cfg) (n : Nat) (he : c.enabled = true) (hf : c.fires = false)
    (hp : c.polls = some n) (sched : List Tid) :
    (∀ r, (run c sched (init c)).k.m = .ret r → r = .own) ∧
    (run c sched (init c)).k.m ≠ .panicked ∧
    (stuck c (run c sched (init c)) = true → cleanFinal (run c sched (init c)) .own = true) ∧
    (∀ t s', step c t (run c sched (init c)) = some s' → mu c s' < mu c (run c sched (init c))) ∧
    mu c (init c) = n + 12 := by
  have hk : c.toKCfg = ⟨true, false, c.cleanupBuffered, c.haltIsError⟩ := by rw [kcfg_eta, he, hf]
  have hpres : Preserved c.toKCfg (finv c.cleanupBuffered) := by rw [hk]; exact finv_pres _ _
  have hi := run_inv_ctl c (finv c.cleanupBuffered) hpres sched (init c) (finv_init _)
  refine ⟨?_, ?_, ?_, ?_, ?_⟩
  · intro r hr
    have := finv_returned _ _ hi (by simp [Ctl.returned, hr])
    rw [hr] at this; simpa using this
  · intro hpn
    have := finv_returned _ _ hi (by simp [Ctl.returned, hpn])
    rw [hpn] at this; simp at this
  · intro hs
    have h := stuck_ctl c _ hs
    rw [hk] at h
    exact finv_stuck _ _ _ _ hi h
  · intro t s' hs
    refine mu_dec_some c n hp (finv c.cleanupBuffered) _ ?_ hi t s' hs
    rw [hk]; exact finv_dec _ _ _
  · simp [mu, muK, init, Ctl.init, he, hf, hp]; omega

/-- effective steps are bounded by the measure as long as every effective step decreases it -/
theorem effSteps_le (c : Cfg) (P : St → Prop) (hP : ∀ s t, P s → P (next c t s))
    (hdec : ∀ s t s', P s → step c t s = some s' → mu c s' < mu c s) :
    ∀ (sched : List Tid) (s : St), P s → effSteps c sched s + mu c (run c sched s) ≤ mu c s := by
  intro sched
  induction sched with
  | nil => intro s _; simp [effSteps, run]
  | cons t ts ih =>
    intro s hs
    rw [run_cons]
    have h1 := ih (next c t s) (hP s t hs)
    cases hst : step c t s with
    | none =>
      simp only [effSteps, hst, Option.isSome_none]
      rw [next_of_none hst] at h1 ⊢
      simpa using h1
    | some s' =>
      have h2 := hdec s t s' hs hst
      simp only [effSteps, hst, Option.isSome_some, if_true]
      rw [next_of_step hst] at h1 ⊢
      omega

theorem fast_path_bound (c : Cfg) (n : Nat) (he : c.enabled = true) (hf : c.fires = false)
    (hp : c.polls = some n) (sched : List Tid) : effSteps c sched (init c) ≤ n + 12 := by
  have hk : c.toKCfg = ⟨true, false, c.cleanupBuffered, c.haltIsError⟩ := by rw [kcfg_eta, he, hf]
  have hpres : Preserved c.toKCfg (finv c.cleanupBuffered) := by rw [hk]; exact finv_pres _ _
  have h := effSteps_le c (fun s => finv c.cleanupBuffered s.k = true)
    (fun s t hi => next_inv_at c _ s t (hpres _) hi)
    (fun s t s' hi hs => mu_dec_some c n hp (finv c.cleanupBuffered) s (by rw [hk]; exact finv_dec _ _ _) hi t s' hs)
    sched (init c) (finv_init _)
  have := (fast_path c n he hf hp []).2.2.2.2
  omega

/-! ## the unchanged tree -/

/-- as coded (and with or without a watchdog): whatever the schedule, if the caller got control back it got the
script's own outcome -/
theorem coded_returns_own (c : Cfg) (hb : c.cleanupBuffered = false) (sched : List Tid) (r : Ret)
    (hr : (run c sched (init c)).k.m = .ret r) : r = .own := by
  cases he : c.enabled with
  | true =>
    have hk : c.toKCfg = ⟨true, c.fires, false, c.haltIsError⟩ := by rw [kcfg_eta, he, hb]
    have hpres : Preserved c.toKCfg cinv := by rw [hk]; exact cinv_pres _ _
    have hi := run_inv_ctl c cinv hpres sched (init c) cinv_init
    have := cinv_returned _ hi (by simp [Ctl.returned, hr])
    rw [hr] at this; simpa using this
  | false =>
    have hk : c.toKCfg = ⟨false, c.fires, c.cleanupBuffered, c.haltIsError⟩ := by rw [kcfg_eta, he]
    have hpres : Preserved c.toKCfg ninv := by rw [hk]; exact ninv_pres _ _ _
    have hi := run_inv_ctl c ninv hpres sched (init c) (show ninv Ctl.init = true by decide)
    have := ninv_returned _ hi (by simp [Ctl.returned, hr])
    rw [hr] at this; simpa using this

/-- as coded, a script that never ends by itself never gives control back, whatever the timer does -/
theorem coded_loop_never_returns (c : Cfg) (he : c.enabled = true) (hb : c.cleanupBuffered = false)
    (hp : c.polls = none) (sched : List Tid) : returned (run c sched (init c)) = false := by
  have hk : c.toKCfg = ⟨true, c.fires, false, c.haltIsError⟩ := by rw [kcfg_eta, he, hb]
  have hpres : PreservedAt c.toKCfg false linv := by rw [hk]; exact linv_pres _ _
  have hi := run_inv_loops c hp linv hpres sched (init c) (show linv Ctl.init = true by decide)
  exact linv_not_returned _ hi

/-- as coded, once the interrupt has been taken the caller stays in the deferred send for ever -/
theorem coded_halt_is_forever (c : Cfg) (he : c.enabled = true) (hb : c.cleanupBuffered = false)
    (sched : List Tid) (hh : (run c sched (init c)).k.m = .dSend .halt) (more : List Tid) :
    (run c more (run c sched (init c))).k.m = .dSend .halt ∧
    step c .main (run c more (run c sched (init c))) = none := by
  have hk : c.toKCfg = ⟨true, c.fires, false, c.haltIsError⟩ := by rw [kcfg_eta, he, hb]
  have hpres : Preserved c.toKCfg cinv := by rw [hk]; exact cinv_pres _ _
  have hi := run_inv_ctl c cinv hpres sched (init c) cinv_init
  have hh0 : hinv (run c sched (init c)).k = true := by simp [hinv, hi, hh]
  have hpres' : Preserved c.toKCfg hinv := by rw [hk]; exact hinv_pres _ _
  have hi' := run_inv_ctl c hinv hpres' more _ hh0
  have hblk := hinv_main_blocked c.fires c.haltIsError (atEnd c (run c more (run c sched (init c)))) _ hi'
  rw [← hk] at hblk
  refine ⟨?_, ?_⟩
  · -- hinv keeps the caller in dSend halt or dSend nilcall; the pending reason never changes
    have key : ∀ (l : List Tid) (s : St), (hinv s.k = true ∧ s.k.m = .dSend .halt) →
        (hinv (run c l s).k = true ∧ (run c l s).k.m = .dSend .halt) := by
      intro l
      apply run_inv c (fun s => hinv s.k = true ∧ s.k.m = .dSend .halt)
      intro s t ⟨h1, h2⟩
      refine ⟨next_inv_at c hinv s t (hpres' _) h1, ?_⟩
      cases hst : step c t s with
      | none => rw [next_of_none hst]; exact h2
      | some s' =>
        rw [next_of_step hst]
        obtain ⟨k', p, hk', rfl⟩ := step_some_iff.mp hst
        have := hinv_keeps c.fires c.haltIsError (atEnd c s) s.k h1 h2 t
        rw [← hk, hk'] at this
        simpa using this
    exact (key more _ ⟨hh0, hh⟩).2
  · unfold step; simp [stepCtl] at hblk; simp [stepCtl, hblk]

/-! ## no watchdog installed -/

theorem unguarded (c : Cfg) (n : Nat) (he : c.enabled = false) (hp : c.polls = some n) (sched : List Tid) :
    (∀ r, (run c sched (init c)).k.m = .ret r → r = .own) ∧
    (run c sched (init c)).k.m ≠ .panicked ∧
    (stuck c (run c sched (init c)) = true → (run c sched (init c)).k.m = .ret .own) ∧
    (∀ t s', step c t (run c sched (init c)) = some s' → mu c s' < mu c (run c sched (init c))) := by
  have hk : c.toKCfg = ⟨false, c.fires, c.cleanupBuffered, c.haltIsError⟩ := by rw [kcfg_eta, he]
  have hpres : Preserved c.toKCfg ninv := by rw [hk]; exact ninv_pres _ _ _
  have hi := run_inv_ctl c ninv hpres sched (init c) (show ninv Ctl.init = true by decide)
  refine ⟨?_, ?_, ?_, ?_⟩
  · intro r hr
    have := ninv_returned _ hi (by simp [Ctl.returned, hr])
    rw [hr] at this; simpa using this
  · intro hpn
    have := ninv_returned _ hi (by simp [Ctl.returned, hpn])
    rw [hpn] at this; simp at this
  · intro hs
    have h := stuck_ctl c _ hs
    rw [hk] at h
    exact ninv_stuck _ _ _ _ _ hi h
  · intro t s' hs
    refine mu_dec_some c n hp ninv _ ?_ hi t s' hs
    rw [hk]; exact ninv_dec _ _ _ _

/-! ## the repair -/

theorem fixed_general (c : Cfg) (he : c.enabled = true) (hb : c.cleanupBuffered = true) (sched : List Tid) :
    (returned (run c sched (init c)) = false → (step c .main (run c sched (init c))).isSome = true) ∧
    (stuck c (run c sched (init c)) = true →
      returned (run c sched (init c)) = true ∧ (run c sched (init c)).k.w = .done) ∧
    (c.haltIsError = true → ∀ r, (run c sched (init c)).k.m = .ret r → r = .own ∨ r = .timeoutErr) ∧
    (run c sched (init c)).k.m ≠ .panicked := by
  have hk : c.toKCfg = ⟨true, c.fires, true, c.haltIsError⟩ := by rw [kcfg_eta, he, hb]
  have hpres : Preserved c.toKCfg (rinv c.haltIsError) := by rw [hk]; exact rinv_pres _ _
  have hi := run_inv_ctl c (rinv c.haltIsError) hpres sched (init c) (rinv_init _)
  refine ⟨?_, ?_, ?_, ?_⟩
  · intro hr
    apply step_isSome_of_ctl
    rw [hk]
    exact rinv_main_enabled _ _ _ _ hi hr
  · intro hs
    have h := stuck_ctl c _ hs
    rw [hk] at h
    exact rinv_stuck _ _ _ _ hi h
  · intro hE r hr
    rw [hE] at hi
    have := rinv_returned _ hi (by simp [Ctl.returned, hr])
    rw [hr] at this; simpa using this
  · exact rinv_not_panicked _ _ hi

theorem fixed_timeout (c : Cfg) (he : c.enabled = true) (hf : c.fires = true) (hb : c.cleanupBuffered = true)
    (hE : c.haltIsError = true) (hp : c.polls = none) (sched : List Tid) :
    (∀ r, (run c sched (init c)).k.m = .ret r → r = .timeoutErr) ∧
    (stuck c (run c sched (init c)) = true → overFinal (run c sched (init c)) .timeoutErr = true) ∧
    (∀ t s', step c t (run c sched (init c)) = some s' → mu c s' ≤ mu c (run c sched (init c))) ∧
    (overFinal (run c sched (init c)) .timeoutErr = false →
      ∃ t s', step c t (run c sched (init c)) = some s' ∧ mu c s' < mu c (run c sched (init c))) ∧
    mu c (init c) = 13 := by
  have hk : c.toKCfg = ⟨true, true, true, true⟩ := by rw [kcfg_eta, he, hf, hb, hE]
  have hpres : PreservedAt c.toKCfg false rlinv := by rw [hk]; exact rlinv_pres
  have hi := run_inv_loops c hp rlinv hpres sched (init c) (show rlinv Ctl.init = true by decide)
  have hr1 : rinv true (run c sched (init c)).k = true := by
    simp only [rlinv, Bool.and_eq_true] at hi; exact hi.1
  refine ⟨?_, ?_, ?_, ?_, ?_⟩
  · intro r hr
    have := rlinv_returned _ hi (by simp [Ctl.returned, hr])
    rw [hr] at this; simpa using this
  · intro hs
    have h := stuck_ctl c _ hs
    rw [hk] at h
    have h2 := rinv_stuck true true _ _ hr1 h
    have h3 := rlinv_returned _ hi h2.1
    simp [overFinal, Ctl.overFinal, h3, h2.2]
  · intro t s' hs
    refine mu_le_loops c hp (rinv true) _ ?_ hr1 t s' hs
    rw [hk]; exact rinv_dec _ _ _
  · intro hov
    have h := rlinv_progress _ hi hov
    rw [← hk] at h
    cases hst : stepCtl c.toKCfg false (progressTid (run c sched (init c)).k) (run c sched (init c)).k with
    | none => simp [hst] at h
    | some r =>
      obtain ⟨k', p⟩ := r
      simp [hst] at h
      refine ⟨progressTid (run c sched (init c)).k,
        { k := k', left := if p then (run c sched (init c)).left - 1 else (run c sched (init c)).left }, ?_, ?_⟩
      · exact step_some_iff.mpr ⟨k', p, by rw [atEnd_loops c hp]; exact hst, rfl⟩
      · simp [mu, hp]; exact h
  · simp [mu, muK, init, Ctl.init, he, hf, hp]

end Watchdog

import RulioModel.CronTimeline

/-! Helper lemmas for C16 (in-memory cron): the invariant `WFc` and its preservation by every operation. -/

namespace CronM
open C16Gen List

/-! ## list primitives -/

theorem insertJob_perm (j : Job) (l : List Job) : (insertJob j l).Perm (j :: l) := by
  induction l with
  | nil => simp [insertJob]
  | cons x xs ih =>
    simp only [insertJob]
    split
    · exact Perm.refl _
    · exact (Perm.cons x ih).trans (Perm.swap j x xs)

theorem mem_insertJob {j x : Job} {l : List Job} : x ∈ insertJob j l ↔ x = j ∨ x ∈ l := by
  rw [(insertJob_perm j l).mem_iff]; simp

theorem insertJob_sorted (j : Job) {l : List Job} (h : l.Pairwise (fun a b => a.next ≤ b.next)) :
    (insertJob j l).Pairwise (fun a b => a.next ≤ b.next) := by
  induction l with
  | nil => simp [insertJob]
  | cons x xs ih =>
    simp only [insertJob]
    have hx := (pairwise_cons.1 h)
    split
    · rename_i ht
      -- any test that implies `j.next ≤ x.next` when true and `x.next ≤ j.next` when false keeps the order
      have hlt : j.next ≤ x.next := by
        have h' := ht
        simp [searchTest] at h' <;> omega
      refine pairwise_cons.2 ⟨?_, h⟩
      intro y hy
      rcases mem_cons.1 hy with rfl | hy
      · exact hlt
      · exact Nat.le_trans hlt (hx.1 y hy)
    · rename_i ht
      have hge : x.next ≤ j.next := by
        have h' := ht
        simp [searchTest] at h' <;> omega
      refine pairwise_cons.2 ⟨?_, ih hx.2⟩
      intro y hy
      rcases mem_insertJob.1 hy with rfl | hy
      · exact hge
      · exact hx.1 y hy

theorem remJob_sublist (id : Nat) (l : List Job) : (remJob id l).Sublist l := by
  unfold remJob; split
  · exact eraseP_sublist
  · exact Sublist.refl _

/-- after `rem`, no entry with that id is left, provided ids were unique -/
theorem remJob_no_id {id : Nat} {l : List Job} (h : l.Pairwise (fun a b => a.id ≠ b.id)) :
    ∀ x ∈ remJob id l, x.id ≠ id := by
  have hr : remErases = true := rfl
  simp only [remJob, hr, if_true]
  induction l with
  | nil => simp
  | cons y ys ih =>
    have hy := pairwise_cons.1 h
    intro x hx
    by_cases hyi : y.id = id
    · have : (y :: ys).eraseP (fun j => j.id == id) = ys := by simp [hyi]
      rw [this] at hx
      intro hxi
      exact hy.1 x hx (by omega)
    · have : (y :: ys).eraseP (fun j => j.id == id) = y :: ys.eraseP (fun j => j.id == id) := by
        simp [hyi]
      rw [this] at hx
      rcases mem_cons.1 hx with rfl | hx
      · exact hyi
      · exact ih hy.2 x hx

/-- the same for the second loop of `rem`, over `c.running` -/
theorem cancelRunning_sublist (id : Nat) (l : List Job) : (cancelRunning id l).Sublist l := by
  unfold cancelRunning; split
  · exact eraseP_sublist
  · exact Sublist.refl _

theorem cancelRunning_no_id {id : Nat} {l : List Job} (h : l.Pairwise (fun a b => a.id ≠ b.id)) :
    ∀ x ∈ cancelRunning id l, x.id ≠ id := by
  have hr : remCancelsRunning = true := rfl
  have := remJob_no_id (id := id) h
  simpa only [remJob, cancelRunning, hr, show remErases = true from rfl, if_true] using this

/-- a symmetric relation that holds pairwise holds between any two different members -/
theorem pairwise_mem_ne {α : Type} {R : α → α → Prop} (hs : ∀ a b, R a b → R b a) {l : List α} (h : l.Pairwise R) :
    ∀ a ∈ l, ∀ b ∈ l, a ≠ b → R a b := by
  induction l with
  | nil => intro a ha; cases ha
  | cons y ys ih =>
    have hy := pairwise_cons.1 h
    intro a ha b hb hne
    rcases mem_cons.1 ha with ha | ha <;> rcases mem_cons.1 hb with hb | hb
    · exact absurd (ha.trans hb.symm) hne
    · rw [ha]; exact hy.1 b hb
    · rw [hb]; exact hs _ _ (hy.1 a ha)
    · exact ih hy.2 a ha b hb hne

/-- erasing from the larger list something the smaller list does not contain keeps the sublist relation -/
theorem sublist_eraseP_of_forall_not {α : Type} {p : α → Bool} {l₁ l₂ : List α} (h : l₁.Sublist l₂) (hn : ∀ x ∈ l₁, ¬ p x = true) :
    l₁.Sublist (l₂.eraseP p) := by
  have e : l₁.eraseP p = l₁ := eraseP_of_forall_not hn
  rw [← e]; exact h.eraseP

theorem nextOcc_gt {p now : Nat} (hp : p ≠ 0) : now < nextOcc p now := by
  unfold nextOcc
  have hp' : 0 < p := Nat.pos_of_ne_zero hp
  have h1 := Nat.div_add_mod now p
  have h2 := Nat.mod_lt now hp'
  rw [Nat.add_mul, Nat.one_mul, Nat.mul_comm]
  omega

theorem nextOcc_mod (p now : Nat) : nextOcc p now % p = 0 := by
  unfold nextOcc; exact Nat.mul_mod_left _ _

/-! ## the invariant -/

/-- the invariant of the cron state machine, on the components it talks about -/
structure WFc (tl infl run : List Job) (log : List Fire) (clock serial : Nat) : Prop where
  /-- the timeline is sorted by `Next` -/
  sorted : tl.Pairwise (fun a b => a.next ≤ b.next)
  /-- at most one entry per id among the pending jobs and the running jobs that will be re-scheduled -/
  nodupIdR : (tl ++ run).Pairwise (fun a b => a.id ≠ b.id)
  /-- a job object is pending or in flight, never both, never twice -/
  nodupSer : (tl ++ infl).Pairwise (fun a b => a.serial ≠ b.serial)
  serLt : ∀ j ∈ tl ++ infl, j.serial < serial
  occ : ∀ j ∈ tl ++ infl, j.period ≠ 0 → j.next % j.period = 0
  logOk : ∀ f ∈ log, f.serial < serial ∧ f.due ≤ f.time ∧ f.time ≤ clock ∧ (f.period ≠ 0 → f.due % f.period = 0)
  link : ∀ f ∈ log, ∀ j ∈ tl ++ infl, j.serial = f.serial → j.id = f.id ∧ j.period = f.period
  /-- a pending job that already fired is recurring and waits for a strictly later occurrence -/
  pend : ∀ f ∈ log, ∀ j ∈ tl, j.serial = f.serial → j.period ≠ 0 ∧ f.time < j.next
  /-- the log is in reverse chronological order: a later fire of the same job object is a recurring one, for a later occurrence -/
  logPair : log.Pairwise (fun f' f => f'.serial = f.serial →
    f'.id = f.id ∧ f'.period = f.period ∧ f'.period ≠ 0 ∧ f.time < f'.due)
  /-- `c.running` holds jobs whose `Fn` is executing (in the order they were popped) … -/
  runSub : run.Sublist infl
  /-- … and only recurring ones -/
  runRec : ∀ j ∈ run, j.period ≠ 0

abbrev WF (s : Cron) : Prop := WFc s.tl s.inflight s.running s.log s.clock s.serial

/-- at most one pending entry per id -/
theorem WFc.nodupId {tl infl run : List Job} {log c n} (h : WFc tl infl run log c n) : tl.Pairwise (fun a b => a.id ≠ b.id) :=
  (pairwise_append.1 h.nodupIdR).1

theorem WFc.nodupIdRun {tl infl run : List Job} {log c n} (h : WFc tl infl run log c n) : run.Pairwise (fun a b => a.id ≠ b.id) :=
  (pairwise_append.1 h.nodupIdR).2.1

theorem WFc.nodupSerInfl {tl infl run : List Job} {log c n} (h : WFc tl infl run log c n) : infl.Pairwise (fun a b => a.serial ≠ b.serial) :=
  (pairwise_append.1 h.nodupSer).2.1

/-- the entry of `c.running` with a given serial is the in-flight job with that serial -/
theorem WFc.run_eq {tl infl run : List Job} {log c n} (h : WFc tl infl run log c n) {x j : Job}
    (hx : x ∈ run) (hj : j ∈ infl) (hs : x.serial = j.serial) : x = j := by
  have hxi : x ∈ infl := h.runSub.subset hx
  by_cases e : x = j
  · exact e
  · exact absurd hs (pairwise_mem_ne (fun a b hab => fun e => hab e.symm) h.nodupSerInfl x hxi j hj e)

theorem WFc.init (c n : Nat) : WFc [] [] [] [] c n := by
  constructor <;> simp

theorem WFc.mono {tl infl run tl' infl' run' : List Job} {log c n c' n'}
    (h : WFc tl infl run log c n) (h1 : tl'.Sublist tl) (h2 : infl'.Sublist infl) (h3 : run'.Sublist run)
    (h4 : run'.Sublist infl') (hc : c ≤ c') (hn : n ≤ n') :
    WFc tl' infl' run' log c' n' := by
  have h12 : (tl' ++ infl').Sublist (tl ++ infl) := Sublist.append h1 h2
  constructor
  · exact h.sorted.sublist h1
  · exact h.nodupIdR.sublist (Sublist.append h1 h3)
  · exact h.nodupSer.sublist h12
  · intro j hj; exact Nat.lt_of_lt_of_le (h.serLt j (h12.subset hj)) hn
  · intro j hj; exact h.occ j (h12.subset hj)
  · intro f hf
    obtain ⟨a, b, d, e⟩ := h.logOk f hf
    exact ⟨Nat.lt_of_lt_of_le a hn, b, Nat.le_trans d hc, e⟩
  · intro f hf j hj; exact h.link f hf j (h12.subset hj)
  · intro f hf j hj; exact h.pend f hf j (h1.subset hj)
  · exact h.logPair
  · exact h4
  · intro j hj; exact h.runRec j (h3.subset hj)

theorem WFc.insert {tl infl run : List Job} {log c n} (h : WFc tl infl run log c n) (j : Job)
    (hser : j.serial < n) (hfresh : ∀ x ∈ tl ++ infl, x.serial ≠ j.serial) (hid : ∀ x ∈ tl ++ run, x.id ≠ j.id)
    (hocc : j.period ≠ 0 → j.next % j.period = 0)
    (hlog : ∀ f ∈ log, f.serial = j.serial → j.id = f.id ∧ j.period = f.period ∧ j.period ≠ 0 ∧ f.time < j.next) :
    WFc (insertJob j tl) infl run log c n := by
  have hp : (insertJob j tl ++ infl).Perm (j :: (tl ++ infl)) := by
    simpa using (insertJob_perm j tl).append_right infl
  have hpr : (insertJob j tl ++ run).Perm (j :: (tl ++ run)) := by
    simpa using (insertJob_perm j tl).append_right run
  have hmem : ∀ x, x ∈ insertJob j tl ++ infl → x = j ∨ x ∈ tl ++ infl := by
    intro x hx; simpa using hp.mem_iff.1 hx
  constructor
  · exact insertJob_sorted j h.sorted
  · refine (hpr.pairwise_iff ?_).2 (pairwise_cons.2 ⟨?_, h.nodupIdR⟩)
    · intro a b hab; exact fun e => hab e.symm
    · intro x hx; exact fun e => hid x hx e.symm
  · refine (hp.pairwise_iff ?_).2 (pairwise_cons.2 ⟨?_, h.nodupSer⟩)
    · intro a b hab; exact fun e => hab e.symm
    · intro x hx; exact fun e => hfresh x hx e.symm
  · intro x hx; rcases hmem x hx with rfl | hx
    · exact hser
    · exact h.serLt x hx
  · intro x hx; rcases hmem x hx with rfl | hx
    · exact hocc
    · exact h.occ x hx
  · exact h.logOk
  · intro f hf x hx hs; rcases hmem x hx with rfl | hx
    · obtain ⟨a, b, _, _⟩ := hlog f hf hs.symm; exact ⟨a, b⟩
    · exact h.link f hf x hx hs
  · intro f hf x hx hs; rcases mem_insertJob.1 hx with rfl | hx
    · obtain ⟨_, _, a, b⟩ := hlog f hf hs.symm; exact ⟨a, b⟩
    · exact h.pend f hf x hx hs
  · exact h.logPair
  · exact h.runSub
  · exact h.runRec

/-! ## preservation, operation by operation -/

theorem schedule_fst_fields (s : Cron) (j : Job) (b : Bool) :
    (schedule s j b).1.inflight = s.inflight ∧ (schedule s j b).1.log = s.log ∧
    (schedule s j b).1.clock = s.clock ∧ (schedule s j b).1.serial = s.serial ∧
    (schedule s j b).1.limit = s.limit ∧ (schedule s j b).1.suspended = s.suspended ∧
    (schedule s j b).1.paused = s.paused := by
  unfold schedule; dsimp only
  by_cases hc : atLimit s b (if scheduleRemsFirst = true then remJob j.id s.tl else s.tl) = true <;> simp [hc]

theorem schedule_running (s : Cron) (j : Job) (b : Bool) : (schedule s j b).1.running = cancelRunning j.id s.running := by
  have hr : scheduleRemsFirst = true := rfl
  unfold schedule; dsimp only; simp only [hr, if_true]
  by_cases hc : atLimit s b (remJob j.id s.tl) = true <;> simp [hc]

theorem schedule_tl (s : Cron) (j : Job) (b : Bool) :
    (schedule s j b).1.tl = remJob j.id s.tl ∨ (schedule s j b).1.tl = insertJob (schedJob s.clock j) (remJob j.id s.tl) := by
  have hr : scheduleRemsFirst = true := rfl
  unfold schedule; dsimp only; simp only [hr, if_true]
  by_cases hc : atLimit s b (remJob j.id s.tl) = true
  · left; simp [hc]
  · right; simp [hc]

theorem schedule_tl_nolimit (s : Cron) (j : Job) :
    (schedule s j false).1.tl = insertJob (schedJob s.clock j) (remJob j.id s.tl) := by
  have hr : scheduleRemsFirst = true := rfl
  unfold schedule; dsimp only; simp [hr, atLimit]

theorem schedJob_id (c : Nat) (j : Job) : (schedJob c j).id = j.id ∧ (schedJob c j).serial = j.serial ∧ (schedJob c j).period = j.period := by
  unfold schedJob; split <;> simp

theorem schedJob_next (c : Nat) (j : Job) : (j.period = 0 ∧ (schedJob c j).next = j.next) ∨
    (j.period ≠ 0 ∧ (schedJob c j).next = nextOcc j.period c) := by
  unfold schedJob; split
  · left; simp_all
  · right; simp_all

/-- `schedule` keeps the invariant when the job object is not on the timeline or in flight -/
theorem WF_schedule {s : Cron} (h : WF s) (j : Job) (b : Bool)
    (hser : j.serial < s.serial) (hfresh : ∀ x ∈ s.tl ++ s.inflight, x.serial ≠ j.serial)
    (hlog : ∀ f ∈ s.log, f.serial = j.serial → j.id = f.id ∧ j.period = f.period ∧ j.period ≠ 0) :
    WF (schedule s j b).1 := by
  obtain ⟨e1, e2, e3, e4, _, _, _⟩ := schedule_fst_fields s j b
  show WFc _ _ _ _ _ _
  rw [e1, e2, e3, e4, schedule_running]
  have hsub := remJob_sublist j.id s.tl
  have hsubr := cancelRunning_sublist j.id s.running
  have h1 : WFc (remJob j.id s.tl) s.inflight (cancelRunning j.id s.running) s.log s.clock s.serial :=
    h.mono hsub (Sublist.refl _) hsubr (hsubr.trans h.runSub) (Nat.le_refl _) (Nat.le_refl _)
  obtain ⟨i1, i2, i3⟩ := schedJob_id s.clock j
  rcases schedule_tl s j b with e | e <;> rw [e]
  · exact h1
  · apply h1.insert
    · rw [i2]; exact hser
    · intro x hx; rw [i2]
      exact hfresh x ((Sublist.append hsub (Sublist.refl _)).subset hx)
    · intro x hx; rw [i1]
      rcases mem_append.1 hx with hx | hx
      · exact remJob_no_id h.nodupId x hx
      · exact cancelRunning_no_id h.nodupIdRun x hx
    · rw [i3]; intro hp
      rcases schedJob_next s.clock j with ⟨h0, _⟩ | ⟨_, hn⟩
      · exact absurd h0 hp
      · rw [hn]; exact nextOcc_mod _ _
    · intro f hf hs
      rw [i2] at hs; rw [i1, i3]
      obtain ⟨a, b', c⟩ := hlog f hf hs
      refine ⟨a, b', c, ?_⟩
      rcases schedJob_next s.clock j with ⟨h0, _⟩ | ⟨_, hn⟩
      · exact absurd h0 c
      · rw [hn]
        exact Nat.lt_of_le_of_lt (h.logOk f hf).2.2.1 (nextOcc_gt c)

theorem WF_add {s : Cron} (h : WF s) (id due period : Nat) : WF (step s (.add id due period)) := by
  simp only [step]
  apply WF_schedule
  · exact h.mono (Sublist.refl _) (Sublist.refl _) (Sublist.refl _) h.runSub (Nat.le_refl _) (Nat.le_succ _)
  · simp
  · intro x hx; exact Nat.ne_of_lt (h.serLt x hx)
  · intro f hf hs
    exact absurd hs (Nat.ne_of_lt (h.logOk f hf).1)

theorem WF_rem {s : Cron} (h : WF s) (id : Nat) : WF (step s (.rem id)) := by
  simp only [step]
  exact h.mono (remJob_sublist id s.tl) (Sublist.refl _) (cancelRunning_sublist id s.running)
    ((cancelRunning_sublist id s.running).trans h.runSub) (Nat.le_refl _) (Nat.le_refl _)

/-- the state after the timer bookkeeping of `tick` -/
def tickArm (s : Cron) : Cron :=
  match s.armed with
  | some t => if t ≤ s.clock then { s with armed := none } else s
  | none => s

theorem tickArm_fields (s : Cron) : (tickArm s).tl = s.tl ∧ (tickArm s).inflight = s.inflight ∧ (tickArm s).log = s.log ∧
    (tickArm s).clock = s.clock ∧ (tickArm s).serial = s.serial ∧ (tickArm s).suspended = s.suspended ∧
    (tickArm s).paused = s.paused ∧ (tickArm s).limit = s.limit ∧ (tickArm s).running = s.running := by
  unfold tickArm; split
  · split <;> simp
  · simp

/-- the state after a delivery that pops nothing: the timer is re-armed for the head (if there is one) -/
def tickIdle (s : Cron) : Cron :=
  match s.tl with
  | [] => tickArm s
  | _ :: _ => { tickArm s with armed := rearm s.tl }

theorem tickIdle_fields (s : Cron) : (tickIdle s).tl = s.tl ∧ (tickIdle s).inflight = s.inflight ∧ (tickIdle s).log = s.log ∧
    (tickIdle s).clock = s.clock ∧ (tickIdle s).serial = s.serial ∧ (tickIdle s).suspended = s.suspended ∧
    (tickIdle s).paused = s.paused ∧ (tickIdle s).limit = s.limit ∧ (tickIdle s).running = s.running := by
  obtain ⟨a1, a2, a3, a4, a5, a6, a7, a8, a9⟩ := tickArm_fields s
  unfold tickIdle; split
  · exact ⟨a1, a2, a3, a4, a5, a6, a7, a8, a9⟩
  · exact ⟨a1, a2, a3, a4, a5, a6, a7, a8, a9⟩

/-- `c.running` after the pop of `j` -/
def tickRun (j : Job) (r : List Job) : List Job := if popTracksRunning && j.period != 0 then j :: r else r

theorem tickRun_cases (j : Job) (r : List Job) : (j.period ≠ 0 ∧ tickRun j r = j :: r) ∨ (j.period = 0 ∧ tickRun j r = r) := by
  have hp : popTracksRunning = true := rfl
  unfold tickRun
  by_cases h : j.period = 0
  · right; simp [h]
  · left; simp [h, hp]

/-- what `tick` does, case by case -/
theorem tick_cases (s : Cron) :
    (tick s = s ∧ s.paused = true) ∨
    (tick s = tickIdle s ∧ s.paused = false ∧ (s.tl = [] ∨ ∃ j rest, s.tl = j :: rest ∧ readyTest s.clock j.next = false)) ∨
    (∃ j rest, s.paused = false ∧ s.tl = j :: rest ∧ readyTest s.clock j.next = true ∧
      tick s = { tickArm s with tl := rest, inflight := j :: s.inflight, log := fireOf j s.clock :: s.log,
                                running := tickRun j s.running, armed := rearm rest }) := by
  have hp : popDropsHead = true := rfl
  have hpr : popRearms = true := rfl
  have hta : tickRearmsAlways = true := rfl
  obtain ⟨e1, e2, e3, e4, _, _, _, _, e9⟩ := tickArm_fields s
  by_cases hpz : s.paused = true
  · left; simp [tick, hpz]
  · have hpz' : s.paused = false := by simpa using hpz
    right
    have ht : tick s = (match (tickArm s).tl with
        | [] => tickArm s
        | j :: rest =>
          if readyTest (tickArm s).clock j.next then
            let tl' := if popDropsHead then rest else j :: rest
            { tickArm s with tl := tl', inflight := j :: (tickArm s).inflight, log := fireOf j (tickArm s).clock :: (tickArm s).log,
                             running := if popTracksRunning && j.period != 0 then j :: (tickArm s).running else (tickArm s).running,
                             armed := if popRearms then rearm tl' else (tickArm s).armed }
          else if tickRearmsAlways then { tickArm s with armed := rearm (tickArm s).tl } else tickArm s) := by
      simp only [tick, hpz', tickArm]; rfl
    cases htl : s.tl with
    | nil =>
      left; refine ⟨?_, hpz', Or.inl rfl⟩
      rw [ht, e1, htl]; simp [tickIdle, htl]
    | cons j rest =>
      by_cases hr : readyTest s.clock j.next = true
      · right; refine ⟨j, rest, hpz', rfl, hr, ?_⟩
        rw [ht, e1, htl]; simp only [e4, hr, if_true, hp, hpr, e2, e3, e9, tickRun]
      · left; refine ⟨?_, hpz', Or.inr ⟨j, rest, rfl, by simpa using hr⟩⟩
        rw [ht, e1, htl]; simp only [e4, hr, hta, e1, htl]; simp [tickIdle, htl]
        exact ⟨(e1.trans htl).symm, e4.symm⟩

theorem readyTest_le {now next : Nat} (h : readyTest now next = true) : next ≤ now := by
  have h' := h
  simp [readyTest] at h' <;> omega

theorem le_readyTest {now next : Nat} (h : next ≤ now) : readyTest now next = true := by
  simp [readyTest] <;> omega

theorem WF_tick {s : Cron} (h : WF s) : WF (tick s) := by
  obtain ⟨_, _, _, e4, e5, _⟩ := tickArm_fields s
  obtain ⟨i1, i2, i3, i4, i5, _, _, _, i9⟩ := tickIdle_fields s
  rcases tick_cases s with ⟨e, _⟩ | ⟨e, _, _⟩ | ⟨j, rest, _, htl, hr, e⟩
  · rw [e]; exact h
  · rw [e]; show WFc _ _ _ _ _ _; rw [i1, i2, i3, i4, i5, i9]; exact h
  · rw [e]; show WFc rest (j :: s.inflight) (tickRun j s.running) (fireOf j s.clock :: s.log) (tickArm s).clock (tickArm s).serial
    rw [e4, e5]
    have h' : WFc (j :: rest) s.inflight s.running s.log s.clock s.serial := by have := h; unfold WF at this; rw [htl] at this; exact this
    have hle := readyTest_le hr
    have hp : (rest ++ j :: s.inflight).Perm ((j :: rest) ++ s.inflight) := by
      simp
    have hmem : ∀ x, x ∈ rest ++ j :: s.inflight → x ∈ (j :: rest) ++ s.inflight := fun x hx => hp.mem_iff.1 hx
    have hjmem : j ∈ (j :: rest) ++ s.inflight := by simp
    -- any live job with j's serial is j
    have huniq : ∀ x ∈ (j :: rest) ++ s.inflight, x.serial = j.serial → x = j := by
      intro x hx hs
      have hh := h'.nodupSer
      rw [cons_append, pairwise_cons] at hh
      rcases (by simpa using hx : x = j ∨ x ∈ rest ∨ x ∈ s.inflight) with rfl | hx | hx
      · rfl
      · exact absurd hs.symm (hh.1 x (by simp [hx]))
      · exact absurd hs.symm (hh.1 x (by simp [hx]))
    constructor
    · exact (pairwise_cons.1 h'.sorted).2
    · -- rest ++ (j :: running) is a permutation of (j :: rest) ++ running; without j it is a sublist
      rcases tickRun_cases j s.running with ⟨_, er⟩ | ⟨_, er⟩ <;> rw [er]
      · have hpr : (rest ++ j :: s.running).Perm ((j :: rest) ++ s.running) := by simp
        refine (hpr.pairwise_iff ?_).2 h'.nodupIdR
        intro a b hab; exact fun e => hab e.symm
      · exact h'.nodupIdR.sublist (by simp)
    · refine (hp.pairwise_iff ?_).2 h'.nodupSer
      intro a b hab; exact fun e => hab e.symm
    · intro x hx; exact h'.serLt x (hmem x hx)
    · intro x hx; exact h'.occ x (hmem x hx)
    · intro f hf
      rcases mem_cons.1 hf with rfl | hf
      · exact ⟨h'.serLt j hjmem, hle, Nat.le_refl _, h'.occ j hjmem⟩
      · exact h'.logOk f hf
    · intro f hf x hx hs
      rcases mem_cons.1 hf with rfl | hf
      · have := huniq x (hmem x hx) hs; subst this; exact ⟨rfl, rfl⟩
      · exact h'.link f hf x (hmem x hx) hs
    · intro f hf x hx hs
      rcases mem_cons.1 hf with rfl | hf
      · have := huniq x (by simp [hx]) hs; subst this
        have hh := h'.nodupSer
        rw [cons_append, pairwise_cons] at hh
        exact absurd rfl (hh.1 x (by simp [hx]))
      · exact h'.pend f hf x (by simp [hx]) hs
    · refine pairwise_cons.2 ⟨?_, h'.logPair⟩
      intro f hf hs
      obtain ⟨a, b⟩ := h'.link f hf j hjmem hs
      obtain ⟨c, d⟩ := h'.pend f hf j (by simp) hs
      exact ⟨a, b, c, d⟩
    · rcases tickRun_cases j s.running with ⟨_, er⟩ | ⟨_, er⟩ <;> rw [er]
      · exact h'.runSub.cons_cons j
      · exact h'.runSub.cons j
    · rcases tickRun_cases j s.running with ⟨hp0, er⟩ | ⟨_, er⟩ <;> rw [er]
      · intro x hx
        rcases mem_cons.1 hx with rfl | hx
        · exact hp0
        · exact h'.runRec x hx
      · exact h'.runRec

/-- once the (unique) in-flight job with serial `k` is erased no job with that serial is left -/
theorem eraseP_serial_gone {l : List Job} {k : Nat} (hinf : l.Pairwise (fun a b => a.serial ≠ b.serial)) :
    ∀ x ∈ l.eraseP (fun j => j.serial == k), x.serial ≠ k := by
  induction l with
  | nil => simp
  | cons y ys ih =>
    have hy := pairwise_cons.1 hinf
    intro x hx
    by_cases hyk : y.serial = k
    · have e : (y :: ys).eraseP (fun j => j.serial == k) = ys := by simp [hyk]
      rw [e] at hx
      intro hxk
      exact hy.1 x hx (by omega)
    · have e : (y :: ys).eraseP (fun j => j.serial == k) = y :: ys.eraseP (fun j => j.serial == k) := by
        simp [hyk]
      rw [e] at hx
      rcases mem_cons.1 hx with rfl | hx
      · exact hyk
      · exact ih hy.2 x hx

/-- what `reschedule` does, case by case -/
theorem reschedule_cases (s : Cron) (j : Job) :
    (reschedule s j = s ∧ ∀ x ∈ s.running, x.serial ≠ j.serial) ∨
    ((∃ x ∈ s.running, x.serial = j.serial) ∧
      reschedule s j = { s with running := s.running.eraseP (fun x => x.serial == j.serial), tl := insertJob (schedJob s.clock j) s.tl,
                                armed := rearm (insertJob (schedJob s.clock j) s.tl) }) := by
  have hi : insertRearms = true := rfl
  unfold reschedule
  by_cases ha : s.running.any (fun x => x.serial == j.serial) = true
  · right
    refine ⟨?_, by simp [ha, hi]⟩
    obtain ⟨x, hx, hxs⟩ := any_eq_true.1 ha
    exact ⟨x, hx, by simpa using hxs⟩
  · left
    refine ⟨by simp [ha], ?_⟩
    intro x hx hxs
    exact ha (any_eq_true.2 ⟨x, hx, by simpa using hxs⟩)

theorem reschedule_fields (s : Cron) (j : Job) :
    (reschedule s j).inflight = s.inflight ∧ (reschedule s j).log = s.log ∧ (reschedule s j).clock = s.clock ∧
    (reschedule s j).serial = s.serial ∧ (reschedule s j).limit = s.limit ∧ (reschedule s j).suspended = s.suspended ∧
    (reschedule s j).paused = s.paused := by
  rcases reschedule_cases s j with ⟨e, _⟩ | ⟨_, e⟩ <;> rw [e] <;> simp

/-- what `done` does, case by case -/
theorem done_cases (s : Cron) (k : Nat) :
    (done s k = s ∧ ∀ j ∈ s.inflight, j.serial ≠ k) ∨
    ∃ j, j ∈ s.inflight ∧ j.serial = k ∧
      ((j.period = 0 ∧ done s k = { s with inflight := s.inflight.eraseP (fun j => j.serial == k) }) ∨
       (j.period ≠ 0 ∧ done s k = reschedule { s with inflight := s.inflight.eraseP (fun j => j.serial == k) } j)) := by
  have hro : rescheduleOnce = false := rfl
  have hrr : rescheduleRecurring = true := rfl
  have hrv : rescheduleViaRunning = true := rfl
  unfold done
  split
  · rename_i hnone
    left; refine ⟨rfl, ?_⟩
    intro j hj
    have := find?_eq_none.1 hnone j hj
    simpa using this
  · rename_i j hfind
    right
    refine ⟨j, mem_of_find?_eq_some hfind, by simpa using find?_some hfind, ?_⟩
    by_cases hp : j.period = 0
    · left; refine ⟨hp, ?_⟩; simp [hp, hro]
    · right; refine ⟨hp, ?_⟩; simp [hp, hrr, hrv]

theorem WF_done {s : Cron} (h : WF s) (k : Nat) : WF (done s k) := by
  rcases done_cases s k with ⟨e, _⟩ | ⟨j, hjmem, hjser, ⟨hp, e⟩ | ⟨hp, e⟩⟩
  · rw [e]; exact h
  all_goals
    have hsub : (s.inflight.eraseP (fun j => j.serial == k)).Sublist s.inflight := eraseP_sublist
    -- no live job with serial k is left once j is erased
    have hgone : ∀ x ∈ s.tl ++ s.inflight.eraseP (fun j => j.serial == k), x.serial ≠ j.serial := by
      intro x hx hs
      have hns := h.nodupSer
      rcases mem_append.1 hx with hx | hx
      · exact (pairwise_append.1 hns).2.2 x hx j hjmem hs
      · rw [hjser] at hs
        exact eraseP_serial_gone h.nodupSerInfl x hx hs
  · -- a one-shot: it is not in `running`, which therefore stays inside the in-flight jobs
    rw [e]
    refine h.mono (Sublist.refl _) hsub (Sublist.refl _) ?_ (Nat.le_refl _) (Nat.le_refl _)
    apply sublist_eraseP_of_forall_not h.runSub
    intro x hx hxs
    have hxs' : x.serial = j.serial := by rw [hjser]; simpa using hxs
    have := h.run_eq hx hjmem hxs'
    subst this
    exact h.runRec x hx hp
  · rw [e]
    rcases reschedule_cases { s with inflight := s.inflight.eraseP (fun j => j.serial == k) } j with ⟨e2, hno⟩ | ⟨⟨x, hx, hxs⟩, e2⟩
    · -- removed or replaced while `Fn` ran: dropped
      rw [e2]
      refine h.mono (Sublist.refl _) hsub (Sublist.refl _) ?_ (Nat.le_refl _) (Nat.le_refl _)
      apply sublist_eraseP_of_forall_not h.runSub
      intro x hx hxs
      exact hno x hx (by rw [hjser]; simpa using hxs)
    · rw [e2]
      have hx' : x ∈ s.running := hx
      have hxj : x = j := h.run_eq hx' hjmem hxs
      subst hxj
      have hsubr : (s.running.eraseP (fun y => y.serial == x.serial)).Sublist s.running := eraseP_sublist
      have hrunser : s.running.Pairwise (fun a b => a.serial ≠ b.serial) := h.nodupSerInfl.sublist h.runSub
      have h1 : WFc s.tl (s.inflight.eraseP (fun j => j.serial == k)) (s.running.eraseP (fun y => y.serial == x.serial)) s.log s.clock s.serial := by
        refine h.mono (Sublist.refl _) hsub hsubr ?_ (Nat.le_refl _) (Nat.le_refl _)
        rw [hjser]; exact h.runSub.eraseP
      obtain ⟨i1, i2, i3⟩ := schedJob_id s.clock x
      show WFc (insertJob (schedJob s.clock x) s.tl) _ _ _ _ _
      apply h1.insert
      · rw [i2]; exact h.serLt x (by simp [hjmem])
      · intro y hy; rw [i2]; exact hgone y hy
      · intro y hy; rw [i1]
        rcases mem_append.1 hy with hy | hy
        · exact (pairwise_append.1 h.nodupIdR).2.2 y hy x hx'
        · have hys : y.serial ≠ x.serial := eraseP_serial_gone hrunser y hy
          have hyne : y ≠ x := fun e => hys (by rw [e])
          exact pairwise_mem_ne (fun a b hab => fun e => hab e.symm) h.nodupIdRun y (hsubr.subset hy) x hx' hyne
      · rw [i3]; intro hp'
        rcases schedJob_next s.clock x with ⟨h0, _⟩ | ⟨_, hn⟩
        · exact absurd h0 hp'
        · rw [hn]; exact nextOcc_mod _ _
      · intro f hf hs
        rw [i2] at hs; rw [i1, i3]
        obtain ⟨a, b⟩ := h.link f hf x (by simp [hjmem]) hs.symm
        refine ⟨a, b, hp, ?_⟩
        rcases schedJob_next s.clock x with ⟨h0, _⟩ | ⟨_, hn⟩
        · exact absurd h0 hp
        · rw [hn]
          exact Nat.lt_of_le_of_lt (h.logOk f hf).2.2.1 (nextOcc_gt hp)

theorem WF_step {s : Cron} (h : WF s) (op : Op) : WF (step s op) := by
  cases op with
  | advance d => exact h.mono (Sublist.refl _) (Sublist.refl _) (Sublist.refl _) h.runSub (Nat.le_add_right _ _) (Nat.le_refl _)
  | add id due period => exact WF_add h id due period
  | rem id => exact WF_rem h id
  | tick => exact WF_tick h
  | done k => exact WF_done h k
  | suspend => exact h
  | resume => simp only [step]; split <;> exact h
  | pauseBegin => exact h
  | pauseEnd => simp only [step]; split <;> exact h

theorem WF_run {s : Cron} (h : WF s) (ops : List Op) : WF (run s ops) := by
  induction ops generalizing s with
  | nil => exact h
  | cons op ops ih => exact ih (WF_step h op)

theorem WF_init (limit : Nat) : WF (init limit) := WFc.init _ _

end CronM

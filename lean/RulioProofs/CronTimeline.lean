import RulioModel.CronTimeline

/-! Helper lemmas for C16 (in-memory cron): the invariant `WFc` and its preservation by every operation. -/

namespace CronM
open C16Gen List

/-! ## list primitives -/

theorem insertJob_perm (j : Job) (l : List Job) : (insertJob j l).Perm (j :: l) := by
  induction l with
  | nil => simp [insertJob]
  | cons x xs ih =>
    simp only [insertJob]
    split
    · exact Perm.refl _
    · exact (Perm.cons x ih).trans (Perm.swap j x xs)

theorem mem_insertJob {j x : Job} {l : List Job} : x ∈ insertJob j l ↔ x = j ∨ x ∈ l := by
  rw [(insertJob_perm j l).mem_iff]; simp

theorem insertJob_sorted (j : Job) {l : List Job} (h : l.Pairwise (fun a b => a.next ≤ b.next)) :
    (insertJob j l).Pairwise (fun a b => a.next ≤ b.next) := by
  induction l with
  | nil => simp [insertJob]
  | cons x xs ih =>
    simp only [insertJob]
    have hx := (pairwise_cons.1 h)
    split
    · rename_i ht
      -- any test that implies `j.next ≤ x.next` when true and `x.next ≤ j.next` when false keeps the order
      have hlt : j.next ≤ x.next := by
        have h' := ht
        simp [searchTest] at h' <;> omega
      refine pairwise_cons.2 ⟨?_, h⟩
      intro y hy
      rcases mem_cons.1 hy with rfl | hy
      · exact hlt
      · exact Nat.le_trans hlt (hx.1 y hy)
    · rename_i ht
      have hge : x.next ≤ j.next := by
        have h' := ht
        simp [searchTest] at h' <;> omega
      refine pairwise_cons.2 ⟨?_, ih hx.2⟩
      intro y hy
      rcases mem_insertJob.1 hy with rfl | hy
      · exact hge
      · exact hx.1 y hy

theorem remJob_sublist (id : Nat) (l : List Job) : (remJob id l).Sublist l := by
  unfold remJob; split
  · exact eraseP_sublist
  · exact Sublist.refl _

/-- after `rem`, no entry with that id is left, provided ids were unique -/
theorem remJob_no_id {id : Nat} {l : List Job} (h : l.Pairwise (fun a b => a.id ≠ b.id)) :
    ∀ x ∈ remJob id l, x.id ≠ id := by
  have hr : remErases = true := rfl
  simp only [remJob, hr, if_true]
  induction l with
  | nil => simp
  | cons y ys ih =>
    have hy := pairwise_cons.1 h
    intro x hx
    by_cases hyi : y.id = id
    · have : (y :: ys).eraseP (fun j => j.id == id) = ys := by simp [hyi]
      rw [this] at hx
      intro hxi
      exact hy.1 x hx (by omega)
    · have : (y :: ys).eraseP (fun j => j.id == id) = y :: ys.eraseP (fun j => j.id == id) := by
        simp [hyi]
      rw [this] at hx
      rcases mem_cons.1 hx with rfl | hx
      · exact hyi
      · exact ih hy.2 x hx

theorem nextOcc_gt {p now : Nat} (hp : p ≠ 0) : now < nextOcc p now := by
  unfold nextOcc
  have hp' : 0 < p := Nat.pos_of_ne_zero hp
  have h1 := Nat.div_add_mod now p
  have h2 := Nat.mod_lt now hp'
  rw [Nat.add_mul, Nat.one_mul, Nat.mul_comm]
  omega

theorem nextOcc_mod (p now : Nat) : nextOcc p now % p = 0 := by
  unfold nextOcc; exact Nat.mul_mod_left _ _

/-! ## the invariant -/

/-- the invariant of the cron state machine, on the components it talks about -/
structure WFc (tl infl : List Job) (log : List Fire) (clock serial : Nat) : Prop where
  /-- the timeline is sorted by `Next` -/
  sorted : tl.Pairwise (fun a b => a.next ≤ b.next)
  /-- at most one pending entry per id -/
  nodupId : tl.Pairwise (fun a b => a.id ≠ b.id)
  /-- a job object is pending or in flight, never both, never twice -/
  nodupSer : (tl ++ infl).Pairwise (fun a b => a.serial ≠ b.serial)
  serLt : ∀ j ∈ tl ++ infl, j.serial < serial
  occ : ∀ j ∈ tl ++ infl, j.period ≠ 0 → j.next % j.period = 0
  logOk : ∀ f ∈ log, f.serial < serial ∧ f.due ≤ f.time ∧ f.time ≤ clock ∧ (f.period ≠ 0 → f.due % f.period = 0)
  link : ∀ f ∈ log, ∀ j ∈ tl ++ infl, j.serial = f.serial → j.id = f.id ∧ j.period = f.period
  /-- a pending job that already fired is recurring and waits for a strictly later occurrence -/
  pend : ∀ f ∈ log, ∀ j ∈ tl, j.serial = f.serial → j.period ≠ 0 ∧ f.time < j.next
  /-- the log is in reverse chronological order: a later fire of the same job object is a recurring one, for a later occurrence -/
  logPair : log.Pairwise (fun f' f => f'.serial = f.serial →
    f'.id = f.id ∧ f'.period = f.period ∧ f'.period ≠ 0 ∧ f.time < f'.due)

abbrev WF (s : Cron) : Prop := WFc s.tl s.inflight s.log s.clock s.serial

theorem WFc.init (c n : Nat) : WFc [] [] [] c n := by
  constructor <;> simp

theorem WFc.mono {tl infl tl' infl' : List Job} {log c n c' n'}
    (h : WFc tl infl log c n) (h1 : tl'.Sublist tl) (h2 : infl'.Sublist infl) (hc : c ≤ c') (hn : n ≤ n') :
    WFc tl' infl' log c' n' := by
  have h12 : (tl' ++ infl').Sublist (tl ++ infl) := Sublist.append h1 h2
  constructor
  · exact h.sorted.sublist h1
  · exact h.nodupId.sublist h1
  · exact h.nodupSer.sublist h12
  · intro j hj; exact Nat.lt_of_lt_of_le (h.serLt j (h12.subset hj)) hn
  · intro j hj; exact h.occ j (h12.subset hj)
  · intro f hf
    obtain ⟨a, b, d, e⟩ := h.logOk f hf
    exact ⟨Nat.lt_of_lt_of_le a hn, b, Nat.le_trans d hc, e⟩
  · intro f hf j hj; exact h.link f hf j (h12.subset hj)
  · intro f hf j hj; exact h.pend f hf j (h1.subset hj)
  · exact h.logPair

theorem WFc.insert {tl infl : List Job} {log c n} (h : WFc tl infl log c n) (j : Job)
    (hser : j.serial < n) (hfresh : ∀ x ∈ tl ++ infl, x.serial ≠ j.serial) (hid : ∀ x ∈ tl, x.id ≠ j.id)
    (hocc : j.period ≠ 0 → j.next % j.period = 0)
    (hlog : ∀ f ∈ log, f.serial = j.serial → j.id = f.id ∧ j.period = f.period ∧ j.period ≠ 0 ∧ f.time < j.next) :
    WFc (insertJob j tl) infl log c n := by
  have hp : (insertJob j tl ++ infl).Perm (j :: (tl ++ infl)) := by
    simpa using (insertJob_perm j tl).append_right infl
  have hmem : ∀ x, x ∈ insertJob j tl ++ infl → x = j ∨ x ∈ tl ++ infl := by
    intro x hx; simpa using hp.mem_iff.1 hx
  constructor
  · exact insertJob_sorted j h.sorted
  · refine ((insertJob_perm j tl).pairwise_iff ?_).2 (pairwise_cons.2 ⟨?_, h.nodupId⟩)
    · intro a b hab; exact fun e => hab e.symm
    · intro x hx; exact fun e => hid x hx e.symm
  · refine (hp.pairwise_iff ?_).2 (pairwise_cons.2 ⟨?_, h.nodupSer⟩)
    · intro a b hab; exact fun e => hab e.symm
    · intro x hx; exact fun e => hfresh x hx e.symm
  · intro x hx; rcases hmem x hx with rfl | hx
    · exact hser
    · exact h.serLt x hx
  · intro x hx; rcases hmem x hx with rfl | hx
    · exact hocc
    · exact h.occ x hx
  · exact h.logOk
  · intro f hf x hx hs; rcases hmem x hx with rfl | hx
    · obtain ⟨a, b, _, _⟩ := hlog f hf hs.symm; exact ⟨a, b⟩
    · exact h.link f hf x hx hs
  · intro f hf x hx hs; rcases mem_insertJob.1 hx with rfl | hx
    · obtain ⟨_, _, a, b⟩ := hlog f hf hs.symm; exact ⟨a, b⟩
    · exact h.pend f hf x hx hs
  · exact h.logPair

/-! ## preservation, operation by operation -/

theorem schedule_fst_fields (s : Cron) (j : Job) (b : Bool) :
    (schedule s j b).1.inflight = s.inflight ∧ (schedule s j b).1.log = s.log ∧
    (schedule s j b).1.clock = s.clock ∧ (schedule s j b).1.serial = s.serial ∧
    (schedule s j b).1.limit = s.limit ∧ (schedule s j b).1.suspended = s.suspended ∧
    (schedule s j b).1.paused = s.paused := by
  unfold schedule; dsimp only
  by_cases hc : atLimit s b (if scheduleRemsFirst = true then remJob j.id s.tl else s.tl) = true <;> simp [hc]

theorem schedule_tl (s : Cron) (j : Job) (b : Bool) :
    (schedule s j b).1.tl = remJob j.id s.tl ∨ (schedule s j b).1.tl = insertJob (schedJob s.clock j) (remJob j.id s.tl) := by
  have hr : scheduleRemsFirst = true := rfl
  unfold schedule; dsimp only; simp only [hr, if_true]
  by_cases hc : atLimit s b (remJob j.id s.tl) = true
  · left; simp [hc]
  · right; simp [hc]

theorem schedule_tl_nolimit (s : Cron) (j : Job) :
    (schedule s j false).1.tl = insertJob (schedJob s.clock j) (remJob j.id s.tl) := by
  have hr : scheduleRemsFirst = true := rfl
  unfold schedule; dsimp only; simp [hr, atLimit]

theorem schedJob_id (c : Nat) (j : Job) : (schedJob c j).id = j.id ∧ (schedJob c j).serial = j.serial ∧ (schedJob c j).period = j.period := by
  unfold schedJob; split <;> simp

theorem schedJob_next (c : Nat) (j : Job) : (j.period = 0 ∧ (schedJob c j).next = j.next) ∨
    (j.period ≠ 0 ∧ (schedJob c j).next = nextOcc j.period c) := by
  unfold schedJob; split
  · left; simp_all
  · right; simp_all

/-- `schedule` keeps the invariant when the job object is not on the timeline or in flight -/
theorem WF_schedule {s : Cron} (h : WF s) (j : Job) (b : Bool)
    (hser : j.serial < s.serial) (hfresh : ∀ x ∈ s.tl ++ s.inflight, x.serial ≠ j.serial)
    (hlog : ∀ f ∈ s.log, f.serial = j.serial → j.id = f.id ∧ j.period = f.period ∧ j.period ≠ 0) :
    WF (schedule s j b).1 := by
  obtain ⟨e1, e2, e3, e4, _, _, _⟩ := schedule_fst_fields s j b
  show WFc _ _ _ _ _
  rw [e1, e2, e3, e4]
  have hsub := remJob_sublist j.id s.tl
  have h1 : WFc (remJob j.id s.tl) s.inflight s.log s.clock s.serial :=
    h.mono hsub (Sublist.refl _) (Nat.le_refl _) (Nat.le_refl _)
  obtain ⟨i1, i2, i3⟩ := schedJob_id s.clock j
  rcases schedule_tl s j b with e | e <;> rw [e]
  · exact h1
  · apply h1.insert
    · rw [i2]; exact hser
    · intro x hx; rw [i2]
      exact hfresh x ((Sublist.append hsub (Sublist.refl _)).subset hx)
    · intro x hx; rw [i1]; exact remJob_no_id h.nodupId x hx
    · rw [i3]; intro hp
      rcases schedJob_next s.clock j with ⟨h0, _⟩ | ⟨_, hn⟩
      · exact absurd h0 hp
      · rw [hn]; exact nextOcc_mod _ _
    · intro f hf hs
      rw [i2] at hs; rw [i1, i3]
      obtain ⟨a, b', c⟩ := hlog f hf hs
      refine ⟨a, b', c, ?_⟩
      rcases schedJob_next s.clock j with ⟨h0, _⟩ | ⟨_, hn⟩
      · exact absurd h0 c
      · rw [hn]
        exact Nat.lt_of_le_of_lt (h.logOk f hf).2.2.1 (nextOcc_gt c)

theorem WF_add {s : Cron} (h : WF s) (id due period : Nat) : WF (step s (.add id due period)) := by
  simp only [step]
  apply WF_schedule
  · exact h.mono (Sublist.refl _) (Sublist.refl _) (Nat.le_refl _) (Nat.le_succ _)
  · simp
  · intro x hx; exact Nat.ne_of_lt (h.serLt x hx)
  · intro f hf hs
    exact absurd hs (Nat.ne_of_lt (h.logOk f hf).1)

theorem WF_rem {s : Cron} (h : WF s) (id : Nat) : WF (step s (.rem id)) := by
  simp only [step]
  exact h.mono (remJob_sublist id s.tl) (Sublist.refl _) (Nat.le_refl _) (Nat.le_refl _)

/-- the state after the timer bookkeeping of `tick` -/
def tickArm (s : Cron) : Cron :=
  match s.armed with
  | some t => if t ≤ s.clock then { s with armed := none } else s
  | none => s

theorem tickArm_fields (s : Cron) : (tickArm s).tl = s.tl ∧ (tickArm s).inflight = s.inflight ∧ (tickArm s).log = s.log ∧
    (tickArm s).clock = s.clock ∧ (tickArm s).serial = s.serial ∧ (tickArm s).suspended = s.suspended ∧
    (tickArm s).paused = s.paused ∧ (tickArm s).limit = s.limit := by
  unfold tickArm; split
  · split <;> simp
  · simp

/-- what `tick` does, case by case -/
theorem tick_cases (s : Cron) :
    (tick s = s ∧ s.paused = true) ∨
    (tick s = tickArm s ∧ s.paused = false ∧ (s.tl = [] ∨ ∃ j rest, s.tl = j :: rest ∧ readyTest s.clock j.next = false)) ∨
    (∃ j rest, s.paused = false ∧ s.tl = j :: rest ∧ readyTest s.clock j.next = true ∧
      tick s = { tickArm s with tl := rest, inflight := j :: s.inflight, log := fireOf j s.clock :: s.log, armed := rearm rest }) := by
  have hp : popDropsHead = true := rfl
  obtain ⟨e1, e2, e3, e4, _⟩ := tickArm_fields s
  by_cases hpz : s.paused = true
  · left; simp [tick, hpz]
  · have hpz' : s.paused = false := by simpa using hpz
    right
    have ht : tick s = (match (tickArm s).tl with
        | [] => tickArm s
        | j :: rest =>
          if readyTest (tickArm s).clock j.next then
            let tl' := if popDropsHead then rest else j :: rest
            { tickArm s with tl := tl', inflight := j :: (tickArm s).inflight, log := fireOf j (tickArm s).clock :: (tickArm s).log, armed := rearm tl' }
          else tickArm s) := by
      simp only [tick, hpz', tickArm]; rfl
    cases htl : s.tl with
    | nil =>
      left; refine ⟨?_, hpz', Or.inl rfl⟩
      rw [ht, e1, htl]
    | cons j rest =>
      by_cases hr : readyTest s.clock j.next = true
      · right; refine ⟨j, rest, hpz', rfl, hr, ?_⟩
        rw [ht, e1, htl]; simp only [e4, hr, if_true, hp, e2, e3]
      · left; refine ⟨?_, hpz', Or.inr ⟨j, rest, rfl, by simpa using hr⟩⟩
        rw [ht, e1, htl]; simp only [e4, hr]; simp

theorem readyTest_le {now next : Nat} (h : readyTest now next = true) : next ≤ now := by
  have h' := h
  simp [readyTest] at h' <;> omega

theorem le_readyTest {now next : Nat} (h : next ≤ now) : readyTest now next = true := by
  simp [readyTest] <;> omega

theorem WF_tick {s : Cron} (h : WF s) : WF (tick s) := by
  obtain ⟨e1, e2, e3, e4, e5, _⟩ := tickArm_fields s
  rcases tick_cases s with ⟨e, _⟩ | ⟨e, _, _⟩ | ⟨j, rest, _, htl, hr, e⟩
  · rw [e]; exact h
  · rw [e]; show WFc _ _ _ _ _; rw [e1, e2, e3, e4, e5]; exact h
  · rw [e]; show WFc rest (j :: s.inflight) (fireOf j s.clock :: s.log) (tickArm s).clock (tickArm s).serial
    rw [e4, e5]
    have h' : WFc (j :: rest) s.inflight s.log s.clock s.serial := by have := h; unfold WF at this; rw [htl] at this; exact this
    have hle := readyTest_le hr
    have hp : (rest ++ j :: s.inflight).Perm ((j :: rest) ++ s.inflight) := by
      simp
    have hmem : ∀ x, x ∈ rest ++ j :: s.inflight → x ∈ (j :: rest) ++ s.inflight := fun x hx => hp.mem_iff.1 hx
    have hjmem : j ∈ (j :: rest) ++ s.inflight := by simp
    -- any live job with j's serial is j
    have huniq : ∀ x ∈ (j :: rest) ++ s.inflight, x.serial = j.serial → x = j := by
      intro x hx hs
      have hh := h'.nodupSer
      rw [cons_append, pairwise_cons] at hh
      rcases (by simpa using hx : x = j ∨ x ∈ rest ∨ x ∈ s.inflight) with rfl | hx | hx
      · rfl
      · exact absurd hs.symm (hh.1 x (by simp [hx]))
      · exact absurd hs.symm (hh.1 x (by simp [hx]))
    constructor
    · exact (pairwise_cons.1 h'.sorted).2
    · exact (pairwise_cons.1 h'.nodupId).2
    · refine (hp.pairwise_iff ?_).2 h'.nodupSer
      intro a b hab; exact fun e => hab e.symm
    · intro x hx; exact h'.serLt x (hmem x hx)
    · intro x hx; exact h'.occ x (hmem x hx)
    · intro f hf
      rcases mem_cons.1 hf with rfl | hf
      · exact ⟨h'.serLt j hjmem, hle, Nat.le_refl _, h'.occ j hjmem⟩
      · exact h'.logOk f hf
    · intro f hf x hx hs
      rcases mem_cons.1 hf with rfl | hf
      · have := huniq x (hmem x hx) hs; subst this; exact ⟨rfl, rfl⟩
      · exact h'.link f hf x (hmem x hx) hs
    · intro f hf x hx hs
      rcases mem_cons.1 hf with rfl | hf
      · have := huniq x (by simp [hx]) hs; subst this
        have hh := h'.nodupSer
        rw [cons_append, pairwise_cons] at hh
        exact absurd rfl (hh.1 x (by simp [hx]))
      · exact h'.pend f hf x (by simp [hx]) hs
    · refine pairwise_cons.2 ⟨?_, h'.logPair⟩
      intro f hf hs
      obtain ⟨a, b⟩ := h'.link f hf j hjmem hs
      obtain ⟨c, d⟩ := h'.pend f hf j (by simp) hs
      exact ⟨a, b, c, d⟩

/-- once the (unique) in-flight job with serial `k` is erased no job with that serial is left -/
theorem eraseP_serial_gone {l : List Job} {k : Nat} (hinf : l.Pairwise (fun a b => a.serial ≠ b.serial)) :
    ∀ x ∈ l.eraseP (fun j => j.serial == k), x.serial ≠ k := by
  induction l with
  | nil => simp
  | cons y ys ih =>
    have hy := pairwise_cons.1 hinf
    intro x hx
    by_cases hyk : y.serial = k
    · have e : (y :: ys).eraseP (fun j => j.serial == k) = ys := by simp [hyk]
      rw [e] at hx
      intro hxk
      exact hy.1 x hx (by omega)
    · have e : (y :: ys).eraseP (fun j => j.serial == k) = y :: ys.eraseP (fun j => j.serial == k) := by
        simp [hyk]
      rw [e] at hx
      rcases mem_cons.1 hx with rfl | hx
      · exact hyk
      · exact ih hy.2 x hx

theorem WF_done {s : Cron} (h : WF s) (k : Nat) : WF (done s k) := by
  have hro : rescheduleOnce = false := rfl
  have hrr : rescheduleRecurring = true := rfl
  unfold done
  split
  · exact h
  · rename_i j hfind
    have hjmem : j ∈ s.inflight := mem_of_find?_eq_some hfind
    have hjser : j.serial = k := by simpa using find?_some hfind
    have hsub : (s.inflight.eraseP (fun j => j.serial == k)).Sublist s.inflight := eraseP_sublist
    have h1 : WFc s.tl (s.inflight.eraseP (fun j => j.serial == k)) s.log s.clock s.serial :=
      h.mono (Sublist.refl _) hsub (Nat.le_refl _) (Nat.le_refl _)
    -- no live job with serial k is left once j is erased
    have hgone : ∀ x ∈ s.tl ++ s.inflight.eraseP (fun j => j.serial == k), x.serial ≠ j.serial := by
      intro x hx hs
      have hns := h.nodupSer
      rcases mem_append.1 hx with hx | hx
      · -- x in tl, j in inflight
        have := (pairwise_append.1 hns).2.2 x hx j hjmem
        exact this hs
      · have hinf : s.inflight.Pairwise (fun a b => a.serial ≠ b.serial) := (pairwise_append.1 hns).2.1
        -- x survives the erase of the first element with serial k; by uniqueness x ≠ that element
        rw [hjser] at hs
        exact eraseP_serial_gone hinf x hx hs
    by_cases hp : j.period = 0
    · simp only [hp, if_true, hro]
      exact h1
    · simp only [hp, if_false, hrr, if_true]
      exact WF_schedule (s := { s with inflight := s.inflight.eraseP (fun j => j.serial == k) }) h1 j false
        (h.serLt j (by simp [hjmem])) hgone
        (by
          intro f hf hs
          obtain ⟨a, b⟩ := h.link f hf j (by simp [hjmem]) hs.symm
          exact ⟨a, b, hp⟩)

/-- what `done` does, case by case -/
theorem done_cases (s : Cron) (k : Nat) :
    (done s k = s ∧ ∀ j ∈ s.inflight, j.serial ≠ k) ∨
    ∃ j, j ∈ s.inflight ∧ j.serial = k ∧
      ((j.period = 0 ∧ done s k = { s with inflight := s.inflight.eraseP (fun j => j.serial == k) }) ∨
       (j.period ≠ 0 ∧ done s k = (schedule { s with inflight := s.inflight.eraseP (fun j => j.serial == k) } j false).1)) := by
  have hro : rescheduleOnce = false := rfl
  have hrr : rescheduleRecurring = true := rfl
  unfold done
  split
  · rename_i hnone
    left; refine ⟨rfl, ?_⟩
    intro j hj
    have := find?_eq_none.1 hnone j hj
    simpa using this
  · rename_i j hfind
    right
    refine ⟨j, mem_of_find?_eq_some hfind, by simpa using find?_some hfind, ?_⟩
    by_cases hp : j.period = 0
    · left; refine ⟨hp, ?_⟩; simp [hp, hro]
    · right; refine ⟨hp, ?_⟩; simp [hp, hrr]

theorem WF_step {s : Cron} (h : WF s) (op : Op) : WF (step s op) := by
  cases op with
  | advance d => exact h.mono (Sublist.refl _) (Sublist.refl _) (Nat.le_add_right _ _) (Nat.le_refl _)
  | add id due period => exact WF_add h id due period
  | rem id => exact WF_rem h id
  | tick => exact WF_tick h
  | done k => exact WF_done h k
  | suspend => exact h
  | resume => simp only [step]; split <;> exact h
  | pauseBegin => exact h
  | pauseEnd => simp only [step]; split <;> exact h

theorem WF_run {s : Cron} (h : WF s) (ops : List Op) : WF (run s ops) := by
  induction ops generalizing s with
  | nil => exact h
  | cons op ops ih => exact ih (WF_step h op)

theorem WF_init (limit : Nat) : WF (init limit) := WFc.init _ _

end CronM

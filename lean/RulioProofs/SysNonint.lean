import RulioProofs.SysLoop

open AM

set_option linter.unusedSimpArgs false
set_option linter.unusedVariables false

/-! # Noninterference: the ancestor walk from `n` reads and writes only a parent-closed set of locations -/

/-! ## shrinking computations -/

namespace LM

theorem Shr.pure {α} (a : α) : (LM.pure a).Shr := fun l => ⟨rfl, rfl, Shrinks.refl _⟩
theorem Shr.pure' {α} (a : α) : (Pure.pure a : LM α).Shr := fun l => ⟨rfl, rfl, Shrinks.refl _⟩
theorem Shr.fail {α} (e : LErr) : (LM.fail e : LM α).Shr := fun l => ⟨rfl, rfl, Shrinks.refl _⟩
theorem Shr.get : LM.get.Shr := fun l => ⟨rfl, rfl, Shrinks.refl _⟩
theorem Shr.liftSt {α} {f : St → St × Except LErr α} (hf : ∀ s, Shrinks s (f s).1) : (LM.liftSt f).Shr :=
  fun l => ⟨rfl, rfl, hf l.st⟩

theorem Shr.bind {α β} {m : LM α} {f : α → LM β} (hm : m.Shr) (hf : ∀ a, (f a).Shr) : (LM.bind m f).Shr := by
  intro l
  unfold LM.bind
  have h1 := hm l
  cases hml : m l with
  | mk l1 r =>
    rw [hml] at h1
    cases r with
    | error e => exact h1
    | ok a =>
      have h2 := hf a l1
      exact ⟨h2.1.trans h1.1, h2.2.1.trans h1.2.1, h1.2.2.trans h2.2.2⟩

theorem Shr.bind' {α β} {m : LM α} {f : α → LM β} (hm : m.Shr) (hf : ∀ a, (f a).Shr) : (m >>= f).Shr :=
  Shr.bind hm hf

theorem Shr.attempt {α} {m : LM α} (hm : m.Shr) : (LM.attempt m).Shr := by
  intro l; unfold LM.attempt; exact hm l

theorem Shr.keepsId {α} {m : LM α} (h : m.Shr) : m.KeepsId := fun l => ⟨(h l).1, (h l).2.1⟩

end LM

theorem stGet_shr (id : String) (now : Int) : (stGet id now).Shr := LM.Shr.liftSt (fun s => St.get_shrinks s id now)
theorem stSearch_shr (p : Obj) (now : Int) : (stSearch p now).Shr := LM.Shr.liftSt (fun s => St.search_shrinks s p now)
theorem stFindRules_shr (p : Obj) (now : Int) : (stFindRules p now).Shr :=
  LM.Shr.liftSt (fun s => St.findRules_shrinks s p now)

macro "shr_tac" : tactic => `(tactic|
  repeat (with_reducible first
    | exact LM.Shr.pure' _
    | exact LM.Shr.pure _
    | exact LM.Shr.fail _
    | exact LM.Shr.get
    | exact stGet_shr _ _
    | exact stSearch_shr _ _
    | exact stFindRules_shr _ _
    | assumption
    | apply LM.Shr.attempt
    | apply LM.Shr.bind'
    | apply LM.Shr.bind
    | intro _
    | split))

theorem getProp_shr (id prop : String) (d : J) (now : Int) : (getProp id prop d now).Shr := by
  unfold getProp; shr_tac

theorem getPropStringD_shr (prop : String) (now : Int) : (getPropStringD prop now).Shr := by
  unfold getPropStringD
  have := getProp_shr "" prop (.str "") now
  shr_tac

theorem runGuard_shr (c : Ctx) (now : Int) (g : Guard) : (runGuard c now g).Shr := by
  have h1 := fun p => getPropStringD_shr p now
  cases g <;> simp only [runGuard, enabled, checkRead, checkWrite, atCapacity]
  · have := h1 "enabled"; shr_tac
  · have := h1 "readKey"; shr_tac
  · have := h1 "writeKey"; shr_tac
  · shr_tac

theorem runGuards_shr (c : Ctx) (now : Int) (gs : List Guard) : (runGuards c now gs).Shr := by
  induction gs with
  | nil => unfold runGuards; shr_tac
  | cons g gs ih =>
    unfold runGuards
    have := runGuard_shr c now g
    shr_tac

theorem locGetParentsRaw_shr (now : Int) : (locGetParentsRaw now).Shr := by
  unfold locGetParentsRaw
  have := getProp_shr "" "parents" (.arr []) now
  shr_tac

theorem locSearchFacts_shr (c : Ctx) (p : Obj) (now : Int) : (locSearchFacts c p now).Shr := by
  unfold locSearchFacts
  have := runGuards_shr c now (guardsOf "searchFacts")
  shr_tac

theorem locSearchRules_shr (c : Ctx) (ev : Obj) (now : Int) : (locSearchRules c ev now).Shr := by
  unfold locSearchRules
  have := runGuards_shr c now (guardsOf "searchRules")
  shr_tac

theorem locGetFact_shr (c : Ctx) (id : String) (now : Int) : (locGetFact c id now).Shr := by
  unfold locGetFact
  have := runGuards_shr c now (guardsOf "GetFact")
  shr_tac

theorem locGetParents_shr (c : Ctx) (now : Int) : (locGetParents c now).Shr := by
  unfold locGetParents
  have := runGuards_shr c now (guardsOf "GetParents")
  have := locGetParentsRaw_shr now
  shr_tac

/-! ## what a parent read returns -/

theorem locGetParentsRaw_eq (now : Int) (l : Loc) :
    locGetParentsRaw now l =
      match l.st.get "!.parents" now with
      | (s', .error e) => if e = "notFound" then ({ l with st := s' }, .ok []) else ({ l with st := s' }, .error e)
      | (s', .ok fact) =>
        match fact.get? "!parents" with
        | none => ({ l with st := s' }, .error "missingProp")
        | some v =>
          match parentsOfJ v with
          | .ok ps => ({ l with st := s' }, .ok ps)
          | .error e => ({ l with st := s' }, .error e) := by
  cases hg : l.st.get "!.parents" now with
  | mk s' r =>
    cases r with
    | error e =>
      by_cases he : e = "notFound"
      · subst he
        simp [locGetParentsRaw, getProp, bind, LM.bind, LM.attempt, stGet, LM.liftSt, genPropId_parents, hg, pure, LM.pure]
      · simp [locGetParentsRaw, getProp, bind, LM.bind, LM.attempt, stGet, LM.liftSt, genPropId_parents, hg, pure, LM.pure, he, LM.fail]
    | ok fact =>
      simp only []
      cases hv : fact.get? "!parents" with
      | none => simp [locGetParentsRaw, getProp, bind, LM.bind, LM.attempt, stGet, LM.liftSt, genPropId_parents, hg, pure, LM.pure, LM.fail, bang_parents, hv]
      | some v =>
        cases hp : parentsOfJ v with
        | error e => simp [locGetParentsRaw, getProp, bind, LM.bind, LM.attempt, stGet, LM.liftSt, genPropId_parents, hg, pure, LM.pure, LM.fail, bang_parents, hv, hp]
        | ok ps => simp [locGetParentsRaw, getProp, bind, LM.bind, LM.attempt, stGet, LM.liftSt, genPropId_parents, hg, pure, LM.pure, LM.fail, bang_parents, hv, hp]

/-- `Get` answers ok only for a stored, unexpired fact, and then changes nothing -/
theorem St.get_ok {s s' : St} {id : String} {now : Int} {f : Obj} (h : s.get id now = (s', .ok f)) :
    s' = s ∧ amGet s.facts id = some f ∧ checkExpiration f now = .ok false := by
  unfold St.get at h
  cases hk : s.kind <;> rw [hk] at h <;> simp only [St.iGet, St.lGet] at h
  all_goals
    cases hg : amGet s.facts id with
    | none => rw [hg] at h; cases h
    | some fact =>
      rw [hg] at h; simp only at h
      cases hc : checkExpiration fact now with
      | error e => rw [hc] at h; cases h
      | ok b =>
        rw [hc] at h
        cases b with
        | false => cases h; exact ⟨rfl, rfl, hc⟩
        | true =>
          simp only at h
          split at h <;> cases h

/-- a non-empty parent list comes from a stored, unexpired `!.parents` fact (and the read changed nothing) -/
theorem read_nonempty {now : Int} {l l' : Loc} {ps : List String} (h : locGetParentsRaw now l = (l', .ok ps))
    (hne : ps ≠ []) :
    l' = l ∧ ∃ f v, amGet l.st.facts "!.parents" = some f ∧ checkExpiration f now = .ok false ∧
      f.get? "!parents" = some v ∧ parentsOfJ v = .ok ps := by
  rw [locGetParentsRaw_eq] at h
  cases hg : l.st.get "!.parents" now with
  | mk s' r =>
    rw [hg] at h
    cases r with
    | error e =>
      simp only at h
      split at h
      · cases h; exact absurd rfl hne
      · cases h
    | ok fact =>
      simp only at h
      obtain ⟨rfl, hf, hc⟩ := St.get_ok hg
      cases hv : fact.get? "!parents" with
      | none => rw [hv] at h; cases h
      | some v =>
        rw [hv] at h; simp only at h
        cases hp : parentsOfJ v with
        | error e => rw [hp] at h; cases h
        | ok ps' =>
          rw [hp] at h; cases h
          exact ⟨rfl, fact, v, hf, hc, hv, hp⟩

/-- conversely such a fact determines the read -/
theorem read_of_live {now : Int} {l : Loc} {f : Obj} {v : J} {ps : List String}
    (hg : amGet l.st.facts "!.parents" = some f) (hc : checkExpiration f now = .ok false)
    (hv : f.get? "!parents" = some v) (hp : parentsOfJ v = .ok ps) :
    locGetParentsRaw now l = (l, .ok ps) := by
  rw [locGetParentsRaw_eq, St.get_live hg hc]
  simp only [hv, hp]

/-- shrinking a location's state can only shrink what a parent read returns -/
theorem parentsIn_of_shrinks {S : String → Prop} {now : Int} {l l2 : Loc} (hs : Shrinks l.st l2.st)
    (h : ParentsIn S now l) : ParentsIn S now l2 := by
  intro l' ps hr p hp
  have hne : ps ≠ [] := by intro h0; subst h0; cases hp
  obtain ⟨_, f, v, hg, hc, hv, hpv⟩ := read_nonempty hr hne
  rcases hs.2.2.2.2 "!.parents" with ⟨hf, _⟩ | ⟨hf, _⟩
  · rw [hg] at hf
    exact h l ps (read_of_live hf.symm hc hv hpv) p hp
  · rw [hg] at hf; cases hf

theorem LM.Shr.parentMono {α} {m : LM α} (h : m.Shr) (now : Int) : m.ParentMono now :=
  fun S l hl => parentsIn_of_shrinks (h l).2.2 hl

/-! ## lockstep simulation of two systems that agree on a parent-closed set -/

/-- the simulation relation: both well-formed, equal on `S`, and `S` parent-closed in the first -/
def SimR (S : String → Prop) (now : Int) (s1 s2 : Sys) : Prop :=
  SysWF s1 ∧ SysWF s2 ∧ AgreeOn S s1 s2 ∧ Closed S s1 now

theorem at_sim {α} {S : String → Prop} {now : Int} {sys1 sys2 : Sys} (hR : SimR S now sys1 sys2)
    {n : String} (hn : S n) {m : LM α} (hk : m.KeepsName) (hpm : m.ParentMono now) :
    (sys1.at n m).2 = (sys2.at n m).2 ∧ SimR S now (sys1.at n m).1 (sys2.at n m).1 := by
  obtain ⟨wf1, wf2, ha, hc⟩ := hR
  have hg := ha n hn
  obtain ⟨h2, hcomp⟩ := Sys.at_congr m hg
  refine ⟨h2, Sys.at_wf wf1 n m, Sys.at_wf wf2 n m, ?_, ?_⟩
  · intro k hk'
    by_cases hkn : k = n
    · subst hkn; exact hcomp
    · rw [Sys.at_frame wf1 n hk hkn, Sys.at_frame wf2 n hk hkn]; exact ha k hk'
  · intro k hk' l hl
    by_cases hkn : k = n
    · subst hkn
      cases hg1 : sys1.get? k with
      | none => rw [Sys.at_none m hg1] at hl; rw [hg1] at hl; cases hl
      | some l0 =>
        rw [(Sys.at_self wf1 hk hg1).1] at hl
        cases hl
        exact hpm S l0 (hc k hk' l0 hg1)
    · rw [Sys.at_frame wf1 n hk hkn] at hl
      exact hc k hk' l hl

theorem walkList_sim {α} {S : String → Prop} {now : Int}
    {step1 step2 : Sys → String → List α → Sys × Except LErr (List α)} {n : String}
    (hstep : ∀ s1 s2 p a, SimR S now s1 s2 → S p →
      (step1 s1 p a).2 = (step2 s2 p a).2 ∧ SimR S now (step1 s1 p a).1 (step2 s2 p a).1)
    (ps : List String) (hps : ∀ p ∈ ps, S p) : ∀ (s1 s2 : Sys) (acc : List α), SimR S now s1 s2 →
      (walkList step1 n s1 ps acc).2 = (walkList step2 n s2 ps acc).2 ∧
        SimR S now (walkList step1 n s1 ps acc).1 (walkList step2 n s2 ps acc).1 := by
  induction ps with
  | nil => intro s1 s2 acc hR; exact ⟨rfl, hR⟩
  | cons p rest ih =>
    intro s1 s2 acc hR
    rw [walkList, walkList]
    by_cases hpn : (p == n) = true
    · simp only [hpn, if_true]; exact ⟨trivial, hR⟩
    · simp only [hpn, if_false, Bool.false_eq_true]
      have hp : S p := hps p (by simp)
      have hg := hR.2.2.1 p hp
      rw [← hg]
      cases hg1 : s1.get? p with
      | none => exact ⟨rfl, hR⟩
      | some l =>
        simp only []
        obtain ⟨hr, hR'⟩ := hstep s1 s2 p acc hR hp
        cases h1 : step1 s1 p acc with
        | mk s1' r1 =>
          cases h2 : step2 s2 p acc with
          | mk s2' r2 =>
            rw [h1, h2] at hr hR'
            simp only at hr hR'
            subst hr
            cases r1 with
            | error e => exact ⟨rfl, hR'⟩
            | ok acc2 => exact ih (fun q hq => hps q (by simp [hq])) s1' s2' acc2 hR'

/-- **lockstep**: two well-formed systems that agree on a parent-closed set `S ∋ n` give the same outcome for the
walk from `n` (same value or same error), and still agree on `S` afterwards -/
theorem doAncestors_sim {α} {S : String → Prop} {now : Int} {fn : String → LM α}
    (hfnk : ∀ n, (fn n).KeepsName) (hfnm : ∀ n, (fn n).ParentMono now) (fuel : Nat) :
    ∀ (sys1 sys2 : Sys) (n : String) (acc : List α) (path : List String), SimR S now sys1 sys2 → S n →
      (doAncestors fuel sys1 n now fn acc path).2 = (doAncestors fuel sys2 n now fn acc path).2 ∧
        SimR S now (doAncestors fuel sys1 n now fn acc path).1 (doAncestors fuel sys2 n now fn acc path).1 := by
  induction fuel with
  | zero => intro sys1 sys2 n acc path hR hn; simp only [doAncestors]; exact ⟨trivial, hR⟩
  | succ fuel ih =>
    intro sys1 sys2 n acc path hR hn
    rw [doAncestors_succ, doAncestors_succ]
    by_cases hc : path.contains n = true
    · simp only [hc, if_true]; exact ⟨trivial, hR⟩
    · simp only [hc, if_false, Bool.false_eq_true]
      have hrk := (locGetParentsRaw_keeps now).keepsName
      have hrm := (locGetParentsRaw_shr now).parentMono now
      obtain ⟨hr, hR1⟩ := at_sim hR hn hrk hrm
      cases h1 : sys1.at n (locGetParentsRaw now) with
      | mk s1' r1 =>
        cases h2 : sys2.at n (locGetParentsRaw now) with
        | mk s2' r2 =>
          rw [h1, h2] at hr hR1
          simp only at hr hR1
          subst hr
          cases r1 with
          | error e => exact ⟨rfl, hR1⟩
          | ok ps =>
            simp only []
            have hnp : noProv s1' n ps = noProv s2' n ps := by
              unfold noProv; rw [hR1.2.2.1 n hn]
            rw [← hnp]
            cases hnp1 : noProv s1' n ps with
            | true => exact ⟨rfl, hR1⟩
            | false =>
              simp only [Bool.false_eq_true, if_false]
              have hps : ∀ p ∈ ps, S p := by
                obtain ⟨l0, hl0⟩ := Sys.at_ok_get? h1
                rw [Sys.at_some _ hl0] at h1
                have hread : locGetParentsRaw now l0 = ((locGetParentsRaw now l0).1, .ok ps) := by
                  have := congrArg Prod.snd h1; simp only at this
                  rw [← this]
                exact hR.2.2.2 n hn l0 hl0 _ ps hread
              obtain ⟨hw, hR2⟩ := walkList_sim (S := S) (now := now)
                (step1 := fun s p a => doAncestors fuel s p now fn a (n :: path))
                (step2 := fun s p a => doAncestors fuel s p now fn a (n :: path)) (n := n)
                (fun s1 s2 p a hRR hp => ih s1 s2 p a (n :: path) hRR hp) ps hps s1' s2' acc hR1
              cases hw1 : walkList (fun s p a => doAncestors fuel s p now fn a (n :: path)) n s1' ps acc with
              | mk t1 q1 =>
                cases hw2 : walkList (fun s p a => doAncestors fuel s p now fn a (n :: path)) n s2' ps acc with
                | mk t2 q2 =>
                  rw [hw1, hw2] at hw hR2
                  simp only at hw hR2
                  subst hw
                  cases q1 with
                  | error e => exact ⟨rfl, hR2⟩
                  | ok acc2 =>
                    simp only []
                    obtain ⟨hf, hR3⟩ := at_sim hR2 hn (hfnk n) (hfnm n)
                    cases hf1 : t1.at n (fn n) with
                    | mk u1 w1 =>
                      cases hf2 : t2.at n (fn n) with
                      | mk u2 w2 =>
                        rw [hf1, hf2] at hf hR3
                        simp only at hf hR3
                        subst hf
                        cases w1 with
                        | error e => exact ⟨rfl, hR3⟩
                        | ok a => exact ⟨rfl, hR3⟩

/-! ## the static ancestor set is parent-closed; consequences for inherited search -/

theorem par_of_read {sys : Sys} {now : Int} {m p : String} {l l' : Loc} {ps : List String}
    (hg : sys.get? m = some l) (hr : locGetParentsRaw now l = (l', .ok ps)) (hp : p ∈ ps) : Par sys now m p := by
  refine ⟨ps, ?_, hp⟩
  unfold Sys.parentsAt
  rw [hg]; simp only [hr]

theorem Anc.tail {sys : Sys} {now : Int} {n m p : String} (h : Anc sys now n m) (hp : Par sys now m p) :
    Anc sys now n p := by
  induction h with
  | refl n => exact .step hp (.refl p)
  | step hpar _ ih => exact .step hpar (ih hp)

/-- `n` together with its transitive declared parents is a parent-closed set -/
theorem anc_closed (sys : Sys) (now : Int) (n : String) : Closed (Anc sys now n) sys now := by
  intro m hm l hl l' ps hr p hp
  exact hm.tail (par_of_read hl hr hp)

theorem simR_of_agree {S : String → Prop} {now : Int} {sys1 sys2 : Sys} (wf1 : SysWF sys1) (wf2 : SysWF sys2)
    (ha : AgreeOn S sys1 sys2) (hc : Closed S sys1 now) : SimR S now sys1 sys2 := ⟨wf1, wf2, ha, hc⟩

/-- the walk with each system's own `ancestorFuel`, compared at a common (larger) fuel -/
theorem doAncestors_sim_own_fuel {α} {S : String → Prop} {now : Int} {fn : String → LM α}
    (hfnk : ∀ n, (fn n).KeepsName) (hfnm : ∀ n, (fn n).ParentMono now)
    {sys1 sys2 : Sys} (hR : SimR S now sys1 sys2) {n : String} (hn : S n) (acc : List α) :
    (doAncestors (ancestorFuel sys1) sys1 n now fn acc).2 = (doAncestors (ancestorFuel sys2) sys2 n now fn acc).2 ∧
      SimR S now (doAncestors (ancestorFuel sys1) sys1 n now fn acc).1
        (doAncestors (ancestorFuel sys2) sys2 n now fn acc).1 := by
  have e1 := doAncestors_fuel_indep (now := now) hfnk (ancestorFuel sys1) sys1 n acc [] hR.1 ⟨List.nodup_nil, by simp⟩
    (by simp [ancestorFuel]) (max (ancestorFuel sys1) (ancestorFuel sys2)) (Nat.le_max_left _ _)
  have e2 := doAncestors_fuel_indep (now := now) hfnk (ancestorFuel sys2) sys2 n acc [] hR.2.1 ⟨List.nodup_nil, by simp⟩
    (by simp [ancestorFuel]) (max (ancestorFuel sys1) (ancestorFuel sys2)) (Nat.le_max_right _ _)
  rw [← e1, ← e2]
  exact doAncestors_sim hfnk hfnm _ sys1 sys2 n acc [] hR hn

theorem tagged_keeps {α} {fn : String → LM α} (h : ∀ n, (fn n).KeepsName) (n : String) : (tagged fn n).KeepsName := by
  intro l
  unfold tagged LM.bind
  have := h n l
  cases hml : fn n l with
  | mk l1 r => rw [hml] at this; cases r <;> exact this

theorem tagged_parentMono {α} {fn : String → LM α} {now : Int} (h : ∀ n, (fn n).ParentMono now) (n : String) :
    (tagged fn n).ParentMono now := by
  intro S l hl
  unfold tagged LM.bind
  have := h n S l hl
  cases hml : fn n l with
  | mk l1 r => rw [hml] at this; cases r <;> exact this

theorem tagged_ok {α} {fn : String → LM α} {m : String} {l : Loc} {x : String × α}
    (h : (tagged fn m l).2 = .ok x) : x.1 = m := by
  unfold tagged LM.bind at h
  cases hml : fn m l with
  | mk l1 r =>
    rw [hml] at h
    cases r with
    | error e => cases h
    | ok a => simp only [LM.pure] at h; cases h; rfl

/-- **noninterference** for `SearchFacts`: equal outcome on systems that agree on a parent-closed `S ∋ n` -/
theorem sysSearchFacts_sim {S : String → Prop} {now : Int} {sys1 sys2 : Sys} (hR : SimR S now sys1 sys2)
    {n : String} (hn : S n) (c : Ctx) (p : Obj) (inh : Bool) :
    (sysSearchFacts sys1 c n p inh now).2 = (sysSearchFacts sys2 c n p inh now).2 ∧
      SimR S now (sysSearchFacts sys1 c n p inh now).1 (sysSearchFacts sys2 c n p inh now).1 := by
  unfold sysSearchFacts
  cases inh with
  | false =>
    simp only [Bool.false_eq_true, if_false]
    exact at_sim hR hn (locSearchFacts_keeps c p now).keepsName ((locSearchFacts_shr c p now).parentMono now)
  | true =>
    simp only [if_true]
    obtain ⟨h1, h2⟩ := doAncestors_sim_own_fuel (fn := tagged (fun _ => locSearchFacts c p now))
      (tagged_keeps (fun _ => (locSearchFacts_keeps c p now).keepsName))
      (tagged_parentMono (fun _ => (locSearchFacts_shr c p now).parentMono now))
      hR hn []
    cases hd1 : doAncestors (ancestorFuel sys1) sys1 n now (tagged (fun _ => locSearchFacts c p now)) [] with
    | mk s1 r1 =>
      cases hd2 : doAncestors (ancestorFuel sys2) sys2 n now (tagged (fun _ => locSearchFacts c p now)) [] with
      | mk s2 r2 =>
        rw [hd1, hd2] at h1 h2
        simp only at h1 h2
        subst h1
        cases r1 <;> exact ⟨rfl, h2⟩

/-- **noninterference** for `searchRulesAncestors` (event dispatch candidates) -/
theorem sysSearchRulesAnc_sim {S : String → Prop} {now : Int} {sys1 sys2 : Sys} (hR : SimR S now sys1 sys2)
    {n : String} (hn : S n) (c : Ctx) (ev : Obj) :
    (sysSearchRulesAnc sys1 c n ev now).2 = (sysSearchRulesAnc sys2 c n ev now).2 ∧
      SimR S now (sysSearchRulesAnc sys1 c n ev now).1 (sysSearchRulesAnc sys2 c n ev now).1 := by
  unfold sysSearchRulesAnc
  obtain ⟨h1, h2⟩ := doAncestors_sim_own_fuel (fn := tagged (fun _ => locSearchRules c ev now))
    (tagged_keeps (fun _ => (locSearchRules_keeps c ev now).keepsName))
    (tagged_parentMono (fun _ => (locSearchRules_shr c ev now).parentMono now))
    hR hn []
  cases hd1 : doAncestors (ancestorFuel sys1) sys1 n now (tagged (fun _ => locSearchRules c ev now)) [] with
  | mk s1 r1 =>
    cases hd2 : doAncestors (ancestorFuel sys2) sys2 n now (tagged (fun _ => locSearchRules c ev now)) [] with
    | mk s2 r2 =>
      rw [hd1, hd2] at h1 h2
      simp only at h1 h2
      subst h1
      cases r1 with
      | error e => exact ⟨rfl, h2⟩
      | ok ls =>
        simp only []
        split <;> exact ⟨rfl, h2⟩

/-- an operation at a location that is not an ancestor of `n` leaves a system that agrees with the old one
on all ancestors of `n` -/
theorem agree_after_op_elsewhere {α} {sys : Sys} (wf : SysWF sys) {now : Int} {n d : String}
    (hd : ¬ Anc sys now n d) {m : LM α} (hm : m.KeepsName) :
    SimR (Anc sys now n) now sys (sys.at d m).1 := by
  refine ⟨wf, Sys.at_wf wf d m, ?_, anc_closed sys now n⟩
  intro k hk
  have : k ≠ d := by intro h; subst h; exact hd hk
  exact (Sys.at_frame wf d hm this).symm

/-! ## `fn` is applied only inside a parent-closed set (no downward delivery) -/

theorem walkList_outputs {α} {S : String → Prop} {now : Int} (P : α → Prop)
    {step : Sys → String → List α → Sys × Except LErr (List α)} {n : String}
    (hstep : ∀ s p a, SimR S now s s → S p → (∀ x ∈ a, P x) →
      SimR S now (step s p a).1 (step s p a).1 ∧ ∀ ls, (step s p a).2 = .ok ls → ∀ x ∈ ls, P x)
    (ps : List String) (hps : ∀ p ∈ ps, S p) : ∀ (s : Sys) (acc : List α), SimR S now s s → (∀ x ∈ acc, P x) →
      SimR S now (walkList step n s ps acc).1 (walkList step n s ps acc).1 ∧
        ∀ ls, (walkList step n s ps acc).2 = .ok ls → ∀ x ∈ ls, P x := by
  induction ps with
  | nil =>
    intro s acc hR hacc
    refine ⟨hR, ?_⟩
    intro ls h; simp only [walkList] at h; cases h; exact hacc
  | cons p rest ih =>
    intro s acc hR hacc
    rw [walkList]
    by_cases hpn : (p == n) = true
    · simp only [hpn, if_true]; exact ⟨hR, fun ls h => by cases h⟩
    · simp only [hpn, if_false, Bool.false_eq_true]
      cases hg1 : s.get? p with
      | none => exact ⟨hR, fun ls h => by cases h⟩
      | some l =>
        simp only []
        obtain ⟨hR', hout⟩ := hstep s p acc hR (hps p (by simp)) hacc
        cases h1 : step s p acc with
        | mk s' r =>
          rw [h1] at hR' hout
          cases r with
          | error e => exact ⟨hR', fun ls h => by cases h⟩
          | ok acc2 => exact ih (fun q hq => hps q (by simp [hq])) s' acc2 hR' (hout acc2 rfl)

/-- every value the walk returns was produced by `fn m` for some `m` in the parent-closed set `S ∋ n`
(`P` is any property that `fn m` establishes for `m ∈ S`) -/
theorem doAncestors_outputs {α} {S : String → Prop} {now : Int} {fn : String → LM α} (P : α → Prop)
    (hfnk : ∀ n, (fn n).KeepsName) (hfnm : ∀ n, (fn n).ParentMono now)
    (hP : ∀ m, S m → ∀ l a, (fn m l).2 = .ok a → P a) (fuel : Nat) :
    ∀ (sys : Sys) (n : String) (acc : List α) (path : List String), SimR S now sys sys → S n → (∀ x ∈ acc, P x) →
      SimR S now (doAncestors fuel sys n now fn acc path).1 (doAncestors fuel sys n now fn acc path).1 ∧
        ∀ ls, (doAncestors fuel sys n now fn acc path).2 = .ok ls → ∀ x ∈ ls, P x := by
  induction fuel with
  | zero =>
    intro sys n acc path hR hn hacc
    simp only [doAncestors]; exact ⟨hR, fun ls h => by cases h⟩
  | succ fuel ih =>
    intro sys n acc path hR hn hacc
    rw [doAncestors_succ]
    by_cases hc : path.contains n = true
    · simp only [hc, if_true]; exact ⟨hR, fun ls h => by cases h⟩
    · simp only [hc, if_false, Bool.false_eq_true]
      have hrk := (locGetParentsRaw_keeps now).keepsName
      have hrm := (locGetParentsRaw_shr now).parentMono now
      obtain ⟨_, hR1⟩ := at_sim hR hn hrk hrm
      cases h1 : sys.at n (locGetParentsRaw now) with
      | mk s1' r1 =>
        rw [h1] at hR1
        simp only at hR1
        cases r1 with
        | error e => exact ⟨hR1, fun ls h => by cases h⟩
        | ok ps =>
          simp only []
          cases hnp1 : noProv s1' n ps with
          | true => exact ⟨hR1, fun ls h => by cases h⟩
          | false =>
            simp only [Bool.false_eq_true, if_false]
            have hps : ∀ p ∈ ps, S p := by
              obtain ⟨l0, hl0⟩ := Sys.at_ok_get? h1
              rw [Sys.at_some _ hl0] at h1
              have hread : locGetParentsRaw now l0 = ((locGetParentsRaw now l0).1, .ok ps) := by
                have := congrArg Prod.snd h1; simp only at this
                rw [← this]
              exact hR.2.2.2 n hn l0 hl0 _ ps hread
            obtain ⟨hR2, hout2⟩ := walkList_outputs (S := S) (now := now) P
              (step := fun s p a => doAncestors fuel s p now fn a (n :: path)) (n := n)
              (fun s p a hRR hp ha => ih s p a (n :: path) hRR hp ha) ps hps s1' acc hR1 hacc
            cases hw1 : walkList (fun s p a => doAncestors fuel s p now fn a (n :: path)) n s1' ps acc with
            | mk t1 q1 =>
              rw [hw1] at hR2 hout2
              simp only at hR2 hout2
              cases q1 with
              | error e => exact ⟨hR2, fun ls h => by cases h⟩
              | ok acc2 =>
                simp only []
                obtain ⟨_, hR3⟩ := at_sim hR2 hn (hfnk n) (hfnm n)
                cases hf1 : t1.at n (fn n) with
                | mk u1 w1 =>
                  rw [hf1] at hR3
                  simp only at hR3
                  cases w1 with
                  | error e => exact ⟨hR3, fun ls h => by cases h⟩
                  | ok a =>
                    refine ⟨hR3, ?_⟩
                    intro ls h
                    cases h
                    intro x hx
                    rcases List.mem_append.1 hx with hx | hx
                    · exact hout2 acc2 rfl x hx
                    · simp at hx; subst hx
                      obtain ⟨l0, hl0⟩ := Sys.at_ok_get? hf1
                      rw [Sys.at_some _ hl0] at hf1
                      have := congrArg Prod.snd hf1; simp only at this
                      exact hP n hn l0 x this

/-! ## deciding parent-closedness of a finite set of names -/

theorem closedB_sound {names : List String} {sys : Sys} {now : Int} (h : closedB names sys now = true) :
    Closed (· ∈ names) sys now := by
  intro m hm l hl l' ps hr p hp
  unfold closedB at h
  have := List.all_eq_true.1 h m hm
  rw [hl] at this
  simp only [hr] at this
  have := List.all_eq_true.1 this p hp
  simpa using this

/-- ancestors stay inside any parent-closed set containing the start -/
theorem anc_subset_closed {S : String → Prop} {sys : Sys} {now : Int} (hc : Closed S sys now) {n a : String}
    (hn : S n) (h : Anc sys now n a) : S a := by
  induction h with
  | refl n => exact hn
  | @step n' p' a' hpar _ ih =>
    apply ih
    obtain ⟨ps, hpa, hp⟩ := hpar
    unfold Sys.parentsAt at hpa
    cases hg : sys.get? n' with
    | none => rw [hg] at hpa; cases hpa
    | some l =>
      rw [hg] at hpa
      simp only at hpa
      cases hr : locGetParentsRaw now l with
      | mk l' r =>
        rw [hr] at hpa
        cases r with
        | error e => cases hpa
        | ok ps' =>
          simp only at hpa
          cases hpa
          exact hc n' hn l hg l' ps hr p' hp

/-! ## the exported entry points `SearchRules` and `ListRules` -/

theorem sysSearchRules_sim {S : String → Prop} {now : Int} {sys1 sys2 : Sys} (hR : SimR S now sys1 sys2)
    {n : String} (hn : S n) (c : Ctx) (ev : Obj) (inh : Bool) :
    (sysSearchRules sys1 c n ev inh now).2 = (sysSearchRules sys2 c n ev inh now).2 ∧
      SimR S now (sysSearchRules sys1 c n ev inh now).1 (sysSearchRules sys2 c n ev inh now).1 := by
  unfold sysSearchRules
  obtain ⟨h1, h2⟩ := at_sim hR hn (runGuards_keeps c now (guardsOf "SearchRules")).keepsName
    ((runGuards_shr c now (guardsOf "SearchRules")).parentMono now)
  cases hd1 : sys1.at n (runGuards c now (guardsOf "SearchRules")) with
  | mk s1 r1 =>
    cases hd2 : sys2.at n (runGuards c now (guardsOf "SearchRules")) with
    | mk s2 r2 =>
      rw [hd1, hd2] at h1 h2
      simp only at h1 h2
      subst h1
      cases r1 with
      | error e => exact ⟨rfl, h2⟩
      | ok u =>
        simp only []
        cases inh with
        | true => simp only [if_true]; exact sysSearchRulesAnc_sim h2 hn c ev
        | false =>
          simp only [Bool.false_eq_true, if_false]
          exact at_sim h2 hn (locSearchRules_keeps c ev now).keepsName ((locSearchRules_shr c ev now).parentMono now)

theorem sysListRules_sim {S : String → Prop} {now : Int} {sys1 sys2 : Sys} (hR : SimR S now sys1 sys2)
    {n : String} (hn : S n) (c : Ctx) (inh : Bool) :
    (sysListRules sys1 c n inh now).2 = (sysListRules sys2 c n inh now).2 ∧
      SimR S now (sysListRules sys1 c n inh now).1 (sysListRules sys2 c n inh now).1 := by
  unfold sysListRules
  obtain ⟨h1, h2⟩ := at_sim hR hn (runGuards_keeps c now (guardsOf "ListRules")).keepsName
    ((runGuards_shr c now (guardsOf "ListRules")).parentMono now)
  cases hd1 : sys1.at n (runGuards c now (guardsOf "ListRules")) with
  | mk s1 r1 =>
    cases hd2 : sys2.at n (runGuards c now (guardsOf "ListRules")) with
    | mk s2 r2 =>
      rw [hd1, hd2] at h1 h2
      simp only at h1 h2
      subst h1
      cases r1 with
      | error e => exact ⟨rfl, h2⟩
      | ok u =>
        simp only []
        obtain ⟨h3, h4⟩ := sysSearchFacts_sim h2 hn c [("rule", .str "?rule")] inh
        cases hf1 : sysSearchFacts s1 c n [("rule", .str "?rule")] inh now with
        | mk t1 q1 =>
          cases hf2 : sysSearchFacts s2 c n [("rule", .str "?rule")] inh now with
          | mk t2 q2 =>
            rw [hf1, hf2] at h3 h4
            simp only at h3 h4
            subst h3
            cases q1 with
            | error e =>
              simp only []
              cases inh <;> exact ⟨rfl, h4⟩
            | ok found => exact ⟨rfl, h4⟩

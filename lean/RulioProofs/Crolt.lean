import RulioModel.Crolt

/-! Helper lemmas for C16 (Bolt-backed cron): finite-map facts and the two-bucket invariant. -/

namespace Crolt
open C16Gen List

section maps
variable {κ α : Type} [DecidableEq κ]

theorem get_del_same (k : κ) (m : Map κ α) : get k (del k m) = none := by
  induction m with
  | nil => rfl
  | cons e m ih =>
    obtain ⟨k', v⟩ := e
    by_cases h : k' = k
    · simp [del, h] at ih ⊢; exact ih
    · simp [del, filter_cons, h, get] at ih ⊢; exact ih

theorem get_del_ne {k k' : κ} (h : k' ≠ k) (m : Map κ α) : get k' (del k m) = get k' m := by
  induction m with
  | nil => rfl
  | cons e m ih =>
    obtain ⟨k2, v⟩ := e
    by_cases h2 : k2 = k
    · subst h2
      have : k2 ≠ k' := fun e => h e.symm
      simp [del, filter_cons, get, this] at ih ⊢; exact ih
    · by_cases h3 : k2 = k'
      · subst h3; simp [del, h, get]
      · simp [del, h2, get, h3] at ih ⊢; exact ih

theorem get_put_same (k : κ) (v : α) (m : Map κ α) : get k (put k v m) = some v := by
  simp [put, get]

theorem get_put_ne {k k' : κ} (h : k' ≠ k) (v : α) (m : Map κ α) : get k' (put k v m) = get k' m := by
  have : k ≠ k' := fun e => h e.symm
  simp [put, get, this, get_del_ne h]

theorem get_del_some {k k' : κ} {v : α} {m : Map κ α} (h : get k' (del k m) = some v) : k' ≠ k ∧ get k' m = some v := by
  by_cases e : k' = k
  · subst e; rw [get_del_same] at h; cases h
  · exact ⟨e, by rw [get_del_ne e] at h; exact h⟩

theorem keys_del (k : κ) {m : Map κ α} (h : (m.map (·.1)).Nodup) : ((del k m).map (·.1)).Nodup := by
  unfold del
  exact h.sublist (filter_sublist.map _)

theorem not_mem_keys_del (k : κ) (m : Map κ α) : k ∉ (del k m).map (·.1) := by
  intro h
  obtain ⟨e, he, hk⟩ := mem_map.1 h
  have := (mem_filter.1 he).2
  simp [hk] at this

theorem keys_put (k : κ) (v : α) {m : Map κ α} (h : (m.map (·.1)).Nodup) : ((put k v m).map (·.1)).Nodup := by
  unfold put
  rw [map_cons, nodup_cons]
  exact ⟨not_mem_keys_del k m, keys_del k h⟩

theorem get_of_mem {k : κ} {v : α} {m : Map κ α} (hn : (m.map (·.1)).Nodup) (h : (k, v) ∈ m) : get k m = some v := by
  induction m with
  | nil => cases h
  | cons e m ih =>
    obtain ⟨k', v'⟩ := e
    rw [map_cons, nodup_cons] at hn
    rcases mem_cons.1 h with h | h
    · cases h; simp [get]
    · have : k' ≠ k := by
        intro e; subst e
        exact hn.1 (mem_map.2 ⟨(k', v), h, rfl⟩)
      simp [get, this]; exact ih hn.2 h

end maps

/-! ## the invariant -/

/-- the two buckets agree key for key: `jobs[aid].TId` is a key of `time` holding the same job, and every entry of `time`
is the entry its job points to -/
structure BInv (db : DB) : Prop where
  fwd : ∀ a j, get a db.jobs = some j → j.aid = a ∧ ∃ t, j.tid = some t ∧ t.aid = a ∧ get t db.time = some j
  bwd : ∀ t j, get t db.time = some j → j.tid = some t ∧ t.aid = j.aid ∧ get j.aid db.jobs = some j

/-- Bolt buckets are maps: keys are unique -/
structure KInv (db : DB) : Prop where
  jobs : (db.jobs.map (·.1)).Nodup
  time : (db.time.map (·.1)).Nodup

theorem BInv_empty : BInv {} := by
  constructor
  · intro a j h; simp [get] at h
  · intro t j h; simp [get] at h
theorem KInv_empty : KInv {} := ⟨by simp, by simp⟩

/-- `update` keeps the invariant when the job's `TId` field is the key its stored version has (or empty for a new job) -/
theorem BInv_update {db : DB} (h : BInv db) (j : Job) (ts : Nat)
    (hpre : match get j.aid db.jobs with
      | none => j.tid = none
      | some v => j.tid = v.tid) :
    BInv (update db j ts) := by
  have hu : updateDeletesOld = true := rfl
  -- the time bucket after the optional delete
  have htime1 : ∀ t x, get t (match j.tid with
        | some old => if updateDeletesOld then del old db.time else db.time
        | none => db.time) = some x → get t db.time = some x ∧ j.tid ≠ some t := by
    intro t x hx
    cases hjt : j.tid with
    | none => rw [hjt] at hx; exact ⟨hx, by simp⟩
    | some old =>
      rw [hjt] at hx; simp only [hu, if_true] at hx
      obtain ⟨a, b⟩ := get_del_some hx
      exact ⟨b, by intro e; cases e; exact a rfl⟩
  have htime1' : ∀ t x, get t db.time = some x → t.aid ≠ j.aid → get t (match j.tid with
        | some old => if updateDeletesOld then del old db.time else db.time
        | none => db.time) = some x := by
    intro t x hx hne
    cases hjt : j.tid with
    | none => exact hx
    | some old =>
      simp only [hu, if_true]
      have : t ≠ old := by
        intro e; subst e
        -- old is the key of the stored version of j, whose aid is j.aid
        cases hg : get j.aid db.jobs with
        | none => rw [hg] at hpre; simp [hjt] at hpre
        | some v =>
          rw [hg] at hpre
          obtain ⟨_, t', ht', hta, _⟩ := h.fwd _ _ hg
          have hpre' : j.tid = v.tid := hpre
          rw [hjt, ht'] at hpre'; cases hpre'
          exact hne hta
      rw [get_del_ne this]; exact hx
  constructor
  · intro a x hx
    by_cases ha : a = j.aid
    · subst ha
      simp only [update, get_put_same] at hx
      cases hx
      exact ⟨rfl, ⟨ts, j.aid⟩, rfl, rfl, by simp [update, get_put_same]⟩
    · simp only [update] at hx ⊢
      rw [get_put_ne ha] at hx
      obtain ⟨h1, t, h2, h3, h4⟩ := h.fwd a x hx
      refine ⟨h1, t, h2, h3, ?_⟩
      have hne : t ≠ ⟨ts, j.aid⟩ := by intro e; subst e; exact ha h3.symm
      rw [get_put_ne hne]
      exact htime1' t x h4 (by rw [h3]; exact ha)
  · intro t x hx
    by_cases ht : t = ⟨ts, j.aid⟩
    · subst ht
      simp only [update, get_put_same] at hx ⊢
      cases hx
      exact ⟨rfl, rfl, get_put_same _ _ _⟩
    · simp only [update] at hx ⊢
      rw [get_put_ne ht] at hx
      obtain ⟨hx1, hx2⟩ := htime1 t x hx
      obtain ⟨b1, b2, b3⟩ := h.bwd t x hx1
      refine ⟨b1, b2, ?_⟩
      by_cases hxa : x.aid = j.aid
      · exfalso
        rw [hxa] at b3
        rw [b3] at hpre
        exact hx2 (hpre.trans b1)
      · rw [get_put_ne hxa]; exact b3

theorem KInv_update {db : DB} (h : KInv db) (j : Job) (ts : Nat) : KInv (update db j ts) := by
  constructor
  · exact keys_put _ _ h.jobs
  · simp only [update]
    apply keys_put
    cases j.tid with
    | none => exact h.time
    | some old => dsimp only; split
                  · exact keys_del _ h.time
                  · exact h.time

theorem BInv_delete {db : DB} (h : BInv db) (aid : Nat) : BInv (delete db aid) := by
  have hd1 : deleteRemovesTime = true := rfl
  have hd2 : deleteRemovesJob = true := rfl
  unfold delete
  cases hg : get aid db.jobs with
  | none => exact h
  | some j =>
    obtain ⟨f1, t, f2, f3, f4⟩ := h.fwd aid j hg
    simp only [f2, hd1, hd2, if_true]
    constructor
    · intro a x hx
      obtain ⟨hne, hx'⟩ := get_del_some hx
      obtain ⟨g1, t', g2, g3, g4⟩ := h.fwd a x hx'
      refine ⟨g1, t', g2, g3, ?_⟩
      have : t' ≠ t := by intro e; subst e; exact hne (g3.symm.trans f3)
      show get t' (del t db.time) = some x
      rw [get_del_ne this]; exact g4
    · intro t' x hx
      obtain ⟨hne, hx'⟩ := get_del_some hx
      obtain ⟨b1, b2, b3⟩ := h.bwd t' x hx'
      refine ⟨b1, b2, ?_⟩
      have : x.aid ≠ aid := by
        intro e
        rw [e, hg] at b3; cases b3
        rw [f2] at b1; cases b1
        exact hne rfl
      show get x.aid (del aid db.jobs) = some x
      rw [get_del_ne this]; exact b3

theorem KInv_delete {db : DB} (h : KInv db) (aid : Nat) : KInv (delete db aid) := by
  unfold delete
  cases get aid db.jobs with
  | none => exact h
  | some j =>
    constructor
    · dsimp only; split
      · exact keys_del _ h.jobs
      · exact h.jobs
    · dsimp only
      cases j.tid with
      | none => exact h.time
      | some t => dsimp only; split
                  · exact keys_del _ h.time
                  · exact h.time

theorem setFlags_fields (j : Job) : (setFlags j).aid = j.aid ∧ (setFlags j).tid = j.tid := by
  unfold setFlags; split
  · exact ⟨rfl, rfl⟩
  · split <;> exact ⟨rfl, rfl⟩

theorem BInv_workOne {db : DB} (h : BInv db) (now : Nat) (k : TId) (ts : Nat) : BInv (workOne db now k ts).1 := by
  unfold workOne
  cases hg : get k db.time with
  | none => exact h
  | some v =>
    dsimp only
    split
    · exact h
    · split
      · exact BInv_delete h v.aid
      · obtain ⟨_, _, b3⟩ := h.bwd k v hg
        have hlog : BInv { db with log := (⟨v.aid, k.ts, now, v.once⟩ : Fire) :: db.log } := ⟨h.fwd, h.bwd⟩
        apply BInv_update hlog
        obtain ⟨e1, e2⟩ := setFlags_fields (if (v.once && workEvictsOnce) = true then { v with evict := true } else v)
        have e3 : (if (v.once && workEvictsOnce) = true then { v with evict := true } else v).aid = v.aid := by split <;> rfl
        have e4 : (if (v.once && workEvictsOnce) = true then { v with evict := true } else v).tid = v.tid := by split <;> rfl
        rw [e1, e2, e3, e4]
        show match get v.aid db.jobs with
          | none => v.tid = none
          | some v' => v.tid = v'.tid
        rw [b3]

theorem KInv_workOne {db : DB} (h : KInv db) (now : Nat) (k : TId) (ts : Nat) : KInv (workOne db now k ts).1 := by
  unfold workOne
  cases get k db.time with
  | none => exact h
  | some v =>
    dsimp only
    split
    · exact h
    · split
      · exact KInv_delete h v.aid
      · exact KInv_update (db := { db with log := (⟨v.aid, k.ts, now, v.once⟩ : Fire) :: db.log }) ⟨h.jobs, h.time⟩ _ _

theorem BInv_work {db : DB} (h : BInv db) (now : Nat) (sel : List (TId × Nat)) : BInv (work db now sel) := by
  induction sel generalizing db with
  | nil => exact h
  | cons e sel ih =>
    obtain ⟨k, ts⟩ := e
    simp only [work]
    split
    · exact BInv_workOne h now k ts
    · exact ih (BInv_workOne h now k ts)

theorem KInv_work {db : DB} (h : KInv db) (now : Nat) (sel : List (TId × Nat)) : KInv (work db now sel) := by
  induction sel generalizing db with
  | nil => exact h
  | cons e sel ih =>
    obtain ⟨k, ts⟩ := e
    simp only [work]
    split
    · exact KInv_workOne h now k ts
    · exact ih (KInv_workOne h now k ts)

/-- what must hold for the operation to be one of the service's own transactions: the second half of an `Add` (the writing
transaction) runs while the job still does not exist. Nothing is asked of the job a caller passes to `Add`: whatever `TId` it
carries is discarded. -/
def okOp (db : DB) : Op → Prop
  | .addCommit j _ => get j.aid db.jobs = none
  | _ => True

def Legal : DB → List Op → Prop
  | _, [] => True
  | db, op :: ops => okOp db op ∧ Legal (step db op) ops

theorem clearTid_fields (j : Job) : (clearTid j).aid = j.aid ∧ (clearTid j).tid = none := by
  have h : addClearsTid = true := rfl
  simp [clearTid, h]

theorem BInv_step {db : DB} (h : BInv db) (op : Op) (hok : okOp db op) : BInv (step db op) := by
  cases op with
  | add j ts =>
    simp only [step, add]
    cases hg : get j.aid db.jobs with
    | some v => exact h
    | none =>
      apply BInv_update h
      obtain ⟨e1, e2⟩ := setFlags_fields (clearTid j)
      obtain ⟨c1, c2⟩ := clearTid_fields j
      rw [e1, e2, c1, c2, hg]
  | addCommit j ts =>
    simp only [step, addCommit]
    apply BInv_update h
    obtain ⟨e1, e2⟩ := setFlags_fields (clearTid j)
    obtain ⟨c1, c2⟩ := clearTid_fields j
    have hok' : get j.aid db.jobs = none := hok
    rw [e1, e2, c1, c2, hok']
  | delete aid => exact BInv_delete h aid
  | work now sel => exact BInv_work h now sel
  | reopen => exact h

theorem KInv_step {db : DB} (h : KInv db) (op : Op) : KInv (step db op) := by
  cases op with
  | add j ts =>
    simp only [step, add]
    cases get j.aid db.jobs with
    | some v => exact h
    | none => exact KInv_update h _ _
  | addCommit j ts => exact KInv_update h _ _
  | delete aid => exact KInv_delete h aid
  | work now sel => exact KInv_work h now sel
  | reopen => exact h

theorem BInv_run {db : DB} (h : BInv db) (ops : List Op) (hl : Legal db ops) : BInv (run db ops) := by
  induction ops generalizing db with
  | nil => exact h
  | cons op ops ih => exact ih (BInv_step h op hl.1) hl.2

theorem KInv_run {db : DB} (h : KInv db) (ops : List Op) : KInv (run db ops) := by
  induction ops generalizing db with
  | nil => exact h
  | cons op ops ih => exact ih (KInv_step h op)

/-- with both invariants, the entries of the time bucket that belong to one job are at most one -/
theorem one_entry {db : DB} (hb : BInv db) (hk : KInv db) (a : Nat) :
    (db.time.filter (fun e => e.2.aid == a)).length ≤ 1 := by
  have key : ∀ e1 ∈ db.time, ∀ e2 ∈ db.time, e1.2.aid = a → e2.2.aid = a → e1.1 = e2.1 := by
    intro e1 h1 e2 h2 a1 a2
    obtain ⟨t1, j1⟩ := e1; obtain ⟨t2, j2⟩ := e2
    have g1 := get_of_mem hk.time h1
    have g2 := get_of_mem hk.time h2
    obtain ⟨b1, _, b3⟩ := hb.bwd t1 j1 g1
    obtain ⟨c1, _, c3⟩ := hb.bwd t2 j2 g2
    simp only at a1 a2
    rw [a1] at b3; rw [a2] at c3
    rw [b3] at c3; cases c3
    rw [b1] at c1; cases c1; rfl
  have hnd := hk.time
  generalize db.time = m at key hnd
  induction m with
  | nil => simp
  | cons e m ih =>
    rw [map_cons, nodup_cons] at hnd
    by_cases he : e.2.aid = a
    · -- nothing else in m has aid a
      have : m.filter (fun e => e.2.aid == a) = [] := by
        apply filter_eq_nil_iff.2
        intro e' he' ha'
        have ha'' : e'.2.aid = a := by simpa using ha'
        have := key e (by simp) e' (by simp [he']) he ha''
        exact hnd.1 (mem_map.2 ⟨e', he', this.symm⟩)
      simp [filter_cons, he, this]
    · have := ih (fun e1 h1 e2 h2 => key e1 (by simp [h1]) e2 (by simp [h2])) hnd.2
      simpa [filter_cons, he] using this

/-! ## firing -/

theorem workOne_log {db : DB} {now : Nat} {k : TId} {ts : Nat} {f : Fire} (hf : f ∈ (workOne db now k ts).1.log) :
    f ∈ db.log ∨ (f.due < f.now ∧ f.now = now ∧ ∃ v, get k db.time = some v ∧ v.evict = false ∧ f = ⟨v.aid, k.ts, now, v.once⟩) := by
  unfold workOne at hf
  cases hg : get k db.time with
  | none => rw [hg] at hf; left; exact hf
  | some v =>
    rw [hg] at hf; dsimp only at hf
    split at hf
    · left; exact hf
    · rename_i hdue
      split at hf
      · left
        unfold delete at hf
        split at hf <;> exact hf
      · rename_i hev
        simp only [update] at hf
        rcases mem_cons.1 hf with e | e
        · right
          have : k.ts < now := by
            have hd : isDue k now = true := by simpa using hdue
            unfold isDue dueCmp cmpKey at hd
            by_cases hlt : k.ts < now
            · exact hlt
            · simp [hlt] at hd
          subst e
          exact ⟨this, rfl, v, rfl, by simpa using hev, rfl⟩
        · left; exact e

theorem work_log {db : DB} {now : Nat} {sel : List (TId × Nat)} {f : Fire} (hf : f ∈ (work db now sel).log) :
    f ∈ db.log ∨ f.due < f.now := by
  induction sel generalizing db with
  | nil => left; exact hf
  | cons e sel ih =>
    obtain ⟨k, ts⟩ := e
    simp only [work] at hf
    split at hf
    · rcases workOne_log hf with h | ⟨h, _⟩
      · left; exact h
      · right; exact h
    · rcases ih hf with h | h
      · rcases workOne_log h with h | ⟨h, _⟩
        · left; exact h
        · right; exact h
      · right; exact h

theorem update_log (db : DB) (j : Job) (ts : Nat) : (update db j ts).log = db.log := rfl

theorem delete_log (db : DB) (aid : Nat) : (delete db aid).log = db.log := by
  unfold delete; split <;> rfl

theorem step_log {db : DB} {op : Op} {f : Fire} (hf : f ∈ (step db op).log) : f ∈ db.log ∨ f.due < f.now := by
  cases op with
  | add j ts =>
    left; simp only [step, add] at hf
    split at hf
    · exact hf
    · rw [update_log] at hf; exact hf
  | addCommit j ts => left; exact hf
  | delete aid => left; simp only [step, delete_log] at hf; exact hf
  | work now sel => exact work_log hf
  | reopen => left; exact hf

theorem run_log {db : DB} {ops : List Op} {f : Fire} (hf : f ∈ (run db ops).log) : f ∈ db.log ∨ f.due < f.now := by
  induction ops generalizing db with
  | nil => left; exact hf
  | cons op ops ih =>
    rcases ih hf with h | h
    · exact step_log h
    · right; exact h

/-! ## `Add` touches nothing but its own job -/

/-- an `update` of a job without `TId` leaves the time entries of every other job alone … -/
theorem update_time_other (db : DB) (j : Job) (ts : Nat) (hj : j.tid = none) {t : TId} (ht : t.aid ≠ j.aid) :
    get t (update db j ts).time = get t db.time := by
  have hne : t ≠ ⟨ts, j.aid⟩ := by intro e; rw [e] at ht; exact ht rfl
  simp only [update, hj]
  rw [get_put_ne hne]

/-- … and so does it with their entries in the jobs bucket -/
theorem update_jobs_other (db : DB) (j : Job) (ts : Nat) {a : Nat} (ha : a ≠ j.aid) :
    get a (update db j ts).jobs = get a db.jobs := by
  simp only [update]
  rw [get_put_ne ha]

theorem add_other (db : DB) (j : Job) (ts : Nat) :
    (∀ t : TId, t.aid ≠ j.aid → get t (add db j ts).1.time = get t db.time) ∧
    (∀ a : Nat, a ≠ j.aid → get a (add db j ts).1.jobs = get a db.jobs) := by
  obtain ⟨e1, e2⟩ := setFlags_fields (clearTid j)
  obtain ⟨c1, c2⟩ := clearTid_fields j
  unfold add
  cases get j.aid db.jobs with
  | some v => exact ⟨fun _ _ => rfl, fun _ _ => rfl⟩
  | none =>
    constructor
    · intro t ht
      exact update_time_other db _ ts (e2.trans c2) (by rw [e1, c1]; exact ht)
    · intro a ha
      exact update_jobs_other db _ ts (by rw [e1, c1]; exact ha)

/-! ## recurring jobs: occurrences and jitter -/

theorem isDue_lt {k : TId} {now : Nat} (h : isDue k now = true) : k.ts < now := by
  unfold isDue dueCmp cmpKey at h
  by_cases hlt : k.ts < now
  · exact hlt
  · simp [hlt] at h

theorem nextOcc_gt {p now : Nat} (hp : p ≠ 0) : now < nextOcc p now := by
  unfold nextOcc
  have hp' : 0 < p := Nat.pos_of_ne_zero hp
  have h1 := Nat.div_add_mod now p
  have h2 := Nat.mod_lt now hp'
  rw [Nat.add_mul, Nat.one_mul, Nat.mul_comm]
  omega

/-- the jitter is never negative: the key is at or after the occurrence it was computed from -/
theorem occ_le_setCron (p max now u : Nat) : nextOcc p now ≤ setCron p max now u := by
  have h : jitterSub max = 0 := rfl
  unfold setCron; rw [h]; omega

/-- invariant of one recurring job's life: its key is not before its occurrence, every run so far served an earlier
occurrence, strictly after that occurrence, and the occurrences served are strictly increasing -/
structure RInv (p : Nat) (s : RState) : Prop where
  keyOk : s.occ ≤ s.key
  isOcc : s.occ % p = 0
  served : ∀ r ∈ s.runs, r.1 < s.occ ∧ r.1 < r.2 ∧ r.1 % p = 0
  incr : (s.runs.map (·.1)).Pairwise (· > ·)

theorem nextOcc_mod (p now : Nat) : nextOcc p now % p = 0 := by
  unfold nextOcc; exact Nat.mul_mod_left _ _

theorem RInv_init (p max now u : Nat) : RInv p (rinit p max now u) :=
  ⟨occ_le_setCron p max now u, nextOcc_mod p now, (by intro r hr; exact absurd hr (by simp [rinit])), (by simp [rinit])⟩

theorem RInv_step {p max : Nat} (hp : p ≠ 0) {s : RState} (h : RInv p s) (op : ROp) : RInv p (rstep p max s op) := by
  cases op with
  | advance d => exact ⟨h.keyOk, h.isOcc, h.served, h.incr⟩
  | poll d u =>
    simp only [rstep]
    split
    · rename_i hdue
      have hlt : s.key < s.clock := isDue_lt hdue
      have hocc : s.occ < nextOcc p (s.clock + d) := by
        have := nextOcc_gt (now := s.clock + d) hp
        have := h.keyOk
        omega
      refine ⟨occ_le_setCron _ _ _ _, nextOcc_mod _ _, ?_, ?_⟩
      · intro r hr
        rcases mem_cons.1 hr with e | hr
        · rw [e]; exact ⟨hocc, Nat.lt_of_le_of_lt h.keyOk hlt, h.isOcc⟩
        · exact ⟨Nat.lt_trans (h.served r hr).1 hocc, (h.served r hr).2⟩
      · rw [map_cons, pairwise_cons]
        refine ⟨?_, h.incr⟩
        intro o ho
        obtain ⟨r, hr, e⟩ := mem_map.1 ho
        rw [← e]; exact (h.served r hr).1
    · exact h

theorem RInv_run {p max : Nat} (hp : p ≠ 0) {s : RState} (h : RInv p s) (ops : List ROp) : RInv p (rrun p max s ops) := by
  induction ops generalizing s with
  | nil => exact h
  | cons op ops ih => exact ih (RInv_step hp h op)

end Crolt

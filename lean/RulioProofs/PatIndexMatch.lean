import RulioProofs.PatIndexSort

/-! # Pattern index: a pattern that lies over an event embeds in it (C01, part 3) -/

open List

namespace PI

/-! ## `path` of an append -/

/-- sequential composition of two optional paths -/
def pathCat (a b : Option (List Edge)) : Option (List Edge) :=
  match a, b with
  | some x, some y => some (x ++ y)
  | _, _ => none

theorem pathCat_map_left (f : List Edge → List Edge) (hf : ∀ x y, f x ++ y = f (x ++ y)) (a b) :
    pathCat (a.map f) b = (pathCat a b).map f := by
  cases a <;> cases b <;> simp [pathCat, hf]

theorem path_append : ∀ (n : Nat) (A B : List (String × J)), szO A < n →
    path (A ++ B) = pathCat (path A) (path B) := by
  intro n
  induction n with
  | zero => intro A B h; omega
  | succ n ih =>
    intro A B hn
    match A with
    | [] => rw [path_nil, List.nil_append]; cases hb : path B <;> simp [pathCat]
    | (k, v) :: A =>
      rw [List.cons_append]
      have hlt : szO A < n := by have := @szO_cons_lt k v A; omega
      cases hc : picast v with
      | s x =>
        rw [path_cons_s _ hc, path_cons_s _ hc, ih A B hlt, pathCat_map_left]
        intros; rfl
      | v =>
        rw [path_cons_v _ hc, path_cons_v _ hc, ih A B hlt, pathCat_map_left]
        intros; rfl
      | m kvs =>
        have hv := picast_m v kvs hc
        subst hv
        have hlt' : szO (mapToPairs kvs ++ A) < n := by have := @szO_map_lt k kvs A; omega
        rw [path_cons_m _ hc, path_cons_m _ hc, ← List.append_assoc, ih _ B hlt', pathCat_map_left]
        intros; rfl
      | a xs =>
        have hv := picast_a v xs hc
        subst hv
        cases hs : sortValues xs with
        | error e =>
          rw [path_cons_a_err _ hc hs, path_cons_a_err _ hc hs]; simp [pathCat]
        | ok sorted =>
          have hlt' : szO (sorted.map (fun x => (k, x)) ++ A) < n := by
            have := @szO_arr_lt k xs sorted A hs; omega
          rw [path_cons_a_ok _ hc hs, path_cons_a_ok _ hc hs, ← List.append_assoc, ih _ B hlt']

theorem path_append' (A B : List (String × J)) : path (A ++ B) = pathCat (path A) (path B) :=
  path_append _ A B (Nat.lt_succ_self _)

/-! ## `Emb` of an append -/

theorem Emb.skip_many {π : List Edge} {E : List (String × J)} (h : Emb π E) : ∀ A, Emb π (A ++ E)
  | [] => h
  | kv :: A => .skip _ kv _ (Emb.skip_many h A)

theorem Emb.append {π1 : List Edge} {E1 : List (String × J)} (h1 : Emb π1 E1) :
    ∀ {π2 : List Edge} {E2 : List (String × J)}, Emb π2 E2 → Emb (π1 ++ π2) (E1 ++ E2) := by
  induction h1 with
  | done E => intro π2 E2 h2; exact h2.skip_many E
  | skip π kv E _ ih => intro π2 E2 h2; exact .skip _ kv _ (ih h2)
  | const k v x π E hc _ ih => intro π2 E2 h2; exact .const k v x _ _ hc (ih h2)
  | var k v π E E' hap _ ih =>
    intro π2 E2 h2
    refine .var k v _ _ (E' ++ E2) ?_ (ih h2)
    unfold afterPair at hap ⊢
    cases hc : picast v with
    | v => simp [hc] at hap
    | s x => simp [hc] at hap ⊢; rw [hap]
    | m kvs => simp [hc] at hap ⊢; rw [hap]
    | a xs =>
      simp only [hc] at hap ⊢
      cases hs : sortValues xs with
      | error e => simp [hs] at hap
      | ok sorted => simp [hs] at hap ⊢; rw [← hap, List.append_assoc]
  | mapIn k kvs π E _ ih =>
    intro π2 E2 h2
    refine .mapIn k kvs _ _ ?_
    have := ih h2
    rwa [List.append_assoc] at this
  | mapStay k kvs π E _ ih => intro π2 E2 h2; exact .mapStay k kvs _ _ (ih h2)
  | expand k xs sorted π E hs _ ih =>
    intro π2 E2 h2
    refine .expand k xs sorted _ _ hs ?_
    have := ih h2
    rwa [List.append_assoc] at this

/-! ## the specification matcher `pmv`, unfolded (only what the index argument needs) -/

theorem pmv_str (σ : Bs) (s : String) (d : J) : pmv σ (.str s) d = pmStr σ s d := by
  rw [pmv.eq_def]
theorem pmv_arr (σ : Bs) (xs : List J) (d : J) :
    pmv σ (.arr xs) d = (match d with | .arr ds => pmA σ xs ds | _ => false) := by
  rw [pmv.eq_def]; cases d <;> rfl
theorem pmv_obj (σ : Bs) (kvs : List (String × J)) (d : J) :
    pmv σ (.obj kvs) d = (match d with | .obj dm => pmO σ kvs dm dm | _ => false) := by
  rw [pmv.eq_def]; cases d <;> rfl

theorem pmO_nil (σ : Bs) (dm rest : List (String × J)) : pmO σ [] dm rest = true := by
  rw [pmO.eq_def]
theorem pmO_cons_const (σ : Bs) {k : String} (hk : isVar k = false) (v : J) (r dm rest : List (String × J)) :
    pmO σ ((k, v) :: r) dm rest =
      ((match lookupKey k dm with | some dv => pmv σ v dv | none => false) && pmO σ r dm dm) := by
  rw [pmO.eq_def]; simp only [hk, Bool.false_eq_true, if_false]
  cases lookupKey k dm <;> rfl

theorem pmA_nil (σ : Bs) (ds : List J) : pmA σ [] ds = true := by rw [pmA.eq_def]
theorem pmA_cons (σ : Bs) (x : J) (xs ds : List J) : pmA σ (x :: xs) ds = pmPick σ x xs [] ds := by
  rw [pmA.eq_def]
theorem pmPick_nil (σ : Bs) (x : J) (xs pre : List J) : pmPick σ x xs pre [] = false := by
  rw [pmPick.eq_def]
theorem pmPick_cons (σ : Bs) (x : J) (xs pre : List J) (d : J) (post : List J) :
    pmPick σ x xs pre (d :: post) =
      ((pmv σ x d && pmA σ xs (pre ++ post)) || pmPick σ x xs (pre ++ [d]) post) := by
  rw [pmPick.eq_def]

theorem pmPick_inv (σ : Bs) (x : J) (xs : List J) : ∀ (post pre : List J),
    pmPick σ x xs pre post = true →
      ∃ d post1 post2, post = post1 ++ d :: post2 ∧ pmv σ x d = true ∧ pmA σ xs (pre ++ post1 ++ post2) = true
  | [], pre, h => by simp [pmPick_nil] at h
  | d :: post, pre, h => by
      rw [pmPick_cons, Bool.or_eq_true, Bool.and_eq_true] at h
      rcases h with ⟨h1, h2⟩ | h
      · exact ⟨d, [], post, rfl, h1, by simpa using h2⟩
      · obtain ⟨d', p1, p2, rfl, h1, h2⟩ := pmPick_inv σ x xs post (pre ++ [d]) h
        exact ⟨d', d :: p1, p2, rfl, h1, by simpa using h2⟩

theorem pmA_cons_inv {σ : Bs} {x : J} {xs ys : List J} (h : pmA σ (x :: xs) ys = true) :
    ∃ d p1 p2, ys = p1 ++ d :: p2 ∧ pmv σ x d = true ∧ pmA σ xs (p1 ++ p2) = true := by
  rw [pmA_cons] at h
  obtain ⟨d, p1, p2, h0, h1, h2⟩ := pmPick_inv σ x xs ys [] h
  exact ⟨d, p1, p2, h0, h1, by simpa using h2⟩

theorem lookupKey_mem {k : String} {v : J} : ∀ {l : List (String × J)}, lookupKey k l = some v → (k, v) ∈ l
  | [], h => by simp [lookupKey] at h
  | (k', v') :: l, h => by
    simp only [lookupKey] at h
    split at h
    · next hk => cases h; have : k = k' := by simpa using hk
                 subst this; exact List.mem_cons_self
    · exact List.mem_cons_of_mem _ (lookupKey_mem h)

theorem pmO_const_inv (σ : Bs) (dm : List (String × J)) : ∀ (kvs rest : List (String × J)),
    (∀ kv ∈ kvs, isVar kv.1 = false) → pmO σ kvs dm rest = true →
    ∀ kv ∈ kvs, ∃ dv, (kv.1, dv) ∈ dm ∧ pmv σ kv.2 dv = true
  | [], _, _, _ => by simp
  | (k, v) :: r, rest, h, hp => by
      have hk : isVar k = false := h (k, v) List.mem_cons_self
      rw [pmO_cons_const σ hk, Bool.and_eq_true] at hp
      intro kv hkv
      rcases List.mem_cons.1 hkv with rfl | hkv
      · cases hl : lookupKey k dm with
        | none => simp [hl] at hp
        | some dv => simp only [hl] at hp; exact ⟨dv, lookupKey_mem hl, hp.1⟩
      · exact pmO_const_inv σ dm r dm (fun kv hkv => h kv (List.mem_cons_of_mem _ hkv)) hp.2 kv hkv

theorem isVar_anon : isVar "?" = true := by decide +kernel

theorem pmStr_const {σ : Bs} {s : String} (hs : isVar s = false) {d : J} (h : pmStr σ s d = true) :
    d = .str s := by
  have hq : (s == "?") = false := by
    rw [beq_eq_false_iff_ne]; rintro rfl; rw [isVar_anon] at hs; cases hs
  unfold pmStr at h
  simp only [hq, hs, Bool.false_eq_true, if_false] at h
  cases d <;> simp at h
  rw [h]

/-- a scalar constant only lies over itself -/
theorem pmv_scalar_const {σ : Bs} {x d : J} (hx : x.isScalar = true) (hv : isVarJ x = false)
    (h : pmv σ x d = true) : d = x := by
  cases x with
  | null => rw [pmv.eq_def] at h; cases d <;> simp at h; rfl
  | bool a => rw [pmv.eq_def] at h; cases d <;> simp at h; rw [h]
  | num a => rw [pmv.eq_def] at h; cases d <;> simp at h; rw [h]
  | str s => rw [pmv_str] at h; exact pmStr_const (by simpa [isVarJ] using hv) h
  | arr xs => simp [J.isScalar] at hx
  | obj kvs => simp [J.isScalar] at hx

/-! ## the fragments, unpacked -/

theorem idxOKO_mem : ∀ {l : List (String × J)}, idxOKO l = true →
    ∀ kv ∈ l, isVar kv.1 = false ∧ idxOKv kv.2 = true
  | [], _, kv, h => by simp at h
  | (k, v) :: r, h, kv, hkv => by
    simp only [idxOKO, Bool.and_eq_true, Bool.not_eq_true'] at h
    rcases List.mem_cons.1 hkv with rfl | hkv
    · exact ⟨h.1.1, h.1.2⟩
    · exact idxOKO_mem h.2 kv hkv

theorem evOKO_mem : ∀ {l : List (String × J)}, evOKO l = true →
    ∀ kv ∈ l, isVar kv.1 = false ∧ evOKv kv.2 = true
  | [], _, kv, h => by simp at h
  | (k, v) :: r, h, kv, hkv => by
    simp only [evOKO, Bool.and_eq_true, Bool.not_eq_true'] at h
    rcases List.mem_cons.1 hkv with rfl | hkv
    · exact ⟨h.1.1, h.1.2⟩
    · exact evOKO_mem h.2 kv hkv

theorem evOKO_of_mem : ∀ {l : List (String × J)},
    (∀ kv ∈ l, isVar kv.1 = false ∧ evOKv kv.2 = true) → evOKO l = true
  | [], _ => rfl
  | (k, v) :: r, h => by
    simp only [evOKO, Bool.and_eq_true, Bool.not_eq_true']
    exact ⟨h (k, v) List.mem_cons_self, evOKO_of_mem (fun kv hkv => h kv (List.mem_cons_of_mem _ hkv))⟩

theorem nodupKeys_nodup : ∀ {l : List (String × J)}, nodupKeys l = true → (l.map (·.1)).Nodup
  | [], _ => by simp
  | (k, v) :: r, h => by
    simp only [nodupKeys, Bool.and_eq_true, Bool.not_eq_true', List.any_eq_false, beq_iff_eq] at h
    simp only [List.map_cons, List.nodup_cons, List.mem_map, not_exists, not_and]
    exact ⟨fun kv hkv hk => h.1 kv hkv hk, nodupKeys_nodup h.2⟩

theorem sz_le_szO_of_mem {k : String} {v : J} : ∀ {l : List (String × J)}, (k, v) ∈ l → sz v ≤ szO l
  | [], h => by simp at h
  | (k', v') :: r, h => by
    rcases List.mem_cons.1 h with h | h
    · cases h; simp [szO]
    · have := sz_le_szO_of_mem h; simp [szO]; omega

theorem picast_var {s : String} (h : isVar s = true) : picast (.str s) = .v := by
  have : hasPre s "?" = true := h
  simp [picast, this]

theorem picast_scalar {x : J} (hs : x.isScalar = true) (hv : isVarJ x = false) : ∃ c, picast x = .s c := by
  cases x with
  | null => exact ⟨_, rfl⟩
  | bool b => exact ⟨_, rfl⟩
  | num n => exact ⟨_, rfl⟩
  | str s =>
    have : hasPre s "?" = false := hv
    simp only [picast, this, Bool.false_eq_true, if_false]
    split <;> exact ⟨_, rfl⟩
  | arr xs => simp [J.isScalar] at hs
  | obj kvs => simp [J.isScalar] at hs

theorem sortableConsts_unpack {l : List J} (h : sortableConsts l = true) :
    (∀ x ∈ l, x.isScalar = true ∧ isVarJ x = false) ∧
    (l.length ≤ 1 ∨ (typeCode l.head! ≠ 0 ∧ ∀ x ∈ l, typeCode x = typeCode l.head!)) := by
  simp only [sortableConsts, Bool.and_eq_true, List.all_eq_true, Bool.not_eq_true', Bool.or_eq_true,
    decide_eq_true_eq, bne_iff_ne, ne_eq, beq_iff_eq] at h
  exact ⟨fun x hx => h.1 x hx, h.2⟩

theorem sortValues_ok_of_sortable {l : List J} (h : sortableConsts l = true) : ∃ l', sortValues l = .ok l' := by
  obtain ⟨_, h2⟩ := sortableConsts_unpack h
  by_cases hl : l.length ≤ 1
  · exact ⟨l, sortValues_short hl⟩
  · rcases h2 with h2 | ⟨h2, h3⟩
    · exact absurd h2 hl
    · refine ⟨isort (ltOf (typeCode l.head!)) l, ?_⟩
      rw [sortValues_long hl]
      have : (typeCode l.head! == 0 || l.any fun x => typeCode x != typeCode l.head!) = false := by
        simp only [Bool.or_eq_false_iff, beq_eq_false_iff_ne, ne_eq, List.any_eq_false, bne_iff_ne, not_not]
        exact ⟨h2, h3⟩
      rw [this]; rfl

theorem evOKA_sortValues {ys : List J} (h : evOKA ys = true) : ∃ ys', sortValues ys = .ok ys' := by
  match ys, h with
  | [], _ => exact ⟨[], rfl⟩
  | [y], _ => exact ⟨[y], rfl⟩
  | y1 :: y2 :: r, h => exact sortValues_ok_of_sortable (by simpa [evOKA] using h)

/-- all members of an event array have one type code, and it is a sortable one unless the array is short -/
theorem evOKA_typeCode {ys : List J} (h : evOKA ys = true) :
    ∃ tc, (∀ y ∈ ys, typeCode y = tc) ∧ (tc ≠ 0 ∨ ys.length ≤ 1) := by
  match ys, h with
  | [], _ => exact ⟨0, by simp, Or.inr (by simp)⟩
  | [y], _ => exact ⟨typeCode y, by simp, Or.inr (by simp)⟩
  | y1 :: y2 :: r, h =>
    have h' : sortableConsts (y1 :: y2 :: r) = true := by simpa [evOKA] using h
    obtain ⟨_, h2⟩ := sortableConsts_unpack h'
    rcases h2 with h2 | ⟨h2, h3⟩
    · simp at h2
    · exact ⟨typeCode y1, h3, Or.inl h2⟩

theorem evOKA_mem {ys : List J} (h : evOKA ys = true) : ∀ y ∈ ys, evOKv y = true ∧ isArrJ y = false := by
  match ys, h with
  | [], _ => simp
  | [y], h =>
    simp only [evOKA, Bool.and_eq_true, Bool.not_eq_true'] at h
    intro y' hy'; simp at hy'; subst hy'; exact ⟨h.2, h.1⟩
  | y1 :: y2 :: r, h =>
    have h' : sortableConsts (y1 :: y2 :: r) = true := by simpa [evOKA] using h
    obtain ⟨h1, _⟩ := sortableConsts_unpack h'
    intro y hy
    obtain ⟨hs, hv⟩ := h1 y hy
    cases y <;> simp_all [J.isScalar, isVarJ, evOKv, isArrJ]

/-- what the search goes on with after an event value of the fragment: the pairs in front are only added -/
theorem afterPair_ev (k : String) {dv : J} (h : evOKv dv = true) :
    ∃ A, ∀ E3, afterPair k dv E3 = some (A ++ E3) := by
  cases dv with
  | null => exact ⟨[], fun _ => rfl⟩
  | bool b => exact ⟨[], fun _ => rfl⟩
  | num n => exact ⟨[], fun _ => rfl⟩
  | str s =>
    have hv : isVarJ (.str s) = false := by simpa [evOKv, isVarJ] using h
    obtain ⟨c, hc⟩ := picast_scalar (x := .str s) rfl hv
    exact ⟨[], fun _ => by simp [afterPair, hc]⟩
  | obj em => exact ⟨[], fun _ => rfl⟩
  | arr ys =>
    obtain ⟨ys', hs⟩ := evOKA_sortValues (by simpa [evOKv] using h)
    exact ⟨ys'.map (fun x => (k, x)), fun _ => by simp [afterPair, picast, hs]⟩

/-! ## one pattern pair over one event pair -/

/-- the pattern pair `(k, v)` has a path, and that path followed by any embedded continuation embeds in
the event pair `(k, dv)` followed by the continuation's pairs -/
def EmbPair (k : String) (v dv : J) : Prop :=
  ∃ π1, path [(k, v)] = some π1 ∧ ∀ π2 E3, Emb π2 E3 → Emb (π1 ++ π2) ((k, dv) :: E3)

theorem embPair_const {k : String} {v : J} {c : String} (hk : isVar k = false) (hc : picast v = .s c) :
    EmbPair k v v :=
  ⟨[.str k, .str c], by rw [path_cons_s _ hc, path_nil]; simp [hk],
    fun π2 E3 h => .const k v c π2 E3 hc h⟩

theorem embPair_var {k : String} {v dv : J} (hk : isVar k = false) (hc : picast v = .v)
    (hd : evOKv dv = true) : EmbPair k v dv := by
  obtain ⟨A, hA⟩ := afterPair_ev k hd
  exact ⟨[.str k, .var], by rw [path_cons_v _ hc, path_nil]; simp [hk],
    fun π2 E3 h => .var k dv π2 E3 _ (hA E3) (h.skip_many A)⟩

/-- sorted pattern pairs over sorted event pairs: every pattern pair finds its event pair further right -/
theorem emb_sorted : ∀ (P E : List (String × J)),
    P.Pairwise (fun a b => ¬ b.1 < a.1) → (P.map (·.1)).Nodup → E.Pairwise (fun a b => ¬ b.1 < a.1) →
    (∀ kv ∈ P, ∃ dv, (kv.1, dv) ∈ E ∧ EmbPair kv.1 kv.2 dv) →
    ∃ π, path P = some π ∧ Emb π E
  | [], E, _, _, _, _ => ⟨[], path_nil, .done E⟩
  | (k, v) :: P, E, hP, hnd, hE, H => by
    obtain ⟨dv, hmem, π1, hπ1, hemb⟩ := H (k, v) List.mem_cons_self
    obtain ⟨E1, E3, rfl⟩ := List.append_of_mem hmem
    obtain ⟨hP1, hP2⟩ := List.pairwise_cons.1 hP
    simp only [List.map_cons, List.nodup_cons] at hnd
    obtain ⟨hE1, hE2, hE12⟩ := List.pairwise_append.1 hE
    obtain ⟨hE3a, hE3⟩ := List.pairwise_cons.1 hE2
    have H' : ∀ kv ∈ P, ∃ dv, (kv.1, dv) ∈ E3 ∧ EmbPair kv.1 kv.2 dv := by
      intro kv hkv
      obtain ⟨dv', hmem', hep⟩ := H kv (List.mem_cons_of_mem _ hkv)
      refine ⟨dv', ?_, hep⟩
      have hne : kv.1 ≠ k := fun h => hnd.1 (h ▸ List.mem_map_of_mem (f := (·.1)) hkv)
      rcases List.mem_append.1 hmem' with h | h
      · -- an event pair left of `(k, dv)` with a key right of `k` in the pattern: the keys coincide
        have h1 : ¬ k < kv.1 := hE12 _ h (k, dv) List.mem_cons_self
        have h2 : ¬ kv.1 < k := hP1 kv hkv
        exact absurd (String.le_antisymm (String.not_lt.1 h1) (String.not_lt.1 h2)) hne
      · rcases List.mem_cons.1 h with h | h
        · exact absurd (congrArg Prod.fst h) hne
        · exact h
    obtain ⟨π', hπ', hemb'⟩ := emb_sorted P E3 hP2 hnd.2 hE3 H'
    refine ⟨π1 ++ π', ?_, ?_⟩
    · have := path_append' [(k, v)] P
      rw [List.singleton_append] at this
      rw [this, hπ1, hπ']; rfl
    · exact (hemb π' E3 hemb').skip_many E1

/-- a map pattern over a map event, given the claim for the values -/
theorem emb_map (σ : Bs) {pm em : List (String × J)} (hnd : nodupKeys pm = true) (hpm : idxOKO pm = true)
    (hem : evOKO em = true) (hm : pmO σ pm em em = true)
    (IH : ∀ kv ∈ pm, ∀ dv, evOKv dv = true → pmv σ kv.2 dv = true → EmbPair kv.1 kv.2 dv) :
    ∃ π, path (mapToPairs pm) = some π ∧ Emb π (mapToPairs em) := by
  have hpp := mapToPairs_perm pm
  have hpe := mapToPairs_perm em
  apply emb_sorted _ _ (mapToPairs_sorted pm) _ (mapToPairs_sorted em)
  · intro kv hkv
    have hkv' : kv ∈ pm := hpp.mem_iff.1 hkv
    obtain ⟨dv, hmem, hpmv⟩ := pmO_const_inv σ em pm em (fun kv hkv => (idxOKO_mem hpm kv hkv).1) hm kv hkv'
    exact ⟨dv, hpe.mem_iff.2 hmem, IH kv hkv' dv (evOKO_mem hem _ hmem).2 hpmv⟩
  · exact ((hpp.map (·.1)).nodup_iff).2 (nodupKeys_nodup hnd)

/-! ## arrays of constants -/

/-- the edges of the pairs `(k, x)` for scalar constants `x` -/
def cedges (k : String) : List J → List Edge
  | [] => []
  | x :: xs => (match picast x with | .s c => [Edge.str k, Edge.str c] | _ => []) ++ cedges k xs

theorem path_elems_consts {k : String} (hk : isVar k = false) : ∀ (l : List J),
    (∀ x ∈ l, ∃ c, picast x = .s c) → path (l.map (fun x => (k, x))) = some (cedges k l)
  | [], _ => path_nil
  | x :: l, h => by
    obtain ⟨c, hc⟩ := h x List.mem_cons_self
    rw [List.map_cons, path_cons_s _ hc, path_elems_consts hk l (fun y hy => h y (List.mem_cons_of_mem _ hy))]
    simp [cedges, hc, hk]

theorem emb_consts {k : String} {π2 : List Edge} {E3 : List (String × J)} (h2 : Emb π2 E3) :
    ∀ {l ys : List J}, l <+ ys → (∀ x ∈ l, ∃ c, picast x = .s c) →
    Emb (cedges k l ++ π2) (ys.map (fun x => (k, x)) ++ E3) := by
  intro l ys hsub
  induction hsub with
  | slnil => intro _; exact h2
  | cons a _ ih => intro h; exact .skip _ _ _ (ih h)
  | cons_cons a _ ih =>
    intro h
    obtain ⟨c, hc⟩ := h a List.mem_cons_self
    simp only [cedges, hc, List.map_cons, List.cons_append, List.nil_append]
    exact .const k a c _ _ hc (ih (fun y hy => h y (List.mem_cons_of_mem _ hy)))

/-- pattern constants laid injectively over event elements form a sub-multiset -/
theorem pmA_subperm (σ : Bs) : ∀ (xs ys : List J), (∀ x ∈ xs, x.isScalar = true ∧ isVarJ x = false) →
    pmA σ xs ys = true → xs <+~ ys
  | [], ys, _, _ => List.nil_subperm
  | x :: xs, ys, hx, h => by
    obtain ⟨d, p1, p2, rfl, h1, h2⟩ := pmA_cons_inv h
    have hd : d = x := pmv_scalar_const (hx x List.mem_cons_self).1 (hx x List.mem_cons_self).2 h1
    subst hd
    have ih := pmA_subperm σ xs (p1 ++ p2) (fun y hy => hx y (List.mem_cons_of_mem _ hy)) h2
    have : (d :: (p1 ++ p2)).Perm (p1 ++ d :: p2) := List.perm_middle.symm
    exact ((List.subperm_cons d).2 ih).trans this.subperm

theorem sortValues_sorted {l l' : List J} {tc : Nat} (h : sortValues l = .ok l') (htc : ∀ x ∈ l, typeCode x = tc) :
    l'.Pairwise (fun a b => ltOf tc b a = false) := by
  by_cases hl : l.length ≤ 1
  · rw [sortValues_short hl] at h; cases h
    match l, hl with
    | [], _ => exact .nil
    | [x], _ => exact List.pairwise_singleton _ _
  · rw [sortValues_long hl] at h
    split at h
    · cases h
    · cases h
      have : typeCode l.head! = tc := by
        match l, hl with
        | [], hl => exact absurd (by simp) hl
        | [x], hl => exact absurd (by simp) hl
        | x :: y :: r, _ => exact htc x List.mem_cons_self
      rw [this]; exact isort_ltOf_pairwise tc l

/-- the sorted pattern constants are a sublist of the sorted event elements -/
theorem sorted_sublist {xs ys xs' ys' : List J} {tc : Nat} (hsp : xs <+~ ys)
    (htc : ∀ y ∈ ys, typeCode y = tc) (hok : tc ≠ 0 ∨ ys.length ≤ 1)
    (hx : sortValues xs = .ok xs') (hy : sortValues ys = .ok ys') : xs' <+ ys' := by
  have hpx := sortValues_perm hx
  have hpy := sortValues_perm hy
  have hsp' : xs' <+~ ys' := (hpx.subperm.trans hsp).trans hpy.symm.subperm
  have htcx : ∀ x ∈ xs, typeCode x = tc := fun x hx => htc x (hsp.subset hx)
  apply sublist_of_subperm_of_pairwise hsp' (sortValues_sorted hx htcx) (sortValues_sorted hy htc)
  intro a ha b hb h1 h2
  rcases hok with hok | hok
  · exact ltOf_total hok (htc a (hpy.mem_iff.1 ha)) (htc b (hpy.mem_iff.1 hb)) h2 h1
  · have hlen : ys'.length ≤ 1 := by rw [hpy.length_eq]; exact hok
    match ys', hlen, ha, hb with
    | [y], _, ha, hb => simp at ha hb; rw [ha, hb]

/-- an array of (at least one) sortable constants over an event array -/
theorem embPair_consts (σ : Bs) {k : String} (hk : isVar k = false) {xs ys : List J} (hne : xs ≠ [])
    (hxs : sortableConsts xs = true) (hys : evOKA ys = true) (hm : pmA σ xs ys = true) :
    EmbPair k (.arr xs) (.arr ys) := by
  obtain ⟨hsc, _⟩ := sortableConsts_unpack hxs
  obtain ⟨xs', hx⟩ := sortValues_ok_of_sortable hxs
  obtain ⟨ys', hy⟩ := evOKA_sortValues hys
  obtain ⟨tc, htc, hok⟩ := evOKA_typeCode hys
  have hsub : xs' <+ ys' := sorted_sublist (pmA_subperm σ xs ys hsc hm) htc hok hx hy
  have hpx := sortValues_perm hx
  have hcast : ∀ x ∈ xs', ∃ c, picast x = .s c := fun x hx' =>
    picast_scalar (hsc x (hpx.mem_iff.1 hx')).1 (hsc x (hpx.mem_iff.1 hx')).2
  refine ⟨cedges k xs', ?_, ?_⟩
  · rw [path_cons_a_ok _ rfl hx, List.append_nil]
    exact path_elems_consts hk xs' hcast
  · intro π2 E3 h2
    have hemb := emb_consts (k := k) h2 hsub hcast
    -- the path starts with the key: the event array is expanded
    match xs', hpx, hcast, hemb with
    | [], hpx, _, _ => exact absurd hpx.symm.eq_nil hne
    | x :: r, _, hcast, hemb =>
      obtain ⟨c, hc⟩ := hcast x List.mem_cons_self
      simp only [cedges, hc, List.cons_append, List.nil_append] at hemb ⊢
      exact .expand k ys ys' _ _ hy hemb

/-! ## the main induction -/

theorem evOKA_cases {ys : List J} (h : evOKA ys = true) : ys.length ≤ 1 ∨ ∀ y ∈ ys, y.isScalar = true := by
  match ys, h with
  | [], _ => exact Or.inl (by simp)
  | [y], _ => exact Or.inl (by simp)
  | y1 :: y2 :: r, h =>
    have h' : sortableConsts (y1 :: y2 :: r) = true := by simpa [evOKA] using h
    exact Or.inr (fun y hy => ((sortableConsts_unpack h').1 y hy).1)

theorem sortableConsts_singleton {x : J} (hs : x.isScalar = true) (hv : isVarJ x = false) :
    sortableConsts [x] = true := by
  simp [sortableConsts, hs, hv]

/-- **a pattern value that lies over an event value embeds** (every key `k`) -/
theorem embV (σ : Bs) : ∀ (n : Nat) (v dv : J) (k : String), sz v ≤ n → isVar k = false →
    idxOKv v = true → evOKv dv = true → pmv σ v dv = true → EmbPair k v dv := by
  intro n
  induction n with
  | zero => intro v; have := sz_pos v; omega
  | succ n ih =>
    intro v dv k hsz hk hv hd hm
    cases v with
    | null =>
      have := pmv_scalar_const (x := .null) rfl rfl hm; subst this
      exact embPair_const hk rfl
    | bool b =>
      have := pmv_scalar_const (x := .bool b) rfl rfl hm; subst this
      exact embPair_const hk rfl
    | num a =>
      have := pmv_scalar_const (x := .num a) rfl rfl hm; subst this
      exact embPair_const hk rfl
    | str s =>
      by_cases hs : isVar s = true
      · exact embPair_var hk (picast_var hs) hd
      · have hs' : isVarJ (.str s) = false := by simpa [isVarJ] using hs
        have := pmv_scalar_const (x := .str s) rfl hs' hm; subst this
        obtain ⟨c, hc⟩ := picast_scalar (x := .str s) rfl hs'
        exact embPair_const hk hc
    | obj pm =>
      rw [pmv_obj] at hm
      cases dv with
      | obj em =>
        simp only at hm
        simp only [idxOKv, Bool.and_eq_true] at hv
        have hem : evOKO em = true := by simpa [evOKv] using hd
        have hszO : szO pm ≤ n := by simp only [sz] at hsz; omega
        obtain ⟨πm, hπm, hembm⟩ := emb_map σ hv.1 hv.2 hem hm (fun kv hkv dv' hd' hm' =>
          ih kv.2 dv' kv.1 (by have := sz_le_szO_of_mem (k := kv.1) (v := kv.2) hkv; omega)
            (idxOKO_mem hv.2 kv hkv).1 (idxOKO_mem hv.2 kv hkv).2 hd' hm')
        refine ⟨.str k :: .map :: πm, ?_, ?_⟩
        · rw [path_cons_m _ rfl, List.append_nil, hπm]; simp [hk]
        · intro π2 E3 h2
          exact .mapIn k em _ _ (hembm.append h2)
      | _ => simp at hm
    | arr xs =>
      rw [pmv_arr] at hm
      cases dv with
      | arr ys =>
        simp only at hm
        have hys : evOKA ys = true := by simpa [evOKv] using hd
        have hxs : idxOKA xs = true := by simpa [idxOKv] using hv
        match xs, hxs, hm, hsz with
        | [], _, _, _ =>
          exact ⟨[], by rw [path_cons_a_ok _ rfl (sortValues_short (by simp))]; exact path_nil,
            fun π2 E3 h2 => .skip _ _ _ h2⟩
        | x1 :: x2 :: r, hxs, hm, _ =>
          exact embPair_consts σ hk (by simp) (by simpa [idxOKA] using hxs) hys hm
        | [x], hxs, hm, hsz =>
          simp only [idxOKA, Bool.and_eq_true, Bool.not_eq_true'] at hxs
          obtain ⟨hna, hxv⟩ := hxs
          have hpath : path [(k, .arr [x])] = path [(k, x)] := by
            rw [path_cons_a_ok _ rfl (sortValues_short (by simp))]; rfl
          cases x with
          | arr l => simp [isArrJ] at hna
          | null => exact embPair_consts σ hk (by simp) (sortableConsts_singleton rfl rfl) hys hm
          | bool b => exact embPair_consts σ hk (by simp) (sortableConsts_singleton rfl rfl) hys hm
          | num a => exact embPair_consts σ hk (by simp) (sortableConsts_singleton rfl rfl) hys hm
          | str s =>
            by_cases hs : isVar s = true
            · obtain ⟨π1, hπ1, h⟩ := embPair_var (dv := .arr ys) hk (picast_var hs) hd
              exact ⟨π1, hpath ▸ hπ1, h⟩
            · have hs' : isVarJ (.str s) = false := by simpa [isVarJ] using hs
              exact embPair_consts σ hk (by simp) (sortableConsts_singleton rfl hs') hys hm
          | obj pm =>
            obtain ⟨d, p1, p2, rfl, h1, h2⟩ := pmA_cons_inv hm
            have hdns : d.isScalar = false := by
              rw [pmv_obj] at h1; cases d <;> simp_all [J.isScalar]
            have hlen : (p1 ++ d :: p2).length ≤ 1 := by
              rcases evOKA_cases hys with h | h
              · exact h
              · have := h d (by simp); rw [hdns] at this; cases this
            match p1, p2, hlen with
            | [], [], _ =>
              have hdv : evOKv d = true := (evOKA_mem hys d (by simp)).1
              obtain ⟨π1, hπ1, h⟩ := ih (.obj pm) d k (by simp only [sz, szL] at hsz ⊢; omega) hk hxv hdv h1
              refine ⟨π1, hpath ▸ hπ1, ?_⟩
              intro π2 E3 h2
              have hhead : ∃ π', π1 = .str k :: π' := by
                rw [path_cons_m _ rfl] at hπ1
                simp only [hk, Bool.false_eq_true, if_false, Option.map_eq_some_iff] at hπ1
                obtain ⟨a, _, ha⟩ := hπ1
                exact ⟨_, ha.symm⟩
              obtain ⟨π', rfl⟩ := hhead
              exact .expand k [d] [d] _ _ (sortValues_short (by simp)) (h π2 E3 h2)
            | _ :: _, _, hlen => simp at hlen
            | [], _ :: _, hlen => simp at hlen
      | _ => simp at hm

/-- **match_embeds**: a pattern of the fragment that lies over an event of the fragment has a path, and the
path embeds in the event's flattened pairs -/
theorem emb_of_pmv (σ : Bs) {p ev : List (String × J)} (hp : IdxOK p = true) (hev : EvOK ev = true)
    (hm : pmv σ (.obj p) (.obj ev) = true) :
    ∃ π, path (mapToPairs p) = some π ∧ Emb π (mapToPairs ev) := by
  simp only [IdxOK, Bool.and_eq_true] at hp
  rw [pmv_obj] at hm
  exact emb_map σ hp.1 hp.2 hev hm (fun kv hkv dv hd hm' =>
    embV σ (sz kv.2) kv.2 dv kv.1 (Nat.le_refl _) (idxOKO_mem hp.2 kv hkv).1 (idxOKO_mem hp.2 kv hkv).2 hd hm')

end PI

import RulioModel.Indep
import RulioProofs.Cache

/-! Helper lemmas for C11. -/

section indep
variable {Client : Type} [DecidableEq Client]

theorem indep_gen (E : Engine Client) (F : Frame E) (i : Client) :
    ∀ (sched : List (Client × E.Op)) (s s' : E.State), F.view s i = F.view s' i →
      resultsOf i (runAll E s sched).2 = (runSolo E s' i sched).2 ∧
      F.view (runAll E s sched).1 i = F.view (runSolo E s' i sched).1 i := by
  intro sched
  induction sched with
  | nil => intro s s' h; exact ⟨rfl, h⟩
  | cons a rest ih =>
    intro s s' h
    obtain ⟨j, op⟩ := a
    by_cases hj : j = i
    · subst hj
      have h1 := F.local_res s s' j op h
      have h2 := F.local_upd s s' j op h
      obtain ⟨r1, r2⟩ := ih (E.step s j op).1 (E.step s' j op).1 h2
      simp only [runAll, runSolo, resultsOf, if_true]
      exact ⟨by rw [h1, r1], r2⟩
    · have h2 : F.view (E.step s j op).1 i = F.view s' i := by
        rw [F.frame s j i op hj]; exact h
      obtain ⟨r1, r2⟩ := ih (E.step s j op).1 s' h2
      simp only [runAll, runSolo, resultsOf, hj, if_false]
      exact ⟨r1, r2⟩

end indep

/-! ## the System engine satisfies the frame hypothesis -/

section sysframe
variable {sem : LocSem}

/-- `expire` on the component -/
def expireL (e? : Option (CEntry sem)) (released : Bool) (now : Int) : Option (CEntry sem) × Option sem.L :=
  match e? with
  | none => (none, none)
  | some e =>
    let e : CEntry sem := { e with pending := if released then e.pending - 1 else e.pending + 1 }
    if decide (0 < e.pending) || (e.loc.isSome && decide (now < e.expires)) then (some e, e.loc) else (none, none)

theorem expire_local (st : SysSt sem) (n : String) (rel : Bool) (now : Int) :
    kget (expire st n rel now).1.table n = (expireL (kget st.table n) rel now).1 ∧
    (expire st n rel now).2 = (expireL (kget st.table n) rel now).2 := by
  unfold expire expireL
  cases hk : kget st.table n with
  | none => simp [hk]
  | some e0 =>
    simp only
    generalize (if rel = true then e0.pending - 1 else e0.pending + 1) = p
    split
    · exact ⟨kget_kset_same _ _ _, rfl⟩
    · exact ⟨kget_kdel_same _ _, rfl⟩

/-- `get` on the component -/
def getL (cfg : Cfg) (slot : Option (CEntry sem)) (s : sem.S) (e : CEntry sem) (installed chk : Bool) (now : Int) :
    Option (CEntry sem) × Option sem.L :=
  let l := sem.load now s
  if chk && cfg.checkExistence && !sem.created l then (slot, none)
  else
    let e : CEntry sem := { e with loc := some l, expires := (match sem.cacheTTL l with | some d => now + d | none => e.expires) }
    ((if installed then some e else slot), some l)

theorem getE_local (cfg : Cfg) (st : SysSt sem) (n : String) (e : CEntry sem) (inst chk : Bool) (now : Int) :
    kget (getE cfg st n e inst chk now).1.table n = (getL cfg (kget st.table n) (storeOf st.store n) e inst chk now).1 ∧
    (getE cfg st n e inst chk now).2 = (getL cfg (kget st.table n) (storeOf st.store n) e inst chk now).2 := by
  unfold getE getL
  simp only
  split
  · exact ⟨rfl, rfl⟩
  · cases inst with
    | false => exact ⟨rfl, rfl⟩
    | true => exact ⟨kget_kset_same _ _ _, rfl⟩

def openL (cfg : Cfg) (slot : Option (CEntry sem)) (s : sem.S) (chk : Bool) (now : Int) : Option (CEntry sem) × Option sem.L :=
  match expireL slot false now with
  | (slot', some l) => if chk && cfg.checkExistence && !sem.created l then (slot', none) else (slot', some l)
  | (slot', none) =>
    match slot' with
    | some e => getL cfg slot' s e true chk now
    | none =>
      let e : CEntry sem := { expires := newExpires cfg now, pending := 1, loc := none }
      getL cfg (if installs cfg then some e else none) s e (installs cfg) chk now

theorem openE_local (cfg : Cfg) (st : SysSt sem) (n : String) (chk : Bool) (now : Int) :
    kget (openE cfg st n chk now).1.table n = (openL cfg (kget st.table n) (storeOf st.store n) chk now).1 ∧
    (openE cfg st n chk now).2 = (openL cfg (kget st.table n) (storeOf st.store n) chk now).2 := by
  have hx := expire_local st n false now
  have hs := (expire_spec st n false now).1
  unfold openE openL
  cases he : expire st n false now with
  | mk st1 r1 =>
    rw [he] at hx hs
    simp only at hx hs
    cases hl : expireL (kget st.table n) false now with
    | mk slot' r1' =>
      rw [hl] at hx
      simp only at hx
      obtain ⟨hx1, hx2⟩ := hx
      subst hx2
      cases r1 with
      | some l =>
        simp only
        split
        · exact ⟨hx1, rfl⟩
        · exact ⟨hx1, rfl⟩
      | none =>
        simp only
        rw [← hs]
        cases hk1 : kget st1.table n with
        | some e1 =>
          rw [hk1] at hx1; subst hx1
          simp only
          have := getE_local cfg st1 n e1 true chk now
          rw [hk1] at this
          exact this
        | none =>
          rw [hk1] at hx1; subst hx1
          simp only
          cases hi : installs cfg with
          | true =>
            have := getE_local cfg ({ st1 with table := kset st1.table n ({ expires := newExpires cfg now, pending := 1, loc := none } : CEntry sem) } : SysSt sem) n
              { expires := newExpires cfg now, pending := 1, loc := none } true chk now
            rw [kget_kset_same] at this
            simpa using this
          | false =>
            have := getE_local cfg st1 n { expires := newExpires cfg now, pending := 1, loc := none } false chk now
            rw [hk1] at this
            simpa using this

theorem updLoc_local (table : List (String × CEntry sem)) (n : String) (l : sem.L) :
    kget (updLoc table n l) n = (kget table n).map (fun e => { e with loc := some l }) := by
  unfold updLoc
  cases hk : kget table n with
  | none => simp [hk]
  | some e => simp only [Option.map]; exact kget_kset_same _ _ _

/-- one request on the component -/
def reqL (cfg : Cfg) (slot : Option (CEntry sem)) (s : sem.S) (r : ROp sem) (t1 t2 : Int) :
    (Option (CEntry sem) × sem.S) × Out sem :=
  match r with
  | .api op =>
    (match openL cfg slot s true t1 with
     | (slot1, none) => (((expireL slot1 true t2).1, s), .notFound)
     | (slot1, some l) =>
       let x := sem.exec l s op
       (((expireL (slot1.map (fun e => { e with loc := some x.1 })) true t2).1, x.2.1), .ok x.2.2))
  | .create =>
    (match openL cfg slot s false t1 with
     | (slot1, none) => (((expireL slot1 true t2).1, s), .notFound)
     | (slot1, some l) =>
       if sem.created l then (((expireL slot1 true t2).1, s), .created false)
       else
         let x := sem.mark l s
         (((expireL (slot1.map (fun e => { e with loc := some x.1 })) true t2).1, x.2), .created true))
  | .peek => (((expireL (openL cfg slot s false t1).1 true t2).1, s), .peeked)

theorem release_local (st : SysSt sem) (n : String) (t2 : Int) :
    sysView (releaseE st n t2) n = ((expireL (kget st.table n) true t2).1, storeOf st.store n) := by
  simp only [sysView, releaseE, (expire_local st n true t2).1, (expire_spec st n true t2).1]

theorem reqE_local (cfg : Cfg) (st : SysSt sem) (n : String) (r : ROp sem) (t1 t2 : Int) :
    sysView (reqE cfg st (r.toReq n) t1 t2).1 n = (reqL cfg (kget st.table n) (storeOf st.store n) r t1 t2).1 ∧
    (reqE cfg st (r.toReq n) t1 t2).2 = (reqL cfg (kget st.table n) (storeOf st.store n) r t1 t2).2 := by
  cases r with
  | api op =>
    have ho := openE_local cfg st n true t1
    have hs := (openE_spec cfg st n true t1).1
    cases hx : openE cfg st n true t1 with
    | mk st1 r1 =>
      rw [hx] at ho hs
      simp only at ho hs
      cases hl : openL cfg (kget st.table n) (storeOf st.store n) true t1 with
      | mk slot1 r1' =>
        rw [hl] at ho
        simp only at ho
        obtain ⟨ho1, ho2⟩ := ho
        subst ho2
        cases r1 with
        | none =>
          simp only [ROp.toReq, reqL, hl]
          rw [reqE_api_none cfg st st1 n op t1 t2 hx]
          show sysView (releaseE st1 n t2) n = _ ∧ _
          rw [release_local, ho1, hs]
          exact ⟨rfl, rfl⟩
        | some l =>
          simp only [ROp.toReq, reqL, hl]
          rw [reqE_api_some cfg st st1 n op t1 t2 l hx]
          show sysView (releaseE _ n t2) n = _ ∧ _
          rw [release_local]
          simp only [updSt, updLoc_local, ho1, storeOf_kset_same, hs] <;> (first | exact ⟨rfl, rfl⟩ | exact ⟨trivial, rfl⟩ | exact ⟨rfl, trivial⟩ | trivial | simp)
  | create =>
    have ho := openE_local cfg st n false t1
    have hs := (openE_spec cfg st n false t1).1
    cases hx : openE cfg st n false t1 with
    | mk st1 r1 =>
      rw [hx] at ho hs
      simp only at ho hs
      cases hl : openL cfg (kget st.table n) (storeOf st.store n) false t1 with
      | mk slot1 r1' =>
        rw [hl] at ho
        simp only at ho
        obtain ⟨ho1, ho2⟩ := ho
        subst ho2
        cases r1 with
        | none =>
          simp only [ROp.toReq, reqE, reqL, hx, hl]
          show sysView (releaseE st1 n t2) n = _ ∧ _
          rw [release_local, ho1, hs]
          first | exact ⟨rfl, rfl⟩ | exact ⟨trivial, rfl⟩ | exact ⟨rfl, trivial⟩ | exact ⟨trivial, trivial⟩
        | some l =>
          simp only [ROp.toReq, reqE, reqL, hx, hl]
          cases hc : sem.created l with
          | true =>
            simp only [if_true]
            show sysView (releaseE st1 n t2) n = _ ∧ _
            rw [release_local, ho1, hs]
            first | exact ⟨rfl, rfl⟩ | exact ⟨trivial, rfl⟩ | exact ⟨rfl, trivial⟩ | exact ⟨trivial, trivial⟩
          | false =>
            simp only [Bool.false_eq_true, if_false]
            show sysView (releaseE _ n t2) n = _ ∧ _
            rw [release_local]
            simp only [updLoc_local, ho1, storeOf_kset_same, hs] <;> (first | exact ⟨rfl, rfl⟩ | exact ⟨trivial, rfl⟩ | exact ⟨rfl, trivial⟩ | trivial | simp)
  | peek =>
    have ho := openE_local cfg st n false t1
    have hs := (openE_spec cfg st n false t1).1
    simp only [ROp.toReq, reqE, reqL]
    show sysView (releaseE _ n t2) n = _ ∧ _
    rw [release_local, ho.1, hs]
    first | exact ⟨rfl, rfl⟩ | exact ⟨trivial, rfl⟩ | exact ⟨rfl, trivial⟩ | exact ⟨trivial, trivial⟩

/-- the frame structure of the System engine -/
def sysFrame (sem : LocSem) (cfg : Cfg) : Frame (sysEngine sem cfg) where
  Comp := Option (CEntry sem) × sem.S
  view := sysView
  local_res := by
    intro s s' i op h
    have h1 := (reqE_local cfg s i op.1 op.2.1 op.2.2).2
    have h2 := (reqE_local cfg s' i op.1 op.2.1 op.2.2).2
    have ht : kget s.table i = kget s'.table i := congrArg Prod.fst h
    have hst : storeOf s.store i = storeOf s'.store i := congrArg Prod.snd h
    show (reqE cfg s (op.1.toReq i) op.2.1 op.2.2).2 = (reqE cfg s' (op.1.toReq i) op.2.1 op.2.2).2
    rw [h1, h2, ht, hst]
  local_upd := by
    intro s s' i op h
    have h1 := (reqE_local cfg s i op.1 op.2.1 op.2.2).1
    have h2 := (reqE_local cfg s' i op.1 op.2.1 op.2.2).1
    have ht : kget s.table i = kget s'.table i := congrArg Prod.fst h
    have hst : storeOf s.store i = storeOf s'.store i := congrArg Prod.snd h
    show sysView (reqE cfg s (op.1.toReq i) op.2.1 op.2.2).1 i = sysView (reqE cfg s' (op.1.toReq i) op.2.1 op.2.2).1 i
    rw [h1, h2, ht, hst]
  frame := by
    intro s i j op hij
    have hname : (op.1.toReq i).name = i := by cases op.1 <;> rfl
    have := reqE_other cfg s (op.1.toReq i) j op.2.1 op.2.2 (by rw [hname]; exact fun e => hij e.symm)
    show sysView (reqE cfg s (op.1.toReq i) op.2.1 op.2.2).1 j = sysView s j
    simp only [sysView, this.1, this.2]

end sysframe

/-! ## lazily created storage: with the check and the creation under one lock there is one instance -/

section lazy

theorem mem_setNth {α : Type} (l : List α) (i : Nat) (a x : α) (h : x ∈ setNth l i a) : x = a ∨ x ∈ l := by
  induction l generalizing i with
  | nil => simp [setNth] at h
  | cons y ys ih =>
    cases i with
    | zero =>
      simp only [setNth, List.mem_cons] at h
      rcases h with h | h
      · exact Or.inl h
      · exact Or.inr (List.mem_cons_of_mem _ h)
    | succ i =>
      simp only [setNth, List.mem_cons] at h
      rcases h with h | h
      · exact Or.inr (h ▸ List.mem_cons_self ..)
      · rcases ih i h with h' | h'
        · exact Or.inl h'
        · exact Or.inr (List.mem_cons_of_mem _ h')

def LzInv (s : LzSt) : Prop :=
  (s.storage = none ∧ s.stores.length = 0 ∧ ∀ pc ∈ s.pcs, ∃ l f, pc = LzPC.start l f) ∨
  (s.storage = some 0 ∧ s.stores.length = 1 ∧
    ∀ pc ∈ s.pcs, (∃ l f, pc = LzPC.start l f) ∨ (∃ l f, pc = LzPC.write l f 0) ∨ pc = LzPC.done 0)

theorem lzInv_step (s : LzSt) (tid : Nat) (h : LzInv s) : LzInv (lzStep true s tid) := by
  unfold lzStep
  cases hpc : s.pcs[tid]? with
  | none => exact h
  | some pc =>
    have hmem : pc ∈ s.pcs := List.mem_of_getElem? hpc
    simp only
    rcases h with ⟨h1, h2, h3⟩ | ⟨h1, h2, h3⟩
    · obtain ⟨l, f, hp⟩ := h3 pc hmem
      subst hp
      simp only [h1, if_true]
      refine Or.inr ⟨by simp [h2], by simp [h2], ?_⟩
      intro pc' hpc'
      rcases mem_setNth _ _ _ _ hpc' with e | e
      · subst e; exact Or.inr (Or.inl ⟨l, f, by simp [h2]⟩)
      · exact Or.inl (h3 pc' e)
    · rcases h3 pc hmem with ⟨l, f, hp⟩ | ⟨l, f, hp⟩ | hp
      · subst hp
        simp only [h1]
        refine Or.inr ⟨rfl, h2, ?_⟩
        intro pc' hpc'
        rcases mem_setNth _ _ _ _ hpc' with e | e
        · subst e; exact Or.inr (Or.inl ⟨l, f, rfl⟩)
        · exact h3 pc' e
      · subst hp
        simp only
        cases hs : s.stores[0]? with
        | none => exact Or.inr ⟨h1, h2, h3⟩
        | some st =>
          simp only
          refine Or.inr ⟨h1, by simp [setNth_length, h2], ?_⟩
          intro pc' hpc'
          rcases mem_setNth _ _ _ _ hpc' with e | e
          · subst e; exact Or.inr (Or.inr rfl)
          · exact h3 pc' e
      · subst hp
        exact Or.inr ⟨h1, h2, h3⟩

theorem lzInv_run (sched : List Nat) : ∀ s, LzInv s → LzInv (lzRun true s sched) := by
  induction sched with
  | nil => intro s h; exact h
  | cons t rest ih => intro s h; exact ih _ (lzInv_step s t h)

end lazy

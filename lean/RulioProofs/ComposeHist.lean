import RulioModel.ComposeFrag
import RulioProofs.ComposeState
import RulioProofs.ComposeIdx

/-! # Composition, histories: every state reached by Location operations is well-formed (and, if indexed, reachable
in the sense of `IReach`), whatever the operations answer -/

set_option linter.unusedVariables false
set_option linter.unusedSimpArgs false

/-! ## the linear reads only remove facts -/

theorem lFindRules_go_le (ev : Obj) (now : Int) : ∀ (fuel : Nat) (s : St) (ids : List String)
    (acc : List (String × Obj)), StLe s (St.lFindRules.go ev now fuel s ids acc).1 := by
  intro fuel
  induction fuel with
  | zero => intro s ids acc; simp only [St.lFindRules.go]; exact StLe.refl _
  | succ fuel ih =>
    intro s ids acc
    simp only [St.lFindRules.go]
    cases ids with
    | nil => exact StLe.refl _
    | cons i rest =>
      simp only []
      cases hg : amGet s.facts i with
      | none => exact ih s rest acc
      | some fact =>
        simp only []
        cases hr : fact.get? "rule" with
        | none => exact ih s rest acc
        | some rule =>
          simp only []
          cases hce : checkExpiration fact now with
          | error e => exact StLe.refl _
          | ok b =>
            cases b with
            | true =>
              simp only []
              have hle := (lframe now s.fuel).1 s i
              rcases hd : St.lrem s.fuel s i now with ⟨s1, r1⟩
              rw [hd] at hle
              cases r1 with
              | error e => exact hle
              | ok _ => exact hle.trans (ih s1 rest acc)
            | false =>
              simp only []
              cases rule with
              | obj r =>
                simp only []
                cases hw : Obj.get? r "when" with
                | none => exact ih s rest acc
                | some wv =>
                  cases wv with
                  | obj w =>
                    simp only []
                    cases matchesJ ((Obj.get? w "pattern").getD (.obj w)) (.obj ev) with
                    | error e => exact StLe.refl _
                    | ok bss => exact ih s rest _
                  | null | bool _ | num _ | str _ | arr _ => exact ih s rest acc
              | null | bool _ | num _ | str _ | arr _ => exact StLe.refl _

theorem lFindRules_le (s : St) (ev : Obj) (now : Int) : StLe s (s.lFindRules ev now).1 := by
  unfold St.lFindRules
  exact lFindRules_go_le ev now _ s _ []

theorem lGet_le (s : St) (id : String) (now : Int) : StLe s (s.lGet id now).1 := by
  unfold St.lGet
  cases amGet s.facts id with
  | none => exact StLe.refl _
  | some fact =>
    simp only []
    cases checkExpiration fact now with
    | error e => exact StLe.refl _
    | ok b =>
      cases b with
      | false => exact StLe.refl _
      | true =>
        simp only []
        have := (lframe now s.fuel).1 s id
        rcases hd : St.lrem s.fuel s id now with ⟨s1, r1⟩
        rw [hd] at this
        cases r1 <;> exact this

/-! ## the invariant of reachable location states -/

/-- well-formed, and reachable in the sense of C01 when indexed -/
def StGood (s : St) : Prop := WF s ∧ (s.kind = .indexed → IReach s)

theorem stGood_fresh (k : Kind) : StGood { kind := k } :=
  ⟨wf_empty k, fun hk => by cases k with | indexed => exact IReach.init | linear => cases hk⟩

theorem stGood_get {s : St} (h : StGood s) (id : String) (now : Int) : StGood (s.get id now).1 := by
  unfold St.get
  cases hk : s.kind with
  | indexed =>
    have hle := iGet_le s id now
    exact ⟨h.1.le hle, fun _ => IReach.get s id now (h.2 hk)⟩
  | linear =>
    have hle := lGet_le s id now
    exact ⟨h.1.le hle, fun hk' => by rw [hle.kind, hk] at hk'; cases hk'⟩

theorem stGood_add {s : St} (h : StGood s) (given : String) (x : Obj) (now : Int) : StGood (s.add given x now).1 := by
  refine ⟨h.1.add given x now, fun hk' => ?_⟩
  have hkind : (s.add given x now).1.kind = s.kind := by
    rcases add_shape s given x now with ⟨_, _, hf⟩ | ⟨_, _, _, ha⟩
    · exact hf.kind
    · exact ha.kind
  have hk : s.kind = .indexed := hkind ▸ hk'
  rw [← iAdd_kind s given x now hk]
  exact IReach.add s given x now (h.2 hk)

theorem stGood_rem {s : St} (h : StGood s) (id : String) (now : Int) : StGood (s.rem id now).1 := by
  have hle := rem_le s id now
  refine ⟨h.1.le hle, fun hk' => ?_⟩
  have hk : s.kind = .indexed := hle.kind ▸ hk'
  unfold St.rem
  rw [hk]
  exact IReach.rem s s.fuel id now (h.2 hk)

theorem stGood_search {s : St} (h : StGood s) (p : Obj) (now : Int) : StGood (s.search p now).1 := by
  unfold St.search
  cases hk : s.kind with
  | indexed =>
    have hle := (iframe now s.fuel).2.2.2.1 s p
    exact ⟨h.1.le hle, fun _ => IReach.search s s.fuel p now (h.2 hk)⟩
  | linear =>
    have hle := (lframe now s.fuel).2.2.1 s p
    exact ⟨h.1.le hle, fun hk' => by rw [hle.kind, hk] at hk'; cases hk'⟩

theorem stGood_findRules {s : St} (h : StGood s) (ev : Obj) (now : Int) : StGood (s.findRules ev now).1 := by
  unfold St.findRules
  cases hk : s.kind with
  | indexed =>
    have hle := iFindRules_le s ev now
    exact ⟨h.1.le hle, fun _ => IReach.findRules s ev now (h.2 hk)⟩
  | linear =>
    have hle := lFindRules_le s ev now
    exact ⟨h.1.le hle, fun hk' => by rw [hle.kind, hk] at hk'; cases hk'⟩

theorem stGood_clear {s : St} (h : StGood s) : StGood s.clear :=
  ⟨wf_clear s, fun hk' => IReach.clear s (h.2 hk')⟩

/-! ## location computations that only go through the state's operations -/

/-- the computation keeps `StGood` whatever it answers -/
def LM.Pres {α} (m : LM α) : Prop := ∀ l : Loc, StGood l.st → StGood (m l).1.st

theorem pres_pure {α} (a : α) : LM.Pres (pure a : LM α) := fun l h => h
theorem pres_fail {α} (e : LErr) : LM.Pres (LM.fail e : LM α) := fun l h => h
theorem pres_get : LM.Pres LM.get := fun l h => h

theorem pres_bind {α β} {m : LM α} {f : α → LM β} (hm : LM.Pres m) (hf : ∀ a, LM.Pres (f a)) :
    LM.Pres (m >>= f) := by
  intro l h
  simp only [bind, LM.bind]
  have h1 := hm l h
  rcases hr : m l with ⟨l1, r⟩
  rw [hr] at h1
  cases r with
  | ok a => exact hf a l1 h1
  | error e => exact h1

theorem pres_attempt {α} {m : LM α} (hm : LM.Pres m) : LM.Pres (LM.attempt m) := by
  intro l h
  simp only [LM.attempt]
  have h1 := hm l h
  rcases hr : m l with ⟨l1, r⟩
  rw [hr] at h1
  exact h1

theorem pres_liftSt {α} {f : St → St × Except LErr α} (hf : ∀ s, StGood s → StGood (f s).1) :
    LM.Pres (LM.liftSt f) := by
  intro l h
  exact hf l.st h

theorem pres_stGet (id : String) (now : Int) : LM.Pres (stGet id now) := pres_liftSt (fun s h => stGood_get h id now)
theorem pres_stAdd (id : String) (x : Obj) (now : Int) : LM.Pres (stAdd id x now) :=
  pres_liftSt (fun s h => stGood_add h id x now)
theorem pres_stRem (id : String) (now : Int) : LM.Pres (stRem id now) := pres_liftSt (fun s h => stGood_rem h id now)
theorem pres_stSearch (p : Obj) (now : Int) : LM.Pres (stSearch p now) := pres_liftSt (fun s h => stGood_search h p now)
theorem pres_stFindRules (ev : Obj) (now : Int) : LM.Pres (stFindRules ev now) :=
  pres_liftSt (fun s h => stGood_findRules h ev now)

theorem pres_getProp (id prop : String) (dflt : J) (now : Int) : LM.Pres (getProp id prop dflt now) := by
  unfold getProp
  refine pres_bind (pres_attempt (pres_stGet _ _)) ?_
  intro a
  split
  · exact pres_pure _
  · exact pres_fail _
  · split
    · exact pres_pure _
    · exact pres_fail _

theorem pres_getPropStringD (prop : String) (now : Int) : LM.Pres (getPropStringD prop now) := by
  unfold getPropStringD
  refine pres_bind (pres_attempt (pres_getProp _ _ _ _)) ?_
  intro a
  split <;> exact pres_pure _

theorem pres_runGuard (c : Ctx) (now : Int) (g : Guard) : LM.Pres (runGuard c now g) := by
  cases g with
  | enabled =>
    unfold runGuard enabled
    refine pres_bind (pres_getPropStringD _ _) ?_
    intro e
    split
    · exact pres_pure _
    · exact pres_fail _
  | checkRead =>
    unfold runGuard checkRead
    refine pres_bind (pres_getPropStringD _ _) ?_
    intro k
    split
    · exact pres_pure _
    · exact pres_fail _
  | checkWrite =>
    unfold runGuard checkWrite
    refine pres_bind pres_get ?_
    intro l
    split
    · exact pres_fail _
    · refine pres_bind (pres_getPropStringD _ _) ?_
      intro k
      split
      · exact pres_pure _
      · exact pres_fail _
  | atCapacity =>
    unfold runGuard atCapacity
    refine pres_bind pres_get ?_
    intro l
    split
    · exact pres_fail _
    · exact pres_pure _

theorem pres_runGuards (c : Ctx) (now : Int) : ∀ gs : List Guard, LM.Pres (runGuards c now gs)
  | [] => pres_pure _
  | g :: gs => by
    unfold runGuards
    exact pres_bind (pres_runGuard c now g) (fun _ => pres_runGuards c now gs)

theorem pres_setProp (id prop : String) (v : J) (now : Int) : LM.Pres (setProp id prop v now) := pres_stAdd _ _ _
theorem pres_remProp (id prop : String) (now : Int) : LM.Pres (remProp id prop now) := pres_stRem _ _

theorem pres_locAddFact (c : Ctx) (id : String) (fact : Obj) (now : Int) : LM.Pres (locAddFact c id fact now) := by
  unfold locAddFact
  exact pres_bind (pres_runGuards _ _ _) (fun _ => pres_stAdd _ _ _)

theorem pres_locRemFact (c : Ctx) (id : String) (now : Int) : LM.Pres (locRemFact c id now) := by
  unfold locRemFact
  exact pres_bind (pres_runGuards _ _ _) (fun _ => pres_bind (pres_stRem _ _) (fun _ => pres_pure _))

theorem pres_locGetFact (c : Ctx) (id : String) (now : Int) : LM.Pres (locGetFact c id now) := by
  unfold locGetFact
  exact pres_bind (pres_runGuards _ _ _) (fun _ => pres_stGet _ _)

theorem pres_locSearchFacts (c : Ctx) (p : Obj) (now : Int) : LM.Pres (locSearchFacts c p now) := by
  unfold locSearchFacts
  exact pres_bind (pres_runGuards _ _ _) (fun _ => pres_stSearch _ _)

theorem pres_locAddRule (c : Ctx) (id : String) (rule : Obj) (now : Int) : LM.Pres (locAddRule c id rule now) := by
  unfold locAddRule
  refine pres_bind (pres_runGuards _ _ _) (fun _ => ?_)
  split
  · exact pres_fail _
  · split
    · exact pres_fail _
    · exact pres_stAdd _ _ _

theorem pres_locRemRule (c : Ctx) (id : String) (now : Int) : LM.Pres (locRemRule c id now) := by
  unfold locRemRule
  refine pres_bind (pres_runGuards _ _ _) (fun _ => pres_bind (pres_stRem _ _) (fun _ =>
    pres_bind (pres_getProp _ _ _ _) (fun a => ?_)))
  obtain ⟨v, found⟩ := a
  cases found with
  | true => exact pres_bind (pres_remProp _ _ _) (fun _ => pres_pure _)
  | false => exact pres_pure _

theorem pres_locEnableRule (c : Ctx) (id : String) (enable : Bool) (now : Int) :
    LM.Pres (locEnableRule c id enable now) := by
  unfold locEnableRule
  refine pres_bind (pres_runGuards _ _ _) (fun _ => ?_)
  split
  · exact pres_bind (pres_remProp _ _ _) (fun _ => pres_pure _)
  · exact pres_bind (pres_setProp _ _ _ _) (fun _ => pres_pure _)

theorem pres_locSearchRules (c : Ctx) (ev : Obj) (now : Int) : LM.Pres (locSearchRules c ev now) := by
  unfold locSearchRules
  refine pres_bind (pres_runGuards _ _ _) (fun _ => pres_bind (pres_stFindRules _ _) (fun cands => ?_))
  split
  · exact pres_pure _
  · exact pres_fail _

theorem pres_locClear (c : Ctx) (now : Int) : LM.Pres (locClear c now) := by
  unfold locClear
  refine pres_bind (pres_runGuards _ _ _) (fun _ => ?_)
  intro l h
  exact stGood_clear h

/-- **every Location operation keeps the state well-formed and (if indexed) reachable** -/
theorem stGood_step {l : Loc} (h : StGood l.st) (op : LocOp) : StGood (op.step l).st := by
  cases op with
  | addRule c id rule now => exact pres_locAddRule c id rule now l h
  | remRule c id now => exact pres_locRemRule c id now l h
  | enableRule c id en now => exact pres_locEnableRule c id en now l h
  | addFact c id fact now => exact pres_locAddFact c id fact now l h
  | remFact c id now => exact pres_locRemFact c id now l h
  | getFact c id now => exact pres_locGetFact c id now l h
  | searchFacts c p now => exact pres_locSearchFacts c p now l h
  | searchRules c ev now => exact pres_locSearchRules c ev now l h
  | clear c now => exact pres_locClear c now l h

theorem stGood_run {l : Loc} (h : StGood l.st) (ops : List LocOp) : StGood (l.run ops).st := by
  induction ops generalizing l with
  | nil => exact h
  | cons op rest ih => exact ih (stGood_step h op)

/-- **after any history of Location operations on a fresh location** the state is well-formed, and reachable in
the sense of C01 when it is indexed -/
theorem stGood_history (name : String) (k : Kind) (ops : List LocOp) : StGood ((Loc.fresh name k).run ops).st :=
  stGood_run (stGood_fresh k) ops

import RulioProofs.MatchSound

/-! # Completeness of the matcher model with respect to `pmv` (C05) -/

open List

/-- completeness statement for one pattern: every specification binding `τ` that extends the incoming
bindings and satisfies the scalar condition is approximated from below by a returned binding -/
def CompleteJ (τ : Bs) (p : J) : Prop :=
  patOK p = true → ∀ (d : J) (bs : Bs) (bss : List Bs), dataOK d = true →
    matchJ p d bs = .ok bss → bs.Ext τ → SC τ (varsOf p) bs → pmv τ p d = true →
      ∃ σ ∈ bss, σ.Ext τ

theorem matchStr_complete {τ : Bs} {s : String} {f : J} {bs : Bs} {out : List Bs}
    (h : matchStr s f bs = .ok out) (hτ : bs.Ext τ) (hsc : SC τ (varsOf (.str s)) bs)
    (hpm : pmStr τ s f = true) : ∃ σ ∈ out, σ.Ext τ := by
  unfold matchStr at h
  by_cases hv : isVar s = true
  · simp only [hv, Bool.not_true, Bool.false_eq_true, if_false] at h
    by_cases hq : (s == "?") = true
    · simp only [hq, if_true, Except.ok.injEq] at h
      subst h
      exact ⟨bs, List.mem_singleton.2 rfl, hτ⟩
    · simp only [hq, Bool.false_eq_true, if_false] at h
      have hq' : s ≠ "?" := by simpa using hq
      have hvs : varsOf (.str s) = [s] := by rw [varsOf_str]; simp [hv, hq']
      rw [hvs] at hsc
      -- the specification binds `s` to exactly `f`
      have hτs : τ.get? s = some f := by
        unfold pmStr at hpm
        simp only [hq, Bool.false_eq_true, if_false, hv, if_true] at hpm
        cases hg : τ.get? s with
        | none => simp [hg] at hpm
        | some b =>
          simp only [hg, beq_iff_eq] at hpm
          rw [hpm]
      cases hg : bs.get? s with
      | none =>
        simp only [hg, Except.ok.injEq] at h
        subst h
        exact ⟨bs.set s f, List.mem_singleton.2 rfl, Bs.set_ext hτ hτs⟩
      | some b =>
        simp only [hg] at h
        have hbf : b = f := by
          have := hτ s b hg
          rw [hτs] at this
          exact (Option.some.inj this).symm
        subst hbf
        have hscal : scalarAt τ s = true := hsc s (List.mem_singleton.2 rfl) (Or.inr (by simp [hg]))
        have hbs : b.isScalar = true := by simpa [scalarAt, hτs] using hscal
        by_cases hb : b.ground = true
        · simp only [hb, if_true, Except.ok.injEq] at h
          subst h
          rw [gmatch_scalar hbs]
          exact ⟨bs, by simp, hτ⟩
        · simp [hb] at h
  · have hv' : isVar s = false := by simpa using hv
    simp only [hv', Bool.not_false, if_true] at h
    have := (pmStr_const hv' f).1 hpm
    subst this
    simp only [beq_self_eq_true, if_true, Except.ok.injEq] at h
    subst h
    exact ⟨bs, List.mem_singleton.2 rfl, hτ⟩

theorem matchO_complete (τ : Bs) (fm : List (String × J)) (hfm : dataOKO fm = true) :
    ∀ (kvs : List (String × J)),
    (∀ kv ∈ kvs, isVar kv.1 = false) → (∀ kv ∈ kvs, patOK kv.2 = true) → (∀ kv ∈ kvs, CompleteJ τ kv.2) →
    ∀ (bss out : List Bs), matchO kvs fm bss = .ok out →
      ∀ b ∈ bss, b.Ext τ → SC τ (varsOfO kvs) b →
        (∀ kv ∈ kvs, ∃ dv, lookupKey kv.1 fm = some dv ∧ pmv τ kv.2 dv = true) →
        ∃ σ ∈ out, σ.Ext τ
  | [], _, _, _, bss, out, h, b, hb, hτ, _, _ => by
      rw [matchO_nil] at h
      cases h
      exact ⟨b, hb, hτ⟩
  | (k, v) :: r, hk, hp, ih, bss, out, h, b, hb, hτ, hsc, hpm => by
      have hk0 : isVar k = false := hk (k, v) List.mem_cons_self
      have hpv : patOK v = true := hp (k, v) List.mem_cons_self
      rw [matchO_cons_const hk0] at h
      rw [varsOfO_cons_const hk0] at hsc
      obtain ⟨fv, hl, hpmv⟩ := hpm (k, v) List.mem_cons_self
      simp only at hl hpmv
      simp only [hl] at h
      obtain ⟨accs, hacc, h⟩ := (Except.bind_ok_iff _ _ _).1 h
      obtain ⟨rb, hrb, hsub⟩ := flat_mapM_mem hacc hb
      have hdfv := lookupKey_dataOK hfm hl
      obtain ⟨σ1, hσ1, hσ1τ⟩ := ih (k, v) List.mem_cons_self hpv fv b rb hdfv hrb hτ hsc.left hpmv
      have hdom1 := (soundJ v hpv fv b rb σ1 hdfv hrb hσ1).2.1
      have hne : (accs.flatMap id).isEmpty = false := by
        cases hfl : accs.flatMap id with
        | nil => have := hsub σ1 hσ1; rw [hfl] at this; cases this
        | cons _ _ => rfl
      simp only [hne, Bool.false_eq_true, if_false] at h
      exact matchO_complete τ fm hfm r (fun kv hkv => hk kv (List.mem_cons_of_mem _ hkv))
        (fun kv hkv => hp kv (List.mem_cons_of_mem _ hkv))
        (fun kv hkv => ih kv (List.mem_cons_of_mem _ hkv)) _ out h σ1 (hsub σ1 hσ1) hσ1τ
        (hsc.right_of_dom hdom1) (fun kv hkv => hpm kv (List.mem_cons_of_mem _ hkv))

theorem forall₂_append_split {α β : Type} {R : α → β → Prop} : ∀ {l1 l2 : List α} {ds : List β},
    Forall₂ R (l1 ++ l2) ds → ∃ d1 d2, ds = d1 ++ d2 ∧ Forall₂ R l1 d1 ∧ Forall₂ R l2 d2
  | [], l2, ds, h => ⟨[], ds, rfl, .nil, h⟩
  | a :: l1, l2, ds, h => by
      cases h with
      | cons h1 h2 =>
        obtain ⟨d1, d2, rfl, h3, h4⟩ := forall₂_append_split h2
        exact ⟨_ :: d1, d2, rfl, .cons h1 h3, h4⟩

theorem matchA_complete (τ : Bs) : ∀ (cs : List J),
    (∀ x ∈ cs, isVarElem x = false) → (∀ x ∈ cs, patOK x = true) → (∀ x ∈ cs, CompleteJ τ x) →
    ∀ (ns : Bool) (branches : List (List Bs × List J × List J)) (sc0 : List J)
      (out : List (List Bs × List J × List J)),
      (∀ br ∈ branches, br.2.1 = sc0) → (∀ y ∈ sc0, y.isScalar = true) →
      (∀ br ∈ branches, ∀ y ∈ br.2.2, y.isScalar = false ∧ dataOK y = true) →
      (ns = true → ∀ br ∈ branches, br.2.2 = []) →
      matchA cs ns branches = .ok out →
      ∀ br ∈ branches, ∀ b ∈ br.1, b.Ext τ → SC τ (varsOfL cs) b →
        ∀ (dc resv : List J), Forall₂ (fun x d => pmv τ x d = true) cs dc →
          (dc ++ resv) <+~ (br.2.2 ++ br.2.1) →
          ∃ br' ∈ out, ∃ σ' ∈ br'.1, σ'.Ext τ ∧ resv <+~ (br'.2.2 ++ br'.2.1)
  | [], _, _, _, ns, branches, sc0, out, _, _, _, _, h, br, hbr, b, hb, hτ, _, dc, resv, hF, hsub => by
      rw [matchA_nil] at h
      cases h
      cases hF
      exact ⟨br, hbr, b, hb, hτ, by simpa using hsub⟩
  | x :: cs, hv, hp, ih, ns, branches, sc0, out, hsc, hscal, hst, hns, h, br, hbr, b, hb, hτ, hSC,
      dc, resv, hF, hsub => by
      have hvx : isVarElem x = false := hv x List.mem_cons_self
      have hpx : patOK x = true := hp x List.mem_cons_self
      have hv' : ∀ y ∈ cs, isVarElem y = false := fun y hy => hv y (List.mem_cons_of_mem _ hy)
      have hp' : ∀ y ∈ cs, patOK y = true := fun y hy => hp y (List.mem_cons_of_mem _ hy)
      have ih' : ∀ y ∈ cs, CompleteJ τ y := fun y hy => ih y (List.mem_cons_of_mem _ hy)
      cases hF with
      | cons hxd hF' =>
      rename_i d dc'
      have hbrsc : br.2.1 = sc0 := hsc br hbr
      rw [hbrsc] at hsub
      simp only [List.cons_append] at hsub
      have hdmem : d ∈ br.2.2 ++ sc0 := hsub.subset List.mem_cons_self
      simp only [varsOfL] at hSC
      by_cases hx : x.isScalar = true
      · -- scalar constant
        have hdx : d = x := (pmv_scalar_const hx hvx d).1 hxd
        subst hdx
        have hxm : d ∈ sc0 := by
          rcases List.mem_append.1 hdmem with hm | hm
          · have := (hst br hbr d hm).1; rw [hx] at this; cases this
          · exact hm
        rw [matchA_cons_scalar hvx hx] at h
        cases branches with
        | nil => cases hbr
        | cons br0 tail =>
          obtain ⟨b0, sc, st0⟩ := br0
          simp only at h
          have hsc0 : sc = sc0 := hsc (b0, sc, st0) List.mem_cons_self
          subst hsc0
          have hc : sc.contains d = true := by simpa using hxm
          simp only [hc, if_true] at h
          have hvx0 : varsOf d = [] := varsOf_scalar_const hx hvx
          rw [hvx0, List.nil_append] at hSC
          have hsub' : (dc' ++ resv) <+~ (br.2.2 ++ sc.erase d) := by
            have h3 : (br.2.2 ++ sc).Perm (d :: (br.2.2 ++ sc.erase d)) :=
              (List.Perm.append_left _ (List.perm_cons_erase hxm)).trans List.perm_middle
            exact (List.subperm_cons d).1 (hsub.trans h3.subperm)
          refine matchA_complete τ cs hv' hp' ih' ns _ (sc.erase d) out ?_ ?_ ?_ ?_ h
            (br.1, br.2.1.erase d, br.2.2) (List.mem_map.2 ⟨br, hbr, rfl⟩) b hb hτ hSC dc' resv hF' ?_
          · intro br1 hbr1
            obtain ⟨br2, hbr2, rfl⟩ := List.mem_map.1 hbr1
            simp [hsc br2 hbr2]
          · intro y hy; exact hscal y (List.mem_of_mem_erase hy)
          · intro br1 hbr1
            obtain ⟨br2, hbr2, rfl⟩ := List.mem_map.1 hbr1
            exact hst br2 hbr2
          · intro hn br1 hbr1
            obtain ⟨br2, hbr2, rfl⟩ := List.mem_map.1 hbr1
            exact hns hn br2 hbr2
          · simp only [hbrsc]; exact hsub'
      · -- structured element
        have hx' : x.isScalar = false := by simpa using hx
        have hds : d.isScalar = false := pmv_struct hx' hxd
        have hdst : d ∈ br.2.2 := by
          rcases List.mem_append.1 hdmem with hm | hm
          · exact hm
          · have := hscal d hm; rw [hds] at this; cases this
        cases ns with
        | true => have := hns rfl br hbr; rw [this] at hdst; cases hdst
        | false =>
          rw [matchA_cons_struct hx'] at h
          obtain ⟨nbs, hnbs, h⟩ := (Except.bind_ok_iff _ _ _).1 h
          have hnb := matchA_struct_nb hnbs
          obtain ⟨rest, hfr⟩ := splitNth_mem hdst
          obtain ⟨per, hper, hf⟩ := mapM_ok_mem_left hnbs hbr
          obtain ⟨one, hone, hg⟩ := mapM_ok_mem_left hf hfr
          obtain ⟨accs, hacc, _⟩ := (Except.bind_ok_iff _ _ _).1 hg
          simp only at hacc
          obtain ⟨rb, hrb, hsubr⟩ := flat_mapM_mem hacc hb
          have hdd : dataOK d = true := (hst br hbr d hdst).2
          obtain ⟨σ1, hσ1, hσ1τ⟩ := ih x List.mem_cons_self hpx d b rb hdd hrb hτ hSC.left hxd
          have hdom1 := (soundJ x hpx d b rb σ1 hdd hrb hσ1).2.1
          have hne : (accs.flatMap id).isEmpty = false := by
            cases hfl : accs.flatMap id with
            | nil => have := hsubr σ1 hσ1; rw [hfl] at this; cases this
            | cons _ _ => rfl
          have hbr1 : (accs.flatMap id, br.2.1, rest) ∈ nbs.flatMap (fun per => per.flatMap id) :=
            (hnb _).2 ⟨br, hbr, (d, rest), hfr, accs, hacc, hne, rfl⟩
          have hne2 : (nbs.flatMap (fun per => per.flatMap id)).isEmpty = false := by
            cases hfl : nbs.flatMap (fun per => per.flatMap id) with
            | nil => rw [hfl] at hbr1; cases hbr1
            | cons _ _ => rfl
          simp only [hne2, Bool.false_eq_true, if_false] at h
          have hfrp := splitNth_perm hfr
          have hsub' : (dc' ++ resv) <+~ (rest ++ sc0) := by
            have h3 : (br.2.2 ++ sc0).Perm (d :: (rest ++ sc0)) := List.Perm.append_right _ hfrp
            exact (List.subperm_cons d).1 (hsub.trans h3.subperm)
          refine matchA_complete τ cs hv' hp' ih' false _ sc0 out ?_ hscal ?_ (by intro hn; cases hn) h
            (accs.flatMap id, br.2.1, rest) hbr1 σ1 (hsubr σ1 hσ1) hσ1τ (hSC.right_of_dom hdom1)
            dc' resv hF' ?_
          · intro br1 hbr1
            obtain ⟨br2, hbr2, fr, _, accs2, _, _, rfl⟩ := (hnb br1).1 hbr1
            exact hsc br2 hbr2
          · intro br1 hbr1
            obtain ⟨br2, hbr2, fr, hfr2, accs2, _, _, rfl⟩ := (hnb br1).1 hbr1
            intro y hy
            exact hst br2 hbr2 y ((splitNth_perm (y := fr.1) (r := fr.2) hfr2).mem_iff.2
              (List.mem_cons_of_mem _ hy))
          · simp only [hbrsc]; exact hsub'

theorem completeJ (τ : Bs) : ∀ p, CompleteJ τ p := by
  intro p
  induction p using J.ind' with
  | hnull =>
    intro _ d bs bss _ h hτ _ hpm
    rw [matchJ_null] at h
    cases d with
    | null => simp only [Except.ok.injEq] at h; subst h; exact ⟨bs, List.mem_singleton.2 rfl, hτ⟩
    | _ => rw [pmv.eq_def] at hpm; simp at hpm
  | hbool a =>
    intro _ d bs bss _ h hτ _ hpm
    rw [matchJ_bool] at h
    cases d with
    | bool b =>
      have hab : (a == b) = true := by rw [pmv.eq_def] at hpm; exact hpm
      simp only [hab, if_true, Except.ok.injEq] at h; subst h
      exact ⟨bs, List.mem_singleton.2 rfl, hτ⟩
    | _ => rw [pmv.eq_def] at hpm; simp at hpm
  | hnum a =>
    intro _ d bs bss _ h hτ _ hpm
    rw [matchJ_num] at h
    cases d with
    | num b =>
      have hab : (a == b) = true := by rw [pmv.eq_def] at hpm; exact hpm
      simp only [hab, if_true, Except.ok.injEq] at h; subst h
      exact ⟨bs, List.mem_singleton.2 rfl, hτ⟩
    | _ => rw [pmv.eq_def] at hpm; simp at hpm
  | hstr s =>
    intro _ d bs bss _ h hτ hsc hpm
    rw [matchJ_str] at h
    rw [pmv_str] at hpm
    exact matchStr_complete h hτ hsc hpm
  | hobj kvs ih =>
    intro hp d bs bss hd h hτ hsc hpm
    rw [matchJ_obj] at h
    rw [pmv_obj] at hpm
    cases d with
    | obj fm =>
      simp only at h hpm
      simp only [patOK, Bool.and_eq_true, List.all_eq_true, Bool.not_eq_true'] at hp
      have hdfm : dataOKO fm = true := by simpa [dataOK] using hd
      by_cases he : kvs.isEmpty = true
      · simp only [he, if_true, Except.ok.injEq] at h; subst h
        exact ⟨bs, List.mem_singleton.2 rfl, hτ⟩
      · have hany : (kvs.any fun kv => isVar kv.1) = false := by
          rw [List.any_eq_false]; intro kv hkv; simp [hp.1 kv hkv]
        simp only [he, hany, Bool.and_false, Bool.false_eq_true, if_false] at h
        rw [varsOf_obj] at hsc
        exact matchO_complete τ fm hdfm kvs hp.1 (patOKO_iff.1 hp.2) (fun kv hkv => ih kv hkv) [bs] bss h
          bs (List.mem_singleton.2 rfl) hτ hsc ((pmO_const_iff τ fm kvs fm hp.1).1 hpm)
    | _ => simp at hpm
  | harr xs ih =>
    intro hp d bs bss hd h hτ hsc hpm
    rw [matchJ_arr] at h
    rw [pmv_arr] at hpm
    cases hgv : getVariable xs none with
    | error e => rw [hgv] at h; cases h
    | ok vw =>
      obtain ⟨v, w⟩ := vw
      rw [hgv] at h
      cases d with
      | arr fa =>
        simp only at h hpm
        obtain ⟨branches, hbr, h⟩ := (Except.bind_ok_iff _ _ _).1 h
        have hpfull := hp
        simp only [patOK, Bool.and_eq_true, decide_eq_true_eq] at hp
        obtain ⟨⟨_, _⟩, hp3⟩ := hp
        have hpl := patOKL_iff.1 hp3
        simp only [dataOK, Bool.and_eq_true] at hd
        have hdl := dataOKL_iff.1 hd.2
        rw [distinctJ_eraseDups hd.1, matchA_filter] at hbr
        have hfa : (fa.filter (fun y => !y.isScalar) ++ fa.filter J.isScalar).Perm fa :=
          List.perm_append_comm.trans (List.filter_append_perm J.isScalar fa)
        have hgs := (getVariable_spec xs none v w hgv).1 rfl
        have hxs : (xs.filter (fun x => !isVarElem x) ++ xs.filter isVarElem).Perm xs :=
          List.perm_append_comm.trans (List.filter_append_perm isVarElem xs)
        have hcsv : ∀ x ∈ xs.filter (fun x => !isVarElem x), isVarElem x = false :=
          fun x hx => by simpa using (List.mem_filter.1 hx).2
        have hcsp : ∀ x ∈ xs.filter (fun x => !isVarElem x), patOK x = true :=
          fun x hx => hpl x (List.mem_filter.1 hx).1
        have hbr0 : ∀ br ∈ [([bs], fa.filter J.isScalar, fa.filter (fun y => !y.isScalar))],
            br = ([bs], fa.filter J.isScalar, fa.filter (fun y => !y.isScalar)) :=
          fun br hbr => List.mem_singleton.1 hbr
        have hA := matchA_complete τ (xs.filter (fun x => !isVarElem x)) hcsv hcsp
          (fun x hx => ih x (List.mem_filter.1 hx).1)
          _ _ (fa.filter J.isScalar) branches (by simp)
          (fun y hy => (List.mem_filter.1 hy).2)
          (by
            intro br hbr y hy
            rw [hbr0 br hbr] at hy
            have := List.mem_filter.1 hy
            exact ⟨by simpa using this.2, hdl y this.1⟩)
          (by
            intro hn br hbr
            rw [hbr0 br hbr]
            simpa using hn)
          hbr _ (List.mem_singleton.2 rfl) bs (List.mem_singleton.2 rfl) hτ
        rw [varsOf_arr] at hsc
        -- the specification's injective assignment, constants first
        have hpm' := pmA_perm hxs.symm hpm
        obtain ⟨ds', hF, hsub⟩ := (pmA_iff τ _ fa).1 hpm'
        obtain ⟨dc, dv, rfl, hFc, hFv⟩ := forall₂_append_split hF
        have hsub' : (dc ++ dv) <+~ (fa.filter (fun y => !y.isScalar) ++ fa.filter J.isScalar) :=
          hsub.trans hfa.symm.subperm
        cases v with
        | none =>
          simp only [pure, Except.pure, Except.ok.injEq] at h; subst h
          simp only at hgs
          have hvars : (varsOfL (xs.filter (fun x => !isVarElem x))).Perm (varsOfL xs) := by
            have := varsOfL_perm hxs
            rw [varsOfL_append, hgs] at this
            simpa [varsOfL] using this
          obtain ⟨br', hbr', σ', hσ', hσ'τ, _⟩ := hA (SC.perm hvars.symm hsc) dc dv hFc hsub'
          exact ⟨σ', List.mem_flatMap.2 ⟨br', hbr', hσ'⟩, hσ'τ⟩
        | some s =>
          obtain ⟨ext, hext, h⟩ := (Except.bind_ok_iff _ _ _).1 h
          have hsx := getVariable_some_isVar xs none (some s) w hgv rfl s rfl
          have hopt : isOptVar s = false := by
            have := hpl _ hsx.1; simpa [patOK] using this
          simp only [hopt, Bool.and_false, Bool.false_eq_true, if_false, pure, Except.pure,
            Except.ok.injEq] at h
          subst h
          simp only at hgs
          rw [hgs] at hxs hFv
          have hvars : (varsOfL (xs.filter (fun x => !isVarElem x)) ++ varsOf (.str s)).Perm (varsOfL xs) := by
            have := varsOfL_perm hxs
            rw [varsOfL_append] at this
            simpa [varsOfL] using this
          have hsc' := SC.perm hvars.symm hsc
          cases hFv with
          | cons hsd hnil =>
          cases hnil
          rename_i d
          rw [pmv_str] at hsd
          obtain ⟨br', hbr', σ', hσ', hσ'τ, hres⟩ := hA hsc'.left dc [d] hFc hsub'
          have hdmem : d ∈ br'.2.2 ++ br'.2.1 := List.singleton_subperm_iff.1 hres
          obtain ⟨rest, hfr⟩ := splitNth_mem hdmem
          obtain ⟨per, hper, hf⟩ := mapM_ok_mem_left hext hbr'
          obtain ⟨r, hr, hg⟩ := mapM_ok_mem_left hf hfr
          obtain ⟨q, hq, hqsub⟩ := flat_mapM_mem hg hσ'
          -- the domain of σ' (from the soundness pass) gives the scalar condition for the variable
          obtain ⟨br, hbrm, b, hb, _, hdomA, _⟩ :=
            matchA_sound (xs.filter (fun x => !isVarElem x)) hcsv hcsp
              (fun x _ => soundJ x) _ _ (fa.filter J.isScalar) branches (by simp)
              (by
                intro br hbr y hy
                rw [hbr0 br hbr] at hy
                exact hdl y (List.mem_filter.1 hy).1)
              hbr br' hbr' σ' hσ'
          rw [hbr0 br hbrm] at hb
          have : b = bs := by simpa using hb
          subst this
          obtain ⟨σ, hσ, hστ⟩ := matchStr_complete hq hσ'τ (hsc'.right_of_dom hdomA) hsd
          refine ⟨σ, ?_, hστ⟩
          exact List.mem_flatMap.2 ⟨per, hper, List.mem_flatMap.2 ⟨r, hr, hqsub σ hσ⟩⟩
      | _ => simp at hpm

import RulioModel.LocInv

set_option linter.unusedSimpArgs false
set_option linter.unusedVariables false

namespace LocP

/-! # What the State operations do to the maps `facts` and `store` (both implementations)

`Keeps s s'`: every id is either untouched in both maps or erased from both.  All reads (`get`, `search`,
`findRules`, with the purge of expired facts and its deleteWith cascade) and `rem` are `Keeps`. -/

section assoc
variable {α : Type}

theorem amErase_cons_eq (m : List (String × α)) (k : String) (v : α) : amErase ((k, v) :: m) k = amErase m k := by
  simp [amErase, List.filter_cons]

theorem amErase_cons_ne (m : List (String × α)) {k k' : String} (v : α) (h : k' ≠ k) :
    amErase ((k', v) :: m) k = (k', v) :: amErase m k := by
  simp [amErase, List.filter_cons, h]

theorem amGet_cons_eq (m : List (String × α)) (k : String) (v : α) : amGet ((k, v) :: m) k = some v := by
  simp [amGet]

theorem amGet_cons_ne (m : List (String × α)) {k k' : String} (v : α) (h : k ≠ k') :
    amGet ((k', v) :: m) k = amGet m k := by
  have : (k == k') = false := by simpa using h
  simp [amGet, this]

theorem amGet_amErase_self (m : List (String × α)) (k : String) : amGet (amErase m k) k = none := by
  induction m with
  | nil => rfl
  | cons p m ih =>
    obtain ⟨k', v⟩ := p
    by_cases h : k' = k
    · subst h; rw [amErase_cons_eq]; exact ih
    · rw [amErase_cons_ne m v h, amGet_cons_ne _ v (Ne.symm h)]; exact ih

theorem amGet_amErase_ne (m : List (String × α)) {k k' : String} (h : k' ≠ k) :
    amGet (amErase m k) k' = amGet m k' := by
  induction m with
  | nil => rfl
  | cons p m ih =>
    obtain ⟨k'', v⟩ := p
    by_cases h1 : k'' = k
    · subst h1
      rw [amErase_cons_eq, amGet_cons_ne _ v h]; exact ih
    · rw [amErase_cons_ne m v h1]
      by_cases h2 : k' = k''
      · subst h2; rw [amGet_cons_eq, amGet_cons_eq]
      · rw [amGet_cons_ne _ v h2, amGet_cons_ne _ v h2]; exact ih

theorem amGet_map_set (m : List (String × α)) (k : String) (v : α) (k' : String) :
    amGet (m.map (fun p => if p.1 == k then (k, v) else p)) k' =
      if k' = k then (if m.any (fun p => p.1 == k) then some v else none) else amGet m k' := by
  induction m with
  | nil => simp [amGet]
  | cons p m ih =>
    obtain ⟨k'', w⟩ := p
    rw [List.map_cons, List.any_cons]
    by_cases h1 : k'' = k
    · subst h1
      have e1 : (if ((k'', w).1 == k'') = true then (k'', v) else (k'', w)) = (k'', v) := by simp
      rw [e1]
      by_cases h2 : k' = k''
      · subst h2; rw [amGet_cons_eq]; simp
      · rw [amGet_cons_ne _ v h2, ih, amGet_cons_ne _ w h2]; simp [h2]
    · have h1' : ((k'', w).1 == k) = false := by simpa using h1
      rw [h1', Bool.false_or]
      have e1 : (if false = true then (k, v) else (k'', w)) = (k'', w) := by simp
      rw [e1]
      by_cases h2 : k' = k''
      · subst h2; rw [amGet_cons_eq, amGet_cons_eq]; simp [h1]
      · rw [amGet_cons_ne _ w h2, ih, amGet_cons_ne _ w h2]

theorem amGet_append_single (m : List (String × α)) (k : String) (v : α) (k' : String) :
    amGet (m ++ [(k, v)]) k' = match amGet m k' with | some x => some x | none => if k' = k then some v else none := by
  induction m with
  | nil => by_cases h : k' = k <;> simp [amGet, h]
  | cons p m ih =>
    obtain ⟨k'', w⟩ := p
    by_cases h2 : k' = k''
    · subst h2; simp [amGet]
    · have : (k' == k'') = false := by simpa using h2
      simp [amGet, this, ih]

theorem amGet_none_of_not_any (m : List (String × α)) (k : String) (h : m.any (fun p => p.1 == k) = false) :
    amGet m k = none := by
  induction m with
  | nil => rfl
  | cons p m ih =>
    obtain ⟨k'', w⟩ := p
    simp only [List.any_cons, Bool.or_eq_false_iff] at h
    have : (k == k'') = false := by
      have := h.1; simp at this; simpa using fun e => this e.symm
    simp [amGet, this, ih h.2]

theorem amGet_amSet_self (m : List (String × α)) (k : String) (v : α) : amGet (amSet m k v) k = some v := by
  unfold amSet
  by_cases h : m.any (fun p => p.1 == k) = true
  · rw [if_pos h, amGet_map_set, if_pos rfl, if_pos h]
  · have h' : m.any (fun p => p.1 == k) = false := Bool.eq_false_iff.2 h
    rw [if_neg h, amGet_append_single, amGet_none_of_not_any m k h']; simp

theorem amGet_amSet_ne (m : List (String × α)) (k : String) (v : α) {k' : String} (h : k' ≠ k) :
    amGet (amSet m k v) k' = amGet m k' := by
  unfold amSet
  by_cases h1 : m.any (fun p => p.1 == k) = true
  · rw [if_pos h1, amGet_map_set, if_neg h]
  · rw [if_neg h1, amGet_append_single]; cases amGet m k' <;> simp [h]

/-- after `amSet m k v` every entry under `k` is `v` (a Go map assignment leaves nothing of the old value) -/
theorem amSet_entries (m : List (String × α)) (k : String) (v : α) :
    ∀ p ∈ amSet m k v, p.1 = k → p.2 = v := by
  intro p hp hk
  unfold amSet at hp
  by_cases h1 : m.any (fun p => p.1 == k) = true
  · rw [if_pos h1] at hp
    obtain ⟨q, hq, rfl⟩ := List.mem_map.1 hp
    by_cases h2 : q.1 = k
    · simp [h2]
    · have : (q.1 == k) = false := by simpa using h2
      simp [this] at hk; exact absurd hk h2
  · rw [if_neg h1] at hp
    rcases List.mem_append.1 hp with hq | hq
    · exfalso; apply h1; exact List.any_eq_true.2 ⟨p, hq, by simp [hk]⟩
    · simp at hq; rw [hq]

end assoc

/-! ## `Keeps` -/

/-- every id is untouched in `facts` and `store`, or erased from both -/
def Keeps (s s' : St) : Prop :=
  ∀ k, (amGet s'.facts k = amGet s.facts k ∧ amGet s'.store k = amGet s.store k) ∨
       (amGet s'.facts k = none ∧ amGet s'.store k = none)

theorem Keeps.refl (s : St) : Keeps s s := fun _ => Or.inl ⟨rfl, rfl⟩

theorem Keeps.trans {a b c : St} (h1 : Keeps a b) (h2 : Keeps b c) : Keeps a c := by
  intro k
  rcases h2 k with ⟨e1, e2⟩ | h
  · rcases h1 k with ⟨f1, f2⟩ | ⟨f1, f2⟩
    · exact Or.inl ⟨e1.trans f1, e2.trans f2⟩
    · exact Or.inr ⟨e1.trans f1, e2.trans f2⟩
  · exact Or.inr h

theorem Keeps.of_eq {s s' : St} (hf : s'.facts = s.facts) (hs : s'.store = s.store) : Keeps s s' :=
  fun _ => Or.inl ⟨by rw [hf], by rw [hs]⟩

theorem Keeps.facts_sub {s s' : St} (h : Keeps s s') {k : String} {v : Obj} (hv : amGet s'.facts k = some v) :
    amGet s.facts k = some v := by
  rcases h k with ⟨e, _⟩ | ⟨e, _⟩
  · rw [← e]; exact hv
  · rw [e] at hv; cases hv

theorem Keeps.facts_none {s s' : St} (h : Keeps s s') {k : String} (hv : amGet s.facts k = none) :
    amGet s'.facts k = none := by
  rcases h k with ⟨e, _⟩ | ⟨e, _⟩
  · rw [e]; exact hv
  · exact e

theorem Keeps.both_none {s s' : St} (h : Keeps s s') {k : String}
    (hv : amGet s.facts k = none ∧ amGet s.store k = none) :
    amGet s'.facts k = none ∧ amGet s'.store k = none := by
  rcases h k with ⟨e1, e2⟩ | e
  · exact ⟨e1.trans hv.1, e2.trans hv.2⟩
  · exact e

/-- if the fact is gone from `facts` although it was there, it is gone from `store` too -/
theorem Keeps.gone {s s' : St} (h : Keeps s s') {k : String} {v : Obj} (hv : amGet s.facts k = some v)
    (hn : amGet s'.facts k = none) : amGet s'.store k = none := by
  rcases h k with ⟨e1, _⟩ | e
  · rw [e1, hv] at hn; cases hn
  · exact e.2

theorem keeps_erase (s : St) (id : String) (ri : PI) (ti : TI) :
    Keeps s { s with facts := amErase s.facts id, store := amErase s.store id, ri := ri, ti := ti } := by
  intro k
  by_cases h : k = id
  · subst h; exact Or.inr ⟨amGet_amErase_self _ _, amGet_amErase_self _ _⟩
  · exact Or.inl ⟨amGet_amErase_ne _ h, amGet_amErase_ne _ h⟩

/-! ## LinearState -/

theorem linear_keeps (fuel : Nat) :
    (∀ s id now, Keeps s (St.lrem fuel s id now).1) ∧
    (∀ s ids now, Keeps s (St.lremAll fuel s ids now).1) ∧
    (∀ s p now, Keeps s (St.lsearch fuel s p now).1) ∧
    (∀ s p ids now acc, Keeps s (St.lsearchLoop fuel s p ids now acc).1) := by
  induction fuel with
  | zero =>
    refine ⟨fun s _ _ => ?_, fun s _ _ => ?_, fun s _ _ => ?_, fun s _ _ _ _ => ?_⟩ <;>
      simp [St.lrem, St.lremAll, St.lsearch, St.lsearchLoop] <;> exact Keeps.refl s
  | succ fuel ih =>
    obtain ⟨ih1, ih2, ih3, ih4⟩ := ih
    refine ⟨fun s id now => ?_, fun s ids now => ?_, fun s p now => ?_, fun s p ids now acc => ?_⟩
    · rw [St.lrem]
      have h1 : Keeps s { s with store := amErase s.store id, facts := amErase s.facts id } := by
        simpa using keeps_erase s id s.ri s.ti
      split
      · exact h1
      · split
        · rename_i s2 e heq
          have := ih3 { s with store := amErase s.store id, facts := amErase s.facts id } [("deleteWith", .arr [.str id])] now
          rw [heq] at this; exact h1.trans this
        · rename_i s2 found heq
          have h2 := ih3 { s with store := amErase s.store id, facts := amErase s.facts id } [("deleteWith", .arr [.str id])] now
          rw [heq] at h2
          split
          · rename_i s3 e heq3
            have h3 := ih2 s2 ((found.map (·.1)).filter (· != id)) now
            rw [heq3] at h3; exact (h1.trans h2).trans h3
          · rename_i s3 u heq3
            have h3 := ih2 s2 ((found.map (·.1)).filter (· != id)) now
            rw [heq3] at h3; exact (h1.trans h2).trans h3
    · cases ids with
      | nil => rw [St.lremAll]; exact Keeps.refl s
      | cons i rest =>
        rw [St.lremAll]
        split
        · rename_i s1 e heq
          have := ih1 s i now; rw [heq] at this; exact this
        · rename_i s1 u heq
          have h1 := ih1 s i now; rw [heq] at h1
          exact h1.trans (ih2 s1 rest now)
    · rw [St.lsearch]; exact ih4 s p _ now []
    · cases ids with
      | nil => rw [St.lsearchLoop]; exact Keeps.refl s
      | cons id rest =>
        rw [St.lsearchLoop]
        split
        · exact ih4 s p rest now acc
        · rename_i fact hg
          split
          · exact Keeps.refl s
          · split
            · rename_i s1 e heq
              have := ih1 s id now; rw [heq] at this; exact this
            · rename_i s1 u heq
              have h1 := ih1 s id now; rw [heq] at h1
              exact h1.trans (ih4 s1 p rest now acc)
          · split
            · exact Keeps.refl s
            · exact ih4 s p rest now _

/-! ## IndexedState -/

theorem unindexRule_maps {s s1 : St} {id : String} {r : Obj} (h : s.unindexRule id r = .ok s1) :
    s1.facts = s.facts ∧ s1.store = s.store ∧ s1.kind = s.kind ∧ s1.fresh = s.fresh := by
  unfold St.unindexRule at h
  cases hp : getRulePattern r with
  | error e => rw [hp] at h; cases h
  | ok po =>
    rw [hp] at h
    cases po with
    | none => cases h; exact ⟨rfl, rfl, rfl, rfl⟩
    | some pat =>
      simp only [bind, Except.bind] at h
      split at h
      · cases h
      · cases h; exact ⟨rfl, rfl, rfl, rfl⟩

theorem indexed_keeps (fuel : Nat) :
    (∀ s id now, Keeps s (St.irem fuel s id now).1) ∧
    (∀ s id now, Keeps s (St.ideps fuel s id now).1) ∧
    (∀ s ids now, Keeps s (St.iremAll fuel s ids now).1) ∧
    (∀ s p now, Keeps s (St.isearch fuel s p now).1) ∧
    (∀ s p ids now acc, Keeps s (St.isearchLoop fuel s p ids now acc).1) := by
  induction fuel with
  | zero =>
    refine ⟨fun s _ _ => ?_, fun s _ _ => ?_, fun s _ _ => ?_, fun s _ _ => ?_, fun s _ _ _ _ => ?_⟩ <;>
      simp [St.irem, St.ideps, St.iremAll, St.isearch, St.isearchLoop] <;> exact Keeps.refl s
  | succ fuel ih =>
    obtain ⟨ih1, ih2, ih3, ih4, ih5⟩ := ih
    refine ⟨fun s id now => ?_, fun s id now => ?_, fun s ids now => ?_, fun s p now => ?_, fun s p ids now acc => ?_⟩
    · rw [St.irem]
      split
      · rename_i fact hg
        dsimp only
        have fin : ∀ s2 : St, Keeps s s2 →
            Keeps s (match St.ideps fuel s2 id now with
              | (s3, Except.error e) => (s3, Except.error e)
              | (s3, Except.ok _) => (s3, (Except.ok true : Except LErr Bool))).1 := by
          intro s2 h1
          split
          · rename_i s3 e heq
            have := ih2 s2 id now; rw [heq] at this; exact h1.trans this
          · rename_i s3 u heq
            have := ih2 s2 id now; rw [heq] at this; exact h1.trans this
        have fin' : ∀ s1 : St, s1.facts = s.facts → s1.store = s.store → ∀ ti,
            Keeps s { s1 with facts := amErase s1.facts id, ti := ti, store := amErase s1.store id } :=
          fun s1 hf hs ti => (Keeps.of_eq hf hs).trans (keeps_erase s1 id s1.ri ti)
        cases hx : extractRule fact false with
        | error e => exact fin _ (fin' s rfl rfl _)
        | ok pr =>
          obtain ⟨r, f'⟩ := pr
          cases r with
          | none => exact fin _ (fin' s rfl rfl _)
          | some r =>
            dsimp only
            cases hu : s.unindexRule id r with
            | error e => exact Keeps.refl s
            | ok s1 => exact fin _ (fin' s1 (unindexRule_maps hu).1 (unindexRule_maps hu).2.1 _)
      · split
        · rename_i s3 e heq
          have := ih2 s id now; rw [heq] at this; exact this
        · rename_i s3 u heq
          have := ih2 s id now; rw [heq] at this; exact this
    · rw [St.ideps]
      split
      · exact Keeps.refl s
      · split
        · rename_i s1 e heq
          have := ih4 s [("deleteWith", .arr [.str id])] now; rw [heq] at this; exact this
        · rename_i s1 found heq
          have h1 := ih4 s [("deleteWith", .arr [.str id])] now; rw [heq] at h1
          exact h1.trans (ih3 s1 _ now)
    · cases ids with
      | nil => rw [St.iremAll]; exact Keeps.refl s
      | cons i rest =>
        rw [St.iremAll]
        split
        · rename_i s1 e heq
          have := ih1 s i now; rw [heq] at this; exact this
        · rename_i s1 u heq
          have h1 := ih1 s i now; rw [heq] at h1
          exact h1.trans (ih3 s1 rest now)
    · rw [St.isearch]
      split
      · exact Keeps.refl s
      · exact ih5 s p _ now []
    · cases ids with
      | nil => rw [St.isearchLoop]; exact Keeps.refl s
      | cons id rest =>
        rw [St.isearchLoop]
        split
        · exact ih5 s p rest now acc
        · rename_i fact hg
          have hs1 : ∀ (s1 : St), Keeps s s1 → ∀ acc', Keeps s (St.isearchLoop fuel s1 p rest now acc').1 :=
            fun s1 h1 acc' => h1.trans (ih5 s1 p rest now acc')
          cases hc : checkExpiration fact now with
          | error e =>
            simp only [Bool.false_eq_true, if_false]
            split
            · exact Keeps.refl s
            · exact hs1 s (Keeps.refl s) _
          | ok b =>
            cases b with
            | true =>
              simp only [if_true]
              exact hs1 _ (ih1 s id now) _
            | false =>
              simp only [Bool.false_eq_true, if_false]
              split
              · exact Keeps.refl s
              · exact hs1 s (Keeps.refl s) _

/-! ## removal -/

theorem lrem_keeps_erased (fuel : Nat) (s : St) (id : String) (now : Int) :
    Keeps { s with store := amErase s.store id, facts := amErase s.facts id } (St.lrem (fuel + 1) s id now).1 := by
  rw [St.lrem]
  split
  · exact Keeps.refl _
  · split
    · rename_i s2 e heq
      have := (linear_keeps fuel).2.2.1 { s with store := amErase s.store id, facts := amErase s.facts id }
        [("deleteWith", .arr [.str id])] now
      rw [heq] at this; exact this
    · rename_i s2 found heq
      have h2 := (linear_keeps fuel).2.2.1 { s with store := amErase s.store id, facts := amErase s.facts id }
        [("deleteWith", .arr [.str id])] now
      rw [heq] at h2
      have h3 := (linear_keeps fuel).2.1 s2 ((found.map (·.1)).filter (· != id)) now
      split
      · rename_i s3 e heq3; rw [heq3] at h3; exact h2.trans h3
      · rename_i s3 u heq3; rw [heq3] at h3; exact h2.trans h3

/-- `LinearState.rem` always erases the id from memory and storage (whatever happens in the cascade) -/
theorem lrem_absent (fuel : Nat) (s : St) (id : String) (now : Int) :
    amGet (St.lrem (fuel + 1) s id now).1.facts id = none ∧ amGet (St.lrem (fuel + 1) s id now).1.store id = none :=
  (lrem_keeps_erased fuel s id now).both_none ⟨amGet_amErase_self _ _, amGet_amErase_self _ _⟩

/-- `IndexedState.rem`: when it does not fail, the id is gone from memory, and from storage if it was in memory -/
theorem irem_ok_absent (fuel : Nat) (s s' : St) (id : String) (now : Int) (b : Bool)
    (h : St.irem (fuel + 1) s id now = (s', .ok b)) :
    amGet s'.facts id = none ∧ (amGet s.facts id ≠ none → amGet s'.store id = none) := by
  have hk : Keeps s s' := by have := (indexed_keeps (fuel + 1)).1 s id now; rw [h] at this; exact this
  cases hg : amGet s.facts id with
  | none => exact ⟨hk.facts_none hg, fun h => absurd rfl h⟩
  | some fact =>
    suffices hs : amGet s'.facts id = none from ⟨hs, fun _ => hk.gone hg hs⟩
    rw [St.irem, hg] at h
    dsimp only at h
    have fin : ∀ s2 : St, amGet s2.facts id = none →
        (match St.ideps fuel s2 id now with
          | (s3, Except.error e) => (s3, Except.error e)
          | (s3, Except.ok _) => (s3, (Except.ok true : Except LErr Bool))) = (s', .ok b) →
        amGet s'.facts id = none := by
      intro s2 h2 heq
      have hk2 := (indexed_keeps fuel).2.1 s2 id now
      split at heq
      · cases heq
      · rename_i s3 u hd
        rw [hd] at hk2
        cases heq
        exact hk2.facts_none h2
    cases hx : extractRule fact false with
    | error e => rw [hx] at h; exact fin _ (amGet_amErase_self _ _) h
    | ok pr =>
      obtain ⟨r, f'⟩ := pr
      rw [hx] at h
      cases r with
      | none => exact fin _ (amGet_amErase_self _ _) h
      | some r =>
        dsimp only at h
        cases hu : s.unindexRule id r with
        | error e => rw [hu] at h; cases h
        | ok s1 => rw [hu] at h; exact fin _ (amGet_amErase_self _ _) h

/-! ## `Get` -/

theorem St.get_keeps (s : St) (id : String) (now : Int) : Keeps s (s.get id now).1 := by
  unfold St.get
  cases s.kind
  · simp only [St.iGet]
    split
    · exact Keeps.refl s
    · split
      · exact Keeps.refl s
      · split
        · rename_i s1 e heq
          have := (indexed_keeps s.fuel).1 s id now; rw [heq] at this; exact this
        · rename_i s1 u heq
          have := (indexed_keeps s.fuel).1 s id now; rw [heq] at this; exact this
      · exact Keeps.refl s
  · simp only [St.lGet]
    split
    · exact Keeps.refl s
    · split
      · exact Keeps.refl s
      · split
        · rename_i s1 e heq
          have := (linear_keeps s.fuel).1 s id now; rw [heq] at this; exact this
        · rename_i s1 u heq
          have := (linear_keeps s.fuel).1 s id now; rw [heq] at this; exact this
      · exact Keeps.refl s

theorem St.fuel_succ (s : St) : s.fuel = (6 * s.facts.length + 11 + tiWidth s.ti) + 1 := by unfold St.fuel; omega

/-- `Get` of an expired fact never returns it; the fact is gone from memory and storage afterwards — always in
the linear state, and in the indexed state whenever the removal itself (un-indexing the rule, the deleteWith
cascade) does not fail. -/
theorem St.get_expired {s : St} {id : String} {f : Obj} {now : Int}
    (hg : amGet s.facts id = some f) (hx : checkExpiration f now = .ok true) :
    (∃ e, (s.get id now).2 = .error e) ∧
    ((∀ e, (St.irem s.fuel s id now).2 ≠ .error e) →
      amGet (s.get id now).1.facts id = none ∧ amGet (s.get id now).1.store id = none) ∧
    (s.kind = .linear →
      amGet (s.get id now).1.facts id = none ∧ amGet (s.get id now).1.store id = none) := by
  unfold St.get
  cases hk : s.kind
  · simp only [St.iGet, hg, hx]
    cases hr : St.irem s.fuel s id now with
    | mk s1 r =>
      cases r with
      | error e =>
        exact ⟨⟨e, rfl⟩, fun h => absurd rfl (h e), fun h => by cases h⟩
      | ok b =>
        rw [St.fuel_succ] at hr
        have := irem_ok_absent _ s s1 id now b hr
        exact ⟨⟨_, rfl⟩, fun _ => ⟨this.1, this.2 (by rw [hg]; simp)⟩, fun h => by cases h⟩
  · simp only [St.lGet, hg, hx]
    have habs := lrem_absent (6 * s.facts.length + 11 + tiWidth s.ti) s id now
    rw [← St.fuel_succ] at habs
    cases hr : St.lrem s.fuel s id now with
    | mk s1 r =>
      rw [hr] at habs
      cases r with
      | error e => exact ⟨⟨e, rfl⟩, fun _ => habs, fun _ => habs⟩
      | ok b => exact ⟨⟨_, rfl⟩, fun _ => habs, fun _ => habs⟩

/-! ## `Search` -/

theorem amGet_some_mem_keys {α : Type} {m : List (String × α)} {k : String} {v : α} (h : amGet m k = some v) :
    k ∈ m.map (·.1) := by
  induction m with
  | nil => cases h
  | cons p m ih =>
    obtain ⟨k', w⟩ := p
    by_cases hk : k = k'
    · subst hk; simp
    · rw [amGet_cons_ne _ w hk] at h
      exact List.mem_cons_of_mem _ (ih h)

/-- every fact returned by the linear search is stored and unexpired -/
theorem lsearchLoop_results (fuel : Nat) : ∀ (s : St) (p : Obj) (ids : List String) (now : Int)
    (acc : List (String × Obj × List Bs)) (s' : St) (out : List (String × Obj × List Bs)),
    St.lsearchLoop fuel s p ids now acc = (s', .ok out) →
    ∀ r ∈ out, r ∈ acc ∨ (amGet s.facts r.1 = some r.2.1 ∧ checkExpiration r.2.1 now = .ok false) := by
  induction fuel with
  | zero => intro s p ids now acc s' out h; simp [St.lsearchLoop] at h
  | succ fuel ih =>
    intro s p ids now acc s' out h r hr
    cases ids with
    | nil => rw [St.lsearchLoop] at h; cases h; exact Or.inl hr
    | cons id rest =>
      rw [St.lsearchLoop] at h
      split at h
      · exact ih s p rest now acc s' out h r hr
      · rename_i fact hg
        split at h
        · cases h
        · split at h
          · cases h
          · rename_i s1 u heq
            have hk : Keeps s s1 := by have := (linear_keeps fuel).1 s id now; rw [heq] at this; exact this
            rcases ih s1 p rest now acc s' out h r hr with h1 | ⟨h1, h2⟩
            · exact Or.inl h1
            · exact Or.inr ⟨hk.facts_sub h1, h2⟩
        · rename_i hc
          split at h
          · cases h
          · rename_i bss hm
            rcases ih s p rest now _ s' out h r hr with h1 | h1
            · by_cases hb : bss.isEmpty = true
              · rw [if_pos hb] at h1; exact Or.inl h1
              · rw [if_neg hb] at h1
                rcases List.mem_append.1 h1 with h2 | h2
                · exact Or.inl h2
                · simp at h2; subst h2; exact Or.inr ⟨hg, hc⟩
            · exact Or.inr h1

/-- a linear search that completes has purged every expired fact among the ids it walked -/
theorem lsearchLoop_purges (fuel : Nat) : ∀ (s : St) (p : Obj) (ids : List String) (now : Int)
    (acc : List (String × Obj × List Bs)) (s' : St) (out : List (String × Obj × List Bs)),
    St.lsearchLoop fuel s p ids now acc = (s', .ok out) →
    ∀ j ∈ ids, ∀ f, amGet s.facts j = some f → checkExpiration f now = .ok true →
      amGet s'.facts j = none ∧ amGet s'.store j = none := by
  induction fuel with
  | zero => intro s p ids now acc s' out h; simp [St.lsearchLoop] at h
  | succ fuel ih =>
    intro s p ids now acc s' out h j hj f hf hx
    cases ids with
    | nil => cases hj
    | cons id rest =>
      rw [St.lsearchLoop] at h
      split at h
      · rename_i hg
        rcases List.mem_cons.1 hj with rfl | hj'
        · rw [hf] at hg; cases hg
        · exact ih s p rest now acc s' out h j hj' f hf hx
      · rename_i fact hg
        split at h
        · cases h
        · split at h
          · cases h
          · rename_i s1 u heq
            have hk : Keeps s s1 := by have := (linear_keeps fuel).1 s id now; rw [heq] at this; exact this
            have hk' : Keeps s1 s' := by
              have := (linear_keeps fuel).2.2.2 s1 p rest now acc; rw [h] at this; exact this
            cases fuel with
            | zero => simp [St.lrem] at heq
            | succ fuel =>
              have habs := lrem_absent fuel s id now
              rw [heq] at habs
              by_cases hji : j = id
              · subst hji; exact hk'.both_none habs
              · have hj' : j ∈ rest := by
                  rcases List.mem_cons.1 hj with h1 | h1
                  · exact absurd h1 hji
                  · exact h1
                cases hg1 : amGet s1.facts j with
                | none => exact hk'.both_none ⟨hg1, hk.gone hf hg1⟩
                | some f1 =>
                  have := hk.facts_sub hg1
                  rw [hf] at this; cases this
                  exact ih s1 p rest now acc s' out h j hj' f hg1 hx
        · rename_i hc
          split at h
          · cases h
          · rcases List.mem_cons.1 hj with rfl | hj'
            · rw [hf] at hg; cases hg; rw [hx] at hc; cases hc
            · exact ih s p rest now _ s' out h j hj' f hf hx

/-- every fact returned by the indexed search is stored and not expired -/
theorem isearchLoop_results (fuel : Nat) : ∀ (s : St) (p : Obj) (ids : List String) (now : Int)
    (acc : List (String × Obj × List Bs)) (s' : St) (out : List (String × Obj × List Bs)),
    St.isearchLoop fuel s p ids now acc = (s', .ok out) →
    ∀ r ∈ out, r ∈ acc ∨ (amGet s.facts r.1 = some r.2.1 ∧ checkExpiration r.2.1 now ≠ .ok true) := by
  induction fuel with
  | zero => intro s p ids now acc s' out h; simp [St.isearchLoop] at h
  | succ fuel ih =>
    intro s p ids now acc s' out h r hr
    cases ids with
    | nil => rw [St.isearchLoop] at h; cases h; exact Or.inl hr
    | cons id rest =>
      rw [St.isearchLoop] at h
      split at h
      · exact ih s p rest now acc s' out h r hr
      · rename_i fact hg
        have keep : ∀ bss, (hne : checkExpiration fact now ≠ .ok true) →
            St.isearchLoop fuel s p rest now (if bss.isEmpty then acc else acc ++ [(id, fact, bss)]) = (s', .ok out) →
            r ∈ acc ∨ (amGet s.facts r.1 = some r.2.1 ∧ checkExpiration r.2.1 now ≠ .ok true) := by
          intro bss hne h'
          rcases ih s p rest now _ s' out h' r hr with h1 | h1
          · by_cases hb : bss.isEmpty = true
            · rw [if_pos hb] at h1; exact Or.inl h1
            · rw [if_neg hb] at h1
              rcases List.mem_append.1 h1 with h2 | h2
              · exact Or.inl h2
              · simp at h2; subst h2; exact Or.inr ⟨hg, hne⟩
          · exact Or.inr h1
        cases hc : checkExpiration fact now with
        | error e =>
          rw [hc] at h
          simp only [Bool.false_eq_true, if_false] at h
          split at h
          · cases h
          · exact keep _ (by rw [hc]; simp) h
        | ok b =>
          rw [hc] at h
          cases b with
          | true =>
            simp only [if_true] at h
            have hk : Keeps s (St.irem fuel s id now).1 := (indexed_keeps fuel).1 s id now
            rcases ih _ p rest now acc s' out h r hr with h1 | ⟨h1, h2⟩
            · exact Or.inl h1
            · exact Or.inr ⟨hk.facts_sub h1, h2⟩
          | false =>
            simp only [Bool.false_eq_true, if_false] at h
            split at h
            · cases h
            · exact keep _ (by rw [hc]; simp) h

theorem St.search_keeps (s : St) (p : Obj) (now : Int) : Keeps s (s.search p now).1 := by
  unfold St.search
  cases s.kind
  · exact (indexed_keeps s.fuel).2.2.2.1 s p now
  · exact (linear_keeps s.fuel).2.2.1 s p now

/-- `Search` (both implementations) returns only stored facts that are not expired at `now` -/
theorem St.search_results {s s' : St} {p : Obj} {now : Int} {out : List (String × Obj × List Bs)}
    (h : s.search p now = (s', .ok out)) :
    ∀ r ∈ out, amGet s.facts r.1 = some r.2.1 ∧ checkExpiration r.2.1 now ≠ .ok true := by
  intro r hr
  unfold St.search at h
  cases hk : s.kind
  · rw [hk] at h
    simp only [St.fuel_succ, St.isearch] at h
    split at h
    · cases h
    · rcases isearchLoop_results _ s p _ now [] s' out h r hr with h1 | h1
      · cases h1
      · exact h1
  · rw [hk] at h
    simp only [St.fuel_succ, St.lsearch] at h
    rcases lsearchLoop_results _ s p _ now [] s' out h r hr with h1 | ⟨h1, h2⟩
    · cases h1
    · exact ⟨h1, by rw [h2]; simp⟩

/-- a completed linear `Search` has purged every expired fact from memory and storage -/
theorem St.search_purges_linear {s s' : St} {p : Obj} {now : Int} {out : List (String × Obj × List Bs)}
    (hk : s.kind = .linear) (h : s.search p now = (s', .ok out)) {id : String} {f : Obj}
    (hg : amGet s.facts id = some f) (hx : checkExpiration f now = .ok true) :
    amGet s'.facts id = none ∧ amGet s'.store id = none := by
  unfold St.search at h
  rw [hk] at h
  simp only [St.fuel_succ, St.lsearch] at h
  exact lsearchLoop_purges _ s p _ now [] s' out h id (amGet_some_mem_keys hg) f hg hx

/-! ## `FindRules` -/

theorem iFindRules_go_keeps (fuel : Nat) : ∀ (s0 s : St) (event : Obj) (now : Int) (ids : List String)
    (acc : List (String × Obj)), Keeps s0 s → Keeps s0 (St.iFindRules.go now fuel s ids acc).1 := by
  induction fuel with
  | zero => intro s0 s ev now ids acc h; simpa [St.iFindRules.go] using h
  | succ fuel ih =>
    intro s0 s ev now ids acc h
    cases ids with
    | nil => rw [St.iFindRules.go]; exact h
    | cons id rest =>
      rw [St.iFindRules.go]
      dsimp only
      have hrem : Keeps s0 (St.irem s.fuel s id now).1 := h.trans ((indexed_keeps s.fuel).1 s id now)
      cases hc : checkExpiration ((amGet s.facts id).getD []) now with
      | error e =>
        simp only [Bool.false_eq_true, if_false]
        split
        · exact h
        · split
          · exact h
          · exact ih s0 s ev now rest _ h
          · exact h
      | ok b =>
        cases b with
        | true => simp only [if_true]; exact ih s0 _ ev now rest acc hrem
        | false =>
          simp only [Bool.false_eq_true, if_false]
          split
          · exact h
          · split
            · exact h
            · exact ih s0 s ev now rest _ h
            · exact h

theorem lFindRules_go_keeps (fuel : Nat) : ∀ (s0 s : St) (event : Obj) (now : Int) (ids : List String)
    (acc : List (String × Obj)), Keeps s0 s → Keeps s0 (St.lFindRules.go event now fuel s ids acc).1 := by
  induction fuel with
  | zero => intro s0 s ev now ids acc h; simpa [St.lFindRules.go] using h
  | succ fuel ih =>
    intro s0 s ev now ids acc h
    cases ids with
    | nil => rw [St.lFindRules.go]; exact h
    | cons id rest =>
      rw [St.lFindRules.go]
      split
      · exact ih s0 s ev now rest acc h
      · split
        · exact ih s0 s ev now rest acc h
        · split
          · exact h
          · split
            · rename_i s1 e heq
              have := (linear_keeps s.fuel).1 s id now; rw [heq] at this; exact h.trans this
            · rename_i s1 u heq
              have := (linear_keeps s.fuel).1 s id now; rw [heq] at this
              exact ih s0 s1 ev now rest acc (h.trans this)
          · split
            · split
              · dsimp only
                split
                · exact h
                · exact ih s0 s ev now rest _ h
              · exact ih s0 s ev now rest acc h
            · exact h

theorem St.findRules_keeps (s : St) (ev : Obj) (now : Int) : Keeps s (s.findRules ev now).1 := by
  unfold St.findRules
  cases s.kind
  · simp only [St.iFindRules]
    split
    · exact Keeps.refl s
    · exact iFindRules_go_keeps _ s s ev now _ [] (Keeps.refl s)
  · simp only [St.lFindRules]
    exact lFindRules_go_keeps _ s s ev now _ [] (Keeps.refl s)

theorem St.rem_keeps (s : St) (id : String) (now : Int) : Keeps s (s.rem id now).1 := by
  unfold St.rem
  cases s.kind
  · exact (indexed_keeps s.fuel).1 s id now
  · exact (linear_keeps s.fuel).1 s id now

/-! ## `Add` -/

theorem indexRule_maps (s : St) (id : String) (r : Obj) :
    (s.indexRule id r).1.facts = s.facts ∧ (s.indexRule id r).1.store = s.store := by
  unfold St.indexRule
  split <;> simp

theorem unindexPrevious_maps {s s1 : St} {id : String} {rep : Option Obj}
    (h : s.unindexPrevious id = .ok (s1, rep)) : s1.facts = s.facts ∧ s1.store = s.store := by
  unfold St.unindexPrevious at h
  split at h
  · cases h; exact ⟨rfl, rfl⟩
  · split at h
    · rename_i old _ _
      cases hu : s.unindexRule id old with
      | error e => rw [hu] at h; cases h
      | ok s2 =>
        rw [hu] at h
        simp only [Except.map] at h
        cases h
        exact ⟨(unindexRule_maps hu).1, (unindexRule_maps hu).2.1⟩
    · cases h; exact ⟨rfl, rfl⟩

theorem lAdd_ok {s s' : St} {given id : String} {x : Obj} {now : Int} (h : s.lAdd given x now = (s', .ok id)) :
    ∃ m x', prepareFact given s.freshId x now = .ok (id, m, x') ∧
      s'.facts = amSet s.facts id m ∧ s'.store = amSet s.store id (.obj m) ∧ s'.kind = s.kind := by
  unfold St.lAdd at h
  split at h
  · cases h
  · rename_i id' m x' hp
    simp only [Prod.mk.injEq, Except.ok.injEq] at h
    obtain ⟨h1, h2⟩ := h
    subst h2
    refine ⟨m, x', hp, ?_⟩
    subst h1
    split <;> exact ⟨rfl, rfl, rfl⟩

theorem lAdd_err {s s' : St} {given : String} {x : Obj} {now : Int} {e : LErr}
    (h : s.lAdd given x now = (s', .error e)) : s' = s := by
  unfold St.lAdd at h
  split at h
  · cases h; rfl
  · simp at h

/-- the rule-index part of `IndexedState.add` (touches `ri` only) -/
def idxBlock (s : St) (id : String) (rule replaced : Option Obj) : St × Option LErr :=
  match rule with
  | some r =>
    if Obj.has r "schedule" then (s, none) else
    match s.indexRule id r with
    | (s1, none) => (s1, none)
    | (s1, some e) =>
      (match replaced with
       | some old => if Obj.has old "schedule" then (s1, some e) else ((s1.indexRule id old).1, some e)
       | none => (s1, some e))
  | none => (s, none)

theorem idxBlock_maps (s : St) (id : String) (rule replaced : Option Obj) :
    (idxBlock s id rule replaced).1.facts = s.facts ∧ (idxBlock s id rule replaced).1.store = s.store ∧
    (idxBlock s id rule replaced).1.kind = s.kind := by
  have hk : ∀ (t : St) (r : Obj), (t.indexRule id r).1.kind = t.kind := by
    intro t r; unfold St.indexRule; split <;> simp
  unfold idxBlock
  split
  · rename_i r
    split
    · exact ⟨rfl, rfl, rfl⟩
    · split
      · rename_i s1 heq
        have := indexRule_maps s id r; have hk' := hk s r; rw [heq] at this hk'; exact ⟨this.1, this.2, hk'⟩
      · rename_i s1 e heq
        have h1 := indexRule_maps s id r; have hk' := hk s r; rw [heq] at h1 hk'
        split
        · rename_i old
          split
          · exact ⟨h1.1, h1.2, hk'⟩
          · have h2 := indexRule_maps s1 id old
            exact ⟨h2.1.trans h1.1, h2.2.trans h1.2, (hk s1 old).trans hk'⟩
        · exact ⟨h1.1, h1.2, hk'⟩
  · exact ⟨rfl, rfl, rfl⟩

theorem iadd_eq (s : St) (given : String) (x : Obj) (now : Int) :
    s.iadd given x now =
      match prepareFact given s.freshId x now with
      | .error e => (s, .error e)
      | .ok (id, fact, x') =>
        let s0 := if given == "" && id == s.freshId then { s with fresh := s.fresh + 1 } else s
        match extractRule fact false with
        | .error e => (s0, .error e)
        | .ok (rule, fact) =>
          match s0.unindexPrevious id with
          | .error e => (s0, .error e)
          | .ok (s1, replaced) =>
            match (idxBlock s1 id rule replaced).2 with
            | some e => ((idxBlock s1 id rule replaced).1, .error e)
            | none =>
              ({ (idxBlock s1 id rule replaced).1 with
                  ti := (extractTerms fact).foldl (fun ti t => TI.add ti t id) (idxBlock s1 id rule replaced).1.ti,
                  facts := amSet (idxBlock s1 id rule replaced).1.facts id fact }, .ok (id, x')) := by
  unfold St.iadd
  cases prepareFact given s.freshId x now with
  | error e => rfl
  | ok t =>
    obtain ⟨id, fact, x'⟩ := t
    dsimp only
    cases extractRule fact false with
    | error e => rfl
    | ok q =>
      obtain ⟨rule, fact'⟩ := q
      dsimp only
      cases St.unindexPrevious (if (given == "" && id == s.freshId) = true then { s with fresh := s.fresh + 1 } else s) id with
      | error e => rfl
      | ok q =>
        obtain ⟨s1, replaced⟩ := q
        dsimp only
        cases rule with
        | none => rfl
        | some r =>
          unfold idxBlock
          dsimp only
          cases Obj.has r "schedule" with
          | true => rfl
          | false =>
            simp only [Bool.false_eq_true, if_false]
            cases s1.indexRule id r with
            | mk s2 oe =>
              cases oe with
              | none => rfl
              | some e =>
                dsimp only
                cases replaced with
                | none => rfl
                | some old =>
                  dsimp only
                  cases Obj.has old "schedule" <;> rfl

/-- `IndexedState.add` in memory: on success the prepared fact (in its stored form) sits under the id;
on failure `facts` and `store` are what they were -/
theorem iadd_maps {s s' : St} {given : String} {x : Obj} {now : Int} {r : Except LErr (String × Obj)}
    (h : s.iadd given x now = (s', r)) :
    s'.store = s.store ∧ s'.kind = s.kind ∧
    match r with
    | .ok (id, x') => ∃ m, prepareFact given s.freshId x now = .ok (id, m, x') ∧
        s'.facts = amSet s.facts id (storedForm .indexed m)
    | .error _ => s'.facts = s.facts := by
  rw [iadd_eq] at h
  split at h
  · cases h; exact ⟨rfl, rfl, rfl⟩
  · rename_i id fact x' hp
    dsimp only at h
    have h0 : ∀ (b : Bool), (if b then { s with fresh := s.fresh + 1 } else s).facts = s.facts ∧
        (if b then { s with fresh := s.fresh + 1 } else s).store = s.store ∧
        (if b then { s with fresh := s.fresh + 1 } else s).kind = s.kind := by
      intro b; cases b <;> exact ⟨rfl, rfl, rfl⟩
    generalize (given == "" && id == s.freshId) = b at h
    have hb := h0 b
    generalize (if b = true then { s with fresh := s.fresh + 1 } else s) = s0 at h hb
    split at h
    · cases h; exact ⟨hb.2.1, hb.2.2, hb.1⟩
    · rename_i rule fact' hx
      split at h
      · cases h; exact ⟨hb.2.1, hb.2.2, hb.1⟩
      · rename_i s1 replaced hu
        have h1 := unindexPrevious_maps hu
        have hk1 : s1.kind = s0.kind := by
          unfold St.unindexPrevious at hu
          split at hu
          · cases hu; rfl
          · split at hu
            · rename_i old _ _
              cases hu' : s0.unindexRule id old with
              | error e => rw [hu'] at hu; cases hu
              | ok s2 => rw [hu'] at hu; simp only [Except.map] at hu; cases hu; exact (unindexRule_maps hu').2.2.1
            · cases hu; rfl
        have h2 := idxBlock_maps s1 id rule replaced
        split at h
        · cases h
          exact ⟨h2.2.1.trans (h1.2.trans hb.2.1), h2.2.2.trans (hk1.trans hb.2.2), h2.1.trans (h1.1.trans hb.1)⟩
        · cases h
          refine ⟨h2.2.1.trans (h1.2.trans hb.2.1), h2.2.2.trans (hk1.trans hb.2.2), fact, hp, ?_⟩
          show amSet (idxBlock s1 id rule replaced).1.facts id fact' = _
          rw [h2.1, h1.1, hb.1]
          simp [storedForm, hx]

/-- a successful `Add` (both implementations): the prepared fact, in its stored form, is what memory and
storage hold under the returned id — every entry under that id — and no other id is touched -/
theorem St.add_ok {s s' : St} {given id : String} {x : Obj} {now : Int} (h : s.add given x now = (s', .ok id)) :
    ∃ m x', prepareFact given s.freshId x now = .ok (id, m, x') ∧
      s'.facts = amSet s.facts id (storedForm s.kind m) ∧
      s'.store = amSet s.store id (.obj (storedForm s.kind m)) ∧ s'.kind = s.kind := by
  unfold St.add at h
  cases hk : s.kind
  · rw [hk] at h
    unfold St.iAdd at h
    cases hi : s.iadd given x now with
    | mk s1 r =>
      rw [hi] at h
      have hm := iadd_maps hi
      cases r with
      | error e => cases h
      | ok q =>
        obtain ⟨id', x'⟩ := q
        dsimp only at h
        simp only [Prod.mk.injEq, Except.ok.injEq] at h
        obtain ⟨h1, h2⟩ := h
        subst h2
        obtain ⟨hs, hkind, m, hp, hf⟩ := hm
        refine ⟨m, x', hp, ?_⟩
        subst h1
        refine ⟨hf, ?_, hkind.trans hk⟩
        show amSet s1.store id' (J.obj ((amGet s1.facts id').getD [])) = _
        rw [hs, hf, amGet_amSet_self]; rfl
  · rw [hk] at h
    obtain ⟨m, x', hp, hf, hs, hkind⟩ := lAdd_ok h
    exact ⟨m, x', hp, hf, hs, hkind.trans hk⟩

theorem St.add_err {s s' : St} {given : String} {x : Obj} {now : Int} {e : LErr}
    (h : s.add given x now = (s', .error e)) : s'.facts = s.facts ∧ s'.store = s.store := by
  unfold St.add at h
  cases hk : s.kind
  · rw [hk] at h
    unfold St.iAdd at h
    cases hi : s.iadd given x now with
    | mk s1 r =>
      rw [hi] at h
      have hm := iadd_maps hi
      cases r with
      | error e' => cases h; exact ⟨hm.2.2, hm.1⟩
      | ok q => cases h
  · rw [hk] at h; rw [lAdd_err h]; exact ⟨rfl, rfl⟩

/-! ## histories: an absent id stays absent until an `Add` returns it -/

theorem SOp.step_absent {s : St} {op : SOp} {now : Int} {id : String}
    (habs : amGet s.facts id = none ∧ amGet s.store id = none)
    (hadd : ∀ g x, op = .add g x → (s.add g x now).2 ≠ .ok id) :
    amGet (op.step s now).facts id = none ∧ amGet (op.step s now).store id = none := by
  cases op with
  | get i => exact (St.get_keeps s i now).both_none habs
  | search p => exact (St.search_keeps s p now).both_none habs
  | rem i => exact (St.rem_keeps s i now).both_none habs
  | findRules ev => exact (St.findRules_keeps s ev now).both_none habs
  | add g x =>
    simp only [SOp.step]
    cases hr : s.add g x now with
    | mk s' r =>
      cases r with
      | error e => have := St.add_err hr; rw [this.1, this.2]; exact habs
      | ok id' =>
        have hne : id ≠ id' := by
          intro he; apply hadd g x rfl; rw [hr, he]
        obtain ⟨m, x', _, hf, hs, _⟩ := St.add_ok hr
        show amGet s'.facts id = none ∧ amGet s'.store id = none
        rw [hf, hs, amGet_amSet_ne _ _ _ hne, amGet_amSet_ne _ _ _ hne]; exact habs

theorem runSOps_absent {id : String} : ∀ (ops : List (SOp × Int)) (s : St),
    amGet s.facts id = none ∧ amGet s.store id = none → NeverAdds id s ops →
    amGet (runSOps s ops).facts id = none ∧ amGet (runSOps s ops).store id = none
  | [], _, habs, _ => habs
  | (op, now) :: rest, s, habs, hna =>
    runSOps_absent rest (op.step s now) (SOp.step_absent habs hna.1) hna.2

end LocP

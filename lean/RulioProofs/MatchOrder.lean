import RulioProofs.MatchTop

/-! # Order independence (C05): the specification, the fragment and the variable multiset of a pattern
are invariant under permutations of map pairs and array elements at any depth -/

open List

theorem distinctJ_iff_nodup : ∀ {l : List J}, distinctJ l = true ↔ l.Nodup
  | [] => by simp [distinctJ]
  | x :: xs => by simp [distinctJ, distinctJ_iff_nodup (l := xs)]

theorem distinctJ_perm {l l' : List J} (h : l.Perm l') (hd : distinctJ l = true) : distinctJ l' = true :=
  distinctJ_iff_nodup.2 ((h.nodup_iff).1 (distinctJ_iff_nodup.1 hd))

theorem varsOfO_append : ∀ (l1 l2 : List (String × J)), varsOfO (l1 ++ l2) = varsOfO l1 ++ varsOfO l2
  | [], l2 => by simp [varsOfO]
  | (k, v) :: l1, l2 => by simp [varsOfO, varsOfO_append l1 l2]

theorem varsOfO_perm {l1 l2 : List (String × J)} (h : l1.Perm l2) : (varsOfO l1).Perm (varsOfO l2) := by
  induction h with
  | nil => exact .refl _
  | cons x _ ih => obtain ⟨k, v⟩ := x; simp only [varsOfO]; exact ih.append_left _
  | swap x y l =>
    obtain ⟨k, v⟩ := x; obtain ⟨k', v'⟩ := y
    simp only [varsOfO]
    exact List.perm_append_comm_assoc _ _ _
  | trans _ _ ih1 ih2 => exact ih1.trans ih2

theorem patOK_obj_iff (kvs : List (String × J)) :
    patOK (.obj kvs) = true ↔ (∀ kv ∈ kvs, isVar kv.1 = false) ∧ (∀ kv ∈ kvs, patOK kv.2 = true) := by
  simp only [patOK, Bool.and_eq_true, List.all_eq_true, Bool.not_eq_true', patOKO_iff]

theorem patOK_arr_iff (xs : List J) :
    patOK (.arr xs) = true ↔ (xs.filter isVarElem).length ≤ 1 ∧ distinctJ (xs.filter J.isScalar) = true ∧
      (∀ x ∈ xs, patOK x = true) := by
  rw [patOK_arr_eq]
  simp only [Bool.and_eq_true, decide_eq_true_eq, patOKL_iff, and_assoc]

theorem forall₂_replace {α β : Type} {R : α → β → Prop} {x x' : α} (h : ∀ d, R x d ↔ R x' d)
    (pre post : List α) (ds : List β) :
    Forall₂ R (pre ++ x :: post) ds ↔ Forall₂ R (pre ++ x' :: post) ds := by
  constructor
  · intro hf
    obtain ⟨d1, d2, rfl, h1, h2⟩ := forall₂_append_split hf
    cases h2 with
    | cons h3 h4 => exact List.rel_append h1 (.cons ((h _).1 h3) h4)
  · intro hf
    obtain ⟨d1, d2, rfl, h1, h2⟩ := forall₂_append_split hf
    cases h2 with
    | cons h3 h4 => exact List.rel_append h1 (.cons ((h _).2 h3) h4)

/-- what a deep permutation preserves -/
theorem PatPerm.inv {p q : J} (h : PatPerm p q) :
    p.isScalar = q.isScalar ∧ (p.isScalar = true → q = p) ∧
    (patOK p = true → patOK q = true ∧ (varsOf p).Perm (varsOf q) ∧ ∀ σ d, pmv σ p d = pmv σ q d) := by
  induction h with
  | refl p => exact ⟨rfl, fun _ => rfl, fun hp => ⟨hp, .refl _, fun _ _ => rfl⟩⟩
  | @obj kvs kvs' hperm =>
    refine ⟨rfl, fun h => by simp [J.isScalar] at h, fun hp => ?_⟩
    rw [patOK_obj_iff] at hp
    have hk' : ∀ kv ∈ kvs', isVar kv.1 = false := fun kv hkv => hp.1 kv (hperm.mem_iff.2 hkv)
    refine ⟨(patOK_obj_iff kvs').2 ⟨hk', fun kv hkv => hp.2 kv (hperm.mem_iff.2 hkv)⟩, ?_, ?_⟩
    · rw [varsOf_obj, varsOf_obj]; exact varsOfO_perm hperm
    · intro σ d
      rw [pmv_obj, pmv_obj]
      cases d with
      | obj dm =>
        simp only
        rw [Bool.eq_iff_iff, pmO_const_iff σ dm kvs dm hp.1, pmO_const_iff σ dm kvs' dm hk']
        exact ⟨fun h kv hkv => h kv (hperm.mem_iff.2 hkv), fun h kv hkv => h kv (hperm.mem_iff.1 hkv)⟩
      | _ => rfl
  | @arr xs xs' hperm =>
    refine ⟨rfl, fun h => by simp [J.isScalar] at h, fun hp => ?_⟩
    rw [patOK_arr_iff] at hp
    refine ⟨(patOK_arr_iff xs').2 ⟨?_, ?_, fun x hx => hp.2.2 x (hperm.mem_iff.2 hx)⟩, ?_, ?_⟩
    · rw [← (hperm.filter isVarElem).length_eq]; exact hp.1
    · exact distinctJ_perm (hperm.filter J.isScalar) hp.2.1
    · rw [varsOf_arr, varsOf_arr]; exact varsOfL_perm hperm
    · intro σ d
      rw [pmv_arr, pmv_arr]
      cases d with
      | arr ds =>
        simp only
        rw [Bool.eq_iff_iff]
        exact ⟨pmA_perm hperm, pmA_perm hperm.symm⟩
      | _ => rfl
  | @objIn k v v' pre post _ ih =>
    refine ⟨rfl, fun h => by simp [J.isScalar] at h, fun hp => ?_⟩
    rw [patOK_obj_iff] at hp
    have hpv : patOK v = true := hp.2 (k, v) (by simp)
    obtain ⟨hpv', hvars, hpm⟩ := ih.2.2 hpv
    have hk' : ∀ kv ∈ pre ++ (k, v') :: post, isVar kv.1 = false := by
      intro kv hkv
      rcases List.mem_append.1 hkv with h | h
      · exact hp.1 kv (List.mem_append_left _ h)
      · rcases List.mem_cons.1 h with rfl | h
        · exact hp.1 (k, v) (by simp)
        · exact hp.1 kv (List.mem_append_right _ (List.mem_cons_of_mem _ h))
    refine ⟨(patOK_obj_iff _).2 ⟨hk', ?_⟩, ?_, ?_⟩
    · intro kv hkv
      rcases List.mem_append.1 hkv with h | h
      · exact hp.2 kv (List.mem_append_left _ h)
      · rcases List.mem_cons.1 h with rfl | h
        · exact hpv'
        · exact hp.2 kv (List.mem_append_right _ (List.mem_cons_of_mem _ h))
    · rw [varsOf_obj, varsOf_obj, varsOfO_append, varsOfO_append]
      apply List.Perm.append_left
      simp only [varsOfO]
      exact List.Perm.append_right _ (List.Perm.append_left _ hvars)
    · intro σ d
      rw [pmv_obj, pmv_obj]
      cases d with
      | obj dm =>
        simp only
        rw [Bool.eq_iff_iff, pmO_const_iff σ dm _ dm hp.1, pmO_const_iff σ dm _ dm hk']
        simp only [List.mem_append, List.mem_cons]
        constructor
        · intro h kv hkv
          rcases hkv with hkv | rfl | hkv
          · exact h kv (Or.inl hkv)
          · obtain ⟨dv, h1, h2⟩ := h (k, v) (Or.inr (Or.inl rfl))
            exact ⟨dv, h1, by rw [← hpm]; exact h2⟩
          · exact h kv (Or.inr (Or.inr hkv))
        · intro h kv hkv
          rcases hkv with hkv | rfl | hkv
          · exact h kv (Or.inl hkv)
          · obtain ⟨dv, h1, h2⟩ := h (k, v') (Or.inr (Or.inl rfl))
            exact ⟨dv, h1, by rw [hpm]; exact h2⟩
          · exact h kv (Or.inr (Or.inr hkv))
      | _ => rfl
  | @arrIn x x' pre post _ ih =>
    refine ⟨rfl, fun h => by simp [J.isScalar] at h, fun hp => ?_⟩
    by_cases hx : x.isScalar = true
    · have := ih.2.1 hx
      subst this
      exact ⟨hp, .refl _, fun _ _ => rfl⟩
    · have hx0 : x.isScalar = false := by simpa using hx
      have hx0' : x'.isScalar = false := by rw [← ih.1]; exact hx0
      have hv : isVarElem x = false := by
        cases hve : isVarElem x with
        | false => rfl
        | true => rw [isVarElem_scalar hve] at hx0; cases hx0
      have hv' : isVarElem x' = false := by
        cases hve : isVarElem x' with
        | false => rfl
        | true => rw [isVarElem_scalar hve] at hx0'; cases hx0'
      rw [patOK_arr_iff] at hp
      have hpx : patOK x = true := hp.2.2 x (by simp)
      obtain ⟨hpx', hvars, hpm⟩ := ih.2.2 hpx
      have hf1 : (pre ++ x' :: post).filter isVarElem = (pre ++ x :: post).filter isVarElem := by
        simp [List.filter_append, hv, hv']
      have hf2 : (pre ++ x' :: post).filter J.isScalar = (pre ++ x :: post).filter J.isScalar := by
        simp [List.filter_append, hx0, hx0']
      refine ⟨(patOK_arr_iff _).2 ⟨by rw [hf1]; exact hp.1, by rw [hf2]; exact hp.2.1, ?_⟩, ?_, ?_⟩
      · intro y hy
        rcases List.mem_append.1 hy with h | h
        · exact hp.2.2 y (List.mem_append_left _ h)
        · rcases List.mem_cons.1 h with rfl | h
          · exact hpx'
          · exact hp.2.2 y (List.mem_append_right _ (List.mem_cons_of_mem _ h))
      · rw [varsOf_arr, varsOf_arr, varsOfL_append, varsOfL_append]
        apply List.Perm.append_left
        simp only [varsOfL]
        exact List.Perm.append_right _ hvars
      · intro σ d
        rw [pmv_arr, pmv_arr]
        cases d with
        | arr ds =>
          simp only
          rw [Bool.eq_iff_iff, pmA_iff, pmA_iff]
          have hrep : ∀ ds', Forall₂ (fun x d => pmv σ x d = true) (pre ++ x :: post) ds' ↔
              Forall₂ (fun x d => pmv σ x d = true) (pre ++ x' :: post) ds' :=
            fun ds' => forall₂_replace (fun d => by rw [hpm]) pre post ds'
          exact ⟨fun ⟨ds', h1, h2⟩ => ⟨ds', (hrep ds').1 h1, h2⟩,
            fun ⟨ds', h1, h2⟩ => ⟨ds', (hrep ds').2 h1, h2⟩⟩
        | _ => rfl
  | trans _ _ ih1 ih2 =>
    refine ⟨ih1.1.trans ih2.1, ?_, ?_⟩
    · intro hs
      have h1 := ih1.2.1 hs
      subst h1
      exact ih2.2.1 hs
    · intro hp
      obtain ⟨hq, hv1, hm1⟩ := ih1.2.2 hp
      obtain ⟨hr, hv2, hm2⟩ := ih2.2.2 hq
      exact ⟨hr, hv1.trans hv2, fun σ d => (hm1 σ d).trans (hm2 σ d)⟩

theorem PatPerm.symm {p q : J} (h : PatPerm p q) : PatPerm q p := by
  induction h with
  | refl p => exact .refl p
  | obj hperm => exact .obj hperm.symm
  | arr hperm => exact .arr hperm.symm
  | objIn k pre post _ ih => exact .objIn k pre post ih
  | arrIn pre post _ ih => exact .arrIn pre post ih
  | trans _ _ ih1 ih2 => exact .trans ih2 ih1

/-- two patterns with the same specification and the same variables return the same bindings (one direction) -/
theorem results_determined {p q d : J} {bs : Bs} {bss1 bss2 : List Bs}
    (hp : patOK p = true) (hq : patOK q = true) (hd : dataOK d = true)
    (hvars : (varsOf p).Perm (varsOf q)) (hspec : ∀ σ, pmv σ p d = pmv σ q d)
    (h1 : matchJ p d bs = .ok bss1) (h2 : matchJ q d bs = .ok bss2)
    {σ : Bs} (hσ : σ ∈ bss1) (hsc : SC σ (varsOf p) bs) :
    ∃ σ' ∈ bss2, ∀ k, σ'.get? k = σ.get? k := by
  obtain ⟨hext, hdom, hpm⟩ := soundJ p hp d bs bss1 σ hd h1 hσ
  have hpmσ : pmv σ q d = true := by rw [← hspec]; exact hpm σ (Bs.Ext.refl _) hsc
  have hSCq : SC σ (varsOf q) bs := SC.perm hvars hsc
  obtain ⟨σ', hσ', hσ'σ⟩ := completeJ σ q hq d bs bss2 hd h2 hext hSCq hpmσ
  refine ⟨σ', hσ', Bs.same_of_ext hσ'σ ?_⟩
  obtain ⟨hbσ', _, hpm'⟩ := soundJ q hq d bs bss2 σ' hd h2 hσ'
  have hpmσ' : pmv σ' q d = true := by
    apply hpm' σ' (Bs.Ext.refl _)
    intro y hy hc
    have := hSCq y hy hc
    unfold scalarAt at this ⊢
    cases hg : σ'.get? y with
    | none => rfl
    | some w => rw [hσ'σ y w hg] at this; exact this
  intro k hk
  rcases hdom k hk with hb | hv
  · cases hg : bs.get? k with
    | none => exact absurd hg hb
    | some w => rw [hbσ' k w hg]; simp
  · exact pmv_vars_bound q hq d hpmσ' k (hvars.mem_iff.1 hv)

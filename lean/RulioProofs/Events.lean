import RulioProofs.Query

/-! # Lemmas for C04 (each action exactly once) -/

namespace EventsProofs
open QSpec
open QueryProofs

/-! ## `runUntil` -/

theorem runUntil_nil {α β} (f : α → β × List J × Bool) : runUntil f [] = ([], [], false) := rfl

theorem runUntil_cons_abort {α β} (f : α → β × List J × Bool) (x : α) (xs : List α) (h : (f x).2.2 = true) :
    runUntil f (x :: xs) = ([(f x).1], (f x).2.1, true) := by
  rw [runUntil, if_pos h]

theorem runUntil_cons_go {α β} (f : α → β × List J × Bool) (x : α) (xs : List α) (h : (f x).2.2 = false) :
    runUntil f (x :: xs) =
      ((f x).1 :: (runUntil f xs).1, (f x).2.1 ++ (runUntil f xs).2.1, (runUntil f xs).2.2) := by
  rw [runUntil, if_neg (by simp [h])]

/-- no abort iff no step aborts -/
theorem runUntil_not_aborted {α β} (f : α → β × List J × Bool) (l : List α) :
    (runUntil f l).2.2 = false ↔ ∀ x ∈ l, (f x).2.2 = false := by
  induction l with
  | nil => simp [runUntil_nil]
  | cons x xs ih =>
    cases h : (f x).2.2 with
    | true => rw [runUntil_cons_abort f x xs h]; simp [h]
    | false => rw [runUntil_cons_go f x xs h]; simp [h, ih]

/-- without abort: one node per element, values concatenated -/
theorem runUntil_all {α β} (f : α → β × List J × Bool) (l : List α) (h : ∀ x ∈ l, (f x).2.2 = false) :
    runUntil f l = (l.map (fun x => (f x).1), l.flatMap (fun x => (f x).2.1), false) := by
  induction l with
  | nil => rfl
  | cons x xs ih =>
    rw [runUntil_cons_go f x xs (h x (by simp)), ih (fun y hy => h y (by simp [hy]))]
    rfl

/-- with an abort at `x`: the nodes up to and including `x`'s, nothing after -/
theorem runUntil_stops {α β} (f : α → β × List J × Bool) (pre post : List α) (x : α)
    (hpre : ∀ y ∈ pre, (f y).2.2 = false) (hx : (f x).2.2 = true) :
    runUntil f (pre ++ x :: post) =
      ((pre ++ [x]).map (fun y => (f y).1), (pre ++ [x]).flatMap (fun y => (f y).2.1), true) := by
  induction pre with
  | nil => rw [List.nil_append, runUntil_cons_abort f x post hx]; simp
  | cons y ys ih =>
    rw [List.cons_append, runUntil_cons_go f y _ (hpre y (by simp)), ih (fun z hz => hpre z (by simp [hz]))]
    rfl

/-- every run is one of the two shapes above -/
theorem runUntil_cases {α β} (f : α → β × List J × Bool) (l : List α) :
    ((runUntil f l).2.2 = false ∧ ∀ x ∈ l, (f x).2.2 = false) ∨
    ((runUntil f l).2.2 = true ∧ ∃ pre x post, l = pre ++ x :: post ∧ (∀ y ∈ pre, (f y).2.2 = false) ∧ (f x).2.2 = true) := by
  induction l with
  | nil => left; exact ⟨rfl, fun _ h => by cases h⟩
  | cons x xs ih =>
    cases h : (f x).2.2 with
    | true =>
      right
      exact ⟨by rw [runUntil_cons_abort f x xs h], [], x, xs, rfl, (fun _ hy => by cases hy), h⟩
    | false =>
      rw [runUntil_cons_go f x xs h]
      rcases ih with ⟨h1, h2⟩ | ⟨h1, pre, y, post, hl, hp, hy⟩
      · left
        exact ⟨h1, fun z hz => by
          cases hz with
          | head => exact h
          | tail _ hz => exact h2 z hz⟩
      · right
        refine ⟨h1, x :: pre, y, post, by rw [hl]; rfl, fun z hz => ?_, hy⟩
        cases hz with
        | head => exact h
        | tail _ hz => exact hp z hz

/-- the nodes are those of a prefix of the input -/
theorem runUntil_prefix {α β} (f : α → β × List J × Bool) (l : List α) :
    ∃ n, (runUntil f l).1 = (l.take n).map (fun x => (f x).1) ∧
         (runUntil f l).2.1 = (l.take n).flatMap (fun x => (f x).2.1) := by
  rcases runUntil_cases f l with ⟨_, h2⟩ | ⟨_, pre, x, post, hl, hp, hx⟩
  · exact ⟨l.length, by rw [runUntil_all f l h2, List.take_length]; exact ⟨rfl, rfl⟩⟩
  · refine ⟨pre.length + 1, ?_⟩
    rw [hl, runUntil_stops f pre post x hp hx]
    have : (pre ++ x :: post).take (pre.length + 1) = pre ++ [x] := by
      simp [List.take_append, List.take_of_length_le]
    rw [this]; exact ⟨rfl, rfl⟩

/-- if every step's values are a function `g` of its node, the values of the run are `g` of its nodes -/
theorem runUntil_values {α β} (f : α → β × List J × Bool) (g : β → List J) (l : List α)
    (h : ∀ x ∈ l, (f x).2.1 = g (f x).1) : (runUntil f l).2.1 = (runUntil f l).1.flatMap g := by
  obtain ⟨n, h1, h2⟩ := runUntil_prefix f l
  rw [h1, h2, List.flatMap_map]
  have hm : ∀ x ∈ l.take n, (f x).2.1 = g (f x).1 := fun x hx => h x (List.mem_of_mem_take hx)
  generalize l.take n = l' at hm
  induction l' with
  | nil => rfl
  | cons x xs ih =>
    rw [List.flatMap_cons, List.flatMap_cons, hm x (by simp), ih (fun y hy => hm y (by simp [hy]))]


/-! ## the accumulator loops of the model are `runUntil` / `serialRun` / `dispatch` -/

theorem go_eq (pairs : List (Bs × J)) (acc : List ActNode) (vals : List J) :
    evalCond.go pairs acc vals =
      (acc ++ (serialRun pairs).1, vals ++ (serialRun pairs).2.1, (serialRun pairs).2.2) := by
  induction pairs generalizing acc vals with
  | nil => rw [evalCond.go.eq_1, serialRun]; simp
  | cons p rest ih =>
    obtain ⟨b, a⟩ := p
    rw [evalCond.go.eq_2, serialRun]
    cases execAction a b with
    | ok v => simp only []; rw [ih]; simp
    | error e => simp [failedNode]

theorem conds_eq (srch : Srch) (loc : String) (ev : Obj) (id : String) (r : RuleM) (bs : List Bs)
    (cacc : List CondNode) (vals : List J) :
    processEvent.walk.conds srch loc ev id r bs cacc vals =
      (cacc ++ (runUntil (evalCond srch loc ev id r) bs).1,
       vals ++ (runUntil (evalCond srch loc ev id r) bs).2.1,
       (runUntil (evalCond srch loc ev id r) bs).2.2) := by
  induction bs generalizing cacc vals with
  | nil => rw [processEvent.walk.conds.eq_1, runUntil_nil]; simp
  | cons b more ih =>
    rw [processEvent.walk.conds.eq_2]
    cases h : (evalCond srch loc ev id r b).2.2 with
    | true =>
      rw [runUntil_cons_abort _ b more h]
      simp only [h, if_true]
    | false =>
      rw [runUntil_cons_go _ b more h]
      simp only [h, Bool.false_eq_true, if_false]
      rw [ih]; simp

theorem walk_eq (srch : Srch) (loc : String) (ev : Obj) (ds : List (String × RuleM × List Bs))
    (acc : List RuleNode) (vals : List J) :
    processEvent.walk srch loc ev ds acc vals =
      (acc ++ (runUntil (ruleStep srch loc ev) ds).1,
       vals ++ (runUntil (ruleStep srch loc ev) ds).2.1,
       (runUntil (ruleStep srch loc ev) ds).2.2) := by
  induction ds generalizing acc vals with
  | nil => rw [processEvent.walk.eq_1, runUntil_nil]; simp
  | cons d rest ih =>
    obtain ⟨id, r, bss⟩ := d
    rw [processEvent.walk.eq_2, conds_eq]
    cases h : (ruleStep srch loc ev (id, r, bss)).2.2 with
    | true =>
      rw [runUntil_cons_abort _ _ rest h]
      have h' : (runUntil (evalCond srch loc ev id r) bss).2.2 = true := h
      simp only [h', if_true, List.nil_append]
      rfl
    | false =>
      rw [runUntil_cons_go _ _ rest h]
      have h' : (runUntil (evalCond srch loc ev id r) bss).2.2 = false := h
      simp only [h', Bool.false_eq_true, if_false, List.nil_append]
      rw [ih]; simp [ruleStep]


theorem find_eq (ev : Obj) (cands : List (String × RuleM × Bool)) (acc : List (String × RuleM × List Bs)) :
    processEvent.find ev cands acc =
      (match cands.mapM (dispatchOne ev) with
       | .error e => .error e
       | .ok ds => .ok (acc ++ ds.filterMap id)) := by
  induction cands generalizing acc with
  | nil => rw [processEvent.find.eq_1]; simp [List.mapM_nil, pure, Except.pure]
  | cons c rest ih =>
    obtain ⟨id', r, en⟩ := c
    rw [processEvent.find.eq_2]
    cases en with
    | false =>
      have h1 : dispatchOne ev (id', r, false) = .ok none := by simp [dispatchOne]
      simp only [Bool.not_false, if_true]
      rw [ih]
      cases hm : rest.mapM (dispatchOne ev) with
      | error e => rw [mapM_cons_err2 _ _ _ _ e h1 hm]
      | ok ds => rw [mapM_cons_ok _ _ _ _ ds h1 hm]; simp
    | true =>
      simp only [Bool.not_true, Bool.false_eq_true, if_false]
      cases hw : r.when? with
      | none =>
        have h1 : dispatchOne ev (id', r, true) = .ok (some (id', r, [[]])) := by
          simp [dispatchOne, whenBindings, hw]
        simp only []
        rw [ih]
        cases hm : rest.mapM (dispatchOne ev) with
        | error e => rw [mapM_cons_err2 _ _ _ _ e h1 hm]
        | ok ds => rw [mapM_cons_ok _ _ _ _ ds h1 hm]; simp
      | some pat =>
        simp only []
        cases hmt : matchesJ (.obj pat) (.obj ev) with
        | error e =>
          have h1 : dispatchOne ev (id', r, true) = .error e := by
            simp [dispatchOne, whenBindings, hw, hmt]
          rw [mapM_cons_err1 _ _ _ e h1]
        | ok bss =>
          have h1 : dispatchOne ev (id', r, true) = .ok (if bss.isEmpty then none else some (id', r, bss)) := by
            simp [dispatchOne, whenBindings, hw, hmt]
          simp only []
          rw [ih]
          cases hm : rest.mapM (dispatchOne ev) with
          | error e => rw [mapM_cons_err2 _ _ _ _ e h1 hm]
          | ok ds =>
            rw [mapM_cons_ok _ _ _ _ ds h1 hm]
            cases bss.isEmpty <;> simp

theorem dispatch_eq_find (ev : Obj) (cands : List (String × RuleM × Bool)) :
    processEvent.find ev cands [] = dispatch ev cands := by
  rw [find_eq]; unfold dispatch
  cases cands.mapM (dispatchOne ev) with
  | error e => rfl
  | ok ds => simp [bind, Except.bind, pure, Except.pure]

/-- `ProcessEvent` in accumulator-free form -/
theorem processEvent_eq (srch : Srch) (loc : String) (ev : Obj) (cands : List (String × RuleM × Bool)) :
    processEvent srch loc ev cands =
      (match dispatch ev cands with
       | .error e => { err := some e, rules := [], values := [], aborted := true }
       | .ok disp =>
         { err := none, rules := (runUntil (ruleStep srch loc ev) disp).1,
           values := (runUntil (ruleStep srch loc ev) disp).2.1,
           aborted := (runUntil (ruleStep srch loc ev) disp).2.2 }) := by
  rw [processEvent.eq_1, dispatch_eq_find]
  cases dispatch ev cands with
  | error e => rfl
  | ok disp => simp only []; rw [walk_eq]; simp


/-! ## `evalCond` -/


theorem map_pairsOf (r : RuleM) (out : List Bs) :
    (pairsOf r out).map (fun p => actNodeOf p.1 p.2) = actsOf r out := by
  unfold pairsOf actsOf
  rw [List.map_flatMap]
  congr 1; funext b
  rw [List.map_map]; rfl

/-- `evalCond` with its condition evaluation named -/
theorem evalCond_eq (srch : Srch) (loc : String) (ev : Obj) (id : String) (r : RuleM) (bs : Bs) :
    evalCond srch loc ev id r bs =
      (match condResult srch r (condEnv loc ev id bs) with
       | .error e => ({ bs := condEnv loc ev id bs, err := some e, acts := [] }, [], true)
       | .ok out =>
         if r.serial then
           ({ bs := condEnv loc ev id bs, err := none, acts := (evalCond.go (pairsOf r out) [] []).1 },
            (evalCond.go (pairsOf r out) [] []).2.1, (evalCond.go (pairsOf r out) [] []).2.2)
         else
           ({ bs := condEnv loc ev id bs, err := none, acts := (pairsOf r out).map (fun p => actNodeOf p.1 p.2) },
            okValues ((pairsOf r out).map (fun p => actNodeOf p.1 p.2)), false)) := by
  rw [evalCond.eq_1]
  unfold condResult condEnv
  generalize r.condition = c
  cases c <;> rfl

theorem evalCond_err (srch : Srch) (loc : String) (ev : Obj) (id : String) (r : RuleM) (bs : Bs) (e : LErr)
    (h : condResult srch r (condEnv loc ev id bs) = .error e) :
    evalCond srch loc ev id r bs = ({ bs := condEnv loc ev id bs, err := some e, acts := [] }, [], true) := by
  rw [evalCond_eq, h]

theorem evalCond_nonserial (srch : Srch) (loc : String) (ev : Obj) (id : String) (r : RuleM) (bs : Bs)
    (out : List Bs) (h : condResult srch r (condEnv loc ev id bs) = .ok out) (hs : r.serial = false) :
    evalCond srch loc ev id r bs =
      ({ bs := condEnv loc ev id bs, err := none, acts := actsOf r out }, okValues (actsOf r out), false) := by
  rw [evalCond_eq, h]
  simp only [hs, Bool.false_eq_true, if_false]
  rw [map_pairsOf]

theorem evalCond_serial (srch : Srch) (loc : String) (ev : Obj) (id : String) (r : RuleM) (bs : Bs)
    (out : List Bs) (h : condResult srch r (condEnv loc ev id bs) = .ok out) (hs : r.serial = true) :
    evalCond srch loc ev id r bs =
      ({ bs := condEnv loc ev id bs, err := none, acts := (serialRun (pairsOf r out)).1 },
        (serialRun (pairsOf r out)).2.1, (serialRun (pairsOf r out)).2.2) := by
  rw [evalCond_eq, h]
  simp only [hs, if_true]
  rw [go_eq]
  simp

/-! ## `serialRun` -/

theorem serialRun_nil : serialRun [] = ([], [], false) := by rw [serialRun]

theorem serialRun_cons_ok (b : Bs) (a : J) (rest : List (Bs × J)) (v : J) (h : execAction a b = .ok v) :
    serialRun ((b, a) :: rest) =
      ({ ok := true, value := v } :: (serialRun rest).1, v :: (serialRun rest).2.1, (serialRun rest).2.2) := by
  rw [serialRun, h]

theorem serialRun_cons_err (b : Bs) (a : J) (rest : List (Bs × J)) (e : LErr) (h : execAction a b = .error e) :
    serialRun ((b, a) :: rest) = ([failedNode], [], true) := by
  rw [serialRun, h]

theorem actNodeOf_ok (b : Bs) (a : J) (v : J) (h : execAction a b = .ok v) :
    actNodeOf b a = { ok := true, value := v } := by unfold actNodeOf; rw [h]
theorem actNodeOf_err (b : Bs) (a : J) (e : LErr) (h : execAction a b = .error e) :
    actNodeOf b a = failedNode := by unfold actNodeOf; rw [h]; rfl

theorem okValues_nil : okValues [] = [] := rfl
theorem okValues_cons_ok (v : J) (l : List ActNode) : okValues ({ ok := true, value := v } :: l) = v :: okValues l := rfl
theorem okValues_cons_failed (l : List ActNode) : okValues (failedNode :: l) = okValues l := rfl
theorem okValues_append (l1 l2 : List ActNode) : okValues (l1 ++ l2) = okValues l1 ++ okValues l2 := by
  unfold okValues; rw [List.filter_append, List.map_append]

/-- the values reported by a serial run are those of its completed leaves -/
theorem serialRun_values (pairs : List (Bs × J)) : (serialRun pairs).2.1 = okValues (serialRun pairs).1 := by
  induction pairs with
  | nil => rw [serialRun_nil]; rfl
  | cons p rest ih =>
    obtain ⟨b, a⟩ := p
    cases h : execAction a b with
    | ok v => rw [serialRun_cons_ok b a rest v h]; simp only []; rw [ih, okValues_cons_ok]
    | error e => rw [serialRun_cons_err b a rest e h]; rfl

/-- all actions succeed: every pair gets its (completed) leaf, no abort -/
theorem serialRun_all_ok (pairs : List (Bs × J)) (h : ∀ p ∈ pairs, ∃ v, execAction p.2 p.1 = .ok v) :
    serialRun pairs = (pairs.map (fun p => actNodeOf p.1 p.2), okValues (pairs.map (fun p => actNodeOf p.1 p.2)), false) := by
  induction pairs with
  | nil => rw [serialRun_nil]; rfl
  | cons p rest ih =>
    obtain ⟨b, a⟩ := p
    obtain ⟨v, hv⟩ := h (b, a) (by simp)
    rw [serialRun_cons_ok b a rest v hv, ih (fun q hq => h q (by simp [hq]))]
    simp only [List.map_cons, actNodeOf_ok b a v hv, okValues_cons_ok]

/-- the walk stops at the first failing action: its leaf is the last one -/
theorem serialRun_stops (pre post : List (Bs × J)) (b : Bs) (a : J) (e : LErr)
    (hpre : ∀ p ∈ pre, ∃ v, execAction p.2 p.1 = .ok v) (h : execAction a b = .error e) :
    serialRun (pre ++ (b, a) :: post) =
      (pre.map (fun p => actNodeOf p.1 p.2) ++ [failedNode], okValues (pre.map (fun p => actNodeOf p.1 p.2)), true) := by
  induction pre with
  | nil => rw [List.nil_append, serialRun_cons_err b a post e h]; rfl
  | cons p rest ih =>
    obtain ⟨b', a'⟩ := p
    obtain ⟨v, hv⟩ := hpre (b', a') (by simp)
    rw [List.cons_append, serialRun_cons_ok b' a' _ v hv, ih (fun q hq => hpre q (by simp [hq]))]
    simp only [List.map_cons, actNodeOf_ok b' a' v hv, okValues_cons_ok, List.cons_append]

/-- a serial run does not abort iff no action fails -/
theorem serialRun_not_aborted (pairs : List (Bs × J)) (h : (serialRun pairs).2.2 = false) :
    ∀ p ∈ pairs, ∃ v, execAction p.2 p.1 = .ok v := by
  induction pairs with
  | nil => intro p hp; cases hp
  | cons p rest ih =>
    obtain ⟨b, a⟩ := p
    cases hx : execAction a b with
    | error e => rw [serialRun_cons_err b a rest e hx] at h; cases h
    | ok v =>
      rw [serialRun_cons_ok b a rest v hx] at h
      intro q hq
      cases hq with
      | head => exact ⟨v, hx⟩
      | tail _ hq => exact ih h q hq


theorem evalCond_bs (srch : Srch) (loc : String) (ev : Obj) (id : String) (r : RuleM) (bs : Bs) :
    (evalCond srch loc ev id r bs).1.bs = condEnv loc ev id bs := by
  cases h : condResult srch r (condEnv loc ev id bs) with
  | error e => rw [evalCond_err _ _ _ _ _ _ e h]
  | ok out =>
    cases hs : r.serial with
    | false => rw [evalCond_nonserial _ _ _ _ _ _ out h hs]
    | true => rw [evalCond_serial _ _ _ _ _ _ out h hs]

theorem evalCond_values (srch : Srch) (loc : String) (ev : Obj) (id : String) (r : RuleM) (bs : Bs) :
    (evalCond srch loc ev id r bs).2.1 = okValues (evalCond srch loc ev id r bs).1.acts := by
  cases h : condResult srch r (condEnv loc ev id bs) with
  | error e => rw [evalCond_err _ _ _ _ _ _ e h]; rfl
  | ok out =>
    cases hs : r.serial with
    | false => rw [evalCond_nonserial _ _ _ _ _ _ out h hs]
    | true => rw [evalCond_serial _ _ _ _ _ _ out h hs]; exact serialRun_values _

/-- a condition step that does not abort: the condition succeeded and every pair got its leaf -/
theorem evalCond_not_aborted (srch : Srch) (loc : String) (ev : Obj) (id : String) (r : RuleM) (bs : Bs)
    (h : (evalCond srch loc ev id r bs).2.2 = false) :
    (∃ out, condResult srch r (condEnv loc ev id bs) = .ok out) ∧
    (evalCond srch loc ev id r bs).1 = condNodeSpec srch loc ev id r bs := by
  cases hc : condResult srch r (condEnv loc ev id bs) with
  | error e => rw [evalCond_err _ _ _ _ _ _ e hc] at h; cases h
  | ok out =>
    refine ⟨⟨out, rfl⟩, ?_⟩
    unfold condNodeSpec condOut; rw [hc]
    cases hs : r.serial with
    | false => rw [evalCond_nonserial _ _ _ _ _ _ out hc hs]
    | true =>
      rw [evalCond_serial _ _ _ _ _ _ out hc hs] at h ⊢
      rw [serialRun_all_ok _ (serialRun_not_aborted _ h), map_pairsOf]

/-! ## whole trees -/

theorem ruleStep_values (srch : Srch) (loc : String) (ev : Obj) (d : String × RuleM × List Bs) :
    (ruleStep srch loc ev d).2.1 = (ruleStep srch loc ev d).1.conds.flatMap (fun c => okValues c.acts) := by
  unfold ruleStep
  exact runUntil_values _ (fun (c : CondNode) => okValues c.acts) d.2.2 (fun b _ => evalCond_values srch loc ev d.1 d.2.1 b)

/-- `values` = the values of the completed leaves, in walk order — for every run, aborted or not -/
theorem values_agree (srch : Srch) (loc : String) (ev : Obj) (cands : List (String × RuleM × Bool)) :
    (processEvent srch loc ev cands).values = treeValues (processEvent srch loc ev cands) := by
  rw [processEvent_eq]
  cases dispatch ev cands with
  | error e => rfl
  | ok disp =>
    exact runUntil_values _ (fun (rn : RuleNode) => rn.conds.flatMap (fun c => okValues c.acts)) disp
      (fun d _ => ruleStep_values srch loc ev d)

theorem ruleStep_not_aborted (srch : Srch) (loc : String) (ev : Obj) (d : String × RuleM × List Bs)
    (h : (ruleStep srch loc ev d).2.2 = false) :
    (ruleStep srch loc ev d).1 = ruleNodeSpec srch loc ev d ∧
    ∀ b ∈ d.2.2, ∃ out, condResult srch d.2.1 (condEnv loc ev d.1 b) = .ok out := by
  have h' : (runUntil (evalCond srch loc ev d.1 d.2.1) d.2.2).2.2 = false := h
  have hall := (runUntil_not_aborted _ _).mp h'
  refine ⟨?_, fun b hb => (evalCond_not_aborted _ _ _ _ _ _ (hall b hb)).1⟩
  unfold ruleStep ruleNodeSpec
  rw [runUntil_all _ _ hall]
  simp only []
  congr 1
  exact List.map_congr_left (fun b hb => (evalCond_not_aborted _ _ _ _ _ _ (hall b hb)).2)

/-- the tree of a run that does not abort -/
theorem tree_not_aborted (srch : Srch) (loc : String) (ev : Obj) (cands : List (String × RuleM × Bool))
    (disp : List (String × RuleM × List Bs)) (hd : dispatch ev cands = .ok disp)
    (h : (processEvent srch loc ev cands).aborted = false) :
    (processEvent srch loc ev cands).rules = disp.map (ruleNodeSpec srch loc ev) ∧
    ∀ d ∈ disp, ∀ b ∈ d.2.2, ∃ out, condResult srch d.2.1 (condEnv loc ev d.1 b) = .ok out := by
  rw [processEvent_eq, hd] at h ⊢
  simp only [] at h ⊢
  have hall := (runUntil_not_aborted _ _).mp h
  refine ⟨?_, fun d hd b hb => (ruleStep_not_aborted _ _ _ d (hall d hd)).2 b hb⟩
  rw [runUntil_all _ _ hall]
  exact List.map_congr_left (fun d hd => (ruleStep_not_aborted _ _ _ d (hall d hd)).1)


/-! ## counting -/

theorem actsOf_length (r : RuleM) (out : List Bs) : (actsOf r out).length = out.length * r.actions.length := by
  unfold actsOf
  induction out with
  | nil => simp
  | cons b bs ih =>
    rw [List.flatMap_cons, List.length_append, ih, List.length_map, List.length_cons, Nat.succ_mul, Nat.add_comm]

theorem actCount_spec (srch : Srch) (loc : String) (ev : Obj) (disp : List (String × RuleM × List Bs)) :
    ((disp.map (ruleNodeSpec srch loc ev)).map fun rn => (rn.conds.map fun c => c.acts.length).sum).sum =
    (disp.map fun d => (d.2.2.map fun b =>
      (condOut srch d.2.1 (condEnv loc ev d.1 b)).length * d.2.1.actions.length).sum).sum := by
  rw [List.map_map]
  congr 1
  apply List.map_congr_left
  intro d _
  simp only [Function.comp, ruleNodeSpec, List.map_map]
  congr 1
  apply List.map_congr_left
  intro b _
  show (actsOf _ _).length = _
  rw [actsOf_length]

/-! ## the environment -/

theorem addDefault_get (bs : Bs) (k : String) (v : J) (k' : String) :
    Bs.get? (addDefault bs k v) k' = (Bs.get? bs k').or (Bs.get? [(k, v)] k') := by
  unfold addDefault
  cases h : Bs.get? bs k with
  | none =>
    simp only [Option.isSome_none, Bool.false_eq_true, if_false]
    rw [get?_append]
  | some w =>
    simp only [Option.isSome_some, if_true]
    rw [get?_cons, get?_nil]
    by_cases hk : k' = k
    · subst hk; rw [h]; rfl
    · have : (k' == k) = false := by simpa using hk
      rw [this]; simp

theorem condEnv_get (loc : String) (ev : Obj) (id : String) (bs : Bs) (k : String) :
    Bs.get? (condEnv loc ev id bs) k =
      (Bs.get? bs k).or (Bs.get? [("?event", .obj ev), ("?location", .str loc), ("?ruleId", .str id)] k) := by
  unfold condEnv
  rw [addDefault_get, addDefault_get, addDefault_get]
  rw [show [("?event", J.obj ev), ("?location", J.str loc), ("?ruleId", J.str id)]
        = [("?event", J.obj ev)] ++ ([("?location", J.str loc)] ++ [("?ruleId", J.str id)]) from rfl,
      get?_append, get?_append]
  cases Bs.get? bs k <;> cases Bs.get? [("?event", J.obj ev)] k <;> rfl

/-- the `when` bindings themselves are kept: `condEnv` only appends -/
theorem condEnv_prefix (loc : String) (ev : Obj) (id : String) (bs : Bs) : bs <+: condEnv loc ev id bs := by
  have h : ∀ (b : Bs) (k : String) (v : J), b <+: addDefault b k v := by
    intro b k v; unfold addDefault
    split
    · exact List.prefix_refl _
    · exact List.prefix_append _ _
  exact (h _ _ _).trans ((h _ _ _).trans (h _ _ _))

theorem execAction_obj (o : Obj) (b : Bs) :
    execAction (.obj o) b = evalTmpl ((Obj.get? o "verif_tmpl").getD .null) (stripQ b) := rfl

theorem execAction_nonobj (a : J) (b : Bs) (h : ∀ o, a ≠ .obj o) : execAction a b = .error "script" := by
  cases a with
  | obj o => exact absurd rfl (h o)
  | _ => rfl

theorem evalTmpl_echo (o : Obj) (env : Bs) (h : Obj.get? o "t" = some (.str "echo")) :
    evalTmpl (.obj o) env = .ok (.obj env) := by
  simp [evalTmpl, h]

theorem evalTmpl_throw (o : Obj) (env : Bs) (h : Obj.get? o "t" = some (.str "throw")) :
    evalTmpl (.obj o) env = .error "script" := by
  simp [evalTmpl, h]


/-! ## aborted runs: what is in the tree is a prefix of the full walk -/

theorem tree_prefix (srch : Srch) (loc : String) (ev : Obj) (cands : List (String × RuleM × Bool))
    (disp : List (String × RuleM × List Bs)) (hd : dispatch ev cands = .ok disp) :
    ∃ n, (processEvent srch loc ev cands).rules = (disp.take n).map (fun d => (ruleStep srch loc ev d).1) := by
  rw [processEvent_eq, hd]
  obtain ⟨n, h1, _⟩ := runUntil_prefix (ruleStep srch loc ev) disp
  exact ⟨n, h1⟩

theorem ruleStep_prefix (srch : Srch) (loc : String) (ev : Obj) (d : String × RuleM × List Bs) :
    (ruleStep srch loc ev d).1.id = d.1 ∧ (ruleStep srch loc ev d).1.bss = d.2.2 ∧
    ∃ m, (ruleStep srch loc ev d).1.conds = (d.2.2.take m).map (fun b => (evalCond srch loc ev d.1 d.2.1 b).1) := by
  refine ⟨rfl, rfl, ?_⟩
  obtain ⟨m, h1, _⟩ := runUntil_prefix (evalCond srch loc ev d.1 d.2.1) d.2.2
  exact ⟨m, h1⟩

/-! ## dispatch -/

theorem dispatch_nil (ev : Obj) : dispatch ev [] = .ok [] := rfl

theorem dispatch_cons (ev : Obj) (c : String × RuleM × Bool) (l : List (String × RuleM × Bool)) :
    dispatch ev (c :: l) = (do let o ← dispatchOne ev c; let ds ← dispatch ev l; pure (o.toList ++ ds)) := by
  unfold dispatch
  cases h1 : dispatchOne ev c with
  | error e => rw [mapM_cons_err1 _ _ _ e h1]; rfl
  | ok o =>
    cases h2 : l.mapM (dispatchOne ev) with
    | error e => rw [mapM_cons_err2 _ _ _ o e h1 h2]; rfl
    | ok ds =>
      rw [mapM_cons_ok _ _ _ o ds h1 h2]
      cases o <;> rfl

/-- a candidate that is not dispatched can be dropped from the candidate list -/
theorem dispatch_drop (ev : Obj) (c : String × RuleM × Bool) (post : List (String × RuleM × Bool))
    (h : dispatchOne ev c = .ok none) : ∀ (pre : List (String × RuleM × Bool)),
    dispatch ev (pre ++ c :: post) = dispatch ev (pre ++ post)
  | [] => by
    rw [List.nil_append, List.nil_append, dispatch_cons, h]
    cases dispatch ev post <;> rfl
  | x :: pre => by
    rw [List.cons_append, List.cons_append, dispatch_cons, dispatch_cons, dispatch_drop ev c post h pre]

theorem dispatchOne_disabled (ev : Obj) (id : String) (r : RuleM) : dispatchOne ev (id, r, false) = .ok none := by
  simp [dispatchOne]

theorem dispatchOne_nomatch (ev : Obj) (id : String) (r : RuleM) (en : Bool)
    (h : whenBindings ev r = .ok []) : dispatchOne ev (id, r, en) = .ok none := by
  cases en <;> simp [dispatchOne, h]

theorem dispatchOne_match (ev : Obj) (id : String) (r : RuleM) (bss : List Bs)
    (h : whenBindings ev r = .ok bss) (hne : bss ≠ []) : dispatchOne ev (id, r, true) = .ok (some (id, r, bss)) := by
  cases bss with
  | nil => exact absurd rfl hne
  | cons b bs => simp [dispatchOne, h]

/-- a successful dispatch is the in-order selection of the dispatched candidates -/
theorem dispatch_ok (ev : Obj) : ∀ (cands : List (String × RuleM × Bool)) (disp : List (String × RuleM × List Bs)),
    dispatch ev cands = .ok disp →
    disp = cands.filterMap (fun c => match dispatchOne ev c with | .ok o => o | .error _ => none)
  | [], disp, h => by rw [dispatch_nil] at h; cases h; rfl
  | c :: l, disp, h => by
    rw [dispatch_cons] at h
    cases h1 : dispatchOne ev c with
    | error e => rw [h1] at h; cases h
    | ok o =>
      cases h2 : dispatch ev l with
      | error e => rw [h1, h2] at h; cases h
      | ok ds =>
        rw [h1, h2] at h
        have hd : disp = o.toList ++ ds := by cases h; rfl
        rw [hd, dispatch_ok ev l ds h2, List.filterMap_cons, h1]
        cases o <;> rfl

/-- every dispatched entry comes from an enabled candidate whose `when` has these (≥ 1) bindings -/
theorem dispatch_mem (ev : Obj) (cands : List (String × RuleM × Bool)) (disp : List (String × RuleM × List Bs))
    (h : dispatch ev cands = .ok disp) (d : String × RuleM × List Bs) (hd : d ∈ disp) :
    (d.1, d.2.1, true) ∈ cands ∧ whenBindings ev d.2.1 = .ok d.2.2 ∧ d.2.2 ≠ [] := by
  rw [dispatch_ok ev cands disp h, List.mem_filterMap] at hd
  obtain ⟨⟨id, r, en⟩, hc, hs⟩ := hd
  cases en with
  | false => rw [dispatchOne_disabled] at hs; cases hs
  | true =>
    unfold dispatchOne at hs
    simp only [Bool.not_true, Bool.false_eq_true, if_false] at hs
    cases hw : whenBindings ev r with
    | error e => rw [hw] at hs; cases hs
    | ok bss =>
      rw [hw] at hs
      cases bss with
      | nil => cases hs
      | cons b bs =>
        simp only [List.isEmpty_cons, Bool.false_eq_true, if_false, Option.some.injEq] at hs
        subst hs
        exact ⟨hc, hw, by simp⟩


/-! ## changing one rule's actions -/

theorem pointwise_refl {α} (R : α → α → Prop) : ∀ (l : List α), (∀ x ∈ l, R x x) → Pointwise R l l
  | [], _ => .nil
  | x :: xs, h => .cons (h x (by simp)) (pointwise_refl R xs (fun y hy => h y (by simp [hy])))

theorem runUntil_rel {α β} (f f' : α → β × List J × Bool) (R : β → β → Prop) : ∀ (l l' : List α),
    Pointwise (fun x x' => (f x).2.2 = (f' x').2.2 ∧ R (f x).1 (f' x').1) l l' →
    (runUntil f l).2.2 = (runUntil f' l').2.2 ∧ Pointwise R (runUntil f l).1 (runUntil f' l').1
  | _, _, .nil => ⟨rfl, .nil⟩
  | x :: xs, x' :: xs', .cons ⟨h1, h2⟩ t => by
    cases hx : (f x).2.2 with
    | true =>
      rw [runUntil_cons_abort f x xs hx, runUntil_cons_abort f' x' xs' (by rw [← h1, hx])]
      exact ⟨rfl, .cons h2 .nil⟩
    | false =>
      rw [runUntil_cons_go f x xs hx, runUntil_cons_go f' x' xs' (by rw [← h1, hx])]
      obtain ⟨ih1, ih2⟩ := runUntil_rel f f' R xs xs' t
      exact ⟨ih1, .cons h2 ih2⟩

theorem condResult_congr (srch : Srch) (r r' : RuleM) (env : Bs) (hc : r'.condition = r.condition) :
    condResult srch r' env = condResult srch r env := by
  unfold condResult; rw [hc]

theorem evalCond_rel (srch : Srch) (loc : String) (ev : Obj) (id : String) (r r' : RuleM) (b : Bs)
    (hc : r'.condition = r.condition) (hs : r.serial = false) (hs' : r'.serial = false) :
    (evalCond srch loc ev id r b).2.2 = (evalCond srch loc ev id r' b).2.2 ∧
    CondRel r r' (evalCond srch loc ev id r b).1 (evalCond srch loc ev id r' b).1 := by
  have hcr := condResult_congr srch r r' (condEnv loc ev id b) hc
  cases h : condResult srch r (condEnv loc ev id b) with
  | error e =>
    rw [evalCond_err _ _ _ _ r _ e h, evalCond_err _ _ _ _ r' _ e (by rw [hcr, h])]
    exact ⟨rfl, rfl, rfl, [], rfl, rfl⟩
  | ok out =>
    rw [evalCond_nonserial _ _ _ _ r _ out h hs, evalCond_nonserial _ _ _ _ r' _ out (by rw [hcr, h]) hs']
    exact ⟨rfl, rfl, rfl, out, rfl, rfl⟩

theorem ruleStep_rel (srch : Srch) (loc : String) (ev : Obj) (id : String) (r r' : RuleM) (bss : List Bs)
    (hc : r'.condition = r.condition) (hs : r.serial = false) (hs' : r'.serial = false) :
    (ruleStep srch loc ev (id, r, bss)).2.2 = (ruleStep srch loc ev (id, r', bss)).2.2 ∧
    NodeRel id r r' (ruleStep srch loc ev (id, r, bss)).1 (ruleStep srch loc ev (id, r', bss)).1 := by
  obtain ⟨h1, h2⟩ := runUntil_rel (evalCond srch loc ev id r) (evalCond srch loc ev id r') (CondRel r r') bss bss
    (pointwise_refl _ bss (fun b _ => evalCond_rel srch loc ev id r r' b hc hs hs'))
  exact ⟨h1, Or.inr ⟨rfl, rfl, rfl, h2⟩⟩


theorem whenBindings_congr (ev : Obj) (r r' : RuleM) (hw : r'.when? = r.when?) :
    whenBindings ev r' = whenBindings ev r := by
  unfold whenBindings; rw [hw]

theorem dispatchOne_change (ev : Obj) (id : String) (r r' : RuleM) (en : Bool) (hw : r'.when? = r.when?) :
    dispatchOne ev (id, r', en) = (dispatchOne ev (id, r, en)).map (fun o => o.map (fun d => (d.1, r', d.2.2))) := by
  unfold dispatchOne
  simp only [whenBindings_congr ev r r' hw]
  cases en with
  | false => rfl
  | true =>
    simp only [Bool.not_true, Bool.false_eq_true, if_false]
    cases whenBindings ev r with
    | error e => rfl
    | ok bss => cases bss <;> rfl

theorem dispatch_change (ev : Obj) (id : String) (r r' : RuleM) (en : Bool) (post : List (String × RuleM × Bool))
    (hw : r'.when? = r.when?) : ∀ (pre : List (String × RuleM × Bool)),
    (∃ e, dispatch ev (pre ++ (id, r, en) :: post) = .error e ∧ dispatch ev (pre ++ (id, r', en) :: post) = .error e) ∨
    (∃ disp disp', dispatch ev (pre ++ (id, r, en) :: post) = .ok disp ∧
      dispatch ev (pre ++ (id, r', en) :: post) = .ok disp' ∧ Pointwise (DRel id r r') disp disp')
  | [] => by
    rw [List.nil_append, List.nil_append, dispatch_cons, dispatch_cons, dispatchOne_change ev id r r' en hw]
    cases h1 : dispatchOne ev (id, r, en) with
    | error e => left; exact ⟨e, rfl, rfl⟩
    | ok o =>
      cases h2 : dispatch ev post with
      | error e => left; exact ⟨e, rfl, rfl⟩
      | ok ds =>
        right
        have hrefl : Pointwise (DRel id r r') ds ds := pointwise_refl _ ds (fun _ _ => Or.inl rfl)
        cases o with
        | none => exact ⟨ds, ds, rfl, rfl, hrefl⟩
        | some d =>
          refine ⟨d :: ds, (d.1, r', d.2.2) :: ds, rfl, rfl, .cons ?_ hrefl⟩
          -- `d` is `(id, r, bss)`
          unfold dispatchOne at h1
          cases en with
          | false => cases h1
          | true =>
            simp only [Bool.not_true, Bool.false_eq_true, if_false] at h1
            cases hwb : whenBindings ev r with
            | error e => rw [hwb] at h1; cases h1
            | ok bss =>
              rw [hwb] at h1
              cases bss with
              | nil => cases h1
              | cons b bs =>
                simp only [List.isEmpty_cons, Bool.false_eq_true, if_false] at h1
                cases h1
                exact Or.inr ⟨b :: bs, rfl, rfl⟩
  | x :: pre => by
    rw [List.cons_append, List.cons_append, dispatch_cons, dispatch_cons]
    cases h1 : dispatchOne ev x with
    | error e => left; exact ⟨e, rfl, rfl⟩
    | ok o =>
      rcases dispatch_change ev id r r' en post hw pre with ⟨e, he1, he2⟩ | ⟨disp, disp', hd1, hd2, hp⟩
      · left; rw [he1, he2]; exact ⟨e, rfl, rfl⟩
      · right
        rw [hd1, hd2]
        refine ⟨o.toList ++ disp, o.toList ++ disp', rfl, rfl, ?_⟩
        cases o with
        | none => exact hp
        | some d => exact .cons (Or.inl rfl) hp

/-- replacing the action list of one (non-serial) rule changes at most the leaves of that rule's node -/
theorem change_actions (srch : Srch) (loc : String) (ev : Obj) (pre post : List (String × RuleM × Bool))
    (id : String) (r r' : RuleM) (en : Bool)
    (hw : r'.when? = r.when?) (hc : r'.condition = r.condition) (hs : r.serial = false) (hs' : r'.serial = false) :
    (processEvent srch loc ev (pre ++ (id, r, en) :: post)).err =
      (processEvent srch loc ev (pre ++ (id, r', en) :: post)).err ∧
    (processEvent srch loc ev (pre ++ (id, r, en) :: post)).aborted =
      (processEvent srch loc ev (pre ++ (id, r', en) :: post)).aborted ∧
    Pointwise (NodeRel id r r') (processEvent srch loc ev (pre ++ (id, r, en) :: post)).rules
      (processEvent srch loc ev (pre ++ (id, r', en) :: post)).rules := by
  rw [processEvent_eq, processEvent_eq]
  rcases dispatch_change ev id r r' en post hw pre with ⟨e, he1, he2⟩ | ⟨disp, disp', hd1, hd2, hp⟩
  · rw [he1, he2]; exact ⟨rfl, rfl, .nil⟩
  · rw [hd1, hd2]
    have hrel : Pointwise (fun d d' => (ruleStep srch loc ev d).2.2 = (ruleStep srch loc ev d').2.2 ∧
        NodeRel id r r' (ruleStep srch loc ev d).1 (ruleStep srch loc ev d').1) disp disp' := by
      clear hd1 hd2
      induction hp with
      | nil => exact .nil
      | cons h _ ih =>
        refine .cons ?_ ih
        rcases h with rfl | ⟨bss, rfl, rfl⟩
        · exact ⟨rfl, Or.inl rfl⟩
        · exact ruleStep_rel srch loc ev id r r' bss hc hs hs'
    obtain ⟨h1, h2⟩ := runUntil_rel (ruleStep srch loc ev) (ruleStep srch loc ev) (NodeRel id r r') disp disp' hrel
    exact ⟨rfl, h1, h2⟩


theorem actsOf_split (r : RuleM) (p q : List J) (a : J) (h : r.actions = p ++ a :: q) (out : List Bs) :
    actsOf r out = out.flatMap (fun b => p.map (actNodeOf b) ++ actNodeOf b a :: q.map (actNodeOf b)) := by
  unfold actsOf; rw [h]
  congr 1; funext b
  rw [List.map_append, List.map_cons]

theorem okValues_flatMap {α} (l : List α) (f : α → List ActNode) :
    okValues (l.flatMap f) = l.flatMap (fun x => okValues (f x)) := by
  induction l with
  | nil => rfl
  | cons x xs ih => rw [List.flatMap_cons, List.flatMap_cons, okValues_append, ih]

/-- the values after replacing action `a` by an always-failing one: exactly `a`'s values are gone -/
theorem okValues_failed (p q : List J) (out : List Bs) :
    okValues (out.flatMap (fun b => p.map (actNodeOf b) ++ failedNode :: q.map (actNodeOf b))) =
      out.flatMap (fun b => okValues (p.map (actNodeOf b)) ++ okValues (q.map (actNodeOf b))) := by
  rw [okValues_flatMap]
  congr 1; funext b
  rw [okValues_append, okValues_cons_failed]

theorem okValues_with (p q : List J) (a : J) (out : List Bs) :
    okValues (out.flatMap (fun b => p.map (actNodeOf b) ++ actNodeOf b a :: q.map (actNodeOf b))) =
      out.flatMap (fun b => okValues (p.map (actNodeOf b)) ++ okValues [actNodeOf b a] ++ okValues (q.map (actNodeOf b))) := by
  rw [okValues_flatMap]
  congr 1; funext b
  rw [okValues_append, List.append_assoc]
  congr 1
  exact okValues_append [actNodeOf b a] _


/-- every rule node of every tree (aborted or not) is the step of a dispatched entry -/
theorem tree_nodes (srch : Srch) (loc : String) (ev : Obj) (cands : List (String × RuleM × Bool))
    (disp : List (String × RuleM × List Bs)) (hd : dispatch ev cands = .ok disp)
    (rn : RuleNode) (hrn : rn ∈ (processEvent srch loc ev cands).rules) :
    ∃ d ∈ disp, rn = (ruleStep srch loc ev d).1 := by
  obtain ⟨n, hn⟩ := tree_prefix srch loc ev cands disp hd
  rw [hn, List.mem_map] at hrn
  obtain ⟨d, hd1, hd2⟩ := hrn
  exact ⟨d, List.mem_of_mem_take hd1, hd2.symm⟩

theorem tree_err_rules (srch : Srch) (loc : String) (ev : Obj) (cands : List (String × RuleM × Bool))
    (e : LErr) (hd : dispatch ev cands = .error e) :
    processEvent srch loc ev cands = { err := some e, rules := [], values := [], aborted := true } := by
  rw [processEvent_eq, hd]

/-- every condition node of every tree carries the environment of its `when` binding -/
theorem tree_cond_env (srch : Srch) (loc : String) (ev : Obj) (cands : List (String × RuleM × Bool))
    (rn : RuleNode) (hrn : rn ∈ (processEvent srch loc ev cands).rules) :
    ∃ n, rn.conds.map (·.bs) = (rn.bss.take n).map (condEnv loc ev rn.id) := by
  cases hd : dispatch ev cands with
  | error e => rw [tree_err_rules srch loc ev cands e hd] at hrn; cases hrn
  | ok disp =>
    obtain ⟨d, _, rfl⟩ := tree_nodes srch loc ev cands disp hd rn hrn
    obtain ⟨h1, h2, m, h3⟩ := ruleStep_prefix srch loc ev d
    refine ⟨m, ?_⟩
    rw [h3, h1, h2, List.map_map]
    apply List.map_congr_left
    intro b _
    exact evalCond_bs srch loc ev d.1 d.2.1 b

/-- every rule node comes from an enabled candidate whose `when` matched with the node's bindings -/
theorem tree_nodes_dispatched (srch : Srch) (loc : String) (ev : Obj) (cands : List (String × RuleM × Bool))
    (rn : RuleNode) (hrn : rn ∈ (processEvent srch loc ev cands).rules) :
    ∃ r, (rn.id, r, true) ∈ cands ∧ whenBindings ev r = .ok rn.bss ∧ rn.bss ≠ [] := by
  cases hd : dispatch ev cands with
  | error e => rw [tree_err_rules srch loc ev cands e hd] at hrn; cases hrn
  | ok disp =>
    obtain ⟨d, hdm, rfl⟩ := tree_nodes srch loc ev cands disp hd rn hrn
    exact ⟨d.2.1, dispatch_mem ev cands disp hd d hdm⟩

/-- an aborting rule step ends the walk: the later dispatched rules have no node -/
theorem tree_abort (srch : Srch) (loc : String) (ev : Obj) (cands : List (String × RuleM × Bool))
    (dpre dpost : List (String × RuleM × List Bs)) (d : String × RuleM × List Bs)
    (hd : dispatch ev cands = .ok (dpre ++ d :: dpost))
    (hpre : ∀ x ∈ dpre, (ruleStep srch loc ev x).2.2 = false) (hx : (ruleStep srch loc ev d).2.2 = true) :
    (processEvent srch loc ev cands).rules = (dpre ++ [d]).map (fun x => (ruleStep srch loc ev x).1) ∧
    (processEvent srch loc ev cands).aborted = true := by
  rw [processEvent_eq, hd]
  simp only []
  rw [runUntil_stops _ dpre dpost d hpre hx]
  exact ⟨rfl, rfl⟩


theorem execAction_echo (a : J) (b : Bs) (h : isEcho a) : execAction a b = .ok (.obj (stripQ b)) := by
  obtain ⟨o, t, rfl, h1, h2⟩ := h
  rw [execAction_obj, h1]
  exact evalTmpl_echo t _ h2

theorem actsOf_echo (r : RuleM) (out : List Bs) (h : ∀ a ∈ r.actions, isEcho a) :
    actsOf r out = out.flatMap (fun b => r.actions.map (fun _ => ({ ok := true, value := .obj (stripQ b) } : ActNode))) := by
  unfold actsOf
  congr 1; funext b
  apply List.map_congr_left
  intro a ha
  exact actNodeOf_ok b a _ (execAction_echo a b (h a ha))

theorem no_err_dispatch (srch : Srch) (loc : String) (ev : Obj) (cands : List (String × RuleM × Bool))
    (h : (processEvent srch loc ev cands).err = none) : ∃ disp, dispatch ev cands = .ok disp := by
  rw [processEvent_eq] at h
  cases hd : dispatch ev cands with
  | error e => rw [hd] at h; cases h
  | ok disp => exact ⟨disp, rfl⟩

end EventsProofs

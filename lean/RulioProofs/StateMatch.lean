import RulioProofs.StateBasic

set_option linter.unusedSimpArgs false
set_option linter.unusedVariables false

/-! # The matcher on the cascade pattern `{"deleteWith":[id]}`, and `ExtractTerms` facts -/

/-! ## `BEq J` is lawful -/

mutual
theorem J.beq_eq_st : ∀ (a b : J), J.beq a b = true → a = b
  | .null, b => by cases b <;> simp [J.beq]
  | .bool x, b => by cases b <;> simp [J.beq]
  | .num x, b => by cases b <;> simp [J.beq]
  | .str x, b => by cases b <;> simp [J.beq]
  | .arr xs, b => by
    cases b <;> simp only [J.beq, Bool.false_eq_true, false_imp_iff, reduceCtorEq]
    intro h; rw [J.beqL_eq_st _ _ h]
  | .obj xs, b => by
    cases b <;> simp only [J.beq, Bool.false_eq_true, false_imp_iff, reduceCtorEq]
    intro h; rw [J.beqO_eq_st _ _ h]
theorem J.beqL_eq_st : ∀ (a b : List J), J.beqL a b = true → a = b
  | [], b => by cases b <;> simp [J.beqL]
  | x :: xs, b => by
    cases b with
    | nil => simp [J.beqL]
    | cons y ys =>
      simp only [J.beqL, Bool.and_eq_true]
      intro h; rw [J.beq_eq_st _ _ h.1, J.beqL_eq_st _ _ h.2]
theorem J.beqO_eq_st : ∀ (a b : List (String × J)), J.beqO a b = true → a = b
  | [], b => by cases b <;> simp [J.beqO]
  | (k, x) :: xs, b => by
    cases b with
    | nil => simp [J.beqO]
    | cons y ys =>
      obtain ⟨l, y⟩ := y
      simp only [J.beqO, Bool.and_eq_true, beq_iff_eq]
      intro h; rw [h.1.1, J.beq_eq_st _ _ h.1.2, J.beqO_eq_st _ _ h.2]
end

mutual
theorem J.beq_refl_st : ∀ (a : J), J.beq a a = true
  | .null => by simp [J.beq]
  | .bool x => by simp [J.beq]
  | .num x => by simp [J.beq]
  | .str x => by simp [J.beq]
  | .arr xs => by simp only [J.beq]; exact J.beqL_refl_st xs
  | .obj xs => by simp only [J.beq]; exact J.beqO_refl_st xs
theorem J.beqL_refl_st : ∀ (a : List J), J.beqL a a = true
  | [] => by simp [J.beqL]
  | x :: xs => by simp only [J.beqL, Bool.and_eq_true]; exact ⟨J.beq_refl_st x, J.beqL_refl_st xs⟩
theorem J.beqO_refl_st : ∀ (a : List (String × J)), J.beqO a a = true
  | [] => by simp [J.beqO]
  | (k, x) :: xs => by
    simp only [J.beqO, Bool.and_eq_true, beq_self_eq_true, true_and]; exact ⟨J.beq_refl_st x, J.beqO_refl_st xs⟩
end

instance stLawfulBEqJ : LawfulBEq J where
  eq_of_beq := fun {a b} h => J.beq_eq_st a b h
  rfl := fun {a} => J.beq_refl_st a

/-! ## string constants used by the cascade pattern -/

theorem isVar_deleteWith : isVar "deleteWith" = false := by decide +kernel
theorem deleteWith_not_skipped : ("deleteWith" == "rule" || "deleteWith".endsWith "!") = false := by decide +kernel
theorem deleteWith_short : "deleteWith".utf8ByteSize < stringLengthTermLimit := by decide +kernel

/-! ## the matcher on `{"deleteWith":[id]}` -/

theorem deleteWithOf_contains (fact : Obj) (id : String) :
    depOn fact id = match lookupKey "deleteWith" fact with
      | some (.arr xs) => xs.contains (.str id)
      | _ => false := by
  simp only [depOn, deleteWithOf, Obj.get?]
  cases h : lookupKey "deleteWith" fact with
  | none => simp
  | some v =>
    cases v with
    | arr xs =>
      simp only
      rw [Bool.eq_iff_iff]
      simp only [List.contains_iff_mem, List.mem_filterMap]
      constructor
      · rintro ⟨x, hx, hs⟩
        cases x <;> simp at hs
        subst hs; exact hx
      · intro h; exact ⟨.str id, h, rfl⟩
    | _ => simp

theorem matchJ_arr_const (id : String) (hid : isVar id = false) (fv : J) :
    matchJ (.arr [.str id]) fv [] = .ok (match fv with
      | .arr xs => if xs.contains (.str id) then [[]] else []
      | _ => []) := by
  unfold matchJ
  simp only [getVariable, hid, Bool.false_eq_true, ↓reduceIte, bind, Except.bind, pure, Except.pure]
  cases fv with
  | arr fa =>
    simp only
    unfold matchA
    simp only [hid, Bool.false_eq_true, ↓reduceIte, J.isScalar]
    have hc : ((fa.filter J.isScalar).eraseDups.contains (J.str id)) = fa.contains (J.str id) := by
      rw [Bool.eq_iff_iff]
      simp only [List.contains_iff_mem, List.mem_eraseDups, List.mem_filter, J.isScalar, and_true]
    rw [hc]
    by_cases hcon : fa.contains (J.str id) = true
    · simp only [hcon, ↓reduceIte, List.map_cons, List.map_nil]
      unfold matchA
      simp
    · simp only [hcon, Bool.false_eq_true, ↓reduceIte]
      simp
  | _ => simp

/-- **the matcher lemma for the cascade pattern**: with a constant `id`, `{"deleteWith":[id]}` matches a fact
iff the fact has a key `deleteWith` holding an array that contains the string `id`; it then yields exactly
one (empty) binding, and it never fails. -/
theorem matchesJ_depPat (id : String) (hid : isVar id = false) (fact : Obj) :
    matchesJ (.obj (depPat id)) (.obj fact) = .ok (if depOn fact id then [[]] else []) := by
  rw [deleteWithOf_contains]
  simp only [matchesJ, depPat]
  unfold matchJ
  simp only [List.isEmpty_cons, Bool.false_eq_true, ↓reduceIte, List.length_cons, List.length_nil,
    Nat.zero_add, Nat.lt_irrefl, decide_false, Bool.false_and]
  unfold matchO
  simp only [isVar_deleteWith, Bool.false_eq_true, ↓reduceIte]
  cases hl : lookupKey "deleteWith" fact with
  | none => simp
  | some fv =>
    simp only [List.mapM_cons, List.mapM_nil, matchJ_arr_const id hid, bind, Except.bind, pure, Except.pure]
    cases fv with
    | arr xs =>
      simp only
      by_cases hcon : xs.contains (J.str id) = true
      · simp only [hcon, ↓reduceIte]
        unfold matchO
        simp [List.flatMap]
      · simp only [hcon, Bool.false_eq_true, ↓reduceIte]
        simp [List.flatMap]
    | _ => simp [List.flatMap]

/-! ## terms -/

theorem mem_extractTerms {o : Obj} {t : String} : t ∈ extractTerms o ↔ t ∈ termsO o := by
  simp [extractTerms, List.mem_eraseDups]

theorem termsL_of_mem {xs : List J} {x : J} (hx : x ∈ xs) {t : String} (ht : t ∈ termsJ x) : t ∈ termsL xs := by
  induction xs with
  | nil => simp at hx
  | cons y ys ih =>
    simp only [termsL, List.mem_append]
    rcases List.mem_cons.1 hx with h | h
    · subst h; exact Or.inl ht
    · exact Or.inr (ih h)

theorem termsO_of_lookup {o : Obj} {k : String} {v : J} (h : lookupKey k o = some v) :
    (isVar k = false → k.utf8ByteSize < stringLengthTermLimit → k ∈ termsO o) ∧
    ((k == "rule" || k.endsWith "!") = false → ∀ t, t ∈ termsJ v → t ∈ termsO o) := by
  induction o with
  | nil => simp [lookupKey] at h
  | cons e r ih =>
    obtain ⟨k0, v0⟩ := e
    simp only [lookupKey] at h
    split at h
    · rename_i hk
      simp at hk; subst hk
      injection h with h; subst h
      constructor
      · intro hv hs
        simp only [termsO, List.mem_append]
        left; left
        simp [hv, hs]
      · intro hskip t ht
        simp only [termsO, List.mem_append]
        left; right
        rw [if_neg (by simp only [hskip]; simp)]
        exact ht
    · obtain ⟨h1, h2⟩ := ih h
      constructor
      · intro hv hs
        simp only [termsO, List.mem_append]
        exact Or.inr (h1 hv hs)
      · intro hskip t ht
        simp only [termsO, List.mem_append]
        exact Or.inr (h2 hskip t ht)

theorem termsO_depPat (id : String) :
    termsO (depPat id) = "deleteWith" :: (if !isVar id && id.utf8ByteSize < stringLengthTermLimit then [id] else []) := by
  simp only [depPat, termsO, termsJ, termsL, isVar_deleteWith, deleteWith_short, deleteWith_not_skipped]
  simp

theorem extractTerms_depPat_ne_nil (id : String) : extractTerms (depPat id) ≠ [] := by
  intro h
  have : "deleteWith" ∈ extractTerms (depPat id) := by
    rw [mem_extractTerms, termsO_depPat]; simp
  rw [h] at this; simp at this

/-- a fact that names `id` in `deleteWith` carries every term of the cascade pattern -/
theorem terms_depPat_subset {fact : Obj} {id : String} (h : depOn fact id = true) :
    ∀ t, t ∈ extractTerms (depPat id) → t ∈ extractTerms fact := by
  intro t ht
  rw [mem_extractTerms] at ht ⊢
  rw [deleteWithOf_contains] at h
  cases hl : lookupKey "deleteWith" fact with
  | none => rw [hl] at h; simp at h
  | some v =>
    rw [hl] at h
    cases v with
    | arr xs =>
      simp only [List.contains_iff_mem] at h
      obtain ⟨h1, h2⟩ := termsO_of_lookup hl
      rw [termsO_depPat] at ht
      rcases List.mem_cons.1 ht with ht | ht
      · subst ht; exact h1 isVar_deleteWith deleteWith_short
      · apply h2 deleteWith_not_skipped
        simp only [termsJ]
        apply termsL_of_mem h
        split at ht
        · rename_i hc
          simp only [List.mem_singleton] at ht; subst ht
          simp only [termsJ, hc, ↓reduceIte, List.mem_singleton]
        · simp at ht
    | _ => simp at h

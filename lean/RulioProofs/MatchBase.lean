import RulioModel.MatchFrag
import Mathlib.Data.List.Perm.Subperm
import Mathlib.Data.List.Forall2

/-! # Base lemmas for the matcher proofs (C05): JSON equality, variables, bindings, `mapM`, `splitNth` -/

/-! ## `J` has lawful equality -/
mutual
theorem J.beq_eq : ∀ (a b : J), J.beq a b = true ↔ a = b
  | .null, b => by cases b <;> simp [J.beq]
  | .bool x, b => by cases b <;> simp [J.beq]
  | .num x, b => by cases b <;> simp [J.beq]
  | .str x, b => by cases b <;> simp [J.beq]
  | .arr xs, b => by
      cases b <;> simp [J.beq]
      exact J.beqL_eq xs _
  | .obj xs, b => by
      cases b <;> simp [J.beq]
      exact J.beqO_eq xs _
theorem J.beqL_eq : ∀ (a b : List J), J.beqL a b = true ↔ a = b
  | [], b => by cases b <;> simp [J.beqL]
  | x :: xs, b => by
      cases b with
      | nil => simp [J.beqL]
      | cons y ys => simp [J.beqL, J.beq_eq x y, J.beqL_eq xs ys]
theorem J.beqO_eq : ∀ (a b : List (String × J)), J.beqO a b = true ↔ a = b
  | [], b => by cases b <;> simp [J.beqO]
  | (k, x) :: xs, b => by
      cases b with
      | nil => simp [J.beqO]
      | cons y ys =>
        obtain ⟨l, y⟩ := y
        simp [J.beqO, J.beq_eq x y, J.beqO_eq xs ys, and_assoc]
end

instance : LawfulBEq J where
  eq_of_beq {a b} h := (J.beq_eq a b).1 h
  rfl {a} := (J.beq_eq a a).2 rfl

/-! ## variables -/
theorem isVar_iff (s : String) : isVar s = true ↔ ['?'] <+: s.toList := by
  unfold isVar; exact String.startsWith_string_iff
theorem isOptVar_iff (s : String) : isOptVar s = true ↔ ['?','?'] <+: s.toList := by
  unfold isOptVar; exact String.startsWith_string_iff
theorem isVar_of_isOptVar {s : String} : isOptVar s = true → isVar s = true := by
  rw [isVar_iff, isOptVar_iff]
  rintro ⟨t, ht⟩
  exact ⟨'?' :: t, by simp [← ht]⟩
theorem isVar_anon : isVar "?" = true := by simp [isVar]
theorem isOptVar_anon : isOptVar "?" = false := by simp [isOptVar]

/-- the "is a variable element of an array pattern" test used by `matchA` and `patOK` -/
def isVarElem (x : J) : Bool := match x with | .str s => isVar s | _ => false

theorem isVarElem_scalar {x : J} (h : isVarElem x = true) : x.isScalar = true := by
  cases x <;> simp_all [isVarElem, J.isScalar]

/-! ## bindings -/
theorem Bs.get?_filter_ne (bs : Bs) (k k' : String) :
    Bs.get? (bs.filter (fun p => p.1 != k)) k' = if k' = k then none else Bs.get? bs k' := by
  induction bs with
  | nil => simp [Bs.get?]
  | cons kv r ih =>
    obtain ⟨a, v⟩ := kv
    by_cases ha : a = k
    · subst ha
      simp only [List.filter_cons, bne_self_eq_false, Bool.false_eq_true, if_false, ih, Bs.get?]
      by_cases hk : k' = a
      · simp [hk]
      · simp [hk]
    · have : (a != k) = true := by simp [ha]
      simp only [List.filter_cons, this, if_true, Bs.get?, ih]
      by_cases hk : k' = a
      · subst hk; simp [ha]
      · simp [hk]

theorem Bs.get?_set (bs : Bs) (k k' : String) (v : J) :
    (bs.set k v).get? k' = if k' = k then some v else bs.get? k' := by
  unfold Bs.set
  rw [Bs.get?.eq_def]
  simp only [beq_iff_eq, Bs.get?_filter_ne]
  by_cases hk : k' = k <;> simp [hk]

theorem Bs.ext_set {bs : Bs} {k : String} (v : J) (h : bs.get? k = none) : bs.Ext (bs.set k v) := by
  intro k' w hw
  rw [Bs.get?_set]
  by_cases hk : k' = k
  · subst hk; rw [h] at hw; cases hw
  · simp [hk, hw]

theorem Bs.set_ext {bs τ : Bs} {k : String} {v : J} (h : bs.Ext τ) (hv : τ.get? k = some v) :
    (bs.set k v).Ext τ := by
  intro k' w hw
  rw [Bs.get?_set] at hw
  by_cases hk : k' = k
  · subst hk; simp at hw; subst hw; exact hv
  · simp [hk] at hw; exact h _ _ hw

/-! ## `Except` and `mapM` -/
theorem Except.bind_ok_iff {ε α β : Type} (x : Except ε α) (f : α → Except ε β) (b : β) :
    (x >>= f) = .ok b ↔ ∃ a, x = .ok a ∧ f a = .ok b := by
  cases x <;> simp [bind, Except.bind]

theorem Except.bind_error_iff {ε α β : Type} (x : Except ε α) (f : α → Except ε β) (e : ε) :
    (x >>= f) = .error e ↔ x = .error e ∨ ∃ a, x = .ok a ∧ f a = .error e := by
  cases x <;> simp [bind, Except.bind]

theorem mapM_ok_forall₂ {ε α β : Type} (f : α → Except ε β) :
    ∀ (l : List α) (rs : List β), l.mapM f = .ok rs → List.Forall₂ (fun a r => f a = .ok r) l rs
  | [], rs, h => by
      simp [pure, Except.pure] at h; subst h; exact .nil
  | a :: l, rs, h => by
      rw [List.mapM_cons] at h
      obtain ⟨r, hr, h⟩ := (Except.bind_ok_iff _ _ _).1 h
      obtain ⟨rl, hrl, h⟩ := (Except.bind_ok_iff _ _ _).1 h
      simp [pure, Except.pure] at h; subst h
      exact .cons hr (mapM_ok_forall₂ f l rl hrl)

theorem mapM_ok_mem_right {ε α β : Type} {f : α → Except ε β} {l : List α} {rs : List β}
    (h : l.mapM f = .ok rs) {r : β} (hr : r ∈ rs) : ∃ a ∈ l, f a = .ok r := by
  have := mapM_ok_forall₂ f l rs h
  clear h
  induction this with
  | nil => cases hr
  | cons h1 _ ih =>
    rcases List.mem_cons.1 hr with rfl | hr
    · exact ⟨_, List.mem_cons_self, h1⟩
    · obtain ⟨a, ha, hf⟩ := ih hr
      exact ⟨a, List.mem_cons_of_mem _ ha, hf⟩

theorem mapM_ok_mem_left {ε α β : Type} {f : α → Except ε β} {l : List α} {rs : List β}
    (h : l.mapM f = .ok rs) {a : α} (ha : a ∈ l) : ∃ r ∈ rs, f a = .ok r := by
  have := mapM_ok_forall₂ f l rs h
  clear h
  induction this with
  | nil => cases ha
  | cons h1 _ ih =>
    rcases List.mem_cons.1 ha with rfl | ha
    · exact ⟨_, List.mem_cons_self, h1⟩
    · obtain ⟨r, hr, hf⟩ := ih ha
      exact ⟨r, List.mem_cons_of_mem _ hr, hf⟩

theorem mapM_ok_of_forall {ε α β : Type} {f : α → Except ε β} :
    ∀ {l : List α}, (∀ a ∈ l, ∃ r, f a = .ok r) → ∃ rs, l.mapM f = .ok rs
  | [], _ => ⟨[], by simp [pure, Except.pure]⟩
  | a :: l, h => by
      obtain ⟨r, hr⟩ := h a List.mem_cons_self
      obtain ⟨rs, hrs⟩ := mapM_ok_of_forall (l := l) (fun a ha => h a (List.mem_cons_of_mem _ ha))
      exact ⟨r :: rs, by simp [List.mapM_cons, hr, hrs, bind, Except.bind, pure, Except.pure]⟩

/-- if `mapM` fails, one of the calls failed with that error -/
theorem mapM_error {ε α β : Type} {f : α → Except ε β} {e : ε} :
    ∀ {l : List α}, l.mapM f = .error e → ∃ a ∈ l, f a = .error e
  | [], h => by simp [pure, Except.pure] at h
  | a :: l, h => by
      rw [List.mapM_cons] at h
      rcases (Except.bind_error_iff _ _ _).1 h with h | ⟨r, _, h⟩
      · exact ⟨a, List.mem_cons_self, h⟩
      · rcases (Except.bind_error_iff _ _ _).1 h with h | ⟨rl, _, h⟩
        · obtain ⟨a', ha', h'⟩ := mapM_error h
          exact ⟨a', List.mem_cons_of_mem _ ha', h'⟩
        · simp [pure, Except.pure] at h

/-! ## `splitNth` -/
theorem splitNth_perm {α : Type} : ∀ {l : List α} {y : α} {r : List α}, (y, r) ∈ splitNth l → l.Perm (y :: r)
  | [], _, _, h => by simp [splitNth] at h
  | x :: xs, y, r, h => by
      simp only [splitNth, List.mem_cons, List.mem_map] at h
      rcases h with h | ⟨⟨y', r'⟩, hm, h⟩
      · cases h; exact List.Perm.refl _
      · cases h
        have := splitNth_perm hm
        exact (List.Perm.cons x this).trans (List.Perm.swap _ _ _)

theorem splitNth_mem {α : Type} : ∀ {l : List α} {y : α}, y ∈ l → ∃ r, (y, r) ∈ splitNth l
  | [], _, h => by cases h
  | x :: xs, y, h => by
      rcases List.mem_cons.1 h with rfl | h
      · exact ⟨xs, by simp [splitNth]⟩
      · obtain ⟨r, hr⟩ := splitNth_mem h
        exact ⟨x :: r, by simp only [splitNth, List.mem_cons, List.mem_map]; exact Or.inr ⟨(y, r), hr, rfl⟩⟩

theorem splitNth_mem_fst {α : Type} {l : List α} {y : α} {r : List α} (h : (y, r) ∈ splitNth l) : y ∈ l :=
  (splitNth_perm h).mem_iff.2 List.mem_cons_self

/-! ## distinct lists -/
theorem distinctJ_eraseDups : ∀ {l : List J}, distinctJ l = true → l.eraseDups = l
  | [], _ => by simp
  | x :: xs, h => by
      simp only [distinctJ, Bool.and_eq_true, Bool.not_eq_true', List.contains_eq_mem,
        decide_eq_false_iff_not] at h
      rw [List.eraseDups_cons]
      have : xs.filter (fun b => !b == x) = xs := by
        apply List.filter_eq_self.2
        intro a ha
        simp only [Bool.not_eq_true', beq_eq_false_iff_ne, ne_eq]
        rintro rfl; exact h.1 ha
      rw [this, distinctJ_eraseDups h.2]

/-! ## ground partial match on scalars is equality -/
theorem gmatch_scalar {b : J} (hb : b.isScalar = true) (f : J) : gmatch b f = if b == f then 1 else 0 := by
  cases b <;> cases f <;> simp_all [gmatch, J.isScalar]

import RulioProofs.SysCover
import RulioProofs.CloseDiverge

open AM

/-! # C09: the inherited searches never answer `"diverge"` (composition of the fuel bound of `SysWalk.lean`
with the error-class induction of `CloseDiverge.lean`). -/

theorem panic_ne_diverge (e : String) : "panic:" ++ e ≠ "diverge" := by
  intro h
  have h2 := congrArg String.toList h
  rw [String.toList_append] at h2
  have h3 : "panic:".toList = ['p','a','n','i','c',':'] := by decide
  have h4 : "diverge".toList = ['d','i','v','e','r','g','e'] := by decide
  rw [h3, h4] at h2
  simp at h2

theorem err_ne_cast {α β} {e : LErr} (h : (Except.error e : Except LErr α) ≠ .error "diverge") :
    (Except.error e : Except LErr β) ≠ .error "diverge" :=
  fun h' => h (congrArg Except.error (Except.error.inj h'))

/-- the walk at the model's own budget, for any name-preserving `fn` that never answers `"diverge"` itself -/
theorem doAncestors_nd {α} {now : Int} {fn : String → LM α} (hfn : ∀ n, (fn n).KeepsName)
    (hnd : ∀ n, (fn n).NoDiv) {sys : Sys} (wf : SysWF sys) (n : String) (acc : List α) :
    (doAncestors (ancestorFuel sys) sys n now fn acc).2 ≠ .error "diverge" :=
  doAncestors_no_diverge hfn (fun m l => (hnd m l).ne) (fun l => (locGetParentsRaw_nd now l).ne) _ sys n acc []
    wf ⟨List.nodup_nil, by simp⟩ (by simp [ancestorFuel])

theorem tagged_nd {α} {fn : String → LM α} (h : ∀ n, (fn n).NoDiv) (n : String) : (tagged fn n).NoDiv :=
  LM.NoDiv.bind (h n) (fun _ => LM.NoDiv.pure _)

theorem tagged_keepsName {α} {fn : String → LM α} (h : ∀ n, (fn n).KeepsName) (n : String) : (tagged fn n).KeepsName := by
  intro l
  unfold tagged LM.bind
  have := h n l
  cases hml : fn n l with
  | mk l1 r => rw [hml] at this; cases r <;> exact this

theorem sysSearchFacts_nd {sys : Sys} (wf : SysWF sys) (c : Ctx) (n : String) (p : Obj) (inh : Bool) (now : Int) :
    (sysSearchFacts sys c n p inh now).2 ≠ .error "diverge" := by
  unfold sysSearchFacts
  split
  · have h := doAncestors_nd (now := now) (fn := tagged (fun _ => locSearchFacts c p now))
      (tagged_keepsName (fun _ => (locSearchFacts_keeps c p now).keepsName)) (tagged_nd (fun _ => locSearchFacts_nd c p now)) wf n []
    split
    · intro h'; cases h'
    · rename_i s e heq
      rw [heq] at h
      exact err_ne_cast h
  · exact (Sys.at_nd sys n (locSearchFacts_nd c p now)).ne

theorem sysSearchRulesAnc_nd {sys : Sys} (wf : SysWF sys) (c : Ctx) (n : String) (ev : Obj) (now : Int) :
    (sysSearchRulesAnc sys c n ev now).2 ≠ .error "diverge" := by
  unfold sysSearchRulesAnc
  have h := doAncestors_nd (now := now) (fn := tagged (fun _ => locSearchRules c ev now))
    (tagged_keepsName (fun _ => (locSearchRules_keeps c ev now).keepsName)) (tagged_nd (fun _ => locSearchRules_nd c ev now)) wf n []
  split
  · rename_i s e heq
    rw [heq] at h
    exact err_ne_cast h
  · dsimp only
    split
    · intro h'; exact absurd (Except.error.inj h') (by decide)
    · intro h'; cases h'

theorem sysSearchRules_nd {sys : Sys} (wf : SysWF sys) (c : Ctx) (n : String) (ev : Obj) (inh : Bool) (now : Int) :
    (sysSearchRules sys c n ev inh now).2 ≠ .error "diverge" := by
  unfold sysSearchRules
  have hg := Sys.at_nd sys n (runGuards_nd c now (guardsOf "SearchRules"))
  have hwf := Sys.at_wf wf n (runGuards c now (guardsOf "SearchRules"))
  split
  · rename_i s e heq
    rw [heq] at hg
    exact err_ne_cast hg.ne
  · rename_i s u heq
    rw [heq] at hwf
    split
    · exact sysSearchRulesAnc_nd hwf c n ev now
    · exact (Sys.at_nd s n (locSearchRules_nd c ev now)).ne

theorem sysListRules_nd (sys : Sys) (c : Ctx) (n : String) (inh : Bool) (now : Int) :
    (sysListRules sys c n inh now).2 ≠ .error "diverge" := by
  unfold sysListRules
  have hg := Sys.at_nd sys n (runGuards_nd c now (guardsOf "ListRules"))
  split
  · rename_i s e heq
    rw [heq] at hg
    exact err_ne_cast hg.ne
  · split
    · split
      · intro h'; cases h'
      · intro h'
        exact panic_ne_diverge _ (Except.error.inj h')
    · intro h'; cases h'

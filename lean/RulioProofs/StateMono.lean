import RulioProofs.StateSearch

set_option linter.unusedSimpArgs false
set_option linter.unusedVariables false

/-! # Fuel monotonicity: a result that is not the fuel error does not change when the budget grows -/

theorem map_ne_fuel {α β} {r : Except LErr α} {g : α → β} (h : r.map g ≠ .error "fuel") : r ≠ .error "fuel" := by
  intro hr; subst hr; exact h rfl

/-- indexed state (needs "nothing expired": `isearchLoop` swallows the error of an expiry purge) -/
theorem imono (now : Int) : ∀ f : Nat,
    (∀ s i, NoneExpiredBut s i now → (St.irem f s i now).2 ≠ .error "fuel" →
      St.irem (f + 1) s i now = St.irem f s i now) ∧
    (∀ s i, NoneExpired s now → (St.ideps f s i now).2 ≠ .error "fuel" → St.ideps (f + 1) s i now = St.ideps f s i now) ∧
    (∀ s L, NoneExpired s now → (St.iremAll f s L now).2 ≠ .error "fuel" →
      St.iremAll (f + 1) s L now = St.iremAll f s L now) ∧
    (∀ s p, NoneExpired s now → (St.isearch f s p now).2 ≠ .error "fuel" →
      St.isearch (f + 1) s p now = St.isearch f s p now) ∧
    (∀ s p ids acc, NoneExpired s now → (St.isearchLoop f s p ids now acc).2 ≠ .error "fuel" →
      St.isearchLoop (f + 1) s p ids now acc = St.isearchLoop f s p ids now acc) := by
  intro f
  induction f with
  | zero =>
    refine ⟨?_, ?_, ?_, ?_, ?_⟩ <;> intros <;> rename_i h <;> exact absurd rfl h
  | succ f ih =>
    obtain ⟨ih1, ih2, ih3, ih4, ih5⟩ := ih
    refine ⟨?_, ?_, ?_, ?_, ?_⟩
    · intro s i hne h
      rw [St.irem_succ] at h
      rw [St.irem_succ (f + 1), St.irem_succ f]
      cases hg : amGet s.facts i with
      | some fact =>
        rw [hg] at h
        simp only at h ⊢
        cases hu : s.unindexOf i fact with
        | error e => rfl
        | ok s1 =>
          rw [hu] at h
          simp only at h ⊢
          have hne2 : NoneExpired (s1.idel i fact) now := by
            intro e he
            simp only [St.idel, (unindexOf_same hu).1, amErase_eq_filterOut] at he
            obtain ⟨h1, h2⟩ := mem_filterOut.1 he
            exact hne e h1 (by simpa using h2)
          rw [ih2 _ i hne2 (map_ne_fuel h)]
      | none =>
        rw [hg] at h
        simp only at h ⊢
        have hne2 : NoneExpired s now := by
          intro e he
          apply hne e he
          rintro rfl
          exact amGet_none_iff.1 hg (List.mem_map.2 ⟨e, he, rfl⟩)
        rw [ih2 _ i hne2 (map_ne_fuel h)]
    · intro s i hne h
      rw [St.ideps_succ] at h
      rw [St.ideps_succ (f + 1), St.ideps_succ f]
      by_cases hv : isVar i = true
      · simp [hv]
      · simp only [hv, Bool.false_eq_true, ↓reduceIte] at h ⊢
        have hs : (St.isearch f s (depPat i) now).2 ≠ .error "fuel" := by
          intro hs; rw [hs] at h; exact h rfl
        rw [ih4 s _ hne hs]
        cases hr : (St.isearch f s (depPat i) now).2 with
        | error e => rfl
        | ok found =>
          rw [hr] at h
          simp only at h ⊢
          have hle : StLe s (St.isearch f s (depPat i) now).1 := (iframe now f).2.2.2.1 s _
          rw [ih3 _ _ (hle.noneExpired hne) h]
    · intro s L hne h
      cases L with
      | nil => rfl
      | cons i rest =>
        rw [St.iremAll_cons] at h
        rw [St.iremAll_cons (f + 1), St.iremAll_cons f]
        have hs : (St.irem f s i now).2 ≠ .error "fuel" := by
          intro hs; rw [hs] at h; exact h rfl
        rw [ih1 s i (fun e he _ => hne e he) hs]
        cases hr : (St.irem f s i now).2 with
        | error e => rfl
        | ok b =>
          rw [hr] at h
          simp only at h ⊢
          have hle : StLe s (St.irem f s i now).1 := (iframe now f).1 s i
          rw [ih3 _ _ (hle.noneExpired hne) h]
    · intro s p hne h
      rw [St.isearch_succ] at h
      rw [St.isearch_succ (f + 1), St.isearch_succ f]
      cases hc : s.cands p with
      | error e => rfl
      | ok ids =>
        rw [hc] at h
        simp only at h ⊢
        rw [ih5 _ _ _ _ hne h]
    · intro s p ids acc hne h
      cases ids with
      | nil => rfl
      | cons i rest =>
        rw [St.isearchLoop_cons] at h
        rw [St.isearchLoop_cons (f + 1), St.isearchLoop_cons f]
        cases hg : amGet s.facts i with
        | none =>
          rw [hg] at h
          simp only at h ⊢
          rw [ih5 _ _ _ _ hne h]
        | some fact =>
          rw [hg] at h
          simp only [amGet_noneExpired hne hg] at h ⊢
          cases hm : matchesJ (.obj p) (.obj fact) with
          | error e => rfl
          | ok bss =>
            rw [hm] at h
            simp only at h ⊢
            rw [ih5 _ _ _ _ hne h]

/-- linear state (unconditional: every error is propagated) -/
theorem lmono (now : Int) : ∀ f : Nat,
    (∀ s i, (St.lrem f s i now).2 ≠ .error "fuel" → St.lrem (f + 1) s i now = St.lrem f s i now) ∧
    (∀ s L, (St.lremAll f s L now).2 ≠ .error "fuel" → St.lremAll (f + 1) s L now = St.lremAll f s L now) ∧
    (∀ s p, (St.lsearch f s p now).2 ≠ .error "fuel" → St.lsearch (f + 1) s p now = St.lsearch f s p now) ∧
    (∀ s p ids acc, (St.lsearchLoop f s p ids now acc).2 ≠ .error "fuel" →
      St.lsearchLoop (f + 1) s p ids now acc = St.lsearchLoop f s p ids now acc) := by
  intro f
  induction f with
  | zero =>
    refine ⟨?_, ?_, ?_, ?_⟩ <;> intros <;> rename_i h <;> exact absurd rfl h
  | succ f ih =>
    obtain ⟨ih1, ih2, ih3, ih4⟩ := ih
    refine ⟨?_, ?_, ?_, ?_⟩
    · intro s i h
      rw [St.lrem_succ] at h
      rw [St.lrem_succ (f + 1), St.lrem_succ f]
      by_cases hv : isVar i = true
      · simp [hv]
      · simp only [hv, Bool.false_eq_true, ↓reduceIte] at h ⊢
        have hs : (St.lsearch f (s.ldel i) (depPat i) now).2 ≠ .error "fuel" := by
          intro hs; rw [hs] at h; exact h rfl
        rw [ih3 _ _ hs]
        cases hr : (St.lsearch f (s.ldel i) (depPat i) now).2 with
        | error e => rfl
        | ok found =>
          rw [hr] at h
          simp only at h ⊢
          rw [ih2 _ _ (map_ne_fuel h)]
    · intro s L h
      cases L with
      | nil => rfl
      | cons i rest =>
        rw [St.lremAll_cons] at h
        rw [St.lremAll_cons (f + 1), St.lremAll_cons f]
        have hs : (St.lrem f s i now).2 ≠ .error "fuel" := by
          intro hs; rw [hs] at h; exact h rfl
        rw [ih1 s i hs]
        cases hr : (St.lrem f s i now).2 with
        | error e => rfl
        | ok b =>
          rw [hr] at h
          simp only at h ⊢
          rw [ih2 _ _ h]
    · intro s p h
      rw [St.lsearch_succ] at h
      rw [St.lsearch_succ (f + 1), St.lsearch_succ f]
      rw [ih4 _ _ _ _ h]
    · intro s p ids acc h
      cases ids with
      | nil => rfl
      | cons i rest =>
        rw [St.lsearchLoop_cons] at h
        rw [St.lsearchLoop_cons (f + 1), St.lsearchLoop_cons f]
        cases hg : amGet s.facts i with
        | none =>
          rw [hg] at h
          simp only at h ⊢
          rw [ih4 _ _ _ _ h]
        | some fact =>
          rw [hg] at h
          simp only at h ⊢
          rcases hce : checkExpiration fact now with e | b
          · rfl
          · rw [hce] at h
            cases b with
            | false =>
              simp only at h ⊢
              cases hm : matchesJ (.obj p) (.obj fact) with
              | error e => rfl
              | ok bss =>
                rw [hm] at h
                simp only at h ⊢
                rw [ih4 _ _ _ _ h]
            | true =>
              simp only at h ⊢
              have hs : (St.lrem f s i now).2 ≠ .error "fuel" := by
                intro hs; rw [hs] at h; exact h rfl
              rw [ih1 s i hs]
              cases hr : (St.lrem f s i now).2 with
              | error e => rfl
              | ok b =>
                rw [hr] at h
                simp only at h ⊢
                rw [ih4 _ _ _ _ h]

/-! ## any larger budget -/

theorem irem_mono {now : Int} {s : St} {i : String} (hne : NoneExpiredBut s i now) {f : Nat}
    (h : (St.irem f s i now).2 ≠ .error "fuel") : ∀ g, f ≤ g → St.irem g s i now = St.irem f s i now := by
  intro g hg
  induction g with
  | zero => have : f = 0 := by omega
            subst this; rfl
  | succ g ih =>
    by_cases hfg : f = g + 1
    · subst hfg; rfl
    · have hle : f ≤ g := by omega
      have := ih hle
      rw [← this] at h
      rw [(imono now g).1 s i hne h, this]

theorem lrem_mono {now : Int} {s : St} {i : String} {f : Nat}
    (h : (St.lrem f s i now).2 ≠ .error "fuel") : ∀ g, f ≤ g → St.lrem g s i now = St.lrem f s i now := by
  intro g hg
  induction g with
  | zero => have : f = 0 := by omega
            subst this; rfl
  | succ g ih =>
    by_cases hfg : f = g + 1
    · subst hfg; rfl
    · have hle : f ≤ g := by omega
      have := ih hle
      rw [← this] at h
      rw [(lmono now g).1 s i h, this]

theorem isearch_mono {now : Int} {s : St} {p : Obj} (hne : NoneExpired s now) {f : Nat}
    (h : (St.isearch f s p now).2 ≠ .error "fuel") : ∀ g, f ≤ g → St.isearch g s p now = St.isearch f s p now := by
  intro g hg
  induction g with
  | zero => have : f = 0 := by omega
            subst this; rfl
  | succ g ih =>
    by_cases hfg : f = g + 1
    · subst hfg; rfl
    · have hle : f ≤ g := by omega
      have := ih hle
      rw [← this] at h
      rw [(imono now g).2.2.2.1 s p hne h, this]

theorem lsearch_mono {now : Int} {s : St} {p : Obj} {f : Nat}
    (h : (St.lsearch f s p now).2 ≠ .error "fuel") : ∀ g, f ≤ g → St.lsearch g s p now = St.lsearch f s p now := by
  intro g hg
  induction g with
  | zero => have : f = 0 := by omega
            subst this; rfl
  | succ g ih =>
    by_cases hfg : f = g + 1
    · subst hfg; rfl
    · have hle : f ≤ g := by omega
      have := ih hle
      rw [← this] at h
      rw [(lmono now g).2.2.1 s p h, this]

import RulioProofs.StateClosure
import RulioProofs.StateMono
import RulioProofs.StateWF

set_option linter.unusedSimpArgs false
set_option linter.unusedVariables false

/-! # C08 assembly: termination, exactness, durability for the public `rem` -/

/-! ## errors of `unindexRule` -/

theorem perr_ne_fuel (e : PErr) : perr e ≠ "fuel" := by cases e <;> decide

theorem unindexRule_err_ne_fuel {s : St} {id : String} {r : Obj} {e : LErr} (h : s.unindexRule id r = .error e) :
    e ≠ "fuel" := by
  simp only [St.unindexRule, bind, Except.bind] at h
  split at h
  · rename_i e' hp
    injection h with h
    simp only [getRulePattern] at hp
    split at hp
    · cases hp
    · split at hp
      · cases hp
      · cases hp
      · injection hp with hp; rw [← h, ← hp]; decide
    · injection hp with hp; rw [← h, ← hp]; decide
  · split at h
    · cases h
    · split at h
      · rename_i e' _
        injection h with h; rw [← h]
        exact perr_ne_fuel _
      · cases h

theorem unindexOf_err_ne_fuel {s : St} {id : String} {fact : Obj} {e : LErr} (h : s.unindexOf id fact = .error e) :
    e ≠ "fuel" := by
  simp only [St.unindexOf] at h
  split at h
  · exact unindexRule_err_ne_fuel h
  · cases h

/-- the error of a pattern-index update depends on the pattern only -/
theorem PI.mod_err_indep (fuel : Nat) : ∀ (idx idx' : PI) (pairs : List (String × J)) (id id' : String) (add add' : Bool),
    (PI.mod fuel idx pairs id add).2 = (PI.mod fuel idx' pairs id' add').2 := by
  induction fuel with
  | zero => intros; rfl
  | succ fuel ih =>
    intro idx idx' pairs id id' add add'
    cases pairs with
    | nil => rfl
    | cons kv rest =>
      obtain ⟨k, v⟩ := kv
      simp only [PI.mod]
      cases picast v with
      | s x => simp only; exact ih _ _ _ _ _ _ _
      | v => simp only; exact ih _ _ _ _ _ _ _
      | m kvs => simp only; exact ih _ _ _ _ _ _ _
      | a xs =>
        simp only
        cases sortValues xs with
        | error e => rfl
        | ok sorted => simp only; exact ih _ _ _ _ _ _ _

theorem unindexOf_ok_of {s : St} {id : String} {fact : Obj} (h : unindexErr id fact = false) :
    ∃ s1, s.unindexOf id fact = .ok s1 := by
  simp only [unindexErr] at h
  simp only [St.unindexOf]
  cases he : extractRule fact false with
  | error e => exact ⟨s, rfl⟩
  | ok rf =>
    obtain ⟨rule, f'⟩ := rf
    rw [he] at h
    cases rule with
    | none => exact ⟨s, rfl⟩
    | some r =>
      simp only at h ⊢
      simp only [St.unindexRule, bind, Except.bind]
      cases hg : getRulePattern r with
      | error e => rw [hg] at h; simp at h
      | ok pat? =>
        rw [hg] at h
        cases pat? with
        | none => exact ⟨s, rfl⟩
        | some pat =>
          simp only at h ⊢
          have hind : (piRem s.ri pat id).2 = (piRem PI.empty pat id).2 := by
            simp only [piRem]; exact PI.mod_err_indep _ _ _ _ _ _ _ _
          rcases hpr : piRem s.ri pat id with ⟨ri, e⟩
          rw [hpr] at hind
          simp only at hind
          cases e with
          | none => exact ⟨_, rfl⟩
          | some e => rw [← hind] at h; simp at h

/-! ## with `UnindexOK` the only possible error is the fuel error -/

theorem ierr (now : Int) : ∀ f : Nat,
    (∀ s i, IInvBut s i now → UnindexOK s → isVar i = false → ∀ e, (St.irem f s i now).2 = .error e → e = "fuel") ∧
    (∀ s i, IInv s now → UnindexOK s → isVar i = false → ∀ e, (St.ideps f s i now).2 = .error e → e = "fuel") ∧
    (∀ s L, IInv s now → UnindexOK s → (∀ i, i ∈ L → isVar i = false) →
      ∀ e, (St.iremAll f s L now).2 = .error e → e = "fuel") := by
  intro f
  induction f with
  | zero =>
    refine ⟨?_, ?_, ?_⟩
    · intro s i _ _ _ e h; rw [St.irem_zero] at h; injection h with h; exact h.symm
    · intro s i _ _ _ e h; rw [St.ideps_zero] at h; injection h with h; exact h.symm
    · intro s i _ _ _ e h; rw [St.iremAll_zero] at h; injection h with h; exact h.symm
  | succ f ih =>
    obtain ⟨ih1, ih2, ih3⟩ := ih
    refine ⟨?_, ?_, ?_⟩
    · intro s i hinv hun hi e h
      rw [St.irem_succ] at h
      cases hg : amGet s.facts i with
      | some fact =>
        rw [hg] at h
        simp only at h
        obtain ⟨s1, hu⟩ := unindexOf_ok_of (s := s) (hun (i, fact) (amGet_some_mem hg))
        rw [hu] at h
        simp only at h
        have hle : StLe s (s1.idel i fact) := idel_le (unindexOf_same hu) i fact
        cases hr : (St.ideps f (s1.idel i fact) i now).2 with
        | error e' =>
          rw [hr] at h
          simp only [Except.map] at h
          injection h with h; subst h
          exact ih2 _ i (hinv.idel (unindexOf_same hu) fact) (hle.unindexOK hun) hi _ hr
        | ok u => rw [hr] at h; cases h
      | none =>
        rw [hg] at h
        simp only at h
        cases hr : (St.ideps f s i now).2 with
        | error e' =>
          rw [hr] at h
          simp only [Except.map] at h
          injection h with h; subst h
          exact ih2 _ i (hinv.absent hg) hun hi _ hr
        | ok u => rw [hr] at h; cases h
    · intro s i hinv hun hi e h
      rw [St.ideps_succ] at h
      simp only [hi, Bool.false_eq_true, ↓reduceIte] at h
      obtain ⟨c, hc, _, _, _⟩ := cands_depPat s i
      obtain ⟨hs1, _⟩ := isearch_dep hinv.nexp hi f hc
      rcases hs1 with hs1 | ⟨found, hs1, hmap⟩
      · rw [hs1] at h; simp only at h; injection h with h; exact h.symm
      · rw [hs1] at h
        simp only at h
        apply ih3 s _ hinv hun _ e h
        intro j hj
        rw [hmap] at hj
        obtain ⟨fact, hm, _⟩ := depPred_spec (List.mem_filter.1 hj).2
        exact hinv.ids _ hm
    · intro s L hinv hun hL e h
      cases L with
      | nil => rw [St.iremAll_nil] at h; cases h
      | cons i rest =>
        rw [St.iremAll_cons] at h
        cases hr : (St.irem f s i now).2 with
        | error e' =>
          rw [hr] at h
          simp only at h
          injection h with h; subst h
          exact ih1 s i (hinv.but i) hun (hL i (by simp)) _ hr
        | ok b =>
          rw [hr] at h
          simp only at h
          have hle : StLe s (St.irem f s i now).1 := (iframe now f).1 s i
          exact ih3 _ rest (hinv.le hle) (hle.unindexOK hun) (fun j hj => hL j (List.mem_cons_of_mem _ hj)) e h

/-- linear state: the only possible error of the cascade is the fuel error -/
theorem lerr (now : Int) : ∀ f : Nat,
    (∀ s i, CInvBut s i now → isVar i = false → ∀ e, (St.lrem f s i now).2 = .error e → e = "fuel") ∧
    (∀ s L, CInv s now → (∀ i, i ∈ L → isVar i = false) → ∀ e, (St.lremAll f s L now).2 = .error e → e = "fuel") := by
  intro f
  induction f with
  | zero =>
    refine ⟨?_, ?_⟩
    · intro s i _ _ e h; rw [St.lrem_zero] at h; injection h with h; exact h.symm
    · intro s i _ _ e h; rw [St.lremAll_zero] at h; injection h with h; exact h.symm
  | succ f ih =>
    obtain ⟨ih1, ih2⟩ := ih
    refine ⟨?_, ?_⟩
    · intro s i hinv hi e h
      rw [St.lrem_succ] at h
      simp only [hi, Bool.false_eq_true, ↓reduceIte] at h
      have hle : StLe s (s.ldel i) := ldel_le s i
      have hinv0 := hinv.ldel
      obtain ⟨hs1, _⟩ := lsearch_dep hinv0.nexp hi f
      rcases hs1 with hs1 | ⟨found, hs1, hmap⟩
      · rw [hs1] at h; simp only at h; injection h with h; exact h.symm
      · rw [hs1] at h
        simp only at h
        rw [hmap] at h
        obtain ⟨_, hLmem, _⟩ := ldeps_props hinv0.keys (not_mem_keys_ldel s i)
        cases hr : (St.lremAll f (s.ldel i)
            (((keysOf (s.ldel i).facts).filter (depPred (s.ldel i).facts i)).filter (· != i)) now).2 with
        | error e' =>
          rw [hr] at h
          simp only [Except.map] at h
          injection h with h; subst h
          apply ih2 _ _ hinv0 _ _ hr
          intro j hj
          obtain ⟨fact, hm, _⟩ := hLmem j hj
          exact hinv0.ids _ hm
        | ok u => rw [hr] at h; cases h
    · intro s L hinv hL e h
      cases L with
      | nil => rw [St.lremAll_nil] at h; cases h
      | cons i rest =>
        rw [St.lremAll_cons] at h
        cases hr : (St.lrem f s i now).2 with
        | error e' =>
          rw [hr] at h
          simp only at h
          injection h with h; subst h
          exact ih1 s i (hinv.but i) (hL i (by simp)) _ hr
        | ok b =>
          rw [hr] at h
          simp only at h
          have hle : StLe s (St.lrem f s i now).1 := (lframe now f).1 s i
          exact ih2 _ rest (hinv.le hle) (fun j hj => hL j (List.mem_cons_of_mem _ hj)) e h

/-! ## the public `rem` -/

theorem WF.iinv {s : St} (h : WF s) (hk : s.kind = .indexed) {now : Int} {i : String} (hne : NoneExpiredBut s i now) :
    IInvBut s i now :=
  ⟨⟨h.keys, hne, h.ids⟩, h.tiok hk, h.tinodup hk⟩

theorem WF.cinv {s : St} (h : WF s) {now : Int} {i : String} (hne : NoneExpiredBut s i now) : CInvBut s i now :=
  ⟨h.keys, hne, h.ids⟩

theorem NoneExpired.but {s : St} {now : Int} (h : NoneExpired s now) (i : String) : NoneExpiredBut s i now :=
  fun e he _ => h e he

theorem irem_var_ne_fuel (s : St) (id : String) (now : Int) (hv : isVar id = true) (f : Nat) :
    (St.irem (f + 2) s id now).2 ≠ .error "fuel" := by
  rw [St.irem_succ]
  cases amGet s.facts id with
  | some fact =>
    simp only
    cases hu : s.unindexOf id fact with
    | error e => simp only; intro h; injection h with h; exact unindexOf_err_ne_fuel hu h
    | ok s1 => simp only; rw [St.ideps_succ]; simp [hv, Except.map]
  | none => simp only; rw [St.ideps_succ]; simp [hv, Except.map]

theorem lrem_var_ne_fuel (s : St) (id : String) (now : Int) (hv : isVar id = true) (f : Nat) :
    (St.lrem (f + 1) s id now).2 ≠ .error "fuel" := by
  rw [St.lrem_succ]; simp [hv]

theorem irem_ne_fuel {s : St} {now : Int} (h : WF s) (hk : s.kind = .indexed) (id : String) (hne : NoneExpiredBut s id now)
    {g : Nat} (hg : 3 * s.facts.length + tiWidth s.ti + 6 ≤ g) : (St.irem g s id now).2 ≠ .error "fuel" := by
  cases hv : isVar id with
  | true =>
    obtain ⟨g', rfl⟩ : ∃ g', g = g' + 2 := ⟨g - 2, by omega⟩
    exact irem_var_ne_fuel s id now hv g'
  | false => exact (iterm now g).1 s id (h.iinv hk hne) hv (Or.inr (Or.inr hg))

theorem lrem_ne_fuel {s : St} {now : Int} (h : WF s) (id : String) (hne : NoneExpiredBut s id now)
    {g : Nat} (hg : 2 * s.facts.length + 4 ≤ g) : (St.lrem g s id now).2 ≠ .error "fuel" := by
  cases hv : isVar id with
  | true =>
    obtain ⟨g', rfl⟩ : ∃ g', g = g' + 1 := ⟨g - 1, by omega⟩
    exact lrem_var_ne_fuel s id now hv g'
  | false => exact (lterm now g).1 s id (h.cinv hne) hv (Or.inr (Or.inr hg))

theorem remWith_ne_fuel {s : St} {now : Int} (h : WF s) (id : String) (hne : NoneExpiredBut s id now)
    {g : Nat} (hg : s.fuelOK ≤ g) : (s.remWith g id now).2 ≠ .error "fuel" := by
  simp only [St.remWith]
  simp only [St.fuelOK] at hg
  cases hk : s.kind with
  | indexed => exact irem_ne_fuel h hk id hne (by omega)
  | linear => exact lrem_ne_fuel h id hne (by omega)

theorem remOK_eq_remWith (s : St) (id : String) (now : Int) : s.remOK id now = s.remWith s.fuelOK id now := rfl

theorem remWith_mono {s : St} {now : Int} (h : WF s) (id : String) (hne : NoneExpiredBut s id now)
    {g : Nat} (hg : s.fuelOK ≤ g) : s.remWith g id now = s.remOK id now := by
  have hnf := remWith_ne_fuel h id hne (Nat.le_refl s.fuelOK)
  simp only [St.remWith, St.remOK] at hnf ⊢
  cases hk : s.kind with
  | indexed => rw [hk] at hnf; exact irem_mono hne hnf g hg
  | linear => rw [hk] at hnf; exact lrem_mono hnf g hg

/-- for the linear state the original budget `St.fuel` is already enough -/
theorem rem_eq_remOK_linear {s : St} {now : Int} (h : WF s) (hk : s.kind = .linear) (id : String)
    (hne : NoneExpiredBut s id now) : s.rem id now = s.remOK id now := by
  simp only [St.rem, St.remOK, hk]
  have hnf : (St.lrem s.fuel s id now).2 ≠ .error "fuel" := lrem_ne_fuel h id hne (by simp only [St.fuel]; omega)
  exact (lrem_mono hnf s.fuelOK (by simp only [St.fuel, St.fuelOK]; omega)).symm

/-- for the indexed state the original budget is enough as long as the index lists are not too long -/
theorem rem_eq_remOK_indexed {s : St} {now : Int} (h : WF s) (hk : s.kind = .indexed) (id : String)
    (hne : NoneExpiredBut s id now) (hw : tiWidth s.ti ≤ 3 * s.facts.length + 6) : s.rem id now = s.remOK id now := by
  simp only [St.rem, St.remOK, hk]
  have hnf : (St.irem s.fuel s id now).2 ≠ .error "fuel" := irem_ne_fuel h hk id hne (by simp only [St.fuel]; omega)
  exact (irem_mono hne hnf s.fuelOK (by simp only [St.fuel, St.fuelOK]; omega)).symm

theorem remWith_post {s s' : St} {now : Int} {id : String} {b : Bool} {g : Nat} (h : WF s) (hne : NoneExpiredBut s id now)
    (hid : isVar id = false) (hr : s.remWith g id now = (s', .ok b)) :
    ∃ D, Cascaded s s' [id] D ∧ id ∉ keysOf s'.facts ∧ b = amHas s.facts id := by
  simp only [St.remWith] at hr
  cases hk : s.kind with
  | indexed =>
    rw [hk] at hr
    obtain ⟨D, h1, h2, h3, _⟩ := (ipost now g).1 s id (h.iinv hk hne) hid s' b hr
    exact ⟨D, h1, h2, h3⟩
  | linear =>
    rw [hk] at hr
    obtain ⟨D, h1, h2, h3, _⟩ := (lpost now g).1 s id (h.cinv hne) hid s' b hr
    exact ⟨D, h1, h2, h3⟩

theorem remWith_ok {s : St} {now : Int} {id : String} {g : Nat} (h : WF s) (hne : NoneExpiredBut s id now)
    (hid : isVar id = false) (hun : s.kind = .indexed → UnindexOK s) (hg : s.fuelOK ≤ g) :
    ∃ s' b, s.remWith g id now = (s', .ok b) := by
  have hnf := remWith_ne_fuel h id hne hg
  cases hr : (s.remWith g id now).2 with
  | ok b => exact ⟨_, b, st_pair_eta _ hr⟩
  | error e =>
    exfalso
    apply hnf
    rw [hr]
    congr 1
    simp only [St.remWith] at hr
    cases hk : s.kind with
    | indexed => rw [hk] at hr; exact (ierr now g).1 s id (h.iinv hk hne) (hun hk) hid e hr
    | linear => rw [hk] at hr; exact (lerr now g).1 s id (h.cinv hne) hid e hr

/-! ## Boolean checks for concrete states (used by the non-vacuity examples) -/

def noneExpiredB (s : St) (now : Int) : Bool :=
  s.facts.all (fun e => match checkExpiration e.2 now with | .ok false => true | _ => false)

theorem noneExpired_of_check {s : St} {now : Int} (h : noneExpiredB s now = true) : NoneExpired s now := by
  intro e he
  simp only [noneExpiredB, List.all_eq_true] at h
  have := h e he
  split at this
  · assumption
  · cases this

def unindexOKB (s : St) : Bool := s.facts.all (fun e => !unindexErr e.1 e.2)

theorem unindexOK_of_check {s : St} (h : unindexOKB s = true) : UnindexOK s := by
  intro e he
  simp only [unindexOKB, List.all_eq_true] at h
  simpa using h e he

/-! ## deletion triggered by expiry (`Get` of an expired fact) -/

theorem getOK_expired {s : St} {id : String} {fact : Obj} {now : Int} (hwf : WF s)
    (hg : amGet s.facts id = some fact) (hx : checkExpiration fact now = .ok true)
    (hne : NoneExpiredBut s id now) (hun : s.kind = .indexed → UnindexOK s) :
    ∃ s' b, s.remOK id now = (s', .ok b) ∧ s.getOK id now = (s', .error "notFound") := by
  have hid : isVar id = false := hwf.ids (id, fact) (amGet_some_mem hg)
  obtain ⟨s', b, hr⟩ := remWith_ok (g := s.fuelOK) hwf hne hid hun (Nat.le_refl _)
  rw [← remOK_eq_remWith] at hr
  refine ⟨s', b, hr, ?_⟩
  simp only [St.getOK, hg, hx, hr]

theorem get_eq_getOK_linear {s : St} {id : String} {now : Int} (hwf : WF s) (hk : s.kind = .linear)
    (hne : NoneExpiredBut s id now) : s.get id now = s.getOK id now := by
  have hrem := rem_eq_remOK_linear hwf hk id hne
  simp only [St.rem, hk] at hrem
  simp only [St.get, hk, St.lGet, St.getOK]
  cases amGet s.facts id with
  | none => rfl
  | some fact =>
    simp only
    rcases checkExpiration fact now with e | b
    · rfl
    · cases b
      · rfl
      · simp only [hrem]
        rcases s.remOK id now with ⟨s1, e | a⟩ <;> rfl

def noneExpiredButB (s : St) (id : String) (now : Int) : Bool :=
  s.facts.all (fun e => e.1 == id || (match checkExpiration e.2 now with | .ok false => true | _ => false))

theorem noneExpiredBut_of_check {s : St} {id : String} {now : Int} (h : noneExpiredButB s id now = true) :
    NoneExpiredBut s id now := by
  intro e he hne
  simp only [noneExpiredButB, List.all_eq_true] at h
  have := h e he
  simp only [Bool.or_eq_true, beq_iff_eq, hne, false_or] at this
  split at this
  · assumption
  · cases this

/-- the stored fact under `id` is expired at `now` -/
def expiredB (s : St) (id : String) (now : Int) : Bool :=
  match amGet s.facts id with
  | some f => (match checkExpiration f now with | .ok true => true | _ => false)
  | none => false

theorem expired_of_check {s : St} {id : String} {now : Int} (h : expiredB s id now = true) :
    ∃ fact, amGet s.facts id = some fact ∧ checkExpiration fact now = .ok true := by
  simp only [expiredB] at h
  split at h
  · rename_i f hf
    split at h
    · rename_i hx; exact ⟨f, hf, hx⟩
    · cases h
  · cases h

import RulioModel.ComposeFrag
import RulioProofs.PatIndexState
import RulioProofs.StateWF

/-! # Composition, index side: the converse of the rule-index invariant

`StIdx` (C01) says every stored non-scheduled rule sits at the end of its `when` pattern's path.  Here: **nothing
else sits anywhere in the trie** (`IdxSound`): an id on a trie node is currently stored as a non-scheduled rule whose
pattern's path ends there.  It holds in every reachable indexed state, so `doFindRules` never meets a lost rule, a
stored fact without rule body, or a scheduled rule among its candidates. -/

set_option linter.unusedVariables false
set_option linter.unusedSimpArgs false

open List

namespace PI

/-- every membership of `a` is a membership of `b` -/
def Sub (a b : PI) : Prop := ∀ ρ x, x ∈ idsAt a ρ → x ∈ idsAt b ρ

theorem Sub.refl (a : PI) : Sub a a := fun _ _ h => h
theorem Sub.trans {a b c : PI} (h1 : Sub a b) (h2 : Sub b c) : Sub a c := fun ρ x h => h2 ρ x (h1 ρ x h)

theorem piRem_sub (ri : PI) (q : Obj) (id : String) (hn : NodupIds ri) : Sub (piRem ri q id).1 ri := by
  intro ρ x hx
  rw [(piRem_spec ri q id).2 ρ] at hx
  split at hx
  · exact ((mem_updIds_rem (hn ρ)).1 hx).1
  · exact hx

theorem piRem_gone (ri : PI) (q : Obj) (id : String) {π : List Edge} (hn : NodupIds ri)
    (hπ : path (mapToPairs q) = some π) : id ∉ idsAt (piRem ri q id).1 π := by
  rw [(piRem_spec ri q id).2 π, hπ]
  simp only [if_true, mem_updIds_rem (hn π)]
  simp

theorem piAdd_mem (ri : PI) (q : Obj) (id : String) {ρ : List Edge} {x : String}
    (hx : x ∈ idsAt (piAdd ri q id).1 ρ) : x ∈ idsAt ri ρ ∨ (x = id ∧ path (mapToPairs q) = some ρ) := by
  rw [(piAdd_spec ri q id).2 ρ] at hx
  split at hx
  · next h =>
    rcases mem_updIds_add.1 hx with h1 | h1
    · exact Or.inl h1
    · exact Or.inr ⟨h1, h⟩
  · exact Or.inl hx

/-! ## the index actions of the state, exactly -/

theorem unindexRule_exact {s s' : St} {id : String} {rule : Obj} (h : s.unindexRule id rule = .ok s')
    (hn : NodupIds s.ri) :
    Sub s'.ri s.ri ∧
    (∀ pat, getRulePattern rule = .ok (some pat) → ∃ π, path (mapToPairs pat) = some π ∧ id ∉ idsAt s'.ri π) := by
  unfold St.unindexRule at h
  cases hg : getRulePattern rule with
  | error e => simp [hg, bind, Except.bind] at h
  | ok po =>
    cases po with
    | none =>
      simp [hg, bind, Except.bind, pure, Except.pure] at h; subst h
      exact ⟨Sub.refl _, fun pat hp => by cases hp⟩
    | some pat =>
      simp only [hg, bind, Except.bind] at h
      rcases hr : piRem s.ri pat id with ⟨ri1, e1⟩
      rw [hr] at h
      cases e1 with
      | some e => simp at h
      | none =>
        simp only [pure, Except.pure, Except.ok.injEq] at h; subst h
        have h1 := piRem_sub s.ri pat id hn
        have hsome : (path (mapToPairs pat)).isSome = true := by
          have := (piRem_spec s.ri pat id).1.1
          rw [hr] at this; exact this rfl
        obtain ⟨π, hπ⟩ := Option.isSome_iff_exists.1 hsome
        have h2 := piRem_gone s.ri pat id hn hπ
        rw [hr] at h1 h2
        refine ⟨h1, ?_⟩
        intro pat' hp'
        cases hp'
        exact ⟨π, hπ, h2⟩

/-- a stored fact whose rule (if any) has left the index at its pattern's path is nowhere in the trie -/
theorem gone_of_sound {s : St} {ri' : PI} {id : String} {fact : Obj} (hsnd : IdxSound s)
    (hg : amGet s.facts id = some fact) (hsub : Sub ri' s.ri)
    (hrem : ∀ pat, whenOf fact = some pat → ∃ π, path (mapToPairs pat) = some π ∧ id ∉ idsAt ri' π) :
    ∀ ρ, id ∉ idsAt ri' ρ := by
  intro ρ hmem
  obtain ⟨f, pat, hf, hw, hp⟩ := hsnd ρ id (hsub ρ id hmem)
  rw [hg] at hf; cases hf
  obtain ⟨π, hπ, hnot⟩ := hrem pat hw
  rw [hp] at hπ; cases hπ; exact hnot hmem

theorem gone_of_absent {s : St} {id : String} (hsnd : IdxSound s) (hg : amGet s.facts id = none) :
    ∀ ρ, id ∉ idsAt s.ri ρ := by
  intro ρ hmem
  obtain ⟨f, pat, hf, _, _⟩ := hsnd ρ id hmem
  rw [hg] at hf; cases hf

theorem iremUnindex_exact {s s1 : St} {id : String} {fact : Obj} (h : iremUnindex s id fact = .ok s1)
    (hn : NodupIds s.ri) (hsnd : IdxSound s) (hg : amGet s.facts id = some fact) :
    Sub s1.ri s.ri ∧ ∀ ρ, id ∉ idsAt s1.ri ρ := by
  have hw := whenOf_extractRule fact
  unfold iremUnindex at h
  simp only at h
  cases he : extractRule fact false with
  | error e =>
    rw [he] at h hw
    simp only at h
    cases h
    exact ⟨Sub.refl _, gone_of_sound hsnd hg (Sub.refl _) (fun pat hp => by rw [hw] at hp; cases hp)⟩
  | ok rf =>
    obtain ⟨ro, f2⟩ := rf
    rw [he] at h hw
    cases ro with
    | none =>
      simp only at h
      cases h
      exact ⟨Sub.refl _, gone_of_sound hsnd hg (Sub.refl _) (fun pat hp => by rw [hw] at hp; cases hp)⟩
    | some r =>
      simp only at h hw
      obtain ⟨h1, h2⟩ := unindexRule_exact h hn
      refine ⟨h1, gone_of_sound hsnd hg h1 ?_⟩
      intro pat hp
      rw [hw] at hp
      exact h2 pat (ruleWhen_getRulePattern hp).2

theorem unindexPrevious_exact {s s1 : St} {id : String} {replaced : Option Obj}
    (h : s.unindexPrevious id = .ok (s1, replaced)) (hn : NodupIds s.ri) (hsnd : IdxSound s) :
    Sub s1.ri s.ri ∧ ∀ ρ, id ∉ idsAt s1.ri ρ := by
  unfold St.unindexPrevious at h
  cases hp : amGet s.facts id with
  | none =>
    simp [hp] at h; obtain ⟨rfl, rfl⟩ := h
    exact ⟨Sub.refl _, gone_of_absent hsnd hp⟩
  | some prev =>
    simp only [hp] at h
    have hw := whenOf_extractRule prev
    cases he : extractRule prev false with
    | error e =>
      simp [he] at h; obtain ⟨rfl, rfl⟩ := h
      rw [he] at hw
      exact ⟨Sub.refl _, gone_of_sound hsnd hp (Sub.refl _) (fun pat hp' => by rw [hw] at hp'; cases hp')⟩
    | ok rf =>
      obtain ⟨ro, f2⟩ := rf
      rw [he] at hw
      cases ro with
      | none =>
        simp [he] at h; obtain ⟨rfl, rfl⟩ := h
        exact ⟨Sub.refl _, gone_of_sound hsnd hp (Sub.refl _) (fun pat hp' => by rw [hw] at hp'; cases hp')⟩
      | some old =>
        simp only [he] at h
        cases hu : s.unindexRule id old with
        | error e => simp [hu, Except.map] at h
        | ok s' =>
          simp only [hu, Except.map, Except.ok.injEq, Prod.mk.injEq] at h
          obtain ⟨rfl, rfl⟩ := h
          obtain ⟨h1, h2⟩ := unindexRule_exact hu hn
          refine ⟨h1, gone_of_sound hsnd hp h1 ?_⟩
          intro pat hp'
          simp only at hw
          rw [hw] at hp'
          exact h2 pat (ruleWhen_getRulePattern hp').2

theorem indexRule_exact (s : St) (id : String) (rule : Obj) {ρ : List Edge} {x : String}
    (hx : x ∈ idsAt (s.indexRule id rule).1.ri ρ) :
    x ∈ idsAt s.ri ρ ∨ (x = id ∧ ∃ pat, getRulePattern rule = .ok (some pat) ∧ path (mapToPairs pat) = some ρ) := by
  unfold St.indexRule at hx
  cases hg : getRulePattern rule with
  | error e => rw [hg] at hx; exact Or.inl hx
  | ok po =>
    cases po with
    | none => rw [hg] at hx; exact Or.inl hx
    | some pat =>
      rw [hg] at hx
      simp only at hx
      rcases piAdd_mem s.ri pat id hx with h | ⟨h1, h2⟩
      · exact Or.inl h
      · exact Or.inr ⟨h1, pat, rfl, h2⟩

/-- what `iaddIndex` may put into the trie: `id`, at the path of the new rule's pattern when it is accepted, at the
path of the replaced rule's pattern when the new one is rejected -/
theorem iaddIndex_exact (s : St) (id : String) (rule replaced : Option Obj) {ρ : List Edge} {x : String}
    (hx : x ∈ idsAt (iaddIndex s id rule replaced).1.ri ρ) :
    x ∈ idsAt s.ri ρ ∨
    (x = id ∧ (iaddIndex s id rule replaced).2 = none ∧ ∃ pat, optWhen rule = some pat ∧ path (mapToPairs pat) = some ρ) ∨
    (x = id ∧ (iaddIndex s id rule replaced).2 ≠ none ∧ ∃ pat, optWhen replaced = some pat ∧ path (mapToPairs pat) = some ρ) := by
  unfold iaddIndex at hx ⊢
  unfold optWhen
  cases rule with
  | none => exact Or.inl hx
  | some r =>
    simp only [] at hx ⊢
    by_cases hs : Obj.has r "schedule" = true
    · simp only [hs, if_true] at hx ⊢
      exact Or.inl hx
    · have hs' : Obj.has r "schedule" = false := by simpa using hs
      simp only [hs', Bool.false_eq_true, if_false] at hx ⊢
      have hex := @indexRule_exact s id r
      rcases hix : s.indexRule id r with ⟨s1, e⟩
      rw [hix] at hx hex
      simp only at hex
      cases e with
      | none =>
        simp only [] at hx ⊢
        rcases hex hx with h | ⟨h1, pat, hp, hπ⟩
        · exact Or.inl h
        · exact Or.inr (Or.inl ⟨h1, (by first | rfl | trivial), pat, getRulePattern_ruleWhen hs' hp, hπ⟩)
      | some e =>
        simp only [] at hx ⊢
        cases replaced with
        | none =>
          simp only [] at hx ⊢
          rcases hex hx with h | ⟨h1, pat, hp, hπ⟩
          · exact Or.inl h
          · -- the rejected add changed nothing
            exfalso
            have := (piAdd_spec s.ri pat id).1
            unfold St.indexRule at hix
            rw [hp] at hix
            simp only [Prod.mk.injEq] at hix
            have he : (piAdd s.ri pat id).2 ≠ none := by
              intro hnone; rw [hnone] at hix; simp at hix
            exact he (this.2 (by rw [hπ]; rfl))
        | some old =>
          simp only [] at hx ⊢
          have hnew : ∀ {ρ x}, x ∈ idsAt s1.ri ρ → x ∈ idsAt s.ri ρ := by
            intro ρ x hx1
            rcases hex hx1 with h | ⟨h1, pat, hp, hπ⟩
            · exact h
            · exfalso
              have := (piAdd_spec s.ri pat id).1
              unfold St.indexRule at hix
              rw [hp] at hix
              simp only [Prod.mk.injEq] at hix
              have he : (piAdd s.ri pat id).2 ≠ none := by
                intro hnone; rw [hnone] at hix; simp at hix
              exact he (this.2 (by rw [hπ]; rfl))
          by_cases ho : Obj.has old "schedule" = true
          · simp only [ho, if_true] at hx ⊢
            exact Or.inl (hnew hx)
          · have ho' : Obj.has old "schedule" = false := by simpa using ho
            simp only [ho', Bool.false_eq_true, if_false] at hx ⊢
            rcases indexRule_exact s1 id old hx with h | ⟨h1, pat, hp, hπ⟩
            · exact Or.inl (hnew h)
            · exact Or.inr (Or.inr ⟨h1, by simp, pat, getRulePattern_ruleWhen ho' hp, hπ⟩)

/-! ## `IndexedState.add` keeps the converse invariant -/

theorem idxSound_iadd (s : St) (given : String) (x : Obj) (now : Int) (h : StIdx s) (hsnd : IdxSound s) :
    IdxSound (s.iadd given x now).1 := by
  rw [iadd_eq]
  cases hp : prepareFact given s.freshId x now with
  | error e => exact hsnd
  | ok r =>
    obtain ⟨id, fact, x'⟩ := r
    simp only []
    generalize hs0 : (if (given == "" && id == s.freshId) = true then ({ s with fresh := s.fresh + 1 } : St) else s) = s0
    have h0 : s0.ri = s.ri ∧ s0.facts = s.facts := by subst hs0; split <;> exact ⟨rfl, rfl⟩
    have hI0 : StIdx s0 := by unfold StIdx; rw [h0.1, h0.2]; exact h
    have hS0 : IdxSound s0 := by unfold IdxSound; rw [h0.1, h0.2]; exact hsnd
    clear hs0 h h0 hsnd
    cases he : extractRule fact false with
    | error e => exact hS0
    | ok rf =>
      obtain ⟨rule, fact'⟩ := rf
      simp only []
      cases hu : s0.unindexPrevious id with
      | error e => exact hS0
      | ok ur =>
        obtain ⟨s1, replaced⟩ := ur
        simp only []
        obtain ⟨hf1, hn1, ho1, hprev⟩ := unindexPrevious_spec hu hI0.1
        obtain ⟨hsub1, hgone1⟩ := unindexPrevious_exact hu hI0.1 hS0
        have hw' := whenOf_extractRule_snd he
        have hex := @iaddIndex_exact s1 id rule replaced
        obtain ⟨k1, _, _, _, _⟩ := iaddIndex_spec s1 id rule replaced hn1
        rcases hix : iaddIndex s1 id rule replaced with ⟨s2, err⟩
        rw [hix] at hex k1
        simp only at hex k1
        cases err with
        | some e =>
          simp only []
          intro π y hy
          rcases hex hy with h | ⟨_, h2, _⟩ | ⟨hy1, _, pat, hpat, hπ⟩
          · obtain ⟨f, pat, hf, hw, hpp⟩ := hS0 π y (hsub1 π y h)
            exact ⟨f, pat, by rw [k1, hf1]; exact hf, hw, hpp⟩
          · cases h2
          · subst hy1
            cases hg : amGet s0.facts y with
            | none =>
              -- nothing was stored under the id: nothing was replaced
              exfalso
              unfold St.unindexPrevious at hu
              rw [hg] at hu
              simp only [Except.ok.injEq, Prod.mk.injEq] at hu
              rw [← hu.2] at hpat
              simp [optWhen] at hpat
            | some prev =>
              refine ⟨prev, pat, by rw [k1, hf1]; exact hg, ?_, hπ⟩
              rw [hprev prev hg]; exact hpat
        | none =>
          simp only []
          intro π y hy
          simp only at hy
          rcases hex hy with h | ⟨hy1, _, pat, hpat, hπ⟩ | ⟨_, h2, _⟩
          · have hne : y ≠ id := fun hyid => hgone1 π (hyid ▸ h)
            obtain ⟨f, pat, hf, hw, hpp⟩ := hS0 π y (hsub1 π y h)
            refine ⟨f, pat, ?_, hw, hpp⟩
            simp only
            rw [amGet_amSet, if_neg hne, k1, hf1]; exact hf
          · subst hy1
            refine ⟨fact', pat, ?_, by rw [hw']; exact hpat, hπ⟩
            simp only
            rw [amGet_amSet, if_pos rfl]
          · exact absurd rfl h2

theorem idxSound_iAdd (s : St) (given : String) (x : Obj) (now : Int) (h : StIdx s) (hsnd : IdxSound s) :
    IdxSound (s.iAdd given x now).1 := by
  have := idxSound_iadd s given x now h hsnd
  unfold St.iAdd
  rcases hr : s.iadd given x now with ⟨s1, r⟩
  rw [hr] at this
  cases r with
  | error e => exact this
  | ok v => exact this

/-! ## removal, the cascade and the reads that expire facts: any invariant kept by "unindex, then erase" -/

/-- `irem_family` of `PatIndexState.lean` for an arbitrary invariant `P` that survives the two steps of one
removal: the stored rule leaves the index, the fact leaves memory -/
theorem irem_family_gen (P : St → Prop)
    (hstep : ∀ s id fact s1, P s → amGet s.facts id = some fact → iremUnindex s id fact = .ok s1 →
      P (iremErase s1 id fact)) (fuel : Nat) :
    (∀ s id now, P s → P (St.irem fuel s id now).1) ∧
    (∀ s id now, P s → P (St.ideps fuel s id now).1) ∧
    (∀ s ids now, P s → P (St.iremAll fuel s ids now).1) ∧
    (∀ s p now, P s → P (St.isearch fuel s p now).1) ∧
    (∀ s p ids now acc, P s → P (St.isearchLoop fuel s p ids now acc).1) := by
  induction fuel with
  | zero =>
    refine ⟨?_, ?_, ?_, ?_, ?_⟩ <;> intros <;>
      simp only [St.irem, St.ideps, St.iremAll, St.isearch, St.isearchLoop] <;> assumption
  | succ fuel ih =>
    obtain ⟨ih1, ih2, ih3, ih4, ih5⟩ := ih
    refine ⟨?_, ?_, ?_, ?_, ?_⟩
    · intro s id now h
      rw [irem_succ]
      cases hg : amGet s.facts id with
      | none =>
        simp only []
        have := ih2 s id now h
        rcases hd : St.ideps fuel s id now with ⟨s3, r3⟩
        rw [hd] at this
        cases r3 <;> exact this
      | some fact =>
        simp only []
        cases hu : iremUnindex s id fact with
        | error e => exact h
        | ok s1 =>
          simp only []
          have hs2 : P (iremErase s1 id fact) := hstep s id fact s1 h hg hu
          have := ih2 _ id now hs2
          rcases hd : St.ideps fuel (iremErase s1 id fact) id now with ⟨s3, r3⟩
          rw [hd] at this
          cases r3 <;> exact this
    · intro s id now h
      simp only [St.ideps]
      split
      · exact h
      · have := ih4 s [("deleteWith", .arr [.str id])] now h
        rcases hd : St.isearch fuel s [("deleteWith", .arr [.str id])] now with ⟨s1, r1⟩
        rw [hd] at this
        cases r1 with
        | error e => exact this
        | ok found => exact ih3 s1 _ now this
    · intro s ids now h
      simp only [St.iremAll]
      cases ids with
      | nil => exact h
      | cons i rest =>
        simp only []
        have := ih1 s i now h
        rcases hd : St.irem fuel s i now with ⟨s1, r1⟩
        rw [hd] at this
        cases r1 with
        | error e => exact this
        | ok b => exact ih3 s1 rest now this
    · intro s p now h
      simp only [St.isearch]
      split
      · exact h
      · exact ih5 s p _ now [] h
    · intro s p ids now acc h
      simp only [St.isearchLoop]
      cases ids with
      | nil => exact h
      | cons id rest =>
        simp only []
        cases hg : amGet s.facts id with
        | none => exact ih5 s p rest now acc h
        | some fact =>
          simp only []
          cases hce : checkExpiration fact now with
          | error e =>
            simp only [Bool.false_eq_true, if_false]
            cases matchesJ (.obj p) (.obj fact) with
            | error e => exact h
            | ok bss => exact ih5 s p rest now _ h
          | ok b =>
            cases b with
            | true =>
              simp only [if_true]
              exact ih5 _ p rest now acc (ih1 s id now h)
            | false =>
              simp only [Bool.false_eq_true, if_false]
              cases matchesJ (.obj p) (.obj fact) with
              | error e => exact h
              | ok bss => exact ih5 s p rest now _ h

theorem iGet_gen (P : St → Prop) (hrem : ∀ fuel s id now, P s → P (St.irem fuel s id now).1)
    (s : St) (id : String) (now : Int) (h : P s) : P (s.iGet id now).1 := by
  unfold St.iGet
  cases amGet s.facts id with
  | none => exact h
  | some fact =>
    simp only []
    cases checkExpiration fact now with
    | error e => exact h
    | ok b =>
      cases b with
      | false => exact h
      | true =>
        simp only []
        have := hrem s.fuel s id now h
        rcases hd : St.irem s.fuel s id now with ⟨s1, r1⟩
        rw [hd] at this
        cases r1 <;> exact this

theorem iFindRules_go_gen (P : St → Prop) (hrem : ∀ fuel s id now, P s → P (St.irem fuel s id now).1) (now : Int) :
    ∀ (fuel : Nat) (s : St) (ids : List String) (acc : List (String × Obj)), P s →
      P (St.iFindRules.go now fuel s ids acc).1 := by
  intro fuel
  induction fuel with
  | zero => intro s ids acc h; simp only [St.iFindRules.go]; exact h
  | succ fuel ih =>
    intro s ids acc h
    simp only [St.iFindRules.go]
    cases ids with
    | nil => exact h
    | cons id rest =>
      simp only []
      have hrest : ∀ s1, P s1 → P (match amGet s.facts id with
          | none => (s1, (Except.error "lostRule" : Except LErr (List (String × Obj))))
          | some f =>
            match extractRule f true with
            | .error e => (s1, .error e)
            | .ok (some body, _) => St.iFindRules.go now fuel s1 rest (acc ++ [(id, body)])
            | .ok (none, _) => (s1, .error "ruleBodyMissing")).1 := by
        intro s1 h1
        cases amGet s.facts id with
        | none => exact h1
        | some f =>
          simp only []
          cases extractRule f true with
          | error e => exact h1
          | ok rf =>
            obtain ⟨ro, f2⟩ := rf
            cases ro with
            | none => exact h1
            | some body => exact ih s1 rest _ h1
      cases hce : checkExpiration ((amGet s.facts id).getD []) now with
      | error e =>
        simp only [Bool.false_eq_true, if_false]
        exact hrest s h
      | ok b =>
        cases b with
        | true =>
          simp only [if_true]
          exact ih _ rest acc (hrem _ s id now h)
        | false =>
          simp only [Bool.false_eq_true, if_false]
          exact hrest s h

theorem iFindRules_gen (P : St → Prop) (hrem : ∀ fuel s id now, P s → P (St.irem fuel s id now).1)
    (s : St) (ev : Obj) (now : Int) (h : P s) : P (s.iFindRules ev now).1 := by
  unfold St.iFindRules
  cases piSearch s.ri ev with
  | error e => exact h
  | ok ids => exact iFindRules_go_gen P hrem now _ s ids [] h

/-- **induction over reachable indexed states** for an invariant kept by `add`, by one removal step, and true of
empty states -/
theorem ireach_induction (P : St → Prop)
    (hinit : ∀ n, P { kind := .indexed, fresh := n })
    (hadd : ∀ s given x now, P s → P (s.iAdd given x now).1)
    (hstep : ∀ s id fact s1, P s → amGet s.facts id = some fact → iremUnindex s id fact = .ok s1 →
      P (iremErase s1 id fact))
    {s : St} (h : IReach s) : P s ∧ s.kind = .indexed := by
  have hrem : ∀ fuel s id now, P s → P (St.irem fuel s id now).1 := fun fuel => (irem_family_gen P hstep fuel).1
  have hkind : ∀ {s : St}, IReach s → s.kind = .indexed := by
    intro s h
    induction h with
    | init => rfl
    | add s given x now _ ih =>
      have : s.iAdd given x now = s.add given x now := by simp only [St.add, ih]
      rw [this]
      rcases add_shape s given x now with ⟨_, _, hf⟩ | ⟨_, _, _, ha⟩
      · rw [hf.kind]; exact ih
      · rw [ha.kind]; exact ih
    | rem s fuel id now _ ih => exact ((iframe now fuel).1 s id).kind.trans ih
    | get s id now _ ih =>
      exact (iGet_gen (fun t => t.kind = s.kind) (fun f t i n ht => ((iframe n f).1 t i).kind.trans ht) s id now rfl).trans ih
    | search s fuel p now _ ih => exact ((iframe now fuel).2.2.2.1 s p).kind.trans ih
    | findRules s ev now _ ih =>
      exact (iFindRules_gen (fun t => t.kind = s.kind) (fun f t i n ht => ((iframe n f).1 t i).kind.trans ht) s ev now rfl).trans ih
    | clear s _ ih => exact ih
  refine ⟨?_, hkind h⟩
  induction h with
  | init => exact hinit 0
  | add s given x now _ ih => exact hadd s given x now ih
  | rem s fuel id now _ ih => exact hrem fuel s id now ih
  | get s id now _ ih => exact iGet_gen P hrem s id now ih
  | search s fuel p now _ ih => exact (irem_family_gen P hstep fuel).2.2.2.1 s p now ih
  | findRules s ev now _ ih => exact iFindRules_gen P hrem s ev now ih
  | clear s hs _ =>
    have : s.clear = { kind := .indexed, fresh := s.fresh } := by
      unfold St.clear; rw [hkind hs]
    rw [this]; exact hinit _

/-! ## the converse invariant holds in every reachable indexed state -/

theorem idxSound_erase {s s1 : St} {id : String} {fact : Obj} (h : StIdx s) (hsnd : IdxSound s)
    (hg : amGet s.facts id = some fact) (hu : iremUnindex s id fact = .ok s1) :
    IdxSound (iremErase s1 id fact) := by
  obtain ⟨hf, _, _⟩ := iremUnindex_spec hu h.1
  obtain ⟨hsub, hgone⟩ := iremUnindex_exact hu h.1 hsnd hg
  intro π y hy
  have hy' : y ∈ idsAt s1.ri π := hy
  have hne : y ≠ id := fun hyid => hgone π (hyid ▸ hy')
  obtain ⟨f, pat, hfy, hw, hpp⟩ := hsnd π y (hsub π y hy')
  refine ⟨f, pat, ?_, hw, hpp⟩
  show amGet (amErase s1.facts id) y = some f
  rw [amGet_amErase, if_neg hne, hf]; exact hfy

/-- **`IdxSound` (with `StIdx`) holds in every reachable indexed state** -/
theorem idxSound_of_reach {s : St} (h : IReach s) : StIdx s ∧ IdxSound s := by
  refine (ireach_induction (fun s => StIdx s ∧ IdxSound s) ?_ ?_ ?_ h).1
  · intro n
    exact ⟨stIdx_init _ _, fun π id hid => by
      have : idsAt empty π = [] := idsAt_empty π
      simp only [show ({ kind := Kind.indexed, fresh := n } : St).ri = empty from rfl, this] at hid
      cases hid⟩
  · intro s given x now ⟨h1, h2⟩
    exact ⟨stIdx_iAdd s given x now h1, idxSound_iAdd s given x now h1 h2⟩
  · intro s id fact s1 ⟨h1, h2⟩ hg hu
    obtain ⟨hf, hn, ho⟩ := iremUnindex_spec hu h1.1
    exact ⟨stIdx_erase h1 hf hn ho _ _, idxSound_erase h1 h2 hg hu⟩

end PI

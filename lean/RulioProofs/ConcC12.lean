import RulioModel.ConcC12
import RulioProofs.Conc

/-! # Lemmas for the C12 instantiation: what a table row writes to the memory / storage cell of its id -/

namespace Conc.C12
open Conc

theorem pendM_append (c : Cell) (a b : List Step) (v : Val) : pendM c (a ++ b) v = pendM c b (pendM c a v) := by
  induction a generalizing v with
  | nil => rfl
  | cons s r ih => cases s <;> simp [pendM, ih]

theorem pendS_append (c : Cell) (a b : List Step) (v : Val) : pendS c (a ++ b) v = pendS c b (pendS c a v) := by
  induction a generalizing v with
  | nil => rfl
  | cons s r ih => cases s <;> simp [pendS, ih]

theorem constWr_append (cm cs : Cell) (a b : List Step) (ha : constWr cm cs a) (hb : constWr cm cs b) :
    constWr cm cs (a ++ b) := by
  induction a with
  | nil => simpa using hb
  | cons s r ih => cases s <;> simp_all [constWr]

/-- pieces that keep "memory cell = storage cell" compose -/
theorem pend_flatten (cm cs : Cell) (l : List (List Step))
    (h : ∀ p ∈ l, ∀ v, pendM cm p v = pendS cs p v) (v : Val) :
    pendM cm l.flatten v = pendS cs l.flatten v := by
  induction l generalizing v with
  | nil => rfl
  | cons p r ih =>
    simp only [List.flatten_cons, pendM_append, pendS_append]
    rw [h p (by simp) v]
    exact ih (fun q hq => h q (by simp [hq])) _

theorem constWr_flatten (cm cs : Cell) (l : List (List Step)) (h : ∀ p ∈ l, constWr cm cs p) :
    constWr cm cs l.flatten := by
  induction l with
  | nil => simp [constWr]
  | cons p r ih =>
    simp only [List.flatten_cons]
    exact constWr_append cm cs p _ (h p (by simp)) (ih (fun q hq => h q (by simp [hq])))

def hasWrMem (l : List Acc) : Bool := l.any (fun a => a == .wr .mem)
def hasStore (l : List Acc) : Bool := l.any (fun a => match a with | .store _ => true | _ => false)

theorem constWr_inst (v : Val) (drop : List Field) (l : List Acc) :
    constWr memC storeC (l.map (inst (interp v) drop)) := by
  induction l with
  | nil => simp [constWr]
  | cons a r ih =>
    cases a with
    | rd f => by_cases hd : drop.contains f = true <;> simp_all [inst, constWr]
    | wr f => by_cases hd : drop.contains f = true <;> simp_all [inst, constWr, interp]
    | store op => simp_all [inst, constWr, interp]
    | _ => simp_all [inst, constWr]

theorem pendM_inst (v : Val) (drop : List Field) (hd : drop.contains Field.mem = false) (l : List Acc) (x : Val) :
    pendM memC (l.map (inst (interp v) drop)) x = if hasWrMem l then v else x := by
  induction l generalizing x with
  | nil => simp [pendM, hasWrMem]
  | cons a r ih =>
    cases a with
    | wr f =>
      cases f <;> simp_all [inst, pendM, hasWrMem, interp, memC, fidxC, ridxC, cacheC, loadedC, ruleC] <;>
        (split <;> simp_all [pendM])
    | rd f => by_cases h : drop.contains f = true <;> simp_all [inst, pendM, hasWrMem]
    | _ => simp_all [inst, pendM, hasWrMem]

theorem pendS_inst (v : Val) (drop : List Field) (l : List Acc) (x : Val) :
    pendS storeC (l.map (inst (interp v) drop)) x = if hasStore l then v else x := by
  induction l generalizing x with
  | nil => simp [pendS, hasStore]
  | cons a r ih =>
    cases a with
    | store op => simp_all [inst, pendS, hasStore, interp]
    | rd f => by_cases h : drop.contains f = true <;> simp_all [inst, pendS, hasStore]
    | wr f => by_cases h : drop.contains f = true <;> simp_all [inst, pendS, hasStore]
    | _ => simp_all [inst, pendS, hasStore]

end Conc.C12

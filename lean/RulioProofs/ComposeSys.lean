import RulioModel.ComposeFrag
import RulioProofs.ComposeLoc

/-! # Composition, system side: on a location without parents the ancestor walk of `searchRulesAncestors` is the
location's own rule search (so `locProcessEvent` is what the driver's `event` op runs there) -/

set_option linter.unusedVariables false
set_option linter.unusedSimpArgs false

theorem eraseDups_of_nodup : ∀ {l : List String}, l.Nodup → l.eraseDups = l
  | [], _ => by simp
  | a :: l, h => by
    rw [List.nodup_cons] at h
    rw [List.eraseDups_cons]
    have : l.filter (fun b => !(b == a)) = l := by
      apply List.filter_eq_self.2
      intro b hb
      have : b ≠ a := fun hba => h.1 (hba ▸ hb)
      simpa using this
    rw [this, eraseDups_of_nodup h.2]

/-- the parents of a location that stores no `!.parents` property fact: none, and reading them changes nothing -/
theorem locGetParentsRaw_none {l : Loc} {now : Int} (h : amGet l.st.facts (genPropId "" "parents") = none) :
    locGetParentsRaw now l = (l, .ok []) := by
  have hfresh : LocP.FreshAt l.st (genPropId "" "parents") now := fun f hf => by rw [h] at hf; cases hf
  simp only [locGetParentsRaw, bind, LM.bind, LocP.getProp_eq hfresh, LocP.getPropPure, LocP.getPure, h]
  rfl

/-- **on a location without parents `searchRulesAncestors` is the location's own `searchRules`** (the location is
written back; the duplicate-id test passes because a single location's candidates carry pairwise distinct ids) -/
theorem sysSearchRulesAnc_single (sys : Sys) (c : Ctx) (n : String) (ev : Obj) (now : Int) (l : Loc)
    (hget : sys.get? n = some l) (hname : l.name = n)
    (hnp : amGet l.st.facts (genPropId "" "parents") = none)
    (hnd : ∀ rs, (locSearchRules c ev now l).2 = .ok rs → (rs.map (·.1)).Nodup) :
    sysSearchRulesAnc sys c n ev now =
      (((sys.put l).put (locSearchRules c ev now l).1), (locSearchRules c ev now l).2) := by
  have hget1 : (sys.put l).get? n = some l := by
    unfold Sys.put Sys.get?
    rw [hname]
    exact LocP.amGet_amSet_self sys n l
  unfold sysSearchRulesAnc ancestorFuel
  have hdo : doAncestors (sys.length + 2) sys n now (tagged (fun _ => locSearchRules c ev now)) [] =
      (((sys.put l).put (locSearchRules c ev now l).1),
        (locSearchRules c ev now l).2.map (fun a => [(n, a)])) := by
    rw [show sys.length + 2 = (sys.length + 1) + 1 from rfl]
    unfold doAncestors
    simp only [List.contains_nil, Bool.false_eq_true, if_false]
    have hat : sys.at n (locGetParentsRaw now) = (sys.put l, .ok []) := by
      unfold Sys.at
      rw [hget]
      simp only [locGetParentsRaw_none hnp]
    rw [hat]
    simp only [List.isEmpty_nil, Bool.not_true, Bool.false_and, Bool.false_eq_true, if_false, List.length_nil]
    unfold doAncestors.loop
    simp only
    unfold Sys.at
    rw [hget1]
    simp only [tagged, LM.bind]
    rcases hr : locSearchRules c ev now l with ⟨l', r⟩
    cases r with
    | error e => simp [Except.map]
    | ok a => simp [Except.map, LM.pure]
  rw [hdo]
  rcases hr : locSearchRules c ev now l with ⟨l', r⟩
  cases r with
  | error e => simp [Except.map]
  | ok a =>
    have := hnd a (by rw [hr])
    simp only [Except.map, firstVisits, List.contains_nil, Bool.false_eq_true, if_false, List.flatten_cons, List.flatten_nil,
      List.append_nil]
    rw [eraseDups_of_nodup this]
    simp

/-- the same with the distinct-ids condition discharged by the hypotheses of `dispatch_exact_local` -/
theorem sysSearchRulesAnc_local (sys : Sys) (c : Ctx) (n : String) (ev : Obj) (now : Int) (l : Loc)
    (hget : sys.get? n = some l) (hname : l.name = n)
    (hnp : amGet l.st.facts (genPropId "" "parents") = none)
    (hwf : WF l.st) (hne : _root_.NoneExpired l.st now) (hshape : RuleShapes l.st)
    (hidx : l.st.kind = .indexed → IReach l.st ∧ WhenFrag l.st ∧ EvOK ev = true ∧ dataOK (.obj ev) = true) :
    sysSearchRulesAnc sys c n ev now =
      (((sys.put l).put (locSearchRules c ev now l).1), (locSearchRules c ev now l).2) := by
  apply sysSearchRulesAnc_single sys c n ev now l hget hname hnp
  intro rs hrs
  have h : locSearchRules c ev now l = ((locSearchRules c ev now l).1, .ok rs) := Prod.ext rfl hrs
  exact (dispatch_vs_spec hwf hne hshape hidx h).2.2.1

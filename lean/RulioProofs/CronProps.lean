import RulioProofs.CronTimeline

/-! Helper lemmas for C16 (in-memory cron): where jobs and fires come from, step by step, and the trace invariants built on that. -/

namespace CronM
open C16Gen List

/-! ## provenance of jobs and fires -/

theorem schedule_live_sub (s : Cron) (j : Job) (b : Bool) {x : Job}
    (hx : x ∈ (schedule s j b).1.tl ++ (schedule s j b).1.inflight) :
    x ∈ s.tl ++ s.inflight ∨ x = schedJob s.clock j := by
  obtain ⟨e1, _⟩ := schedule_fst_fields s j b
  rw [e1] at hx
  rcases mem_append.1 hx with hx | hx
  · rcases schedule_tl s j b with e | e <;> rw [e] at hx
    · left; exact mem_append.2 (Or.inl ((remJob_sublist _ _).subset hx))
    · rcases mem_insertJob.1 hx with rfl | hx
      · right; rfl
      · left; exact mem_append.2 (Or.inl ((remJob_sublist _ _).subset hx))
  · left; exact mem_append.2 (Or.inr hx)

/-- every job that is pending or in flight after a step was so before, or was created by this `add`, or is the
re-scheduled recurring job whose `Fn` just returned -/
theorem step_live_sub (s : Cron) (op : Op) {x : Job} (hx : x ∈ (step s op).tl ++ (step s op).inflight) :
    x ∈ s.tl ++ s.inflight ∨
    (∃ id due p, op = .add id due p ∧ x = schedJob s.clock ⟨id, due, p, s.serial⟩) ∨
    (∃ k j, op = .done k ∧ j ∈ s.inflight ∧ j.serial = k ∧ j.period ≠ 0 ∧ x = schedJob s.clock j) := by
  cases op with
  | advance d => left; exact hx
  | add id due p =>
    simp only [step] at hx
    rcases schedule_live_sub _ _ _ hx with h | h
    · left; exact h
    · right; left; exact ⟨id, due, p, rfl, h⟩
  | rem id =>
    left; simp only [step] at hx
    rcases mem_append.1 hx with h | h
    · exact mem_append.2 (Or.inl ((remJob_sublist _ _).subset h))
    · exact mem_append.2 (Or.inr h)
  | tick =>
    left
    obtain ⟨e1, e2, _⟩ := tickArm_fields s
    simp only [step] at hx
    rcases tick_cases s with ⟨e, _⟩ | ⟨e, _, _⟩ | ⟨j, rest, _, htl, _, e⟩
    · rw [e] at hx; exact hx
    · rw [e, e1, e2] at hx; exact hx
    · rw [e] at hx
      have hx' : x ∈ rest ++ j :: s.inflight := hx
      rw [htl]
      have : x ∈ rest ∨ x = j ∨ x ∈ s.inflight := by simpa using hx'
      rcases this with h | h | h <;> simp [h]
  | done k =>
    simp only [step] at hx
    have hsub : (s.inflight.eraseP (fun j => j.serial == k)).Sublist s.inflight := eraseP_sublist
    rcases done_cases s k with ⟨e, _⟩ | ⟨j, hjmem, hjser, ⟨_, e⟩ | ⟨hp, e⟩⟩
    · left; rw [e] at hx; exact hx
    · left; rw [e] at hx
      rcases mem_append.1 hx with h | h
      · exact mem_append.2 (Or.inl h)
      · exact mem_append.2 (Or.inr (hsub.subset h))
    · rw [e] at hx
      rcases schedule_live_sub _ _ _ hx with h | h
      · left
        rcases mem_append.1 h with h | h
        · exact mem_append.2 (Or.inl h)
        · exact mem_append.2 (Or.inr (hsub.subset h))
      · right; right; exact ⟨k, j, rfl, hjmem, hjser, hp, h⟩
  | suspend => left; exact hx
  | resume => left; simp only [step] at hx; split at hx <;> exact hx
  | pauseBegin => left; exact hx
  | pauseEnd => left; simp only [step] at hx; split at hx <;> exact hx

/-- every fire in the log after a step was there before, or is the fire of the head of the timeline by this `tick`,
which passed the loop's `ready` test -/
theorem step_log_sub (s : Cron) (op : Op) {f : Fire} (hf : f ∈ (step s op).log) :
    f ∈ s.log ∨ (op = .tick ∧ ∃ j rest, s.tl = j :: rest ∧ readyTest s.clock j.next = true ∧ f = fireOf j s.clock) := by
  cases op with
  | advance d => left; exact hf
  | add id due p =>
    left; simp only [step] at hf
    obtain ⟨_, e2, _⟩ := schedule_fst_fields { s with serial := s.serial + 1 } ⟨id, due, p, s.serial⟩ true
    rw [e2] at hf; exact hf
  | rem id => left; exact hf
  | tick =>
    obtain ⟨_, _, e3, _⟩ := tickArm_fields s
    simp only [step] at hf
    rcases tick_cases s with ⟨e, _⟩ | ⟨e, _, _⟩ | ⟨j, rest, _, htl, hr, e⟩
    · left; rw [e] at hf; exact hf
    · left; rw [e, e3] at hf; exact hf
    · rw [e] at hf
      have hf' : f ∈ fireOf j s.clock :: s.log := hf
      rcases mem_cons.1 hf' with h | h
      · right; exact ⟨rfl, j, rest, htl, hr, h⟩
      · left; exact h
  | done k =>
    left; simp only [step] at hf
    rcases done_cases s k with ⟨e, _⟩ | ⟨j, _, _, ⟨_, e⟩ | ⟨_, e⟩⟩
    · rw [e] at hf; exact hf
    · rw [e] at hf; exact hf
    · rw [e] at hf
      obtain ⟨_, e2, _⟩ := schedule_fst_fields { s with inflight := s.inflight.eraseP (fun j => j.serial == k) } j false
      rw [e2] at hf; exact hf
  | suspend => left; exact hf
  | resume => left; simp only [step] at hf; split at hf <;> exact hf
  | pauseBegin => left; exact hf
  | pauseEnd => left; simp only [step] at hf; split at hf <;> exact hf

theorem step_serial_mono (s : Cron) (op : Op) : s.serial ≤ (step s op).serial := by
  cases op with
  | add id due p =>
    simp only [step]
    obtain ⟨_, _, _, e4, _⟩ := schedule_fst_fields { s with serial := s.serial + 1 } ⟨id, due, p, s.serial⟩ true
    rw [e4]; exact Nat.le_succ _
  | tick =>
    obtain ⟨_, _, _, _, e5, _⟩ := tickArm_fields s
    simp only [step]
    rcases tick_cases s with ⟨e, _⟩ | ⟨e, _, _⟩ | ⟨j, rest, _, _, _, e⟩
    · rw [e]; exact Nat.le_refl _
    · rw [e, e5]; exact Nat.le_refl _
    · rw [e]; show s.serial ≤ (tickArm s).serial; rw [e5]; exact Nat.le_refl _
  | done k =>
    simp only [step]
    rcases done_cases s k with ⟨e, _⟩ | ⟨j, _, _, ⟨_, e⟩ | ⟨_, e⟩⟩
    · rw [e]; exact Nat.le_refl _
    · rw [e]; exact Nat.le_refl _
    · rw [e]
      obtain ⟨_, _, _, e4, _⟩ := schedule_fst_fields { s with inflight := s.inflight.eraseP (fun j => j.serial == k) } j false
      rw [e4]; exact Nat.le_refl _
  | resume => simp only [step]; split <;> exact Nat.le_refl _
  | pauseEnd => simp only [step]; split <;> exact Nat.le_refl _
  | advance d => exact Nat.le_refl _
  | rem id => exact Nat.le_refl _
  | suspend => exact Nat.le_refl _
  | pauseBegin => exact Nat.le_refl _

/-! ## a trace invariant: everything with a given mark descends from jobs with that mark -/

/-- `P` holds of every pending/in-flight job and every logged fire selected by `sel` -/
structure Track (sel : Nat → Nat → Bool) (P : Nat → Nat → Nat → Nat → Prop) (oldlog : List Fire) (s : Cron) : Prop where
  jobs : ∀ x ∈ s.tl ++ s.inflight, sel x.id x.serial = true → P x.id x.serial x.period x.next
  fires : ∀ f ∈ s.log, sel f.id f.serial = true → f ∈ oldlog ∨ P f.id f.serial f.period f.due

/-- `Track` is kept by a step if jobs created by `add` satisfy `P` and re-scheduling keeps `P` -/
theorem Track.step {sel P oldlog} {s : Cron} (h : Track sel P oldlog s) (op : Op)
    (hadd : ∀ id due p, op = .add id due p → sel id s.serial = true →
      P id s.serial p (schedJob s.clock ⟨id, due, p, s.serial⟩).next)
    (hdone : ∀ j : Job, j.period ≠ 0 → sel j.id j.serial = true → P j.id j.serial j.period j.next →
      P j.id j.serial j.period (nextOcc j.period s.clock)) :
    Track sel P oldlog (step s op) := by
  constructor
  · intro x hx hs
    rcases step_live_sub s op hx with h1 | ⟨id, due, p, rfl, rfl⟩ | ⟨k, j, rfl, hj, _, hp, rfl⟩
    · exact h.jobs x h1 hs
    · obtain ⟨i1, i2, i3⟩ := schedJob_id s.clock ⟨id, due, p, s.serial⟩
      rw [i1, i2] at hs; rw [i1, i2, i3]
      exact hadd id due p rfl hs
    · obtain ⟨i1, i2, i3⟩ := schedJob_id s.clock j
      rw [i1, i2] at hs; rw [i1, i2, i3]
      rcases schedJob_next s.clock j with ⟨h0, _⟩ | ⟨_, hn⟩
      · exact absurd h0 hp
      · rw [hn]
        exact hdone j hp hs (h.jobs j (mem_append.2 (Or.inr hj)) hs)
  · intro f hf hs
    rcases step_log_sub s op hf with h1 | ⟨_, j, rest, htl, _, rfl⟩
    · exact h.fires f h1 hs
    · right
      exact h.jobs j (by rw [htl]; simp) hs

/-! ## removed pending jobs -/

theorem removed_aux (n0 id : Nat) (old : List Fire) (post : List Op) : ∀ s : Cron, n0 ≤ s.serial →
    Track (fun i _ => i == id) (fun _ k _ _ => n0 ≤ k) old s →
    Track (fun i _ => i == id) (fun _ k _ _ => n0 ≤ k) old (run s post) := by
  induction post with
  | nil => intro s _ h; exact h
  | cons op post ih =>
    intro s hn h
    refine ih (step s op) (Nat.le_trans hn (step_serial_mono _ _)) (h.step op ?_ ?_)
    · intro _ _ _ _ _; exact hn
    · intro _ _ _ hP; exact hP

/-- after `Rem id` in a state where no job with that id is in flight, every job with that id (pending, in flight or fired later)
was created by a later `Add` -/
theorem removed_track {s : Cron} (h : WF s) (id : Nat) (hnf : ∀ j ∈ s.inflight, j.id ≠ id) (post : List Op) :
    Track (fun i _ => i == id) (fun _ k _ _ => s.serial ≤ k) s.log (run (step s (.rem id)) post) := by
  apply removed_aux
  · exact Nat.le_refl _
  · constructor
    · intro x hx hs
      have hxid : x.id = id := by simpa using hs
      rcases mem_append.1 hx with hx | hx
      · exact absurd hxid (remJob_no_id h.nodupId x hx)
      · exact absurd hxid (hnf x hx)
    · intro f hf _; left; exact hf

/-! ## a one-shot job keeps its due time -/

theorem oneshot_aux (k id due : Nat) (post : List Op) : ∀ s : Cron, k < s.serial →
    Track (fun _ k' => k' == k) (fun i _ p n => i = id ∧ p = 0 ∧ n = due) [] s →
    Track (fun _ k' => k' == k) (fun i _ p n => i = id ∧ p = 0 ∧ n = due) [] (run s post) := by
  induction post with
  | nil => intro s _ h; exact h
  | cons op post ih =>
    intro s hn h
    refine ih (step s op) (Nat.lt_of_lt_of_le hn (step_serial_mono _ _)) (h.step op ?_ ?_)
    · intro _ _ _ _ hs
      have : s.serial = k := by simpa using hs
      omega
    · intro j hp _ hP; exact absurd hP.2.1 hp

theorem oneshot_track {s : Cron} (h : WF s) (id due : Nat) (post : List Op) :
    Track (fun _ k => k == s.serial) (fun i _ p n => i = id ∧ p = 0 ∧ n = due) [] (run (step s (.add id due 0)) post) := by
  apply oneshot_aux
  · simp only [step]
    obtain ⟨_, _, _, e4, _⟩ := schedule_fst_fields { s with serial := s.serial + 1 } ⟨id, due, 0, s.serial⟩ true
    rw [e4]; exact Nat.lt_succ_self _
  · constructor
    · intro x hx hs
      have hxs : x.serial = s.serial := by simpa using hs
      rcases step_live_sub s _ hx with h1 | ⟨id', due', p', he, rfl⟩ | ⟨k, j, he, _⟩
      · exact absurd hxs (Nat.ne_of_lt (h.serLt x h1))
      · cases he; simp [schedJob]
      · cases he
    · intro f hf hs
      have hfs : f.serial = s.serial := by simpa using hs
      rcases step_log_sub s _ hf with h1 | ⟨he, _⟩
      · exact absurd hfs (Nat.ne_of_lt (h.logOk f h1).1)
      · cases he

/-! ## fires of one job object -/

theorem firesOf_pairwise {s : Cron} (h : WF s) (k : Nat) :
    (firesOf k s).Pairwise (fun f' f => f'.period = f.period ∧ f'.period ≠ 0 ∧ f.due < f'.due) := by
  unfold firesOf
  have hsub : (s.log.filter (fun f => f.serial == k)).Sublist s.log := filter_sublist
  have hp := h.logPair.sublist hsub
  refine Pairwise.imp_of_mem ?_ hp
  intro f' f hf' hf hR
  have e1 : f'.serial = k := by simpa using (mem_filter.1 hf').2
  have e2 : f.serial = k := by simpa using (mem_filter.1 hf).2
  obtain ⟨_, b, c, d⟩ := hR (e1.trans e2.symm)
  exact ⟨b, c, Nat.lt_of_le_of_lt (h.logOk f (hsub.subset hf)).2.1 d⟩

theorem firesOf_oneshot_le_one {s : Cron} (h : WF s) (k : Nat) (h0 : ∀ f ∈ firesOf k s, f.period = 0) :
    (firesOf k s).length ≤ 1 := by
  have hp := firesOf_pairwise h k
  match hl : firesOf k s with
  | [] => simp
  | [_] => simp
  | a :: b :: rest =>
    rw [hl] at hp h0
    have := (pairwise_cons.1 hp).1 b (by simp)
    exact absurd (h0 a (by simp)) this.2.1

/-! ## liveness under ticks -/

theorem tick_fires_head' {s : Cron} (hp : s.paused = false) {j : Job} {rest : List Job} (htl : s.tl = j :: rest)
    (hdue : j.next ≤ s.clock) :
    (tick s).tl = rest ∧ (tick s).log = fireOf j s.clock :: s.log ∧ (tick s).inflight = j :: s.inflight ∧
    (tick s).clock = s.clock ∧ (tick s).paused = false ∧ (tick s).armed = rearm rest := by
  obtain ⟨_, _, _, e4, _, _, e7, _⟩ := tickArm_fields s
  rcases tick_cases s with ⟨_, h⟩ | ⟨_, _, h | ⟨j', rest', h1, h2⟩⟩ | ⟨j', rest', _, h1, _, e⟩
  · rw [hp] at h; cases h
  · rw [htl] at h; cases h
  · rw [htl] at h1; cases h1
    rw [le_readyTest hdue] at h2; cases h2
  · rw [htl] at h1; cases h1
    rw [e]; exact ⟨rfl, rfl, rfl, e4, e7.trans hp, rfl⟩

theorem ticks_fire {s : Cron} (h : WF s) (hp : s.paused = false) (pre : List Job) (j : Job) (post : List Job)
    (htl : s.tl = pre ++ j :: post) (hdue : j.next ≤ s.clock) :
    let s' := run s (replicate (pre.length + 1) .tick)
    fireOf j s.clock ∈ s'.log ∧ s'.tl = post ∧ s'.clock = s.clock := by
  induction pre generalizing s with
  | nil =>
    obtain ⟨a, b, _, d, _⟩ := tick_fires_head' hp (by simpa using htl) hdue
    simp only [run, length_nil, Nat.zero_add, replicate_one, foldl_cons, foldl_nil, step]
    exact ⟨by rw [b]; simp, a, d⟩
  | cons x pre ih =>
    have hx : x.next ≤ s.clock := by
      have hs := h.sorted
      rw [htl] at hs
      exact Nat.le_trans ((pairwise_cons.1 hs).1 j (by simp)) hdue
    obtain ⟨a, b, _, d, e, _⟩ := tick_fires_head' hp (by simpa using htl) hx
    have := ih (s := tick s) (WF_tick h) e a (by rw [d]; exact hdue)
    simp only [run, length_cons, replicate_succ, foldl_cons, step] at this ⊢
    rw [d] at this
    exact this

end CronM

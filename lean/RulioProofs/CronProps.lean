import RulioProofs.CronTimeline

/-! Helper lemmas for C16 (in-memory cron): where jobs and fires come from, step by step, and the trace invariants built on that. -/

namespace CronM
open C16Gen List

/-! ## provenance of jobs and fires -/

theorem schedule_live_sub (s : Cron) (j : Job) (b : Bool) {x : Job}
    (hx : x ∈ (schedule s j b).1.tl ++ (schedule s j b).1.running) :
    x ∈ s.tl ++ s.running ∨ x = schedJob s.clock j := by
  rw [schedule_running] at hx
  rcases mem_append.1 hx with hx | hx
  · rcases schedule_tl s j b with e | e <;> rw [e] at hx
    · left; exact mem_append.2 (Or.inl ((remJob_sublist _ _).subset hx))
    · rcases mem_insertJob.1 hx with rfl | hx
      · right; rfl
      · left; exact mem_append.2 (Or.inl ((remJob_sublist _ _).subset hx))
  · left; exact mem_append.2 (Or.inr ((cancelRunning_sublist _ _).subset hx))

/-- every job that is pending, or running and due to be re-scheduled, after a step was so before, or was created by this
`add`, or is the re-scheduled recurring job whose `Fn` just returned (and which was still in `c.running`) -/
theorem step_live_sub {s : Cron} (hw : WF s) (op : Op) {x : Job} (hx : x ∈ (step s op).tl ++ (step s op).running) :
    x ∈ s.tl ++ s.running ∨
    (∃ id due p, op = .add id due p ∧ x = schedJob s.clock ⟨id, due, p, s.serial⟩) ∨
    (∃ k j, op = .done k ∧ j ∈ s.running ∧ j.serial = k ∧ j.period ≠ 0 ∧ x = schedJob s.clock j) := by
  cases op with
  | advance d => left; exact hx
  | add id due p =>
    simp only [step] at hx
    rcases schedule_live_sub _ _ _ hx with h | h
    · left; exact h
    · right; left; exact ⟨id, due, p, rfl, h⟩
  | rem id =>
    left; simp only [step] at hx
    rcases mem_append.1 hx with h | h
    · exact mem_append.2 (Or.inl ((remJob_sublist _ _).subset h))
    · exact mem_append.2 (Or.inr ((cancelRunning_sublist _ _).subset h))
  | tick =>
    left
    obtain ⟨i1, _, _, _, _, _, _, _, i9⟩ := tickIdle_fields s
    simp only [step] at hx
    rcases tick_cases s with ⟨e, _⟩ | ⟨e, _, _⟩ | ⟨j, rest, _, htl, _, e⟩
    · rw [e] at hx; exact hx
    · rw [e, i1, i9] at hx; exact hx
    · rw [e] at hx
      have hx' : x ∈ rest ++ tickRun j s.running := hx
      rw [htl]
      rcases tickRun_cases j s.running with ⟨_, er⟩ | ⟨_, er⟩ <;> rw [er] at hx'
      · have : x ∈ rest ∨ x = j ∨ x ∈ s.running := by simpa using hx'
        rcases this with h | h | h <;> simp [h]
      · have : x ∈ rest ∨ x ∈ s.running := by simpa using hx'
        rcases this with h | h <;> simp [h]
  | done k =>
    simp only [step] at hx
    rcases done_cases s k with ⟨e, _⟩ | ⟨j, hjmem, hjser, ⟨_, e⟩ | ⟨hp, e⟩⟩
    · left; rw [e] at hx; exact hx
    · left; rw [e] at hx; exact hx
    · rw [e] at hx
      rcases reschedule_cases { s with inflight := s.inflight.eraseP (fun j => j.serial == k) } j with ⟨e2, _⟩ | ⟨⟨y, hy, hys⟩, e2⟩
      · left; rw [e2] at hx; exact hx
      · rw [e2] at hx
        have hy' : y ∈ s.running := hy
        have hyj : y = j := hw.run_eq hy' hjmem hys
        subst hyj
        have hx' : x ∈ insertJob (schedJob s.clock y) s.tl ++ s.running.eraseP (fun z => z.serial == y.serial) := hx
        rcases mem_append.1 hx' with h | h
        · rcases mem_insertJob.1 h with h | h
          · right; right; exact ⟨k, y, rfl, hy', hjser, hp, h⟩
          · left; exact mem_append.2 (Or.inl h)
        · left; exact mem_append.2 (Or.inr ((eraseP_sublist).subset h))
  | suspend => left; exact hx
  | resume => left; simp only [step] at hx; split at hx <;> exact hx
  | pauseBegin => left; exact hx
  | pauseEnd => left; simp only [step] at hx; split at hx <;> exact hx

/-- every fire in the log after a step was there before, or is the fire of the head of the timeline by this `tick`,
which passed the loop's `ready` test -/
theorem step_log_sub (s : Cron) (op : Op) {f : Fire} (hf : f ∈ (step s op).log) :
    f ∈ s.log ∨ (op = .tick ∧ ∃ j rest, s.tl = j :: rest ∧ readyTest s.clock j.next = true ∧ f = fireOf j s.clock) := by
  cases op with
  | advance d => left; exact hf
  | add id due p =>
    left; simp only [step] at hf
    obtain ⟨_, e2, _⟩ := schedule_fst_fields { s with serial := s.serial + 1 } ⟨id, due, p, s.serial⟩ true
    rw [e2] at hf; exact hf
  | rem id => left; exact hf
  | tick =>
    obtain ⟨_, _, e3, _⟩ := tickIdle_fields s
    simp only [step] at hf
    rcases tick_cases s with ⟨e, _⟩ | ⟨e, _, _⟩ | ⟨j, rest, _, htl, hr, e⟩
    · left; rw [e] at hf; exact hf
    · left; rw [e, e3] at hf; exact hf
    · rw [e] at hf
      have hf' : f ∈ fireOf j s.clock :: s.log := hf
      rcases mem_cons.1 hf' with h | h
      · right; exact ⟨rfl, j, rest, htl, hr, h⟩
      · left; exact h
  | done k =>
    left; simp only [step] at hf
    rcases done_cases s k with ⟨e, _⟩ | ⟨j, _, _, ⟨_, e⟩ | ⟨_, e⟩⟩
    · rw [e] at hf; exact hf
    · rw [e] at hf; exact hf
    · rw [e] at hf
      obtain ⟨_, e2, _⟩ := reschedule_fields { s with inflight := s.inflight.eraseP (fun j => j.serial == k) } j
      rw [e2] at hf; exact hf
  | suspend => left; exact hf
  | resume => left; simp only [step] at hf; split at hf <;> exact hf
  | pauseBegin => left; exact hf
  | pauseEnd => left; simp only [step] at hf; split at hf <;> exact hf

theorem step_serial_mono (s : Cron) (op : Op) : s.serial ≤ (step s op).serial := by
  cases op with
  | add id due p =>
    simp only [step]
    obtain ⟨_, _, _, e4, _⟩ := schedule_fst_fields { s with serial := s.serial + 1 } ⟨id, due, p, s.serial⟩ true
    rw [e4]; exact Nat.le_succ _
  | tick =>
    obtain ⟨_, _, _, _, e5, _⟩ := tickArm_fields s
    obtain ⟨_, _, _, _, i5, _⟩ := tickIdle_fields s
    simp only [step]
    rcases tick_cases s with ⟨e, _⟩ | ⟨e, _, _⟩ | ⟨j, rest, _, _, _, e⟩
    · rw [e]; exact Nat.le_refl _
    · rw [e, i5]; exact Nat.le_refl _
    · rw [e]; show s.serial ≤ (tickArm s).serial; rw [e5]; exact Nat.le_refl _
  | done k =>
    simp only [step]
    rcases done_cases s k with ⟨e, _⟩ | ⟨j, _, _, ⟨_, e⟩ | ⟨_, e⟩⟩
    · rw [e]; exact Nat.le_refl _
    · rw [e]; exact Nat.le_refl _
    · rw [e]
      obtain ⟨_, _, _, e4, _⟩ := reschedule_fields { s with inflight := s.inflight.eraseP (fun j => j.serial == k) } j
      rw [e4]; exact Nat.le_refl _
  | resume => simp only [step]; split <;> exact Nat.le_refl _
  | pauseEnd => simp only [step]; split <;> exact Nat.le_refl _
  | advance d => exact Nat.le_refl _
  | rem id => exact Nat.le_refl _
  | suspend => exact Nat.le_refl _
  | pauseBegin => exact Nat.le_refl _

/-! ## a trace invariant: everything with a given mark descends from jobs with that mark -/

/-- `P` holds of every live job (pending, or running and due to be re-scheduled) and every logged fire selected by `sel` -/
structure Track (sel : Nat → Nat → Bool) (P : Nat → Nat → Nat → Nat → Prop) (oldlog : List Fire) (s : Cron) : Prop where
  jobs : ∀ x ∈ s.tl ++ s.running, sel x.id x.serial = true → P x.id x.serial x.period x.next
  fires : ∀ f ∈ s.log, sel f.id f.serial = true → f ∈ oldlog ∨ P f.id f.serial f.period f.due

/-- `Track` is kept by a step if jobs created by `add` satisfy `P` and re-scheduling keeps `P` -/
theorem Track.step {sel P oldlog} {s : Cron} (hw : WF s) (h : Track sel P oldlog s) (op : Op)
    (hadd : ∀ id due p, op = .add id due p → sel id s.serial = true →
      P id s.serial p (schedJob s.clock ⟨id, due, p, s.serial⟩).next)
    (hdone : ∀ j : Job, j.period ≠ 0 → sel j.id j.serial = true → P j.id j.serial j.period j.next →
      P j.id j.serial j.period (nextOcc j.period s.clock)) :
    Track sel P oldlog (step s op) := by
  constructor
  · intro x hx hs
    rcases step_live_sub hw op hx with h1 | ⟨id, due, p, rfl, rfl⟩ | ⟨k, j, rfl, hj, _, hp, rfl⟩
    · exact h.jobs x h1 hs
    · obtain ⟨i1, i2, i3⟩ := schedJob_id s.clock ⟨id, due, p, s.serial⟩
      rw [i1, i2] at hs; rw [i1, i2, i3]
      exact hadd id due p rfl hs
    · obtain ⟨i1, i2, i3⟩ := schedJob_id s.clock j
      rw [i1, i2] at hs; rw [i1, i2, i3]
      rcases schedJob_next s.clock j with ⟨h0, _⟩ | ⟨_, hn⟩
      · exact absurd h0 hp
      · rw [hn]
        exact hdone j hp hs (h.jobs j (mem_append.2 (Or.inr hj)) hs)
  · intro f hf hs
    rcases step_log_sub s op hf with h1 | ⟨_, j, rest, htl, _, rfl⟩
    · exact h.fires f h1 hs
    · right
      exact h.jobs j (by rw [htl]; simp) hs

/-! ## removed pending jobs -/

theorem removed_aux (n0 id : Nat) (old : List Fire) (post : List Op) : ∀ s : Cron, WF s → n0 ≤ s.serial →
    Track (fun i _ => i == id) (fun _ k _ _ => n0 ≤ k) old s →
    Track (fun i _ => i == id) (fun _ k _ _ => n0 ≤ k) old (run s post) := by
  induction post with
  | nil => intro s _ _ h; exact h
  | cons op post ih =>
    intro s hw hn h
    refine ih (step s op) (WF_step hw op) (Nat.le_trans hn (step_serial_mono _ _)) (h.step hw op ?_ ?_)
    · intro _ _ _ _ _; exact hn
    · intro _ _ _ hP; exact hP

/-- after `Rem id` — whether the job was pending or its `Fn` was running — every live job with that id, and every later fire
under that id, was created by a later `Add` -/
theorem removed_track {s : Cron} (h : WF s) (id : Nat) (post : List Op) :
    Track (fun i _ => i == id) (fun _ k _ _ => s.serial ≤ k) s.log (run (step s (.rem id)) post) := by
  apply removed_aux
  · exact WF_step h _
  · exact Nat.le_refl _
  · constructor
    · intro x hx hs
      have hxid : x.id = id := by simpa using hs
      rcases mem_append.1 hx with hx | hx
      · exact absurd hxid (remJob_no_id h.nodupId x hx)
      · exact absurd hxid (cancelRunning_no_id h.nodupIdRun x hx)
    · intro f hf _; left; exact hf

/-- the same after an `Add id …` (a replacement when the id exists): every live job with that id, and every later fire under
that id, belongs to this `Add` or a later one — the replaced job object never fires again, even if its `Fn` was running -/
theorem replaced_track {s : Cron} (h : WF s) (id due p : Nat) (post : List Op) :
    Track (fun i _ => i == id) (fun _ k _ _ => s.serial ≤ k) s.log (run (step s (.add id due p)) post) := by
  apply removed_aux
  · exact WF_step h _
  · exact step_serial_mono s _
  · constructor
    · intro x hx hs
      have hxid : x.id = id := by simpa using hs
      simp only [step] at hx
      rw [schedule_running] at hx
      have hnew : (schedJob s.clock ⟨id, due, p, s.serial⟩).serial = s.serial := (schedJob_id _ _).2.1
      show s.serial ≤ x.serial
      rcases mem_append.1 hx with hx | hx
      · rcases schedule_tl { s with serial := s.serial + 1 } ⟨id, due, p, s.serial⟩ true with e | e <;> rw [e] at hx
        · exact absurd hxid (remJob_no_id h.nodupId x hx)
        · rcases mem_insertJob.1 hx with hx | hx
          · rw [hx]; exact Nat.le_of_eq hnew.symm
          · exact absurd hxid (remJob_no_id h.nodupId x hx)
      · exact absurd hxid (cancelRunning_no_id h.nodupIdRun x hx)
    · intro f hf _; left
      simp only [step] at hf
      obtain ⟨_, e2, _⟩ := schedule_fst_fields { s with serial := s.serial + 1 } ⟨id, due, p, s.serial⟩ true
      rw [e2] at hf; exact hf

/-! ## a one-shot job keeps its due time -/

theorem oneshot_aux (k id due : Nat) (post : List Op) : ∀ s : Cron, WF s → k < s.serial →
    Track (fun _ k' => k' == k) (fun i _ p n => i = id ∧ p = 0 ∧ n = due) [] s →
    Track (fun _ k' => k' == k) (fun i _ p n => i = id ∧ p = 0 ∧ n = due) [] (run s post) := by
  induction post with
  | nil => intro s _ _ h; exact h
  | cons op post ih =>
    intro s hw hn h
    refine ih (step s op) (WF_step hw op) (Nat.lt_of_lt_of_le hn (step_serial_mono _ _)) (h.step hw op ?_ ?_)
    · intro _ _ _ _ hs
      have : s.serial = k := by simpa using hs
      omega
    · intro j hp _ hP; exact absurd hP.2.1 hp

theorem oneshot_track {s : Cron} (h : WF s) (id due : Nat) (post : List Op) :
    Track (fun _ k => k == s.serial) (fun i _ p n => i = id ∧ p = 0 ∧ n = due) [] (run (step s (.add id due 0)) post) := by
  apply oneshot_aux
  · exact WF_step h _
  · simp only [step]
    obtain ⟨_, _, _, e4, _⟩ := schedule_fst_fields { s with serial := s.serial + 1 } ⟨id, due, 0, s.serial⟩ true
    rw [e4]; exact Nat.lt_succ_self _
  · constructor
    · intro x hx hs
      have hxs : x.serial = s.serial := by simpa using hs
      rcases step_live_sub h _ hx with h1 | ⟨id', due', p', he, rfl⟩ | ⟨k, j, he, _⟩
      · have h1' : x ∈ s.tl ++ s.inflight := by
          rcases mem_append.1 h1 with h1 | h1
          · exact mem_append.2 (Or.inl h1)
          · exact mem_append.2 (Or.inr (h.runSub.subset h1))
        exact absurd hxs (Nat.ne_of_lt (h.serLt x h1'))
      · cases he; simp [schedJob]
      · cases he
    · intro f hf hs
      have hfs : f.serial = s.serial := by simpa using hs
      rcases step_log_sub s _ hf with h1 | ⟨he, _⟩
      · exact absurd hfs (Nat.ne_of_lt (h.logOk f h1).1)
      · cases he

/-! ## fires of one job object -/

theorem firesOf_pairwise {s : Cron} (h : WF s) (k : Nat) :
    (firesOf k s).Pairwise (fun f' f => f'.period = f.period ∧ f'.period ≠ 0 ∧ f.due < f'.due) := by
  unfold firesOf
  have hsub : (s.log.filter (fun f => f.serial == k)).Sublist s.log := filter_sublist
  have hp := h.logPair.sublist hsub
  refine Pairwise.imp_of_mem ?_ hp
  intro f' f hf' hf hR
  have e1 : f'.serial = k := by simpa using (mem_filter.1 hf').2
  have e2 : f.serial = k := by simpa using (mem_filter.1 hf).2
  obtain ⟨_, b, c, d⟩ := hR (e1.trans e2.symm)
  exact ⟨b, c, Nat.lt_of_le_of_lt (h.logOk f (hsub.subset hf)).2.1 d⟩

theorem firesOf_oneshot_le_one {s : Cron} (h : WF s) (k : Nat) (h0 : ∀ f ∈ firesOf k s, f.period = 0) :
    (firesOf k s).length ≤ 1 := by
  have hp := firesOf_pairwise h k
  match hl : firesOf k s with
  | [] => simp
  | [_] => simp
  | a :: b :: rest =>
    rw [hl] at hp h0
    have := (pairwise_cons.1 hp).1 b (by simp)
    exact absurd (h0 a (by simp)) this.2.1

/-! ## liveness under ticks -/

theorem tick_fires_head' {s : Cron} (hp : s.paused = false) {j : Job} {rest : List Job} (htl : s.tl = j :: rest)
    (hdue : j.next ≤ s.clock) :
    (tick s).tl = rest ∧ (tick s).log = fireOf j s.clock :: s.log ∧ (tick s).inflight = j :: s.inflight ∧
    (tick s).clock = s.clock ∧ (tick s).paused = false ∧ (tick s).armed = rearm rest := by
  obtain ⟨_, _, _, e4, _, _, e7, _⟩ := tickArm_fields s
  rcases tick_cases s with ⟨_, h⟩ | ⟨_, _, h | ⟨j', rest', h1, h2⟩⟩ | ⟨j', rest', _, h1, _, e⟩
  · rw [hp] at h; cases h
  · rw [htl] at h; cases h
  · rw [htl] at h1; cases h1
    rw [le_readyTest hdue] at h2; cases h2
  · rw [htl] at h1; cases h1
    rw [e]; exact ⟨rfl, rfl, rfl, e4, e7.trans hp, rfl⟩

theorem ticks_fire {s : Cron} (h : WF s) (hp : s.paused = false) (pre : List Job) (j : Job) (post : List Job)
    (htl : s.tl = pre ++ j :: post) (hdue : j.next ≤ s.clock) :
    let s' := run s (replicate (pre.length + 1) .tick)
    fireOf j s.clock ∈ s'.log ∧ s'.tl = post ∧ s'.clock = s.clock := by
  induction pre generalizing s with
  | nil =>
    obtain ⟨a, b, _, d, _⟩ := tick_fires_head' hp (by simpa using htl) hdue
    simp only [run, length_nil, Nat.zero_add, replicate_one, foldl_cons, foldl_nil, step]
    exact ⟨by rw [b]; simp, a, d⟩
  | cons x pre ih =>
    have hx : x.next ≤ s.clock := by
      have hs := h.sorted
      rw [htl] at hs
      exact Nat.le_trans ((pairwise_cons.1 hs).1 j (by simp)) hdue
    obtain ⟨a, b, _, d, e, _⟩ := tick_fires_head' hp (by simpa using htl) hx
    have := ih (s := tick s) (WF_tick h) e a (by rw [d]; exact hdue)
    simp only [run, length_cons, replicate_succ, foldl_cons, step] at this ⊢
    rw [d] at this
    exact this

/-! ## what the return of an `Fn` and the control commands leave alone -/

/-- the return of an `Fn`, the passage of time and the control commands never take anything off the timeline -/
theorem step_tl_keep (s : Cron) (op : Op) (hop : (∃ k, op = .done k) ∨ op.isControl = true) {x : Job} (hx : x ∈ s.tl) :
    x ∈ (step s op).tl := by
  cases op with
  | done k =>
    simp only [step]
    rcases done_cases s k with ⟨e, _⟩ | ⟨j, _, _, ⟨_, e⟩ | ⟨_, e⟩⟩
    · rw [e]; exact hx
    · rw [e]; exact hx
    · rw [e]
      rcases reschedule_cases { s with inflight := s.inflight.eraseP (fun j => j.serial == k) } j with ⟨e2, _⟩ | ⟨_, e2⟩
      · rw [e2]; exact hx
      · rw [e2]; exact mem_insertJob.2 (Or.inr hx)
  | advance d => exact hx
  | suspend => exact hx
  | pauseBegin => exact hx
  | resume => simp only [step]; split <;> exact hx
  | pauseEnd => simp only [step]; split <;> exact hx
  | add _ _ _ => rcases hop with ⟨_, h⟩ | h <;> cases h
  | rem _ => rcases hop with ⟨_, h⟩ | h <;> cases h
  | tick => rcases hop with ⟨_, h⟩ | h <;> cases h

theorem run_tl_keep (s : Cron) (ops : List Op) (hops : ∀ o ∈ ops, (∃ k, o = .done k) ∨ o.isControl = true) {x : Job} (hx : x ∈ s.tl) :
    x ∈ (run s ops).tl := by
  induction ops generalizing s with
  | nil => exact hx
  | cons op ops ih =>
    exact ih (step s op) (fun o ho => hops o (by simp [ho])) (step_tl_keep s op (hops op (by simp)) hx)

/-- the return of the `Fn` of a job that is no longer in `c.running` (removed or replaced meanwhile) changes nothing but the
ghost list of running `Fn`s -/
theorem done_cancelled {s : Cron} (hw : WF s) {j : Job} (hj : j ∈ s.inflight) (hp : j.period ≠ 0) (hnr : j ∉ s.running) :
    done s j.serial = { s with inflight := s.inflight.eraseP (fun x => x.serial == j.serial) } := by
  rcases done_cases s j.serial with ⟨_, hno⟩ | ⟨j2, hj2, hser, hc⟩
  · exact absurd rfl (hno j hj)
  · have hj2eq : j2 = j := by
      by_cases e2 : j2 = j
      · exact e2
      · exact absurd hser (pairwise_mem_ne (fun a b hab => fun e => hab e.symm) hw.nodupSerInfl j2 hj2 j hj e2)
    subst hj2eq
    rcases hc with ⟨h0, _⟩ | ⟨_, e⟩
    · exact absurd h0 hp
    · rw [e]
      rcases reschedule_cases { s with inflight := s.inflight.eraseP (fun x => x.serial == j2.serial) } j2 with ⟨e2, _⟩ | ⟨⟨y, hy, hys⟩, _⟩
      · exact e2
      · have hy' : y ∈ s.running := hy
        have := hw.run_eq hy' hj hys
        subst this
        exact absurd hy' hnr

end CronM

import RulioModel.SysInv
import RulioProofs.SysAm

open AM

set_option linter.unusedSimpArgs false
set_option linter.unusedVariables false

/-! # Systems as finite maps: `Sys.at` / `Sys.put` frame lemmas, `SysWF` preservation, and
name preservation of every single-location method -/

theorem Sys.keys_eq (sys : Sys) : sys.keys = amKeys sys := rfl

theorem Sys.get?_put (sys : Sys) (l : Loc) (n : String) :
    (sys.put l).get? n = if n == l.name then some l else sys.get? n := by
  unfold Sys.put Sys.get?; exact amGet_amSet _ _ _ _

theorem Sys.get?_isSome_iff (sys : Sys) (n : String) : (sys.get? n).isSome ↔ n ∈ sys.keys :=
  amGet_isSome_iff sys n

theorem Sys.get?_eq_none_iff (sys : Sys) (n : String) : sys.get? n = none ↔ n ∉ sys.keys :=
  amGet_eq_none_iff sys n

theorem Sys.mem_keys_of_get? {sys : Sys} {n : String} {l : Loc} (h : sys.get? n = some l) : n ∈ sys.keys :=
  (Sys.get?_isSome_iff sys n).1 (by simp [h])

theorem SysWF.name_of_get? {sys : Sys} (wf : SysWF sys) {n : String} {l : Loc} (h : sys.get? n = some l) :
    l.name = n := wf.named n l (amGet_mem h)

theorem SysWF.put {sys : Sys} (wf : SysWF sys) (l : Loc) : SysWF (sys.put l) := by
  constructor
  · exact amKeys_amSet_nodup sys l.name l wf.nodup
  · intro k l' hm
    have hnd : (amKeys (sys.put l)).Nodup := amKeys_amSet_nodup sys l.name l wf.nodup
    have hg : (sys.put l).get? k = some l' := amGet_of_mem_nodup hnd hm
    rw [Sys.get?_put] at hg
    by_cases hk : k = l.name
    · simp [hk] at hg; subst hg; exact hk.symm
    · simp [hk] at hg; exact wf.name_of_get? hg

theorem Sys.keys_put_of_mem (sys : Sys) (l : Loc) (h : l.name ∈ sys.keys) : (sys.put l).keys = sys.keys :=
  amKeys_amSet_of_mem sys l.name l h

theorem Sys.length_put_of_mem (sys : Sys) (l : Loc) (h : l.name ∈ sys.keys) : (sys.put l).length = sys.length :=
  amKeys_amSet_length_of_mem sys l.name l h

/-! ## `Sys.at` -/

theorem Sys.at_none {α} {sys : Sys} {n : String} (m : LM α) (h : sys.get? n = none) :
    sys.at n m = (sys, .error "notFound") := by
  unfold Sys.at; rw [h]

theorem Sys.at_some {α} {sys : Sys} {n : String} {l : Loc} (m : LM α) (h : sys.get? n = some l) :
    sys.at n m = (sys.put (m l).1, (m l).2) := by
  unfold Sys.at; rw [h]

/-- if the computation at `n` does not fail with the lookup error, `n` is a known location -/
theorem Sys.at_ok_get? {α} {sys : Sys} {n : String} {m : LM α} {sys' : Sys} {a : α}
    (h : sys.at n m = (sys', .ok a)) : ∃ l, sys.get? n = some l := by
  cases hg : sys.get? n with
  | none => rw [Sys.at_none m hg] at h; cases h
  | some l => exact ⟨l, rfl⟩

/-- **frame**: running a name-preserving computation at `n` leaves every other component untouched -/
theorem Sys.at_frame {α} {sys : Sys} (wf : SysWF sys) (n : String) {m : LM α} (hm : m.KeepsName)
    {n' : String} (hne : n' ≠ n) : (sys.at n m).1.get? n' = sys.get? n' := by
  cases hg : sys.get? n with
  | none => rw [Sys.at_none m hg]
  | some l =>
    rw [Sys.at_some m hg]
    simp only [Sys.get?_put]
    have : (m l).1.name = n := by rw [hm l]; exact wf.name_of_get? hg
    simp [this, hne]

/-- the component at `n` after the computation is the computation's final location -/
theorem Sys.at_self {α} {sys : Sys} (wf : SysWF sys) {n : String} {m : LM α} (hm : m.KeepsName)
    {l : Loc} (hg : sys.get? n = some l) :
    (sys.at n m).1.get? n = some (m l).1 ∧ (sys.at n m).2 = (m l).2 := by
  rw [Sys.at_some m hg]
  simp only [Sys.get?_put]
  have : (m l).1.name = n := by rw [hm l]; exact wf.name_of_get? hg
  simp [this]

theorem Sys.at_keys {α} {sys : Sys} (wf : SysWF sys) (n : String) {m : LM α} (hm : m.KeepsName) :
    (sys.at n m).1.keys = sys.keys := by
  cases hg : sys.get? n with
  | none => rw [Sys.at_none m hg]
  | some l =>
    rw [Sys.at_some m hg]
    apply Sys.keys_put_of_mem
    have : (m l).1.name = n := by rw [hm l]; exact wf.name_of_get? hg
    rw [this]; exact Sys.mem_keys_of_get? hg

theorem Sys.at_wf {α} {sys : Sys} (wf : SysWF sys) (n : String) (m : LM α) : SysWF (sys.at n m).1 := by
  cases hg : sys.get? n with
  | none => rw [Sys.at_none m hg]; exact wf
  | some l => rw [Sys.at_some m hg]; exact wf.put _

theorem Sys.length_eq_keys (sys : Sys) : sys.length = sys.keys.length := by simp [Sys.keys]

theorem Sys.at_length {α} {sys : Sys} (wf : SysWF sys) (n : String) {m : LM α} (hm : m.KeepsName) :
    (sys.at n m).1.length = sys.length := by
  rw [Sys.length_eq_keys, Sys.length_eq_keys, Sys.at_keys wf n hm]

/-- two systems with the same component at `n` run the same computation with the same outcome -/
theorem Sys.at_congr {α} {sys1 sys2 : Sys} {n : String} (m : LM α) (h : sys1.get? n = sys2.get? n) :
    (sys1.at n m).2 = (sys2.at n m).2 ∧
    (sys1.at n m).1.get? n = (sys2.at n m).1.get? n := by
  cases hg : sys2.get? n with
  | none => rw [hg] at h; rw [Sys.at_none m hg, Sys.at_none m h]; simp [h, hg]
  | some l =>
    rw [hg] at h; rw [Sys.at_some m hg, Sys.at_some m h]
    simp only [Sys.get?_put, true_and]
    by_cases hn : n = (m l).1.name <;> simp [hn, h, hg]

/-! ## name (and provider flag) preservation -/

namespace LM

theorem KeepsId.keepsName {α} {m : LM α} (h : m.KeepsId) : m.KeepsName := fun l => (h l).1

theorem KeepsId.pure {α} (a : α) : (LM.pure a).KeepsId := fun l => ⟨rfl, rfl⟩
theorem KeepsId.pure' {α} (a : α) : (Pure.pure a : LM α).KeepsId := fun l => ⟨rfl, rfl⟩
theorem KeepsId.fail {α} (e : LErr) : (LM.fail e : LM α).KeepsId := fun l => ⟨rfl, rfl⟩
theorem KeepsId.get : LM.get.KeepsId := fun l => ⟨rfl, rfl⟩
theorem KeepsId.liftSt {α} (f : St → St × Except LErr α) : (LM.liftSt f).KeepsId := fun l => ⟨rfl, rfl⟩

theorem KeepsId.bind {α β} {m : LM α} {f : α → LM β} (hm : m.KeepsId) (hf : ∀ a, (f a).KeepsId) :
    (LM.bind m f).KeepsId := by
  intro l
  unfold LM.bind
  have h1 := hm l
  cases hml : m l with
  | mk l1 r =>
    rw [hml] at h1
    cases r with
    | error e => exact h1
    | ok a =>
      have h2 := hf a l1
      exact ⟨h2.1.trans h1.1, h2.2.trans h1.2⟩

theorem KeepsId.bind' {α β} {m : LM α} {f : α → LM β} (hm : m.KeepsId) (hf : ∀ a, (f a).KeepsId) :
    (m >>= f).KeepsId := KeepsId.bind hm hf

theorem KeepsId.attempt {α} {m : LM α} (hm : m.KeepsId) : (LM.attempt m).KeepsId := by
  intro l; unfold LM.attempt; exact hm l

end LM

open LM in
theorem stGet_keeps (id : String) (now : Int) : (stGet id now).KeepsId := KeepsId.liftSt _
open LM in
theorem stAdd_keeps (id : String) (x : Obj) (now : Int) : (stAdd id x now).KeepsId := KeepsId.liftSt _
open LM in
theorem stRem_keeps (id : String) (now : Int) : (stRem id now).KeepsId := KeepsId.liftSt _
open LM in
theorem stSearch_keeps (p : Obj) (now : Int) : (stSearch p now).KeepsId := KeepsId.liftSt _
open LM in
theorem stFindRules_keeps (p : Obj) (now : Int) : (stFindRules p now).KeepsId := KeepsId.liftSt _

/-- structural tactic: walk through binds / matches / ifs -/
macro "keeps_id" : tactic => `(tactic|
  repeat (with_reducible first
    | exact LM.KeepsId.pure' _
    | exact LM.KeepsId.pure _
    | exact LM.KeepsId.fail _
    | exact LM.KeepsId.get
    | exact LM.KeepsId.liftSt _
    | exact stGet_keeps _ _
    | exact stAdd_keeps _ _ _
    | exact stRem_keeps _ _
    | exact stSearch_keeps _ _
    | exact stFindRules_keeps _ _
    | assumption
    | apply LM.KeepsId.attempt
    | apply LM.KeepsId.bind'
    | apply LM.KeepsId.bind
    | intro _
    | split))

theorem getProp_keeps (id prop : String) (d : J) (now : Int) : (getProp id prop d now).KeepsId := by
  unfold getProp; keeps_id

theorem getPropStringD_keeps (prop : String) (now : Int) : (getPropStringD prop now).KeepsId := by
  unfold getPropStringD
  have := getProp_keeps "" prop (.str "") now
  keeps_id

theorem setProp_keeps (id prop : String) (v : J) (now : Int) : (setProp id prop v now).KeepsId := by
  unfold setProp; keeps_id

theorem remProp_keeps (id prop : String) (now : Int) : (remProp id prop now).KeepsId := by
  unfold remProp; keeps_id

theorem runGuard_keeps (c : Ctx) (now : Int) (g : Guard) : (runGuard c now g).KeepsId := by
  have h1 := fun p => getPropStringD_keeps p now
  cases g <;> simp only [runGuard, enabled, checkRead, checkWrite, atCapacity]
  · have := h1 "enabled"; keeps_id
  · have := h1 "readKey"; keeps_id
  · have := h1 "writeKey"; keeps_id
  · keeps_id

theorem runGuards_keeps (c : Ctx) (now : Int) (gs : List Guard) : (runGuards c now gs).KeepsId := by
  induction gs with
  | nil => unfold runGuards; keeps_id
  | cons g gs ih =>
    unfold runGuards
    have := runGuard_keeps c now g
    keeps_id

theorem locGetParentsRaw_keeps (now : Int) : (locGetParentsRaw now).KeepsId := by
  unfold locGetParentsRaw
  have := getProp_keeps "" "parents" (.arr []) now
  keeps_id

theorem locSearchFacts_keeps (c : Ctx) (p : Obj) (now : Int) : (locSearchFacts c p now).KeepsId := by
  unfold locSearchFacts
  have := runGuards_keeps c now (guardsOf "searchFacts")
  keeps_id

theorem locSearchRules_keeps (c : Ctx) (ev : Obj) (now : Int) : (locSearchRules c ev now).KeepsId := by
  unfold locSearchRules
  have := runGuards_keeps c now (guardsOf "searchRules")
  keeps_id

theorem locSetParents_keeps (c : Ctx) (ps : List String) (now : Int) : (locSetParents c ps now).KeepsId := by
  unfold locSetParents
  have := runGuards_keeps c now (guardsOf "SetParents")
  have := setProp_keeps "" "parents" (.arr (ps.map .str)) now
  keeps_id

theorem locGetParents_keeps (c : Ctx) (now : Int) : (locGetParents c now).KeepsId := by
  unfold locGetParents
  have := runGuards_keeps c now (guardsOf "GetParents")
  have := locGetParentsRaw_keeps now
  keeps_id

theorem locAddFact_keeps (c : Ctx) (id : String) (f : Obj) (now : Int) : (locAddFact c id f now).KeepsId := by
  unfold locAddFact
  have := runGuards_keeps c now (guardsOf "AddFact")
  keeps_id

theorem locRemFact_keeps (c : Ctx) (id : String) (now : Int) : (locRemFact c id now).KeepsId := by
  unfold locRemFact
  have := runGuards_keeps c now (guardsOf "RemFact")
  keeps_id

theorem locGetFact_keeps (c : Ctx) (id : String) (now : Int) : (locGetFact c id now).KeepsId := by
  unfold locGetFact
  have := runGuards_keeps c now (guardsOf "GetFact")
  keeps_id

theorem locAddRule_keeps (c : Ctx) (id : String) (r : Obj) (now : Int) : (locAddRule c id r now).KeepsId := by
  unfold locAddRule
  have := runGuards_keeps c now (guardsOf "AddRule")
  keeps_id

theorem locRemRule_keeps (c : Ctx) (id : String) (now : Int) : (locRemRule c id now).KeepsId := by
  unfold locRemRule
  have := runGuards_keeps c now (guardsOf "RemRule")
  have := getProp_keeps id "disabled" (.bool false) now
  have := remProp_keeps id "disabled" now
  keeps_id

theorem locEnableRule_keeps (c : Ctx) (id : String) (b : Bool) (now : Int) : (locEnableRule c id b now).KeepsId := by
  unfold locEnableRule
  have := runGuards_keeps c now (guardsOf "EnableRule")
  have := setProp_keeps id "disabled" (.bool true) now
  have := remProp_keeps id "disabled" now
  keeps_id

theorem locRuleEnabled_keeps (c : Ctx) (id : String) (now : Int) : (locRuleEnabled c id now).KeepsId := by
  unfold locRuleEnabled
  have := runGuards_keeps c now (guardsOf "RuleEnabled")
  have := getProp_keeps id "disabled" (.bool false) now
  keeps_id

theorem locGetRule_keeps (c : Ctx) (id : String) (now : Int) : (locGetRule c id now).KeepsId := by
  unfold locGetRule
  have := runGuards_keeps c now (guardsOf "GetRule")
  keeps_id

theorem locClear_keeps (c : Ctx) (now : Int) : (locClear c now).KeepsId := by
  unfold locClear
  have := runGuards_keeps c now (guardsOf "Clear")
  have h : LM.KeepsId (fun l : Loc => (({ l with st := l.st.clear } : Loc), (Except.ok () : Except LErr Unit))) :=
    fun l => ⟨rfl, rfl⟩
  exact LM.KeepsId.bind this (fun _ => h)

theorem locStateSize_keeps (c : Ctx) (now : Int) : (locStateSize c now).KeepsId := by
  unfold locStateSize
  have := runGuards_keeps c now (guardsOf "StateSize")
  keeps_id

import RulioProofs.LocExpiry
import RulioProofs.StateC08
import RulioModel.CloseFrag

/-! # C07 for the indexed state: what an expiry-triggered removal purges, without assuming that `irem` succeeds.

`IndexedState.rem` fails *before* touching memory only when the stored rule cannot leave the pattern index
(`unindexErr`, decidable on the fact alone); every later failure (cascade, budget) happens after the fact has been
erased from memory and storage. Hence: an expired fact is purged by the observing call iff `unindexErr id fact = false`. -/

set_option linter.unusedVariables false
set_option linter.unusedSimpArgs false

open LocP

/-- a stored fact whose rule can leave the pattern index is erased by `irem`, whatever happens afterwards -/
theorem irem_erases (f : Nat) {s : St} {id : String} {fact : Obj} (now : Int)
    (hg : amGet s.facts id = some fact) (hu : unindexErr id fact = false) :
    amGet (St.irem (f + 1) s id now).1.facts id = none ∧ amGet (St.irem (f + 1) s id now).1.store id = none := by
  obtain ⟨s1, hs1⟩ := unindexOf_ok_of (s := s) hu
  rw [St.irem_succ, hg]
  simp only [hs1]
  have hk := (indexed_keeps f).2.1 (s1.idel id fact) id now
  exact hk.both_none ⟨by simp only [St.idel]; exact amGet_amErase_self _ _,
    by simp only [St.idel]; exact amGet_amErase_self _ _⟩

/-- … and otherwise `irem` fails and leaves the state exactly as it was -/
theorem irem_blocked (f : Nat) {s : St} {id : String} {fact : Obj} (now : Int)
    (hg : amGet s.facts id = some fact) (hu : unindexErr id fact = true) :
    ∃ e, St.irem (f + 1) s id now = (s, .error e) := by
  rw [St.irem_succ, hg]
  simp only [unindexErr] at hu
  simp only [St.unindexOf]
  cases he : extractRule fact false with
  | error e => rw [he] at hu; cases hu
  | ok rf =>
    obtain ⟨rule, f'⟩ := rf
    rw [he] at hu
    cases rule with
    | none => cases hu
    | some r =>
      simp only at hu ⊢
      simp only [St.unindexRule, bind, Except.bind]
      cases hgp : getRulePattern r with
      | error e => exact ⟨e, rfl⟩
      | ok pat? =>
        rw [hgp] at hu
        cases pat? with
        | none => cases hu
        | some pat =>
          simp only at hu ⊢
          have hind : (piRem s.ri pat id).2 = (piRem PI.empty pat id).2 := by
            simp only [piRem]; exact PI.mod_err_indep _ _ _ _ _ _ _ _
          rcases hpr : piRem s.ri pat id with ⟨ri, e⟩
          rw [hpr] at hind
          simp only at hind
          cases e with
          | none => rw [← hind] at hu; cases hu
          | some e => exact ⟨perr e, rfl⟩

/-- a completed candidate loop has purged every expired candidate whose rule can leave the pattern index -/
theorem isearchLoop_purges (fuel : Nat) : ∀ (s : St) (p : Obj) (ids : List String) (now : Int)
    (acc : List (String × Obj × List Bs)) (s' : St) (out : List (String × Obj × List Bs)),
    St.isearchLoop fuel s p ids now acc = (s', .ok out) →
    ∀ id ∈ ids, ∀ f, amGet s.facts id = some f → checkExpiration f now = .ok true → unindexErr id f = false →
      amGet s'.facts id = none ∧ amGet s'.store id = none := by
  induction fuel with
  | zero => intro s p ids now acc s' out h; simp [St.isearchLoop] at h
  | succ fuel ih =>
    intro s p ids now acc s' out h id hid f hg hx hu
    cases ids with
    | nil => cases hid
    | cons i rest =>
      rw [St.isearchLoop_cons] at h
      cases hgi : amGet s.facts i with
      | none =>
        rw [hgi] at h
        simp only at h
        rcases List.mem_cons.1 hid with rfl | hr
        · rw [hgi] at hg; cases hg
        · exact ih s p rest now acc s' out h id hr f hg hx hu
      | some fact =>
        rw [hgi] at h
        simp only at h
        cases hc : checkExpiration fact now with
        | error e =>
          rw [hc] at h
          simp only at h
          have hne : id ≠ i := by
            rintro rfl; rw [hgi] at hg; cases hg; rw [hc] at hx; cases hx
          have hr : id ∈ rest := by
            rcases List.mem_cons.1 hid with h1 | h1
            · exact absurd h1 hne
            · exact h1
          split at h
          · cases h
          · exact ih s p rest now _ s' out h id hr f hg hx hu
        | ok b =>
          rw [hc] at h
          cases b with
          | false =>
            simp only at h
            have hne : id ≠ i := by
              rintro rfl; rw [hgi] at hg; cases hg; rw [hc] at hx; cases hx
            have hr : id ∈ rest := by
              rcases List.mem_cons.1 hid with h1 | h1
              · exact absurd h1 hne
              · exact h1
            split at h
            · cases h
            · exact ih s p rest now _ s' out h id hr f hg hx hu
          | true =>
            simp only at h
            -- the loop went on, so the removal had budget
            cases fuel with
            | zero => simp [St.isearchLoop] at h
            | succ g =>
              have hk1 : Keeps s (St.irem (g + 1) s i now).1 := (indexed_keeps (g + 1)).1 s i now
              have hk2 : Keeps (St.irem (g + 1) s i now).1 s' := by
                have := (indexed_keeps (g + 1)).2.2.2.2 (St.irem (g + 1) s i now).1 p rest now acc
                rw [h] at this; exact this
              cases hg1 : amGet (St.irem (g + 1) s i now).1.facts id with
              | none => exact hk2.both_none ⟨hg1, hk1.gone hg hg1⟩
              | some f1 =>
                have hf1 : f1 = f := by
                  have := hk1.facts_sub hg1; rw [hg] at this; cases this; rfl
                subst hf1
                rcases List.mem_cons.1 hid with rfl | hr
                · rw [hgi] at hg; cases hg
                  rw [(irem_erases g now hgi hu).1] at hg1; cases hg1
                · exact ih _ p rest now acc s' out h id hr f1 hg1 hx hu

/-- `TermIndex.Search` returns exactly the ids of its first term's list that are listed under every other term -/
theorem TI.mem_search {ti : TI} {terms ids : List String} (h : TI.search ti terms = .ok ids) (id : String) :
    id ∈ ids ↔ terms ≠ [] ∧ ∀ t ∈ terms, TI.has ti t id := by
  cases terms with
  | nil => simp [TI.search] at h
  | cons t ts =>
    rw [TI.search_cons] at h
    injection h with h
    subst h
    have key : ∀ (ts : List String) (l : List String),
        id ∈ ts.foldl (fun acc t' => acc.filter ((amGet ti t').getD []).contains) l ↔
          id ∈ l ∧ ∀ t' ∈ ts, id ∈ (amGet ti t').getD [] := by
      intro ts
      induction ts with
      | nil => intro l; simp
      | cons t' r ih =>
        intro l
        simp only [List.foldl_cons]
        rw [ih]
        simp only [List.mem_filter, List.contains_iff_mem, List.mem_cons, forall_eq_or_imp]
        constructor
        · rintro ⟨⟨a, b⟩, c⟩; exact ⟨a, b, c⟩
        · rintro ⟨a, b, c⟩; exact ⟨⟨a, b⟩, c⟩
    rw [key]
    have hhas : ∀ t', id ∈ (amGet ti t').getD [] ↔ TI.has ti t' id := by
      intro t'
      unfold TI.has
      cases amGet ti t' with
      | none => simp
      | some l => simp
    simp only [hhas, List.mem_cons, forall_eq_or_imp, ne_eq, reduceCtorEq, not_false_eq_true, true_and]

/-- a completed indexed `Search` has purged every expired candidate whose rule can leave the pattern index -/
theorem St.search_purges_indexed {s s' : St} {p : Obj} {now : Int} {out : List (String × Obj × List Bs)}
    (hk : s.kind = .indexed) (h : s.search p now = (s', .ok out)) {ids : List String} (hc : s.cands p = .ok ids)
    {id : String} (hid : id ∈ ids) {f : Obj} (hg : amGet s.facts id = some f)
    (hx : checkExpiration f now = .ok true) (hu : unindexErr id f = false) :
    amGet s'.facts id = none ∧ amGet s'.store id = none := by
  unfold St.search at h
  rw [hk] at h
  simp only [LocP.St.fuel_succ, St.isearch_succ, hc] at h
  exact isearchLoop_purges _ s p ids now [] s' out h id hid f hg hx hu

/-- in a state whose term index is complete (`TIOK`: every reachable indexed state), a stored fact that carries all the
terms of the pattern is a candidate; with no terms every stored fact is -/
theorem cands_of_terms {s : St} {p : Obj} (htiok : TIOK s) {id : String} {f : Obj} (hm : (id, f) ∈ s.facts)
    (hsub : ∀ t, t ∈ extractTerms p → t ∈ extractTerms f) : ∃ ids, s.cands p = .ok ids ∧ id ∈ ids := by
  simp only [St.cands]
  by_cases hemp : (extractTerms p).isEmpty = true
  · simp only [hemp, ↓reduceIte]
    exact ⟨_, rfl, List.mem_map.2 ⟨(id, f), hm, rfl⟩⟩
  · simp only [hemp, Bool.false_eq_true, ↓reduceIte]
    apply TI.search_complete
    · intro h; rw [h] at hemp; simp at hemp
    · intro t ht
      exact htiok id f hm t (hsub t ht)

theorem iFindRules_go_results (now : Int) (fuel : Nat) : ∀ (s : St) (ids : List String) (acc : List (String × Obj))
    (s' : St) (out : List (String × Obj)), St.iFindRules.go now fuel s ids acc = (s', .ok out) →
    ∀ r ∈ out, r ∈ acc ∨ ∃ f f', amGet s.facts r.1 = some f ∧ checkExpiration f now ≠ .ok true ∧
      extractRule f true = .ok (some r.2, f') := by
  induction fuel with
  | zero => intro s ids acc s' out h; simp [St.iFindRules.go] at h
  | succ fuel ih =>
    intro s ids acc s' out h r hr
    cases ids with
    | nil => rw [St.iFindRules.go] at h; cases h; exact Or.inl hr
    | cons id rest =>
      rw [St.iFindRules.go] at h
      dsimp only at h
      have keep : checkExpiration ((amGet s.facts id).getD []) now ≠ .ok true →
          (match amGet s.facts id with
            | none => (s, (Except.error "lostRule" : Except LErr (List (String × Obj))))
            | some f =>
              match extractRule f true with
              | Except.error e => (s, Except.error e)
              | Except.ok (some body, snd) => St.iFindRules.go now fuel s rest (acc ++ [(id, body)])
              | Except.ok (none, snd) => (s, Except.error "ruleBodyMissing")) = (s', .ok out) →
          r ∈ acc ∨ ∃ f f', amGet s.facts r.1 = some f ∧ checkExpiration f now ≠ .ok true ∧
            extractRule f true = .ok (some r.2, f') := by
        intro hne h'
        split at h'
        · cases h'
        · rename_i f hgf
          rw [hgf] at hne
          simp only [Option.getD_some] at hne
          split at h'
          · cases h'
          · rename_i body f' hex
            rcases ih s rest _ s' out h' r hr with h1 | h1
            · rcases List.mem_append.1 h1 with h2 | h2
              · exact Or.inl h2
              · simp at h2; subst h2; exact Or.inr ⟨f, f', hgf, hne, hex⟩
            · exact Or.inr h1
          · cases h'
      cases hc : checkExpiration ((amGet s.facts id).getD []) now with
      | error e =>
        rw [hc] at h
        simp only [Bool.false_eq_true, if_false] at h
        exact keep (by rw [hc]; simp) h
      | ok b =>
        rw [hc] at h
        cases b with
        | false =>
          simp only [Bool.false_eq_true, if_false] at h
          exact keep (by rw [hc]; simp) h
        | true =>
          simp only [if_true] at h
          have hk : Keeps s (St.irem s.fuel s id now).1 := (indexed_keeps s.fuel).1 s id now
          rcases ih _ rest acc s' out h r hr with h1 | ⟨f, f', h1, h2, h3⟩
          · exact Or.inl h1
          · exact Or.inr ⟨f, f', hk.facts_sub h1, h2, h3⟩

theorem lFindRules_go_results (event : Obj) (now : Int) (fuel : Nat) : ∀ (s : St) (ids : List String)
    (acc : List (String × Obj)) (s' : St) (out : List (String × Obj)),
    St.lFindRules.go event now fuel s ids acc = (s', .ok out) →
    ∀ r ∈ out, r ∈ acc ∨ ∃ f, amGet s.facts r.1 = some f ∧ checkExpiration f now = .ok false ∧
      f.get? "rule" = some (.obj r.2) := by
  induction fuel with
  | zero => intro s ids acc s' out h; simp [St.lFindRules.go] at h
  | succ fuel ih =>
    intro s ids acc s' out h r hr
    cases ids with
    | nil => rw [St.lFindRules.go] at h; cases h; exact Or.inl hr
    | cons id rest =>
      rw [St.lFindRules.go] at h
      split at h
      · exact ih s rest acc s' out h r hr
      · rename_i fact hgf
        split at h
        · exact ih s rest acc s' out h r hr
        · rename_i rule hrule
          split at h
          · cases h
          · split at h
            · cases h
            · rename_i s1 u heq
              have hk : Keeps s s1 := by
                have := (linear_keeps s.fuel).1 s id now; rw [heq] at this; exact this
              rcases ih s1 rest acc s' out h r hr with h1 | ⟨f, h1, h2, h3⟩
              · exact Or.inl h1
              · exact Or.inr ⟨f, hk.facts_sub h1, h2, h3⟩
          · rename_i hc
            split at h
            · rename_i rr
              split at h
              · dsimp only at h
                split at h
                · cases h
                · rename_i bss hm
                  rcases ih s rest _ s' out h r hr with h1 | h1
                  · by_cases hb : bss.isEmpty = true
                    · rw [if_pos hb] at h1; exact Or.inl h1
                    · rw [if_neg hb] at h1
                      rcases List.mem_append.1 h1 with h2 | h2
                      · exact Or.inl h2
                      · simp at h2; subst h2; exact Or.inr ⟨fact, hgf, hc, hrule⟩
                  · exact Or.inr h1
              · exact ih s rest acc s' out h r hr
            · cases h

/-- `FindRules` (both implementations) returns only rules of stored facts that are not expired at `now` -/
theorem St.findRules_results {s s' : St} {ev : Obj} {now : Int} {out : List (String × Obj)}
    (h : s.findRules ev now = (s', .ok out)) :
    ∀ r ∈ out, ∃ f, amGet s.facts r.1 = some f ∧ checkExpiration f now ≠ .ok true ∧
      ((∃ f', extractRule f true = .ok (some r.2, f')) ∨ f.get? "rule" = some (.obj r.2)) := by
  intro r hr
  unfold St.findRules at h
  cases hk : s.kind
  · rw [hk] at h
    simp only [St.iFindRules] at h
    split at h
    · cases h
    · rcases iFindRules_go_results now _ s _ [] s' out h r hr with h1 | ⟨f, f', h1, h2, h3⟩
      · cases h1
      · exact ⟨f, h1, h2, Or.inl ⟨f', h3⟩⟩
  · rw [hk] at h
    simp only [St.lFindRules] at h
    rcases lFindRules_go_results ev now _ s _ [] s' out h r hr with h1 | ⟨f, h1, h2, h3⟩
    · cases h1
    · exact ⟨f, h1, by rw [h2]; simp, Or.inr h3⟩

theorem iFindRules_go_purges (now : Int) (fuel : Nat) : ∀ (s : St) (ids : List String) (acc : List (String × Obj))
    (s' : St) (out : List (String × Obj)), St.iFindRules.go now fuel s ids acc = (s', .ok out) →
    ∀ id ∈ ids, ∀ f, amGet s.facts id = some f → checkExpiration f now = .ok true → unindexErr id f = false →
      amGet s'.facts id = none ∧ amGet s'.store id = none := by
  induction fuel with
  | zero => intro s ids acc s' out h; simp [St.iFindRules.go] at h
  | succ fuel ih =>
    intro s ids acc s' out h id hid f hg hx hu
    cases ids with
    | nil => cases hid
    | cons i rest =>
      rw [St.iFindRules.go] at h
      dsimp only at h
      have keep : checkExpiration ((amGet s.facts i).getD []) now ≠ .ok true →
          (match amGet s.facts i with
            | none => (s, (Except.error "lostRule" : Except LErr (List (String × Obj))))
            | some f =>
              match extractRule f true with
              | Except.error e => (s, Except.error e)
              | Except.ok (some body, snd) => St.iFindRules.go now fuel s rest (acc ++ [(i, body)])
              | Except.ok (none, snd) => (s, Except.error "ruleBodyMissing")) = (s', .ok out) →
          amGet s'.facts id = none ∧ amGet s'.store id = none := by
        intro hne h'
        have hni : id ≠ i := by
          rintro rfl; rw [hg] at hne; simp only [Option.getD_some] at hne; exact hne hx
        have hr : id ∈ rest := by
          rcases List.mem_cons.1 hid with h1 | h1
          · exact absurd h1 hni
          · exact h1
        split at h'
        · cases h'
        · split at h'
          · cases h'
          · exact ih s rest _ s' out h' id hr f hg hx hu
          · cases h'
      cases hc : checkExpiration ((amGet s.facts i).getD []) now with
      | error e =>
        rw [hc] at h
        simp only [Bool.false_eq_true, if_false] at h
        exact keep (by rw [hc]; simp) h
      | ok b =>
        rw [hc] at h
        cases b with
        | false =>
          simp only [Bool.false_eq_true, if_false] at h
          exact keep (by rw [hc]; simp) h
        | true =>
          simp only [if_true] at h
          have hk1 : Keeps s (St.irem s.fuel s i now).1 := (indexed_keeps s.fuel).1 s i now
          have hk2 : Keeps (St.irem s.fuel s i now).1 s' := by
            have := iFindRules_go_keeps fuel (St.irem s.fuel s i now).1 (St.irem s.fuel s i now).1 [] now rest acc
              (Keeps.refl _)
            rw [h] at this; exact this
          cases hg1 : amGet (St.irem s.fuel s i now).1.facts id with
          | none => exact hk2.both_none ⟨hg1, hk1.gone hg hg1⟩
          | some f1 =>
            have hf1 : f1 = f := by
              have := hk1.facts_sub hg1; rw [hg] at this; cases this; rfl
            subst hf1
            rcases List.mem_cons.1 hid with rfl | hr
            · have he := (irem_erases (6 * s.facts.length + 11 + tiWidth s.ti) now hg hu).1
              rw [← LocP.St.fuel_succ] at he
              rw [he] at hg1; cases hg1
            · exact ih _ rest acc s' out h id hr f1 hg1 hx hu

/-- a completed indexed `FindRules` has purged every expired candidate whose rule can leave the pattern index -/
theorem St.findRules_purges_indexed {s s' : St} {ev : Obj} {now : Int} {out : List (String × Obj)}
    (hk : s.kind = .indexed) (h : s.findRules ev now = (s', .ok out)) {ids : List String}
    (hc : piSearch s.ri ev = .ok ids) {id : String} (hid : id ∈ ids) {f : Obj} (hg : amGet s.facts id = some f)
    (hx : checkExpiration f now = .ok true) (hu : unindexErr id f = false) :
    amGet s'.facts id = none ∧ amGet s'.store id = none := by
  unfold St.findRules at h
  rw [hk] at h
  simp only [St.iFindRules, hc] at h
  exact iFindRules_go_purges now _ s ids [] s' out h id hid f hg hx hu

/-- indexed `Get` of an expired fact: purged iff its rule can leave the pattern index -/
theorem St.get_expired_indexed {s : St} (hk : s.kind = .indexed) {id : String} {f : Obj} {now : Int}
    (hg : amGet s.facts id = some f) (hx : checkExpiration f now = .ok true) :
    (unindexErr id f = false →
      amGet (s.get id now).1.facts id = none ∧ amGet (s.get id now).1.store id = none) ∧
    (unindexErr id f = true → ∃ e, s.get id now = (s, .error e)) := by
  unfold St.get
  rw [hk]
  simp only [St.iGet, hg, hx]
  constructor
  · intro hu
    have he := irem_erases (6 * s.facts.length + 11 + tiWidth s.ti) now hg hu
    rw [← LocP.St.fuel_succ] at he
    cases hr : St.irem s.fuel s id now with
    | mk s1 r =>
      rw [hr] at he
      cases r <;> exact he
  · intro hu
    obtain ⟨e, he⟩ := irem_blocked (6 * s.facts.length + 11 + tiWidth s.ti) now hg hu
    rw [← LocP.St.fuel_succ] at he
    exact ⟨e, by rw [he]⟩

/-- the model's budget `St.fuel` is the corrected budget `St.fuelOK` -/
theorem St.fuel_eq_fuelOK (s : St) : s.fuel = s.fuelOK := rfl

theorem St.rem_eq_remOK (s : St) (id : String) (now : Int) : s.rem id now = s.remOK id now := by
  unfold St.rem St.remOK; cases s.kind <;> rfl

theorem St.get_eq_getOK (s : St) (id : String) (now : Int) : s.get id now = s.getOK id now := by
  unfold St.get St.getOK St.iGet St.lGet St.remOK
  cases hk : s.kind <;> rfl

theorem purgeCand_of_check {s : St} {p : Obj} {id : String} {now : Int} (h : purgeCandB s p id now = true) :
    ∃ f, amGet s.facts id = some f ∧ checkExpiration f now = .ok true ∧ unindexErr id f = false ∧
      ∀ term, term ∈ extractTerms p → term ∈ extractTerms f := by
  simp only [purgeCandB] at h
  split at h
  · rename_i f hf
    simp only [Bool.and_eq_true, Bool.not_eq_true', List.all_eq_true, List.contains_iff_mem] at h
    obtain ⟨⟨h1, h2⟩, h3⟩ := h
    refine ⟨f, hf, ?_, h2, fun t ht => h3 t ht⟩
    split at h1
    · assumption
    · cases h1
  · cases h

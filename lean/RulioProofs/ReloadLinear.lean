import RulioProofs.ReloadStore

open AM

set_option linter.unusedSimpArgs false
set_option linter.unusedVariables false

/-! # Reload of the linear state: `lLoad` unwraps the stored documents -/

def unObj : J → Obj
  | .obj o => o
  | _ => []

theorem StoreOK.all_obj {s : St} (ok : StoreOK s) : ∀ p ∈ s.store, ∃ o, p.2 = .obj o ∧ amGet s.facts p.1 = some o := by
  intro p hp
  obtain ⟨k, d⟩ := p
  have hg : amGet s.store k = some d := amGet_of_mem_nodup ok.storeNodup hp
  have hm := ok.mirror k
  rw [hg] at hm
  cases hf : amGet s.facts k with
  | none => rw [hf] at hm; cases hm
  | some o => rw [hf] at hm; simp at hm; exact ⟨o, hm, rfl⟩

theorem lLoad_go_eq (docs : List (String × J)) (hall : ∀ p ∈ docs, ∃ o, p.2 = .obj o) :
    ∀ acc, St.lLoad.go docs acc = .ok (acc ++ docs.map (fun p => (p.1, unObj p.2))) := by
  induction docs with
  | nil => intro acc; simp [St.lLoad.go]
  | cons p rest ih =>
    intro acc
    obtain ⟨k, d⟩ := p
    obtain ⟨o, ho⟩ := hall (k, d) (by simp)
    simp only at ho; subst ho
    rw [St.lLoad.go]
    rw [ih (fun q hq => hall q (by simp [hq]))]
    simp [unObj]

theorem amGet_map_val {α β} (m : List (String × α)) (f : α → β) (k : String) :
    amGet (m.map (fun p => (p.1, f p.2))) k = (amGet m k).map f := by
  induction m with
  | nil => simp [amGet]
  | cons p r ih =>
    obtain ⟨k0, v0⟩ := p
    by_cases h : k = k0
    · subst h; simp [amGet]
    · simp [amGet, h]; simpa using ih

/-- the linear `Load` succeeds on a mirrored store and gives back the same facts (as a finite map),
the same storage and, in fact, a key-unique fact list again -/
theorem lLoad_spec {s : St} (ok : StoreOK s) :
    ∃ t, St.lLoad s.store = .ok t ∧ t.kind = .linear ∧ t.store = s.store ∧
      (∀ id, amGet t.facts id = amGet s.facts id) ∧ StoreOK t := by
  have hall : ∀ p ∈ s.store, ∃ o, p.2 = .obj o := fun p hp => (ok.all_obj p hp).imp (fun _ h => h.1)
  have hgo := lLoad_go_eq s.store hall []
  have hfacts : ∀ id, amGet (s.store.map (fun p => (p.1, unObj p.2))) id = amGet s.facts id := by
    intro id
    rw [amGet_map_val, ok.mirror id]
    cases amGet s.facts id <;> simp [unObj]
  refine ⟨{ kind := .linear, store := s.store, facts := s.store.map (fun p => (p.1, unObj p.2)) }, ?_, rfl, rfl, hfacts, ?_⟩
  · unfold St.lLoad; rw [hgo]; simp
  · refine ⟨?_, ?_, ok.storeNodup⟩
    · intro id
      show amGet s.store id = (amGet (s.store.map (fun p => (p.1, unObj p.2))) id).map J.obj
      rw [hfacts id]; exact ok.mirror id
    · show ((s.store.map (fun p => (p.1, unObj p.2))).map (·.1)).Nodup
      rw [List.map_map]; exact ok.storeNodup

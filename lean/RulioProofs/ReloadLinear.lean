import RulioProofs.ReloadStore

open AM

set_option linter.unusedSimpArgs false
set_option linter.unusedVariables false

/-! # Reload of the linear state: `lLoad` unwraps the stored documents -/

def unObj : J → Obj
  | .obj o => o
  | _ => []

theorem StoreOK.all_obj {s : St} (ok : StoreOK s) : ∀ p ∈ s.store, ∃ o, p.2 = .obj o ∧ amGet s.facts p.1 = some o := by
  intro p hp
  obtain ⟨k, d⟩ := p
  have hg : amGet s.store k = some d := amGet_of_mem_nodup ok.storeNodup hp
  have hm := ok.mirror k
  rw [hg] at hm
  cases hf : amGet s.facts k with
  | none => rw [hf] at hm; cases hm
  | some o => rw [hf] at hm; simp at hm; exact ⟨o, hm, rfl⟩

theorem lLoad_go_eq (docs : List (String × J)) (hall : ∀ p ∈ docs, ∃ o, p.2 = .obj o) :
    ∀ acc, St.lLoad.go docs acc = .ok (acc ++ docs.map (fun p => (p.1, unObj p.2))) := by
  induction docs with
  | nil => intro acc; simp [St.lLoad.go]
  | cons p rest ih =>
    intro acc
    obtain ⟨k, d⟩ := p
    obtain ⟨o, ho⟩ := hall (k, d) (by simp)
    simp only at ho; subst ho
    rw [St.lLoad.go]
    rw [ih (fun q hq => hall q (by simp [hq]))]
    simp [unObj]

theorem amGet_map_val {α β} (m : List (String × α)) (f : α → β) (k : String) :
    amGet (m.map (fun p => (p.1, f p.2))) k = (amGet m k).map f := by
  induction m with
  | nil => simp [amGet]
  | cons p r ih =>
    obtain ⟨k0, v0⟩ := p
    by_cases h : k = k0
    · subst h; simp [amGet]
    · simp [amGet, h]; simpa using ih

/-- the linear `Load` succeeds on a mirrored store and gives back the same facts (as a finite map),
the same storage and, in fact, a key-unique fact list again -/
theorem lLoad_spec {s : St} (ok : StoreOK s) :
    ∃ t, St.lLoad s.store = .ok t ∧ t.kind = .linear ∧ t.store = s.store ∧
      (∀ id, amGet t.facts id = amGet s.facts id) ∧ StoreOK t := by
  have hall : ∀ p ∈ s.store, ∃ o, p.2 = .obj o := fun p hp => (ok.all_obj p hp).imp (fun _ h => h.1)
  have hgo := lLoad_go_eq s.store hall []
  have hfacts : ∀ id, amGet (s.store.map (fun p => (p.1, unObj p.2))) id = amGet s.facts id := by
    intro id
    rw [amGet_map_val, ok.mirror id]
    cases amGet s.facts id <;> simp [unObj]
  refine ⟨{ kind := .linear, store := s.store, facts := s.store.map (fun p => (p.1, unObj p.2)) }, ?_, rfl, rfl, hfacts, ?_⟩
  · unfold St.lLoad; rw [hgo]; simp
  · refine ⟨?_, ?_, ok.storeNodup⟩
    · intro id
      show amGet s.store id = (amGet (s.store.map (fun p => (p.1, unObj p.2))) id).map J.obj
      rw [hfacts id]; exact ok.mirror id
    · show ((s.store.map (fun p => (p.1, unObj p.2))).map (·.1)).Nodup
      rw [List.map_map]; exact ok.storeNodup

/-! ## list-level mirror, and reload of a linear state is the identity -/

theorem amErase_map_obj (m : List (String × Obj)) (k : String) :
    amErase (m.map (fun p => (p.1, J.obj p.2))) k = (amErase m k).map (fun p => (p.1, J.obj p.2)) := by
  unfold amErase
  rw [List.filter_map]
  rfl

theorem amSet_map_obj (m : List (String × Obj)) (k : String) (v : Obj) :
    amSet (m.map (fun p => (p.1, J.obj p.2))) k (.obj v) = (amSet m k v).map (fun p => (p.1, J.obj p.2)) := by
  unfold amSet
  have hany : ((m.map (fun p => (p.1, J.obj p.2))).any (fun p => p.1 == k)) = m.any (fun p => p.1 == k) := by
    rw [List.any_map]; rfl
  rw [hany]
  cases m.any (fun p => p.1 == k)
  · simp
  · simp only [if_true, List.map_map]
    apply List.map_congr_left
    intro p _
    by_cases h : p.1 = k <;> simp [h]

theorem storeEq_stRel : StRel (fun s s' => StoreEq s → StoreEq s') where
  refl := fun _ h => h
  trans := fun h1 h2 h => h2 (h1 h)
  idx := fun _ _ _ h => h
  erase := fun s id h => by
    unfold StoreEq at h ⊢
    simp only [h, amErase_map_obj]

theorem linIdx_stRelL : StRelL (fun s s' => LinIdx s → LinIdx s') where
  refl := fun _ h => h
  trans := fun h1 h2 h => h2 (h1 h)
  erase := fun _ _ h => h

theorem St.add_storeEq {s : St} (h : StoreEq s) (given : String) (x : Obj) (now : Int) :
    StoreEq (s.add given x now).1 := by
  cases hh : s.add given x now with
  | mk s1 r =>
    have sp := St.add_spec hh
    cases r with
    | error e => unfold StoreEq at h ⊢; rw [sp.1, sp.2.1]; exact h
    | ok id =>
      obtain ⟨m, x', _, hf, hs, _⟩ := sp
      unfold StoreEq at h ⊢
      simp only [hf, hs, h, amSet_map_obj]

theorem St.lAdd_linIdx {s : St} (h : LinIdx s) (given : String) (x : Obj) (now : Int) :
    LinIdx (s.lAdd given x now).1 := by
  unfold St.lAdd
  cases prepareFact given s.freshId x now with
  | error e => exact h
  | ok p =>
    obtain ⟨id, m, x'⟩ := p
    simp only []
    split <;> exact h

theorem St.stepOp_storeEq {s : St} (h : StoreEq s) (op : ROp) : StoreEq (s.stepOp op).1 := by
  cases op with
  | add g x now => exact St.add_storeEq h g x now
  | rem id now =>
    show StoreEq (s.rem id now).1
    unfold St.rem
    cases s.kind
    · exact irem_rel storeEq_stRel _ _ _ _ h
    · exact lrem_rel storeEq_stRel.toStRelL _ _ _ _ h
  | get id now =>
    show StoreEq (s.get id now).1
    unfold St.get
    cases s.kind
    · exact iGet_rel storeEq_stRel _ _ _ h
    · exact lGet_rel storeEq_stRel.toStRelL _ _ _ h
  | search p now =>
    show StoreEq (s.search p now).1
    unfold St.search
    cases s.kind
    · exact isearch_rel storeEq_stRel _ _ _ _ h
    · exact lsearch_rel storeEq_stRel.toStRelL _ _ _ _ h
  | findRules ev now =>
    show StoreEq (s.findRules ev now).1
    unfold St.findRules
    cases s.kind
    · exact iFindRules_rel storeEq_stRel _ _ _ h
    · exact lFindRules_rel storeEq_stRel.toStRelL _ _ _ h
  | clear => rfl

theorem St.stepOp_linIdx {s : St} (h : LinIdx s) (op : ROp) : LinIdx (s.stepOp op).1 := by
  have hk := h.1
  cases op with
  | add g x now =>
    show LinIdx (s.add g x now).1
    unfold St.add; rw [hk]; exact St.lAdd_linIdx h g x now
  | rem id now =>
    show LinIdx (s.rem id now).1
    unfold St.rem; rw [hk]; exact lrem_rel linIdx_stRelL _ _ _ _ h
  | get id now =>
    show LinIdx (s.get id now).1
    unfold St.get; rw [hk]; exact lGet_rel linIdx_stRelL _ _ _ h
  | search p now =>
    show LinIdx (s.search p now).1
    unfold St.search; rw [hk]; exact lsearch_rel linIdx_stRelL _ _ _ _ h
  | findRules ev now =>
    show LinIdx (s.findRules ev now).1
    unfold St.findRules; rw [hk]; exact lFindRules_rel linIdx_stRelL _ _ _ h
  | clear => exact ⟨hk, rfl, rfl⟩

theorem St.runOps_storeEq (ops : List ROp) : ∀ {s : St}, StoreEq s → StoreEq (s.runOps ops) := by
  induction ops with
  | nil => intro s h; exact h
  | cons op rest ih => intro s h; exact ih (St.stepOp_storeEq h op)

theorem St.runOps_linIdx (ops : List ROp) : ∀ {s : St}, LinIdx s → LinIdx (s.runOps ops) := by
  induction ops with
  | nil => intro s h; exact h
  | cons op rest ih => intro s h; exact ih (St.stepOp_linIdx h op)

/-- reload of a linear state whose storage is the list image of its facts is the identity -/
theorem reload_linear_id {s : St} (he : StoreEq s) (hl : LinIdx s) (now : Int) : s.reload now = .ok s := by
  obtain ⟨hk, hri, hti⟩ := hl
  have hall : ∀ p ∈ s.store, ∃ o, p.2 = .obj o := by
    intro p hp
    rw [he] at hp
    obtain ⟨q, _, rfl⟩ := List.mem_map.1 hp
    exact ⟨q.2, rfl⟩
  have hgo := lLoad_go_eq s.store hall []
  have hfacts : s.store.map (fun p => (p.1, unObj p.2)) = s.facts := by
    rw [he, List.map_map]
    conv => rhs; rw [← List.map_id s.facts]
    apply List.map_congr_left
    intro p _; rfl
  unfold St.reload
  rw [hk]
  simp only [St.lLoad, hgo, List.nil_append, hfacts, Except.map]
  congr 1
  cases s
  simp only at hk hri hti
  subst hk hri hti
  rfl

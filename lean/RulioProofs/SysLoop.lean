import RulioProofs.SysParents

open AM

set_option linter.unusedSimpArgs false
set_option linter.unusedVariables false

/-! # Loops are reported; `SetParents` takes effect at once (system level) -/

theorem amSet_same {α} (m : List (String × α)) (hn : (amKeys m).Nodup) {k : String} {v : α}
    (hg : amGet m k = some v) : amSet m k v = m := by
  unfold amSet
  have hany : (m.any (fun p => p.1 == k)) = true := by
    have := amHas_eq m k; unfold amHas at this; rw [this, hg]; rfl
  rw [hany]; simp only [if_true]
  have : ∀ p ∈ m, (if p.1 == k then (k, v) else p) = p := by
    intro p hp
    by_cases hk : p.1 = k
    · have hp' : (k, p.2) ∈ m := by rw [← hk]; exact hp
      have := amGet_of_mem_nodup hn hp'
      rw [hg] at this; cases this
      simp [hk]; rw [← hk]
    · simp [hk]
  conv => rhs; rw [← List.map_id m]
  exact List.map_congr_left this

theorem Sys.put_same {sys : Sys} (wf : SysWF sys) {n : String} {l : Loc} (hg : sys.get? n = some l) :
    sys.put l = sys := by
  unfold Sys.put
  have : l.name = n := wf.name_of_get? hg
  rw [this]
  exact amSet_same sys wf.nodup hg

/-- one level of the walk when the parent read at `n` is known -/
theorem doAncestors_succ_read {α} {sys : Sys} (wf : SysWF sys) {n : String} {now : Int} {l l1 : Loc}
    {ps : List String} (hg : sys.get? n = some l) (hr : locGetParentsRaw now l = (l1, .ok ps))
    {path : List String} (hp : path.contains n = false) (fuel : Nat) (fn : String → LM α) (acc : List α) :
    doAncestors (fuel + 1) sys n now fn acc path =
      if !ps.isEmpty && !l.hasProvider then (sys.put l1, .error "noProvider") else
      match walkList (fun s p a => doAncestors fuel s p now fn a (n :: path)) n (sys.put l1) ps acc with
      | (sys2, .error e) => (sys2, .error e)
      | (sys2, .ok acc2) =>
        match sys2.at n (fn n) with
        | (sys3, .error e) => (sys3, .error e)
        | (sys3, .ok a) => (sys3, .ok (acc2 ++ [a])) := by
  rw [doAncestors_succ]
  simp only [hp, Bool.false_eq_true, if_false]
  rw [Sys.at_some _ hg, hr]
  simp only []
  have hid := locGetParentsRaw_keeps now l
  rw [hr] at hid
  simp only at hid
  have hname : l1.name = n := by rw [hid.1]; exact wf.name_of_get? hg
  have : noProv (sys.put l1) n ps = (!ps.isEmpty && !l.hasProvider) := by
    unfold noProv
    rw [Sys.get?_put]; simp [hname, hid.2]
  rw [this]
  rfl

theorem firstParentIs_iff {sys : Sys} {now : Int} {n p : String} :
    firstParentIs sys now n p = true ↔
      ∃ l l1 qs, sys.get? n = some l ∧ l.hasProvider = true ∧ locGetParentsRaw now l = (l1, .ok (p :: qs)) := by
  unfold firstParentIs
  cases hg : sys.get? n with
  | none => simp
  | some l =>
    simp only [Bool.and_eq_true]
    constructor
    · rintro ⟨h1, h2⟩
      cases hr : locGetParentsRaw now l with
      | mk l1 r =>
        rw [hr] at h2
        cases r with
        | error e => simp at h2
        | ok ps =>
          cases ps with
          | nil => simp at h2
          | cons q qs =>
            simp only [beq_iff_eq] at h2
            subst h2
            exact ⟨l, l1, qs, rfl, h1, hr⟩
    · rintro ⟨l', l1', qs', h1, h2, h3⟩
      cases h1
      rw [h3]
      exact ⟨h2, by simp⟩

theorem firstParentIs_congr {sys sys' : Sys} {now : Int} {n p : String} (h : sys'.get? n = sys.get? n) :
    firstParentIs sys' now n p = firstParentIs sys now n p := by
  unfold firstParentIs; rw [h]

theorem chainFP_congr {sys sys' : Sys} {now : Int} (mid : List String) : ∀ (n last : String),
    (∀ x ∈ n :: mid, sys'.get? x = sys.get? x) → chainFP sys' now n mid last = chainFP sys now n mid last := by
  induction mid with
  | nil => intro n last h; exact firstParentIs_congr (h n (by simp))
  | cons m mid ih =>
    intro n last h
    unfold chainFP
    rw [firstParentIs_congr (h n (by simp)), ih m last (fun x hx => h x (by simp [hx]))]

theorem chainFP_head_known {sys : Sys} {now : Int} {n : String} {mid : List String} {last : String}
    (h : chainFP sys now n mid last = true) : n ∈ sys.keys := by
  cases mid with
  | nil =>
    obtain ⟨l, _, _, hg, _⟩ := firstParentIs_iff.1 h
    exact Sys.mem_keys_of_get? hg
  | cons m mid =>
    unfold chainFP at h
    simp only [Bool.and_eq_true] at h
    obtain ⟨l, _, _, hg, _⟩ := firstParentIs_iff.1 h.1
    exact Sys.mem_keys_of_get? hg

/-- **loop_reported**: follow first declared parents from `n`; as soon as the chain comes back to a name
on the current path (or to `n`, or to an earlier member of the chain), the walk answers `loop` -/
theorem doAncestors_loop {α} {now : Int} (fn : String → LM α) (mid : List String) :
    ∀ (sys : Sys) (n last : String) (path : List String) (fuel : Nat) (acc : List α),
      SysWF sys → chainFP sys now n mid last = true → (n :: mid).Nodup → (∀ x ∈ n :: mid, x ∉ path) →
      (last ∈ n :: mid ∨ last ∈ path) → (∀ p ∈ path, p ∈ sys.keys) → mid.length + 2 ≤ fuel →
      (doAncestors fuel sys n now fn acc path).2 = .error "loop" := by
  induction mid with
  | nil =>
    intro sys n last path fuel acc wf hc hnd hnp hlast hpk hf
    obtain ⟨f, rfl⟩ : ∃ f, fuel = f + 1 + 1 := ⟨fuel - 2, by simp at hf; omega⟩
    obtain ⟨l, l1, qs, hg, hprov, hr⟩ := firstParentIs_iff.1 hc
    have hpn : path.contains n = false := by
      have := hnp n (by simp); simpa using this
    rw [doAncestors_succ_read wf hg hr hpn]
    simp only [hprov, Bool.not_true, Bool.and_false, Bool.false_eq_true, if_false]
    rw [walkList]
    by_cases hln : (last == n) = true
    · simp only [hln, if_true]
    · simp only [hln, Bool.false_eq_true, if_false]
      have hlp : last ∈ path := by
        rcases hlast with h | h
        · simp at h; simp at hln; exact absurd h hln
        · exact h
      have hid := locGetParentsRaw_keeps now l
      rw [hr] at hid
      have hname : l1.name = n := by rw [hid.1]; exact wf.name_of_get? hg
      have hk : (sys.put l1).keys = sys.keys :=
        Sys.keys_put_of_mem sys l1 (by rw [hname]; exact Sys.mem_keys_of_get? hg)
      have hlk : last ∈ (sys.put l1).keys := by rw [hk]; exact hpk last hlp
      obtain ⟨ll, hll⟩ := Option.isSome_iff_exists.1 ((Sys.get?_isSome_iff _ _).2 hlk)
      rw [hll]
      simp only []
      rw [doAncestors_succ]
      have : (n :: path).contains last = true := by simp [hlp]
      simp only [this, if_true]
  | cons m mid ih =>
    intro sys n last path fuel acc wf hc hnd hnp hlast hpk hf
    obtain ⟨f, rfl⟩ : ∃ f, fuel = f + 1 := ⟨fuel - 1, by simp at hf; omega⟩
    unfold chainFP at hc
    simp only [Bool.and_eq_true] at hc
    obtain ⟨l, l1, qs, hg, hprov, hr⟩ := firstParentIs_iff.1 hc.1
    have hpn : path.contains n = false := by
      have := hnp n (by simp); simpa using this
    rw [doAncestors_succ_read wf hg hr hpn]
    simp only [hprov, Bool.not_true, Bool.and_false, Bool.false_eq_true, if_false]
    rw [walkList]
    have hnd' := List.nodup_cons.1 hnd
    have hmn : m ≠ n := by
      intro h; apply hnd'.1; rw [← h]; simp
    have hmn' : (m == n) = false := by simp [hmn]
    simp only [hmn', Bool.false_eq_true, if_false]
    have hid := locGetParentsRaw_keeps now l
    rw [hr] at hid
    have hname : l1.name = n := by rw [hid.1]; exact wf.name_of_get? hg
    have hframe : ∀ x, x ≠ n → (sys.put l1).get? x = sys.get? x := by
      intro x hx; rw [Sys.get?_put]; simp [hname, hx]
    have hk : (sys.put l1).keys = sys.keys :=
      Sys.keys_put_of_mem sys l1 (by rw [hname]; exact Sys.mem_keys_of_get? hg)
    have hc' : chainFP (sys.put l1) now m mid last = true := by
      rw [chainFP_congr mid m last]; exact hc.2
      intro x hx; apply hframe
      intro h; apply hnd'.1; rw [← h]; exact hx
    have hmk : m ∈ (sys.put l1).keys := chainFP_head_known hc'
    obtain ⟨lm, hlm⟩ := Option.isSome_iff_exists.1 ((Sys.get?_isSome_iff _ _).2 hmk)
    rw [hlm]
    simp only []
    have := ih (sys.put l1) m last (n :: path) f acc (wf.put l1) hc' hnd'.2
      (by
        intro x hx hxp
        rcases List.mem_cons.1 hxp with h | h
        · apply hnd'.1; rw [← h]; exact hx
        · exact hnp x (by simp [List.mem_cons.1 hx]) h)
      (by
        rcases hlast with h | h
        · rcases List.mem_cons.1 h with h' | h'
          · right; simp [h']
          · left; exact h'
        · right; simp [h])
      (by
        intro p hp
        rw [hk]
        rcases List.mem_cons.1 hp with h | h
        · rw [h]; exact Sys.mem_keys_of_get? hg
        · exact hpk p h)
      (by simp at hf ⊢; omega)
    cases hd : doAncestors f (sys.put l1) m now fn acc (n :: path) with
    | mk s2 r =>
      rw [hd] at this
      simp only at this
      subst this
      rfl

/-- **parents_immediate** (system level): after a successful `SetParents ps` at `n`, the parent read that
`DoAncestors` performs at `n` returns exactly `ps` and changes nothing -/
theorem setParents_at_then_read {sys sys' : Sys} (wf : SysWF sys) {c : Ctx} {n : String} {ps : List String}
    {now : Int} {r : String} (h : sys.at n (locSetParents c ps now) = (sys', .ok r)) (now' : Int) :
    sys'.at n (locGetParentsRaw now') = (sys', .ok ps) := by
  obtain ⟨l, hg⟩ := Sys.at_ok_get? h
  rw [Sys.at_some _ hg] at h
  cases hs : locSetParents c ps now l with
  | mk l' r' =>
    rw [hs] at h
    cases h
    have hname : l'.name = n := by
      have := (locSetParents_keeps c ps now).keepsName l
      rw [hs] at this; rw [this]; exact wf.name_of_get? hg
    have hg' : (sys.put l').get? n = some l' := by rw [Sys.get?_put]; simp [hname]
    rw [Sys.at_some _ hg', setParents_then_get hs now']
    simp only [Sys.put_same (wf.put l') hg']

theorem sysFresh_ab_wf (k : Kind) : SysWF (Sys.fresh k ["a", "b"]) :=
  ⟨by simp [Sys.fresh, Sys.keys], by intro k l h; simp [Sys.fresh] at h; rcases h with ⟨rfl, rfl⟩ | ⟨rfl, rfl⟩ <;> rfl⟩

import RulioProofs.PatIndexBase

/-! # Pattern index: the search follows every embedded path (C01, part 2) -/

namespace PI

/-! ## helpers: `union`, `foldl union`, `mapM` in `Except` -/

theorem mem_union_left {a b : List String} {x : String} (h : x ∈ a) : x ∈ union a b := by
  unfold union; exact List.mem_append_left _ h

theorem mem_union_right {a b : List String} {x : String} (h : x ∈ b) : x ∈ union a b := by
  unfold union
  by_cases hx : x ∈ a
  · exact List.mem_append_left _ hx
  · apply List.mem_append_right
    simp [List.mem_filter, h, hx]

theorem mem_union_iff {a b : List String} {x : String} : x ∈ union a b ↔ x ∈ a ∨ x ∈ b := by
  constructor
  · unfold union; intro h
    rcases List.mem_append.1 h with h | h
    · exact Or.inl h
    · exact Or.inr (List.mem_filter.1 h).1
  · rintro (h | h)
    · exact mem_union_left h
    · exact mem_union_right h

theorem mem_foldl_union {x : String} : ∀ (ms : List (List String)) (init : List String),
    x ∈ ms.foldl union init ↔ x ∈ init ∨ ∃ m ∈ ms, x ∈ m
  | [], init => by simp
  | m :: ms, init => by
    rw [List.foldl_cons, mem_foldl_union ms, mem_union_iff]
    simp only [List.mem_cons, exists_eq_or_imp]
    exact or_assoc

theorem mapM_ok {α β ε : Type} (f : α → Except ε β) : ∀ (l : List α) (rs : List β),
    l.mapM f = .ok rs → ∀ n ∈ l, ∃ r ∈ rs, f n = .ok r
  | [], _, _, n, hn => by simp at hn
  | a :: l, rs, h, n, hn => by
    rw [List.mapM_cons] at h
    cases hfa : f a with
    | error e => rw [hfa] at h; simp [bind, Except.bind] at h
    | ok b =>
      cases hl : l.mapM f with
      | error e => rw [hfa, hl] at h; simp [bind, Except.bind] at h
      | ok bs =>
        rw [hfa, hl] at h
        simp only [bind, Except.bind, pure, Except.pure, Except.ok.injEq] at h
        subst h
        rcases List.mem_cons.1 hn with rfl | hn
        · exact ⟨b, List.mem_cons_self, hfa⟩
        · obtain ⟨r, hr, hfr⟩ := mapM_ok f l bs hl n hn
          exact ⟨r, List.mem_cons_of_mem _ hr, hfr⟩

theorem mapM_ok_of_all {α β ε : Type} (f : α → Except ε β) : ∀ (l : List α),
    (∀ n ∈ l, ∃ r, f n = .ok r) → ∃ rs, l.mapM f = .ok rs
  | [], _ => ⟨[], rfl⟩
  | a :: l, h => by
    obtain ⟨b, hb⟩ := h a List.mem_cons_self
    obtain ⟨bs, hbs⟩ := mapM_ok_of_all f l (fun n hn => h n (List.mem_cons_of_mem _ hn))
    exact ⟨b :: bs, by rw [List.mapM_cons, hb, hbs]; rfl⟩

/-! ## one step of the search -/

/-- the value part of one search step (verbatim from `PI.search`) -/
def stepVal (fuel : Nat) (ki : PI) (k : String) (v : J) (rest : List (String × J))
    (ids0 : List String) (next0 : List PI) : Except PErr (List String × List PI × List (String × J)) :=
  match picast v with
  | .v => .error .varInEvent
  | .s x => match ki.child (.str x) with
    | some i => pure (union ids0 i.ids, next0 ++ [i], rest)
    | none => pure (ids0, next0, rest)
  | .m kvs => match ki.child .map with
    | some mi => do
      let more ← PI.search fuel mi (mapToPairs kvs ++ rest)
      pure (union (union ids0 more) mi.ids, next0 ++ [mi], rest)
    | none => pure (ids0, next0, rest)
  | .a xs => do
    let sorted ← sortValues xs
    pure (ids0, next0, sorted.map (fun x => (k, x)) ++ rest)

theorem search_zero (idx : PI) (pairs) : search 0 idx pairs = .ok [] := by simp [search]
theorem search_nil (fuel : Nat) (idx : PI) : search fuel idx [] = .ok [] := by
  cases fuel <;> simp [search]

theorem search_cons (fuel : Nat) (idx : PI) (k : String) (v : J) (rest : List (String × J)) :
    search (fuel + 1) idx ((k, v) :: rest) =
      if isVar k && !rest.isEmpty then .error .varKeyWithOthers else
      match (idx.child (.str k)).orElse (fun _ => idx.child (.str "?")) with
      | none => search fuel idx rest
      | some ki => (do
        let (ids1, next1, rest1) ← (stepVal fuel ki k v rest
          (match ki.child .var with | some vi => vi.ids | none => [])
          (match ki.child .var with | some vi => [idx, vi] | none => [idx]))
        let mores ← next1.mapM (fun n => search fuel n rest1)
        pure (mores.foldl union ids1)) := by
  simp only [search, stepVal]
  by_cases hk : (isVar k && !rest.isEmpty) = true
  · simp only [hk, if_true]
  · simp only [hk]
    cases hki : (idx.child (.str k)).orElse (fun _ => idx.child (.str "?")) with
    | none => rfl
    | some ki =>
      simp only []
      cases hvi : ki.child .var <;> rfl

theorem afterPair_lt {k : String} {v : J} {rest rest1 : List (String × J)} (h : afterPair k v rest = some rest1) :
    szO rest1 < szO ((k, v) :: rest) := by
  unfold afterPair at h
  cases hc : picast v with
  | v => simp [hc] at h
  | s x => simp [hc] at h; subst h; exact szO_cons_lt
  | m kvs => simp [hc] at h; subst h; exact szO_cons_lt
  | a xs =>
    have hv := picast_a v xs hc
    subst hv
    cases hs : sortValues xs with
    | error e => simp [hc, hs] at h
    | ok sorted => simp [hc, hs] at h; subst h; exact szO_arr_lt hs

theorem stepVal_ok {fuel : Nat} {ki : PI} {k : String} {v : J} {rest : List (String × J)}
    {ids0 : List String} {next0 : List PI} {ids1 next1 rest1}
    (h : stepVal fuel ki k v rest ids0 next0 = .ok (ids1, next1, rest1)) :
    afterPair k v rest = some rest1 ∧ (∀ y ∈ ids0, y ∈ ids1) ∧ (∀ n ∈ next0, n ∈ next1) ∧
    (∀ x i, picast v = .s x → ki.child (.str x) = some i → (∀ y ∈ i.ids, y ∈ ids1) ∧ i ∈ next1) ∧
    (∀ kvs mi, picast v = .m kvs → ki.child .map = some mi →
      (∀ y ∈ mi.ids, y ∈ ids1) ∧ mi ∈ next1 ∧
      ∃ more, search fuel mi (mapToPairs kvs ++ rest) = .ok more ∧ ∀ y ∈ more, y ∈ ids1) := by
  unfold stepVal at h
  unfold afterPair
  cases hc : picast v with
  | v => simp [hc] at h
  | s x =>
    simp only [hc] at h ⊢
    cases hi : ki.child (.str x) with
    | none =>
      simp only [hi, pure, Except.pure, Except.ok.injEq, Prod.mk.injEq] at h
      obtain ⟨rfl, rfl, rfl⟩ := h
      refine ⟨rfl, fun _ hy => hy, fun _ hn => hn, ?_, by simp⟩
      intro x' i' hx hi'
      cases hx; rw [hi] at hi'; cases hi'
    | some i =>
      simp only [hi, pure, Except.pure, Except.ok.injEq, Prod.mk.injEq] at h
      obtain ⟨rfl, rfl, rfl⟩ := h
      refine ⟨rfl, fun y hy => mem_union_left hy, fun n hn => List.mem_append_left _ hn, ?_, by simp⟩
      intro x' i' hx hi'
      cases hx; rw [hi] at hi'; cases hi'
      exact ⟨fun y hy => mem_union_right hy, by simp⟩
  | m kvs =>
    simp only [hc] at h ⊢
    cases hi : ki.child .map with
    | none =>
      simp only [hi, pure, Except.pure, Except.ok.injEq, Prod.mk.injEq] at h
      obtain ⟨rfl, rfl, rfl⟩ := h
      refine ⟨rfl, fun _ hy => hy, fun _ hn => hn, by simp, ?_⟩
      intro kvs' mi' hx hi'
      cases hi'
    | some mi =>
      simp only [hi] at h
      cases hm : search fuel mi (mapToPairs kvs ++ rest) with
      | error e => simp [hm, bind, Except.bind] at h
      | ok more =>
        simp only [hm, bind, Except.bind, pure, Except.pure, Except.ok.injEq, Prod.mk.injEq] at h
        obtain ⟨rfl, rfl, rfl⟩ := h
        refine ⟨rfl, fun y hy => mem_union_left (mem_union_left hy), fun n hn => List.mem_append_left _ hn,
          by simp, ?_⟩
        intro kvs' mi' hx hi'
        cases hx; cases hi'
        exact ⟨fun y hy => mem_union_right hy, by simp, more, hm, fun y hy => mem_union_left (mem_union_right hy)⟩
  | a xs =>
    simp only [hc] at h ⊢
    cases hs : sortValues xs with
    | error e => simp [hs, bind, Except.bind] at h
    | ok sorted =>
      simp only [hs, bind, Except.bind, pure, Except.pure, Except.ok.injEq, Prod.mk.injEq] at h
      obtain ⟨rfl, rfl, rfl⟩ := h
      simp

/-- the continuation nodes and ids before the value is looked at -/
def ids0 (ki : PI) : List String := match ki.child .var with | some vi => vi.ids | none => []
def next0 (idx ki : PI) : List PI := match ki.child .var with | some vi => [idx, vi] | none => [idx]

theorem search_cons_ok {fuel : Nat} {idx : PI} {k : String} {v : J} {rest : List (String × J)} {ids : List String}
    (h : search (fuel + 1) idx ((k, v) :: rest) = .ok ids) :
    match (idx.child (.str k)).orElse (fun _ => idx.child (.str "?")) with
    | none => search fuel idx rest = .ok ids
    | some ki => ∃ ids1 next1 rest1,
        stepVal fuel ki k v rest (ids0 ki) (next0 idx ki) = .ok (ids1, next1, rest1) ∧
        (∀ y ∈ ids1, y ∈ ids) ∧
        ∀ n ∈ next1, ∃ r, search fuel n rest1 = .ok r ∧ ∀ y ∈ r, y ∈ ids := by
  rw [search_cons] at h
  by_cases hk : (isVar k && !rest.isEmpty) = true
  · simp [hk] at h
  · have hk' : (isVar k && !rest.isEmpty) = false := Bool.eq_false_iff.mpr hk
    rw [hk'] at h
    simp only [Bool.false_eq_true, if_false] at h
    cases hki : (idx.child (.str k)).orElse (fun _ => idx.child (.str "?")) with
    | none => rw [hki] at h; exact h
    | some ki =>
      simp only [hki] at h ⊢
      cases hst : stepVal fuel ki k v rest (ids0 ki) (next0 idx ki) with
      | error e => simp [ids0, next0] at hst; simp [hst, bind, Except.bind] at h
      | ok r =>
        obtain ⟨ids1, next1, rest1⟩ := r
        have hst' := hst
        simp only [ids0, next0] at hst'
        simp only [hst', bind, Except.bind] at h
        cases hm : next1.mapM (fun n => search fuel n rest1) with
        | error e => simp [hm] at h
        | ok mores =>
          simp only [hm, pure, Except.pure, Except.ok.injEq] at h
          subst h
          refine ⟨ids1, next1, rest1, rfl, fun y hy => (mem_foldl_union _ _).2 (Or.inl hy), ?_⟩
          intro n hn
          obtain ⟨r, hr, hfr⟩ := mapM_ok _ _ _ hm n hn
          exact ⟨r, hfr, fun y hy => (mem_foldl_union _ _).2 (Or.inr ⟨r, hr, hy⟩)⟩

theorem idx_mem_next0 (idx ki : PI) : idx ∈ next0 idx ki := by
  unfold next0; cases ki.child .var <;> simp

/-! ## the embedding theorem -/

/-- whenever the search from `idx` on `E` succeeds (with enough fuel), `id` is in its result -/
def Found (id : String) (idx : PI) (E : List (String × J)) : Prop :=
  ∀ fuel ids, szO E < fuel → search fuel idx E = .ok ids → id ∈ ids

/-- the node the search stands on stays among the continuations: dropping pairs in front loses nothing -/
theorem found_skip {id : String} {idx : PI} {rest : List (String × J)} (h : Found id idx rest) :
    ∀ A, Found id idx (A ++ rest) := by
  intro A fuel
  induction fuel generalizing A with
  | zero => intro ids hf; omega
  | succ fuel ih =>
    intro ids hf hs
    match A with
    | [] => exact h _ _ hf hs
    | (k, v) :: A =>
      rw [List.cons_append] at hs hf
      have hs' := search_cons_ok hs
      cases hki : (idx.child (.str k)).orElse (fun _ => idx.child (.str "?")) with
      | none =>
        rw [hki] at hs'
        have hlt : szO (A ++ rest) < fuel := by
          have := @szO_cons_lt k v (A ++ rest)
          omega
        exact ih A ids hlt hs'
      | some ki =>
        rw [hki] at hs'
        obtain ⟨ids1, next1, rest1, hst, _, hn⟩ := hs'
        obtain ⟨hap, _, hn0, _, _⟩ := stepVal_ok hst
        obtain ⟨r, hr, hsub⟩ := hn idx (hn0 idx (idx_mem_next0 idx ki))
        have hlt : szO rest1 < fuel := by
          have := afterPair_lt hap
          omega
        -- rest1 is `A ++ rest` with possibly an expanded array in front
        have : ∃ A', rest1 = A' ++ rest := by
          unfold afterPair at hap
          cases hc : picast v with
          | v => simp [hc] at hap
          | s x => simp [hc] at hap; exact ⟨A, hap.symm⟩
          | m kvs => simp [hc] at hap; exact ⟨A, hap.symm⟩
          | a xs =>
            cases hsv : sortValues xs with
            | error e => simp [hc, hsv] at hap
            | ok sorted =>
              simp [hc, hsv] at hap
              exact ⟨sorted.map (fun x => (k, x)) ++ A, by rw [← hap, List.append_assoc]⟩
        obtain ⟨A', rfl⟩ := this
        exact hsub _ (ih A' r hlt hr)

/-- **search follows embeddings**: if `id` sits at the end of the non-empty path `π` below `idx` and `π`
embeds in the event pairs `E`, every successful search from `idx` on `E` returns `id`. -/
theorem found_of_emb {id : String} {π : List Edge} {E : List (String × J)} (hemb : Emb π E) :
    ∀ idx : PI, π ≠ [] → id ∈ idsAt idx π → Found id idx E := by
  induction hemb with
  | done E => intro idx h; exact absurd rfl h
  | skip π kv E _ ih =>
    intro idx hne hid
    exact found_skip (ih idx hne hid) [kv]
  | const k v x π E hc _ ih =>
    intro idx _ hid fuel ids hf hs
    cases fuel with
    | zero => omega
    | succ fuel =>
      have hki := child_of_mem (n := idx) (e := .str k) (π := .str x :: π) hid
      have hi := child_of_mem (n := idx.childD (.str k)) (e := .str x) (π := π) hid
      have hs' := search_cons_ok hs
      simp only [hki, Option.orElse] at hs'
      obtain ⟨ids1, next1, rest1, hst, hsub1, hn⟩ := hs'
      obtain ⟨hap, _, _, hsx, _⟩ := stepVal_ok hst
      obtain ⟨hiids, hin⟩ := hsx x _ hc hi
      have hr1 : rest1 = E := by simp [afterPair, hc] at hap; exact hap.symm
      subst hr1
      match π with
      | [] => exact hsub1 _ (hiids _ hid)
      | e :: π =>
        obtain ⟨r, hr, hsub⟩ := hn _ hin
        have hlt : szO rest1 < fuel := by have := @szO_cons_lt k v rest1; omega
        exact hsub _ (ih _ (by simp) hid fuel r hlt hr)
  | var k v π E E' hap' _ ih =>
    intro idx _ hid fuel ids hf hs
    cases fuel with
    | zero => omega
    | succ fuel =>
      have hki := child_of_mem (n := idx) (e := .str k) (π := .var :: π) hid
      have hi := child_of_mem (n := idx.childD (.str k)) (e := .var) (π := π) hid
      have hs' := search_cons_ok hs
      simp only [hki, Option.orElse] at hs'
      obtain ⟨ids1, next1, rest1, hst, hsub1, hn⟩ := hs'
      obtain ⟨hap, hi0, hn0, _, _⟩ := stepVal_ok hst
      have hr1 : rest1 = E' := by rw [hap'] at hap; exact (Option.some.inj hap).symm
      subst hr1
      match π with
      | [] =>
        apply hsub1; apply hi0
        simp only [ids0, hi]; exact hid
      | e :: π =>
        have hin : (idx.childD (.str k)).childD .var ∈ next1 := by
          apply hn0; simp [next0, hi]
        obtain ⟨r, hr, hsub⟩ := hn _ hin
        have hlt : szO rest1 < fuel := by have := afterPair_lt hap; omega
        exact hsub _ (ih _ (by simp) hid fuel r hlt hr)
  | mapIn k kvs π E _ ih =>
    intro idx _ hid fuel ids hf hs
    cases fuel with
    | zero => omega
    | succ fuel =>
      have hki := child_of_mem (n := idx) (e := .str k) (π := .map :: π) hid
      have hi := child_of_mem (n := idx.childD (.str k)) (e := .map) (π := π) hid
      have hs' := search_cons_ok hs
      simp only [hki, Option.orElse] at hs'
      obtain ⟨ids1, next1, rest1, hst, hsub1, hn⟩ := hs'
      obtain ⟨hap, _, _, _, hsm⟩ := stepVal_ok hst
      obtain ⟨hiids, hin, more, hmore, hmsub⟩ := hsm kvs _ rfl hi
      match π with
      | [] => exact hsub1 _ (hiids _ hid)
      | e :: π =>
        have hlt : szO (mapToPairs kvs ++ E) < fuel := by have := @szO_map_lt k kvs E; omega
        exact hsub1 _ (hmsub _ (ih _ (by simp) hid fuel more hlt hmore))
  | mapStay k kvs π E _ ih =>
    intro idx _ hid fuel ids hf hs
    cases fuel with
    | zero => omega
    | succ fuel =>
      have hki := child_of_mem (n := idx) (e := .str k) (π := .map :: π) hid
      have hi := child_of_mem (n := idx.childD (.str k)) (e := .map) (π := π) hid
      have hs' := search_cons_ok hs
      simp only [hki, Option.orElse] at hs'
      obtain ⟨ids1, next1, rest1, hst, hsub1, hn⟩ := hs'
      obtain ⟨hap, _, _, _, hsm⟩ := stepVal_ok hst
      obtain ⟨hiids, hin, _⟩ := hsm kvs _ rfl hi
      have hr1 : rest1 = E := by simp [afterPair, picast] at hap; exact hap.symm
      subst hr1
      match π with
      | [] => exact hsub1 _ (hiids _ hid)
      | e :: π =>
        obtain ⟨r, hr, hsub⟩ := hn _ hin
        have hlt : szO rest1 < fuel := by have := @szO_cons_lt k (.obj kvs) rest1; omega
        exact hsub _ (ih _ (by simp) hid fuel r hlt hr)
  | expand k xs sorted π E hsv _ ih =>
    intro idx hne hid fuel ids hf hs
    cases fuel with
    | zero => omega
    | succ fuel =>
      have hki := child_of_mem (n := idx) (e := .str k) (π := π) hid
      have hs' := search_cons_ok hs
      simp only [hki, Option.orElse] at hs'
      obtain ⟨ids1, next1, rest1, hst, hsub1, hn⟩ := hs'
      obtain ⟨hap, _, hn0, _, _⟩ := stepVal_ok hst
      have hr1 : rest1 = sorted.map (fun x => (k, x)) ++ E := by
        simp [afterPair, picast, hsv] at hap; exact hap.symm
      subst hr1
      obtain ⟨r, hr, hsub⟩ := hn idx (hn0 idx (idx_mem_next0 idx _))
      have hlt : szO (sorted.map (fun x => (k, x)) ++ E) < fuel := by have := @szO_arr_lt k xs sorted E hsv; omega
      exact hsub _ (ih idx hne hid fuel r hlt hr)

end PI

import RulioModel.LocInv
import RulioProofs.LocGuards
import RulioProofs.LocState
import RulioProofs.LocExpiry

set_option linter.unusedSimpArgs false
set_option linter.unusedVariables false

namespace LocP

/-! # Rule lifecycle: the disabled flag, removal, re-adding (lemmas for C10) -/

theorem guarded_ok {α} {c : Ctx} {now : Int} {gs : List Guard} {body : LM α} {l l' : Loc} {a : α}
    (h : (runGuards c now gs >>= fun _ => body) l = (l', .ok a)) :
    ∃ l1, runGuards c now gs l = (l1, .ok ()) ∧ body l1 = (l', .ok a) := by
  simp only [bind, LM.bind] at h
  cases hr : runGuards c now gs l with
  | mk l1 r =>
    rw [hr] at h
    cases r with
    | error e => cases h
    | ok u => exact ⟨l1, rfl, h⟩

theorem liftSt_eq {α} (f : St → St × Except LErr α) (l : Loc) :
    LM.liftSt f l = ({ l with st := (f l.st).1 }, (f l.st).2) := rfl

theorem parseProp_flag (id : String) : parseProp (flagFact id) = .ok (some (id, "disabled", .bool true)) := by
  have h1 : idProperty "id" = false := by simp [idProperty]
  have h2 : idProperty "!disabled" = true := by simp [idProperty]
  have h3 : idProperty "deleteWith" = false := by simp [idProperty]
  have h4 : ("!disabled".drop 1).copy = "disabled" := by decide
  simp [parseProp, flagFact, List.filter, h1, h2, h3, h4, Obj.get?, lookupKey]

theorem prepareFact_flag (id fresh : String) (now : Int) :
    prepareFact "" fresh (flagFact id) now = .ok (genPropId id "disabled", flagFact id, flagFact id) := by
  have hs : setExpires (flagFact id) now = .ok (flagFact id, false, 0) :=
    setExpires_again_none (by simp [flagFact, Obj.get?, lookupKey]) (by simp [flagFact, Obj.get?, lookupKey]) now
  rw [prepareFact_eq]
  simp only [genId, parseProp_flag, bind, Except.bind, pure, Except.pure, hs]
  simp [flagFact, Obj.get?, lookupKey]

theorem storedForm_flag (k : Kind) (id : String) : storedForm k (flagFact id) = flagFact id := by
  cases k
  · simp [storedForm, extractRule, flagFact, Obj.get?, lookupKey]
  · rfl

/-- a successful `SetProp id "disabled" true`: the flag fact is what memory and storage hold under `!id.disabled` -/
theorem setProp_disabled_ok {id : String} {now : Int} {l l' : Loc} {r : String}
    (h : setProp id "disabled" (.bool true) now l = (l', .ok r)) :
    r = genPropId id "disabled" ∧
    l'.st.facts = amSet l.st.facts (genPropId id "disabled") (flagFact id) ∧
    l'.st.store = amSet l.st.store (genPropId id "disabled") (.obj (flagFact id)) := by
  have h' : stAdd "" (flagFact id) now l = (l', .ok r) := h
  simp only [stAdd, liftSt_eq, Prod.mk.injEq] at h'
  obtain ⟨hl, hr⟩ := h'
  have hadd : l.st.add "" (flagFact id) now = (l'.st, .ok r) := by
    rw [← hl, ← hr]
  obtain ⟨m, x', hp, hf, hs, _⟩ := St.add_ok hadd
  rw [prepareFact_flag] at hp
  simp only [Except.ok.injEq, Prod.mk.injEq] at hp
  obtain ⟨h1, h2, _⟩ := hp
  subst h1; subst h2
  rw [storedForm_flag] at hf hs
  exact ⟨rfl, hf, hs⟩

/-- a `Rem` that does not fail leaves the id absent from memory -/
theorem St.rem_ok_absent {s s' : St} {id : String} {now : Int} {b : Bool} (h : s.rem id now = (s', .ok b)) :
    amGet s'.facts id = none := by
  unfold St.rem at h
  cases hk : s.kind
  · rw [hk, St.fuel_succ] at h
    exact (irem_ok_absent _ s s' id now b h).1
  · rw [hk, St.fuel_succ] at h
    have := (lrem_absent (6 * s.facts.length + 11 + tiWidth s.ti) s id now).1
    dsimp only at h
    rw [h] at this; exact this

theorem stRem_ok {id : String} {now : Int} {l l' : Loc} {b : Bool} (h : stRem id now l = (l', .ok b)) :
    l.st.rem id now = (l'.st, .ok b) ∧ Keeps l.st l'.st ∧ amGet l'.st.facts id = none := by
  simp only [stRem, liftSt_eq, Prod.mk.injEq] at h
  obtain ⟨hl, hr⟩ := h
  have hrem : l.st.rem id now = (l'.st, .ok b) := by rw [← hl, ← hr]
  refine ⟨hrem, ?_, St.rem_ok_absent hrem⟩
  have := St.rem_keeps l.st id now
  rw [hrem] at this; exact this

theorem checkExpiration_err {f : Obj} {now : Int} {e : LErr} (h : checkExpiration f now = .error e) :
    e = "badExpires" := by
  unfold checkExpiration at h
  split at h
  · cases h
  · cases h
  · cases h; rfl

/-- `RuleEnabled`'s body reads the flag: with the flag fact unexpired (flags carry no expiry) it answers the
negation of `ruleDisabled` and leaves the location alone -/
theorem ruleEnabled_body {id : String} {now : Int} {l : Loc}
    (hfresh : FreshAt l.st (genPropId id "disabled") now) :
    ∃ r, Body.ruleEnabled id now l = (l, r) ∧ ∀ b, r = .ok b → b = !ruleDisabled l.st.facts id now := by
  simp only [Body.ruleEnabled, bind, LM.bind, getProp_eq hfresh, getPropPure, getPure, ruleDisabled]
  cases hg : amGet l.st.facts (genPropId id "disabled") with
  | none => exact ⟨_, rfl, fun b hb => by simp [pure, LM.pure] at hb; simp [← hb]⟩
  | some f =>
    dsimp only
    cases hc : checkExpiration f now with
    | error e =>
      dsimp only
      by_cases he : e = "notFound"
      · simp only [he, if_true]
        rw [checkExpiration_err hc] at he
        exact absurd he (by decide)
      · simp only [he, if_false]; exact ⟨_, rfl, fun b hb => by cases hb⟩
    | ok x =>
      cases x with
      | true => exact absurd hc (hfresh f hg)
      | false =>
        dsimp only
        cases hv : f.get? ("!" ++ "disabled") with
        | none => exact ⟨_, rfl, fun b hb => by cases hb⟩
        | some v =>
          dsimp only
          have hv' : f.get? "!disabled" = some v := hv
          cases v with
          | bool d =>
            refine ⟨_, rfl, fun b hb => ?_⟩
            simp only [pure, LM.pure, Except.ok.injEq] at hb
            subst hb
            simp only [unexpired, hc, hv']
            cases d <;> rfl
          | null => exact ⟨_, rfl, fun b hb => by simp only [pure, LM.pure, Except.ok.injEq] at hb; subst hb; simp [unexpired, hc, hv']; rfl⟩
          | num _ => exact ⟨_, rfl, fun b hb => by simp only [pure, LM.pure, Except.ok.injEq] at hb; subst hb; simp [unexpired, hc, hv']; rfl⟩
          | str _ => exact ⟨_, rfl, fun b hb => by simp only [pure, LM.pure, Except.ok.injEq] at hb; subst hb; simp [unexpired, hc, hv']; rfl⟩
          | arr _ => exact ⟨_, rfl, fun b hb => by simp only [pure, LM.pure, Except.ok.injEq] at hb; subst hb; simp [unexpired, hc, hv']; rfl⟩
          | obj _ => exact ⟨_, rfl, fun b hb => by simp only [pure, LM.pure, Except.ok.injEq] at hb; subst hb; simp [unexpired, hc, hv']; rfl⟩

theorem FreshAt.of_keeps {s s' : St} {id : String} {now : Int} (h : FreshAt s id now) (hk : Keeps s s') :
    FreshAt s' id now := fun f hf => h f (hk.facts_sub hf)

/-- `RemRule`'s body, when it succeeds: the rule and its disabled flag are gone -/
theorem remRule_body_ok {id : String} {now : Int} {l l' : Loc} {r : String}
    (hflag : FreshAt l.st (genPropId id "disabled") now) (h : Body.remRule id now l = (l', .ok r)) :
    amGet l'.st.facts (genPropId id "disabled") = none ∧ amGet l'.st.facts id = none ∧ Keeps l.st l'.st := by
  simp only [Body.remRule, bind, LM.bind] at h
  cases h1 : stRem id now l with
  | mk l2 r2 =>
    rw [h1] at h
    cases r2 with
    | error e => cases h
    | ok b =>
      obtain ⟨_, hk, habs⟩ := stRem_ok h1
      dsimp only at h
      have hfl2 : FreshAt l2.st (genPropId id "disabled") now := hflag.of_keeps hk
      rw [getProp_eq hfl2] at h
      simp only [getPropPure, getPure] at h
      cases hg : amGet l2.st.facts (genPropId id "disabled") with
      | none =>
        rw [hg] at h
        simp only [if_true, pure, LM.pure, Bool.false_eq_true, if_false, Prod.mk.injEq] at h
        obtain ⟨hl, _⟩ := h
        subst hl
        exact ⟨hg, habs, hk⟩
      | some f =>
        rw [hg] at h
        dsimp only at h
        cases hc : checkExpiration f now with
        | error e =>
          rw [hc] at h
          dsimp only at h
          have he : e ≠ "notFound" := by rw [checkExpiration_err hc]; decide
          simp only [he, if_false] at h
          cases h
        | ok x =>
          cases x with
          | true => exact absurd hc (hfl2 f hg)
          | false =>
            rw [hc] at h
            dsimp only at h
            cases hv : f.get? ("!" ++ "disabled") with
            | none => rw [hv] at h; cases h
            | some v =>
              rw [hv] at h
              simp only [if_true, LM.bind] at h
              cases h3 : remProp id "disabled" now l2 with
              | mk l3 r3 =>
                rw [h3] at h
                cases r3 with
                | error e => cases h
                | ok b3 =>
                  simp only [pure, LM.pure, Prod.mk.injEq] at h
                  obtain ⟨hl, _⟩ := h
                  subst hl
                  obtain ⟨_, hk3, habs3⟩ := stRem_ok (show stRem (genPropId id "disabled") now l2 = (l3, .ok b3) from h3)
                  exact ⟨habs3, hk3.facts_none habs, hk.trans hk3⟩

theorem ruleWrapper_keys {rule w : Obj} {now : Int} (h : ruleWrapper rule now = .ok w) :
    w.filter (fun kv => idProperty kv.1) = [] := by
  have h1 : idProperty "rule" = false := by simp [idProperty]
  have h2 : idProperty "expires" = false := by simp [idProperty]
  have h3 : idProperty "deleteWith" = false := by simp [idProperty]
  unfold ruleWrapper at h
  split at h
  · cases h
  · rename_i rule' expiring expires _
    simp only [Except.ok.injEq] at h
    subst h
    cases expiring <;> cases rule'.get? "deleteWith" <;> simp [List.filter, h1, h2, h3]

theorem genId_plain {w : Obj} {given fresh id2 : String} (hk : w.filter (fun kv => idProperty kv.1) = [])
    (h : genId w given fresh = .ok id2) : id2 = (if given == "" then fresh else given) := by
  unfold genId at h
  have hp : parseProp w = .ok none := by simp [parseProp, hk]
  rw [hp] at h
  simp only [bind, Except.bind] at h
  generalize (if (given == "") = true then fresh else given) = id0 at h ⊢
  by_cases hv : isVar id0 = true
  · rw [if_pos hv] at h; cases h
  · rw [if_neg hv] at h; cases h; rfl

/-- `AddRule`'s body, when it succeeds: the prepared wrapper of *this* rule is what memory and storage hold
under the returned id (which is the given id unless that is empty) -/
theorem addRule_body_ok {id : String} {rule : Obj} {now : Int} {l l' : Loc} {id2 : String}
    (h : Body.addRule id rule now l = (l', .ok id2)) :
    ∃ w m x', ruleWrapper rule now = .ok w ∧ prepareFact id l.st.freshId w now = .ok (id2, m, x') ∧
      l'.st.facts = amSet l.st.facts id2 (storedForm l.st.kind m) ∧
      l'.st.store = amSet l.st.store id2 (.obj (storedForm l.st.kind m)) ∧
      (id ≠ "" → id2 = id) ∧ l'.st.kind = l.st.kind := by
  unfold Body.addRule at h
  cases hrm : ruleFromMap rule with
  | error e => rw [hrm] at h; cases h
  | ok rm =>
    rw [hrm] at h
    dsimp only at h
    cases hs : setExpires rule now with
    | error e => rw [hs] at h; cases h
    | ok t =>
      obtain ⟨rule', expiring, expires⟩ := t
      rw [hs] at h
      dsimp only at h
      obtain ⟨w, hw, h⟩ : ∃ w, ruleWrapper rule now = .ok w ∧ stAdd id w now l = (l', .ok id2) := by
        refine ⟨_, ?_, h⟩
        simp only [ruleWrapper, hs]
      simp only [stAdd, liftSt_eq, Prod.mk.injEq] at h
      obtain ⟨hl, hr⟩ := h
      have hadd : l.st.add id w now = (l'.st, .ok id2) := by rw [← hl, ← hr]
      obtain ⟨m, x', hp, hf, hst, hkind⟩ := St.add_ok hadd
      refine ⟨w, m, x', hw, hp, hf, hst, fun hne => ?_, hkind⟩
      have := genId_plain (ruleWrapper_keys hw) (prepareFact_ok hp).1
      rw [this]
      have : (id == "") = false := by simpa using hne
      simp [this]

/-! ## the dispatch specification -/

theorem mapM_flatten_mem {α β : Type} (g : α → Except LErr (List β)) :
    ∀ (xs : List α) (per : List (List β)), xs.mapM g = .ok per →
      ∀ y, y ∈ per.flatten ↔ ∃ x ∈ xs, ∃ r, g x = .ok r ∧ y ∈ r := by
  intro xs
  induction xs with
  | nil =>
    intro per h y
    simp only [List.mapM_nil, pure, Except.pure, Except.ok.injEq] at h
    subst h; simp
  | cons x xs ih =>
    intro per h y
    rw [List.mapM_cons] at h
    cases hx : g x with
    | error e => rw [hx] at h; cases h
    | ok r =>
      rw [hx] at h
      cases hxs : xs.mapM g with
      | error e => rw [hxs] at h; cases h
      | ok rest =>
        rw [hxs] at h
        simp only [bind, Except.bind, pure, Except.pure, Except.ok.injEq] at h
        subst h
        rw [List.flatten_cons, List.mem_append, ih rest hxs y]
        constructor
        · rintro (h1 | ⟨x', hx', r', hr', hy⟩)
          · exact ⟨x, List.mem_cons_self, r, hx, h1⟩
          · exact ⟨x', List.mem_cons_of_mem _ hx', r', hr', hy⟩
        · rintro ⟨x', hx', r', hr', hy⟩
          rcases List.mem_cons.1 hx' with rfl | hx''
          · rw [hx] at hr'; cases hr'; exact Or.inl hy
          · exact Or.inr ⟨x', hx'', r', hr', hy⟩

/-- membership in the dispatch specification: exactly the stored, unexpired, non-scheduled rules whose
`when` pattern matches the event, with the matcher's bindings -/
theorem specDispatchLocal_mem {facts : List (String × Obj)} {ev : Obj} {now : Int} {out : List (String × List Bs)}
    (h : specDispatchLocal facts ev now = .ok out) (id : String) (bss : List Bs) :
    (id, bss) ∈ out ↔ ∃ f pat, (id, f) ∈ facts ∧ unexpired f now = true ∧ whenOf f = some pat ∧
      matchesJ (.obj pat) (.obj ev) = .ok bss ∧ bss ≠ [] := by
  unfold specDispatchLocal at h
  simp only [bind, Except.bind] at h
  split at h
  · cases h
  · rename_i per hper
    simp only [pure, Except.pure, Except.ok.injEq] at h
    subst h
    rw [mapM_flatten_mem _ _ per hper]
    constructor
    · rintro ⟨⟨id', f⟩, hmem, r, hr, hy⟩
      obtain ⟨hmem', hun⟩ := List.mem_filter.1 hmem
      dsimp only at hr
      cases hw : whenOf f with
      | none => rw [hw] at hr; simp only [pure, Except.pure, Except.ok.injEq] at hr; subst hr; cases hy
      | some pat =>
        rw [hw] at hr
        dsimp only at hr
        cases hm : matchesJ (.obj pat) (.obj ev) with
        | error e => rw [hm] at hr; cases hr
        | ok bss' =>
          rw [hm] at hr
          simp only [bind, Except.bind, pure, Except.pure, Except.ok.injEq] at hr
          subst hr
          by_cases he : bss'.isEmpty = true
          · rw [if_pos he] at hy; cases hy
          · rw [if_neg he] at hy
            simp only [List.mem_singleton, Prod.mk.injEq] at hy
            obtain ⟨h1, h2⟩ := hy
            subst h1; subst h2
            exact ⟨f, pat, hmem', hun, hw, hm, by intro hnil; apply he; rw [hnil]; rfl⟩
    · rintro ⟨f, pat, hmem, hun, hw, hm, hne⟩
      refine ⟨(id, f), List.mem_filter.2 ⟨hmem, hun⟩, [(id, bss)], ?_, by simp⟩
      dsimp only
      rw [hw]
      dsimp only
      rw [hm]
      have : bss.isEmpty = false := by cases bss with | nil => exact absurd rfl hne | cons _ _ => rfl
      simp [bind, Except.bind, pure, Except.pure, this]

end LocP

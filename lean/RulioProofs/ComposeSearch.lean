import RulioProofs.PatIndexSearch
import RulioProofs.PatIndexHist

/-! # Composition, index side: the rule search only returns ids that sit in the trie, each once -/

set_option linter.unusedVariables false
set_option linter.unusedSimpArgs false

namespace PI

/-- `x` sits on some node below `idx` -/
def Somewhere (idx : PI) (x : String) : Prop := ∃ π, x ∈ idsAt idx π

theorem somewhere_child {idx c : PI} {e : Edge} (h : idx.child e = some c) {x : String} (hx : Somewhere c x) :
    Somewhere idx x := by
  obtain ⟨π, hπ⟩ := hx
  refine ⟨e :: π, ?_⟩
  rw [idsAt_cons]
  unfold childD
  rw [h]
  exact hπ

theorem somewhere_ids {idx : PI} {x : String} (h : x ∈ idx.ids) : Somewhere idx x := ⟨[], h⟩

theorem mapM_ok_rev {α β ε : Type} (f : α → Except ε β) : ∀ (l : List α) (rs : List β),
    l.mapM f = .ok rs → ∀ r ∈ rs, ∃ n ∈ l, f n = .ok r
  | [], rs, h, r, hr => by
    simp only [List.mapM_nil, pure, Except.pure, Except.ok.injEq] at h
    subst h; cases hr
  | a :: l, rs, h, r, hr => by
    rw [List.mapM_cons] at h
    cases hfa : f a with
    | error e => rw [hfa] at h; simp [bind, Except.bind] at h
    | ok b =>
      cases hl : l.mapM f with
      | error e => rw [hfa, hl] at h; simp [bind, Except.bind] at h
      | ok bs =>
        rw [hfa, hl] at h
        simp only [bind, Except.bind, pure, Except.pure, Except.ok.injEq] at h
        subst h
        rcases List.mem_cons.1 hr with rfl | hr
        · exact ⟨a, List.mem_cons_self, hfa⟩
        · obtain ⟨n, hn, hfn⟩ := mapM_ok_rev f l bs hl r hr
          exact ⟨n, List.mem_cons_of_mem _ hn, hfn⟩

theorem stepVal_somewhere {fuel : Nat} {ki : PI} {k : String} {v : J} {rest : List (String × J)}
    {I0 : List String} {N0 : List PI} {ids1 next1 rest1} (idx : PI)
    (ih : ∀ (idx : PI) (pairs : List (String × J)) (ids : List String), search fuel idx pairs = .ok ids →
      ∀ x ∈ ids, Somewhere idx x)
    (hki : ∀ y, Somewhere ki y → Somewhere idx y)
    (hI0 : ∀ y ∈ I0, Somewhere idx y) (hN0 : ∀ n ∈ N0, ∀ y, Somewhere n y → Somewhere idx y)
    (h : stepVal fuel ki k v rest I0 N0 = .ok (ids1, next1, rest1)) :
    (∀ y ∈ ids1, Somewhere idx y) ∧ (∀ n ∈ next1, ∀ y, Somewhere n y → Somewhere idx y) := by
  unfold stepVal at h
  cases hc : picast v with
  | v => simp [hc] at h
  | s x =>
    simp only [hc] at h
    cases hi : ki.child (.str x) with
    | none =>
      simp only [hi, pure, Except.pure, Except.ok.injEq, Prod.mk.injEq] at h
      obtain ⟨rfl, rfl, rfl⟩ := h
      exact ⟨hI0, hN0⟩
    | some i =>
      simp only [hi, pure, Except.pure, Except.ok.injEq, Prod.mk.injEq] at h
      obtain ⟨rfl, rfl, rfl⟩ := h
      refine ⟨?_, ?_⟩
      · intro y hy
        rcases mem_union_iff.1 hy with hy | hy
        · exact hI0 y hy
        · exact hki y (somewhere_child hi (somewhere_ids hy))
      · intro n hn y hy
        rcases List.mem_append.1 hn with hn | hn
        · exact hN0 n hn y hy
        · have : n = i := by simpa using hn
          subst this
          exact hki y (somewhere_child hi hy)
  | m kvs =>
    simp only [hc] at h
    cases hi : ki.child .map with
    | none =>
      simp only [hi, pure, Except.pure, Except.ok.injEq, Prod.mk.injEq] at h
      obtain ⟨rfl, rfl, rfl⟩ := h
      exact ⟨hI0, hN0⟩
    | some mi =>
      simp only [hi] at h
      cases hm : search fuel mi (mapToPairs kvs ++ rest) with
      | error e => simp [hm, bind, Except.bind] at h
      | ok more =>
        simp only [hm, bind, Except.bind, pure, Except.pure, Except.ok.injEq, Prod.mk.injEq] at h
        obtain ⟨rfl, rfl, rfl⟩ := h
        refine ⟨?_, ?_⟩
        · intro y hy
          rcases mem_union_iff.1 hy with hy | hy
          · rcases mem_union_iff.1 hy with hy | hy
            · exact hI0 y hy
            · exact hki y (somewhere_child hi (ih mi _ more hm y hy))
          · exact hki y (somewhere_child hi (somewhere_ids hy))
        · intro n hn y hy
          rcases List.mem_append.1 hn with hn | hn
          · exact hN0 n hn y hy
          · have : n = mi := by simpa using hn
            subst this
            exact hki y (somewhere_child hi hy)
  | a xs =>
    simp only [hc] at h
    cases hs : sortValues xs with
    | error e => simp [hs, bind, Except.bind] at h
    | ok sorted =>
      simp only [hs, bind, Except.bind, pure, Except.pure, Except.ok.injEq, Prod.mk.injEq] at h
      obtain ⟨rfl, rfl, rfl⟩ := h
      exact ⟨hI0, hN0⟩

/-- **the trie walk only returns ids that sit on some node of the trie** -/
theorem search_somewhere : ∀ (fuel : Nat) (idx : PI) (pairs : List (String × J)) (ids : List String),
    search fuel idx pairs = .ok ids → ∀ x ∈ ids, Somewhere idx x := by
  intro fuel
  induction fuel with
  | zero => intro idx pairs ids h x hx; rw [search_zero] at h; cases h; cases hx
  | succ fuel ih =>
    intro idx pairs ids h x hx
    cases pairs with
    | nil => rw [search_nil] at h; cases h; cases hx
    | cons kv rest =>
      obtain ⟨k, v⟩ := kv
      rw [search_cons] at h
      split at h
      · cases h
      · cases hki : (idx.child (.str k)).orElse (fun _ => idx.child (.str "?")) with
        | none => rw [hki] at h; exact ih idx rest ids h x hx
        | some ki =>
          rw [hki] at h
          simp only at h
          have hchild : ∃ e, idx.child e = some ki := by
            cases h1 : idx.child (.str k) with
            | some c => rw [h1] at hki; simp [Option.orElse] at hki; exact ⟨_, hki ▸ h1⟩
            | none => rw [h1] at hki; simp [Option.orElse] at hki; exact ⟨_, hki⟩
          obtain ⟨e, he⟩ := hchild
          have hkiS : ∀ y, Somewhere ki y → Somewhere idx y := fun y hy => somewhere_child he hy
          have hI0 : ∀ y ∈ ids0 ki, Somewhere idx y := by
            intro y hy
            unfold ids0 at hy
            cases hv : ki.child .var with
            | none => rw [hv] at hy; cases hy
            | some vi => rw [hv] at hy; exact hkiS y (somewhere_child hv (somewhere_ids hy))
          have hN0 : ∀ n ∈ next0 idx ki, ∀ y, Somewhere n y → Somewhere idx y := by
            intro n hn y hy
            unfold next0 at hn
            cases hv : ki.child .var with
            | none =>
              rw [hv] at hn
              have : n = idx := by simpa using hn
              subst this; exact hy
            | some vi =>
              rw [hv] at hn
              simp only [List.mem_cons, List.not_mem_nil, or_false] at hn
              rcases hn with rfl | rfl
              · exact hy
              · exact hkiS y (somewhere_child hv hy)
          cases hst : stepVal fuel ki k v rest (ids0 ki) (next0 idx ki) with
          | error e => simp [ids0, next0] at hst; simp [hst, bind, Except.bind] at h
          | ok r =>
            obtain ⟨ids1, next1, rest1⟩ := r
            have hst' := hst
            simp only [ids0, next0] at hst'
            simp only [hst', bind, Except.bind] at h
            obtain ⟨hA, hB⟩ := stepVal_somewhere idx ih hkiS hI0 hN0 hst
            cases hm : next1.mapM (fun n => search fuel n rest1) with
            | error e => simp [hm] at h
            | ok mores =>
              simp only [hm, pure, Except.pure, Except.ok.injEq] at h
              subst h
              rcases (mem_foldl_union _ _).1 hx with hx | ⟨r, hr, hxr⟩
              · exact hA x hx
              · obtain ⟨n, hn, hfn⟩ := mapM_ok_rev _ _ _ hm r hr
                exact hB n hn x (ih n rest1 r hfn x hxr)

/-- **`SearchPatternsMap` only returns ids that sit on some node of the trie** -/
theorem piSearch_somewhere {ri : PI} {ev : Obj} {ids : List String} (h : piSearch ri ev = .ok ids) :
    ∀ x ∈ ids, Somewhere ri x := by
  unfold piSearch at h
  cases hs : search (searchFuel (mapToPairs ev)) ri (mapToPairs ev) with
  | error e => simp [hs, Except.map] at h
  | ok ids0 =>
    simp only [hs, Except.map, Except.ok.injEq] at h
    subst h
    intro x hx
    rcases mem_union_iff.1 hx with hx | hx
    · exact search_somewhere _ ri _ ids0 hs x hx
    · exact somewhere_ids hx

/-! ## no id is returned twice -/

theorem nodup_union {a b : List String} (ha : a.Nodup) (hb : b.Nodup) : (union a b).Nodup := by
  unfold union
  rw [List.nodup_append]
  refine ⟨ha, hb.filter _, ?_⟩
  intro x hx y hy hxy
  subst hxy
  have := (List.mem_filter.1 hy).2
  simp only [Bool.not_eq_true', List.contains_eq_mem, decide_eq_false_iff_not] at this
  exact this hx

theorem nodup_foldl_union : ∀ (ms : List (List String)) (init : List String), init.Nodup →
    (∀ m ∈ ms, m.Nodup) → (ms.foldl union init).Nodup
  | [], init, h, _ => h
  | m :: ms, init, h, hm => by
    rw [List.foldl_cons]
    exact nodup_foldl_union ms _ (nodup_union h (hm m List.mem_cons_self))
      (fun m' hm' => hm m' (List.mem_cons_of_mem _ hm'))

/-- every id list below the node is duplicate free -/
def NodupBelow (idx : PI) : Prop := ∀ π, (idsAt idx π).Nodup

theorem nodupBelow_child {idx c : PI} {e : Edge} (h : idx.child e = some c) (hn : NodupBelow idx) : NodupBelow c := by
  intro π
  have := hn (e :: π)
  rw [idsAt_cons] at this
  unfold childD at this
  rw [h] at this
  exact this

theorem search_nodup : ∀ (fuel : Nat) (idx : PI) (pairs : List (String × J)) (ids : List String),
    NodupBelow idx → search fuel idx pairs = .ok ids → ids.Nodup := by
  intro fuel
  induction fuel with
  | zero => intro idx pairs ids _ h; rw [search_zero] at h; cases h; exact List.nodup_nil
  | succ fuel ih =>
    intro idx pairs ids hnd h
    cases pairs with
    | nil => rw [search_nil] at h; cases h; exact List.nodup_nil
    | cons kv rest =>
      obtain ⟨k, v⟩ := kv
      rw [search_cons] at h
      split at h
      · cases h
      · cases hki : (idx.child (.str k)).orElse (fun _ => idx.child (.str "?")) with
        | none => rw [hki] at h; exact ih idx rest ids hnd h
        | some ki =>
          rw [hki] at h
          simp only at h
          have hchild : ∃ e, idx.child e = some ki := by
            cases h1 : idx.child (.str k) with
            | some c => rw [h1] at hki; simp [Option.orElse] at hki; exact ⟨_, hki ▸ h1⟩
            | none => rw [h1] at hki; simp [Option.orElse] at hki; exact ⟨_, hki⟩
          obtain ⟨e, he⟩ := hchild
          have hkn : NodupBelow ki := nodupBelow_child he hnd
          have hI0 : (ids0 ki).Nodup := by
            unfold ids0
            cases hv : ki.child .var with
            | none => exact List.nodup_nil
            | some vi => exact (nodupBelow_child hv hkn) []
          have hN0 : ∀ n ∈ next0 idx ki, NodupBelow n := by
            intro n hn
            unfold next0 at hn
            cases hv : ki.child .var with
            | none =>
              rw [hv] at hn
              have : n = idx := by simpa using hn
              subst this; exact hnd
            | some vi =>
              rw [hv] at hn
              simp only [List.mem_cons, List.not_mem_nil, or_false] at hn
              rcases hn with rfl | rfl
              · exact hnd
              · exact nodupBelow_child hv hkn
          cases hst : stepVal fuel ki k v rest (ids0 ki) (next0 idx ki) with
          | error e => simp [ids0, next0] at hst; simp [hst, bind, Except.bind] at h
          | ok r =>
            obtain ⟨ids1, next1, rest1⟩ := r
            have hst' := hst
            simp only [ids0, next0] at hst'
            simp only [hst', bind, Except.bind] at h
            generalize ids0 ki = I0 at hst hI0
            generalize next0 idx ki = N0 at hst hN0
            have hAB : ids1.Nodup ∧ ∀ n ∈ next1, NodupBelow n := by
              unfold stepVal at hst
              cases hc : picast v with
              | v => simp [hc] at hst
              | s x =>
                simp only [hc] at hst
                cases hi : ki.child (.str x) with
                | none =>
                  simp only [hi, pure, Except.pure, Except.ok.injEq, Prod.mk.injEq] at hst
                  obtain ⟨rfl, rfl, rfl⟩ := hst
                  exact ⟨hI0, hN0⟩
                | some i =>
                  simp only [hi, pure, Except.pure, Except.ok.injEq, Prod.mk.injEq] at hst
                  obtain ⟨rfl, rfl, rfl⟩ := hst
                  refine ⟨nodup_union hI0 ((nodupBelow_child hi hkn) []), ?_⟩
                  intro n hn
                  rcases List.mem_append.1 hn with hn | hn
                  · exact hN0 n hn
                  · have : n = i := by simpa using hn
                    subst this; exact nodupBelow_child hi hkn
              | m kvs =>
                simp only [hc] at hst
                cases hi : ki.child .map with
                | none =>
                  simp only [hi, pure, Except.pure, Except.ok.injEq, Prod.mk.injEq] at hst
                  obtain ⟨rfl, rfl, rfl⟩ := hst
                  exact ⟨hI0, hN0⟩
                | some mi =>
                  simp only [hi] at hst
                  cases hm : search fuel mi (mapToPairs kvs ++ rest) with
                  | error e => simp [hm, bind, Except.bind] at hst
                  | ok more =>
                    simp only [hm, bind, Except.bind, pure, Except.pure, Except.ok.injEq, Prod.mk.injEq] at hst
                    obtain ⟨rfl, rfl, rfl⟩ := hst
                    have hmn := nodupBelow_child hi hkn
                    refine ⟨nodup_union (nodup_union hI0 (ih mi _ more hmn hm)) (hmn []), ?_⟩
                    intro n hn
                    rcases List.mem_append.1 hn with hn | hn
                    · exact hN0 n hn
                    · have : n = mi := by simpa using hn
                      subst this; exact hmn
              | a xs =>
                simp only [hc] at hst
                cases hs : sortValues xs with
                | error e => simp [hs, bind, Except.bind] at hst
                | ok sorted =>
                  simp only [hs, bind, Except.bind, pure, Except.pure, Except.ok.injEq, Prod.mk.injEq] at hst
                  obtain ⟨rfl, rfl, rfl⟩ := hst
                  exact ⟨hI0, hN0⟩
            cases hm : next1.mapM (fun n => search fuel n rest1) with
            | error e => simp [hm] at h
            | ok mores =>
              simp only [hm, pure, Except.pure, Except.ok.injEq] at h
              subst h
              apply nodup_foldl_union _ _ hAB.1
              intro r hr
              obtain ⟨n, hn, hfn⟩ := mapM_ok_rev _ _ _ hm r hr
              exact ih n rest1 r (hAB.2 n hn) hfn

/-- **`SearchPatternsMap` returns no id twice** (id lists duplicate free, as in every reachable state) -/
theorem piSearch_nodup {ri : PI} {ev : Obj} {ids : List String} (hn : NodupIds ri) (h : piSearch ri ev = .ok ids) :
    ids.Nodup := by
  unfold piSearch at h
  cases hs : search (searchFuel (mapToPairs ev)) ri (mapToPairs ev) with
  | error e => simp [hs, Except.map] at h
  | ok ids0 =>
    simp only [hs, Except.map, Except.ok.injEq] at h
    subst h
    exact nodup_union (search_nodup _ ri _ ids0 hn hs) (hn [])

end PI
